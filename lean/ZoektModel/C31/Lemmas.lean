/-
C31 — the invariant of the small-step model and its preservation by every step.
-/
import ZoektModel.C31.Spec
namespace ZoektModel.C31

/-- program points at which the goroutine holds the read lock -/
def readHeld : Pc → Bool
  | .wLocked _ | .wSkip _ | .wRun _ | .wIn _ | .wDone _ | .wCleared _ => true
  | _ => false

/-- program points at which the goroutine holds the write lock -/
def writeHeld : Pc → Bool
  | .gLocked | .gIn | .gDone => true
  | _ => false

/-- program points at which the goroutine's entry `running[n]` is set (by itself) -/
def busy (n : Nat) : Pc → Bool
  | .wRun m | .wIn m | .wDone m => m == n
  | _ => false

def b2n (b : Bool) : Nat := if b then 1 else 0

@[simp] theorem b2n_true : b2n true = 1 := rfl
@[simp] theorem b2n_false : b2n false = 0 := rfl

def cnt (p : Pc → Bool) : List Pc → Nat
  | [] => 0
  | x :: r => b2n (p x) + cnt p r

def at_ (l : List Pc) (g : Nat) : Pc := l.getD g .idle

@[simp] theorem at_zero (a : Pc) (r : List Pc) : at_ (a :: r) 0 = a := by simp [at_]
@[simp] theorem at_succ (a : Pc) (r : List Pc) (g : Nat) : at_ (a :: r) (g + 1) = at_ r g := by simp [at_]

theorem cnt_set (p : Pc → Bool) (l : List Pc) (g : Nat) (x : Pc) (hg : g < l.length) :
    cnt p (l.set g x) + b2n (p (at_ l g)) = cnt p l + b2n (p x) := by
  induction l generalizing g with
  | nil => simp at hg
  | cons a r ih =>
    cases g with
    | zero => simp [cnt]; omega
    | succ g =>
      have := ih g (by simpa using hg)
      simp only [List.set_cons_succ, cnt, at_succ]
      omega

theorem cnt_replicate_idle (p : Pc → Bool) (hp : p .idle = false) (n : Nat) : cnt p (List.replicate n .idle) = 0 := by
  induction n with
  | zero => rfl
  | succ n ih => simp [List.replicate, cnt, hp, ih]

theorem cnt_pos_of_mem (p : Pc → Bool) (l : List Pc) (i : Nat) (hi : i < l.length) (pi : p (at_ l i) = true) :
    1 ≤ cnt p l := by
  induction l generalizing i with
  | nil => simp at hi
  | cons a r ih =>
    cases i with
    | zero => simp only [at_zero] at pi; simp [cnt, pi]
    | succ i =>
      have := ih i (by simpa using hi) (by simpa using pi)
      simp only [cnt]; omega

/-- two positions satisfying `p` in a list where `p` holds at most once are the same position -/
theorem cnt_le_one_unique (p : Pc → Bool) (l : List Pc) (h : cnt p l ≤ 1) (i j : Nat)
    (hi : i < l.length) (hj : j < l.length) (pi : p (at_ l i) = true) (pj : p (at_ l j) = true) : i = j := by
  induction l generalizing i j with
  | nil => simp at hi
  | cons a r ih =>
    cases i with
    | zero =>
      cases j with
      | zero => rfl
      | succ j =>
        simp only [at_zero, at_succ] at pi pj
        have := cnt_pos_of_mem p r j (by simpa using hj) pj
        simp [cnt, pi] at h
        omega
    | succ i =>
      cases j with
      | zero =>
        simp only [at_zero, at_succ] at pi pj
        have := cnt_pos_of_mem p r i (by simpa using hi) pi
        simp [cnt, pj] at h
        omega
      | succ j =>
        simp only [at_succ] at pi pj
        have hr : cnt p r ≤ 1 := by simp only [cnt] at h; omega
        have := ih hr i j (by simpa using hi) (by simpa using hj) pi pj
        omega

structure Inv (s : State) : Prop where
  readers : s.readers = cnt readHeld s.gs
  writer : cnt writeHeld s.gs = b2n s.writer
  excl : s.writer = true → s.readers = 0
  running : ∀ n, cnt (busy n) s.gs = b2n (s.running.contains n)

theorem inv_init (n : Nat) : Inv (init n) := by
  refine ⟨?_, ?_, ?_, ?_⟩
  · simp [init, cnt_replicate_idle readHeld rfl]
  · simp [init, cnt_replicate_idle writeHeld rfl]
  · simp [init]
  · intro m; simp [init, cnt_replicate_idle (busy m) rfl]

theorem contains_filter_ne (r : List Nat) (n m : Nat) :
    (r.filter (· ≠ n)).contains m = (decide (m ≠ n) && r.contains m) := by
  induction r with
  | nil => simp
  | cons a r ih =>
    by_cases ha : a = n <;> by_cases hm : m = a <;> by_cases hmn : m = n <;>
      simp_all [List.filter, Bool.and_comm]

end ZoektModel.C31
