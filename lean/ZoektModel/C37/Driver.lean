import ZoektModel.Basic.Proto
import ZoektModel.C37.Spec
namespace ZoektModel.C37
open ZoektModel ZoektModel.Proto

/-- entries: `line:nameHex:tag` separated by `;`, `-` for none -/
def parseEntries (s : String) : Option (List Entry) :=
  if s == "-" then some [] else
  (s.splitOn ";").mapM fun e =>
    match e.splitOn ":" with
    | [l, n, t] => do
      let l ← l.toInt?
      let n ← hexToBytes? n
      let t ← t.toNat?
      pure ⟨l, n, t⟩
    | _ => none

def showSecs (l : List Sec) : String := showList (fun s => s!"{s.start}:{s.stop}") l

def parseSecs (s : String) : Option (List Sec) :=
  if s == "-" then some [] else
  (s.splitOn ",").mapM fun e =>
    match e.splitOn ":" with
    | [a, b] => do pure ⟨← a.toNat?, ← b.toNat?⟩
    | _ => none

def render (secs : List Sec) (syms : List Nat) (accepted : Bool) : String :=
  s!"secs={showSecs secs} syms={showNatList syms} add={if accepted then "ok" else "err"}"

/-- impl output `secs=… syms=… add=…` -/
def parseImpl (s : String) : Option (List Sec × List Nat × Bool) :=
  match fields s with
  | [a, b, c] =>
    if a.startsWith "secs=" && b.startsWith "syms=" && c.startsWith "add=" then do
      let secs ← parseSecs (a.drop 5).toString
      let syms ← natList? (b.drop 5).toString
      pure (secs, syms, (c.drop 4).toString == "ok")
    else none
  | _ => none

/-- `conv <contentHex> <entries> <asciiOnly 0|1>`: model output, and `checkP` on the implementation's output.
    `add=` in the model output is the model's prediction of `ShardBuilder.Add`'s section checks; the harness only
    sends names that are valid UTF-8 (the property's hypothesis), so the rune-boundary check cannot fire. -/
def handle (line : String) : String :=
  let (inp, impl) := splitCase line
  match fields inp with
  | ["conv", c, es] =>
    match hexToBytes? c, parseEntries es with
    | some content, some tags =>
      let st := convert content tags
      let model := render st.secs st.syms (addAcceptsFull content st.secs)
      match parseImpl impl with
      | none =>
        if impl == "convert-panic" || impl == "convert-error" then specFail model impl else badCase "impl output"
      | some (isecs, isyms, iadd) =>
        -- names that are not valid UTF-8 are outside the property's hypothesis: correspondence only
        if !(namesValid tags) then answer model
        else if !(checkP content tags isecs isyms) then specFail model "checkP"
        else if !iadd then specFail model "add-rejected"
        else answer model
    | _, _ => badCase "fields"
  | _ => badCase "op"

def main : IO Unit := runLines handle
end ZoektModel.C37
