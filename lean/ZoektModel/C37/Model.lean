/-
C37 — model of index/ctags.go: `tagsToSections.newLinesIndices`, `overlaps`, `tagsToSections.Convert`,
and of the acceptance checks of `ShardBuilder.Add` (index/shard_builder.go) that concern symbol sections.

Offsets are `Nat`; the Go code uses `uint32`, and the shard format rejects contents ≥ 4 GiB, so no
wrap-around is reachable (trusted-base item: `content.length < 2^32`).
-/
import ZoektModel.Basic.Bytes
import ZoektModel.Basic.Utf8
namespace ZoektModel.C37

structure Sec where
  start : Nat
  stop : Nat
  deriving Repr, DecidableEq, BEq

/-- one ctags entry: `Line` (an `int` in Go), `Name`, and an opaque id standing for Kind/Parent/ParentKind -/
structure Entry where
  line : Int
  name : Bytes
  tag : Nat
  deriving Repr

/-- `newLinesIndices`: offsets of every '\n', plus `len` when the content is non-empty and does not end in '\n'. -/
def nlAux : Bytes → Nat → List Nat
  | [], _ => []
  | b :: rest, off =>
    if b = 10 then off :: nlAux rest (off + 1)
    else match rest with
      | [] => [off + 1]
      | _ :: _ => nlAux rest (off + 1)

def newLinesIndices (content : Bytes) : List Nat := nlAux content 0

/-- `overlaps`, scanning from the last section backwards; argument is the *reversed* list. -/
def ovAux : List Sec → Nat → Nat → Option Nat
  | [], _, _ => some 0
  | x :: r, s, e =>
    if s ≥ x.stop then some (r.length + 1)
    else if e ≤ x.start then ovAux r s e
    else none

/-- `overlaps(symOffsets, start, end)`: `none` is Go's -1. -/
def overlaps (l : List Sec) (s e : Nat) : Option Nat := ovAux l.reverse s e

def insertAt {α} (l : List α) (i : Nat) (x : α) : List α := l.take i ++ x :: l.drop i

structure St where
  secs : List Sec
  syms : List Nat
  deriving Repr

/-- where (if anywhere) an entry lands: line bounds, `bytes.Index` on the line -/
def locate (content : Bytes) (nls : List Nat) (t : Entry) : Option Sec :=
  if t.line ≤ 0 then none else
  let lineIdx := (t.line - 1).toNat
  if lineIdx ≥ nls.length then none else
  let lineOff := if lineIdx > 0 then nls.getD (lineIdx - 1) 0 + 1 else 0
  let stop := nls.getD lineIdx 0
  match Bytes.indexOf (Bytes.slice content lineOff stop) t.name with
  | none => none
  | some intra => some ⟨lineOff + intra, lineOff + intra + t.name.length⟩

def step (content : Bytes) (nls : List Nat) (st : St) (t : Entry) : St :=
  match locate content nls t with
  | none => st
  | some sec =>
    match overlaps st.secs sec.start sec.stop with
    | none => st
    | some i => ⟨insertAt st.secs i sec, insertAt st.syms i t.tag⟩

/-- `tagsToSections.Convert` (it never returns an error) -/
def convert (content : Bytes) (tags : List Entry) : St :=
  tags.foldl (step content (newLinesIndices content)) ⟨[], []⟩

/-- the section checks of `ShardBuilder.Add` after its sort: consecutive `last.End > s.Start` is an error,
    `last.End > len(content)` is an error. (The rune-boundary check of `newSearchableString` is `runeAligned`.) -/
def chainOk : List Sec → Bool
  | [] => true
  | [_] => true
  | a :: b :: r => decide (a.stop ≤ b.start) && chainOk (b :: r)

def lastStop : List Sec → Nat
  | [] => 0
  | [a] => a.stop
  | _ :: r => lastStop r

def addAccepts (contentLen : Nat) (secs : List Sec) : Bool :=
  chainOk secs && decide (lastStop secs ≤ contentLen)

/-- `newSearchableString`'s section-boundary loop: at every decoding step, pop the boundaries equal to the current byte
    count; returns the final byte count and the boundaries never matched. -/
def walk : Nat → Bytes → Nat → List Nat → Nat × List Nat
  | _, [], c, bs => (c, bs)
  | 0, _ :: _, c, bs => (c, bs)
  | fuel + 1, b0 :: rest, c, bs =>
    walk fuel ((b0 :: rest).drop (Utf8.dsz (b0 :: rest))) (c + Utf8.dsz (b0 :: rest)) (bs.dropWhile (· == c))

def boundaries (secs : List Sec) : List Nat := secs.flatMap fun s => [s.start, s.stop]

/-- no "no rune for section boundary" error: after the loop the first unmatched boundary (if any) is not below the byte count -/
def runeAligned (content : Bytes) (secs : List Sec) : Bool :=
  match (walk content.length content 0 (boundaries secs)).2 with
  | [] => true
  | b :: _ => !(decide (b < (walk content.length content 0 (boundaries secs)).1))

/-- all section-related checks of `ShardBuilder.Add` -/
def addAcceptsFull (content : Bytes) (secs : List Sec) : Bool :=
  addAccepts content.length secs && runeAligned content secs

end ZoektModel.C37
