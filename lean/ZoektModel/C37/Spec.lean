/-
C37 — the property as an executable predicate, evaluated by the driver on the *implementation's* output
and used verbatim in the theorems of Props/C37.lean.
-/
import ZoektModel.C37.Model
namespace ZoektModel.C37

/-- sections sorted, pairwise disjoint (prev.stop ≤ next.start), each `start ≤ stop ≤ len` -/
def sortedDisjoint : List Sec → Bool
  | [] => true
  | [_] => true
  | a :: b :: r => decide (a.stop ≤ b.start) && sortedDisjoint (b :: r)

def allWithin (n : Nat) (secs : List Sec) : Bool :=
  secs.all fun s => decide (s.start ≤ s.stop) && decide (s.stop ≤ n)

/-- byte offsets `[lo, hi)` of 1-based line `ln` of `content` (excluding its '\n'), if the line exists -/
def lineBounds (content : Bytes) (ln : Int) : Option (Nat × Nat) :=
  let nls := newLinesIndices content
  if ln ≤ 0 then none else
  let i := (ln - 1).toNat
  if i ≥ nls.length then none else
  some (if i > 0 then nls.getD (i - 1) 0 + 1 else 0, nls.getD i 0)

/-- section `s` with metadata id `tag` covers exactly the name of the entry with that id, on that entry's line -/
def coversName (content : Bytes) (tags : List Entry) (s : Sec) (tag : Nat) : Bool :=
  tags.any fun t =>
    t.tag == tag && Bytes.slice content s.start s.stop == t.name &&
    match lineBounds content t.line with
    | none => false
    | some (lo, hi) => decide (lo ≤ s.start) && decide (s.stop ≤ hi)

/-- the whole statement: what C37 demands of a conversion result `(secs, syms)` for `(content, tags)` -/
def checkP (content : Bytes) (tags : List Entry) (secs : List Sec) (syms : List Nat) : Bool :=
  secs.length == syms.length &&
  sortedDisjoint secs && allWithin content.length secs &&
  (secs.zip syms).all (fun p => coversName content tags p.1 p.2) &&
  addAcceptsFull content secs

/-- the property's hypothesis on entry names (they come from encoding/json): valid UTF-8 -/
def namesValid (tags : List Entry) : Bool := tags.all fun t => Utf8.valid t.name

end ZoektModel.C37
