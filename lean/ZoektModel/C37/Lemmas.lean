import ZoektModel.C37.Spec
namespace ZoektModel.C37
open ZoektModel

def R (a b : Sec) : Prop := a.stop ≤ b.start

def WF (n : Nat) (l : List Sec) : Prop :=
  l.Pairwise R ∧ ∀ x ∈ l, x.start ≤ x.stop ∧ x.stop ≤ n

theorem ovAux_split : ∀ (r : List Sec) (s e k : Nat), ovAux r s e = some k →
    ∃ r1 r2, r = r1 ++ r2 ∧ r2.length = k ∧ (∀ x ∈ r1, e ≤ x.start) ∧ (∀ x ∈ r2.head?, x.stop ≤ s) := by
  intro r
  induction r with
  | nil =>
    intro s e k h
    simp [ovAux] at h
    exact ⟨[], [], by simp, by simp [h], by simp, by simp⟩
  | cons x r ih =>
    intro s e k h
    unfold ovAux at h
    split at h
    · rename_i hs
      refine ⟨[], x :: r, by simp, ?_, by simp, ?_⟩
      · simp at h; simp [h]
      · simp; exact hs
    · split at h
      · rename_i he
        obtain ⟨r1, r2, hr, hl, h1, h2⟩ := ih s e k h
        refine ⟨x :: r1, r2, by simp [hr], hl, ?_, h2⟩
        intro y hy
        simp at hy
        rcases hy with rfl | hy
        · exact he
        · exact h1 y hy
      · simp at h

theorem insert_wf (n : Nat) (l : List Sec) (s e k : Nat) (hwf : WF n l) (hse : s ≤ e) (hen : e ≤ n)
    (h : overlaps l s e = some k) : WF n (insertAt l k ⟨s, e⟩) := by
  unfold overlaps at h
  obtain ⟨r1, r2, hr, hl, h1, h2⟩ := ovAux_split _ _ _ _ h
  have hl' : l = r2.reverse ++ r1.reverse := by
    have := congrArg List.reverse hr
    simpa using this
  subst hl'
  have htake : (r2.reverse ++ r1.reverse).take k = r2.reverse := by
    rw [← hl]; simp
  have hdrop : (r2.reverse ++ r1.reverse).drop k = r1.reverse := by
    rw [← hl]; simp
  unfold insertAt
  rw [htake, hdrop]
  obtain ⟨hp, hb⟩ := hwf
  rw [List.pairwise_append] at hp
  obtain ⟨hp2, hp1, hp12⟩ := hp
  -- every element of r2.reverse stops at or before s
  have hstop : ∀ a ∈ r2.reverse, a.stop ≤ s := by
    intro a ha
    cases r2 with
    | nil => simp at ha
    | cons y r2' =>
      have hy : y.stop ≤ s := h2 y (by simp)
      simp at ha
      rcases ha with ha | rfl
      · -- a is before y in the list
        have : R a y := by
          simp [List.pairwise_append] at hp2
          exact hp2.2 a ha
        have hyb := (hb y (by simp)).1
        unfold R at this
        omega
      · exact hy
  refine ⟨?_, ?_⟩
  · rw [List.pairwise_append]
    refine ⟨hp2, ?_, ?_⟩
    · rw [List.pairwise_cons]
      refine ⟨?_, hp1⟩
      intro b hb'
      have := h1 b (by simpa using hb')
      exact this
    · intro a ha b hb'
      simp at hb'
      rcases hb' with rfl | hb'
      · exact hstop a ha
      · exact hp12 a ha b (by simpa using hb')
  · intro x hx
    simp at hx
    rcases hx with hx | rfl | hx
    · exact hb x (by simp [hx])
    · exact ⟨hse, hen⟩
    · exact hb x (by simp [hx])

theorem overlaps_le_length (l : List Sec) (s e k : Nat) (h : overlaps l s e = some k) : k ≤ l.length := by
  unfold overlaps at h
  obtain ⟨r1, r2, hr, hl, _, _⟩ := ovAux_split _ _ _ _ h
  have := congrArg List.length hr
  simp at this
  omega

/-! ### newline index facts -/

theorem nlAux_bounds : ∀ (b : Bytes) (off : Nat), ∀ x ∈ nlAux b off, off ≤ x ∧ x ≤ off + b.length := by
  intro b
  induction b with
  | nil => intro off x hx; simp [nlAux] at hx
  | cons c rest ih =>
    intro off x hx
    unfold nlAux at hx
    split at hx
    · simp at hx
      rcases hx with rfl | hx
      · simp
      · have := ih (off + 1) x hx
        simp; omega
    · cases rest with
      | nil => simp at hx; subst hx; simp
      | cons d rest' =>
        simp at hx
        have := ih (off + 1) x hx
        simp at this ⊢; omega

theorem nlAux_sorted : ∀ (b : Bytes) (off : Nat), (nlAux b off).Pairwise (· < ·) := by
  intro b
  induction b with
  | nil => intro off; simp [nlAux]
  | cons c rest ih =>
    intro off
    unfold nlAux
    split
    · rw [List.pairwise_cons]
      refine ⟨?_, ih (off + 1)⟩
      intro x hx
      have := nlAux_bounds rest (off + 1) x hx
      omega
    · cases rest with
      | nil => simp
      | cons d rest' => exact ih (off + 1)

theorem sorted_getD_lt (l : List Nat) (h : l.Pairwise (· < ·)) (i j : Nat) (hij : i < j) (hj : j < l.length) :
    l.getD i 0 < l.getD j 0 := by
  have hi : i < l.length := by omega
  simp only [List.getD_eq_getElem?_getD, List.getElem?_eq_getElem hi, List.getElem?_eq_getElem hj, Option.getD_some]
  exact List.pairwise_iff_getElem.mp h i j hi hj hij

/-- the slice `content[lineOff:end]` of `Convert` is always in bounds -/
theorem line_slice_in_bounds (content : Bytes) (i : Nat) (hi : i < (newLinesIndices content).length) :
    (if i > 0 then (newLinesIndices content).getD (i - 1) 0 + 1 else 0) ≤ (newLinesIndices content).getD i 0 ∧
    (newLinesIndices content).getD i 0 ≤ content.length := by
  constructor
  · split
    · have := sorted_getD_lt _ (nlAux_sorted content 0) (i - 1) i (by omega) hi
      unfold newLinesIndices at *
      omega
    · omega
  · simp only [List.getD_eq_getElem?_getD, List.getElem?_eq_getElem hi, Option.getD_some]
    have := nlAux_bounds content 0 _ (List.getElem_mem hi)
    simpa [newLinesIndices] using this.2

/-! ### bytes.Index facts -/

theorem isPrefixOf_take (needle hay : Bytes) (h : needle.isPrefixOf hay = true) :
    hay.take needle.length = needle ∧ needle.length ≤ hay.length := by
  rw [List.isPrefixOf_iff_prefix] at h
  obtain ⟨t, rfl⟩ := h
  simp

theorem indexOf_spec : ∀ (hay needle : Bytes) (i : Nat), Bytes.indexOf hay needle = some i →
    i + needle.length ≤ hay.length ∧ Bytes.slice hay i (i + needle.length) = needle := by
  intro hay
  induction hay with
  | nil =>
    intro needle i h
    simp [Bytes.indexOf] at h
    obtain ⟨h1, rfl⟩ := h
    simp [h1, Bytes.slice]
  | cons c t ih =>
    intro needle i h
    unfold Bytes.indexOf at h
    split at h
    · rename_i hp
      simp at h; subst h
      have := isPrefixOf_take needle (c :: t) hp
      simp [Bytes.slice, this.1]
      simpa using this.2
    · simp at h
      obtain ⟨j, hj, rfl⟩ := h
      have := ih needle j hj
      refine ⟨by simp; omega, ?_⟩
      have h2 := this.2
      simp [Bytes.slice] at h2 ⊢
      exact h2

theorem slice_slice (b : Bytes) (lo hi i j : Nat) (hj : lo + j ≤ hi) (_hij : i ≤ j) :
    Bytes.slice (Bytes.slice b lo hi) i j = Bytes.slice b (lo + i) (lo + j) := by
  simp [Bytes.slice, List.drop_take, List.take_take]
  omega

theorem slice_length (b : Bytes) (lo hi : Nat) (h : hi ≤ b.length) : (Bytes.slice b lo hi).length = hi - lo := by
  simp [Bytes.slice]; omega

end ZoektModel.C37

namespace ZoektModel.C37
open ZoektModel

theorem locate_spec (content : Bytes) (t : Entry) (sec : Sec)
    (h : locate content (newLinesIndices content) t = some sec) :
    sec.start ≤ sec.stop ∧ sec.stop ≤ content.length ∧
    Bytes.slice content sec.start sec.stop = t.name ∧
    ∃ lo hi, lineBounds content t.line = some (lo, hi) ∧ lo ≤ sec.start ∧ sec.stop ≤ hi := by
  unfold locate at h
  split at h
  · simp at h
  · rename_i hl
    simp only at h
    split at h
    · simp at h
    · rename_i hi
      have hi' : (t.line - 1).toNat < (newLinesIndices content).length := by omega
      obtain ⟨hb1, hb2⟩ := line_slice_in_bounds content _ hi'
      have hlb : lineBounds content t.line = some
          ((if (t.line - 1).toNat > 0 then (newLinesIndices content).getD ((t.line - 1).toNat - 1) 0 + 1 else 0),
           (newLinesIndices content).getD (t.line - 1).toNat 0) := by
        unfold lineBounds
        simp only [hl, hi, if_false]
      generalize (if (t.line - 1).toNat > 0 then (newLinesIndices content).getD ((t.line - 1).toNat - 1) 0 + 1 else 0) = lo at *
      generalize (newLinesIndices content).getD (t.line - 1).toNat 0 = hi' at *
      split at h
      · simp at h
      · rename_i intra hidx
        have hsec : sec = ⟨lo + intra, lo + intra + t.name.length⟩ := by
          simpa using h.symm
        subst hsec
        have hs := indexOf_spec _ _ _ hidx
        rw [slice_length _ _ _ hb2] at hs
        obtain ⟨hs1, hs2⟩ := hs
        rw [slice_slice _ _ _ _ _ (by omega) (by omega)] at hs2
        refine ⟨by show lo + intra ≤ lo + intra + t.name.length; omega,
                by show lo + intra + t.name.length ≤ content.length; omega, ?_, ?_⟩
        · show Bytes.slice content (lo + intra) (lo + intra + t.name.length) = t.name
          rw [Nat.add_assoc]; exact hs2
        · exact ⟨lo, hi', hlb, by show lo ≤ lo + intra; omega,
                 by show lo + intra + t.name.length ≤ hi'; omega⟩

theorem zip_insertAt {α β} (l : List α) (m : List β) (i : Nat) (x : α) (y : β)
    (hlen : l.length = m.length) (p : α × β)
    (hp : p ∈ (insertAt l i x).zip (insertAt m i y)) : p = (x, y) ∨ p ∈ l.zip m := by
  unfold insertAt at hp
  have h1 : (l.take i).length = (m.take i).length := by simp [hlen]
  rw [List.zip_append h1] at hp
  simp only [List.zip_cons_cons, List.mem_append, List.mem_cons] at hp
  have hz : l.zip m = (l.take i).zip (m.take i) ++ (l.drop i).zip (m.drop i) := by
    rw [← List.zip_append h1]; simp
  rcases hp with hp | rfl | hp
  · right; rw [hz]; simp [hp]
  · left; rfl
  · right; rw [hz]; simp [hp]

end ZoektModel.C37
