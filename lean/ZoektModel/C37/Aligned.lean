import ZoektModel.C37.Lemmas
import ZoektModel.Basic.Utf8Lemmas
namespace ZoektModel.C37
open ZoektModel ZoektModel.Utf8

theorem dropWhile_gt (c : Nat) : ∀ (bs : List Nat), bs.Pairwise (· ≤ ·) → (∀ x ∈ bs, c ≤ x) →
    ∀ x ∈ bs.dropWhile (· == c), c < x := by
  intro bs
  induction bs with
  | nil => intro _ _ x hx; simp at hx
  | cons a t ih =>
    intro hp hge x hx
    rw [List.pairwise_cons] at hp
    rw [List.dropWhile_cons] at hx
    split at hx
    · exact ih hp.2 (fun y hy => hge y (by simp [hy])) x hx
    · rename_i hne
      have hac : c < a := by
        have := hge a (by simp)
        have : a ≠ c := by simpa using hne
        omega
      simp only [List.mem_cons] at hx
      rcases hx with rfl | hx
      · exact hac
      · have := hp.1 x hx; omega

theorem walk_ok (fuel : Nat) : ∀ (data : Bytes) (c : Nat) (bs : List Nat), data.length ≤ fuel →
    bs.Pairwise (· ≤ ·) → (∀ x ∈ bs, x ∈ startsFrom data c) →
    ∀ x ∈ (walk fuel data c bs).2, (walk fuel data c bs).1 ≤ x := by
  induction fuel with
  | zero =>
    intro data c bs hl _ hm x hx
    have : data = [] := List.eq_nil_of_length_eq_zero (by omega)
    subst this
    simp only [walk] at hx ⊢
    have := hm x hx
    simp [startsFrom_nil] at this; omega
  | succ fuel ih =>
    intro data c bs hl hp hm x hx
    cases data with
    | nil =>
      simp only [walk] at hx ⊢
      have := hm x hx
      simp [startsFrom_nil] at this; omega
    | cons b0 rest =>
      simp only [walk] at hx ⊢
      have hpos := dsz_pos b0 rest
      have hgt := dropWhile_gt c bs hp (fun y hy => startsFrom_ge _ _ _ (hm y hy))
      apply ih _ _ _ _ _ _ x hx
      · simp at hl ⊢; omega
      · exact hp.sublist (List.dropWhile_sublist _)
      · intro y hy
        have hy' := hm y ((List.dropWhile_sublist _).subset hy)
        rw [startsFrom_cons] at hy'
        simp only [List.mem_cons] at hy'
        rcases hy' with rfl | hy'
        · have := hgt y hy; omega
        · exact hy'

theorem runeAligned_of (content : Bytes) (secs : List Sec)
    (hp : (boundaries secs).Pairwise (· ≤ ·)) (hm : ∀ x ∈ boundaries secs, x ∈ startsFrom content 0) :
    runeAligned content secs = true := by
  unfold runeAligned
  split
  · rfl
  · rename_i b t heq
    have := walk_ok content.length content 0 (boundaries secs) (Nat.le_refl _) hp hm b (by rw [heq]; simp)
    simp; omega

theorem boundaries_sorted (n : Nat) : ∀ (l : List Sec), WF n l → (boundaries l).Pairwise (· ≤ ·) := by
  intro l
  induction l with
  | nil => intro _; simp [boundaries]
  | cons a t ih =>
    intro ⟨hp, hb⟩
    rw [List.pairwise_cons] at hp
    have iht := ih ⟨hp.2, fun x hx => hb x (by simp [hx])⟩
    have ha := (hb a (by simp)).1
    have hmem : ∀ y ∈ boundaries t, a.stop ≤ y := by
      intro y hy
      simp only [boundaries, List.mem_flatMap] at hy
      obtain ⟨s, hs, hy⟩ := hy
      have h1 := hp.1 s hs
      have h2 := (hb s (by simp [hs])).1
      unfold R at h1
      simp at hy
      rcases hy with rfl | rfl <;> omega
    show (([a.start, a.stop] : List Nat) ++ boundaries t).Pairwise (· ≤ ·)
    rw [List.pairwise_append]
    refine ⟨by simp; exact ha, iht, ?_⟩
    intro x hx y hy
    have := hmem y hy
    simp at hx
    rcases hx with rfl | rfl <;> omega

/-! ### the boundaries `Convert` produces are rune starts (names valid UTF-8) -/

theorem indexOf_nil (hay : Bytes) : Bytes.indexOf hay [] = some 0 := by
  cases hay <;> simp [Bytes.indexOf]

theorem valid_head_nonCont (b0 : UInt8) (rest : Bytes) (hv : valid (b0 :: rest) = true) : cont b0 = false := by
  unfold valid at hv
  simp only [List.length_cons, valid.go] at hv
  unfold cont
  split at hv
  · rename_i ha
    have : ¬ (0x80 : UInt8) ≤ b0 := UInt8.not_le.mpr ha
    simp [this]
  · split at hv
    · simp at hv
    · rename_i hk
      -- a successful multi-byte decode has a lead byte ≥ 0xC2
      have hge : ¬ b0 < 0xC2 := by
        intro hlt
        have : dsz (b0 :: rest) = 1 := by rw [dsz_cons]; simp [hlt]
        omega
      have : ¬ b0 ≤ 0xBF := by
        intro hle
        exact hge (UInt8.lt_of_le_of_lt hle (by decide))
      simp [this]

theorem nlAux_newline : ∀ (b : Bytes) (off i : Nat), i + 1 < (nlAux b off).length →
    b[(nlAux b off).getD i 0 - off]? = some 10 := by
  intro b
  induction b with
  | nil => intro off i h; simp [nlAux] at h
  | cons c rest ih =>
    intro off i h
    unfold nlAux at h ⊢
    split
    · rename_i hc
      simp only [hc, if_true] at h
      cases i with
      | zero => simp [hc]
      | succ i =>
        simp only [List.length_cons] at h
        have hi := ih (off + 1) i (by omega)
        have hlt : i < (nlAux rest (off + 1)).length := by omega
        have hb := nlAux_bounds rest (off + 1) ((nlAux rest (off + 1))[i]) (List.getElem_mem hlt)
        simp only [List.getD_eq_getElem?_getD, List.getElem?_cons_succ, List.getElem?_eq_getElem hlt, Option.getD_some] at hi ⊢
        have : (nlAux rest (off + 1))[i] - off = ((nlAux rest (off + 1))[i] - (off + 1)) + 1 := by omega
        rw [this]; simpa using hi
    · rename_i hc
      simp only [hc, if_false] at h
      cases rest with
      | nil => simp at h
      | cons d rest' =>
        simp only at h ⊢
        have hi := ih (off + 1) i h
        have hlt : i < (nlAux (d :: rest') (off + 1)).length := by omega
        have hb := nlAux_bounds (d :: rest') (off + 1) ((nlAux (d :: rest') (off + 1))[i]) (List.getElem_mem hlt)
        simp only [List.getD_eq_getElem?_getD, List.getElem?_eq_getElem hlt, Option.getD_some] at hi ⊢
        have : (nlAux (d :: rest') (off + 1))[i] - off = ((nlAux (d :: rest') (off + 1))[i] - (off + 1)) + 1 := by omega
        rw [this]; simpa using hi

end ZoektModel.C37

namespace ZoektModel.C37
open ZoektModel ZoektModel.Utf8

theorem locate_empty_start (content : Bytes) (t : Entry) (sec : Sec) (hn : t.name = [])
    (h : locate content (newLinesIndices content) t = some sec) :
    sec.stop = sec.start ∧ sec.start ∈ startsFrom content 0 := by
  unfold locate at h
  split at h
  · simp at h
  · simp only at h
    split at h
    · simp at h
    · rename_i hi
      rw [hn, indexOf_nil] at h
      simp only [Option.some.injEq] at h
      subst h
      refine ⟨by simp, ?_⟩
      simp only [Nat.add_zero]
      split
      · rename_i hpos
        have hlt : (t.line - 1).toNat - 1 + 1 < (nlAux content 0).length := by
          unfold newLinesIndices at hi; omega
        have hnl := nlAux_newline content 0 ((t.line - 1).toNat - 1) hlt
        exact after_ascii_mem content 0 _ 10 (Nat.zero_le _) hnl (by decide)
      · exact startsFrom_head _ _

theorem locate_starts (content : Bytes) (t : Entry) (sec : Sec)
    (h : locate content (newLinesIndices content) t = some sec) (hv : valid t.name = true) :
    sec.start ∈ startsFrom content 0 ∧ sec.stop ∈ startsFrom content 0 := by
  cases hname : t.name with
  | nil =>
    obtain ⟨h1, h2⟩ := locate_empty_start content t sec hname h
    rw [h1]; exact ⟨h2, h2⟩
  | cons b0 rest =>
    obtain ⟨h1, h2, h3, _⟩ := locate_spec content t sec h
    rw [hname] at h3 hv
    have hlen : (b0 :: rest).length = sec.stop - sec.start := by
      rw [← h3, slice_length _ _ _ h2]
    have hsplit : content.drop sec.start = (b0 :: rest) ++ content.drop sec.stop := by
      have := List.take_append_drop (sec.stop - sec.start) (content.drop sec.start)
      unfold Bytes.slice at h3
      rw [h3, List.drop_drop] at this
      have h4 : sec.start + (sec.stop - sec.start) = sec.stop := by omega
      rw [h4] at this
      exact this.symm
    have hget : content[sec.start - 0]? = some b0 := by
      have : (content.drop sec.start)[0]? = some b0 := by rw [hsplit]; simp
      rw [List.getElem?_drop] at this
      simpa using this
    have hstart := nonCont_mem content 0 sec.start b0 (Nat.zero_le _) hget (valid_head_nonCont b0 rest hv)
    refine ⟨hstart, ?_⟩
    apply startsFrom_suffix content 0 sec.start hstart
    simp only [Nat.sub_zero]
    rw [hsplit]
    have := valid_end_mem' (b0 :: rest) (content.drop sec.stop) sec.start hv
    have h5 : sec.start + (b0 :: rest).length = sec.stop := by omega
    rw [h5] at this
    exact this

end ZoektModel.C37
