import ZoektModel.Basic.Proto
import ZoektModel.C04.Spec
namespace ZoektModel.C04
open ZoektModel ZoektModel.Proto

def parseBits (s : String) : Option (List Bool) :=
  if s == "-" then some [] else
  s.toList.mapM fun c => if c == '1' then some true else if c == '0' then some false else none

def showBits (l : List Bool) : String :=
  if l.isEmpty then "-" else String.ofList (l.map fun b => if b then '1' else '0')

/-- `key:ident:wantbits;…` -/
def parseMetas (s : String) : Option (List (Atom × List Bool)) :=
  if s == "-" then some [] else
  (s.splitOn ";").mapM fun e =>
    match e.splitOn ":" with
    | [k, i, w] => do pure (⟨← k.toNat?, ← i.toNat?⟩, ← parseBits w)
    | _ => none

def parseLeaves (s : String) : Option (List (List Bool)) :=
  if s == "-" then some [] else (s.splitOn ";").mapM parseBits

def takeNat (cs : List Char) : Option (Nat × List Char) :=
  let ds := cs.takeWhile Char.isDigit
  if ds.isEmpty then none else (String.ofList ds).toNat?.map (·, cs.dropWhile Char.isDigit)

def nest (f : Q → Q → Q) : List Q → Option Q
  | [] => none
  | [x] => some x
  | x :: r => (nest f r).map (f x)

mutual
partial def parseQ (metas : Array Atom) (leaves : Array (List Bool)) : List Char → Option (Q × List Char)
  | 'T' :: r => some (.all, r)
  | 'F' :: r => some (.none, r)
  | 'm' :: r => do
    let (i, r) ← takeNat r
    pure (.atom (← metas[i]?), r)
  | 'l' :: r => do
    let (i, r) ← takeNat r
    pure (.leaf (← leaves[i]?), r)
  | 'N' :: '(' :: r => do
    let (q, r) ← parseQ metas leaves r
    match r with
    | ')' :: r => pure (.not q, r)
    | _ => none
  | 'A' :: '(' :: r => do
    let (qs, r) ← parseQs metas leaves r
    pure (← nest .and qs, r)
  | 'O' :: '(' :: r => do
    let (qs, r) ← parseQs metas leaves r
    pure (← nest .or qs, r)
  | _ => none
partial def parseQs (metas : Array Atom) (leaves : Array (List Bool)) (cs : List Char) : Option (List Q × List Char) := do
  let (q, r) ← parseQ metas leaves cs
  match r with
  | ',' :: r => do
    let (qs, r) ← parseQs metas leaves r
    pure (q :: qs, r)
  | ')' :: r => pure ([q], r)
  | _ => none
end

/-- every cache `Add e` can leave, over all eviction victims -/
def addAll (cap : Nat) (c : Cache) (e : Entry) : List Cache :=
  ((List.range (cap + 1)).map fun v => add cap c e v).eraseDups

/-- `build` with the eviction victims left open: every (tree, cache) it can produce -/
def buildAll (sh : Shard) (cap : Nat) : Q → Cache → List (MT × Cache)
  | .atom a, c =>
    let miss : List (MT × Cache) :=
      let want := sh.wantOf a.ident
      (addAll cap c ⟨a.key, a.ident, want⟩).map fun c' => (MT.doc (predOf sh want) Cursor.fresh, c')
    match lookup c a.key with
    | some e => if e.ident = a.ident then [(.doc (predOf sh e.want) Cursor.fresh, c)] else miss
    | none => miss
  | .leaf p, c => [(.doc p Cursor.fresh, c)]
  | .all, c => [(.all Cursor.fresh, c)]
  | .none, c => [(.none, c)]
  | .and a b, c => (buildAll sh cap a c).flatMap fun ra => (buildAll sh cap b ra.2).map fun rb => (.and ra.1 rb.1, rb.2)
  | .or a b, c => (buildAll sh cap a c).flatMap fun ra => (buildAll sh cap b ra.2).map fun rb => (.or ra.1 rb.1, rb.2)
  | .not a, c => (buildAll sh cap a c).map fun ra => (.not ra.1, ra.2)

def insertByKey (e : Entry) : Cache → Cache
  | [] => [e]
  | x :: r => if e.key ≤ x.key then e :: x :: r else x :: insertByKey e r

/-- the cache as a set: entries ordered by key (there is at most one entry per key) -/
def canon (c : Cache) : Cache := c.foldr insertByKey []

def insertSorted (s : String) : List String → List String
  | [] => [s]
  | x :: r => if s < x then s :: x :: r else x :: insertSorted s r

def sortStrings (l : List String) : List String := l.foldr insertSorted []

/-- canonical text of a cache: sorted `key:docbits:firstDone:docID`, nodes in the model's cache are never iterated -/
def renderCache (sh : Shard) (c : Cache) : String :=
  if c.isEmpty then "-" else
  ",".intercalate (sortStrings (c.map fun e => s!"{e.key}:{showBits (predOf sh e.want)}:0:0"))

structure ImplSearch where
  r : String
  c : String
  s : String

def parseImplSearch (s : String) : Option ImplSearch :=
  match s.splitOn ";" with
  | [a, b, c] =>
    if a.startsWith "r=" && b.startsWith "c=" && c.startsWith "s=" then
      some ⟨(a.drop 2).toString, (b.drop 2).toString, (c.drop 2).toString⟩
    else none
  | _ => none

/-- are all cursors in the observed cache text pristine? entries are `key:bits:fd:docid` -/
def observedPristine (c : String) : Bool :=
  if c == "-" then true else
  (c.splitOn ",").all fun e =>
    match e.splitOn ":" with
    | [_, _, fd, d] => cursorPristine (fd != "0") (d.toNat?.getD 1)
    | _ => false

/-- `hist <cap> <numDocs> <docRepo> <metas> <leaves> <q1|q2|…>` with impl `r=…;c=…;s=…|…` -/
def handle (line : String) : String :=
  let (inp, impl) := splitCase line
  match fields inp with
  | ["hist", cap, n, dr, ms, ls, qs] =>
    match cap.toNat?, n.toNat?, natList? dr, parseMetas ms, parseLeaves ls with
    | some cap, some n, some docRepo, some metas, some leaves =>
      if docRepo.length != n then badCase "numDocs" else
      let wantTab := metas.toArray
      let sh : Shard := { docRepo := docRepo, wantOf := fun i => (wantTab[i]?.map (·.2)).getD [] }
      let atomTab := (metas.map (·.1)).toArray
      let leafTab := leaves.toArray
      let qstrs := qs.splitOn "|"
      let impls := impl.splitOn "|"
      if qstrs.length != impls.length then badCase "impl length" else
      let step (st : Option (Cache × List String × List (List Nat) × List (List Nat) × Bool × Bool)) (p : String × String) :=
        match st with
        | none => none
        | some (c, outs, hist, alone, pristine, ambiguous) =>
          match parseQ atomTab leafTab p.1.toList, parseImplSearch p.2 with
          | some (q, []), some im =>
            let cands := buildAll sh cap q c
            let first := cands.headD (MT.none, c)
            let r := (runSearch n first.1).1
            let matching := (cands.filter fun x => renderCache sh x.2 == im.c).map (fun x => canon x.2) |>.eraseDups
            let (c', cstr) := match matching with
              | [] => (first.2, "!" ++ renderCache sh first.2)
              | m :: _ => (m, im.c)
            let so := solo sh q
            let out := s!"r={showNatList r};c={cstr};s={showNatList so}"
            some (c', outs ++ [out], hist ++ [(natList? im.r).getD [n + 1]], alone ++ [(natList? im.s).getD [n + 2]],
                  pristine && observedPristine im.c, ambiguous || matching.length > 1)
          | _, _ => none
      match (qstrs.zip impls).foldl step (some ([], [], [], [], true, false)) with
      | none => badCase "query or impl syntax"
      | some (_, outs, hist, alone, pristine, ambiguous) =>
        let model := "|".intercalate outs
        if ambiguous then badCase "ambiguous cache observation"
        else if !(checkP hist alone) then specFail model "history-dependent"
        else if !pristine then specFail model "cached-node-mutated"
        else answer model
    | _, _, _, _, _ => badCase "fields"
  | _ => badCase "op"

def main : IO Unit := runLines handle
end ZoektModel.C04
