import ZoektModel.Basic.Proto
namespace ZoektModel.C04
/-- stub: no model driver for C04 yet -/
def main : IO Unit := ZoektModel.Proto.runLines (fun _ => ZoektModel.Proto.badCase "no model driver for C04")
end ZoektModel.C04
