/-
C04 — the property as executable predicates.  Written from the statement: "for every sequence of searches against
the same loaded index, each search returns exactly what it returns when run alone on a freshly loaded index".
-/
import ZoektModel.C04.Model
namespace ZoektModel.C04

/-- on observed behaviour: `hist[i]` = result of the i-th search of the history on the shared searcher,
    `alone[i]` = result of the same query on a freshly loaded searcher -/
def checkP (hist alone : List (List Nat)) : Bool := hist == alone

/-- the same statement about the model: a history on one searcher (any cache capacity, any eviction choices, any
    cache state `c` it starts from) returns, search by search, the solo results -/
def HistoryIndependent (sh : Shard) (cap : Nat) (qs : List Q) (c : Cache) (ch : List Nat) : Prop :=
  runHistory sh cap qs c ch = qs.map (solo sh)

/-- a node stored in the cache is never iterated: its cursor stays as allocated -/
def cursorPristine (firstDone : Bool) (docID : Nat) : Bool := !firstDone && docID == 0

end ZoektModel.C04
