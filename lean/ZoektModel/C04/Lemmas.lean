/-
C04 — lemmas about the match-tree cursor discipline and the search loop.
-/
import ZoektModel.C04.Spec
namespace ZoektModel.C04

/-- every cursor in the tree is `c` (what `prepare` establishes, and what a freshly built tree satisfies) -/
def Uniform (c : Cursor) : MT → Prop
  | .doc _ cur => cur = c
  | .all cur => cur = c
  | .none => True
  | .and a b => Uniform c a ∧ Uniform c b
  | .or a b => Uniform c a ∧ Uniform c b
  | .not a => Uniform c a

theorem prepare_uniform (d : Nat) (t : MT) : Uniform ⟨true, d⟩ (prepare d t) := by
  induction t with
  | doc p c => rfl
  | all c => rfl
  | none => trivial
  | and a b iha ihb => exact ⟨iha, ihb⟩
  | or a b iha ihb => exact ⟨iha, ihb⟩
  | not a ih => exact ih

theorem eval_prepare (d e : Nat) (t : MT) : eval d (prepare e t) = eval d t := by
  induction t with
  | doc p c => rfl
  | all c => rfl
  | none => rfl
  | and a b iha ihb => simp [prepare, eval, iha, ihb]
  | or a b iha ihb => simp [prepare, eval, iha, ihb]
  | not a ih => simp [prepare, eval, ih]

/-- `docMatchTree.nextDoc` skips only documents on which the predicate is false -/
theorem findFrom_sound : ∀ (pred : List Bool) (i start d : Nat), start ≤ d → i ≤ d → d < findFrom pred i start →
    pred.getD (d - i) false = false := by
  intro pred
  induction pred with
  | nil => intros; rfl
  | cons b r ih =>
    intro i start d hs hi hlt
    unfold findFrom at hlt
    split at hlt
    · omega
    · rename_i hnot
      by_cases hd : d = i
      · subst hd
        have : b = false := by
          cases b with
          | false => rfl
          | true => exact absurd ⟨hs, rfl⟩ hnot
        simp [this]
      · have h1 : d - i = (d - (i + 1)) + 1 := by omega
        rw [h1, List.getD_cons_succ]
        exact ih (i + 1) start d hs (by omega) hlt

/-- `nextDoc` of a tree whose cursors all stand at `c` never skips a matching document at or after `c.start` -/
theorem nextDoc_sound (c : Cursor) (t : MT) (d : Nat) (hu : Uniform c t) (hs : c.start ≤ d) (hlt : d < nextDoc t) :
    eval d t = false := by
  induction t with
  | doc p cur =>
    have hc : cur = c := hu
    subst hc
    have := findFrom_sound p 0 cur.start d hs (Nat.zero_le _) hlt
    simpa [eval] using this
  | all cur =>
    have hc : cur = c := hu
    subst hc
    simp [nextDoc] at hlt
    omega
  | none => rfl
  | and a b iha ihb =>
    simp only [nextDoc] at hlt
    simp only [eval, Bool.and_eq_false_iff]
    by_cases h : d < nextDoc a
    · exact Or.inl (iha hu.1 h)
    · exact Or.inr (ihb hu.2 (by omega))
  | or a b iha ihb =>
    simp only [nextDoc] at hlt
    simp only [eval, Bool.or_eq_false_iff]
    exact ⟨iha hu.1 (by omega), ihb hu.2 (by omega)⟩
  | not a _ =>
    simp [nextDoc] at hlt

theorem filter_range'_nil (p : Nat → Bool) (lo k : Nat) (h : ∀ d, lo ≤ d → d < lo + k → p d = false) :
    (List.range' lo k).filter p = [] := by
  rw [List.filter_eq_nil_iff]
  intro d hd
  rw [List.mem_range'_1] at hd
  simp [h d hd.1 hd.2]

/-- **the document loop returns exactly the matching documents** from `lo` on, in order, provided the tree's cursors
    are uniform and not ahead of `lo` (true of a freshly built tree; false of a tree containing a node left over from
    another search) -/
theorem loop_spec (n : Nat) : ∀ (fuel : Nat) (t : MT) (lo : Nat) (c : Cursor), Uniform c t → c.start ≤ lo → n - lo ≤ fuel →
    (loop n fuel t lo).1 = (List.range' lo (n - lo)).filter (fun d => eval d t) := by
  intro fuel
  induction fuel with
  | zero =>
    intro t lo c _ _ hf
    have : n - lo = 0 := by omega
    simp [loop, this]
  | succ fuel ih =>
    intro t lo c hu hs hf
    unfold loop
    simp only
    split
    · rename_i hge
      symm
      apply filter_range'_nil
      intro d h1 h2
      apply nextDoc_sound c t d hu (by omega)
      have : d < max (nextDoc t) lo := by omega
      omega
    · rename_i hlt
      have hnd : max (nextDoc t) lo < n := by omega
      have hlo : lo ≤ max (nextDoc t) lo := Nat.le_max_right _ _
      generalize hndef : max (nextDoc t) lo = nd at *
      have hsplit : n - lo = (nd - lo) + ((n - (nd + 1)) + 1) := by omega
      have hrange : List.range' lo (n - lo) = List.range' lo (nd - lo) ++ nd :: List.range' (nd + 1) (n - (nd + 1)) := by
        rw [hsplit, ← List.range'_append_1]
        congr 1
        have : lo + (nd - lo) = nd := by omega
        rw [this, List.range'_succ]
      have hfirst : (List.range' lo (nd - lo)).filter (fun d => eval d t) = [] := by
        apply filter_range'_nil
        intro d h1 h2
        apply nextDoc_sound c t d hu (by omega)
        have : d < max (nextDoc t) lo := by omega
        omega
      have hrest := ih (prepare nd t) (nd + 1) ⟨true, nd⟩ (prepare_uniform nd t) (by simp [Cursor.start]) (by omega)
      have hcongr : (List.range' (nd + 1) (n - (nd + 1))).filter (fun d => eval d (prepare nd t)) =
          (List.range' (nd + 1) (n - (nd + 1))).filter (fun d => eval d t) := by
        congr 1
        funext d
        exact eval_prepare d nd t
      rw [hrange, List.filter_append, hfirst, List.nil_append, List.filter_cons, eval_prepare]
      split
      · simp [hrest, hcongr]
      · simp [hrest, hcongr]

/-- membership lemmas for the cache -/
theorem lookup_mem (c : Cache) (k : Nat) (e : Entry) (h : lookup c k = some e) : e ∈ c :=
  List.mem_of_find?_eq_some h

theorem mem_add (cap : Nat) (c : Cache) (e x : Entry) (v : Nat) (h : x ∈ add cap c e v) : x = e ∨ x ∈ c := by
  unfold add at h
  split at h
  · exact Or.inr h
  · simp only at h
    split at h
    · have := List.mem_of_mem_eraseIdx h
      rcases List.mem_cons.mp this with h1 | h1
      · exact Or.inl h1
      · exact Or.inr (List.mem_filter.mp h1).1
    · rcases List.mem_cons.mp h with h1 | h1
      · exact Or.inl h1
      · exact Or.inr (List.mem_filter.mp h1).1

theorem add_length (cap : Nat) (c : Cache) (e : Entry) (v : Nat) (h : c.length ≤ cap) : (add cap c e v).length ≤ cap := by
  unfold add
  split
  · exact h
  · simp only
    have hf : (c.filter (fun x => x.key != e.key)).length ≤ c.length := List.length_filter_le _ _
    split
    · rw [List.length_eraseIdx]
      split
      · simp only [List.length_cons]; omega
      · rename_i hnot
        exfalso
        apply hnot
        apply Nat.mod_lt
        simp
    · omega

end ZoektModel.C04
