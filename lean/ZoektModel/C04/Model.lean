/-
C04 — model of the state that searches on one shard share, and of everything a search does with it:

* `docMatchTree` (index/matchtree.go): a predicate over documents plus the *mutable* iteration cursor
  `firstDone/docID`; `nextDoc`, `prepare`, `matches`; `andMatchTree/orMatchTree/notMatchTree/bruteForceMatchTree/
  noMatchTree.nextDoc/prepare`;
* the document loop of `indexData.Search` (index/eval.go): `nextDoc := mt.nextDoc(); if nextDoc <= lastDoc
  {nextDoc = lastDoc+1}; …; mt.prepare(nextDoc); evaluate`;
* `docMatchTreeCache` (index/docmatchtreecache.go): `Get`, `Add` with overwrite, capacity check and eviction of an
  *arbitrary* entry (Go map iteration order — a parameter `victim` of the model);
* `newMatchTree`'s `case *query.Meta` (index/matchtree.go) as it is after the `fix:` commit: a cache hit is used only
  if it was built for the same field and value, and it is handed out as a copy with a fresh cursor; what is stored in
  the cache is a separate node.  `Legacy.*` below is the code before the fix (the cached node itself is returned
  and iterated; hits are not verified), kept for the `legacy_*_false` witnesses.

Core Lean only.
-/
namespace ZoektModel.C04

/-- `math.MaxUint32`, returned by `nextDoc` when a tree has no further candidate -/
def inf : Nat := 4294967295

structure Cursor where
  firstDone : Bool
  docID : Nat
  deriving Repr, DecidableEq

def Cursor.fresh : Cursor := ⟨false, 0⟩

/-- `var start uint32; if t.firstDone { start = t.docID + 1 }` -/
def Cursor.start (c : Cursor) : Nat := if c.firstDone then c.docID + 1 else 0

/-- match trees for the modelled query language. `doc` is `docMatchTree` (Meta atoms; content atoms are modelled
    as the same kind of node over the set of documents they match). n-ary and/or are right-nested. -/
inductive MT where
  | doc (pred : List Bool) (cur : Cursor)
  | all (cur : Cursor)          -- bruteForceMatchTree (Const true)
  | none                        -- noMatchTree (Const false)
  | and (a b : MT)
  | or (a b : MT)
  | not (a : MT)
  deriving Repr, DecidableEq

/-- `for i := start; i < numDocs; i++ { if predicate(i) { return i } }; return MaxUint32`
    (`pred` has one entry per document; `i` is the index of the head) -/
def findFrom : List Bool → Nat → Nat → Nat
  | [], _, _ => inf
  | b :: r, i, start => if start ≤ i ∧ b = true then i else findFrom r (i + 1) start

def nextDoc : MT → Nat
  | .doc pred cur => findFrom pred 0 cur.start
  | .all cur => cur.start                       -- `if !firstDone {return 0}; return docID+1`
  | .none => inf
  | .and a b => max (nextDoc a) (nextDoc b)
  | .or a b => min (nextDoc a) (nextDoc b)
  | .not _ => 0

def prepare (d : Nat) : MT → MT
  | .doc pred _ => .doc pred ⟨true, d⟩
  | .all _ => .all ⟨true, d⟩
  | .none => .none
  | .and a b => .and (prepare d a) (prepare d b)
  | .or a b => .or (prepare d a) (prepare d b)
  | .not a => .not (prepare d a)

/-- `matches` for document `d` (it reads `cp.idx`, never the cursor) -/
def eval (d : Nat) : MT → Bool
  | .doc pred _ => pred.getD d false
  | .all _ => true
  | .none => false
  | .and a b => eval d a && eval d b
  | .or a b => eval d a || eval d b
  | .not a => !eval d a

/-- the document loop of `indexData.Search` for a shard of `n` documents; `lo = lastDoc + 1`.
    Returns the matching documents in the order found, and the tree as the search leaves it. -/
def loop (n : Nat) : Nat → MT → Nat → List Nat × MT
  | 0, t, _ => ([], t)
  | fuel + 1, t, lo =>
    let nd := max (nextDoc t) lo
    if nd ≥ n then ([], t) else
    let t' := prepare nd t
    let r := loop n fuel t' (nd + 1)
    if eval nd t' then (nd :: r.1, r.2) else r

def runSearch (n : Nat) (t : MT) : List Nat × MT := loop n n t 0

/-! ### the cache -/

/-- a `query.Meta` atom: `key` stands for `queryMetaChecksum(field, value)`, `ident` for the pair (field, value).
    Different idents may share a key. -/
structure Atom where
  key : Nat
  ident : Nat
  deriving Repr, DecidableEq

/-- a cached node: its key, what it was built for, and `reposWant` (one entry per repository) -/
structure Entry where
  key : Nat
  ident : Nat
  want : List Bool
  deriving Repr, DecidableEq

abbrev Cache := List Entry

def lookup (c : Cache) (k : Nat) : Option Entry := c.find? (fun e => e.key == k)

/-- `docMatchTreeCache.Add`: no-op when `maxEntries == 0`; `c.cache[k] = mt`; if `len > maxEntries`, delete
    the first key of a map iteration (any entry, possibly the new one) -/
def add (cap : Nat) (c : Cache) (e : Entry) (victim : Nat) : Cache :=
  if cap = 0 then c else
  let c' := e :: c.filter (fun x => x.key != e.key)
  if c'.length > cap then c'.eraseIdx (victim % c'.length) else c'

structure Shard where
  docRepo : List Nat             -- `d.repos`: document → repository index
  wantOf : Nat → List Bool       -- ident → `reposWant` as computed from `d.repoMetaData`

def Shard.numDocs (sh : Shard) : Nat := sh.docRepo.length

/-- the predicate closure of the Meta node: `repoIdx := d.repos[docID]; if repoIdx >= len(reposWant) {false}` -/
def predOf (sh : Shard) (want : List Bool) : List Bool := sh.docRepo.map (fun r => want.getD r false)

/-- the query as it reaches `newMatchTree` -/
inductive Q where
  | atom (a : Atom)
  | leaf (pred : List Bool)
  | all
  | none
  | and (a b : Q)
  | or (a b : Q)
  | not (a : Q)
  deriving Repr, DecidableEq

/-- `newMatchTree` (fixed code). `ch` is the stream of eviction victims, consumed by every `Add`. -/
def build (sh : Shard) (cap : Nat) : Q → Cache → List Nat → MT × Cache × List Nat
  | .atom a, c, ch =>
    let miss : MT × Cache × List Nat :=
      let want := sh.wantOf a.ident
      (.doc (predOf sh want) Cursor.fresh, add cap c ⟨a.key, a.ident, want⟩ (ch.headD 0), ch.tail)
    match lookup c a.key with
    | some e => if e.ident = a.ident then (.doc (predOf sh e.want) Cursor.fresh, c, ch) else miss
    | none => miss
  | .leaf p, c, ch => (.doc p Cursor.fresh, c, ch)
  | .all, c, ch => (.all Cursor.fresh, c, ch)
  | .none, c, ch => (.none, c, ch)
  | .and a b, c, ch =>
    let ra := build sh cap a c ch
    let rb := build sh cap b ra.2.1 ra.2.2
    (.and ra.1 rb.1, rb.2.1, rb.2.2)
  | .or a b, c, ch =>
    let ra := build sh cap a c ch
    let rb := build sh cap b ra.2.1 ra.2.2
    (.or ra.1 rb.1, rb.2.1, rb.2.2)
  | .not a, c, ch =>
    let ra := build sh cap a c ch
    (.not ra.1, ra.2.1, ra.2.2)

/-- the tree a search gets on a freshly loaded shard -/
def freshTree (sh : Shard) : Q → MT
  | .atom a => .doc (predOf sh (sh.wantOf a.ident)) Cursor.fresh
  | .leaf p => .doc p Cursor.fresh
  | .all => .all Cursor.fresh
  | .none => .none
  | .and a b => .and (freshTree sh a) (freshTree sh b)
  | .or a b => .or (freshTree sh a) (freshTree sh b)
  | .not a => .not (freshTree sh a)

/-- one search, alone, on a freshly loaded shard -/
def solo (sh : Shard) (q : Q) : List Nat := (runSearch sh.numDocs (freshTree sh q)).1

/-- one search on a searcher whose cache is `c`: the result and the cache it leaves -/
def searchOnce (sh : Shard) (cap : Nat) (q : Q) (c : Cache) (ch : List Nat) : List Nat × Cache × List Nat :=
  let b := build sh cap q c ch
  ((runSearch sh.numDocs b.1).1, b.2.1, b.2.2)

/-- a sequential history on one searcher -/
def runHistory (sh : Shard) (cap : Nat) : List Q → Cache → List Nat → List (List Nat)
  | [], _, _ => []
  | q :: qs, c, ch =>
    let r := searchOnce sh cap q c ch
    r.1 :: runHistory sh cap qs r.2.1 r.2.2

/-- what the query denotes: document `d` matches -/
def evalQ (sh : Shard) (d : Nat) : Q → Bool
  | .atom a => (predOf sh (sh.wantOf a.ident)).getD d false
  | .leaf p => p.getD d false
  | .all => true
  | .none => false
  | .and a b => evalQ sh d a && evalQ sh d b
  | .or a b => evalQ sh d a || evalQ sh d b
  | .not a => !evalQ sh d a

/-! ### concurrent searches: interleaving of the cache operations

Between its `Get` (under `RLock`) and its `Add` (under `Lock`) a search can be overtaken by any number of operations of
other searches.  After the fix a search iterates only nodes it allocated itself, so the document loop is thread-local
and the atomic steps that touch shared state are exactly `Get` and `Add`. -/

structure Thread where
  todo : List Atom             -- Meta atoms of the query not yet built, in `newMatchTree`'s traversal order
  pending : Option Entry       -- a miss: the node was computed, its `Add` has not happened yet
  got : List (List Bool)       -- predicates of the nodes obtained so far
  deriving Repr

def stepThread (sh : Shard) (cap : Nat) (c : Cache) (t : Thread) (victim : Nat) : Cache × Thread :=
  match t.pending with
  | some e => (add cap c e victim, { t with pending := none })
  | none =>
    match t.todo with
    | [] => (c, t)
    | a :: rest =>
      let miss : Cache × Thread :=
        let want := sh.wantOf a.ident
        (c, { todo := rest, pending := some ⟨a.key, a.ident, want⟩, got := t.got ++ [predOf sh want] })
      match lookup c a.key with
      | some e => if e.ident = a.ident then (c, { todo := rest, pending := none, got := t.got ++ [predOf sh e.want] })
                  else miss
      | none => miss

/-- run a schedule: each element picks a thread and the victim of the eviction, if its step is an `Add` -/
def runSched (sh : Shard) (cap : Nat) : List (Nat × Nat) → Cache → List Thread → Cache × List Thread
  | [], c, ts => (c, ts)
  | (i, v) :: s, c, ts =>
    match ts[i]? with
    | none => runSched sh cap s c ts
    | some t =>
      let r := stepThread sh cap c t v
      runSched sh cap s r.1 (ts.set i r.2)

/-- Meta atoms of a query in `newMatchTree`'s traversal order -/
def atomsOf : Q → List Atom
  | .atom a => [a]
  | .and a b => atomsOf a ++ atomsOf b
  | .or a b => atomsOf a ++ atomsOf b
  | .not a => atomsOf a
  | _ => []

/-- the tree of `q` whose Meta nodes carry the given predicates (consumed in traversal order) -/
def assemble : Q → List (List Bool) → MT × List (List Bool)
  | .atom _, ps => (.doc (ps.headD []) Cursor.fresh, ps.tail)
  | .leaf p, ps => (.doc p Cursor.fresh, ps)
  | .all, ps => (.all Cursor.fresh, ps)
  | .none, ps => (.none, ps)
  | .and a b, ps =>
    let ra := assemble a ps
    let rb := assemble b ra.2
    (.and ra.1 rb.1, rb.2)
  | .or a b, ps =>
    let ra := assemble a ps
    let rb := assemble b ra.2
    (.or ra.1 rb.1, rb.2)
  | .not a, ps =>
    let ra := assemble a ps
    (.not ra.1, ra.2)

/-! ### the code before the fix -/
namespace Legacy

/-- before the fix the cache holds the node itself; sequentially, sharing a pointer is the same as reading the
    cursor from the cache when the tree is built and writing it back when the search ends -/
structure LEntry where
  key : Nat
  want : List Bool
  cur : Cursor
  deriving Repr, DecidableEq

def llookup (c : List LEntry) (k : Nat) : Option LEntry := c.find? (fun e => e.key == k)

/-- a search for the single atom `a` (the smallest history that shows the defect needs nothing more) with an
    unbounded cache: returns the result and the cache afterwards -/
def searchAtom (sh : Shard) (a : Atom) (c : List LEntry) : List Nat × List LEntry :=
  match llookup c a.key with
  | some e =>
    let r := runSearch sh.numDocs (.doc (predOf sh e.want) e.cur)
    let cur' := match r.2 with | .doc _ cu => cu | _ => e.cur
    (r.1, c.map (fun x => if x.key == a.key then { x with cur := cur' } else x))
  | none =>
    let want := sh.wantOf a.ident
    let r := runSearch sh.numDocs (.doc (predOf sh want) Cursor.fresh)
    let cur' := match r.2 with | .doc _ cu => cu | _ => Cursor.fresh
    (r.1, ⟨a.key, want, cur'⟩ :: c)

def history (sh : Shard) : List Atom → List LEntry → List (List Nat)
  | [], _ => []
  | a :: as, c =>
    let r := searchAtom sh a c
    r.1 :: history sh as r.2

end Legacy
end ZoektModel.C04
