import ZoektModel.Basic.Proto
namespace ZoektModel.C18
/-- stub: no model driver for C18 yet -/
def main : IO Unit := ZoektModel.Proto.runLines (fun _ => ZoektModel.Proto.badCase "no model driver for C18")
end ZoektModel.C18
