import ZoektModel.Basic.Proto
import ZoektModel.C18.Spec
import ZoektModel.C05.Codec
namespace ZoektModel.C18
open ZoektModel ZoektModel.Proto ZoektModel.Query

def pRShard : P RShard := fun ts => do
  let (f, r) ← pBool ts
  let (s, r) ← pShard r
  pure ({ shard := s, failed := f }, r)

def pShards : P (List RShard) := fun ts => do
  let (l, r) ← pCounted pRShard ts
  pure ((l.zipIdx.map fun p => { p.1 with pos := p.2 }), r)

def showPairs (l : List (Nat × Nat)) : String := showList (fun p => s!"{p.1}:{p.2}") l

def parsePairs (s : String) : Option (List (Nat × Nat)) :=
  if s == "-" then some [] else
  (s.splitOn ",").mapM fun e =>
    match e.splitOn ":" with
    | [a, b] => do pure (← a.toNat?, ← b.toNat?)
    | _ => none

def showNames (l : List Str) : String := showList hx l

def parseNames (s : String) : Option (List Str) :=
  if s == "-" then some [] else (s.splitOn ",").mapM hexToBytes?

/-- positions of the selected shards -/
def positions (_shards sel : List RShard) : List Nat := sel.map (·.pos)

/-- entries: `name:st,st,…;name:…` per shard, shards separated by `|`, `-` = none -/
def parseEntries (s : String) : Option (List (Str × Stats)) :=
  if s == "-" then some [] else
  (s.splitOn ";").mapM fun e =>
    match e.splitOn ":" with
    | [n, st] => do pure (← hexToBytes? n, ← natList? st)
    | _ => none

def showEntries (l : List (Str × Stats)) : String :=
  if l.isEmpty then "-" else ";".intercalate (l.map fun e => s!"{hx e.1}:{showNatList e.2}")

def sortEntries (l : List (Str × Stats)) : List (Str × Stats) :=
  l.foldr (fun x acc =>
    let rec ins : List (Str × Stats) → List (Str × Stats)
      | [] => [x]
      | y :: r => if strLt y.1 x.1 then y :: ins r else x :: y :: r
    ins acc) []

/-- the model of what the searcher stack does for a search: replace type:repo, select + rewrite, then each selected
    shard simplifies, expands and evaluates -/
def pipelineSearch (shards : List RShard) (q : Q) : List (Nat × Nat) :=
  let ctx := corpus shards
  let q1 := typeRepoEval shards q
  let sel := selectRepoSet shards q1
  let pos := positions shards sel.1
  pos.flatMap fun i =>
    match shards[i]? with
    | none => []
    | some rs => (selected ctx rs.shard (expand (shardSimplify rs.shard sel.2))).map fun j => (i, j)

def failKeySel (shards : List RShard) (q : Q) : String :=
  -- the known class: the first filter child is a single-entry BranchesRepos for the branch "HEAD", and some listed
  -- repository does not have HEAD as its first and only so-named branch (C18_union_partial's hypothesis fails)
  let cs := match q with | .and cs => cs | q => [q]
  match firstFilter cs with
  | some (_, .branchesRepos [br], _) =>
    if br.1 == HEAD && shards.any (fun rs => rs.listed.any fun r => !headFirstB r) then "branchesrepos-head-rewrite"
    else if br.1.isEmpty then "branchesrepos-empty-branch-rewrite" else "select-differs"
  | _ => if hasEmptyBranch q then "branch-empty-pattern" else "select-differs"

def handle (line : String) : String :=
  let (inp, impl) := splitCase line
  match fields inp with
  | "sel" :: r =>
    match pShards r with
    | none => badCase "shards"
    | some (shards, r) =>
      match pTree r with
      | some (q, []) =>
        let m := selectRepoSet shards q
        let model := s!"{showNatList (positions shards m.1)} {showQ m.2}"
        match fields impl with
        | selS :: t =>
          match natList? selS, pTree t with
          | some sel, some (q', []) =>
            if checkSelect shards q sel q' then answer model else specFail model (failKeySel shards q)
          | _, _ => badCase "impl"
        | _ => badCase "impl"
      | _ => badCase "query"
  | "search" :: r =>
    match pShards r with
    | none => badCase "shards"
    | some (shards, r) =>
      match pTree r with
      | some (q, []) =>
        let model := showPairs (pipelineSearch shards q)
        match parsePairs impl with
        | none => badCase "impl files"
        | some files =>
          if checkSearch shards q files then answer model
          else specFail model (if hasEmptyBranch q then "branch-empty-pattern"
            else if files == pipelineSearch shards q then failKeySel shards (typeRepoEval shards q) else "search-differs")
      | _ => badCase "query"
  | "list" :: r =>
    match pShards r with
    | none => badCase "shards"
    | some (shards, r) =>
      match pTree r with
      | some (q, []) =>
        let q1 := typeRepoEval shards q
        let model := showNames (sortStrs (shardedListNames shards q1))
        match parseNames impl with
        | none => badCase "impl names"
        | some names =>
          if checkList shards q names then answer model
          else specFail model (if hasEmptyBranch q then "branch-empty-pattern"
            else if names == sortStrs (shardedListNames shards q1) then failKeySel shards (simplify q1) else "list-differs")
      | _ => badCase "query"
  | "agg" :: shardsS =>
    match shardsS.mapM parseEntries with
    | none => badCase "entries"
    | some perShard =>
      let model := showEntries (sortEntries (aggregate perShard))
      match parseEntries impl with
      | none => badCase "impl entries"
      | some out => if checkAggregate perShard out then answer model else specFail model "aggregate"
  | _ => badCase "op"

def main : IO Unit := runLines handle
end ZoektModel.C18
