/-
C18 — helper lemmas for Props/C18.lean.
-/
import ZoektModel.C18.Spec
import ZoektModel.C05.Lemmas
namespace ZoektModel.C18
open ZoektModel.Query

/-- `HEAD` names the first branch of the repository, and only that one -/
def HeadFirst (r : Repo) : Prop := ∀ i, r.branches[i]? = some HEAD ↔ i = 0

theorem firstFilter_spec (cs : List Q) (i : Nat) (c : Q) (p : Repo → Bool)
    (h : firstFilter cs = some (i, c, p)) : cs[i]? = some c ∧ selPred c = some p := by
  induction cs generalizing i with
  | nil => simp [firstFilter] at h
  | cons a r ih =>
    simp only [firstFilter] at h
    split at h
    · rename_i p' hp
      simp only [Option.some.injEq, Prod.mk.injEq] at h
      obtain ⟨rfl, rfl, rfl⟩ := h
      exact ⟨by simp, hp⟩
    · cases hf : firstFilter r with
      | none => simp [hf] at h
      | some x =>
        obtain ⟨j, c', p'⟩ := x
        simp only [hf, Option.map, Option.some.injEq, Prod.mk.injEq] at h
        obtain ⟨rfl, rfl, rfl⟩ := h
        have := ih j hf
        exact ⟨by simpa using this.1, this.2⟩

/-- a filter child can only match documents of repositories that satisfy its selection predicate -/
theorem selPred_sound (c : Q) (p : Repo → Bool) (h : selPred c = some p) (ctx s d) (r : Repo)
    (hr : Shard.repoOf s d = some r) (hp : p r = false) : eval c ctx s d = false := by
  cases c with
  | repoSet set =>
    simp only [selPred, Option.some.injEq] at h; subst h
    simpa [eval, hr, evalAtom, evalRepoSet] using hp
  | repoIDs ids =>
    simp only [selPred, Option.some.injEq] at h; subst h
    simpa [eval, hr, evalAtom] using hp
  | repo p' =>
    simp only [selPred, Option.some.injEq] at h; subst h
    simpa [eval, hr, evalAtom] using hp
  | metaQ f p' =>
    simp only [selPred, Option.some.injEq] at h; subst h
    simpa [eval, hr, evalAtom] using hp
  | branchesRepos l =>
    simp only [selPred, Option.some.injEq] at h; subst h
    simp only [eval, hr, evalAtom, evalBranchesRepos]
    rw [List.any_eq_false] at hp ⊢
    intro br hbr
    have := hp br hbr
    have h4 : r.id ∉ br.2 := by simpa using this
    simp [h4]
  | _ => simp [selPred] at h

/-- … and for the kinds replaced by TRUE the predicate *is* the evaluation -/
theorem selPred_exact (c : Q) (p : Repo → Bool) (h : selPred c = some p) (hc : replacement c = some (.const true))
    (ctx s d) (r : Repo) (hr : Shard.repoOf s d = some r) : eval c ctx s d = p r := by
  cases c with
  | repoSet set =>
    simp only [selPred, Option.some.injEq] at h; subst h
    simp [eval, hr, evalAtom, evalRepoSet]
  | repoIDs ids =>
    simp only [selPred, Option.some.injEq] at h; subst h
    simp [eval, hr, evalAtom]
  | repo p' =>
    simp only [selPred, Option.some.injEq] at h; subst h
    simp [eval, hr, evalAtom]
  | metaQ f p' =>
    simp only [selPred, Option.some.injEq] at h; subst h
    simp [eval, hr, evalAtom]
  | branchesRepos l =>
    simp only [replacement] at hc
    split at hc
    · split at hc <;> simp at hc
    · simp at hc
  | _ => simp [selPred] at h

/-! ### the loop over shards -/

theorem filterShards_mem (p : Repo → Bool) (shards : List RShard) (rs : RShard) :
    rs ∈ (filterShards p shards).1 ↔ rs ∈ shards ∧ (rs.failed = true ∨ rs.listed.any p = true) := by
  induction shards with
  | nil => simp [filterShards]
  | cons a t ih =>
    simp only [filterShards]
    split
    · rename_i hf
      simp only [List.mem_cons, ih]
      constructor
      · rintro (rfl | ⟨h1, h2⟩)
        · exact ⟨Or.inl rfl, Or.inl hf⟩
        · exact ⟨Or.inr h1, h2⟩
      · rintro ⟨rfl | h1, h2⟩
        · exact Or.inl rfl
        · exact Or.inr ⟨h1, h2⟩
    · split
      · rename_i hf ha
        simp only [List.mem_cons, ih]
        constructor
        · rintro (rfl | ⟨h1, h2⟩)
          · exact ⟨Or.inl rfl, Or.inr ha⟩
          · exact ⟨Or.inr h1, h2⟩
        · rintro ⟨rfl | h1, h2⟩
          · exact Or.inl rfl
          · exact Or.inr ⟨h1, h2⟩
      · rename_i hf ha
        simp only [List.mem_cons, ih]
        constructor
        · rintro ⟨h1, h2⟩
          exact ⟨Or.inr h1, h2⟩
        · rintro ⟨rfl | h1, h2⟩
          · rcases h2 with h2 | h2
            · exact absurd h2 hf
            · exact absurd h2 ha
          · exact ⟨h1, h2⟩

theorem filterShards_all (p : Repo → Bool) (shards : List RShard) (h : (filterShards p shards).2 = true) :
    ∀ rs ∈ (filterShards p shards).1, rs.failed = false ∧ rs.listed.all p = true := by
  induction shards with
  | nil => simp [filterShards]
  | cons a t ih =>
    simp only [filterShards] at h ⊢
    split at h
    · simp at h
    · split at h
      · rename_i hf ha
        simp only [Bool.and_eq_true] at h
        rw [if_neg hf, if_pos ha]
        intro rs hrs
        rcases List.mem_cons.mp hrs with rfl | hrs
        · exact ⟨by simpa using hf, h.1⟩
        · exact ih h.2 rs hrs
      · rename_i hf ha
        rw [if_neg hf, if_neg ha]
        exact ih h

theorem live_listed (rs : RShard) (d : Doc) (h : rs.shard.live d = true) :
    ∃ r, rs.shard.repoOf d = some r ∧ r ∈ rs.listed := by
  obtain ⟨r, hr, ht⟩ := live_repoOf h
  exact ⟨r, hr, List.mem_filter.mpr ⟨repoOf_mem hr, by simp [ht]⟩⟩

/-! ### replacing one child of an `And` -/

theorem all_set {α} (l : List α) (f : α → Bool) (i : Nat) (c c' : α) (h : l[i]? = some c) (hf : f c' = f c) :
    (l.set i c').all f = l.all f := by
  induction l generalizing i with
  | nil => simp
  | cons a t ih =>
    cases i with
    | zero => simp at h; subst h; simp [hf]
    | succ j => simp at h; simp [ih j h]

theorem mem_set_cases {α} (l : List α) (i : Nat) (c' x : α) (h : x ∈ l.set i c') : x = c' ∨ x ∈ l := by
  induction l generalizing i with
  | nil => simp at h
  | cons a t ih =>
    cases i with
    | zero => simp at h; rcases h with rfl | h; exact Or.inl rfl; exact Or.inr (by simp [h])
    | succ j =>
      simp at h
      rcases h with rfl | h
      · exact Or.inr (by simp)
      · rcases ih j h with h | h
        · exact Or.inl h
        · exact Or.inr (by simp [h])

/-- the replacement of a fully satisfied filter child evaluates like the child, on documents of repositories that
    satisfy the selection predicate — for `BranchesRepos[HEAD]` provided `HEAD` names the repository's first branch -/
theorem replacement_eval (c c' : Q) (p : Repo → Bool) (h : selPred c = some p) (hc : replacement c = some c')
    (ctx s d) (r : Repo) (hr : Shard.repoOf s d = some r) (hp : p r = true)
    (hH : ∀ l br, c = .branchesRepos l → l = [br] → br.1 = HEAD → HeadFirst r) :
    eval c' ctx s d = eval c ctx s d ∧ wf true true c' = true := by
  cases c with
  | branchesRepos l =>
    simp only [replacement] at hc
    split at hc
    · rename_i br
      split at hc
      · simp at hc
      · rename_i hne
        simp only [Option.some.injEq] at hc
        subst hc
        simp only [selPred, Option.some.injEq] at h
        subst h
        have hid : br.2.contains r.id = true := by simpa using hp
        refine ⟨?_, by simpa [wf] using hne⟩
        simp only [eval, hr, evalAtom, evalBranchesRepos, evalBranch, List.any_cons, List.any_nil, Bool.or_false, hid,
          Bool.true_and, if_true]
        split
        · rename_i hb
          have hb' : br.1 = HEAD := by simpa using hb
          have hf := hH _ br rfl rfl hb'
          rw [hb']
          apply Bool.eq_iff_iff.mpr
          simp only [List.contains_iff_mem, List.any_eq_true, beq_iff_eq]
          constructor
          · intro h0; exact ⟨0, h0, (hf 0).2 rfl⟩
          · rintro ⟨i, hi, hb⟩
            have := (hf i).1 hb
            subst this; exact hi
        · refine any_congr_mem (fun i _ => ?_)
          cases r.branches[i]? with
          | none => simp
          | some nm => simp
    · simp at hc
  | repoSet set =>
    simp only [replacement, Option.some.injEq] at hc; subst hc
    refine ⟨?_, rfl⟩
    rw [selPred_exact _ p h rfl ctx s d r hr, hp, eval_const]
  | repoIDs ids =>
    simp only [replacement, Option.some.injEq] at hc; subst hc
    refine ⟨?_, rfl⟩
    rw [selPred_exact _ p h rfl ctx s d r hr, hp, eval_const]
  | repo p' =>
    simp only [replacement, Option.some.injEq] at hc; subst hc
    refine ⟨?_, rfl⟩
    rw [selPred_exact _ p h rfl ctx s d r hr, hp, eval_const]
  | metaQ f p' =>
    simp only [replacement, Option.some.injEq] at hc; subst hc
    refine ⟨?_, rfl⟩
    rw [selPred_exact _ p h rfl ctx s d r hr, hp, eval_const]
  | _ => simp [selPred] at h

/-! ### list aggregation -/

theorem addStats_nil_left (t : Stats) : addStats [] t = t := by
  cases t <;> rfl

theorem mergeEntry_cons_eq (n : Str) (st : Stats) (t : List (Str × Stats)) (est : Stats) :
    mergeEntry ((n, st) :: t) (n, est) = (n, addStats st est) :: t := by
  simp [mergeEntry]

theorem mergeEntry_cons_ne (an : Str) (st : Stats) (t : List (Str × Stats)) (en : Str) (est : Stats) (h : an ≠ en) :
    mergeEntry ((an, st) :: t) (en, est) = (an, st) :: mergeEntry t (en, est) := by
  have : (an == en) = false := by simpa using h
  simp [mergeEntry, this]

theorem lookup_cons_eq {β} (n : Str) (v : β) (t : List (Str × β)) : lookup n ((n, v) :: t) = some v := by
  simp [lookup]

theorem lookup_cons_ne {β} (an n : Str) (v : β) (t : List (Str × β)) (h : an ≠ n) :
    lookup n ((an, v) :: t) = lookup n t := by
  have : (an == n) = false := by simpa using h
  simp [lookup, this]

theorem lookup_mergeEntry (acc : List (Str × Stats)) (en : Str) (est : Stats) (n : Str) :
    lookup n (mergeEntry acc (en, est)) =
      if en = n then some (match lookup n acc with | some st => addStats st est | none => est)
      else lookup n acc := by
  induction acc with
  | nil =>
    by_cases h : en = n
    · subst h; simp [mergeEntry, lookup]
    · have : (en == n) = false := by simpa using h
      simp [mergeEntry, lookup, h, this]
  | cons a t ih =>
    obtain ⟨an, ast⟩ := a
    by_cases h1 : an = en
    · subst h1
      rw [mergeEntry_cons_eq]
      by_cases h : an = n
      · subst h; simp [lookup_cons_eq]
      · simp [lookup_cons_ne _ _ _ _ h, h]
    · rw [mergeEntry_cons_ne _ _ _ _ _ h1]
      by_cases h : an = n
      · subst h
        have hne : ¬ en = an := fun e => h1 e.symm
        simp [lookup_cons_eq, hne]
      · rw [lookup_cons_ne _ _ _ _ h, lookup_cons_ne _ _ _ _ h, ih]

theorem names_mergeEntry (acc : List (Str × Stats)) (en : Str) (est : Stats) (x : Str) :
    x ∈ (mergeEntry acc (en, est)).map (·.1) ↔ x ∈ acc.map (·.1) ∨ x = en := by
  induction acc with
  | nil => simp [mergeEntry]
  | cons a t ih =>
    obtain ⟨an, ast⟩ := a
    by_cases h1 : an = en
    · subst h1
      rw [mergeEntry_cons_eq]
      simp only [List.map_cons, List.mem_cons]
      constructor
      · rintro (h | h)
        · exact Or.inl (Or.inl h)
        · exact Or.inl (Or.inr h)
      · rintro ((h | h) | h)
        · exact Or.inl h
        · exact Or.inr h
        · exact Or.inl h
    · rw [mergeEntry_cons_ne _ _ _ _ _ h1]
      simp only [List.map_cons, List.mem_cons, ih]
      constructor
      · rintro (h | h | h)
        · exact Or.inl (Or.inl h)
        · exact Or.inl (Or.inr h)
        · exact Or.inr h
      · rintro ((h | h) | h)
        · exact Or.inl h
        · exact Or.inr (Or.inl h)
        · exact Or.inr (Or.inr h)

theorem nodup_mergeEntry (acc : List (Str × Stats)) (en : Str) (est : Stats) (h : (acc.map (·.1)).Nodup) :
    ((mergeEntry acc (en, est)).map (·.1)).Nodup := by
  induction acc with
  | nil => simp [mergeEntry]
  | cons a t ih =>
    obtain ⟨an, ast⟩ := a
    simp only [List.map_cons, List.nodup_cons] at h
    by_cases h1 : an = en
    · subst h1
      rw [mergeEntry_cons_eq]
      simpa using h
    · rw [mergeEntry_cons_ne _ _ _ _ _ h1]
      simp only [List.map_cons, List.nodup_cons]
      refine ⟨?_, ih h.2⟩
      intro hm
      rcases (names_mergeEntry t en est an).1 hm with hm | hm
      · exact h.1 hm
      · exact h1 hm

/-- statistics of name `n` summed over a list of entries, in order -/
theorem sumFor_append_one (n : Str) (P : List (Str × Stats)) (e : Str × Stats) :
    sumFor n (P ++ [e]) = if e.1 = n then addStats (sumFor n P) e.2 else sumFor n P := by
  unfold sumFor
  rw [List.filter_append, List.foldl_append]
  by_cases h : e.1 = n
  · subst h; simp [List.filter]
  · have : (e.1 == n) = false := by simpa using h
    simp [List.filter, this, h]

/-- invariant of the aggregation loop: the map holds, for exactly the names seen so far, the sum of their entries -/
def AggInv (acc P : List (Str × Stats)) : Prop :=
  (acc.map (·.1)).Nodup ∧
  ∀ n, lookup n acc = if n ∈ P.map (·.1) then some (sumFor n P) else none

theorem aggInv_step (acc P : List (Str × Stats)) (e : Str × Stats) (h : AggInv acc P) :
    AggInv (mergeEntry acc e) (P ++ [e]) := by
  obtain ⟨en, est⟩ := e
  obtain ⟨h1, h2⟩ := h
  refine ⟨nodup_mergeEntry acc en est h1, ?_⟩
  intro n
  rw [lookup_mergeEntry, sumFor_append_one, h2 n]
  by_cases he : en = n
  · subst he
    by_cases hm : en ∈ P.map (·.1)
    · simp [hm]
    · have hs : sumFor en P = [] := by
        unfold sumFor
        have : P.filter (fun x => x.1 == en) = [] := by
          rw [List.filter_eq_nil_iff]
          intro x hx hxe
          exact hm (List.mem_map.mpr ⟨x, hx, by simpa using hxe⟩)
        simp [this]
      simp [hm, hs, addStats_nil_left]
  · have hne : ¬ n = en := fun h => he h.symm
    have hm : n ∈ (P ++ [(en, est)]).map (·.1) ↔ n ∈ P.map (·.1) := by
      rw [List.map_append, List.mem_append]
      constructor
      · rintro (h | h)
        · exact h
        · simp at h; exact absurd h hne
      · exact Or.inl
    simp only [he, if_false]
    by_cases hp : n ∈ P.map (·.1)
    · rw [if_pos hp, if_pos (hm.2 hp)]
    · rw [if_neg hp, if_neg (fun h => hp (hm.1 h))]

theorem aggInv_fold (rest acc P : List (Str × Stats)) (h : AggInv acc P) :
    AggInv (rest.foldl mergeEntry acc) (P ++ rest) := by
  induction rest generalizing acc P with
  | nil => simpa using h
  | cons e t ih =>
    have := ih (mergeEntry acc e) (P ++ [e]) (aggInv_step acc P e h)
    simpa [List.append_assoc] using this

theorem lookup_of_mem (l : List (Str × Stats)) (h : (l.map (·.1)).Nodup) (o : Str × Stats) (ho : o ∈ l) :
    lookup o.1 l = some o.2 := by
  induction l with
  | nil => cases ho
  | cons a t ih =>
    obtain ⟨an, ast⟩ := a
    simp only [List.map_cons, List.nodup_cons] at h
    rcases List.mem_cons.mp ho with rfl | ho
    · simp [lookup]
    · have hne : an ≠ o.1 := by
        intro he
        exact h.1 (he ▸ List.mem_map.mpr ⟨o, ho, rfl⟩)
      have : (an == o.1) = false := by simpa using hne
      simp [lookup, this, ih h.2 ho]

theorem lookup_isSome_iff (l : List (Str × Stats)) (n : Str) : (lookup n l).isSome = true ↔ n ∈ l.map (·.1) := by
  induction l with
  | nil => simp [lookup]
  | cons a t ih =>
    obtain ⟨an, ast⟩ := a
    simp only [lookup, List.map_cons, List.mem_cons]
    by_cases h : an = n
    · subst h; simp
    · have : (an == n) = false := by simpa using h
      have hne : ¬ n = an := fun e => h e.symm
      simp [this, ih, hne]

end ZoektModel.C18
