/-
C18 — helper lemmas for Props/C18.lean.
-/
import ZoektModel.C18.Spec
import ZoektModel.C05.Lemmas
namespace ZoektModel.C18
open ZoektModel.Query

/-- `HEAD` names the first branch of the repository, and only that one -/
def HeadFirst (r : Repo) : Prop := ∀ i, r.branches[i]? = some HEAD ↔ i = 0

theorem firstFilter_spec (cs : List Q) (i : Nat) (c : Q) (p : Repo → Bool)
    (h : firstFilter cs = some (i, c, p)) : cs[i]? = some c ∧ selPred c = some p := by
  induction cs generalizing i with
  | nil => simp [firstFilter] at h
  | cons a r ih =>
    simp only [firstFilter] at h
    split at h
    · rename_i p' hp
      simp only [Option.some.injEq, Prod.mk.injEq] at h
      obtain ⟨rfl, rfl, rfl⟩ := h
      exact ⟨by simp, hp⟩
    · cases hf : firstFilter r with
      | none => simp [hf] at h
      | some x =>
        obtain ⟨j, c', p'⟩ := x
        simp only [hf, Option.map, Option.some.injEq, Prod.mk.injEq] at h
        obtain ⟨rfl, rfl, rfl⟩ := h
        have := ih j hf
        exact ⟨by simpa using this.1, this.2⟩

/-- a filter child can only match documents of repositories that satisfy its selection predicate -/
theorem selPred_sound (c : Q) (p : Repo → Bool) (h : selPred c = some p) (ctx s d) (r : Repo)
    (hr : Shard.repoOf s d = some r) (hp : p r = false) : eval c ctx s d = false := by
  cases c with
  | repoSet set =>
    simp only [selPred, Option.some.injEq] at h; subst h
    simpa [eval, hr, evalAtom, evalRepoSet] using hp
  | repoIDs ids =>
    simp only [selPred, Option.some.injEq] at h; subst h
    simpa [eval, hr, evalAtom] using hp
  | repo p' =>
    simp only [selPred, Option.some.injEq] at h; subst h
    simpa [eval, hr, evalAtom] using hp
  | metaQ f p' =>
    simp only [selPred, Option.some.injEq] at h; subst h
    simpa [eval, hr, evalAtom] using hp
  | branchesRepos l =>
    simp only [selPred, Option.some.injEq] at h; subst h
    simp only [eval, hr, evalAtom, evalBranchesRepos]
    rw [List.any_eq_false] at hp ⊢
    intro br hbr
    have := hp br hbr
    have h4 : r.id ∉ br.2 := by simpa using this
    simp [h4]
  | _ => simp [selPred] at h

/-- … and for the kinds replaced by TRUE the predicate *is* the evaluation -/
theorem selPred_exact (filtered : List RShard) (c : Q) (p : Repo → Bool) (h : selPred c = some p)
    (hc : replacement filtered c = some (.const true))
    (ctx s d) (r : Repo) (hr : Shard.repoOf s d = some r) : eval c ctx s d = p r := by
  cases c with
  | repoSet set =>
    simp only [selPred, Option.some.injEq] at h; subst h
    simp [eval, hr, evalAtom, evalRepoSet]
  | repoIDs ids =>
    simp only [selPred, Option.some.injEq] at h; subst h
    simp [eval, hr, evalAtom]
  | repo p' =>
    simp only [selPred, Option.some.injEq] at h; subst h
    simp [eval, hr, evalAtom]
  | metaQ f p' =>
    simp only [selPred, Option.some.injEq] at h; subst h
    simp [eval, hr, evalAtom]
  | branchesRepos l =>
    simp only [replacement] at hc
    split at hc
    · split at hc <;> simp at hc
    · simp at hc
  | _ => simp [selPred] at h

/-! ### the loop over shards -/

theorem filterShards_mem (p : Repo → Bool) (shards : List RShard) (rs : RShard) :
    rs ∈ (filterShards p shards).1 ↔ rs ∈ shards ∧ (rs.failed = true ∨ rs.listed.any p = true) := by
  induction shards with
  | nil => simp [filterShards]
  | cons a t ih =>
    simp only [filterShards]
    split
    · rename_i hf
      simp only [List.mem_cons, ih]
      constructor
      · rintro (rfl | ⟨h1, h2⟩)
        · exact ⟨Or.inl rfl, Or.inl hf⟩
        · exact ⟨Or.inr h1, h2⟩
      · rintro ⟨rfl | h1, h2⟩
        · exact Or.inl rfl
        · exact Or.inr ⟨h1, h2⟩
    · split
      · rename_i hf ha
        simp only [List.mem_cons, ih]
        constructor
        · rintro (rfl | ⟨h1, h2⟩)
          · exact ⟨Or.inl rfl, Or.inr ha⟩
          · exact ⟨Or.inr h1, h2⟩
        · rintro ⟨rfl | h1, h2⟩
          · exact Or.inl rfl
          · exact Or.inr ⟨h1, h2⟩
      · rename_i hf ha
        simp only [List.mem_cons, ih]
        constructor
        · rintro ⟨h1, h2⟩
          exact ⟨Or.inr h1, h2⟩
        · rintro ⟨rfl | h1, h2⟩
          · rcases h2 with h2 | h2
            · exact absurd h2 hf
            · exact absurd h2 ha
          · exact ⟨h1, h2⟩

theorem filterShards_all (p : Repo → Bool) (shards : List RShard) (h : (filterShards p shards).2 = true) :
    ∀ rs ∈ (filterShards p shards).1, rs.failed = false ∧ rs.listed.all p = true := by
  induction shards with
  | nil => simp [filterShards]
  | cons a t ih =>
    simp only [filterShards] at h ⊢
    split at h
    · simp at h
    · split at h
      · rename_i hf ha
        simp only [Bool.and_eq_true] at h
        rw [if_neg hf, if_pos ha]
        intro rs hrs
        rcases List.mem_cons.mp hrs with rfl | hrs
        · exact ⟨by simpa using hf, h.1⟩
        · exact ih h.2 rs hrs
      · rename_i hf ha
        rw [if_neg hf, if_neg ha]
        exact ih h

theorem live_listed (rs : RShard) (d : Doc) (h : rs.shard.live d = true) :
    ∃ r, rs.shard.repoOf d = some r ∧ r ∈ rs.listed := by
  obtain ⟨r, hr, ht⟩ := live_repoOf h
  exact ⟨r, hr, List.mem_filter.mpr ⟨repoOf_mem hr, by simp [ht]⟩⟩

/-! ### replacing one child of an `And` -/

theorem all_set {α} (l : List α) (f : α → Bool) (i : Nat) (c c' : α) (h : l[i]? = some c) (hf : f c' = f c) :
    (l.set i c').all f = l.all f := by
  induction l generalizing i with
  | nil => simp
  | cons a t ih =>
    cases i with
    | zero => simp at h; subst h; simp [hf]
    | succ j => simp at h; simp [ih j h]

theorem mem_set_cases {α} (l : List α) (i : Nat) (c' x : α) (h : x ∈ l.set i c') : x = c' ∨ x ∈ l := by
  induction l generalizing i with
  | nil => simp at h
  | cons a t ih =>
    cases i with
    | zero => simp at h; rcases h with rfl | h; exact Or.inl rfl; exact Or.inr (by simp [h])
    | succ j =>
      simp at h
      rcases h with rfl | h
      · exact Or.inr (by simp)
      · rcases ih j h with h | h
        · exact Or.inl h
        · exact Or.inr (by simp [h])

theorem headFirstB_spec (r : Repo) (h : headFirstB r = true) : HeadFirst r := by
  unfold headFirstB at h
  intro i
  cases hb : r.branches with
  | nil => simp [hb] at h
  | cons b t =>
    rw [hb] at h
    simp only [List.head?_cons, List.drop_succ_cons, List.drop_zero, Bool.and_eq_true, beq_iff_eq,
      Option.some.injEq, Bool.not_eq_true'] at h
    obtain ⟨hb0, ht⟩ := h
    have ht' : HEAD ∉ t := by
      intro hm
      have : t.contains HEAD = true := by simpa using hm
      rw [this] at ht
      cases ht
    cases i with
    | zero => simp [hb0]
    | succ k =>
      simp only [List.getElem?_cons_succ]
      constructor
      · intro hk
        exact absurd (List.mem_of_getElem? hk) ht'
      · intro hk; cases hk

/-- the HEAD guard of the rewrite: if `BranchesRepos[HEAD]` is replaced, every repository of the selected shards has
    HEAD as its first and only so-named branch -/
theorem replacement_head (filtered : List RShard) (br : Str × List Nat) (c' : Q)
    (h : replacement filtered (.branchesRepos [br]) = some c') (hb : br.1 = HEAD) :
    ∀ rs ∈ filtered, ∀ r ∈ rs.listed, HeadFirst r := by
  simp only [replacement] at h
  split at h
  · simp at h
  · split at h
    · simp at h
    · rename_i hne hg
      intro rs hrs r hr
      apply headFirstB_spec
      have hg' : (filtered.all fun s => s.listed.all headFirstB) = true := by
        cases hall : (filtered.all fun s => s.listed.all headFirstB) with
        | true => rfl
        | false => simp [hb, hall] at hg
      exact List.all_eq_true.mp (List.all_eq_true.mp hg' rs hrs) r hr

/-- the replacement of a fully satisfied filter child evaluates like the child, on documents of repositories that
    satisfy the selection predicate — for `BranchesRepos[HEAD]` provided `HEAD` names the repository's first branch -/
theorem replacement_eval (filtered : List RShard) (c c' : Q) (p : Repo → Bool) (h : selPred c = some p)
    (hc : replacement filtered c = some c')
    (ctx s d) (r : Repo) (hr : Shard.repoOf s d = some r) (hp : p r = true)
    (hH : ∀ l br, c = .branchesRepos l → l = [br] → br.1 = HEAD → HeadFirst r) :
    eval c' ctx s d = eval c ctx s d ∧ wf noEmpty true c' = true := by
  cases c with
  | branchesRepos l =>
    simp only [replacement] at hc
    split at hc
    · rename_i br
      split at hc
      · simp at hc
      · rename_i hne
        split at hc
        · simp at hc
        · simp only [Option.some.injEq] at hc
          subst hc
          simp only [selPred, Option.some.injEq] at h
          subst h
          have hid : br.2.contains r.id = true := by simpa using hp
          refine ⟨?_, by simpa [wf, noEmpty] using hne⟩
          simp only [eval, hr, evalAtom, evalBranchesRepos, evalBranch, List.any_cons, List.any_nil, Bool.or_false, hid,
            Bool.true_and, if_true]
          split
          · rename_i hb
            have hb' : br.1 = HEAD := by simpa using hb
            have hf := hH _ br rfl rfl hb'
            rw [hb']
            apply Bool.eq_iff_iff.mpr
            simp only [List.contains_iff_mem, List.any_eq_true, beq_iff_eq]
            constructor
            · intro h0; exact ⟨0, h0, (hf 0).2 rfl⟩
            · rintro ⟨i, hi, hb⟩
              have := (hf i).1 hb
              subst this; exact hi
          · refine any_congr_mem (fun i _ => ?_)
            cases r.branches[i]? with
            | none => simp
            | some nm => simp
    · simp at hc
  | repoSet set =>
    simp only [replacement, Option.some.injEq] at hc; subst hc
    refine ⟨?_, rfl⟩
    rw [selPred_exact filtered _ p h rfl ctx s d r hr, hp, eval_const]
  | repoIDs ids =>
    simp only [replacement, Option.some.injEq] at hc; subst hc
    refine ⟨?_, rfl⟩
    rw [selPred_exact filtered _ p h rfl ctx s d r hr, hp, eval_const]
  | repo p' =>
    simp only [replacement, Option.some.injEq] at hc; subst hc
    refine ⟨?_, rfl⟩
    rw [selPred_exact filtered _ p h rfl ctx s d r hr, hp, eval_const]
  | metaQ f p' =>
    simp only [replacement, Option.some.injEq] at hc; subst hc
    refine ⟨?_, rfl⟩
    rw [selPred_exact filtered _ p h rfl ctx s d r hr, hp, eval_const]
  | _ => simp [selPred] at h

/-! ### selection soundness -/

theorem replacement_wf (filtered : List RShard) (c c' : Q) (p : Repo → Bool) (hsel : selPred c = some p)
    (hrep : replacement filtered c = some c') :
    wf noEmpty true c' = true := by
  cases c with
  | branchesRepos l =>
    simp only [replacement] at hrep
    split at hrep
    · split at hrep
      · simp at hrep
      · rename_i hne
        split at hrep
        · simp at hrep
        · simp only [Option.some.injEq] at hrep; subst hrep
          simpa [wf, noEmpty] using hne
    · simp at hrep
  | repoSet set => simp only [replacement, Option.some.injEq] at hrep; subst hrep; rfl
  | repoIDs ids => simp only [replacement, Option.some.injEq] at hrep; subst hrep; rfl
  | repo p' => simp only [replacement, Option.some.injEq] at hrep; subst hrep; rfl
  | metaQ f p' => simp only [replacement, Option.some.injEq] at hrep; subst hrep; rfl
  | _ => simp [selPred] at hsel



theorem evalAll_false_of_mem (cs : List Q) (c : Q) (hc : c ∈ cs) (ctx s d) (h : eval c ctx s d = false) :
    eval (.and cs) ctx s d = false := by
  simp only [eval, evalAll_eq]
  rw [List.all_eq_false]
  exact ⟨c, hc, by simp [h]⟩

/-- **`doSelectRepoSet`**: for every loaded shard and every live document of it,
    the shard is selected and the rewritten query matches ⇔ the original `And` matches -/
theorem doSelectRepoSet_union (ctx : List Shard) (shards : List RShard) (cs : List Q)
    (hwf : wf noEmpty true (.and cs) = true)
    (rs : RShard) (hrs : rs ∈ shards) (d : Doc) (hl : rs.shard.live d = true) :
    (rs ∈ (doSelectRepoSet shards cs).1 ∧ eval (doSelectRepoSet shards cs).2 ctx rs.shard d = true) ↔
      eval (.and cs) ctx rs.shard d = true := by
  obtain ⟨r, hr, hlisted⟩ := live_listed rs d hl
  unfold doSelectRepoSet
  cases hff : firstFilter cs with
  | none => simp [hrs]
  | some x =>
    obtain ⟨i, c, pred⟩ := x
    obtain ⟨hci, hsel⟩ := firstFilter_spec cs i c pred hff
    have hcm : c ∈ cs := List.mem_of_getElem? hci
    -- a shard that is filtered out has no repository satisfying the predicate, so the child is false on `d`
    have hout : rs ∉ (filterShards pred shards).1 → eval (.and cs) ctx rs.shard d = false := by
      intro hn
      have h1 : ¬ (rs.failed = true ∨ rs.listed.any pred = true) := fun h => hn ((filterShards_mem pred shards rs).2 ⟨hrs, h⟩)
      have h2 : rs.listed.any pred = false := by
        cases h : rs.listed.any pred with
        | false => rfl
        | true => exact absurd (Or.inr h) h1
      have h3 : pred r = false := by
        rw [List.any_eq_false] at h2
        simpa using h2 r hlisted
      exact evalAll_false_of_mem cs c hcm ctx _ d (selPred_sound c pred hsel ctx _ d r hr h3)
    have hkeep : (rs ∈ (filterShards pred shards).1 ∧ eval (.and cs) ctx rs.shard d = true) ↔
        eval (.and cs) ctx rs.shard d = true := by
      constructor
      · exact fun h => h.2
      · intro h
        refine ⟨?_, h⟩
        apply Classical.byContradiction
        intro hn
        rw [hout hn] at h
        cases h
    simp only
    split
    · exact hkeep
    · split
      · exact hkeep
      · rename_i hne hall
        have hall' : (filterShards pred shards).2 = true := by simpa using hall
        cases hrep : replacement (filterShards pred shards).1 c with
        | none => exact hkeep
        | some c' =>
          simp only
          constructor
          · rintro ⟨hmem, hev⟩
            obtain ⟨_, hallp⟩ := filterShards_all pred shards hall' rs hmem
            have hp : pred r = true := List.all_eq_true.mp hallp r hlisted
            obtain ⟨he, hw⟩ := replacement_eval _ c c' pred hsel hrep ctx rs.shard d r hr hp (by
              intro l br hcl hl1 hb
              subst hcl; subst hl1
              exact replacement_head _ br c' hrep hb rs hmem r hlisted)
            have hwf' : wf noEmpty true (.and (cs.set i c')) = true := by
              simp only [wf, wfL_eq, List.all_eq_true] at hwf ⊢
              intro x hx
              rcases mem_set_cases cs i c' x hx with rfl | hx
              · exact hw
              · exact hwf x hx
            have hs := (simplify_pres (pb := noEmpty) (branchOK_noEmpty _ _) (scope_nt ctx (InShard rs.shard))
              (fun _ d hd => by obtain ⟨rfl, hl⟩ := hd; exact hl) _ hwf').2 rs.shard d ⟨rfl, hl⟩
            rw [hs] at hev
            simp only [eval, evalAll_eq] at hev ⊢
            rw [all_set cs (fun c => eval c ctx rs.shard d) i c c' hci he] at hev
            exact hev
          · intro h
            have hmem : rs ∈ (filterShards pred shards).1 := by
              apply Classical.byContradiction
              intro hn
              rw [hout hn] at h
              cases h
            refine ⟨hmem, ?_⟩
            obtain ⟨_, hallp⟩ := filterShards_all pred shards hall' rs hmem
            have hp : pred r = true := List.all_eq_true.mp hallp r hlisted
            obtain ⟨he, hw⟩ := replacement_eval _ c c' pred hsel hrep ctx rs.shard d r hr hp (by
              intro l br hcl hl1 hb
              subst hcl; subst hl1
              exact replacement_head _ br c' hrep hb rs hmem r hlisted)
            have hwf' : wf noEmpty true (.and (cs.set i c')) = true := by
              simp only [wf, wfL_eq, List.all_eq_true] at hwf ⊢
              intro x hx
              rcases mem_set_cases cs i c' x hx with rfl | hx
              · exact hw
              · exact hwf x hx
            have hs := (simplify_pres (pb := noEmpty) (branchOK_noEmpty _ _) (scope_nt ctx (InShard rs.shard))
              (fun _ d hd => by obtain ⟨rfl, hl⟩ := hd; exact hl) _ hwf').2 rs.shard d ⟨rfl, hl⟩
            rw [hs]
            simp only [eval, evalAll_eq] at h ⊢
            rw [all_set cs (fun c => eval c ctx rs.shard d) i c c' hci he]
            exact h

/-- the children `selectRepoSet` hands to `doSelectRepoSet` -/
def topChildren : Q → List Q
  | .and cs => cs
  | q => [q]

/-- **C18, shard pre-selection and filter rewrite** (`selectRepoSet`): for all sets of loaded shards (simple and
    compound, tombstoned repositories, shards whose repository list could not be cached), all queries without
    `type:repo` nodes (replaced before, see `typeRepo_*`) and without empty `Branch` patterns (C05's known class),
    every shard `rs` and every live document `d` of it:
    `rs` is selected and the rewritten query matches `d`  ⇔  the original query matches `d`. -/
theorem selectRepoSet_union (ctx : List Shard) (shards : List RShard) (q : Q)
    (hwf : wf noEmpty true q = true)
    (rs : RShard) (hrs : rs ∈ shards) (d : Doc) (hl : rs.shard.live d = true) :
    (rs ∈ (selectRepoSet shards q).1 ∧ eval (selectRepoSet shards q).2 ctx rs.shard d = true) ↔
      eval q ctx rs.shard d = true := by
  have single : ∀ q, (∀ cs, q ≠ .and cs) → wf noEmpty true q = true →
      ((rs ∈ (doSelectRepoSet shards [q]).1 ∧ eval (simplify (doSelectRepoSet shards [q]).2) ctx rs.shard d = true) ↔
        eval q ctx rs.shard d = true) := by
    intro q _ hq
    have hwf1 : wf noEmpty true (.and [q]) = true := by simpa [wf, wfL] using hq
    have h1 := doSelectRepoSet_union ctx shards [q] hwf1 rs hrs d hl
    have hand : eval (.and [q]) ctx rs.shard d = eval q ctx rs.shard d := by simp [eval, evalAll]
    rw [hand] at h1
    -- the result of doSelectRepoSet is well formed, so the final Simplify preserves it
    have hwf2 : wf noEmpty true (doSelectRepoSet shards [q]).2 = true := by
      unfold doSelectRepoSet
      cases hff : firstFilter [q] with
      | none => exact hwf1
      | some x =>
        obtain ⟨i, c, pred⟩ := x
        simp only
        split
        · exact hwf1
        · split
          · exact hwf1
          · cases hrep : replacement (filterShards pred shards).1 c with
            | none => exact hwf1
            | some c' =>
              simp only
              obtain ⟨hci, hsel⟩ := firstFilter_spec [q] i c pred hff
              have hw := replacement_wf _ c c' pred hsel hrep
              have hwf' : wf noEmpty true (.and ([q].set i c')) = true := by
                simp only [wf, wfL_eq, List.all_eq_true]
                intro x hx
                rcases mem_set_cases [q] i c' x hx with rfl | hx
                · exact hw
                · simp at hx; subst hx; exact hq
              exact (simplify_pres (pb := noEmpty) (ctx := ctx) (branchOK_noEmpty _ _) (scope_nt ctx (InShard rs.shard))
                (fun _ d hd => by obtain ⟨rfl, hl⟩ := hd; exact hl) _ hwf').1
    have hs := (simplify_pres (pb := noEmpty) (branchOK_noEmpty _ _) (scope_nt ctx (InShard rs.shard))
      (fun _ d hd => by obtain ⟨rfl, hl⟩ := hd; exact hl) _ hwf2).2 rs.shard d ⟨rfl, hl⟩
    rw [hs]
    exact h1
  cases q with
  | and cs => exact doSelectRepoSet_union ctx shards cs hwf rs hrs d hl
  | _ => exact single _ (by intro cs h; cases h) hwf

/-! ### which repositories a shard lists, the sharded list, and `type:repo` -/

def repoName (s : Shard) (d : Doc) : Option Str := (s.repoOf d).map (·.name)

/-- every non-tombstoned repository of the shard has at least one document (the property's quantifier) -/
def HasDocs (s : Shard) : Prop := ∀ r ∈ s.repos, r.tombstone = false → ∃ d ∈ s.docs, s.repoOf d = some r

theorem constValue_eq (q : Q) (v : Bool) (h : constValue q = some v) : q = .const v := by
  cases q <;> simp [constValue] at h
  subst h; rfl

/-- the name `n` is listed by the shard for `q` ⇔ a live document of a repository named `n` matches `q` -/
theorem shardList_names (ctx : List Shard) (s : Shard) (hv : s.featureVersion ≥ 12) (q : Q)
    (hq : wf noEmpty true q = true) (hd : HasDocs s) (n : Str) :
    n ∈ (shardList ctx s q).map (·.name) ↔
      ∃ d ∈ s.docs, s.live d = true ∧ repoName s d = some n ∧ eval q ctx s d = true := by
  obtain ⟨hw, hp⟩ := shardSimplify_pres ctx (pb := noEmpty) s (branchOK_noEmpty _ _) hv q hq
  have hpe : ∀ d, s.live d = true → eval (expand (shardSimplify s q)) ctx s d = eval q ctx s d := by
    intro d hl
    rw [(expand_pres (scope_nt ctx (InShard s)) _ hw).2 s d ⟨rfl, hl⟩]
    exact hp s d ⟨rfl, hl⟩
  unfold shardList
  cases hc : constValue (shardSimplify s q) with
  | some v =>
    have hcq := constValue_eq _ v hc
    cases v with
    | false =>
      simp only [List.map_nil, List.not_mem_nil, false_iff]
      rintro ⟨d, _, hl, _, he⟩
      have := hp s d ⟨rfl, hl⟩
      rw [hcq, eval_const] at this
      rw [← this] at he
      cases he
    | true =>
      simp only [List.mem_map, List.mem_filter]
      constructor
      · rintro ⟨r, ⟨hr, ht⟩, rfl⟩
        have ht' : r.tombstone = false := by simpa using ht
        obtain ⟨d, hdm, hrd⟩ := hd r hr ht'
        have hl : s.live d = true := by simp [Shard.live, hrd, ht']
        refine ⟨d, hdm, hl, by simp [repoName, hrd], ?_⟩
        have := hp s d ⟨rfl, hl⟩
        rw [hcq, eval_const] at this
        exact this.symm
      · rintro ⟨d, _, hl, hn, _⟩
        obtain ⟨r, hr, ht⟩ := live_repoOf hl
        refine ⟨r, ⟨repoOf_mem hr, by simp [ht]⟩, ?_⟩
        simpa [repoName, hr] using hn
  | none =>
    simp only [List.mem_map, List.mem_filter, Bool.and_eq_true, List.contains_iff_mem, List.mem_filterMap]
    constructor
    · rintro ⟨r, ⟨_, _, d, ⟨hdm, hl, he⟩, hn⟩, rfl⟩
      exact ⟨d, hdm, hl, by simpa [repoName] using hn, by rw [← hpe d hl]; exact he⟩
    · rintro ⟨d, hdm, hl, hn, he⟩
      obtain ⟨r, hr, ht⟩ := live_repoOf hl
      have hrn : r.name = n := by simpa [repoName, hr] using hn
      refine ⟨r, ⟨repoOf_mem hr, by simp [ht], d, ⟨hdm, hl, by rw [hpe d hl]; exact he⟩, ?_⟩, hrn⟩
      simp [hr]

theorem doSelect_wf (shards : List RShard) (cs : List Q) (hwf : wf noEmpty true (.and cs) = true) :
    wf noEmpty true (doSelectRepoSet shards cs).2 = true := by
  unfold doSelectRepoSet
  cases hff : firstFilter cs with
  | none => exact hwf
  | some x =>
    obtain ⟨i, c, pred⟩ := x
    simp only
    split
    · exact hwf
    · split
      · exact hwf
      · cases hrep : replacement (filterShards pred shards).1 c with
        | none => exact hwf
        | some c' =>
          simp only
          obtain ⟨hci, hsel⟩ := firstFilter_spec cs i c pred hff
          have hw := replacement_wf _ c c' pred hsel hrep
          have hwf' : wf noEmpty true (.and (cs.set i c')) = true := by
            simp only [wf, wfL_eq, List.all_eq_true] at hwf ⊢
            intro x hx
            rcases mem_set_cases cs i c' x hx with rfl | hx
            · exact hw
            · exact hwf x hx
          exact (simplify_pres (pb := noEmpty) (ctx := []) (branchOK_noEmpty _ _) (scope_nt [] (fun _ _ => False))
            (fun _ _ hd => hd.elim) _ hwf').1

theorem doSelect_subset (shards : List RShard) (cs : List Q) (rs : RShard)
    (h : rs ∈ (doSelectRepoSet shards cs).1) : rs ∈ shards := by
  unfold doSelectRepoSet at h
  cases hff : firstFilter cs with
  | none => simpa [hff] using h
  | some x =>
    obtain ⟨i, c, pred⟩ := x
    simp only [hff] at h
    have key : ∀ q : Q, rs ∈ ((filterShards pred shards).1, q).1 → rs ∈ shards :=
      fun _ hm => ((filterShards_mem pred shards rs).1 hm).1
    split at h
    · exact key _ h
    · split at h
      · exact key _ h
      · cases hrep : replacement (filterShards pred shards).1 c with
        | none => simp only [hrep] at h; exact key (.const true) h
        | some c' => simp only [hrep] at h; exact key (.const true) h

theorem selectRepoSet_wf (shards : List RShard) (q : Q) (hwf : wf noEmpty true q = true) :
    wf noEmpty true (selectRepoSet shards q).2 = true := by
  have single : ∀ q, wf noEmpty true q = true → wf noEmpty true (simplify (doSelectRepoSet shards [q]).2) = true := by
    intro q hq
    have h1 : wf noEmpty true (.and [q]) = true := by simpa [wf, wfL] using hq
    exact (simplify_pres (pb := noEmpty) (ctx := []) (branchOK_noEmpty _ _) (scope_nt [] (fun _ _ => False))
      (fun _ _ hd => hd.elim) _ (doSelect_wf shards [q] h1)).1
  cases q with
  | and cs => exact doSelect_wf shards cs hwf
  | _ => exact single _ hwf

theorem selectRepoSet_subset (shards : List RShard) (q : Q) (rs : RShard)
    (h : rs ∈ (selectRepoSet shards q).1) : rs ∈ shards := by
  cases q with
  | and cs => exact doSelect_subset shards cs rs h
  | _ => exact doSelect_subset shards [_] rs h

/-- current shard format, and every live repository has a document -/
def GoodShards (shards : List RShard) : Prop :=
  ∀ rs ∈ shards, rs.shard.featureVersion ≥ 12 ∧ HasDocs rs.shard

/-- the sharded `List` names exactly the repositories with a live matching document somewhere -/
theorem shardedListNames_spec (shards : List RShard) (q : Q) (hq : wf noEmpty true q = true)
    (hg : GoodShards shards) (n : Str) :
    n ∈ shardedListNames shards q ↔
      ∃ rs ∈ shards, ∃ d ∈ rs.shard.docs, rs.shard.live d = true ∧ repoName rs.shard d = some n ∧
        eval q (shards.map (·.shard)) rs.shard d = true := by
  let ctx := shards.map (·.shard)
  have hs1 : wf noEmpty true (simplify q) = true :=
    (simplify_pres (pb := noEmpty) (ctx := []) (branchOK_noEmpty _ _) (scope_nt [] (fun _ _ => False)) (fun _ _ hd => hd.elim) q hq).1
  have hsp : ∀ (s : Shard) d, s.live d = true → eval (simplify q) ctx s d = eval q ctx s d := by
    intro s d hl
    exact (simplify_pres (pb := noEmpty) (branchOK_noEmpty _ _) (scope_nt ctx (InShard s))
      (fun _ d hd => by obtain ⟨rfl, hl⟩ := hd; exact hl) q hq).2 s d ⟨rfl, hl⟩
  have hw2 := selectRepoSet_wf shards (simplify q) hs1
  have hU := fun rs hrs d hl => selectRepoSet_union ctx shards (simplify q) hs1 rs hrs d hl
  unfold shardedListNames
  simp only [List.mem_eraseDups, List.mem_flatMap]
  constructor
  · rintro ⟨rs, hsel, hn⟩
    have hrs := selectRepoSet_subset shards _ rs hsel
    obtain ⟨hv, hd⟩ := hg rs hrs
    obtain ⟨d, hdm, hl, hnm, he⟩ := (shardList_names ctx rs.shard hv _ hw2 hd n).1 hn
    refine ⟨rs, hrs, d, hdm, hl, hnm, ?_⟩
    rw [← hsp rs.shard d hl]
    exact (hU rs hrs d hl).1 ⟨hsel, he⟩
  · rintro ⟨rs, hrs, d, hdm, hl, hnm, he⟩
    obtain ⟨hv, hd⟩ := hg rs hrs
    rw [← hsp rs.shard d hl] at he
    obtain ⟨hsel, he2⟩ := (hU rs hrs d hl).2 he
    exact ⟨rs, hsel, (shardList_names ctx rs.shard hv _ hw2 hd n).2 ⟨d, hdm, hl, hnm, he2⟩⟩

/-! ### `type:repo` pre-evaluation -/

/-! no parser-internal case-scope wrapper (they are stripped by `query.Parse` and never reach a searcher) -/
mutual
def noScope : Q → Bool
  | .and cs => noScopeL cs
  | .or cs => noScopeL cs
  | .not c => noScope c
  | .type _ c => noScope c
  | .boost _ c => noScope c
  | .caseScope _ => false
  | _ => true
def noScopeL : List Q → Bool
  | [] => true
  | c :: cs => noScope c && noScopeL cs
end

theorem noScopeL_eq (cs : List Q) : noScopeL cs = cs.all noScope := by
  induction cs with
  | nil => simp [noScopeL]
  | cons c cs ih => simp [noScopeL, ih]

theorem typeRepoStep_leaf (shards : List RShard) (q : Q) (h : isLeaf q = true) : typeRepoStep shards q = q := by
  cases q <;> first | rfl | simp [isLeaf] at h

theorem typeRepoStep_type_ne (shards : List RShard) (t : Nat) (c : Q) (h : t ≠ 2) :
    typeRepoStep shards (.type t c) = .type t c := by
  unfold typeRepoStep
  split
  · rename_i heq
    simp only [Q.type.injEq] at heq
    exact absurd heq.1 h
  · rfl

theorem lookup_map_true (n : Str) (l : List Str) : (lookup n (l.map fun x => (x, true)) == some true) = l.contains n := by
  induction l with
  | nil => simp [lookup]
  | cons a t ih =>
    simp only [List.map_cons, lookup, List.contains_cons]
    by_cases h : a = n
    · subst h; simp
    · have h1 : (a == n) = false := by simpa using h
      have h2 : (n == a) = false := by simpa using (fun e : n = a => h e.symm)
      simp [h1, h2, ih]

theorem wf_tt_of_leaf (q : Q) (hl : isLeaf q = true) (h : wf noEmpty false q = true) : wf noEmpty true q = true := by
  cases q <;> first | exact h | simp [isLeaf] at hl

/-- **`typeRepoSearcher.eval`** replaces every `type:repo` node by a set that evaluates like it, on every live
    document of the corpus, and leaves a tree without `type:repo` -/
theorem typeRepoEval_spec (shards : List RShard) (hg : GoodShards shards) (q : Q) :
    wf noEmpty false q = true → noScope q = true →
    wf noEmpty true (map (typeRepoStep shards) q) = true ∧
    ∀ s d, InCorpus (shards.map (·.shard)) s d →
      eval (map (typeRepoStep shards) q) (shards.map (·.shard)) s d = eval q (shards.map (·.shard)) s d := by
  induction q using Q.ind with
  | hconst v => intro _ _; exact ⟨rfl, fun _ _ _ => rfl⟩
  | hand cs ih =>
    intro h hn
    have hw : ∀ c ∈ cs, wf noEmpty false c = true := by simpa [wf, wfL_eq] using h
    have hs : ∀ c ∈ cs, noScope c = true := by simpa [noScope, noScopeL_eq] using hn
    have e : map (typeRepoStep shards) (.and cs) = .and (mapL (typeRepoStep shards) cs) := by
      simp [map, typeRepoStep]
    rw [e]
    refine ⟨?_, fun s d hd => ?_⟩
    · simp only [wf, wfL_eq, mapL_eq, List.all_map, List.all_eq_true]
      exact fun c hc => (ih c hc (hw c hc) (hs c hc)).1
    · simp only [eval, evalAll_eq, mapL_eq, List.all_map]
      exact all_congr_mem (fun c hc => (ih c hc (hw c hc) (hs c hc)).2 s d hd)
  | hor cs ih =>
    intro h hn
    have hw : ∀ c ∈ cs, wf noEmpty false c = true := by simpa [wf, wfL_eq] using h
    have hs : ∀ c ∈ cs, noScope c = true := by simpa [noScope, noScopeL_eq] using hn
    have e : map (typeRepoStep shards) (.or cs) = .or (mapL (typeRepoStep shards) cs) := by
      simp [map, typeRepoStep]
    rw [e]
    refine ⟨?_, fun s d hd => ?_⟩
    · simp only [wf, wfL_eq, mapL_eq, List.all_map, List.all_eq_true]
      exact fun c hc => (ih c hc (hw c hc) (hs c hc)).1
    · simp only [eval, evalAny_eq, mapL_eq, List.any_map]
      exact any_congr_mem (fun c hc => (ih c hc (hw c hc) (hs c hc)).2 s d hd)
  | hnot c ih =>
    intro h hn
    obtain ⟨i1, i2⟩ := ih (by simpa [wf] using h) (by simpa [noScope] using hn)
    have e : map (typeRepoStep shards) (.not c) = .not (map (typeRepoStep shards) c) := by
      simp [map, typeRepoStep]
    rw [e]
    exact ⟨by simpa [wf] using i1, fun s d hd => by simp [eval, i2 s d hd]⟩
  | hboost w c ih =>
    intro h hn
    obtain ⟨i1, i2⟩ := ih (by simpa [wf] using h) (by simpa [noScope] using hn)
    have e : map (typeRepoStep shards) (.boost w c) = .boost w (map (typeRepoStep shards) c) := by
      simp [map, typeRepoStep]
    rw [e]
    exact ⟨by simpa [wf] using i1, fun s d hd => by simp [eval, i2 s d hd]⟩
  | hcs c _ => intro _ hn; simp [noScope] at hn
  | hleaf q hl =>
    intro h _
    rw [map_leaf _ q hl, typeRepoStep_leaf shards q hl]
    exact ⟨wf_tt_of_leaf q hl h, fun _ _ _ => rfl⟩
  | htype t c ih =>
    intro h hn
    obtain ⟨i1, i2⟩ := ih (by simpa [wf] using h) (by simpa [noScope] using hn)
    by_cases ht : t = 2
    · subst ht
      have e : map (typeRepoStep shards) (.type 2 c) =
          .repoSet ((shardedListNames shards (map (typeRepoStep shards) c)).map fun n => (n, true)) := by
        simp [map, typeRepoStep]
      rw [e]
      refine ⟨rfl, fun s d hd => ?_⟩
      obtain ⟨hsm, hdm, hl⟩ := hd
      obtain ⟨r, hr, _⟩ := live_repoOf hl
      simp only [eval, hr, evalAtom, evalRepoSet, lookup_map_true, beq_self_eq_true, if_true]
      apply Bool.eq_iff_iff.mpr
      rw [List.contains_iff_mem, shardedListNames_spec shards _ i1 hg r.name, List.any_eq_true]
      constructor
      · rintro ⟨rs, hrs, d', hd', hl', hn', he'⟩
        refine ⟨rs.shard, List.mem_map.mpr ⟨rs, hrs, rfl⟩, ?_⟩
        rw [List.any_eq_true]
        refine ⟨d', hd', ?_⟩
        have hin : InCorpus (shards.map (·.shard)) rs.shard d' := ⟨List.mem_map.mpr ⟨rs, hrs, rfl⟩, hd', hl'⟩
        rw [i2 rs.shard d' hin] at he'
        have hn2 : (rs.shard.repoOf d').map (·.name) = some r.name := hn'
        simp [hl', he', hn2]
      · rintro ⟨s', hs', hany⟩
        rw [List.any_eq_true] at hany
        obtain ⟨d', hd', hb⟩ := hany
        obtain ⟨rs, hrs, rfl⟩ := List.mem_map.mp hs'
        simp only [Bool.and_eq_true, beq_iff_eq] at hb
        obtain ⟨⟨hl', hn'⟩, he'⟩ := hb
        have hin : InCorpus (shards.map (·.shard)) rs.shard d' := ⟨hs', hd', hl'⟩
        refine ⟨rs, hrs, d', hd', hl', hn', ?_⟩
        rw [i2 rs.shard d' hin]; exact he'
    · have e : map (typeRepoStep shards) (.type t c) = .type t (map (typeRepoStep shards) c) := by
        simp only [map]; exact typeRepoStep_type_ne shards t _ ht
      rw [e]
      refine ⟨?_, fun s d hd => ?_⟩
      · simp only [wf, Bool.and_eq_true]; exact ⟨by simpa using ht, i1⟩
      · have h2 : (t == 2) = false := by simpa using ht
        simp only [eval, h2, Bool.false_eq_true, if_false]
        exact i2 s d hd

/-! ### list aggregation -/

theorem addStats_nil_left (t : Stats) : addStats [] t = t := by
  cases t <;> rfl

theorem mergeEntry_cons_eq (n : Str) (st : Stats) (t : List (Str × Stats)) (est : Stats) :
    mergeEntry ((n, st) :: t) (n, est) = (n, addStats st est) :: t := by
  simp [mergeEntry]

theorem mergeEntry_cons_ne (an : Str) (st : Stats) (t : List (Str × Stats)) (en : Str) (est : Stats) (h : an ≠ en) :
    mergeEntry ((an, st) :: t) (en, est) = (an, st) :: mergeEntry t (en, est) := by
  have : (an == en) = false := by simpa using h
  simp [mergeEntry, this]

theorem lookup_cons_eq {β} (n : Str) (v : β) (t : List (Str × β)) : lookup n ((n, v) :: t) = some v := by
  simp [lookup]

theorem lookup_cons_ne {β} (an n : Str) (v : β) (t : List (Str × β)) (h : an ≠ n) :
    lookup n ((an, v) :: t) = lookup n t := by
  have : (an == n) = false := by simpa using h
  simp [lookup, this]

theorem lookup_mergeEntry (acc : List (Str × Stats)) (en : Str) (est : Stats) (n : Str) :
    lookup n (mergeEntry acc (en, est)) =
      if en = n then some (match lookup n acc with | some st => addStats st est | none => est)
      else lookup n acc := by
  induction acc with
  | nil =>
    by_cases h : en = n
    · subst h; simp [mergeEntry, lookup]
    · have : (en == n) = false := by simpa using h
      simp [mergeEntry, lookup, h, this]
  | cons a t ih =>
    obtain ⟨an, ast⟩ := a
    by_cases h1 : an = en
    · subst h1
      rw [mergeEntry_cons_eq]
      by_cases h : an = n
      · subst h; simp [lookup_cons_eq]
      · simp [lookup_cons_ne _ _ _ _ h, h]
    · rw [mergeEntry_cons_ne _ _ _ _ _ h1]
      by_cases h : an = n
      · subst h
        have hne : ¬ en = an := fun e => h1 e.symm
        simp [lookup_cons_eq, hne]
      · rw [lookup_cons_ne _ _ _ _ h, lookup_cons_ne _ _ _ _ h, ih]

theorem names_mergeEntry (acc : List (Str × Stats)) (en : Str) (est : Stats) (x : Str) :
    x ∈ (mergeEntry acc (en, est)).map (·.1) ↔ x ∈ acc.map (·.1) ∨ x = en := by
  induction acc with
  | nil => simp [mergeEntry]
  | cons a t ih =>
    obtain ⟨an, ast⟩ := a
    by_cases h1 : an = en
    · subst h1
      rw [mergeEntry_cons_eq]
      simp only [List.map_cons, List.mem_cons]
      constructor
      · rintro (h | h)
        · exact Or.inl (Or.inl h)
        · exact Or.inl (Or.inr h)
      · rintro ((h | h) | h)
        · exact Or.inl h
        · exact Or.inr h
        · exact Or.inl h
    · rw [mergeEntry_cons_ne _ _ _ _ _ h1]
      simp only [List.map_cons, List.mem_cons, ih]
      constructor
      · rintro (h | h | h)
        · exact Or.inl (Or.inl h)
        · exact Or.inl (Or.inr h)
        · exact Or.inr h
      · rintro ((h | h) | h)
        · exact Or.inl h
        · exact Or.inr (Or.inl h)
        · exact Or.inr (Or.inr h)

theorem nodup_mergeEntry (acc : List (Str × Stats)) (en : Str) (est : Stats) (h : (acc.map (·.1)).Nodup) :
    ((mergeEntry acc (en, est)).map (·.1)).Nodup := by
  induction acc with
  | nil => simp [mergeEntry]
  | cons a t ih =>
    obtain ⟨an, ast⟩ := a
    simp only [List.map_cons, List.nodup_cons] at h
    by_cases h1 : an = en
    · subst h1
      rw [mergeEntry_cons_eq]
      simpa using h
    · rw [mergeEntry_cons_ne _ _ _ _ _ h1]
      simp only [List.map_cons, List.nodup_cons]
      refine ⟨?_, ih h.2⟩
      intro hm
      rcases (names_mergeEntry t en est an).1 hm with hm | hm
      · exact h.1 hm
      · exact h1 hm

/-- statistics of name `n` summed over a list of entries, in order -/
theorem sumFor_append_one (n : Str) (P : List (Str × Stats)) (e : Str × Stats) :
    sumFor n (P ++ [e]) = if e.1 = n then addStats (sumFor n P) e.2 else sumFor n P := by
  unfold sumFor
  rw [List.filter_append, List.foldl_append]
  by_cases h : e.1 = n
  · subst h; simp [List.filter]
  · have : (e.1 == n) = false := by simpa using h
    simp [List.filter, this, h]

/-- invariant of the aggregation loop: the map holds, for exactly the names seen so far, the sum of their entries -/
def AggInv (acc P : List (Str × Stats)) : Prop :=
  (acc.map (·.1)).Nodup ∧
  ∀ n, lookup n acc = if n ∈ P.map (·.1) then some (sumFor n P) else none

theorem aggInv_step (acc P : List (Str × Stats)) (e : Str × Stats) (h : AggInv acc P) :
    AggInv (mergeEntry acc e) (P ++ [e]) := by
  obtain ⟨en, est⟩ := e
  obtain ⟨h1, h2⟩ := h
  refine ⟨nodup_mergeEntry acc en est h1, ?_⟩
  intro n
  rw [lookup_mergeEntry, sumFor_append_one, h2 n]
  by_cases he : en = n
  · subst he
    by_cases hm : en ∈ P.map (·.1)
    · simp [hm]
    · have hs : sumFor en P = [] := by
        unfold sumFor
        have : P.filter (fun x => x.1 == en) = [] := by
          rw [List.filter_eq_nil_iff]
          intro x hx hxe
          exact hm (List.mem_map.mpr ⟨x, hx, by simpa using hxe⟩)
        simp [this]
      simp [hm, hs, addStats_nil_left]
  · have hne : ¬ n = en := fun h => he h.symm
    have hm : n ∈ (P ++ [(en, est)]).map (·.1) ↔ n ∈ P.map (·.1) := by
      rw [List.map_append, List.mem_append]
      constructor
      · rintro (h | h)
        · exact h
        · simp at h; exact absurd h hne
      · exact Or.inl
    simp only [he, if_false]
    by_cases hp : n ∈ P.map (·.1)
    · rw [if_pos hp, if_pos (hm.2 hp)]
    · rw [if_neg hp, if_neg (fun h => hp (hm.1 h))]

theorem aggInv_fold (rest acc P : List (Str × Stats)) (h : AggInv acc P) :
    AggInv (rest.foldl mergeEntry acc) (P ++ rest) := by
  induction rest generalizing acc P with
  | nil => simpa using h
  | cons e t ih =>
    have := ih (mergeEntry acc e) (P ++ [e]) (aggInv_step acc P e h)
    simpa [List.append_assoc] using this

theorem lookup_of_mem (l : List (Str × Stats)) (h : (l.map (·.1)).Nodup) (o : Str × Stats) (ho : o ∈ l) :
    lookup o.1 l = some o.2 := by
  induction l with
  | nil => cases ho
  | cons a t ih =>
    obtain ⟨an, ast⟩ := a
    simp only [List.map_cons, List.nodup_cons] at h
    rcases List.mem_cons.mp ho with rfl | ho
    · simp [lookup]
    · have hne : an ≠ o.1 := by
        intro he
        exact h.1 (he ▸ List.mem_map.mpr ⟨o, ho, rfl⟩)
      have : (an == o.1) = false := by simpa using hne
      simp [lookup, this, ih h.2 ho]

theorem lookup_isSome_iff (l : List (Str × Stats)) (n : Str) : (lookup n l).isSome = true ↔ n ∈ l.map (·.1) := by
  induction l with
  | nil => simp [lookup]
  | cons a t ih =>
    obtain ⟨an, ast⟩ := a
    simp only [lookup, List.map_cons, List.mem_cons]
    by_cases h : an = n
    · subst h; simp
    · have : (an == n) = false := by simpa using h
      have hne : ¬ n = an := fun e => h e.symm
      simp [this, ih, hne]

end ZoektModel.C18
