/-
C18 — helper lemmas for Props/C18.lean.
-/
import ZoektModel.C18.Spec
import ZoektModel.C05.Lemmas
namespace ZoektModel.C18
open ZoektModel.Query

/-- `HEAD` names the first branch of the repository, and only that one -/
def HeadFirst (r : Repo) : Prop := ∀ i, r.branches[i]? = some HEAD ↔ i = 0

theorem firstFilter_spec (cs : List Q) (i : Nat) (c : Q) (p : Repo → Bool)
    (h : firstFilter cs = some (i, c, p)) : cs[i]? = some c ∧ selPred c = some p := by
  induction cs generalizing i with
  | nil => simp [firstFilter] at h
  | cons a r ih =>
    simp only [firstFilter] at h
    split at h
    · rename_i p' hp
      simp only [Option.some.injEq, Prod.mk.injEq] at h
      obtain ⟨rfl, rfl, rfl⟩ := h
      exact ⟨by simp, hp⟩
    · cases hf : firstFilter r with
      | none => simp [hf] at h
      | some x =>
        obtain ⟨j, c', p'⟩ := x
        simp only [hf, Option.map, Option.some.injEq, Prod.mk.injEq] at h
        obtain ⟨rfl, rfl, rfl⟩ := h
        have := ih j hf
        exact ⟨by simpa using this.1, this.2⟩

/-- a filter child can only match documents of repositories that satisfy its selection predicate -/
theorem selPred_sound (c : Q) (p : Repo → Bool) (h : selPred c = some p) (ctx s d) (r : Repo)
    (hr : Shard.repoOf s d = some r) (hp : p r = false) : eval c ctx s d = false := by
  cases c with
  | repoSet set =>
    simp only [selPred, Option.some.injEq] at h; subst h
    simpa [eval, hr, evalAtom, evalRepoSet] using hp
  | repoIDs ids =>
    simp only [selPred, Option.some.injEq] at h; subst h
    simpa [eval, hr, evalAtom] using hp
  | repo p' =>
    simp only [selPred, Option.some.injEq] at h; subst h
    simpa [eval, hr, evalAtom] using hp
  | metaQ f p' =>
    simp only [selPred, Option.some.injEq] at h; subst h
    simpa [eval, hr, evalAtom] using hp
  | branchesRepos l =>
    simp only [selPred, Option.some.injEq] at h; subst h
    simp only [eval, hr, evalAtom, evalBranchesRepos]
    rw [List.any_eq_false] at hp ⊢
    intro br hbr
    have := hp br hbr
    have h4 : r.id ∉ br.2 := by simpa using this
    simp [h4]
  | _ => simp [selPred] at h

/-- … and for the kinds replaced by TRUE the predicate *is* the evaluation -/
theorem selPred_exact (c : Q) (p : Repo → Bool) (h : selPred c = some p) (hc : replacement c = some (.const true))
    (ctx s d) (r : Repo) (hr : Shard.repoOf s d = some r) : eval c ctx s d = p r := by
  cases c with
  | repoSet set =>
    simp only [selPred, Option.some.injEq] at h; subst h
    simp [eval, hr, evalAtom, evalRepoSet]
  | repoIDs ids =>
    simp only [selPred, Option.some.injEq] at h; subst h
    simp [eval, hr, evalAtom]
  | repo p' =>
    simp only [selPred, Option.some.injEq] at h; subst h
    simp [eval, hr, evalAtom]
  | metaQ f p' =>
    simp only [selPred, Option.some.injEq] at h; subst h
    simp [eval, hr, evalAtom]
  | branchesRepos l =>
    simp only [replacement] at hc
    split at hc
    · split at hc <;> simp at hc
    · simp at hc
  | _ => simp [selPred] at h

/-! ### the loop over shards -/

theorem filterShards_mem (p : Repo → Bool) (shards : List RShard) (rs : RShard) :
    rs ∈ (filterShards p shards).1 ↔ rs ∈ shards ∧ (rs.failed = true ∨ rs.listed.any p = true) := by
  induction shards with
  | nil => simp [filterShards]
  | cons a t ih =>
    simp only [filterShards]
    split
    · rename_i hf
      simp only [List.mem_cons, ih]
      constructor
      · rintro (rfl | ⟨h1, h2⟩)
        · exact ⟨Or.inl rfl, Or.inl hf⟩
        · exact ⟨Or.inr h1, h2⟩
      · rintro ⟨rfl | h1, h2⟩
        · exact Or.inl rfl
        · exact Or.inr ⟨h1, h2⟩
    · split
      · rename_i hf ha
        simp only [List.mem_cons, ih]
        constructor
        · rintro (rfl | ⟨h1, h2⟩)
          · exact ⟨Or.inl rfl, Or.inr ha⟩
          · exact ⟨Or.inr h1, h2⟩
        · rintro ⟨rfl | h1, h2⟩
          · exact Or.inl rfl
          · exact Or.inr ⟨h1, h2⟩
      · rename_i hf ha
        simp only [List.mem_cons, ih]
        constructor
        · rintro ⟨h1, h2⟩
          exact ⟨Or.inr h1, h2⟩
        · rintro ⟨rfl | h1, h2⟩
          · rcases h2 with h2 | h2
            · exact absurd h2 hf
            · exact absurd h2 ha
          · exact ⟨h1, h2⟩

theorem filterShards_all (p : Repo → Bool) (shards : List RShard) (h : (filterShards p shards).2 = true) :
    ∀ rs ∈ (filterShards p shards).1, rs.failed = false ∧ rs.listed.all p = true := by
  induction shards with
  | nil => simp [filterShards]
  | cons a t ih =>
    simp only [filterShards] at h ⊢
    split at h
    · simp at h
    · split at h
      · rename_i hf ha
        simp only [Bool.and_eq_true] at h
        rw [if_neg hf, if_pos ha]
        intro rs hrs
        rcases List.mem_cons.mp hrs with rfl | hrs
        · exact ⟨by simpa using hf, h.1⟩
        · exact ih h.2 rs hrs
      · rename_i hf ha
        rw [if_neg hf, if_neg ha]
        exact ih h

theorem live_listed (rs : RShard) (d : Doc) (h : rs.shard.live d = true) :
    ∃ r, rs.shard.repoOf d = some r ∧ r ∈ rs.listed := by
  obtain ⟨r, hr, ht⟩ := live_repoOf h
  exact ⟨r, hr, List.mem_filter.mpr ⟨repoOf_mem hr, by simp [ht]⟩⟩

/-! ### replacing one child of an `And` -/

theorem all_set {α} (l : List α) (f : α → Bool) (i : Nat) (c c' : α) (h : l[i]? = some c) (hf : f c' = f c) :
    (l.set i c').all f = l.all f := by
  induction l generalizing i with
  | nil => simp
  | cons a t ih =>
    cases i with
    | zero => simp at h; subst h; simp [hf]
    | succ j => simp at h; simp [ih j h]

theorem mem_set_cases {α} (l : List α) (i : Nat) (c' x : α) (h : x ∈ l.set i c') : x = c' ∨ x ∈ l := by
  induction l generalizing i with
  | nil => simp at h
  | cons a t ih =>
    cases i with
    | zero => simp at h; rcases h with rfl | h; exact Or.inl rfl; exact Or.inr (by simp [h])
    | succ j =>
      simp at h
      rcases h with rfl | h
      · exact Or.inr (by simp)
      · rcases ih j h with h | h
        · exact Or.inl h
        · exact Or.inr (by simp [h])

/-- the replacement of a fully satisfied filter child evaluates like the child, on documents of repositories that
    satisfy the selection predicate — for `BranchesRepos[HEAD]` provided `HEAD` names the repository's first branch -/
theorem replacement_eval (c c' : Q) (p : Repo → Bool) (h : selPred c = some p) (hc : replacement c = some c')
    (ctx s d) (r : Repo) (hr : Shard.repoOf s d = some r) (hp : p r = true)
    (hH : ∀ l br, c = .branchesRepos l → l = [br] → br.1 = HEAD → HeadFirst r) :
    eval c' ctx s d = eval c ctx s d ∧ wf true true c' = true := by
  cases c with
  | branchesRepos l =>
    simp only [replacement] at hc
    split at hc
    · rename_i br
      split at hc
      · simp at hc
      · rename_i hne
        simp only [Option.some.injEq] at hc
        subst hc
        simp only [selPred, Option.some.injEq] at h
        subst h
        have hid : br.2.contains r.id = true := by simpa using hp
        refine ⟨?_, by simpa [wf] using hne⟩
        simp only [eval, hr, evalAtom, evalBranchesRepos, evalBranch, List.any_cons, List.any_nil, Bool.or_false, hid,
          Bool.true_and, if_true]
        split
        · rename_i hb
          have hb' : br.1 = HEAD := by simpa using hb
          have hf := hH _ br rfl rfl hb'
          rw [hb']
          apply Bool.eq_iff_iff.mpr
          simp only [List.contains_iff_mem, List.any_eq_true, beq_iff_eq]
          constructor
          · intro h0; exact ⟨0, h0, (hf 0).2 rfl⟩
          · rintro ⟨i, hi, hb⟩
            have := (hf i).1 hb
            subst this; exact hi
        · refine any_congr_mem (fun i _ => ?_)
          cases r.branches[i]? with
          | none => simp
          | some nm => simp
    · simp at hc
  | repoSet set =>
    simp only [replacement, Option.some.injEq] at hc; subst hc
    refine ⟨?_, rfl⟩
    rw [selPred_exact _ p h rfl ctx s d r hr, hp, eval_const]
  | repoIDs ids =>
    simp only [replacement, Option.some.injEq] at hc; subst hc
    refine ⟨?_, rfl⟩
    rw [selPred_exact _ p h rfl ctx s d r hr, hp, eval_const]
  | repo p' =>
    simp only [replacement, Option.some.injEq] at hc; subst hc
    refine ⟨?_, rfl⟩
    rw [selPred_exact _ p h rfl ctx s d r hr, hp, eval_const]
  | metaQ f p' =>
    simp only [replacement, Option.some.injEq] at hc; subst hc
    refine ⟨?_, rfl⟩
    rw [selPred_exact _ p h rfl ctx s d r hr, hp, eval_const]
  | _ => simp [selPred] at h

end ZoektModel.C18
