/-
C18 — the property as executable predicates, written from the statement: searching the loaded shards gives the union
of the per-shard answers for the original query; listing gives each repository once with statistics summed.
-/
import ZoektModel.C18.Model
import ZoektModel.C05.Spec
namespace ZoektModel.C18
open ZoektModel.Query

def corpus (shards : List RShard) : List Shard := shards.map (·.shard)

/-- pre-selection + rewrite is right: for every shard `i` and every live document of it,
    (shard selected ∧ rewritten query matches) ↔ original query matches -/
def checkSelect (shards : List RShard) (q : Q) (sel : List Nat) (q' : Q) : Bool :=
  let ctx := corpus shards
  (List.range shards.length).all fun i =>
    match shards[i]? with
    | none => true
    | some rs => rs.shard.docs.all fun d =>
        !rs.shard.live d || ((sel.contains i && eval q' ctx rs.shard d) == eval q ctx rs.shard d)

/-- the files `(shard, document position)` the union of per-shard answers for the original query consists of -/
def unionAnswer (shards : List RShard) (q : Q) : List (Nat × Nat) :=
  let ctx := corpus shards
  (List.range shards.length).flatMap fun i =>
    match shards[i]? with
    | none => []
    | some rs => (selected ctx rs.shard q).map fun j => (i, j)

/-- sharded search returns exactly the union -/
def checkSearch (shards : List RShard) (q : Q) (files : List (Nat × Nat)) : Bool :=
  files == unionAnswer shards q

/-- lexicographic order on byte strings, insertion sort, duplicates check -/
def strLt : Str → Str → Bool
  | [], [] => false
  | [], _ :: _ => true
  | _ :: _, [] => false
  | a :: r, b :: t => a < b || (a == b && strLt r t)

def insertSorted (x : Str) : List Str → List Str
  | [] => [x]
  | y :: r => if strLt y x then y :: insertSorted x r else x :: y :: r

def sortStrs (l : List Str) : List Str := l.foldr insertSorted []

/-- the repositories (names, each once, sorted) that have a live document matching `q` anywhere in the corpus -/
def listAnswer (shards : List RShard) (q : Q) : List Str :=
  let ctx := corpus shards
  sortStrs ((shards.flatMap fun rs =>
    (rs.shard.docs.filter fun d => rs.shard.live d && eval q ctx rs.shard d).filterMap fun d =>
      (rs.shard.repoOf d).map (·.name)).eraseDups)

def checkList (shards : List RShard) (q : Q) (names : List Str) : Bool :=
  names == listAnswer shards q

/-- aggregation: every name once; statistics of a name = sum over all entries with that name -/
def sumFor (n : Str) (entries : List (Str × Stats)) : Stats :=
  (entries.filter fun e => e.1 == n).foldl (fun acc e => addStats acc e.2) []

def checkAggregate (perShard : List (List (Str × Stats))) (out : List (Str × Stats)) : Bool :=
  let entries := perShard.flatten
  (out.map (·.1)).eraseDups.length == out.length &&
  out.all (fun o => entries.any (fun e => e.1 == o.1) && o.2 == sumFor o.1 entries) &&
  entries.all (fun e => out.any fun o => o.1 == e.1)

end ZoektModel.C18
