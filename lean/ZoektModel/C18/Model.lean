/-
C18 — executable model of the sharded searcher's query handling, transcribed from the Go code as written:
  search/shards.go : selectRepoSet, doSelectRepoSet, shardedSearcher.List (aggregation), mkRankedShard (repos cache)
  search/eval.go   : typeRepoSearcher.eval
  index/eval.go    : indexData.List (which repositories a shard lists for a query)
Uses the query model of C05 (ZoektModel.Query).  Core Lean only.
-/
import ZoektModel.C05.Model
namespace ZoektModel.C18
open ZoektModel.Query

/-- a loaded shard as the sharded searcher sees it: `failed` = `rankedShard.repos == nil` (List failed at load) -/
structure RShard where
  shard : Shard
  failed : Bool
  pos : Nat := 0     -- position in the loaded list (stands for the pointer identity of the rankedShard)
deriving Inhabited

/-- `rankedShard.repos`: what `mkRankedShard` caches — the repositories `List(TRUE)` returns: not tombstoned -/
def RShard.listed (s : RShard) : List Repo := s.shard.repos.filter fun r => !r.tombstone

/-- the predicate `doSelectRepoSet` builds for a child, `none` for the `default: continue` kinds -/
def selPred : Q → Option (Repo → Bool)
  | .repoSet set => some fun r => lookup r.name set == some true
  | .repoIDs ids => some fun r => ids.contains r.id
  | .repo p => some fun r => p.test r.name
  | .branchesRepos l => some fun r => l.any fun br => br.2.contains r.id
  | .metaQ f p => some fun r => evalMeta r f p
  | _ => none

/-- the loop over shards: `(filtered, filteredAll)` -/
def filterShards (pred : Repo → Bool) : List RShard → List RShard × Bool
  | [] => ([], true)
  | s :: r =>
    let fr := filterShards pred r
    if s.failed then (s :: fr.1, false)
    else if s.listed.any pred then (s :: fr.1, s.listed.all pred && fr.2)
    else fr

/-- first child with a predicate, and its position -/
def firstFilter : List Q → Option (Nat × Q × (Repo → Bool))
  | [] => none
  | c :: r =>
    match selPred c with
    | some p => some (0, c, p)
    | none => (firstFilter r).map fun x => (x.1 + 1, x.2)

/-- `headIsFirstBranch` for one repository: the first branch, and only the first, is named HEAD -/
def headFirstB (r : Repo) : Bool := r.branches.head? == some HEAD && !(r.branches.drop 1).contains HEAD

/-- the replacement of a filter child once every selected repository satisfies it; `none` = leave the query:
    more than one branch entry; or (since the `fix:` commits) an empty branch name, or the branch `HEAD` when it is
    not the first-and-only-so-named branch of every repository of the selected shards -/
def replacement (filtered : List RShard) : Q → Option Q
  | .branchesRepos l =>
    match l with
    | [br] =>
      if br.1.isEmpty then none
      else if br.1 == HEAD && !(filtered.all fun s => s.listed.all headFirstB) then none
      else some (.branch br.1 true)
    | _ => none
  | _ => some (.const true)

/-- `doSelectRepoSet(shards, and)` -/
def doSelectRepoSet (shards : List RShard) (cs : List Q) : List RShard × Q :=
  match firstFilter cs with
  | none => (shards, .and cs)
  | some (i, c, pred) =>
    let fr := filterShards pred shards
    if fr.1.isEmpty then (fr.1, .and cs)
    else if !fr.2 then (fr.1, .and cs)
    else match replacement fr.1 c with
      | none => (fr.1, .and cs)
      | some c' => (fr.1, simplify (.and (cs.set i c')))

/-- `selectRepoSet(shards, q)` -/
def selectRepoSet (shards : List RShard) : Q → List RShard × Q
  | .and cs => doSelectRepoSet shards cs
  | q => let r := doSelectRepoSet shards [q]; (r.1, simplify r.2)

/-! ### listing -/

/-- positions (in `s.repos`) of the repositories `indexData.List(q)` returns: none if `q` simplifies to FALSE, every
    non-tombstoned one if it simplifies to TRUE, otherwise those whose *name* is the repository name of a live
    document matching the simplified, expanded tree -/
def constValue : Q → Option Bool
  | .const v => some v
  | _ => none

def shardList (ctx : List Shard) (s : Shard) (q : Q) : List Repo :=
  match constValue (shardSimplify s q) with
  | some false => []
  | some true => s.repos.filter fun r => !r.tombstone
  | none =>
    let found := (s.docs.filter fun d => s.live d && eval (expand (shardSimplify s q)) ctx s d).filterMap fun d =>
      (s.repoOf d).map (·.name)
    s.repos.filter fun r => !r.tombstone && found.contains r.name

/-- names returned by `shardedSearcher.List(q)` (entries deduplicated by name): Simplify, select shards, list each -/
def shardedListNames (shards : List RShard) (q : Q) : List Str :=
  let q1 := simplify q
  let sel := selectRepoSet shards q1
  let ctx := shards.map (·.shard)
  (sel.1.flatMap fun rs => (shardList ctx rs.shard sel.2).map (·.name)).eraseDups

/-- `typeRepoSearcher.eval`: every `type:repo` node, innermost first, becomes the `RepoSet` of the listed names -/
def typeRepoStep (shards : List RShard) : Q → Q
  | .type 2 c => .repoSet ((shardedListNames shards c).map fun n => (n, true))
  | q => q

def typeRepoEval (shards : List RShard) (q : Q) : Q := map (typeRepoStep shards) q

/-! ### list aggregation (`shardedSearcher.List`, field Repos): entries deduplicated by name, statistics summed.
    `RepoStats.Add` sums Shards, IndexBytes, Documents, ContentBytes and the three new-line counters (not `Repos`). -/

abbrev Stats := List Nat   -- [Shards, IndexBytes, Documents, ContentBytes, NewLines, DefaultBranchNewLines, OtherBranchesNewLines]

def addStats : Stats → Stats → Stats
  | a :: r, b :: t => (a + b) :: addStats r t
  | [], t => t
  | r, [] => r

/-- merge one entry into the `uniq` map (kept as an association list in first-seen order) -/
def mergeEntry : List (Str × Stats) → Str × Stats → List (Str × Stats)
  | [], e => [e]
  | (n, st) :: r, e => if n == e.1 then (n, addStats st e.2) :: r else (n, st) :: mergeEntry r e

/-- aggregate the per-shard entry lists, in arrival order -/
def aggregate (perShard : List (List (Str × Stats))) : List (Str × Stats) :=
  perShard.flatten.foldl mergeEntry []

end ZoektModel.C18
