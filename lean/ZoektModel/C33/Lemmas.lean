/-
C33 — helper lemmas about the inventory operations of the model (lookup under removal / rebuild) and about the
event projections of the specification.
-/
import ZoektModel.C33.Spec
namespace ZoektModel.C33

/-! ### lookup -/

theorem lookup_nil (q : String) : lookup [] q = none := rfl

theorem lookup_cons (a : Shard) (t : Inv) (q : String) :
    lookup (a :: t) q = if a.path = q then some a else lookup t q := by
  unfold lookup
  by_cases h : a.path = q <;> simp [List.find?, h]

theorem lookup_filter (inv : Inv) (f : Shard → Bool) (q : String)
    (h : ∀ s ∈ inv, s.path = q → f s = true) : lookup (inv.filter f) q = lookup inv q := by
  induction inv with
  | nil => rfl
  | cons a t ih =>
    have iht := ih (fun s hs => h s (List.mem_cons_of_mem _ hs))
    by_cases hq : a.path = q
    · have hfa := h a (List.mem_cons_self ..) hq
      simp [List.filter, hfa, lookup_cons, hq]
    · cases hf : f a <;> simp [List.filter, hf, lookup_cons, hq, iht]

theorem lookup_filter_none (inv : Inv) (f : Shard → Bool) (q : String) (h : lookup inv q = none) :
    lookup (inv.filter f) q = none := by
  induction inv with
  | nil => rfl
  | cons a t ih =>
    rw [lookup_cons] at h
    by_cases hq : a.path = q
    · simp [hq] at h
    · simp only [hq, ↓reduceIte] at h
      cases hf : f a <;> simp [List.filter, hf, lookup_cons, hq, ih h]

theorem lookup_some_path {inv : Inv} {q : String} {s : Shard} (h : lookup inv q = some s) : s.path = q := by
  unfold lookup at h
  have := List.find?_some h
  simpa using this

theorem lookup_some_mem {inv : Inv} {q : String} {s : Shard} (h : lookup inv q = some s) : s ∈ inv := by
  unfold lookup at h
  exact List.mem_of_find?_eq_some h

theorem lookup_none_of_not_mem (inv : Inv) (q : String) (h : ∀ s ∈ inv, s.path ≠ q) : lookup inv q = none := by
  unfold lookup
  rw [List.find?_eq_none]
  intro s hs
  simpa using h s hs

theorem lookup_append (a b : Inv) (q : String) : lookup (a ++ b) q = (lookup a q).or (lookup b q) := by
  unfold lookup
  rw [List.find?_append]

theorem lookup_removePath_self (inv : Inv) (p : String) : lookup (removePath inv p) p = none := by
  apply lookup_none_of_not_mem
  intro s hs
  unfold removePath at hs
  rw [List.mem_filter] at hs
  simpa using hs.2

theorem lookup_removePath_ne (inv : Inv) (p q : String) (h : q ≠ p) :
    lookup (removePath inv p) q = lookup inv q := by
  unfold removePath
  apply lookup_filter
  intro s _ hs
  simp [hs, h]

theorem lookup_removeAll (paths : List String) (inv : Inv) (q : String) :
    lookup (paths.foldl removePath inv) q = if q ∈ paths then none else lookup inv q := by
  induction paths generalizing inv with
  | nil => simp
  | cons p t ih =>
    simp only [List.foldl_cons, ih]
    by_cases hqt : q ∈ t
    · simp [hqt]
    · by_cases hqp : q = p
      · subst hqp; simp [hqt, lookup_removePath_self]
      · simp [hqt, hqp, lookup_removePath_ne _ _ _ hqp]

theorem foldl_removePath_actions (actions : List Action) (inv : Inv) :
    actions.foldl (fun i a => removePath i a.shard) inv = (actions.map (·.shard)).foldl removePath inv := by
  induction actions generalizing inv with
  | nil => rfl
  | cons a t ih => simp [ih]

/-! ### rebuild touches only the repository's own shard paths -/

theorem allShards_subset (inv : Inv) (r : Repo) : ∀ p ∈ allShards inv r, p ∈ r.shard0 :: r.more := by
  intro p hp
  unfold allShards at hp
  split at hp
  · rcases List.mem_cons.mp hp with h | h
    · simp [h]
    · exact List.mem_cons_of_mem _ ((List.takeWhile_sublist _).subset h)
  · simp at hp

theorem newPaths_subset (r : Repo) : ∀ p ∈ r.shard0 :: r.more.take r.nNew, p ∈ r.shard0 :: r.more := by
  intro p hp
  rcases List.mem_cons.mp hp with h | h
  · simp [h]
  · exact List.mem_cons_of_mem _ ((List.take_sublist _ _).subset h)

theorem lookup_rebuild_other (inv : Inv) (r : Repo) (h : String) (q : String) (hq : q ∉ r.shard0 :: r.more) :
    lookup (rebuild inv r h) q = lookup inv q := by
  unfold rebuild
  rw [lookup_append]
  have h2 : lookup ((r.shard0 :: r.more.take r.nNew).map (newShard r h)) q = none := by
    apply lookup_none_of_not_mem
    intro s hs
    rw [List.mem_map] at hs
    obtain ⟨p, hp, rfl⟩ := hs
    intro hpq
    apply hq
    have : p = q := by simpa [newShard] using hpq
    rw [← this]
    exact newPaths_subset r p hp
  rw [h2, Option.or_none]
  apply lookup_filter
  intro s _ hs
  have h1 : s.path ∉ allShards inv r := fun hm => hq (hs ▸ allShards_subset inv r _ hm)
  have h3 : s.path ∉ r.shard0 :: List.take r.nNew r.more := fun hm => hq (hs ▸ newPaths_subset r _ hm)
  simp [h1, h3]

/-! ### event projections -/

theorem sameSet_refl {α} [DecidableEq α] (a : List α) : sameSet a a = true := by
  simp [sameSet]

theorem announcedRemovals_append (a b : List Event) :
    announcedRemovals (a ++ b) = announcedRemovals a ++ announcedRemovals b := by
  simp [announcedRemovals]

theorem performedRemovals_append (a b : List Event) :
    performedRemovals (a ++ b) = performedRemovals a ++ performedRemovals b := by
  simp [performedRemovals]

theorem announcedIndexing_append (a b : List Event) :
    announcedIndexing (a ++ b) = announcedIndexing a ++ announcedIndexing b := by
  simp [announcedIndexing]

theorem performedIndexing_append (a b : List Event) :
    performedIndexing (a ++ b) = performedIndexing a ++ performedIndexing b := by
  simp [performedIndexing]

theorem leftAlone_append (a b : List Event) : leftAlone (a ++ b) = leftAlone a ++ leftAlone b := by
  simp [leftAlone]

theorem announcedRemovals_wouldRemove (as : List Action) :
    announcedRemovals (as.map Event.wouldRemove) = as.map (·.shard) := by
  induction as with
  | nil => rfl
  | cons a t ih => simpa [announcedRemovals] using ih

theorem performedRemovals_removing (as : List Action) :
    performedRemovals (as.map Event.removing) = as.map (·.shard) := by
  induction as with
  | nil => rfl
  | cons a t ih => simpa [performedRemovals] using ih

theorem performedRemovals_wouldRemove (as : List Action) : performedRemovals (as.map Event.wouldRemove) = [] := by
  induction as with
  | nil => rfl
  | cons a t ih => simp [performedRemovals]

theorem announcedRemovals_removing (as : List Action) : announcedRemovals (as.map Event.removing) = [] := by
  induction as with
  | nil => rfl
  | cons a t ih => simp [announcedRemovals]

theorem announcedIndexing_wouldRemove (as : List Action) : announcedIndexing (as.map Event.wouldRemove) = [] := by
  induction as with
  | nil => rfl
  | cons a t ih => simp [announcedIndexing]

theorem performedIndexing_wouldRemove (as : List Action) : performedIndexing (as.map Event.wouldRemove) = [] := by
  induction as with
  | nil => rfl
  | cons a t ih => simp [performedIndexing]

theorem announcedIndexing_removing (as : List Action) : announcedIndexing (as.map Event.removing) = [] := by
  induction as with
  | nil => rfl
  | cons a t ih => simp [announcedIndexing]

theorem performedIndexing_removing (as : List Action) : performedIndexing (as.map Event.removing) = [] := by
  induction as with
  | nil => rfl
  | cons a t ih => simp [performedIndexing]

/-- a non-empty source never normalises to the empty string (`filepath.Abs` yields a rooted path) -/
theorem normalizeSource_ne_empty (cwd s : String) (h : s ≠ "") : normalizeSource cwd s ≠ "" := by
  unfold normalizeSource renderAbs
  simp only [h, ↓reduceIte]
  intro hc
  have := congrArg String.length hc
  simp [String.length_append] at this

/-! ### well-formed lists of discovered repositories; the forced loop -/

/-- the shard paths the builder derives for two discovered repositories do not interfere (distinct names ↦ distinct
    `url.QueryEscape`d file prefixes; checked by the driver on every case) -/
def Apart (a b : Repo) : Prop := a.shard0 ∉ b.shard0 :: b.more ∧ b.shard0 ∉ a.shard0 :: a.more

def WF (d : List Repo) : Prop := d.Pairwise Apart

/-- `IndexState` looks at the shard found at the repository's first shard path only -/
theorem indexState_congr (i j : Inv) (r : Repo) (h : String) (hl : lookup i r.shard0 = lookup j r.shard0) :
    indexState i r h = indexState j r h := by
  unfold indexState; rw [hl]

theorem indexState_missing (i : Inv) (r : Repo) (h : String) (hl : lookup i r.shard0 = none) :
    indexState i r h = .missing := by
  unfold indexState; rw [hl]

/-- the forced loop changes only the shard paths of the repository it is working on -/
theorem indexOne_force_lookup (P : List String) (st : Run) (r : Repo) (q : String) (hq : q ∉ r.shard0 :: r.more) :
    lookup (indexOne false P st r).inv q = lookup st.inv q := by
  unfold indexOne
  cases r.head with
  | none => rfl
  | some h =>
    simp only [Bool.false_eq_true, ↓reduceIte]
    split
    · rfl
    · exact lookup_rebuild_other _ _ _ _ hq

/-- the preview's loop and the forced run's loop, as `runSync` starts them -/
def pvLoop (cwd : String) (d : List Repo) (inv : Inv) : Run :=
  d.foldl (indexOne true ((planPrune cwd d inv).map (·.shard))) ⟨[], inv, false⟩

def fcLoop (cwd : String) (d : List Repo) (inv : Inv) : Run :=
  d.foldl (indexOne false []) ⟨[], (planPrune cwd d inv).foldl (fun i a => removePath i a.shard) inv, false⟩

def tailP (err : Bool) : List Event := if err then [] else [Event.passF]

theorem runSync_preview (cwd : String) (d : List Repo) (inv : Inv) :
    runSync false cwd d inv =
      ⟨(planPrune cwd d inv).map Event.wouldRemove ++ (pvLoop cwd d inv).events ++ tailP (pvLoop cwd d inv).err,
       (pvLoop cwd d inv).inv, (pvLoop cwd d inv).err⟩ := by
  unfold runSync applyRemovals indexRepositories pvLoop tailP
  simp only [Bool.not_false, ↓reduceIte, Bool.false_eq_true]
  split <;> simp_all

theorem runSync_force (cwd : String) (d : List Repo) (inv : Inv) :
    runSync true cwd d inv =
      ⟨(planPrune cwd d inv).map Event.removing ++ (fcLoop cwd d inv).events, (fcLoop cwd d inv).inv,
       (fcLoop cwd d inv).err⟩ := by
  unfold runSync applyRemovals indexRepositories fcLoop
  simp only [Bool.not_true, ↓reduceIte, Bool.false_eq_true, List.append_nil]
  split <;> simp_all

/-- events a preview loop adds are announcements only -/
theorem indexOne_dry_proj (P : List String) (st : Run) (r : Repo) :
    performedIndexing (indexOne true P st r).events = performedIndexing st.events ∧
    performedRemovals (indexOne true P st r).events = performedRemovals st.events ∧
    announcedRemovals (indexOne true P st r).events = announcedRemovals st.events := by
  unfold indexOne
  cases r.head with
  | none => simp
  | some h =>
    simp only [↓reduceIte]
    split <;> simp [performedIndexing, performedRemovals, announcedRemovals]

theorem dry_proj (P : List String) (repos : List Repo) (st : Run) :
    performedIndexing (repos.foldl (indexOne true P) st).events = performedIndexing st.events ∧
    performedRemovals (repos.foldl (indexOne true P) st).events = performedRemovals st.events ∧
    announcedRemovals (repos.foldl (indexOne true P) st).events = announcedRemovals st.events := by
  induction repos generalizing st with
  | nil => exact ⟨rfl, rfl, rfl⟩
  | cons r t ih =>
    rw [List.foldl_cons]
    obtain ⟨a, b, c⟩ := ih (indexOne true P st r)
    obtain ⟨a', b', c'⟩ := indexOne_dry_proj P st r
    exact ⟨a.trans a', b.trans b', c.trans c'⟩

/-- events a forced loop adds are performed actions only -/
theorem indexOne_force_proj (P : List String) (st : Run) (r : Repo) :
    announcedIndexing (indexOne false P st r).events = announcedIndexing st.events ∧
    performedRemovals (indexOne false P st r).events = performedRemovals st.events ∧
    announcedRemovals (indexOne false P st r).events = announcedRemovals st.events := by
  unfold indexOne
  cases r.head with
  | none => simp [announcedIndexing, performedRemovals, announcedRemovals]
  | some h =>
    simp only [Bool.false_eq_true, ↓reduceIte]
    split <;> simp [announcedIndexing, performedRemovals, announcedRemovals]

theorem force_proj (P : List String) (repos : List Repo) (st : Run) :
    announcedIndexing (repos.foldl (indexOne false P) st).events = announcedIndexing st.events ∧
    performedRemovals (repos.foldl (indexOne false P) st).events = performedRemovals st.events ∧
    announcedRemovals (repos.foldl (indexOne false P) st).events = announcedRemovals st.events := by
  induction repos generalizing st with
  | nil => exact ⟨rfl, rfl, rfl⟩
  | cons r t ih =>
    rw [List.foldl_cons]
    obtain ⟨a, b, c⟩ := ih (indexOne false P st r)
    obtain ⟨a', b', c'⟩ := indexOne_force_proj P st r
    exact ⟨a.trans a', b.trans b', c.trans c'⟩

end ZoektModel.C33
