/-
C33 (and the execution part of C34) — model of cmd/zoekt-local-sync:
  index.go : normalizeSource, planPrune, applyRemovals, indexRepositories, recordsFromShards, selectRecords,
             removeRepositories, removeShard
  main.go  : runSync, runRemove (order of the steps, preview switch)
and of the per-repository decision that `indexRepositories` delegates to
  gitindex/index.go : indexGitRepo (Incremental / DryRun switch)   index/builder.go : IndexState, findShard, FindAllShards,
  Builder.Finish's deletion of the old shard set.

The index directory is abstracted to the list of its `*.zoekt` files (`Shard`), each with what
`index.ReadMetadataPathAlive` reports about it; a discovered repository (`Repo`) carries what `IndexGitRepo` derives
from it (resolved branches) and the shard paths the builder derives from its name.  Core Lean only.
-/
namespace ZoektModel.C33

/-! ### paths -/

/-- `filepath.Clean` of an absolute path, as a component list -/
def cleanComps (comps : List String) : List String :=
  comps.foldl (fun acc c =>
    if c = "" ∨ c = "." then acc else if c = ".." then acc.dropLast else acc ++ [c]) []

def renderAbs (comps : List String) : String := "/" ++ "/".intercalate comps

/-- `filepath.Abs` for a process whose working directory is `cwd` (absolute), as a component list -/
def absComps (cwd s : String) : List String :=
  cleanComps ((if s.startsWith "/" then s else cwd ++ "/" ++ s).splitOn "/")

/-- `normalizeSource` -/
def normalizeSource (cwd s : String) : String :=
  if s = "" then "" else
  let c := absComps cwd s
  renderAbs (if c.getLast? = some ".git" then c.dropLast else c)

/-! ### state -/

/-- one `*.zoekt` file of the index directory, as `readInventory` (one alive repository per shard) sees it -/
structure Shard where
  path : String      -- full path of the shard file
  name : String      -- Repository.Name
  source : String    -- Repository.Source (raw)
  ver : String       -- canonical rendering of Repository.Branches
  optOk : Bool       -- Repository.IndexOptions = hash of this run's build options
  metaOk : Bool      -- MergeMutable against this run's repository description reports no change
  sidecar : Bool     -- a `.meta` sidecar file exists next to the shard
  deriving Repr, DecidableEq

/-- a discovered repository -/
structure Repo where
  name : String
  source : String
  head : Option String   -- branches as IndexGitRepo resolves them; `none`: IndexGitRepo returns an error
  shard0 : String        -- path of `<name>_v<N>.00000.zoekt` in the index directory
  more : List String     -- paths of shard numbers 1, 2, … (as many as matter)
  nNew : Nat             -- number of shards beyond the first that a fresh build writes
  deriving Repr, DecidableEq

abbrev Inv := List Shard

def lookup (inv : Inv) (p : String) : Option Shard := inv.find? (fun s => s.path = p)

def hasPath (inv : Inv) (p : String) : Bool := (lookup inv p).isSome

/-! ### planPrune -/

structure Action where
  shard : String
  name : String
  source : String
  reason : String     -- class: `gone`, `renamed:<new name>`, `selected`
  deriving Repr, DecidableEq

/-- `desiredBySource[normalizeSource(src)]` — a Go map filled in list order: the last writer wins -/
def findDesired (cwd : String) (desired : List Repo) (nsrc : String) : Option Repo :=
  desired.reverse.find? (fun r => normalizeSource cwd r.source = nsrc)

def pruneOne (cwd : String) (desired : List Repo) (s : Shard) : Option Action :=
  let ns := normalizeSource cwd s.source
  match findDesired cwd desired ns with
  | some r => if r.name = s.name then none else some ⟨s.path, s.name, ns, "renamed:" ++ r.name⟩
  | none => some ⟨s.path, s.name, ns, "gone"⟩

def leShard (a b : Action) : Bool := decide (a.shard ≤ b.shard)

def planPrune (cwd : String) (desired : List Repo) (shards : Inv) : List Action :=
  (shards.filterMap (pruneOne cwd desired)).mergeSort leShard

/-! ### output lines and removals -/

inductive Event where
  | wouldRemove (a : Action)
  | removing (a : Action)
  | indexing (name source : String)
  | indexed (name source : String)
  | wouldIndex (name source : String)
  | upToDate (name source : String)
  | passF
  deriving Repr, DecidableEq

/-- `removeShard`: the shard file and its sidecar go -/
def removePath (inv : Inv) (p : String) : Inv := inv.filter (fun s => s.path ≠ p)

/-- `applyRemovals` (removal errors are not modelled: the harness runs with full permissions) -/
def applyRemovals (actions : List Action) (dryRun : Bool) (inv : Inv) : List Event × Inv :=
  if dryRun then (actions.map Event.wouldRemove, inv)
  else (actions.map Event.removing, actions.foldl (fun i a => removePath i a.shard) inv)

/-! ### IndexGitRepo's decision -/

inductive IState where
  | missing | corrupt | optionDiff | contentDiff | metaDiff | equal
  deriving Repr, DecidableEq

/-- `Options.IndexState` for the repository description IndexGitRepo builds (`head` = its resolved branches) -/
def indexState (inv : Inv) (r : Repo) (head : String) : IState :=
  match lookup inv r.shard0 with
  | none => .missing
  | some s =>
    if s.name ≠ r.name then .corrupt
    else if !s.optOk then .optionDiff
    else if s.ver ≠ head then .contentDiff
    else if !s.metaOk then .metaDiff
    else .equal

/-- `Options.FindAllShards`: shard 0 and the contiguous run of higher numbers -/
def allShards (inv : Inv) (r : Repo) : List String :=
  if hasPath inv r.shard0 then r.shard0 :: r.more.takeWhile (hasPath inv) else []

def newShard (r : Repo) (head : String) (p : String) : Shard :=
  ⟨p, r.name, r.source, head, true, true, false⟩

/-- a non-delta build: `Builder.Finish` replaces the old shard set by the new one -/
def rebuild (inv : Inv) (r : Repo) (head : String) : Inv :=
  let old := allShards inv r
  let new := r.shard0 :: r.more.take r.nNew
  inv.filter (fun s => s.path ∉ old ∧ s.path ∉ new) ++ new.map (newShard r head)

structure Run where
  events : List Event
  inv : Inv
  err : Bool
  deriving Repr, DecidableEq

/-- one iteration of the loop in `indexRepositories`.  `pending` = shard paths whose removal was announced
    but (in a preview) not performed. -/
def indexOne (dryRun : Bool) (pending : List String) (st : Run) (r : Repo) : Run :=
  let pre := if dryRun then [] else [Event.indexing r.name r.source]
  match r.head with
  | none => ⟨st.events ++ pre, st.inv, true⟩
  | some h =>
    let upToDate := indexState st.inv r h = .equal
    if dryRun then
      if upToDate ∧ r.shard0 ∉ pending then ⟨st.events ++ [Event.upToDate r.name r.source], st.inv, st.err⟩
      else ⟨st.events ++ [Event.wouldIndex r.name r.source], st.inv, st.err⟩
    else
      if upToDate then ⟨st.events ++ pre ++ [Event.upToDate r.name r.source], st.inv, st.err⟩
      else ⟨st.events ++ pre ++ [Event.indexed r.name r.source], rebuild st.inv r h, st.err⟩

def indexRepositories (dryRun : Bool) (pending : List String) (repos : List Repo) (inv : Inv) : Run :=
  repos.foldl (indexOne dryRun pending) ⟨[], inv, false⟩

/-- `runSync` after discovery and `readInventory` succeeded -/
def runSync (force : Bool) (cwd : String) (desired : List Repo) (inv : Inv) : Run :=
  let actions := planPrune cwd desired inv
  let (ev, inv1) := applyRemovals actions (!force) inv
  let pending := if force then [] else actions.map (·.shard)
  let r := indexRepositories (!force) pending desired inv1
  if r.err then ⟨ev ++ r.events, r.inv, true⟩
  else ⟨ev ++ r.events ++ (if force then [] else [Event.passF]), r.inv, false⟩

/-! ### list / remove -/

structure Record where
  name : String
  source : String      -- normalised
  shards : List String -- sorted
  deriving Repr, DecidableEq

def leKey (a b : String × String) : Bool :=
  if a.1 = b.1 then decide (a.2 ≤ b.2) else decide (a.1 ≤ b.1)

def keyOf (cwd : String) (s : Shard) : String × String := (s.name, normalizeSource cwd s.source)

def dedupKeys : List (String × String) → List (String × String)
  | [] => []
  | k :: rest => k :: (dedupKeys rest).filter (· ≠ k)

def leStr (a b : String) : Bool := decide (a ≤ b)

/-- `recordsFromShards` -/
def recordsFromShards (cwd : String) (inv : Inv) : List Record :=
  ((dedupKeys (inv.map (keyOf cwd))).mergeSort leKey).map fun k =>
    ⟨k.1, k.2, ((inv.filter (fun s => keyOf cwd s = k)).map (·.path)).mergeSort leStr⟩

inductive SelErr where
  | notFound | ambiguous
  deriving Repr, DecidableEq

def matchesOf (cwd : String) (records : List Record) (selector : String) : List Record :=
  let byName := records.filter (fun r => r.name = selector)
  if byName.isEmpty then
    let src := normalizeSource cwd selector
    records.filter (fun r => r.source ≠ "" ∧ r.source = src)
  else byName

def leRecord (a b : Record) : Bool := leKey (a.name, a.source) (b.name, b.source)

/-- the loop of `selectRecords`; `acc` is the `selected` map as an association list without duplicate keys -/
def selectLoop (cwd : String) (records : List Record) : List String → List Record → Except SelErr (List Record)
  | [], acc => .ok acc
  | sel :: rest, acc =>
    match matchesOf cwd records sel with
    | [] => .error .notFound
    | [m] => selectLoop cwd records rest
        (if acc.any (fun r => r.name = m.name ∧ r.source = m.source) then acc else acc ++ [m])
    | _ :: _ :: _ => .error .ambiguous

def selectRecords (cwd : String) (records : List Record) (selectors : List String) : Except SelErr (List Record) :=
  (selectLoop cwd records selectors []).map (·.mergeSort leRecord)

def removeActions (records : List Record) : List Action :=
  (records.flatMap fun r => r.shards.map fun p => (⟨p, r.name, r.source, "selected"⟩ : Action)).mergeSort leShard

structure RemoveRun where
  events : List Event
  inv : Inv
  err : Option SelErr
  deriving Repr, DecidableEq

/-- `runRemove` → `removeRepositories` after `readInventory` succeeded -/
def runRemove (force : Bool) (cwd : String) (selectors : List String) (inv : Inv) : RemoveRun :=
  match selectRecords cwd (recordsFromShards cwd inv) selectors with
  | .error e => ⟨[], inv, some e⟩
  | .ok records =>
    let (ev, inv') := applyRemovals (removeActions records) (!force) inv
    ⟨ev ++ (if force then [] else [Event.passF]), inv', none⟩

/-! ### the rest of the index directory

Entries that are not shards (`*.zoekt`) or their `.meta` sidecars: temporary files of a killed or concurrently running
build (`<shard>.<random>.tmp`), a lock file, anything else that lies there. The commands never name them; the only
thing that happens outside the shard set is that `-f` takes the directory lock (`acquireDirectoryLock`:
`os.OpenFile(O_CREATE|O_RDWR)` on `.zoekt-local-sync.lock`, before discovery, whatever happens later). -/

abbrev Others := List String

def lockName : String := ".zoekt-local-sync.lock"

def takeLock (o : Others) : Others := if lockName ∈ o then o else o ++ [lockName]

/-- the other entries after `sync` / `remove` (with or without `-f`) -/
def othersAfter (force : Bool) (o : Others) : Others := if force then takeLock o else o

end ZoektModel.C33
