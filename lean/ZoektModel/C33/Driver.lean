import ZoektModel.Basic.Proto
namespace ZoektModel.C33
/-- stub: no model driver for C33 yet -/
def main : IO Unit := ZoektModel.Proto.runLines (fun _ => ZoektModel.Proto.badCase "no model driver for C33")
end ZoektModel.C33
