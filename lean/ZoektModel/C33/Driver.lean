import ZoektModel.Basic.Proto
import ZoektModel.C33.Spec
namespace ZoektModel.C33
open ZoektModel ZoektModel.Proto

/-! ### wire format (all strings hex-encoded UTF-8, `-` = empty string, `_` = empty list) -/

def hexStr? (s : String) : Option String := do
  let bs ← hexToBytes? s
  String.fromUTF8? bs.toByteArray

def strHex (s : String) : String := bytesToHex s.toUTF8.toList

def list? {α} (sep : String) (f : String → Option α) (s : String) : Option (List α) :=
  if s == "_" then some [] else (s.splitOn sep).mapM f

def showL {α} (sep : String) (f : α → String) (l : List α) : String :=
  if l.isEmpty then "_" else sep.intercalate (l.map f)

/-- shard: `path:name:source:ver:opt:metaOk:sidecar` -/
def parseShard (s : String) : Option Shard :=
  match s.splitOn ":" with
  | [p, n, src, v, o, m, sc] => do
    pure ⟨← hexStr? p, ← hexStr? n, ← hexStr? src, ← hexStr? v, ← bool? o, ← bool? m, ← bool? sc⟩
  | _ => none

def showShard (s : Shard) : String :=
  ":".intercalate [strHex s.path, strHex s.name, strHex s.source, strHex s.ver, showBool s.optOk, showBool s.metaOk,
    showBool s.sidecar]

/-- repo: `name:source:head:shard0:more:nNew`, head `!` = IndexGitRepo fails -/
def parseRepo (s : String) : Option Repo :=
  match s.splitOn ":" with
  | [n, src, h, p0, more, k] => do
    let head ← if h == "!" then some none else (hexStr? h).map some
    pure ⟨← hexStr? n, ← hexStr? src, head, ← hexStr? p0, ← list? "," hexStr? more, ← k.toNat?⟩
  | _ => none

def showAction (a : Action) : String :=
  "/".intercalate [strHex a.shard, strHex a.name, strHex a.source, strHex a.reason]

def showEvent : Event → String
  | .wouldRemove a => "WR/" ++ showAction a
  | .removing a => "RM/" ++ showAction a
  | .indexing n s => s!"IG/{strHex n}/{strHex s}"
  | .indexed n s => s!"ID/{strHex n}/{strHex s}"
  | .wouldIndex n s => s!"WI/{strHex n}/{strHex s}"
  | .upToDate n s => s!"UP/{strHex n}/{strHex s}"
  | .passF => "PF"

def parseEvent (s : String) : Option Event :=
  match s.splitOn "/" with
  | ["WR", p, n, src, r] => do pure (.wouldRemove ⟨← hexStr? p, ← hexStr? n, ← hexStr? src, ← hexStr? r⟩)
  | ["RM", p, n, src, r] => do pure (.removing ⟨← hexStr? p, ← hexStr? n, ← hexStr? src, ← hexStr? r⟩)
  | ["IG", n, src] => do pure (.indexing (← hexStr? n) (← hexStr? src))
  | ["ID", n, src] => do pure (.indexed (← hexStr? n) (← hexStr? src))
  | ["WI", n, src] => do pure (.wouldIndex (← hexStr? n) (← hexStr? src))
  | ["UP", n, src] => do pure (.upToDate (← hexStr? n) (← hexStr? src))
  | ["PF"] => some .passF
  | _ => none

def sortInv (inv : Inv) : Inv := inv.mergeSort (fun a b => decide (a.path ≤ b.path))

def showErr : Option SelErr → String
  | none => "ok" | some .notFound => "notfound" | some .ambiguous => "ambiguous"

def sortStrs (l : List String) : List String := l.mergeSort (fun a b => decide (a ≤ b))

def render (pv : List Event) (pverr : String) (pvpost : Inv) (fc : List Event) (fcerr : String) (post : Inv)
    (others : Others) : String :=
  s!"pv={showL "," showEvent pv} pverr={pverr} pvpost={showL ";" showShard (sortInv pvpost)} " ++
  s!"fc={showL "," showEvent fc} fcerr={fcerr} post={showL ";" showShard (sortInv post)} " ++
  s!"pvoth={showL "," strHex (sortStrs (othersAfter false others))} fcoth={showL "," strHex (sortStrs (othersAfter true others))}"

structure Impl where
  pv : List Event
  pverr : String
  pvpost : Inv
  fc : List Event
  fcerr : String
  post : Inv
  pvoth : Others
  fcoth : Others

def kv? (key s : String) : Option String :=
  if s.startsWith (key ++ "=") then some (s.drop (key.length + 1)).toString else none

def parseImpl (s : String) : Option Impl :=
  match fields s with
  | [a, b, c, d, e, f, g, h] => do
    pure ⟨← list? "," parseEvent (← kv? "pv" a), ← kv? "pverr" b, ← list? ";" parseShard (← kv? "pvpost" c),
          ← list? "," parseEvent (← kv? "fc" d), ← kv? "fcerr" e, ← list? ";" parseShard (← kv? "post" f),
          ← list? "," hexStr? (← kv? "pvoth" g), ← list? "," hexStr? (← kv? "fcoth" h)⟩
  | _ => none

/-- verdict on the implementation's behaviour (the property's executable statement) -/
def verdict (model : String) (inv : Inv) (others : Others) (desired : List Repo) (i : Impl) : String :=
  if !(unchanged (sortInv inv) (sortInv i.pvpost)) then specFail model "preview-not-pure"
  else if !(othersUnchanged others i.pvoth) then specFail model "preview-not-pure"
  else if !(forceOthersOk others i.fcoth) then specFail model "force-touched-other-files"
  else if i.pverr != i.fcerr then specFail model "preview-error-differs"
  else if !(faithful i.pv i.fc) then
    -- class of the discrepancy: only repositories whose canonical shard is announced for removal ("moved", same name)
    let moved := desired.filter (fun r => r.shard0 ∈ announcedRemovals i.pv)
    let diff := ((announcedIndexing i.pv).filter (· ∉ performedIndexing i.fc)) ++
                ((performedIndexing i.fc).filter (· ∉ announcedIndexing i.pv))
    if sameSet (announcedRemovals i.pv) (performedRemovals i.fc) && !diff.isEmpty &&
       diff.all (fun d => moved.any (fun r => r.name = d.1)) then specFail model "unfaithful:moved-same-name"
    else specFail model "unfaithful"
  else answer model

def boolErr (b : Bool) : String := if b then "err" else "ok"

/-- the hypothesis `WF` of the theorems, checked on every case: shard paths of distinct repositories do not interfere -/
def apartAll : List Repo → Bool
  | [] => true
  | a :: t => t.all (fun b => !((b.shard0 :: b.more).contains a.shard0) && !((a.shard0 :: a.more).contains b.shard0)) && apartAll t

/-- `plan <cwd> <desired> <shards>`: planPrune only (impl = actions) -/
def handle (line : String) : String :=
  let (inp, impl) := splitCase line
  match fields inp with
  | ["sync", cwd, ds, ss, os] =>
    match hexStr? cwd, list? ";" parseRepo ds, list? ";" parseShard ss, list? "," hexStr? os with
    | some cwd, some desired, some inv, some others =>
      if !apartAll desired then badCase "shard paths of two repositories interfere" else
      let p := runSync false cwd desired inv
      let f := runSync true cwd desired inv
      let model := render p.events (boolErr p.err) p.inv f.events (boolErr f.err) f.inv others
      match parseImpl impl with
      | none => badCase "impl output"
      | some i => verdict model inv others desired i
    | _, _, _, _ => badCase "fields"
  | ["remove", cwd, sels, ss, os] =>
    match hexStr? cwd, list? "," hexStr? sels, list? ";" parseShard ss, list? "," hexStr? os with
    | some cwd, some sels, some inv, some others =>
      let p := runRemove false cwd sels inv
      let f := runRemove true cwd sels inv
      let model := render p.events (showErr p.err) p.inv f.events (showErr f.err) f.inv others
      match parseImpl impl with
      | none => badCase "impl output"
      | some i => verdict model inv others [] i
    | _, _, _, _ => badCase "fields"
  | ["plan", cwd, ds, ss] =>
    match hexStr? cwd, list? ";" parseRepo ds, list? ";" parseShard ss with
    | some cwd, some desired, some inv =>
      answer (showL "," showAction (planPrune cwd desired inv))
    | _, _, _ => badCase "fields"
  | _ => badCase "op"

def main : IO Unit := runLines handle
end ZoektModel.C33
