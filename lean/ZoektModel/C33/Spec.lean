/-
C33 — the property as executable predicates, written from the statement:

  "Without -f, sync and remove never create, change or delete anything in the index directory, and the removals
   and (re)indexing they announce are exactly those the same command with -f then performs on the same state."

They are evaluated by the driver on the *implementation's* announced / performed actions and used verbatim in
Props/C33.lean.
-/
import ZoektModel.C33.Model
namespace ZoektModel.C33

/-- shard paths a preview says it would remove -/
def announcedRemovals (evs : List Event) : List String :=
  evs.filterMap fun | .wouldRemove a => some a.shard | _ => none

/-- shard paths a forced run says it removes -/
def performedRemovals (evs : List Event) : List String :=
  evs.filterMap fun | .removing a => some a.shard | _ => none

/-- repositories (name, source) a preview says it would (re)index -/
def announcedIndexing (evs : List Event) : List (String × String) :=
  evs.filterMap fun | .wouldIndex n s => some (n, s) | _ => none

/-- repositories a forced run (re)indexed -/
def performedIndexing (evs : List Event) : List (String × String) :=
  evs.filterMap fun | .indexed n s => some (n, s) | _ => none

/-- repositories reported as up to date (left alone) -/
def leftAlone (evs : List Event) : List (String × String) :=
  evs.filterMap fun | .upToDate n s => some (n, s) | _ => none

def sameSet {α} [DecidableEq α] (a b : List α) : Bool :=
  a.all (fun x => decide (x ∈ b)) && b.all (fun x => decide (x ∈ a))

/-- a preview performs nothing itself -/
def previewSilent (pv : List Event) : Bool :=
  (performedRemovals pv).isEmpty && (performedIndexing pv).isEmpty

/-- **faithful**: what the preview announces is exactly what the forced run performs -/
def faithful (pv fc : List Event) : Bool :=
  previewSilent pv &&
  sameSet (announcedRemovals pv) (performedRemovals fc) &&
  sameSet (announcedIndexing pv) (performedIndexing fc) &&
  (announcedRemovals fc).isEmpty && (announcedIndexing fc).isEmpty

/-- **pure**: the inventory after the preview is the inventory before it -/
def unchanged (before after : Inv) : Bool := decide (before = after)

/-- **pure**, the rest of the directory: a preview neither creates nor deletes any other entry (temporary files, lock
    file, …). (That no entry's *content* changes is checked on file-system snapshots by the harness.) -/
def othersUnchanged (before after : Others) : Bool := sameSet before after && decide (before.length = after.length)

/-- what `-f` may do outside the shard set: nothing but create the lock file -/
def forceOthersOk (before after : Others) : Bool :=
  before.all (fun x => decide (x ∈ after)) && after.all (fun x => decide (x ∈ before) || decide (x = lockName))

/-- the whole statement for one command on one state -/
def checkP (before afterPreview : Inv) (pv fc : List Event) : Bool :=
  unchanged before afterPreview && faithful pv fc

end ZoektModel.C33
