import ZoektModel.Basic.Proto
import ZoektModel.C29.Spec
namespace ZoektModel.C29
open ZoektModel ZoektModel.Proto

def hexNat? (s : String) : Option Nat :=
  if s.isEmpty then none else
  s.toList.foldlM (fun acc c => (hexVal c).map (acc * 16 + ·)) 0

/-- a float token: 16 hex digits of the IEEE bits -/
def floatTok? (s : String) : Option (Nat × Score) := (hexNat? s).map fun b => (b, decodeFloat b)

def frOfTok? (s : String) : Option Fr := (floatTok? s).map fun p => scoreToFr p.2

def hex16 (n : Nat) : String :=
  let ds := Nat.toDigits 16 n
  String.ofList (List.replicate (16 - ds.length) '0' ++ ds)

def list? {α} (sep : String) (f : String → Option α) (s : String) : Option (List α) :=
  if s == "-" then some [] else (s.splitOn sep).mapM f

def parseSecs (s : String) : Option (List Sec) :=
  list? "," (fun e => match e.splitOn ":" with
    | [a, b] => do pure ⟨← a.toNat?, ← b.toNat?⟩
    | _ => none) s

def parseKinds (s : String) : Option (List (Option Fr)) :=
  list? "," (fun e => if e == "n" then some none else (frOfTok? e).map some) s

def parseCands (s : String) : Option (List Cand) :=
  list? ";" (fun e => match e.splitOn ":" with
    | [f, off, sz, w, sym, si, t] => do
      pure ⟨← bool? f, ← off.toNat?, ← sz.toNat?, ← frOfTok? w, ← bool? sym, ← si.toNat?, t⟩
    | _ => none) s

def parseDoc (d f secs kinds nls size : String) : Option DocCtx := do
  pure ⟨← hexToBytes? d, ← hexToBytes? f, ← parseSecs secs, ← parseKinds kinds, ← natList? nls, ← size.toNat?⟩

def showFr (x : Fr) : String := s!"~{x.num}/{x.den}"

/-- the model's score, printed as the implementation's token when the two agree within the tolerance -/
def scoreTok (implTok : String) (model : Fr) : String :=
  match frOfTok? implTok with
  | some i => if closeTo i model then implTok else showFr model
  | none => showFr model

def kv (s key : String) : Option String :=
  if s.startsWith (key ++ "=") then some (s.drop (key.length + 1)).toString else none

def dbgTok (l : List String) : String := if l.isEmpty then "0" else "1"

def parseEnts (s : String) : Option (List FileEnt) :=
  list? ";" (fun e => match e.splitOn ":" with
    | [b, ext, id] => do
      let (_, sc) ← floatTok? b
      pure ⟨← sc, ext, ← id.toNat?⟩
    | _ => none) s

def isPermIds (a b : List Nat) : Bool :=
  a.length == b.length && a.all (fun x => a.count x == b.count x)

def handle (line : String) : String :=
  let (inp, impl) := splitCase line
  match fields inp with
  | ["line", bm25, dbg, ln, d, f, secs, kinds, nls, size, cands] =>
    match bool? bm25, bool? dbg, ln.toInt?, parseDoc d f secs kinds nls size, parseCands cands with
    | some bm25, some dbg, some ln, some dc, some ms =>
      let a := scoreLine dc bm25 dbg ms ln
      match fields impl with
      | [s, g] =>
        match kv s "score", kv g "dbg" with
        | some st, some _ =>
          let model := s!"score={scoreTok st a.score} dbg={dbgTok a.what}"
          match floatTok? st with
          | some (_, some _) => answer model
          | some (_, none) => specFail model "line-score-not-finite"
          | none => badCase "impl float"
        | _, _ => badCase "impl output"
      | _ => badCase "impl output"
    | _, _, _, _, _ => badCase "fields"
  | ["chunk", bm25, dbg, d, f, secs, kinds, nls, size, cands] =>
    match bool? bm25, bool? dbg, parseDoc d f secs kinds nls size, parseCands cands with
    | some bm25, some dbg, some dc, some ms =>
      let (a, best) := scoreChunk dc bm25 dbg ms
      match fields impl with
      | [s, _, _] =>
        match kv s "score" with
        | some st =>
          let model := s!"score={scoreTok st a.score} best={best} dbg={dbgTok a.what}"
          match floatTok? st with
          | some (_, some _) => answer model
          | some (_, none) => specFail model "chunk-score-not-finite"
          | none => badCase "impl float"
        | none => badCase "impl output"
      | _ => badCase "impl output"
    | _, _, _, _ => badCase "fields"
  | ["file", dbg, atoms, rank, doc, nb, lines] =>
    match bool? dbg, atoms.toNat?, rank.toNat?, doc.toNat?, nb.toNat?, list? "," frOfTok? lines with
    | some dbg, some atoms, some rank, some doc, some nb, some ls =>
      let r := scoreFile dbg atoms ls rank doc nb
      match fields impl with
      | [s, l, _] =>
        match kv s "score", kv l "lines" with
        | some st, some lt =>
          let ltoks := if lt == "-" then [] else lt.splitOn ","
          let mlines := if ltoks.length == r.lines.length
            then showList id ((ltoks.zip r.lines).map fun p => scoreTok p.1 p.2)
            else showList showFr r.lines
          let model := s!"score={scoreTok st r.score} lines={mlines} dbg={dbgTok r.debug}"
          let fin := (floatTok? st).map (·.2.isSome) == some true &&
            ltoks.all (fun t => (floatTok? t).map (·.2.isSome) == some true)
          if fin then answer model else specFail model "file-score-not-finite"
        | _, _ => badCase "impl output"
      | _ => badCase "impl output"
    | _, _, _, _, _, _ => badCase "fields"
  | ["filebm25", lp, total, nd, db, d, f, secs, kinds, nls, size, cands] =>
    match bool? lp, total.toNat?, nd.toNat?, db.toNat?, parseDoc d f secs kinds nls size, parseCands cands with
    | some lp, some total, some nd, some db, some dc, some ms =>
      let sc := scoreFileBM25 dc ms lp total nd db
      match kv impl "score" with
      | some st =>
        let model := s!"score={scoreTok st sc}"
        match floatTok? st with
        | some (_, some _) => answer model
        | some (_, none) => specFail model "bm25-file-score-not-finite"
        | none => badCase "impl float"
      | none => badCase "impl output"
    | _, _, _, _, _, _ => badCase "fields"
  | ["sortm", toks] =>
    match list? "," floatTok? toks, list? "," floatTok? impl with
    | some inp, some out =>
      if !(allFinite (inp.map (·.2))) then badCase "non-finite input" else
      let sorted := sortDesc (fun p : Nat × Score => p.2.getD 0) inp
      let model := showList (fun p : Nat × Score => hex16 p.1) sorted
      -- spec on the implementation's output: non-increasing
      if !(matchesSorted (out.map (·.2))) then specFail model "matches-not-sorted"
      else
        -- compare as value sequences (equal scores are interchangeable)
        if sorted.map (·.2) == out.map (·.2) then answer impl else answer model
    | _, _ => badCase "fields"
  | ["sortf", ties, ents] =>
    match bool? ties, parseEnts ents, natList? impl with
    | some ties, some es, some ids =>
      let m := sortFiles es
      let model := showNatList (m.map (·.id))
      let out := ids.filterMap fun i => es.find? (·.id == i)
      if !(isPermIds ids (es.map (·.id))) then specFail model "sortfiles-not-a-permutation"
      else if !(filesSortedExceptPromotion out) then specFail model "files-not-sorted-except-promotion"
      else if ties then answer impl   -- with equal scores Go's unstable sort may order differently: spec only
      else answer model
    | _, _, _ => badCase "fields"
  | ["collect", docLimit, specOnly, chunks] =>
    -- collectSender: chunks in arrival order, separated by `|`
    match docLimit.toNat?, bool? specOnly, (chunks.splitOn "|").mapM parseEnts, natList? impl with
    | some docLimit, some specOnly, some chs, some ids =>
      let m := collect docLimit chs
      let model := showNatList (m.map (·.id))
      let all := chs.flatten
      let out := ids.filterMap fun i => all.find? (·.id == i)
      if out.length != ids.length || ids.eraseDups.length != ids.length then specFail model "collect-returns-unknown-or-duplicate-file"
      else if docLimit > 0 && ids.length > docLimit then specFail model "collect-exceeds-display-limit"
      else if !(filesSortedExceptPromotion out) then specFail model "aggregated-files-not-sorted-except-promotion"
      else if specOnly then answer impl
      else answer model
    | _, _, _, _ => badCase "fields"
  | ["boost", off, num, den, ents] =>
    match off.toNat?, num.toInt?, den.toInt?, parseEnts ents with
    | some off, some num, some den, some es =>
      answer (showNatList ((boostNovelExtension es off num den).map (·.id)))
    | _, _, _, _ => badCase "fields"
  | ["rank", files] =>
    -- an observed end-to-end result: `scoreBits:ext:line/line/...;...`
    let parsed := list? ";" (fun e => match e.splitOn ":" with
      | [b, ext, ls] => do
        let (_, sc) ← floatTok? b
        let lines ← list? "/" floatTok? ls
        pure (sc, ext, lines.map (·.2))
      | _ => none) files
    match parsed with
    | none => badCase "fields"
    | some fs =>
      if !(allFinite (fs.map (·.1))) || !(fs.all fun f => allFinite f.2.2) then specFail "ok" "score-not-finite"
      else if !(fs.all fun f => matchesSorted f.2.2) then specFail "ok" "matches-not-sorted"
      else
        let ents := fs.zipIdx.map fun (f, i) => (⟨f.1.getD 0, f.2.1, i⟩ : FileEnt)
        if !(filesSortedExceptPromotion ents) then specFail "ok" "files-not-sorted-except-promotion"
        else answer "ok"
  | _ => badCase "op"

def main : IO Unit := runLines handle
end ZoektModel.C29
