import ZoektModel.Basic.Proto
namespace ZoektModel.C29
/-- stub: no model driver for C29 yet -/
def main : IO Unit := ZoektModel.Proto.runLines (fun _ => ZoektModel.Proto.badCase "no model driver for C29")
end ZoektModel.C29
