/-
C29 — model of the scoring code of index/score.go and index/contentprovider.go over exact fractions:
`scoreLine`, `scoreLineBM25`, `tfScore`, `calculateTermFrequency`, `boostScore`, `scoreChunk`, `scoreFile`,
`scoreFileBM25`, `findMaxOverlappingSection`, `matchesSymbol`/`findSymbol`, and of the ordering functions
`sortMatchesByScore`, `SortFiles`, `boostNovelExtension`.

Numbers: Go computes in `float64`; the model computes the exact value `num/den`.  `den = 0` stands for a non-finite
result (a division by zero happened somewhere on the way), so "the score is finite" is `0 < den`.
Float rounding is outside the model (the correspondence compares within a relative tolerance).
`DebugScore` is an explicit input: the model builds the list of debug labels exactly where the Go code appends to
its debug strings, so that "debug does not influence scores" is a statement about the model and not a convention.
-/
import ZoektModel.Basic.Bytes
namespace ZoektModel.C29
open ZoektModel

/-- exact fraction; `den = 0` = not finite -/
structure Fr where
  num : Int
  den : Nat
  deriving Repr, DecidableEq, Inhabited

namespace Fr
def ofInt (n : Int) : Fr := ⟨n, 1⟩
def ofNat (n : Nat) : Fr := ⟨n, 1⟩
def zero : Fr := ⟨0, 1⟩
def one : Fr := ⟨1, 1⟩
def add (a b : Fr) : Fr := ⟨a.num * b.den + b.num * a.den, a.den * b.den⟩
def sub (a b : Fr) : Fr := ⟨a.num * b.den - b.num * a.den, a.den * b.den⟩
def mul (a b : Fr) : Fr := ⟨a.num * b.num, a.den * b.den⟩
/-- `a / b`; dividing by zero yields `den = 0` -/
def div (a b : Fr) : Fr :=
  if b.num > 0 then ⟨a.num * b.den, a.den * b.num.toNat⟩
  else if b.num < 0 then ⟨-(a.num * b.den), a.den * (-b.num).toNat⟩
  else ⟨a.num * b.den, 0⟩
/-- comparisons by cross-multiplication (meaningful for finite operands) -/
def lt (a b : Fr) : Bool := decide (a.num * b.den < b.num * a.den)
def le (a b : Fr) : Bool := decide (a.num * b.den ≤ b.num * a.den)
def eqv (a b : Fr) : Bool := decide (a.num * b.den = b.num * a.den)
def isZero (a : Fr) : Bool := a.num == 0
def abs (a : Fr) : Fr := ⟨a.num.natAbs, a.den⟩
/-- `math.Trunc` -/
def trunc (a : Fr) : Fr := ⟨Int.tdiv a.num a.den, if a.den = 0 then 0 else 1⟩
def finite (a : Fr) : Bool := decide (0 < a.den)
def max (a b : Fr) : Fr := if lt a b then b else a
end Fr

/-! ### constants of contentprovider.go / score.go -/
def scorePartialWordMatch : Fr := .ofNat 50
def scoreWordMatch : Fr := .ofNat 500
def scoreBase : Fr := .ofNat 7000
def scorePartialBase : Fr := .ofNat 4000
def scoreSymbol : Fr := .ofNat 7000
def scorePartialSymbol : Fr := .ofNat 4000
def scoreFactorAtomMatch : Fr := .ofNat 400
def scoreLineOrderFactor : Fr := .ofNat 1
def scoreRepoRankFactor : Fr := .ofNat 100
def scoreFileOrderFactor : Fr := .ofNat 10
def scoreOffset : Fr := .ofNat 10000000
def importantTermBoost : Nat := 5
def lowPriorityFilePenalty : Nat := 5
def bm25k : Fr := ⟨6, 5⟩      -- 1.2
def bm25b : Fr := ⟨3, 4⟩      -- 0.75

/-- `epsilonEqualsOne` -/
def epsilonEqualsOne (w : Fr) : Bool := Fr.eqv w .one || Fr.lt (Fr.abs (Fr.sub w .one)) ⟨1, 1000000000⟩

/-- `byteClass` -/
def byteClass (c : UInt8) : Nat :=
  if c ≥ 97 && c ≤ 122 then 0        -- lower
  else if c ≥ 65 && c ≤ 90 then 1    -- upper
  else if c ≥ 48 && c ≤ 57 then 2    -- digit
  else if c = 32 || c = 10 then 3    -- space
  else if c = 46 || c = 44 || c = 59 || c = 34 || c = 39 then 4   -- punct
  else 5

structure Sec where
  start : Nat
  stop : Nat
  deriving Repr, DecidableEq

/-- a `candidateMatch` as far as scoring reads it -/
structure Cand where
  fileName : Bool
  off : Nat
  sz : Nat
  weight : Fr
  symbol : Bool
  symIdx : Nat
  term : String
  deriving Repr

/-- what scoring reads of the current document -/
structure DocCtx where
  data : Bytes
  fname : Bytes
  secs : List Sec
  kindScore : List (Option Fr)   -- per section: `scoreSymbolKind(language, filename, sym, kind)`, `none` when `si == nil`
  nls : List Nat                 -- offsets of the newlines
  fileSize : Nat
  deriving Repr

/-- `newlines.atOffset`: 1 + number of newline offsets `< offset` (what `sort.Search` returns on the sorted list) -/
def atOffset (nls : List Nat) (offset : Nat) : Nat := (nls.takeWhile (· < offset)).length + 1

/-- `newlines.lineStart` -/
def lineStart (nls : List Nat) (fileSize : Nat) (lineNumber : Int) : Nat :=
  let startIdx := lineNumber - 2
  if startIdx < 0 then 0
  else if startIdx.toNat ≥ nls.length then fileSize
  else nls.getD startIdx.toNat 0 + 1

/-- `relOverlap` of `findMaxOverlappingSection` -/
def relOverlap (s : Sec) (start stop : Nat) : Fr :=
  let secSize := s.stop - s.start
  if secSize = 0 then .zero
  else Fr.div (.ofNat (min s.stop stop - Nat.max s.start start)) (.ofNat secSize)

/-- `findMaxOverlappingSection` (sections sorted and disjoint, as the shard builder guarantees) -/
def findMaxOverlappingSection (secs : List Sec) (off sz : Nat) : Option Nat :=
  let start := off
  let stop := off + sz
  let j := (secs.takeWhile fun s => !(decide (s.stop > start))).length     -- sort.Search
  match secs[j]? with
  | none => none
  | some sj =>
    if sj.start ≥ stop then none else
    let ol1 := relOverlap sj start stop
    match secs[j + 1]? with
    | none => if Fr.lt .zero ol1 then some j else none
    | some sk =>
      if epsilonEqualsOne ol1 || sk.start ≥ stop then (if Fr.lt .zero ol1 then some j else none) else
      let ol2 := relOverlap sk start stop
      if Fr.lt ol1 ol2 then (if Fr.lt .zero ol2 then some (j + 1) else none)
      else if Fr.lt .zero ol1 then some j else none

/-- `matchesSymbol` -/
def matchesSymbol (dc : DocCtx) (m : Cand) : Bool :=
  if m.fileName then false
  else if m.symbol then true
  else (findMaxOverlappingSection dc.secs m.off m.sz).isSome

/-- `findSymbol`: the section and the symbol-kind score (the latter `none` when the metadata is missing) -/
def findSymbol (dc : DocCtx) (m : Cand) : Option (Sec × Option Fr) :=
  if m.fileName then none else
  let idx := if m.symbol then some m.symIdx else findMaxOverlappingSection dc.secs m.off m.sz
  match idx with
  | none => none
  | some i =>
    match dc.secs[i]? with
    | none => none        -- Go would panic (index out of range); not reachable for candidates of a real search
    | some sec => some (sec, (dc.kindScore.getD i none))

def lastIndexByte (b : Bytes) (c : UInt8) : Int :=
  match (b.reverse.findIdx? (· == c)) with
  | none => -1
  | some i => (b.length - 1 - i : Nat)

/-- accumulator of the closure `addScore` in `scoreLine` -/
structure Acc where
  score : Fr
  what : List String
  deriving Repr

def addScore (dbg : Bool) (a : Acc) (w : String) (s : Fr) : Acc :=
  ⟨Fr.add a.score s, if !s.isZero && dbg then a.what ++ [w] else a.what⟩

/-- word-boundary part of the body of `for i, m := range ms` in `scoreLine` -/
def wordStage (dbg : Bool) (data : Bytes) (m : Cand) (a : Acc) : Acc :=
  let e := m.off + m.sz
  let startBoundary := decide (m.off < data.length) &&
    (m.off == 0 || byteClass (data.getD (m.off - 1) 0) != byteClass (data.getD m.off 0))
  let endBoundary := decide (e > 0) &&
    (e == data.length || byteClass (data.getD (e - 1) 0) != byteClass (data.getD e 0))
  if startBoundary && endBoundary then addScore dbg a "WordMatch" scoreWordMatch
  else if startBoundary || endBoundary then addScore dbg a "PartialWordMatch" scorePartialWordMatch
  else a

/-- `if m.fileName { … }`: base-name scoring -/
def baseStage (dbg : Bool) (data : Bytes) (m : Cand) (a : Acc) : Acc :=
  let e := m.off + m.sz
  let sep := lastIndexByte data 47
  let startMatch := (m.off : Int) == sep + 1
  let endMatch := e == data.length
  if startMatch && endMatch then addScore dbg a "Base" scoreBase
  else if startMatch || endMatch then addScore dbg a "EdgeBase" (Fr.div (Fr.add scoreBase scorePartialBase) (.ofNat 2))
  else if sep < (m.off : Int) then addScore dbg a "InnerBase" scorePartialBase
  else a

/-- `else if sec, si, ok := p.findSymbol(m); ok { … }`: symbol scoring -/
def symStage (dbg : Bool) (dc : DocCtx) (m : Cand) (a : Acc) : Acc :=
  match findSymbol dc m with
  | none => a
  | some (sec, ks) =>
    let e := m.off + m.sz
    let startMatch := sec.start == m.off
    let endMatch := sec.stop == e
    let a := if startMatch && endMatch then addScore dbg a "Symbol" scoreSymbol
             else if startMatch || endMatch then addScore dbg a "EdgeSymbol" (Fr.div (Fr.add scoreSymbol scorePartialSymbol) (.ofNat 2))
             else addScore dbg a "OverlapSymbol" scorePartialSymbol
    match ks with
    | none => a
    | some k => addScore dbg a "kind" k

/-- "scoreWeight != 1 means it affects score" -/
def weightStage (dbg : Bool) (m : Cand) (a : Acc) : Acc :=
  if !epsilonEqualsOne m.weight then
    ⟨Fr.mul a.score m.weight, if dbg then a.what ++ ["boost"] else a.what⟩
  else a

/-- score of one candidate inside `scoreLine` (the body of `for i, m := range ms`) -/
def candScore (dc : DocCtx) (dbg : Bool) (m : Cand) : Acc :=
  let data := if m.fileName then dc.fname else dc.data
  let a := wordStage dbg data m ⟨.zero, []⟩
  let a := if m.fileName then baseStage dbg data m a else symStage dbg dc m a
  weightStage dbg m a

/-- `scoreLine` without BM25: the best candidate (first one wins ties), debug labels only when `dbg` -/
def scoreLineClassic (dc : DocCtx) (dbg : Bool) (ms : List Cand) : Acc :=
  let best := ms.foldl (fun (best : Acc) m =>
    let a := candScore dc dbg m
    if Fr.lt best.score a.score then a else best) ⟨.zero, []⟩
  if dbg then ⟨best.score, "score" :: best.what⟩ else best

/-- `tfScore` -/
def tfScore (k b L : Fr) (f : Nat) : Fr :=
  Fr.div (Fr.mul (Fr.add k .one) (.ofNat f))
         (Fr.add (Fr.mul k (Fr.add (Fr.sub .one b) (Fr.mul b L))) (.ofNat f))

/-- `calculateTermFrequency`: the map as an association list (keys in order of first occurrence) -/
def bumpTerm (tf : List (String × Nat)) (t : String) (by_ : Nat) : List (String × Nat) :=
  if tf.any (·.1 == t) then tf.map fun p => if p.1 == t then (p.1, p.2 + by_) else p
  else tf ++ [(t, by_)]

def calculateTermFrequency (dc : DocCtx) (cands : List Cand) (lowPriority : Bool) : List (String × Nat) :=
  let tf := cands.foldl (fun tf m =>
    bumpTerm tf m.term (if m.fileName || matchesSymbol dc m then importantTermBoost else 1)) []
  if lowPriority then tf.map fun p => (p.1, p.2 / lowPriorityFilePenalty) else tf

/-- `boostScore` -/
def boostScore (score : Fr) (ms : List Cand) : Fr :=
  let mx := ms.foldl (fun mx m => if Fr.lt mx m.weight then m.weight else mx) Fr.one
  if !epsilonEqualsOne mx then Fr.mul score mx else score

/-- the terms in sorted order (the fixed code iterates `slices.Sorted(maps.Keys(tf))`) -/
def sortedTerms (tf : List (String × Nat)) : List (String × Nat) :=
  tf.mergeSort fun a b => decide (a.1 ≤ b.1)

def sumTfList (L : Fr) (tf : List (String × Nat)) : Fr :=
  tf.foldl (fun s p => Fr.add s (tfScore bm25k bm25b L p.2)) .zero

/-- the BM25 sum over the term-frequency map, in sorted term order -/
def sumTf (L : Fr) (tf : List (String × Nat)) : Fr := sumTfList L (sortedTerms tf)

/-- `scoreLineBM25` -/
def scoreLineBM25 (dc : DocCtx) (ms : List Cand) (lineNumber : Int) : Fr :=
  if lineNumber < 0 then .zero else
  let lineLength := lineStart dc.nls dc.fileSize (lineNumber + 1) - lineStart dc.nls dc.fileSize lineNumber
  let L := Fr.div (.ofNat lineLength) (.ofNat 100)
  boostScore (sumTf L (calculateTermFrequency dc ms false)) ms

/-- `scoreLine` -/
def scoreLine (dc : DocCtx) (bm25 dbg : Bool) (ms : List Cand) (lineNumber : Int) : Acc :=
  if bm25 then ⟨scoreLineBM25 dc ms lineNumber, if dbg then ["tfScore"] else []⟩
  else scoreLineClassic dc dbg ms

structure ChunkSt where
  best : Acc
  bestLine : Int
  start : Nat
  cur : Int
  deriving Repr

def lineOf (dc : DocCtx) (m : Cand) : Int := if m.fileName then -1 else (atOffset dc.nls m.off : Nat)

/-- one iteration of `for i, m := range ms` in `scoreChunk` -/
def chunkStep (dc : DocCtx) (bm25 dbg : Bool) (ms : List Cand) (i : Nat) (m : Cand) (st : ChunkSt) : ChunkSt :=
  let ln := lineOf dc m
  let st :=
    if i != 0 && ln != st.cur then
      let sc := scoreLine dc bm25 dbg ((ms.drop st.start).take (i - st.start)) st.cur
      let st := if Fr.lt st.best.score sc.score then { st with best := sc, bestLine := st.cur } else st
      { st with start := i }
    else st
  { st with cur := ln }

def chunkGo (dc : DocCtx) (bm25 dbg : Bool) (ms : List Cand) : Nat → List Cand → ChunkSt → ChunkSt
  | _, [], st => st
  | i, m :: rest, st => chunkGo dc bm25 dbg ms (i + 1) rest (chunkStep dc bm25 dbg ms i m st)

/-- `scoreChunk`: score of the best line of the chunk and its line number -/
def scoreChunk (dc : DocCtx) (bm25 dbg : Bool) (ms : List Cand) : Acc × Int :=
  let st := chunkGo dc bm25 dbg ms 0 ms ⟨⟨.zero, []⟩, 0, 0, -1⟩
  let last := scoreLine dc bm25 dbg (ms.drop st.start) st.cur
  let (best, bestLine) := if Fr.lt st.best.score last.score then (last, st.cur) else (st.best, st.bestLine)
  (⟨best.score, if dbg then best.what ++ ["line"] else []⟩, bestLine)

structure FileScore where
  score : Fr
  lines : List Fr          -- the updated LineMatch / ChunkMatch scores
  debug : List String
  deriving Repr

/-- `FileMatch.AddScore` -/
def fmAdd (dbg : Bool) (fs : Fr × List String) (what : String) (computed : Fr) : Fr × List String :=
  (Fr.add fs.1 computed, if !computed.isZero && dbg then fs.2 ++ [what] else fs.2)

/-- `indexData.scoreFile`: `lines` are the scores of the file's LineMatches (or ChunkMatches), `doc` the document
    number, `numBounds = len(d.boundaries)` -/
def scoreFile (dbg : Bool) (atomCount : Nat) (lines : List Fr) (repoRank doc numBounds : Nat) : FileScore :=
  let fs : Fr × List String := (.zero, [])
  let fs := if atomCount > 0 then
      fmAdd dbg fs "atom" (Fr.mul (Fr.sub .one (Fr.div .one (.ofNat atomCount))) scoreFactorAtomMatch)
    else fs
  let maxFile := lines.foldl (fun mx s => if Fr.lt mx s then s else mx) Fr.zero
  let n := lines.length
  let lines' := lines.zipIdx.map fun (s, i) =>
    Fr.add s (Fr.mul scoreLineOrderFactor (Fr.sub .one (Fr.div (.ofNat i) (.ofNat n))))
  let fs := fmAdd dbg fs "fragment" maxFile
  let t := Fr.trunc fs.1
  let docOrder := Fr.sub .one (Fr.div (.ofNat doc) (.ofNat numBounds))
  let final := Fr.add (Fr.add (Fr.mul scoreOffset t) (Fr.mul scoreRepoRankFactor (.ofNat repoRank))) (Fr.mul scoreFileOrderFactor docOrder)
  ⟨final, lines', if dbg then "score" :: fs.2 else fs.2⟩

/-- `indexData.scoreFileBM25`; `totalBytes = d.boundaries[numDocs]`, `docBytes` the length of the document -/
def scoreFileBM25 (dc : DocCtx) (cands : List Cand) (lowPriority : Bool) (totalBytes numDocs docBytes : Nat) : Fr :=
  let tf := calculateTermFrequency dc cands lowPriority
  let avg := Fr.div (.ofNat totalBytes) (.ofNat numDocs)
  let avg := if avg.isZero then Fr.add avg .one else avg
  let L := Fr.div (.ofNat docBytes) avg
  boostScore (sumTf L tf) cands

/-! ### ordering -/

/-- insertion into a list sorted by non-increasing key -/
def insertDesc {α} (key : α → Int) (x : α) : List α → List α
  | [] => [x]
  | y :: ys => if key y < key x then x :: y :: ys else y :: insertDesc key x ys

/-- `sort.Sort` by `Less(i,j) = Score[i] > Score[j]`: *a* sorted permutation (Go's sort is not stable; the order
    of equal scores is unspecified, and the correspondence compares it up to ties) -/
def sortDesc {α} (key : α → Int) (l : List α) : List α := l.foldr (insertDesc key) []

/-- a `FileMatch` for ordering: exact score (scaled to an integer), extension of the file name, an identifier -/
structure FileEnt where
  score : Int
  ext : String
  id : Nat
  deriving Repr, DecidableEq

/-- index (inside `cands`) of the first candidate whose score is at least `minRatio` of the first candidate's and
    whose extension is not among `exts`; `ratioNum/ratioDen` = `minScoreRatio` -/
def findNovel (exts : List String) (ratioNum ratioDen : Int) (first : Int) : List FileEnt → Option Nat
  | [] => none
  | c :: cs =>
    if c.score * ratioDen < first * ratioNum then (findNovel exts ratioNum ratioDen first cs).map (· + 1)
    else if exts.contains c.ext then (findNovel exts ratioNum ratioDen first cs).map (· + 1)
    else some 0

/-- `boostNovelExtension(ms, boostOffset, ratioNum/ratioDen)` -/
def boostNovelExtension (ms : List FileEnt) (boostOffset : Nat) (ratioNum ratioDen : Int) : List FileEnt :=
  if ms.length ≤ boostOffset + 1 then ms else
  let top := ms.take boostOffset
  let cands := ms.drop boostOffset
  match cands with
  | [] => ms
  | c0 :: _ =>
    match findNovel (top.map (·.ext)) ratioNum ratioDen c0.score cands with
    | none => ms
    | some i =>
      match cands[i]? with
      | none => ms
      | some x => top ++ x :: cands.eraseIdx i

/-- the arguments of the call in `SortFiles`: `boostNovelExtension(ms, 2, 0.9)` -/
def boostOffset : Nat := 2
def minScoreRatioNum : Int := 9
def minScoreRatioDen : Int := 10

/-- `SortFiles` -/
def sortFiles (ms : List FileEnt) : List FileEnt :=
  boostNovelExtension (sortDesc (·.score) ms) boostOffset minScoreRatioNum minScoreRatioDen

/-- `collectSender` (search/aggregate.go), the aggregator behind `shardedSearcher.Search` and the FlushWallTime
    collector of `StreamSearch`: with a display limit every non-empty chunk is appended and the whole aggregate is
    re-ranked (`SortFiles`) and truncated (`MaxDocDisplayCount = docLimit`: the first `docLimit` files); without a
    limit the chunks are only appended and `Done` ranks once. `chunks` is the arrival order. -/
def collectStep (docLimit : Nat) (agg chunk : List FileEnt) : List FileEnt :=
  if chunk.isEmpty then agg else (sortFiles (agg ++ chunk)).take docLimit

def collect (docLimit : Nat) (chunks : List (List FileEnt)) : List FileEnt :=
  if docLimit > 0 then chunks.foldl (collectStep docLimit) []
  else sortFiles chunks.flatten

end ZoektModel.C29
