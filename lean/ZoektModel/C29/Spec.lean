/-
C29 — the property as executable predicates over what a caller observes: the `float64` scores (decoded exactly:
every finite double is an integer multiple of 2^-1074) and the order of matches and files.  Written from the
statement; evaluated by the driver on the implementation's output and used in the theorems of Props/C29.lean.
-/
import ZoektModel.C29.Model
namespace ZoektModel.C29

/-- a decoded `float64`: `none` = NaN or ±Inf, `some n` = the value `n · 2^-1074` -/
abbrev Score := Option Int

def decodeFloat (bits : Nat) : Score :=
  let sign := bits / 2 ^ 63 % 2
  let exp := bits / 2 ^ 52 % 2048
  let mant := bits % 2 ^ 52
  if exp = 2047 then none else
  let m : Nat := if exp = 0 then mant else 2 ^ 52 + mant
  let v : Nat := m * 2 ^ (Nat.max exp 1 - 1)
  some (if sign = 1 then -(v : Int) else (v : Int))

def scoreToFr : Score → Fr
  | none => ⟨0, 0⟩
  | some n => ⟨n, 2 ^ 1074⟩

/-- all scores finite -/
def allFinite (l : List Score) : Bool := l.all (·.isSome)

/-- non-increasing -/
def sortedDesc : List Int → Bool
  | [] => true
  | [_] => true
  | a :: b :: r => decide (b ≤ a) && sortedDesc (b :: r)

/-- "matches within a file are ordered by non-increasing score" -/
def matchesSorted (l : List Score) : Bool :=
  allFinite l && sortedDesc (l.filterMap id)

/-- "files are ordered by non-increasing score except for the single documented promotion of a file with a novel
    extension into third place": either sorted, or sorted once the third file is taken out, and that file's
    extension differs from the first two's and its score is at least 9/10 of, and not above, the file it displaced
    (without the upper bound any file could sit in third place) -/
def filesSortedExceptPromotion (l : List FileEnt) : Bool :=
  sortedDesc (l.map (·.score)) ||
  match l with
  | a :: b :: c :: d :: r =>
    sortedDesc ((a :: b :: d :: r).map (·.score)) &&
    c.ext != a.ext && c.ext != b.ext && decide (d.score * 9 ≤ c.score * 10) && decide (c.score ≤ d.score)
  | _ => false

/-- "the same search returns … the same scores every time", "turning score debugging on never changes scores or
    order": two runs agree bit for bit -/
def sameScores (a b : List Nat) : Bool := a == b

/-- |impl − model| ≤ 1e-9 · max(1, |model|): the tolerance of the float-vs-exact comparison -/
def closeTo (impl model : Fr) : Bool :=
  impl.finite && model.finite &&
  Fr.le (Fr.abs (Fr.sub impl model)) (Fr.mul ⟨1, 1000000000⟩ (Fr.max .one (Fr.abs model)))

end ZoektModel.C29
