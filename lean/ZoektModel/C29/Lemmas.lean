import ZoektModel.C29.Spec
import Mathlib.Tactic.Ring
namespace ZoektModel.C29

/-! ### ordering -/

theorem insertDesc_perm {α} (key : α → Int) (x : α) (l : List α) : (insertDesc key x l).Perm (x :: l) := by
  induction l with
  | nil => simp [insertDesc]
  | cons y ys ih =>
    simp only [insertDesc]
    split
    · exact List.Perm.refl _
    · exact (List.Perm.cons y ih).trans (List.Perm.swap x y ys)

theorem sortDesc_perm {α} (key : α → Int) (l : List α) : (sortDesc key l).Perm l := by
  induction l with
  | nil => simp [sortDesc]
  | cons x xs ih =>
    simp only [sortDesc, List.foldr_cons]
    exact (insertDesc_perm key x _).trans (List.Perm.cons x ih)

/-- non-increasing by key -/
def Desc {α} (key : α → Int) (l : List α) : Prop := l.Pairwise fun a b => key b ≤ key a

theorem insertDesc_desc {α} (key : α → Int) (x : α) (l : List α) (h : Desc key l) : Desc key (insertDesc key x l) := by
  induction l with
  | nil => simp [insertDesc, Desc]
  | cons y ys ih =>
    simp only [insertDesc]
    unfold Desc at h ih ⊢
    rw [List.pairwise_cons] at h
    split
    · rename_i hlt
      rw [List.pairwise_cons]
      refine ⟨?_, List.pairwise_cons.2 h⟩
      intro z hz
      rcases List.mem_cons.1 hz with rfl | hz
      · omega
      · have := h.1 z hz; omega
    · rename_i hnlt
      rw [List.pairwise_cons]
      refine ⟨?_, ih h.2⟩
      intro z hz
      have hz' := (insertDesc_perm key x ys).mem_iff.1 hz
      rcases List.mem_cons.1 hz' with rfl | hz'
      · omega
      · exact h.1 z hz'

theorem sortDesc_desc {α} (key : α → Int) (l : List α) : Desc key (sortDesc key l) := by
  induction l with
  | nil => simp [sortDesc, Desc]
  | cons x xs ih =>
    simp only [sortDesc, List.foldr_cons]
    exact insertDesc_desc key x _ ih

theorem sortedDesc_of_pairwise (l : List Int) (h : l.Pairwise fun a b => b ≤ a) : sortedDesc l = true := by
  induction l with
  | nil => rfl
  | cons a t ih =>
    cases t with
    | nil => rfl
    | cons b r =>
      rw [List.pairwise_cons] at h
      simp only [sortedDesc, Bool.and_eq_true, decide_eq_true_eq]
      exact ⟨h.1 b (by simp), ih h.2⟩

theorem sortedDesc_map {α} (key : α → Int) (l : List α) (h : Desc key l) : sortedDesc (l.map key) = true := by
  apply sortedDesc_of_pairwise
  unfold Desc at h
  exact List.pairwise_map.2 h


theorem findNovel_spec (exts : List String) (num den first : Int) (cs : List FileEnt) (i : Nat)
    (h : findNovel exts num den first cs = some i) :
    ∃ x, cs[i]? = some x ∧ first * num ≤ x.score * den ∧ exts.contains x.ext = false ∧
      ∀ j y, j < i → cs[j]? = some y → (y.score * den < first * num ∨ exts.contains y.ext = true) := by
  induction cs generalizing i with
  | nil => simp [findNovel] at h
  | cons c cs ih =>
    simp only [findNovel] at h
    by_cases h1 : c.score * den < first * num
    · simp only [h1, if_true, Option.map_eq_some_iff] at h
      obtain ⟨k, hk, rfl⟩ := h
      obtain ⟨x, hx, h2, h3, h4⟩ := ih k hk
      refine ⟨x, by simpa using hx, h2, h3, ?_⟩
      intro j y hj hy
      cases j with
      | zero => simp at hy; subst hy; exact Or.inl h1
      | succ j => exact h4 j y (by omega) (by simpa using hy)
    · by_cases h2 : exts.contains c.ext = true
      · simp only [h1, if_false, h2, if_true, Option.map_eq_some_iff] at h
        obtain ⟨k, hk, rfl⟩ := h
        obtain ⟨x, hx, h2', h3, h4⟩ := ih k hk
        refine ⟨x, by simpa using hx, h2', h3, ?_⟩
        intro j y hj hy
        cases j with
        | zero => simp at hy; subst hy; exact Or.inr h2
        | succ j => exact h4 j y (by omega) (by simpa using hy)
      · simp only [h1, if_false, h2] at h
        simp at h
        subst h
        refine ⟨c, by simp, by omega, by simpa using h2, ?_⟩
        intro j y hj; omega

theorem desc_eraseIdx {α} (key : α → Int) (l : List α) (i : Nat) (h : Desc key l) : Desc key (l.eraseIdx i) := by
  unfold Desc at *
  exact List.Pairwise.sublist (List.eraseIdx_sublist l i) h


theorem perm_cons_eraseIdx {α} (l : List α) (i : Nat) (x : α) (h : l[i]? = some x) : (x :: l.eraseIdx i).Perm l := by
  induction l generalizing i with
  | nil => simp at h
  | cons y ys ih =>
    cases i with
    | zero => simp at h; subst h; simp
    | succ k =>
      simp only [List.getElem?_cons_succ] at h
      simp only [List.eraseIdx_cons_succ]
      exact (List.Perm.swap y x _).trans (List.Perm.cons y (ih k h))

theorem boost_perm (l : List FileEnt) (off : Nat) (num den : Int) : (boostNovelExtension l off num den).Perm l := by
  unfold boostNovelExtension
  split
  · exact List.Perm.refl _
  · simp only []
    cases hc : l.drop off with
    | nil => exact List.Perm.refl _
    | cons c0 tl =>
      simp only []
      cases hf : findNovel (List.map (fun x => x.ext) (List.take off l)) num den c0.score (c0 :: tl) with
      | none => exact List.Perm.refl _
      | some i =>
        simp only []
        cases hx : (c0 :: tl)[i]? with
        | none => exact List.Perm.refl _
        | some x =>
          simp only []
          have h1 := perm_cons_eraseIdx (c0 :: tl) i x hx
          have h2 : (l.take off ++ x :: (c0 :: tl).eraseIdx i).Perm (l.take off ++ l.drop off) := by
            rw [hc]; exact List.Perm.append_left _ h1
          simpa using h2


theorem fsep_of_sorted (l : List FileEnt) (h : sortedDesc (l.map (·.score)) = true) :
    filesSortedExceptPromotion l = true := by
  unfold filesSortedExceptPromotion
  rw [h]; rfl

theorem fsep_promoted (a b x d : FileEnt) (r : List FileEnt)
    (h : sortedDesc ((a :: b :: d :: r).map (·.score)) = true) (h1 : x.ext ≠ a.ext) (h2 : x.ext ≠ b.ext)
    (h3 : d.score * 9 ≤ x.score * 10) (h4 : x.score ≤ d.score) : filesSortedExceptPromotion (a :: b :: x :: d :: r) = true := by
  unfold filesSortedExceptPromotion
  simp only [h, Bool.true_and, Bool.or_eq_true, Bool.and_eq_true, bne_iff_ne, ne_eq, decide_eq_true_eq]
  exact Or.inr ⟨⟨⟨h1, h2⟩, h3⟩, h4⟩

/-! ### DebugScore does not influence scores -/

theorem addScore_score (dbg : Bool) (a : Acc) (w : String) (s : Fr) : (addScore dbg a w s).score = Fr.add a.score s := rfl

theorem wordStage_debug (data : Bytes) (m : Cand) (a a' : Acc) (h : a.score = a'.score) :
    (wordStage true data m a).score = (wordStage false data m a').score := by
  unfold wordStage
  simp only []
  split
  · simp [addScore_score, h]
  · split
    · simp [addScore_score, h]
    · exact h

theorem baseStage_debug (data : Bytes) (m : Cand) (a a' : Acc) (h : a.score = a'.score) :
    (baseStage true data m a).score = (baseStage false data m a').score := by
  unfold baseStage
  simp only []
  split
  · simp [addScore_score, h]
  · split
    · simp [addScore_score, h]
    · split
      · simp [addScore_score, h]
      · exact h

theorem symStage_debug (dc : DocCtx) (m : Cand) (a a' : Acc) (h : a.score = a'.score) :
    (symStage true dc m a).score = (symStage false dc m a').score := by
  unfold symStage
  split
  · exact h
  · simp only []
    split <;> split <;> (try split) <;> simp [addScore_score, h]

theorem weightStage_debug (m : Cand) (a a' : Acc) (h : a.score = a'.score) :
    (weightStage true m a).score = (weightStage false m a').score := by
  unfold weightStage
  split
  · simp [h]
  · exact h

theorem candScore_debug (dc : DocCtx) (m : Cand) : (candScore dc true m).score = (candScore dc false m).score := by
  unfold candScore
  simp only []
  apply weightStage_debug
  split
  · exact baseStage_debug _ _ _ _ (wordStage_debug _ _ _ _ rfl)
  · exact symStage_debug _ _ _ _ (wordStage_debug _ _ _ _ rfl)



theorem bestFold_debug (dc : DocCtx) (ms : List Cand) (b b' : Acc) (h : b.score = b'.score) :
    (ms.foldl (fun (best : Acc) m => let a := candScore dc true m; if Fr.lt best.score a.score then a else best) b).score =
    (ms.foldl (fun (best : Acc) m => let a := candScore dc false m; if Fr.lt best.score a.score then a else best) b').score := by
  induction ms generalizing b b' with
  | nil => exact h
  | cons m ms ih =>
    simp only [List.foldl_cons]
    apply ih
    simp only [h, candScore_debug dc m]
    split
    · exact candScore_debug dc m
    · exact h

theorem scoreLineClassic_debug (dc : DocCtx) (ms : List Cand) :
    (scoreLineClassic dc true ms).score = (scoreLineClassic dc false ms).score := by
  unfold scoreLineClassic
  simp only [if_true, Bool.false_eq_true, if_false]
  exact bestFold_debug dc ms _ _ rfl

theorem scoreLine_debug (dc : DocCtx) (bm25 : Bool) (ms : List Cand) (ln : Int) :
    (scoreLine dc bm25 true ms ln).score = (scoreLine dc bm25 false ms ln).score := by
  unfold scoreLine
  split
  · rfl
  · exact scoreLineClassic_debug dc ms



/-- two chunk-loop states that differ only in debug labels -/
def StEq (a b : ChunkSt) : Prop :=
  a.best.score = b.best.score ∧ a.bestLine = b.bestLine ∧ a.start = b.start ∧ a.cur = b.cur

theorem chunkStep_debug (dc : DocCtx) (bm25 : Bool) (ms : List Cand) (i : Nat) (m : Cand) (a b : ChunkSt) (h : StEq a b) :
    StEq (chunkStep dc bm25 true ms i m a) (chunkStep dc bm25 false ms i m b) := by
  obtain ⟨h1, h2, h3, h4⟩ := h
  unfold chunkStep
  simp only [h3, h4]
  split
  · rw [scoreLine_debug, h1]
    split
    · exact ⟨scoreLine_debug _ _ _ _, rfl, rfl, rfl⟩
    · exact ⟨h1, h2, rfl, rfl⟩
  · exact ⟨h1, h2, h3, rfl⟩

theorem chunkGo_debug (dc : DocCtx) (bm25 : Bool) (ms rest : List Cand) (i : Nat) (a b : ChunkSt) (h : StEq a b) :
    StEq (chunkGo dc bm25 true ms i rest a) (chunkGo dc bm25 false ms i rest b) := by
  induction rest generalizing i a b with
  | nil => exact h
  | cons m rest ih => exact ih _ _ _ (chunkStep_debug dc bm25 ms i m a b h)

theorem scoreChunk_debug (dc : DocCtx) (bm25 : Bool) (ms : List Cand) :
    (scoreChunk dc bm25 true ms).1.score = (scoreChunk dc bm25 false ms).1.score ∧
    (scoreChunk dc bm25 true ms).2 = (scoreChunk dc bm25 false ms).2 := by
  have h := chunkGo_debug dc bm25 ms ms 0 ⟨⟨.zero, []⟩, 0, 0, -1⟩ ⟨⟨.zero, []⟩, 0, 0, -1⟩ ⟨rfl, rfl, rfl, rfl⟩
  obtain ⟨h1, h2, h3, h4⟩ := h
  unfold scoreChunk
  simp only [h3, h4]
  rw [scoreLine_debug, h1]
  split
  · exact ⟨scoreLine_debug _ _ _ _, rfl⟩
  · exact ⟨h1, h2⟩

theorem fmAdd_debug (fs fs' : Fr × List String) (w : String) (c : Fr) (h : fs.1 = fs'.1) :
    (fmAdd true fs w c).1 = (fmAdd false fs' w c).1 := by
  simp [fmAdd, h]

theorem scoreFile_debug (atomCount : Nat) (lines : List Fr) (repoRank doc numBounds : Nat) :
    (scoreFile true atomCount lines repoRank doc numBounds).score = (scoreFile false atomCount lines repoRank doc numBounds).score ∧
    (scoreFile true atomCount lines repoRank doc numBounds).lines = (scoreFile false atomCount lines repoRank doc numBounds).lines := by
  constructor
  · unfold scoreFile
    simp only []
    split <;> simp [fmAdd]
  · unfold scoreFile
    rfl


/-! ### finiteness -/

/-- finite: no division by zero happened -/
def Fr.Fin (a : Fr) : Prop := 0 < a.den

theorem fin_ofNat (n : Nat) : (Fr.ofNat n).Fin := by simp [Fr.Fin, Fr.ofNat]
theorem fin_zero : Fr.zero.Fin := by simp [Fr.Fin, Fr.zero]
theorem fin_one : Fr.one.Fin := by simp [Fr.Fin, Fr.one]
theorem fin_add {a b : Fr} (ha : a.Fin) (hb : b.Fin) : (Fr.add a b).Fin := by
  unfold Fr.Fin at *; simp only [Fr.add]; exact Nat.mul_pos ha hb
theorem fin_sub {a b : Fr} (ha : a.Fin) (hb : b.Fin) : (Fr.sub a b).Fin := by
  unfold Fr.Fin at *; simp only [Fr.sub]; exact Nat.mul_pos ha hb
theorem fin_mul {a b : Fr} (ha : a.Fin) (hb : b.Fin) : (Fr.mul a b).Fin := by
  unfold Fr.Fin at *; simp only [Fr.mul]; exact Nat.mul_pos ha hb
theorem fin_div {a b : Fr} (ha : a.Fin) (hb : b.num ≠ 0) : (Fr.div a b).Fin := by
  unfold Fr.Fin at *
  unfold Fr.div
  split
  · rename_i h; simp only; exact Nat.mul_pos ha (by omega)
  · split
    · rename_i h; simp only; exact Nat.mul_pos ha (by omega)
    · omega
theorem fin_trunc {a : Fr} (ha : a.Fin) : (Fr.trunc a).Fin := by
  unfold Fr.Fin at *; unfold Fr.trunc; simp only; split <;> omega
theorem fin_max {a b : Fr} (ha : a.Fin) (hb : b.Fin) : (Fr.max a b).Fin := by
  unfold Fr.max; split <;> assumption

/-- a finite score stays a finite `float64` token for the Spec predicates -/
theorem fin_iff (a : Fr) : a.Fin ↔ a.finite = true := by simp [Fr.Fin, Fr.finite]

theorem fin_addScore {dbg : Bool} {a : Acc} {w : String} {s : Fr} (ha : a.score.Fin) (hs : s.Fin) : (addScore dbg a w s).score.Fin :=
  fin_add ha hs

theorem fin_consts : scoreWordMatch.Fin ∧ scorePartialWordMatch.Fin ∧ scoreBase.Fin ∧ scorePartialBase.Fin ∧
    scoreSymbol.Fin ∧ scorePartialSymbol.Fin ∧ scoreFactorAtomMatch.Fin ∧ scoreLineOrderFactor.Fin ∧
    scoreRepoRankFactor.Fin ∧ scoreFileOrderFactor.Fin ∧ scoreOffset.Fin ∧ bm25k.Fin ∧ bm25b.Fin := by
  simp [Fr.Fin, scoreWordMatch, scorePartialWordMatch, scoreBase, scorePartialBase, scoreSymbol, scorePartialSymbol,
    scoreFactorAtomMatch, scoreLineOrderFactor, scoreRepoRankFactor, scoreFileOrderFactor, scoreOffset, bm25k, bm25b, Fr.ofNat]

theorem fin_half (a b : Fr) (ha : a.Fin) (hb : b.Fin) : (Fr.div (Fr.add a b) (.ofNat 2)).Fin :=
  fin_div (fin_add ha hb) (by simp [Fr.ofNat])

theorem fin_wordStage (dbg : Bool) (data : Bytes) (m : Cand) (a : Acc) (ha : a.score.Fin) : (wordStage dbg data m a).score.Fin := by
  unfold wordStage
  simp only []
  split
  · exact fin_addScore ha fin_consts.1
  · split
    · exact fin_addScore ha fin_consts.2.1
    · exact ha

theorem fin_baseStage (dbg : Bool) (data : Bytes) (m : Cand) (a : Acc) (ha : a.score.Fin) : (baseStage dbg data m a).score.Fin := by
  unfold baseStage
  simp only []
  split
  · exact fin_addScore ha fin_consts.2.2.1
  · split
    · exact fin_addScore ha (fin_half _ _ fin_consts.2.2.1 fin_consts.2.2.2.1)
    · split
      · exact fin_addScore ha fin_consts.2.2.2.1
      · exact ha

/-- the symbol-kind scores handed to the model are finite -/
def KindsFin (dc : DocCtx) : Prop := ∀ k, some k ∈ dc.kindScore → k.Fin

theorem findSymbol_kind (dc : DocCtx) (m : Cand) (sec : Sec) (k : Fr) (h : findSymbol dc m = some (sec, some k)) :
    some k ∈ dc.kindScore := by
  unfold findSymbol at h
  split at h
  · simp at h
  · simp only [] at h
    split at h
    · simp at h
    · rename_i i _
      split at h
      · simp at h
      · simp only [Option.some.injEq, Prod.mk.injEq] at h
        obtain ⟨_, hk⟩ := h
        by_cases hi : i < dc.kindScore.length
        · have : dc.kindScore.getD i none = dc.kindScore[i] := by simp [List.getD, hi]
          rw [this] at hk
          exact hk ▸ List.getElem_mem hi
        · have : dc.kindScore.getD i none = none := by
            rw [List.getD_eq_getElem?_getD, List.getElem?_eq_none (by omega)]; rfl
          rw [this] at hk; simp at hk

theorem fin_symStage (dbg : Bool) (dc : DocCtx) (m : Cand) (a : Acc) (hk : KindsFin dc) (ha : a.score.Fin) :
    (symStage dbg dc m a).score.Fin := by
  unfold symStage
  split
  · exact ha
  · rename_i sec ks hfs
    simp only []
    have h1 : (if (sec.start == m.off && sec.stop == m.off + m.sz) = true then addScore dbg a "Symbol" scoreSymbol
             else if (sec.start == m.off || sec.stop == m.off + m.sz) = true then addScore dbg a "EdgeSymbol" (Fr.div (Fr.add scoreSymbol scorePartialSymbol) (.ofNat 2))
             else addScore dbg a "OverlapSymbol" scorePartialSymbol).score.Fin := by
      split
      · exact fin_addScore ha fin_consts.2.2.2.2.1
      · split
        · exact fin_addScore ha (fin_half _ _ fin_consts.2.2.2.2.1 fin_consts.2.2.2.2.2.1)
        · exact fin_addScore ha fin_consts.2.2.2.2.2.1
    split
    · exact h1
    · rename_i k
      exact fin_addScore h1 (hk k (findSymbol_kind dc m sec k hfs))

theorem fin_weightStage (dbg : Bool) (m : Cand) (a : Acc) (hw : m.weight.Fin) (ha : a.score.Fin) : (weightStage dbg m a).score.Fin := by
  unfold weightStage
  split
  · exact fin_mul ha hw
  · exact ha

theorem fin_candScore (dc : DocCtx) (dbg : Bool) (m : Cand) (hk : KindsFin dc) (hw : m.weight.Fin) : (candScore dc dbg m).score.Fin := by
  unfold candScore
  simp only []
  apply fin_weightStage _ _ _ hw
  split
  · exact fin_baseStage _ _ _ _ (fin_wordStage _ _ _ _ fin_zero)
  · exact fin_symStage _ _ _ _ hk (fin_wordStage _ _ _ _ fin_zero)

theorem fin_scoreLineClassic (dc : DocCtx) (dbg : Bool) (ms : List Cand) (hk : KindsFin dc) (hw : ∀ m ∈ ms, m.weight.Fin) :
    (scoreLineClassic dc dbg ms).score.Fin := by
  unfold scoreLineClassic
  have : ∀ (b : Acc), b.score.Fin →
      (ms.foldl (fun (best : Acc) m => let a := candScore dc dbg m; if Fr.lt best.score a.score then a else best) b).score.Fin := by
    induction ms with
    | nil => intro b hb; exact hb
    | cons m ms ih =>
      intro b hb
      simp only [List.foldl_cons]
      apply ih (fun x hx => hw x (by simp [hx]))
      split
      · exact fin_candScore dc dbg m hk (hw m (by simp))
      · exact hb
  have h0 := this ⟨.zero, []⟩ fin_zero
  split <;> exact h0



/-- the BM25 denominator `k(1-b+bL)+f` is positive for every `L ≥ 0` and `f ≥ 0` -/
theorem tf_den_pos (L : Fr) (f : Nat) (hL : L.Fin) (hn : 0 ≤ L.num) :
    0 < (Fr.add (Fr.mul bm25k (Fr.add (Fr.sub .one bm25b) (Fr.mul bm25b L))) (.ofNat f)).num := by
  unfold Fr.Fin at hL
  simp only [Fr.add, Fr.mul, Fr.sub, Fr.one, Fr.ofNat, bm25k, bm25b]
  have h1 : (0 : Int) < (L.den : Int) := by exact_mod_cast hL
  have h2 : (0 : Int) ≤ (f : Int) * ((5 : Int) * ((4 : Int) * ((4 : Int) * (L.den : Int)))) := by
    apply Int.mul_nonneg (by omega) (by omega)
  push_cast
  omega

theorem fin_tfScore (L : Fr) (f : Nat) (hL : L.Fin) (hn : 0 ≤ L.num) : (tfScore bm25k bm25b L f).Fin := by
  unfold tfScore
  apply fin_div
  · exact fin_mul (fin_add fin_consts.2.2.2.2.2.2.2.2.2.2.2.1 fin_one) (fin_ofNat f)
  · have := tf_den_pos L f hL hn; omega

theorem fin_sumTfList (L : Fr) (tf : List (String × Nat)) (hL : L.Fin) (hn : 0 ≤ L.num) : (sumTfList L tf).Fin := by
  unfold sumTfList
  have : ∀ (s : Fr), s.Fin → (tf.foldl (fun s p => Fr.add s (tfScore bm25k bm25b L p.2)) s).Fin := by
    induction tf with
    | nil => intro s hs; exact hs
    | cons p tf ih => intro s hs; exact ih _ (fin_add hs (fin_tfScore L p.2 hL hn))
  exact this _ fin_zero

theorem fin_sumTf (L : Fr) (tf : List (String × Nat)) (hL : L.Fin) (hn : 0 ≤ L.num) : (sumTf L tf).Fin :=
  fin_sumTfList L _ hL hn

theorem fin_boostScore (score : Fr) (ms : List Cand) (hs : score.Fin) (hw : ∀ m ∈ ms, m.weight.Fin) : (boostScore score ms).Fin := by
  unfold boostScore
  have : ∀ (mx : Fr), mx.Fin → (ms.foldl (fun mx m => if Fr.lt mx m.weight then m.weight else mx) mx).Fin := by
    induction ms with
    | nil => intro mx h; exact h
    | cons m ms ih =>
      intro mx h
      simp only [List.foldl_cons]
      apply ih (fun x hx => hw x (by simp [hx]))
      split
      · exact hw m (by simp)
      · exact h
  simp only []
  split
  · exact fin_mul hs (this _ fin_one)
  · exact hs

theorem fin_scoreLineBM25 (dc : DocCtx) (ms : List Cand) (ln : Int) (hw : ∀ m ∈ ms, m.weight.Fin) : (scoreLineBM25 dc ms ln).Fin := by
  unfold scoreLineBM25
  split
  · exact fin_zero
  · simp only []
    apply fin_boostScore _ _ _ hw
    apply fin_sumTf
    · exact fin_div (fin_ofNat _) (by simp [Fr.ofNat])
    · simp [Fr.div, Fr.ofNat]

theorem fin_scoreLine (dc : DocCtx) (bm25 dbg : Bool) (ms : List Cand) (ln : Int) (hk : KindsFin dc) (hw : ∀ m ∈ ms, m.weight.Fin) :
    (scoreLine dc bm25 dbg ms ln).score.Fin := by
  unfold scoreLine
  split
  · exact fin_scoreLineBM25 dc ms ln hw
  · exact fin_scoreLineClassic dc dbg ms hk hw

theorem fin_scoreFileBM25 (dc : DocCtx) (cands : List Cand) (low : Bool) (total numDocs docBytes : Nat)
    (hd : 0 < numDocs) (hw : ∀ m ∈ cands, m.weight.Fin) : (scoreFileBM25 dc cands low total numDocs docBytes).Fin := by
  unfold scoreFileBM25
  simp only []
  apply fin_boostScore _ _ _ hw
  have havg : (Fr.div (.ofNat total) (.ofNat numDocs)).Fin := fin_div (fin_ofNat _) (by simp [Fr.ofNat]; omega)
  have havgn : 0 ≤ (Fr.div (.ofNat total) (.ofNat numDocs)).num := by
    simp only [Fr.div, Fr.ofNat]
    simp [hd]
  generalize Fr.div (.ofNat total) (.ofNat numDocs) = avg at havg havgn
  have h2 : (if avg.isZero = true then Fr.add avg .one else avg).Fin ∧ 0 < (if avg.isZero = true then Fr.add avg .one else avg).num := by
    unfold Fr.Fin at havg
    split
    · rename_i hz
      simp only [Fr.isZero, beq_iff_eq] at hz
      refine ⟨fin_add havg fin_one, ?_⟩
      simp only [Fr.add, Fr.one, hz]
      have : (0 : Int) < (avg.den : Int) := by exact_mod_cast havg
      omega
    · rename_i hz
      simp only [Fr.isZero, beq_iff_eq] at hz
      exact ⟨havg, by omega⟩
  generalize (if avg.isZero = true then Fr.add avg .one else avg) = avg' at h2
  apply fin_sumTf
  · exact fin_div (fin_ofNat _) (by omega)
  · unfold Fr.div
    have := h2.2
    simp only [this, if_true, Fr.ofNat]
    exact Int.mul_nonneg (Int.natCast_nonneg _) (Int.natCast_nonneg _)



theorem fin_fmAdd {dbg : Bool} {fs : Fr × List String} {w : String} {c : Fr} (h : fs.1.Fin) (hc : c.Fin) : (fmAdd dbg fs w c).1.Fin :=
  fin_add h hc

theorem fin_foldMax (lines : List Fr) (h : ∀ s ∈ lines, s.Fin) (mx : Fr) (hm : mx.Fin) :
    (lines.foldl (fun mx s => if Fr.lt mx s then s else mx) mx).Fin := by
  induction lines generalizing mx with
  | nil => exact hm
  | cons s ls ih =>
    simp only [List.foldl_cons]
    apply ih (fun x hx => h x (by simp [hx]))
    split
    · exact h s (by simp)
    · exact hm

theorem fin_scoreFile (dbg : Bool) (atomCount : Nat) (lines : List Fr) (repoRank doc numBounds : Nat)
    (hl : ∀ s ∈ lines, s.Fin) (hb : 0 < numBounds) :
    (scoreFile dbg atomCount lines repoRank doc numBounds).score.Fin ∧
    ∀ s ∈ (scoreFile dbg atomCount lines repoRank doc numBounds).lines, s.Fin := by
  unfold scoreFile
  simp only []
  constructor
  · apply fin_add
    · apply fin_add
      · apply fin_mul fin_consts.2.2.2.2.2.2.2.2.2.2.1
        apply fin_trunc
        apply fin_fmAdd _ (fin_foldMax lines hl _ fin_zero)
        split
        · rename_i hpos
          apply fin_fmAdd fin_zero
          exact fin_mul (fin_sub fin_one (fin_div fin_one (by simp [Fr.ofNat]; omega))) fin_consts.2.2.2.2.2.2.1
        · exact fin_zero
      · exact fin_mul fin_consts.2.2.2.2.2.2.2.2.1 (fin_ofNat _)
    · apply fin_mul fin_consts.2.2.2.2.2.2.2.2.2.1
      exact fin_sub fin_one (fin_div (fin_ofNat _) (by simp [Fr.ofNat]; omega))
  · intro s hs
    simp only [List.mem_map] at hs
    obtain ⟨⟨x, i⟩, hxi, rfl⟩ := hs
    have hx : x ∈ lines := (List.mem_zipIdx hxi).2.2 ▸ List.getElem_mem _
    have hlen : 0 < lines.length := List.length_pos_of_mem hx
    apply fin_add (hl x hx)
    apply fin_mul fin_consts.2.2.2.2.2.2.2.1
    refine fin_sub fin_one (fin_div (fin_ofNat _) ?_)
    simp only [Fr.ofNat]
    omega


/-! ### the BM25 sum in exact arithmetic -/

theorem add_right_comm' (s x y : Fr) : Fr.add (Fr.add s x) y = Fr.add (Fr.add s y) x := by
  simp only [Fr.add, Fr.mk.injEq]
  constructor
  · push_cast; ring
  · ring

theorem foldl_add_perm (t : String × Nat → Fr) (l l' : List (String × Nat)) (h : l.Perm l') (s : Fr) :
    l.foldl (fun s p => Fr.add s (t p)) s = l'.foldl (fun s p => Fr.add s (t p)) s := by
  induction h generalizing s with
  | nil => rfl
  | cons x _ ih => simp only [List.foldl_cons]; exact ih _
  | swap x y l => simp only [List.foldl_cons]; rw [add_right_comm']
  | trans _ _ ih1 ih2 => exact (ih1 s).trans (ih2 s)

/-- in exact arithmetic the BM25 sum does not depend on the order in which the terms are visited -/
theorem sumTfList_perm (L : Fr) (l l' : List (String × Nat)) (h : l.Perm l') : sumTfList L l = sumTfList L l' :=
  foldl_add_perm _ l l' h _

theorem sumTf_eq_any_order (L : Fr) (tf l' : List (String × Nat)) (h : tf.Perm l') : sumTf L tf = sumTfList L l' := by
  unfold sumTf sortedTerms
  exact sumTfList_perm L _ _ ((List.mergeSort_perm tf _).trans h)


theorem fin_chunkStep (dc : DocCtx) (bm25 dbg : Bool) (ms : List Cand) (i : Nat) (m : Cand) (st : ChunkSt)
    (hk : KindsFin dc) (hw : ∀ m ∈ ms, m.weight.Fin) (h : st.best.score.Fin) :
    (chunkStep dc bm25 dbg ms i m st).best.score.Fin := by
  unfold chunkStep
  simp only []
  split
  · split
    · apply fin_scoreLine _ _ _ _ _ hk
      intro x hx
      exact hw x (List.mem_of_mem_drop (List.mem_of_mem_take hx))
    · exact h
  · exact h

theorem fin_chunkGo (dc : DocCtx) (bm25 dbg : Bool) (ms rest : List Cand) (i : Nat) (st : ChunkSt)
    (hk : KindsFin dc) (hw : ∀ m ∈ ms, m.weight.Fin) (h : st.best.score.Fin) :
    (chunkGo dc bm25 dbg ms i rest st).best.score.Fin := by
  induction rest generalizing i st with
  | nil => exact h
  | cons m rest ih => exact ih _ _ (fin_chunkStep dc bm25 dbg ms i m st hk hw h)

theorem fin_scoreChunk (dc : DocCtx) (bm25 dbg : Bool) (ms : List Cand) (hk : KindsFin dc) (hw : ∀ m ∈ ms, m.weight.Fin) :
    (scoreChunk dc bm25 dbg ms).1.score.Fin := by
  unfold scoreChunk
  simp only []
  split
  · apply fin_scoreLine _ _ _ _ _ hk
    intro x hx
    exact hw x (List.mem_of_mem_drop hx)
  · exact fin_chunkGo dc bm25 dbg ms ms 0 _ hk hw fin_zero

/-! ### debug labels only with DebugScore; sorted permutations agree -/

theorem candScore_no_labels (dc : DocCtx) (m : Cand) : (candScore dc false m).what = [] := by
  unfold candScore
  simp only []
  have hw : ∀ data a, a.what = [] → (wordStage false data m a).what = [] := by
    intro data a ha; unfold wordStage; simp only []
    split
    · simp [addScore, ha]
    · split
      · simp [addScore, ha]
      · exact ha
  have hb : ∀ data a, a.what = [] → (baseStage false data m a).what = [] := by
    intro data a ha; unfold baseStage; simp only []
    split
    · simp [addScore, ha]
    · split
      · simp [addScore, ha]
      · split
        · simp [addScore, ha]
        · exact ha
  have hs : ∀ a, a.what = [] → (symStage false dc m a).what = [] := by
    intro a ha; unfold symStage
    split
    · exact ha
    · simp only []
      split <;> split <;> (try split) <;> simp [addScore, ha]
  have hwt : ∀ a, a.what = [] → (weightStage false m a).what = [] := by
    intro a ha; unfold weightStage
    split
    · simpa using ha
    · exact ha
  apply hwt
  split
  · exact hb _ _ (hw _ _ rfl)
  · exact hs _ (hw _ _ rfl)

theorem sortedDesc_pairwise {α} (key : α → Int) {l : List α} (h : Desc key l) : (l.map key).Pairwise (fun a b => b ≤ a) :=
  List.pairwise_map.2 h

/-- two non-increasing lists that are permutations of each other are equal -/
theorem sorted_perm_eq (l l' : List Int) (h : l.Pairwise fun a b => b ≤ a) (h' : l'.Pairwise fun a b => b ≤ a)
    (hp : l.Perm l') : l = l' := by
  induction l generalizing l' with
  | nil => exact (List.Perm.nil_eq hp)
  | cons a t ih =>
    cases l' with
    | nil => exact absurd hp.symm (List.Perm.nil_eq · |> fun h => by simp at h)
    | cons b t' =>
      rw [List.pairwise_cons] at h h'
      have hab : a = b := by
        have ha : a ∈ b :: t' := hp.mem_iff.1 (by simp)
        have hb : b ∈ a :: t := hp.mem_iff.2 (by simp)
        rcases List.mem_cons.1 ha with rfl | ha
        · rfl
        · rcases List.mem_cons.1 hb with rfl | hb
          · rfl
          · have := h.1 b hb; have := h'.1 a ha; omega
      subst hab
      rw [ih t' h.2 h'.2 ((List.perm_cons a).1 hp)]

/-! ### prefixes (display truncation) and the collector -/

theorem pairwise_of_sortedDesc (l : List Int) (h : sortedDesc l = true) : l.Pairwise fun a b => b ≤ a := by
  induction l with
  | nil => exact List.Pairwise.nil
  | cons a t ih =>
    cases t with
    | nil => simp
    | cons b r =>
      simp only [sortedDesc, Bool.and_eq_true, decide_eq_true_eq] at h
      have ht := ih h.2
      rw [List.pairwise_cons]
      refine ⟨?_, ht⟩
      intro z hz
      rcases List.mem_cons.1 hz with rfl | hz
      · exact h.1
      · have := (List.pairwise_cons.1 ht).1 z hz; omega

theorem sortedDesc_take (l : List Int) (n : Nat) (h : sortedDesc l = true) : sortedDesc (l.take n) = true :=
  sortedDesc_of_pairwise _ (List.Pairwise.sublist (List.take_sublist n l) (pairwise_of_sortedDesc l h))

/-- truncating to the first `n` files keeps "non-increasing except for the promotion into third place" -/
theorem fsep_take (l : List FileEnt) (n : Nat) (h : filesSortedExceptPromotion l = true) :
    filesSortedExceptPromotion (l.take n) = true := by
  unfold filesSortedExceptPromotion at h
  rw [Bool.or_eq_true] at h
  rcases h with h | h
  · apply fsep_of_sorted
    rw [List.map_take]
    exact sortedDesc_take _ n h
  · match l, h with
    | a :: b :: c :: d :: r, h =>
      simp only [Bool.and_eq_true, bne_iff_ne, ne_eq, decide_eq_true_eq] at h
      obtain ⟨⟨⟨⟨hs, h1⟩, h2⟩, h3⟩, h4⟩ := h
      have hp := pairwise_of_sortedDesc _ hs
      simp only [List.map_cons, List.pairwise_cons, List.mem_cons, forall_eq_or_imp] at hp
      match n with
      | 0 => rfl
      | 1 => rfl
      | 2 =>
        apply fsep_of_sorted
        simp only [List.take_succ_cons, List.take_zero, List.map_cons, List.map_nil, sortedDesc, Bool.and_true, decide_eq_true_eq]
        exact hp.1.1
      | 3 =>
        apply fsep_of_sorted
        simp only [List.take_succ_cons, List.take_zero, List.map_cons, List.map_nil, sortedDesc, Bool.and_true, Bool.and_eq_true,
          decide_eq_true_eq]
        exact ⟨hp.1.1, by have := hp.2.1.1; omega⟩
      | m + 4 =>
        simp only [List.take_succ_cons]
        apply fsep_promoted a b c d _ _ h1 h2 h3 h4
        have := sortedDesc_take _ (m + 3) hs
        simpa [List.map_take] using this
    | [], h => simp at h
    | [_], h => simp at h
    | [_, _], h => simp at h
    | [_, _, _], h => simp at h

end ZoektModel.C29
