import ZoektModel.C29.Spec
namespace ZoektModel.C29

/-! ### ordering -/

theorem insertDesc_perm {α} (key : α → Int) (x : α) (l : List α) : (insertDesc key x l).Perm (x :: l) := by
  induction l with
  | nil => simp [insertDesc]
  | cons y ys ih =>
    simp only [insertDesc]
    split
    · exact List.Perm.refl _
    · exact (List.Perm.cons y ih).trans (List.Perm.swap x y ys)

theorem sortDesc_perm {α} (key : α → Int) (l : List α) : (sortDesc key l).Perm l := by
  induction l with
  | nil => simp [sortDesc]
  | cons x xs ih =>
    simp only [sortDesc, List.foldr_cons]
    exact (insertDesc_perm key x _).trans (List.Perm.cons x ih)

/-- non-increasing by key -/
def Desc {α} (key : α → Int) (l : List α) : Prop := l.Pairwise fun a b => key b ≤ key a

theorem insertDesc_desc {α} (key : α → Int) (x : α) (l : List α) (h : Desc key l) : Desc key (insertDesc key x l) := by
  induction l with
  | nil => simp [insertDesc, Desc]
  | cons y ys ih =>
    simp only [insertDesc]
    unfold Desc at h ih ⊢
    rw [List.pairwise_cons] at h
    split
    · rename_i hlt
      rw [List.pairwise_cons]
      refine ⟨?_, List.pairwise_cons.2 h⟩
      intro z hz
      rcases List.mem_cons.1 hz with rfl | hz
      · omega
      · have := h.1 z hz; omega
    · rename_i hnlt
      rw [List.pairwise_cons]
      refine ⟨?_, ih h.2⟩
      intro z hz
      have hz' := (insertDesc_perm key x ys).mem_iff.1 hz
      rcases List.mem_cons.1 hz' with rfl | hz'
      · omega
      · exact h.1 z hz'

theorem sortDesc_desc {α} (key : α → Int) (l : List α) : Desc key (sortDesc key l) := by
  induction l with
  | nil => simp [sortDesc, Desc]
  | cons x xs ih =>
    simp only [sortDesc, List.foldr_cons]
    exact insertDesc_desc key x _ ih

theorem sortedDesc_of_pairwise (l : List Int) (h : l.Pairwise fun a b => b ≤ a) : sortedDesc l = true := by
  induction l with
  | nil => rfl
  | cons a t ih =>
    cases t with
    | nil => rfl
    | cons b r =>
      rw [List.pairwise_cons] at h
      simp only [sortedDesc, Bool.and_eq_true, decide_eq_true_eq]
      exact ⟨h.1 b (by simp), ih h.2⟩

theorem sortedDesc_map {α} (key : α → Int) (l : List α) (h : Desc key l) : sortedDesc (l.map key) = true := by
  apply sortedDesc_of_pairwise
  unfold Desc at h
  exact List.pairwise_map.2 h


theorem findNovel_spec (exts : List String) (num den first : Int) (cs : List FileEnt) (i : Nat)
    (h : findNovel exts num den first cs = some i) :
    ∃ x, cs[i]? = some x ∧ first * num ≤ x.score * den ∧ exts.contains x.ext = false ∧
      ∀ j y, j < i → cs[j]? = some y → (y.score * den < first * num ∨ exts.contains y.ext = true) := by
  induction cs generalizing i with
  | nil => simp [findNovel] at h
  | cons c cs ih =>
    simp only [findNovel] at h
    by_cases h1 : c.score * den < first * num
    · simp only [h1, if_true, Option.map_eq_some_iff] at h
      obtain ⟨k, hk, rfl⟩ := h
      obtain ⟨x, hx, h2, h3, h4⟩ := ih k hk
      refine ⟨x, by simpa using hx, h2, h3, ?_⟩
      intro j y hj hy
      cases j with
      | zero => simp at hy; subst hy; exact Or.inl h1
      | succ j => exact h4 j y (by omega) (by simpa using hy)
    · by_cases h2 : exts.contains c.ext = true
      · simp only [h1, if_false, h2, if_true, Option.map_eq_some_iff] at h
        obtain ⟨k, hk, rfl⟩ := h
        obtain ⟨x, hx, h2', h3, h4⟩ := ih k hk
        refine ⟨x, by simpa using hx, h2', h3, ?_⟩
        intro j y hj hy
        cases j with
        | zero => simp at hy; subst hy; exact Or.inr h2
        | succ j => exact h4 j y (by omega) (by simpa using hy)
      · simp only [h1, if_false, h2] at h
        simp at h
        subst h
        refine ⟨c, by simp, by omega, by simpa using h2, ?_⟩
        intro j y hj; omega

theorem desc_eraseIdx {α} (key : α → Int) (l : List α) (i : Nat) (h : Desc key l) : Desc key (l.eraseIdx i) := by
  unfold Desc at *
  exact List.Pairwise.sublist (List.eraseIdx_sublist l i) h


theorem perm_cons_eraseIdx {α} (l : List α) (i : Nat) (x : α) (h : l[i]? = some x) : (x :: l.eraseIdx i).Perm l := by
  induction l generalizing i with
  | nil => simp at h
  | cons y ys ih =>
    cases i with
    | zero => simp at h; subst h; simp
    | succ k =>
      simp only [List.getElem?_cons_succ] at h
      simp only [List.eraseIdx_cons_succ]
      exact (List.Perm.swap y x _).trans (List.Perm.cons y (ih k h))

theorem boost_perm (l : List FileEnt) (off : Nat) (num den : Int) : (boostNovelExtension l off num den).Perm l := by
  unfold boostNovelExtension
  split
  · exact List.Perm.refl _
  · simp only []
    cases hc : l.drop off with
    | nil => exact List.Perm.refl _
    | cons c0 tl =>
      simp only []
      cases hf : findNovel (List.map (fun x => x.ext) (List.take off l)) num den c0.score (c0 :: tl) with
      | none => exact List.Perm.refl _
      | some i =>
        simp only []
        cases hx : (c0 :: tl)[i]? with
        | none => exact List.Perm.refl _
        | some x =>
          simp only []
          have h1 := perm_cons_eraseIdx (c0 :: tl) i x hx
          have h2 : (l.take off ++ x :: (c0 :: tl).eraseIdx i).Perm (l.take off ++ l.drop off) := by
            rw [hc]; exact List.Perm.append_left _ h1
          simpa using h2


theorem fsep_of_sorted (l : List FileEnt) (h : sortedDesc (l.map (·.score)) = true) :
    filesSortedExceptPromotion l = true := by
  unfold filesSortedExceptPromotion
  rw [h]; rfl

theorem fsep_promoted (a b x d : FileEnt) (r : List FileEnt)
    (h : sortedDesc ((a :: b :: d :: r).map (·.score)) = true) (h1 : x.ext ≠ a.ext) (h2 : x.ext ≠ b.ext)
    (h3 : d.score * 9 ≤ x.score * 10) : filesSortedExceptPromotion (a :: b :: x :: d :: r) = true := by
  unfold filesSortedExceptPromotion
  simp only [h, Bool.true_and, Bool.or_eq_true, Bool.and_eq_true, bne_iff_ne, ne_eq, decide_eq_true_eq]
  exact Or.inr ⟨⟨h1, h2⟩, h3⟩

end ZoektModel.C29
