/-
C06 — lemmas: meaning of `parseOperators`, of `setCase` under nesting, auto-case of plain literals.
-/
import ZoektModel.C06.Spec
import ZoektModel.C07.Lemmas
namespace ZoektModel.C07
def strBytesC06 (s : String) : B := s.toList.map (·.toNat)
end ZoektModel.C07

namespace ZoektModel.C06
open ZoektModel ZoektModel.C07

/-! ### juxtaposition is conjunction, `or` is a lower-precedence disjunction -/

/-- reference reading of a flat operand list with `or` separators, left to right: `cur` is the conjunction
    collected so far for the current alternative -/
def itemsSem (ev : Q → DocPred) : List Q → DocPred → DocPred
  | [], cur => cur
  | q :: rest, cur =>
    if isOrOp q then fun d => cur d || itemsSem ev rest (fun _ => true) d
    else itemsSem ev rest (fun d => cur d && ev q d)

def allEv (ev : Q → DocPred) : List Q → DocPred
  | [] => fun _ => true
  | q :: qs => fun d => ev q d && allEv ev qs d

def anyEv (ev : Q → DocPred) : List Q → DocPred
  | [] => fun _ => false
  | q :: qs => fun d => ev q d || anyEv ev qs d

theorem allEv_append (ev : Q → DocPred) (a b : List Q) (d : Nat) :
    allEv ev (a ++ b) d = (allEv ev a d && allEv ev b d) := by
  induction a with
  | nil => simp [allEv]
  | cons q a ih => simp [allEv, ih, Bool.and_assoc]

theorem anyEv_append (ev : Q → DocPred) (a b : List Q) (d : Nat) :
    anyEv ev (a ++ b) d = (anyEv ev a d || anyEv ev b d) := by
  induction a with
  | nil => simp [anyEv]
  | cons q a ih => simp [anyEv, ih, Bool.or_assoc]

theorem evalAnd_eq_allEv (c : Corpus) (qs : List Q) : evalAnd c qs = allEv (evalQ c) qs := by
  induction qs with
  | nil => rfl
  | cons q qs ih => funext d; simp [evalAnd, allEv, ih]

theorem evalOr_eq_anyEv (c : Corpus) (qs : List Q) : evalOr c qs = anyEv (evalQ c) qs := by
  induction qs with
  | nil => rfl
  | cons q qs ih => funext d; simp [evalOr, anyEv, ih]

/-- the loop of `parseOperators`, read with an arbitrary evaluation `ev` of operands that evaluates the
    `And` nodes the loop builds as conjunctions -/
theorem poLoop_sem (ev : Q → DocPred) (hand : ∀ cs d, ev (.and cs) d = allEv ev cs d) :
    ∀ (qs top cur : List Q) (seen : Bool) (top' cur' : List Q) (seen' : Bool),
      poLoop qs top cur seen = .ok (top', cur', seen') →
      ∀ d, anyEv ev (top' ++ [.and cur']) d = (anyEv ev top d || itemsSem ev qs (allEv ev cur) d)
  | [], top, cur, seen, top', cur', seen', h, d => by
    simp only [poLoop, Outcome.ok.injEq, Prod.mk.injEq] at h
    obtain ⟨rfl, rfl, _⟩ := h
    simp [anyEv_append, anyEv, itemsSem, hand]
  | q :: rest, top, cur, seen, top', cur', seen', h, d => by
    unfold poLoop at h
    split at h
    · rename_i hor
      split at h
      · cases h
      · have ih := poLoop_sem ev hand rest _ [] true top' cur' seen' h d
        rw [ih]
        simp [itemsSem, hor, anyEv_append, anyEv, allEv, hand, Bool.or_assoc]
    · rename_i hor
      have ih := poLoop_sem ev hand rest top _ seen top' cur' seen' h d
      rw [ih]
      simp only [itemsSem, hor, Bool.false_eq_true, if_false]
      congr 2
      funext d'
      simp [allEv_append, allEv]

theorem parseOperators_sem (ev : Q → DocPred) (hand : ∀ cs d, ev (.and cs) d = allEv ev cs d)
    (hor : ∀ cs d, ev (.or cs) d = anyEv ev cs d) (qs : List Q) (r : Q) (h : parseOperators qs = .ok r) (d : Nat) :
    ev r d = itemsSem ev qs (fun _ => true) d := by
  unfold parseOperators at h
  cases hp : poLoop qs [] [] false with
  | ok res =>
    obtain ⟨top', cur', seen'⟩ := res
    rw [hp] at h
    simp only [C07.bind_ok] at h
    split at h
    · cases h
    · cases h
      rw [hor, poLoop_sem ev hand qs [] [] false top' cur' seen' hp d]
      simp [anyEv, allEv]
  | err e => rw [hp] at h; cases h
  | panic s => rw [hp] at h; cases h
  | diverge => rw [hp] at h; cases h

/-- evaluation after the enclosing list applied `setCase k` -/
def evalK (c : Corpus) (k : B) (q : Q) : DocPred := evalQ c (setCase k q)

theorem allEv_setCaseList (c : Corpus) (k : B) (cs : List Q) :
    allEv (evalQ c) (setCaseList k cs) = allEv (evalK c k) cs := by
  induction cs with
  | nil => rfl
  | cons q cs ih => funext d; simp [setCaseList, allEv, ih, evalK]

theorem anyEv_setCaseList (c : Corpus) (k : B) (cs : List Q) :
    anyEv (evalQ c) (setCaseList k cs) = anyEv (evalK c k) cs := by
  induction cs with
  | nil => rfl
  | cons q cs ih => funext d; simp [setCaseList, anyEv, ih, evalK]

theorem evalK_and (c : Corpus) (k : B) (cs : List Q) (d : Nat) : evalK c k (.and cs) d = allEv (evalK c k) cs d := by
  simp only [evalK, setCase, evalQ, evalAnd_eq_allEv, allEv_setCaseList]

theorem evalK_or (c : Corpus) (k : B) (cs : List Q) (d : Nat) : evalK c k (.or cs) d = anyEv (evalK c k) cs d := by
  simp only [evalK, setCase, evalQ, evalOr_eq_anyEv, anyEv_setCaseList]

/-! ### `case:` scoping: an enclosing list overrides an inner default, never an explicit inner scope -/

def validK (k : B) : Prop := k = bYes ∨ k = bNo ∨ k = bAuto

theorem setCaseAtom_idem (k k2 : B) (hk : validK k) (q : Q) : setCaseAtom k (setCaseAtom k2 q) = setCaseAtom k q := by
  cases q
  case substr p cs f c s =>
    obtain ⟨cs', h⟩ := setCaseAtom_substr k2 p cs f c s
    rw [h]
    rcases hk with rfl | rfl | rfl <;> simp [setCaseAtom, bYes, bNo, bAuto]
  case regexp r e a cs f c s =>
    obtain ⟨cs', h⟩ := setCaseAtom_regexp k2 r e a cs f c s
    rw [h]
    rcases hk with rfl | rfl | rfl <;> simp [setCaseAtom, bYes, bNo, bAuto]
  all_goals rfl

mutual
/-- an outer `setCase` overrides whatever an inner list set on atoms that are not inside an explicit scope -/
theorem setCase_idem (k k2 : B) (hk : validK k) : ∀ q, setCase k (setCase k2 q) = setCase k q
  | .and cs => by simp only [setCase, setCaseList_idem k k2 hk cs]
  | .or cs => by simp only [setCase, setCaseList_idem k k2 hk cs]
  | .not c => by simp only [setCase, setCase_idem k k2 hk c]
  | .type t c => by simp only [setCase, setCase_idem k k2 hk c]
  | .sym e => by simp only [setCase, setCaseAtom_idem k k2 hk e]
  | .substr .. => by
    simp only [setCase]
    obtain ⟨cs', h⟩ := setCaseAtom_substr k2 _ _ _ _ _
    rw [h]; simp only [setCase]; rw [← h]; exact setCaseAtom_idem k k2 hk _
  | .regexp .. => by
    simp only [setCase]
    obtain ⟨cs', h⟩ := setCaseAtom_regexp k2 _ _ _ _ _ _ _
    rw [h]; simp only [setCase]; rw [← h]; exact setCaseAtom_idem k k2 hk _
  | .nil => by simp [setCase, setCaseAtom]
  | .const _ => by simp [setCase, setCaseAtom]
  | .repo _ => by simp [setCase, setCaseAtom]
  | .rawConfig _ => by simp [setCase, setCaseAtom]
  | .branch _ => by simp [setCase, setCaseAtom]
  | .lang _ => by simp [setCase, setCaseAtom]
  | .metaQ .. => by simp [setCase, setCaseAtom]
  | .caseQ _ => by simp [setCase, setCaseAtom]
  | .orOp => by simp [setCase, setCaseAtom]
  | .caseScope _ => by simp [setCase, setCaseAtom]
theorem setCaseList_idem (k k2 : B) (hk : validK k) : ∀ qs, setCaseList k (setCaseList k2 qs) = setCaseList k qs
  | [] => by simp [setCaseList]
  | q :: qs => by simp only [setCaseList, setCase_idem k k2 hk q, setCaseList_idem k k2 hk qs]
end

/-- an explicitly scoped inner expression is immune to the enclosing list's `setCase` -/
theorem setCase_caseScope (k : B) (q : Q) : setCase k (.caseScope q) = .caseScope q := by
  simp [setCase, setCaseAtom]

/-! ### case:auto on plain literals -/

theorem hasUpper_plain : ∀ t : B, (∀ c ∈ t, c ≠ 92) → hasUpper t = decide (t ≠ toLowerAscii t)
  | [], _ => by simp [hasUpper, toLowerAscii]
  | c :: rest, h => by
    have hc : c ≠ 92 := h c (by simp)
    have ih := hasUpper_plain rest (fun x hx => h x (by simp [hx]))
    unfold hasUpper
    rw [if_neg hc, ih]
    simp only [toLowerAscii, List.map_cons, ne_eq, List.cons.injEq, not_and]
    by_cases hu : 65 ≤ c ∧ c ≤ 90
    · have : c ≠ c - 65 + 97 := by omega
      simp [hu, this]
    · have h1 : (decide (65 ≤ c) && decide (c ≤ 90)) = false := by
        simp only [Bool.and_eq_false_iff, decide_eq_false_iff_not]; omega
      simp [hu, h1]
      exact decide_not

theorem plain_no_backslash (t : B) (h : isPlainLit t = true) : ∀ c ∈ t, c ≠ 92 := by
  simp only [isPlainLit, Bool.and_eq_true, List.all_eq_true] at h
  intro c hc heq
  have := h.2 c hc
  subst heq
  simp [isPlainChar] at this

/-! ### the last steps of `Parse` do not change which documents are selected -/

mutual
theorem evalQ_strip (c : Corpus) : ∀ q, evalQ c (stripCaseScopes q) = evalQ c q
  | .and cs => by simp only [stripCaseScopes, evalQ, evalAnd_strip c cs]
  | .or cs => by simp only [stripCaseScopes, evalQ, evalOr_strip c cs]
  | .not q => by simp only [stripCaseScopes, evalQ, evalQ_strip c q]
  | .type t q => by simp only [stripCaseScopes, evalQ, evalQ_strip c q]
  | .caseScope q => by simp only [stripCaseScopes, evalQ, evalQ_strip c q]
  | .nil => rfl
  | .const _ => rfl
  | .substr .. => rfl
  | .regexp .. => rfl
  | .repo _ => rfl
  | .rawConfig _ => rfl
  | .branch _ => rfl
  | .lang _ => rfl
  | .sym _ => rfl
  | .metaQ .. => rfl
  | .caseQ _ => rfl
  | .orOp => rfl
theorem evalAnd_strip (c : Corpus) : ∀ qs, evalAnd c (stripCaseScopesList qs) = evalAnd c qs
  | [] => rfl
  | q :: qs => by simp only [stripCaseScopesList, evalAnd, evalQ_strip c q, evalAnd_strip c qs]
theorem evalOr_strip (c : Corpus) : ∀ qs, evalOr c (stripCaseScopesList qs) = evalOr c qs
  | [] => rfl
  | q :: qs => by simp only [stripCaseScopesList, evalOr, evalQ_strip c q, evalOr_strip c qs]
end

/-- an empty pattern matches every document (what `evalConstants` assumes when it folds such atoms to TRUE) -/
structure EmptyOK (c : Corpus) : Prop where
  substr : ∀ cs f ct src d, evalQ c (.substr [] cs f ct src) d = true
  regexp : ∀ r a cs f ct src d, evalQ c (.regexp r true a cs f ct src) d = true
  branch : ∀ d, evalQ c (.branch []) d = true

theorem repoLift_const (c : Corpus) (v : Bool) (d : Nat) (hd : d < c.n) : repoLift c (fun _ => v) d = v := by
  cases v with
  | false => simp [repoLift]
  | true =>
    simp only [repoLift, Bool.and_true, List.any_eq_true, List.mem_range]
    exact ⟨d, hd, by simp⟩

theorem foldConsts_sem (c : Corpus) (isAnd : Bool) (d : Nat) : ∀ (cs acc : List Q),
    match foldConsts isAnd cs acc with
    | (some k, _) => (∃ v, k = .const v ∧ v = !isAnd) ∧ (if isAnd then allEv (evalQ c) cs d = false else anyEv (evalQ c) cs d = true)
    | (none, newCH) =>
      (if isAnd then allEv (evalQ c) newCH d = (allEv (evalQ c) acc d && allEv (evalQ c) cs d)
       else anyEv (evalQ c) newCH d = (anyEv (evalQ c) acc d || anyEv (evalQ c) cs d))
  | [], acc => by cases isAnd <;> simp [foldConsts, allEv, anyEv]
  | ch :: rest, acc => by
    have ih1 := foldConsts_sem c isAnd d rest acc
    have ih2 := foldConsts_sem c isAnd d rest (acc ++ [ch])
    unfold foldConsts
    cases hch : isConst ch with
    | some v =>
      have hk : ch = .const v := by cases ch <;> simp_all [isConst]
      subst hk
      simp only
      by_cases hv : v = isAnd
      · rw [if_pos hv]
        revert ih1
        cases foldConsts isAnd rest acc with
        | mk o l =>
          cases o with
          | some k => intro ih1; cases isAnd <;> simp_all [allEv, anyEv, evalQ]
          | none => intro ih1; cases isAnd <;> simp_all [allEv, anyEv, evalQ]
      · rw [if_neg hv]
        cases isAnd <;> cases v <;> simp_all [allEv, anyEv, evalQ]
    | none =>
      simp only
      revert ih2
      cases foldConsts isAnd rest (acc ++ [ch]) with
      | mk o l =>
        cases o with
        | some k => intro ih2; cases isAnd <;> simp_all [allEv, anyEv]
        | none =>
          intro ih2
          cases isAnd <;> simp_all [allEv, anyEv, allEv_append, anyEv_append, Bool.and_assoc, Bool.or_assoc]

theorem evalAndOr_sem (c : Corpus) (isAnd : Bool) (cs : List Q) (d : Nat) :
    evalQ c (evalAndOr isAnd cs) d = (if isAnd then allEv (evalQ c) cs d else anyEv (evalQ c) cs d) := by
  have h := foldConsts_sem c isAnd d cs []
  unfold evalAndOr
  revert h
  cases foldConsts isAnd cs [] with
  | mk o l =>
    cases o with
    | some k =>
      intro h
      obtain ⟨⟨v, rfl, hv⟩, h2⟩ := h
      cases isAnd <;> simp_all [evalQ]
    | none =>
      intro h
      simp only
      cases l with
      | nil => cases isAnd <;> simp_all [evalQ, allEv, anyEv]
      | cons x xs =>
        cases isAnd <;> simp_all [evalQ, allEv, anyEv, evalAnd_eq_allEv, evalOr_eq_anyEv]

theorem repoLift_congr (c : Corpus) (v w : DocPred) (h : ∀ j, j < c.n → v j = w j) (d : Nat) :
    repoLift c v d = repoLift c w d := by
  unfold repoLift
  rw [Bool.eq_iff_iff]
  simp only [List.any_eq_true, List.mem_range]
  constructor
  · rintro ⟨j, hj, hv⟩; exact ⟨j, hj, by rw [← h j hj]; exact hv⟩
  · rintro ⟨j, hj, hv⟩; exact ⟨j, hj, by rw [h j hj]; exact hv⟩

mutual
theorem evalQ_evalConstants (c : Corpus) (he : EmptyOK c) :
    ∀ q, ∀ d, d < c.n → evalQ c (evalConstants q) d = evalQ c q d
  | .and cs => by
    intro d hd
    simp only [evalConstants, evalAndOr_sem, if_true, evalQ, evalAnd_eq_allEv]
    exact allEv_evalConstants c he cs d hd
  | .or cs => by
    intro d hd
    simp only [evalConstants, evalAndOr_sem, Bool.false_eq_true, if_false, evalQ, evalOr_eq_anyEv]
    exact anyEv_evalConstants c he cs d hd
  | .not q => by
    intro d hd
    have ih := evalQ_evalConstants c he q d hd
    simp only [evalConstants]
    split
    · rename_i v hv
      rw [hv] at ih
      simp only [evalQ] at ih ⊢
      rw [← ih]
    · simp only [evalQ, ih]
  | .type t q => by
    intro d hd
    have ih := evalQ_evalConstants c he q
    simp only [evalConstants]
    split
    · rename_i v hv
      rw [hv] at ih
      simp only [evalQ] at ih ⊢
      split
      · rw [← repoLift_congr c (fun _ => v) (evalQ c q) (fun j hj => ih j hj) d, repoLift_const c v d hd]
      · exact ih d hd
    · simp only [evalQ]
      split
      · exact repoLift_congr c _ _ (fun j hj => ih j hj) d
      · exact ih d hd
  | .substr p cs f ct src => by
    intro d hd
    simp only [evalConstants]
    split
    · rename_i hp
      have : p = [] := by simpa using hp
      subst this
      simp only [evalQ]
      exact (he.substr cs f ct src d).symm
    · rfl
  | .regexp r e a cs f ct src => by
    intro d hd
    simp only [evalConstants]
    split
    · rename_i hp
      subst hp
      simp only [evalQ]
      exact (he.regexp r a cs f ct src d).symm
    · rfl
  | .branch p => by
    intro d hd
    simp only [evalConstants]
    split
    · rename_i hp
      have : p = [] := by simpa using hp
      subst this
      simp only [evalQ]
      exact (he.branch d).symm
    · rfl
  | .nil => fun _ _ => rfl
  | .const _ => fun _ _ => rfl
  | .repo _ => fun _ _ => rfl
  | .rawConfig _ => fun _ _ => rfl
  | .lang _ => fun _ _ => rfl
  | .sym _ => fun _ _ => rfl
  | .metaQ .. => fun _ _ => rfl
  | .caseQ _ => fun _ _ => rfl
  | .orOp => fun _ _ => rfl
  | .caseScope _ => fun _ _ => rfl
theorem allEv_evalConstants (c : Corpus) (he : EmptyOK c) :
    ∀ qs, ∀ d, d < c.n → allEv (evalQ c) (evalConstantsList qs) d = allEv (evalQ c) qs d
  | [] => fun _ _ => rfl
  | q :: qs => by
    intro d hd
    simp only [evalConstantsList, allEv, evalQ_evalConstants c he q d hd, allEv_evalConstants c he qs d hd]
theorem anyEv_evalConstants (c : Corpus) (he : EmptyOK c) :
    ∀ qs, ∀ d, d < c.n → anyEv (evalQ c) (evalConstantsList qs) d = anyEv (evalQ c) qs d
  | [] => fun _ _ => rfl
  | q :: qs => by
    intro d hd
    simp only [evalConstantsList, anyEv, evalQ_evalConstants c he q d hd, anyEv_evalConstants c he qs d hd]
end

theorem childrenIf_eval (c : Corpus) {isAnd : Bool} {q : Q} {sub : List Q} (h : childrenIf isAnd q = some sub) (d : Nat) :
    evalQ c q d = (if isAnd then allEv (evalQ c) sub d else anyEv (evalQ c) sub d) := by
  cases q <;> simp only [childrenIf] at h
  case and cs =>
    split at h
    · rename_i hA; cases h; simp [evalQ, evalAnd_eq_allEv, hA]
    · cases h
  case or cs =>
    split at h
    · cases h
    · rename_i hA; cases h; simp [evalQ, evalOr_eq_anyEv, hA]
  all_goals cases h

mutual
theorem evalQ_flatten (c : Corpus) : ∀ q, ∀ d, d < c.n → evalQ c (flatten q).1 d = evalQ c q d
  | .and cs => by
    intro d hd
    have ih := (flattenAndOr_eval c true cs d hd).1 rfl
    unfold flatten
    split
    · simp [evalQ, evalAnd]
    · simp only [evalQ, evalAnd_eq_allEv]
      exact ih
  | .or cs => by
    intro d hd
    have ih := (flattenAndOr_eval c false cs d hd).2 rfl
    unfold flatten
    split
    · simp [evalQ, evalOr]
    · simp only [evalQ, evalOr_eq_anyEv]
      exact ih
  | .not q => by
    intro d hd
    simp only [flatten, evalQ, evalQ_flatten c q d hd]
  | .type t q => by
    intro d hd
    simp only [flatten, evalQ]
    split
    · exact repoLift_congr c _ _ (fun j hj => evalQ_flatten c q j hj) d
    · exact evalQ_flatten c q d hd
  | .nil => fun _ _ => rfl
  | .const _ => fun _ _ => rfl
  | .substr .. => fun _ _ => rfl
  | .regexp .. => fun _ _ => rfl
  | .repo _ => fun _ _ => rfl
  | .rawConfig _ => fun _ _ => rfl
  | .branch _ => fun _ _ => rfl
  | .lang _ => fun _ _ => rfl
  | .sym _ => fun _ _ => rfl
  | .metaQ .. => fun _ _ => rfl
  | .caseQ _ => fun _ _ => rfl
  | .orOp => fun _ _ => rfl
  | .caseScope _ => fun _ _ => rfl
theorem flattenAndOr_eval (c : Corpus) (isAnd : Bool) : ∀ cs, ∀ d, d < c.n →
    (isAnd = true → allEv (evalQ c) (flattenAndOr isAnd cs).1 d = allEv (evalQ c) cs d) ∧
    (isAnd = false → anyEv (evalQ c) (flattenAndOr isAnd cs).1 d = anyEv (evalQ c) cs d)
  | [] => by intro d hd; simp [flattenAndOr]
  | ch :: rest => by
    intro d hd
    have ih1 := evalQ_flatten c ch d hd
    have ih2 := flattenAndOr_eval c isAnd rest d hd
    unfold flattenAndOr
    simp only
    cases hm : childrenIf isAnd (flatten ch).1 with
    | some sub =>
      have hs := childrenIf_eval c hm d
      simp only
      constructor
      · intro hA
        subst hA
        simp only [if_true] at hs
        simp only [allEv_append, allEv, ← ih1, hs, ih2.1 rfl]
      · intro hA
        subst hA
        simp only [Bool.false_eq_true, if_false] at hs
        simp only [anyEv_append, anyEv, ← ih1, hs, ih2.2 rfl]
    | none =>
      simp only
      constructor
      · intro hA; simp only [allEv, ih1, ih2.1 hA]
      · intro hA; simp only [anyEv, ih1, ih2.2 hA]
end

theorem evalQ_flattenLoop (c : Corpus) : ∀ (fuel : Nat) (q r : Q), flattenLoop fuel q = .ok r →
    ∀ d, d < c.n → evalQ c r d = evalQ c q d
  | 0, _, _, h => by simp [flattenLoop] at h
  | fuel + 1, q, r, h => by
    intro d hd
    unfold flattenLoop at h
    simp only at h
    split at h
    · rw [evalQ_flattenLoop c fuel _ r h d hd, evalQ_flatten c q d hd]
    · cases h; exact evalQ_flatten c q d hd

/-- **`Simplify` and `stripCaseScopes` — the last two steps of `Parse` — select the same documents** -/
theorem evalQ_parse_tail (c : Corpus) (he : EmptyOK c) (q r : Q) (h : simplify (stripCaseScopes q) = .ok r) :
    ∀ d, d < c.n → evalQ c r d = evalQ c q d := by
  intro d hd
  unfold simplify at h
  rw [evalQ_flattenLoop c _ _ r h d hd, evalQ_evalConstants c he _ d hd, evalQ_strip]

end ZoektModel.C06
