/-
C06 — lemmas: meaning of `parseOperators`, of `setCase` under nesting, auto-case of plain literals.
-/
import ZoektModel.C06.Spec
import ZoektModel.C07.Lemmas
namespace ZoektModel.C07
def strBytesC06 (s : String) : B := s.toList.map (·.toNat)
end ZoektModel.C07

namespace ZoektModel.C06
open ZoektModel ZoektModel.C07

/-! ### juxtaposition is conjunction, `or` is a lower-precedence disjunction -/

/-- reference reading of a flat operand list with `or` separators, left to right: `cur` is the conjunction
    collected so far for the current alternative -/
def itemsSem (ev : Q → DocPred) : List Q → DocPred → DocPred
  | [], cur => cur
  | q :: rest, cur =>
    if isOrOp q then fun d => cur d || itemsSem ev rest (fun _ => true) d
    else itemsSem ev rest (fun d => cur d && ev q d)

def allEv (ev : Q → DocPred) : List Q → DocPred
  | [] => fun _ => true
  | q :: qs => fun d => ev q d && allEv ev qs d

def anyEv (ev : Q → DocPred) : List Q → DocPred
  | [] => fun _ => false
  | q :: qs => fun d => ev q d || anyEv ev qs d

theorem allEv_append (ev : Q → DocPred) (a b : List Q) (d : Nat) :
    allEv ev (a ++ b) d = (allEv ev a d && allEv ev b d) := by
  induction a with
  | nil => simp [allEv]
  | cons q a ih => simp [allEv, ih, Bool.and_assoc]

theorem anyEv_append (ev : Q → DocPred) (a b : List Q) (d : Nat) :
    anyEv ev (a ++ b) d = (anyEv ev a d || anyEv ev b d) := by
  induction a with
  | nil => simp [anyEv]
  | cons q a ih => simp [anyEv, ih, Bool.or_assoc]

theorem evalAnd_eq_allEv (c : Corpus) (qs : List Q) : evalAnd c qs = allEv (evalQ c) qs := by
  induction qs with
  | nil => rfl
  | cons q qs ih => funext d; simp [evalAnd, allEv, ih]

theorem evalOr_eq_anyEv (c : Corpus) (qs : List Q) : evalOr c qs = anyEv (evalQ c) qs := by
  induction qs with
  | nil => rfl
  | cons q qs ih => funext d; simp [evalOr, anyEv, ih]

/-- the loop of `parseOperators`, read with an arbitrary evaluation `ev` of operands that evaluates the
    `And` nodes the loop builds as conjunctions -/
theorem poLoop_sem (ev : Q → DocPred) (hand : ∀ cs d, ev (.and cs) d = allEv ev cs d) :
    ∀ (qs top cur : List Q) (seen : Bool) (top' cur' : List Q) (seen' : Bool),
      poLoop qs top cur seen = .ok (top', cur', seen') →
      ∀ d, anyEv ev (top' ++ [.and cur']) d = (anyEv ev top d || itemsSem ev qs (allEv ev cur) d)
  | [], top, cur, seen, top', cur', seen', h, d => by
    simp only [poLoop, Outcome.ok.injEq, Prod.mk.injEq] at h
    obtain ⟨rfl, rfl, _⟩ := h
    simp [anyEv_append, anyEv, itemsSem, hand]
  | q :: rest, top, cur, seen, top', cur', seen', h, d => by
    unfold poLoop at h
    split at h
    · rename_i hor
      split at h
      · cases h
      · have ih := poLoop_sem ev hand rest _ [] true top' cur' seen' h d
        rw [ih]
        simp [itemsSem, hor, anyEv_append, anyEv, allEv, hand, Bool.or_assoc]
    · rename_i hor
      have ih := poLoop_sem ev hand rest top _ seen top' cur' seen' h d
      rw [ih]
      simp only [itemsSem, hor, Bool.false_eq_true, if_false]
      congr 2
      funext d'
      simp [allEv_append, allEv]

theorem parseOperators_sem (ev : Q → DocPred) (hand : ∀ cs d, ev (.and cs) d = allEv ev cs d)
    (hor : ∀ cs d, ev (.or cs) d = anyEv ev cs d) (qs : List Q) (r : Q) (h : parseOperators qs = .ok r) (d : Nat) :
    ev r d = itemsSem ev qs (fun _ => true) d := by
  unfold parseOperators at h
  cases hp : poLoop qs [] [] false with
  | ok res =>
    obtain ⟨top', cur', seen'⟩ := res
    rw [hp] at h
    simp only [C07.bind_ok] at h
    split at h
    · cases h
    · cases h
      rw [hor, poLoop_sem ev hand qs [] [] false top' cur' seen' hp d]
      simp [anyEv, allEv]
  | err e => rw [hp] at h; cases h
  | panic s => rw [hp] at h; cases h
  | diverge => rw [hp] at h; cases h

/-- evaluation after the enclosing list applied `setCase k` -/
def evalK (c : Corpus) (k : B) (q : Q) : DocPred := evalQ c (setCase k q)

theorem allEv_setCaseList (c : Corpus) (k : B) (cs : List Q) :
    allEv (evalQ c) (setCaseList k cs) = allEv (evalK c k) cs := by
  induction cs with
  | nil => rfl
  | cons q cs ih => funext d; simp [setCaseList, allEv, ih, evalK]

theorem anyEv_setCaseList (c : Corpus) (k : B) (cs : List Q) :
    anyEv (evalQ c) (setCaseList k cs) = anyEv (evalK c k) cs := by
  induction cs with
  | nil => rfl
  | cons q cs ih => funext d; simp [setCaseList, anyEv, ih, evalK]

theorem evalK_and (c : Corpus) (k : B) (cs : List Q) (d : Nat) : evalK c k (.and cs) d = allEv (evalK c k) cs d := by
  simp only [evalK, setCase, evalQ, evalAnd_eq_allEv, allEv_setCaseList]

theorem evalK_or (c : Corpus) (k : B) (cs : List Q) (d : Nat) : evalK c k (.or cs) d = anyEv (evalK c k) cs d := by
  simp only [evalK, setCase, evalQ, evalOr_eq_anyEv, anyEv_setCaseList]

/-! ### `case:` scoping: an enclosing list overrides an inner default, never an explicit inner scope -/

def validK (k : B) : Prop := k = bYes ∨ k = bNo ∨ k = bAuto

theorem setCaseAtom_idem (k k2 : B) (hk : validK k) (q : Q) : setCaseAtom k (setCaseAtom k2 q) = setCaseAtom k q := by
  cases q
  case substr p cs f c s =>
    obtain ⟨cs', h⟩ := setCaseAtom_substr k2 p cs f c s
    rw [h]
    rcases hk with rfl | rfl | rfl <;> simp [setCaseAtom, bYes, bNo, bAuto]
  case regexp r e a cs f c s =>
    obtain ⟨cs', h⟩ := setCaseAtom_regexp k2 r e a cs f c s
    rw [h]
    rcases hk with rfl | rfl | rfl <;> simp [setCaseAtom, bYes, bNo, bAuto]
  all_goals rfl

mutual
/-- an outer `setCase` overrides whatever an inner list set on atoms that are not inside an explicit scope -/
theorem setCase_idem (k k2 : B) (hk : validK k) : ∀ q, setCase k (setCase k2 q) = setCase k q
  | .and cs => by simp only [setCase, setCaseList_idem k k2 hk cs]
  | .or cs => by simp only [setCase, setCaseList_idem k k2 hk cs]
  | .not c => by simp only [setCase, setCase_idem k k2 hk c]
  | .type t c => by simp only [setCase, setCase_idem k k2 hk c]
  | .sym e => by simp only [setCase, setCaseAtom_idem k k2 hk e]
  | .substr .. => by
    simp only [setCase]
    obtain ⟨cs', h⟩ := setCaseAtom_substr k2 _ _ _ _ _
    rw [h]; simp only [setCase]; rw [← h]; exact setCaseAtom_idem k k2 hk _
  | .regexp .. => by
    simp only [setCase]
    obtain ⟨cs', h⟩ := setCaseAtom_regexp k2 _ _ _ _ _ _ _
    rw [h]; simp only [setCase]; rw [← h]; exact setCaseAtom_idem k k2 hk _
  | .nil => by simp [setCase, setCaseAtom]
  | .const _ => by simp [setCase, setCaseAtom]
  | .repo _ => by simp [setCase, setCaseAtom]
  | .rawConfig _ => by simp [setCase, setCaseAtom]
  | .branch _ => by simp [setCase, setCaseAtom]
  | .lang _ => by simp [setCase, setCaseAtom]
  | .metaQ .. => by simp [setCase, setCaseAtom]
  | .caseQ _ => by simp [setCase, setCaseAtom]
  | .orOp => by simp [setCase, setCaseAtom]
  | .caseScope _ => by simp [setCase, setCaseAtom]
theorem setCaseList_idem (k k2 : B) (hk : validK k) : ∀ qs, setCaseList k (setCaseList k2 qs) = setCaseList k qs
  | [] => by simp [setCaseList]
  | q :: qs => by simp only [setCaseList, setCase_idem k k2 hk q, setCaseList_idem k k2 hk qs]
end

/-- an explicitly scoped inner expression is immune to the enclosing list's `setCase` -/
theorem setCase_caseScope (k : B) (q : Q) : setCase k (.caseScope q) = .caseScope q := by
  simp [setCase, setCaseAtom]

/-! ### case:auto on plain literals -/

theorem hasUpper_plain : ∀ t : B, (∀ c ∈ t, c ≠ 92) → hasUpper t = decide (t ≠ toLowerAscii t)
  | [], _ => by simp [hasUpper, toLowerAscii]
  | c :: rest, h => by
    have hc : c ≠ 92 := h c (by simp)
    have ih := hasUpper_plain rest (fun x hx => h x (by simp [hx]))
    unfold hasUpper
    rw [if_neg hc, ih]
    simp only [toLowerAscii, List.map_cons, ne_eq, List.cons.injEq, not_and]
    by_cases hu : 65 ≤ c ∧ c ≤ 90
    · have : c ≠ c - 65 + 97 := by omega
      simp [hu, this]
    · have h1 : (decide (65 ≤ c) && decide (c ≤ 90)) = false := by
        simp only [Bool.and_eq_false_iff, decide_eq_false_iff_not]; omega
      simp [hu, h1]
      exact decide_not

theorem plain_no_backslash (t : B) (h : isPlainLit t = true) : ∀ c ∈ t, c ≠ 92 := by
  simp only [isPlainLit, Bool.and_eq_true, List.all_eq_true] at h
  intro c hc heq
  have := h.2 c hc
  subst heq
  simp [isPlainChar] at this

end ZoektModel.C06
