/-
C06 — the documented query language as a data type, its concrete syntax (`render`), and an evaluator for parsed
query trees over a finite corpus.

* `Qy`/`Cj`/`E` mirror the EBNF at the end of doc/query_syntax.md:
    query = conjunction {"or" conjunction};  conjunction = expression {expression};
    expression = ["-"] (grouping | text | field);  grouping = "(" query ")".
  Spelling choices that the documentation allows (alias of a field, quoting of a value, blanks inside
  parentheses) are part of the tree, so that `render` is a function.
* `evalQ` evaluates a `C07.Q` (what the parser model returns) on a corpus, given the truth of every atom on
  every document (`Corpus.truth`), which the harness computes with Go's `regexp` and plain string functions.
The parser itself is the port in ZoektModel/C07/Model.lean.
-/
import ZoektModel.C07.Model
namespace ZoektModel.C06
open ZoektModel ZoektModel.C07

/-- fields of the documentation's table (`text` = a bare search pattern) -/
inductive Field where
  | text | content | file | regex | repo | sym | branch | lang | archived | fork | pub | metaF
  deriving Repr, DecidableEq, Inhabited

mutual
inductive E where
  /-- `alias` selects the spelling of the field (0 = long form, 1 = documented alias);
      `quoted` = the value is written as a double-quoted string; `name` = metadata field name (meta only) -/
  | atom (f : Field) (aliasIx : Nat) (quoted : Bool) (text : B) (name : B)
  | caseD (flavor : Nat)                 -- 0 yes, 1 no, 2 auto
  | typeD (aliasIx : Nat) (val : Nat)    -- 0 filematch, 1 filename, 2 file, 3 repo
  | neg (e : E)
  | grp (padL padR : Bool) (q : Qy)
inductive Cj where
  | one (e : E)
  | cons (e : E) (rest : Cj)
inductive Qy where
  | one (c : Cj)
  | or (c : Cj) (rest : Qy)
end

/-! ## concrete syntax -/

def fieldPrefix (f : Field) (aliasIx : Nat) (name : B) : B :=
  match f, aliasIx with
  | .text, _ => []
  | .content, 0 => [99,111,110,116,101,110,116,58]   -- content:
  | .content, _ => [99,58]                            -- c:
  | .file, 0 => [102,105,108,101,58]                  -- file:
  | .file, _ => [102,58]                              -- f:
  | .regex, _ => [114,101,103,101,120,58]             -- regex:
  | .repo, 0 => [114,101,112,111,58]                  -- repo:
  | .repo, _ => [114,58]                              -- r:
  | .sym, _ => [115,121,109,58]                       -- sym:
  | .branch, 0 => [98,114,97,110,99,104,58]           -- branch:
  | .branch, _ => [98,58]                             -- b:
  | .lang, _ => [108,97,110,103,58]                   -- lang:
  | .archived, _ => [97,114,99,104,105,118,101,100,58] -- archived:
  | .fork, _ => [102,111,114,107,58]                  -- fork:
  | .pub, _ => [112,117,98,108,105,99,58]             -- public:
  | .metaF, _ => [109,101,116,97,46] ++ name ++ [58]  -- meta.<name>:

/-- inside a quoted value a backslash escapes the next character: `"` and `\` are written `\"` and `\\` -/
def escapeQuoted : B → B
  | [] => []
  | c :: rest => if c = 34 ∨ c = 92 then 92 :: c :: escapeQuoted rest else c :: escapeQuoted rest

def quote (t : B) : B := 34 :: (escapeQuoted t ++ [34])

def caseWord : Nat → B
  | 0 => bYes | 1 => bNo | _ => bAuto

def typeWord : Nat → B
  | 0 => bFilematch | 1 => bFilename | 2 => bFile | _ => bRepo

mutual
def renderE : E → B
  | .atom f a q t n => fieldPrefix f a n ++ (if q then quote t else t)
  | .caseD fl => [99,97,115,101,58] ++ caseWord fl
  | .typeD a v => (if a = 0 then [116,121,112,101,58] else [116,58]) ++ typeWord v
  | .neg e => 45 :: renderE e
  | .grp pl pr q => [40] ++ (if pl then [32] else []) ++ renderQ q ++ (if pr then [32] else []) ++ [41]
def renderC : Cj → B
  | .one e => renderE e
  | .cons e r => renderE e ++ [32] ++ renderC r
def renderQ : Qy → B
  | .one c => renderC c
  | .or c r => renderC c ++ [32,111,114,32] ++ renderQ r
end

/-! ## corpora and atom truth -/

/-- what an atom asks of a document: `kind` ∈ t(ext: name or content) c(ontent) f(ile name) s(ymbol) r(epo)
    b(ranch) l(anguage) m(eta) k(raw config flags, `text` = decimal) -/
structure AtomKey where
  kind : Nat        -- the ASCII code of the letter above
  text : B
  name : B := []
  deriving Repr, DecidableEq, BEq

structure TruthRow where
  key : AtomKey
  cs : List Bool    -- per document, case-sensitive reading
  ci : List Bool    -- per document, case-insensitive reading

structure Corpus where
  repoOf : List Nat           -- repository index of each document
  rows : List TruthRow

/-- a set of documents, as a predicate on the document index -/
abbrev DocPred := Nat → Bool

def Corpus.n (c : Corpus) : Nat := c.repoOf.length

def Corpus.row (c : Corpus) (k : AtomKey) : Option TruthRow := c.rows.find? (fun r => r.key == k)

/-- truth of an atom on document `d` (a key the harness did not supply is false everywhere; `hasKey` tells) -/
def Corpus.truth (c : Corpus) (k : AtomKey) (caseSensitive : Bool) : DocPred := fun d =>
  match c.row k with
  | some r => (if caseSensitive then r.cs else r.ci).getD d false
  | none => false

def Corpus.hasKey (c : Corpus) (k : AtomKey) : Bool := (c.row k).isSome

/-- `type:repo`: a document is selected iff some document of the same repository is -/
def repoLift (c : Corpus) (v : DocPred) : DocPred := fun d =>
  (List.range c.n).any fun j => c.repoOf.getD j 0 == c.repoOf.getD d 0 && v j

def natToDec (n : Nat) : B := (toString n).toList.map (·.toNat)

/-- the key of a parsed text atom: FileName / Content flags select the scope -/
def scopeKind (file content : Bool) : Nat := if file then 102 else if content then 99 else 116

/-- key and case flag of a `Substring`/`Regexp` node -/
def atomKeyOf (kindOverride : Option Nat) : Q → Option (AtomKey × Bool)
  | .substr _ cs f ct src => some (⟨kindOverride.getD (scopeKind f ct), src, []⟩, cs)
  | .regexp _ _ _ cs f ct src => some (⟨kindOverride.getD (scopeKind f ct), src, []⟩, cs)
  | _ => none

def atomPred (c : Corpus) (kindOverride : Option Nat) (q : Q) : DocPred :=
  match atomKeyOf kindOverride q with
  | some (k, cs) => c.truth k cs
  | none => fun _ => false

mutual
/-- which documents a query tree selects. Parse-time `caseScopeQ` wrappers are transparent; a nil child, a bare
    `caseQ` or `orOperator` select nothing (the parser never returns them: `C07.parse_output_kinds`). -/
def evalQ (c : Corpus) : Q → DocPred
  | .and cs => evalAnd c cs
  | .or cs => evalOr c cs
  | .not q => fun d => !(evalQ c q d)
  | .type t q => if t = 2 then repoLift c (evalQ c q) else evalQ c q
  | .caseScope q => evalQ c q
  | .const v => fun _ => v
  | .substr p cs f ct src => atomPred c none (.substr p cs f ct src)
  | .regexp r e a cs f ct src => atomPred c none (.regexp r e a cs f ct src)
  | .sym e => atomPred c (some 115) e
  | .repo r => c.truth ⟨114, r, []⟩ true
  | .rawConfig n => c.truth ⟨107, natToDec n, []⟩ true
  | .branch p => c.truth ⟨98, p, []⟩ true
  | .lang n => c.truth ⟨108, n, []⟩ true
  | .metaQ f v => c.truth ⟨109, v, f⟩ true
  | _ => fun _ => false
def evalAnd (c : Corpus) : List Q → DocPred
  | [] => fun _ => true
  | q :: qs => fun d => evalQ c q d && evalAnd c qs d
def evalOr (c : Corpus) : List Q → DocPred
  | [] => fun _ => false
  | q :: qs => fun d => evalQ c q d || evalOr c qs d
end

mutual
/-- does the corpus supply every atom the tree asks about? (driver only) -/
def keysPresent (c : Corpus) : Q → Bool
  | .and cs => keysPresentList c cs
  | .or cs => keysPresentList c cs
  | .not q => keysPresent c q
  | .type _ q => keysPresent c q
  | .caseScope q => keysPresent c q
  | .const _ => true
  | .substr p cs f ct src => c.hasKey ⟨scopeKind f ct, src, []⟩
  | .regexp r e a cs f ct src => c.hasKey ⟨scopeKind f ct, src, []⟩
  | .sym e => match atomKeyOf (some 115) e with
    | some (k, _) => c.hasKey k
    | none => false
  | .repo r => c.hasKey ⟨114, r, []⟩
  | .rawConfig n => c.hasKey ⟨107, natToDec n, []⟩
  | .branch p => c.hasKey ⟨98, p, []⟩
  | .lang n => c.hasKey ⟨108, n, []⟩
  | .metaQ f v => c.hasKey ⟨109, v, f⟩
  | _ => false
def keysPresentList (c : Corpus) : List Q → Bool
  | [] => true
  | q :: qs => keysPresent c q && keysPresentList c qs
end

def showPred (c : Corpus) (p : DocPred) : String :=
  if c.n = 0 then "-" else String.ofList ((List.range c.n).map fun d => if p d then '1' else '0')

end ZoektModel.C06
