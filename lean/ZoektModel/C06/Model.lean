/-
C06 — the documented query language as a data type, its concrete syntax (`render`), and an evaluator for parsed
query trees over a finite corpus.

* `Qy`/`Cj`/`E` mirror the EBNF at the end of doc/query_syntax.md:
    query = conjunction {"or" conjunction};  conjunction = expression {expression};
    expression = ["-"] (grouping | text | field);  grouping = "(" query ")".
  Spelling choices that the documentation allows (alias of a field, quoting of a value, blanks inside
  parentheses) are part of the tree, so that `render` is a function.
* `evalQ` evaluates a `C07.Q` (what the parser model returns) on a corpus, given the truth of every atom on
  every document (`Corpus.truth`), which the harness computes with Go's `regexp` and plain string functions.
The parser itself is the port in ZoektModel/C07/Model.lean.
-/
import ZoektModel.C07.Model
namespace ZoektModel.C06
open ZoektModel ZoektModel.C07

/-- fields of the documentation's table (`text` = a bare search pattern) -/
inductive Field where
  | text | content | file | regex | repo | sym | branch | lang | archived | fork | pub | metaF
  deriving Repr, DecidableEq, Inhabited

mutual
inductive E where
  /-- `alias` selects the spelling of the field (0 = long form, 1 = documented alias);
      `quoted` = the value is written as a double-quoted string; `name` = metadata field name (meta only) -/
  | atom (f : Field) (aliasIx : Nat) (quoted : Bool) (text : B) (name : B)
  | caseD (flavor : Nat)                 -- 0 yes, 1 no, 2 auto
  | typeD (aliasIx : Nat) (val : Nat)    -- 0 filematch, 1 filename, 2 file, 3 repo
  | neg (e : E)
  | grp (padL padR : Bool) (q : Qy)
inductive Cj where
  | one (e : E)
  | cons (e : E) (rest : Cj)
inductive Qy where
  | one (c : Cj)
  | or (c : Cj) (rest : Qy)
end

/-! ## concrete syntax -/

def fieldPrefix (f : Field) (aliasIx : Nat) (name : B) : B :=
  match f, aliasIx with
  | .text, _ => []
  | .content, 0 => [99,111,110,116,101,110,116,58]   -- content:
  | .content, _ => [99,58]                            -- c:
  | .file, 0 => [102,105,108,101,58]                  -- file:
  | .file, _ => [102,58]                              -- f:
  | .regex, _ => [114,101,103,101,120,58]             -- regex:
  | .repo, 0 => [114,101,112,111,58]                  -- repo:
  | .repo, _ => [114,58]                              -- r:
  | .sym, _ => [115,121,109,58]                       -- sym:
  | .branch, 0 => [98,114,97,110,99,104,58]           -- branch:
  | .branch, _ => [98,58]                             -- b:
  | .lang, _ => [108,97,110,103,58]                   -- lang:
  | .archived, _ => [97,114,99,104,105,118,101,100,58] -- archived:
  | .fork, _ => [102,111,114,107,58]                  -- fork:
  | .pub, _ => [112,117,98,108,105,99,58]             -- public:
  | .metaF, _ => [109,101,116,97,46] ++ name ++ [58]  -- meta.<name>:

/-- inside a quoted value a backslash escapes the next character: `"` and `\` are written `\"` and `\\` -/
def escapeQuoted : B → B
  | [] => []
  | c :: rest => if c = 34 ∨ c = 92 then 92 :: c :: escapeQuoted rest else c :: escapeQuoted rest

def quote (t : B) : B := 34 :: (escapeQuoted t ++ [34])

def caseWord : Nat → B
  | 0 => bYes | 1 => bNo | _ => bAuto

def typeWord : Nat → B
  | 0 => bFilematch | 1 => bFilename | 2 => bFile | _ => bRepo

mutual
def renderE : E → B
  | .atom f a q t n => fieldPrefix f a n ++ (if q then quote t else t)
  | .caseD fl => [99,97,115,101,58] ++ caseWord fl
  | .typeD a v => (if a = 0 then [116,121,112,101,58] else [116,58]) ++ typeWord v
  | .neg e => 45 :: renderE e
  | .grp pl pr q => [40] ++ (if pl then [32] else []) ++ renderQ q ++ (if pr then [32] else []) ++ [41]
def renderC : Cj → B
  | .one e => renderE e
  | .cons e r => renderE e ++ [32] ++ renderC r
def renderQ : Qy → B
  | .one c => renderC c
  | .or c r => renderC c ++ [32,111,114,32] ++ renderQ r
end

/-! ## corpora and atom truth -/

/-- what an atom asks of a document: `kind` ∈ t(ext: name or content) c(ontent) f(ile name) s(ymbol) r(epo)
    b(ranch) l(anguage) m(eta) k(raw config flags, `text` = decimal) -/
structure AtomKey where
  kind : Nat        -- the ASCII code of the letter above
  text : B
  name : B := []
  deriving Repr, DecidableEq, BEq

structure TruthRow where
  key : AtomKey
  cs : List Bool    -- per document, case-sensitive reading
  ci : List Bool    -- per document, case-insensitive reading

structure Corpus where
  repoOf : List Nat           -- repository index of each document
  rows : List TruthRow

abbrev Bits := List Bool

def Corpus.n (c : Corpus) : Nat := c.repoOf.length
def allB (c : Corpus) (v : Bool) : Bits := List.replicate c.n v

/-- truth of an atom on every document; a key the harness did not supply is `none` -/
def Corpus.truth (c : Corpus) (k : AtomKey) (caseSensitive : Bool) : Option Bits :=
  match c.rows.find? (fun r => r.key == k) with
  | some r => some (if caseSensitive then r.cs else r.ci)
  | none => none

def andB (a b : Bits) : Bits := List.zipWith (· && ·) a b
def orB (a b : Bits) : Bits := List.zipWith (· || ·) a b
def notB (a : Bits) : Bits := a.map (!·)

/-- `type:repo`: a document is selected iff some document of the same repository is -/
def repoLift (c : Corpus) (v : Bits) : Bits :=
  c.repoOf.map fun r => (c.repoOf.zip v).any fun p => p.1 == r && p.2

def natToDec (n : Nat) : B := (toString n).toList.map (·.toNat)

/-- the key of a parsed text atom: FileName / Content flags select the scope -/
def scopeKind (file content : Bool) : Nat := if file then 102 else if content then 99 else 116

/-- truth of a `Substring`/`Regexp` node (as an atom of kind `kind`) -/
def atomBits (c : Corpus) (kindOverride : Option Nat) : Q → Option Bits
  | .substr _ cs f ct src => c.truth ⟨kindOverride.getD (scopeKind f ct), src, []⟩ cs
  | .regexp _ _ _ cs f ct src => c.truth ⟨kindOverride.getD (scopeKind f ct), src, []⟩ cs
  | _ => none

mutual
/-- which documents a parsed query selects; `none` = it needs an atom the harness did not supply, or contains a
    node that has no meaning as a document filter (nil, parse-time nodes) -/
def evalQ (c : Corpus) : Q → Option Bits
  | .and cs => evalAnd c cs
  | .or cs => evalOr c cs
  | .not q => (evalQ c q).map notB
  | .type t q => (evalQ c q).map fun v => if t = 2 then repoLift c v else v
  | .const v => some (allB c v)
  | .substr p cs f ct src => atomBits c none (.substr p cs f ct src)
  | .regexp r e a cs f ct src => atomBits c none (.regexp r e a cs f ct src)
  | .sym e => atomBits c (some 115) e
  | .repo r => c.truth ⟨114, r, []⟩ true
  | .rawConfig n => c.truth ⟨107, natToDec n, []⟩ true
  | .branch p => c.truth ⟨98, p, []⟩ true
  | .lang n => c.truth ⟨108, n, []⟩ true
  | .metaQ f v => c.truth ⟨109, v, f⟩ true
  | _ => none
def evalAnd (c : Corpus) : List Q → Option Bits
  | [] => some (allB c true)
  | q :: qs => match evalQ c q, evalAnd c qs with
    | some a, some b => some (andB a b)
    | _, _ => none
def evalOr (c : Corpus) : List Q → Option Bits
  | [] => some (allB c false)
  | q :: qs => match evalQ c q, evalOr c qs with
    | some a, some b => some (orB a b)
    | _, _ => none
end

end ZoektModel.C06
