/-
C06 — the tokenizer and the parser read a rendered grammar tree back (`render` round trip).

* `nextToken_word`: a rendered leaf — field prefix followed by an unquoted value of plain bytes and backslash
  escapes, or by the
  documented quoted form of any value — is one token whose text is prefix ++ value and whose input is exactly the
  rendering, whatever follows it (end of input, a blank or a closing parenthesis);
* `setType` then gives it the token kind of its field and strips the prefix (`token_roundtrip_*`);
* `parser_roundtrip`: `parseExpr` / the loop of `parseExprList` on the rendering of an expression / a query return
  exactly the items `itemE` / `itemsQ` (C06/Spec.lean) say they should, consuming exactly the rendering.
-/
import ZoektModel.C06.Lemmas
namespace ZoektModel.C06
open ZoektModel ZoektModel.C07

/-! ### small facts about slices -/

theorem sliceFrom_append (site : String) (a b : B) : sliceFrom site (a ++ b) a.length = .ok b := by
  simp [sliceFrom]

theorem sliceTo_append (site : String) (a b : B) : sliceTo site (a ++ b) a.length = .ok a := by
  simp [sliceTo]

theorem subLen_append (site : String) (a b : B) : subLen site (a ++ b) b = .ok a.length := by
  simp [subLen]

/-! ### the tokenizer on a word -/

/-- what may follow a rendered leaf: the end of the input, a blank, or a closing parenthesis -/
def followOK : B → Bool
  | [] => true
  | c :: _ => c == 32 || c == 41

theorem ntLoop_stop (fuel : Nat) (rest text : B) (hf : followOK rest = true) (ht : text ≠ []) :
    ntLoop (fuel + 1) rest 0 text = .ok (rest, text, false) := by
  unfold ntLoop
  cases rest with
  | nil => rfl
  | cons c r =>
    simp only [followOK, Bool.or_eq_true, beq_iff_eq] at hf
    rcases hf with rfl | rfl
    · simp
    · have : text.isEmpty = false := by cases text <;> simp_all
      simp [this]

/-- `parseStringLiteral` reads the documented quoted form back, whatever follows -/
theorem pslLoop_escapeQuoted' : ∀ (t lit rest : B), pslLoop (escapeQuoted t ++ 34 :: rest) lit = .ok (lit ++ t, rest)
  | [], lit, rest => by
    simp only [escapeQuoted, List.nil_append, List.append_nil]
    unfold pslLoop
    simp
  | c :: t, lit, rest => by
    unfold escapeQuoted
    split
    · have ih := pslLoop_escapeQuoted' t (lit ++ [c]) rest
      simp only [List.cons_append]
      unfold pslLoop
      simp only [show (92 : Nat) ≠ 34 by decide, if_false, if_true]
      rw [ih]; simp
    · rename_i h
      have ih := pslLoop_escapeQuoted' t (lit ++ [c]) rest
      simp only [not_or] at h
      simp only [List.cons_append]
      unfold pslLoop
      simp only [h.1, h.2, if_false]
      rw [ih]; simp

theorem parseStringLiteral_quote (t rest : B) :
    parseStringLiteral (quote t ++ rest) = .ok (t, (quote t).length) := by
  unfold parseStringLiteral quote
  simp only [List.cons_append, List.append_assoc, sliceFrom, List.length_cons, Nat.le_add_left, if_true, C07.bind_ok,
    List.drop_succ_cons, List.drop_zero]
  simp only [List.nil_append]
  rw [pslLoop_escapeQuoted' t [] rest]
  simp only [C07.bind_ok, subLen, List.nil_append]
  rw [if_pos (by simp; omega)]
  simp only [C07.bind_ok, List.length_cons, List.length_append]
  congr 2
  simp; omega

mutual
/-- scanning an unquoted value the way the tokenizer's loop does, `d` = open parentheses: plain bytes, backslash
    escapes (`\` followed by any byte), and parentheses as long as none closes below depth 0; `none` = the loop
    would stop or fail inside the value -/
def escScan : B → Nat → Option Nat
  | [], d => some d
  | c :: r, d =>
    if c = 92 then escScanTail r d
    else if c = 40 then escScan r (d + 1)
    else if c = 41 then (if d = 0 then none else escScan r (d - 1))
    else if isDflt c then escScan r d else none
/-- after a backslash: some byte must follow -/
def escScanTail : B → Nat → Option Nat
  | [], _ => none
  | _ :: r2, d => escScan r2 d
end

/-- unquoted values the tokenizer reads as one word: plain bytes (no blank, no quote), backslash escapes, and
    balanced parentheses -/
def escPlain (t : B) : Bool := escScan t 0 == some 0

mutual
/-- number of escape pairs (each costs the tokenizer's loop one turn for two bytes) -/
def escCount : B → Nat
  | [] => 0
  | c :: r => if c = 92 then escCountTail r else escCount r
def escCountTail : B → Nat
  | [] => 0
  | _ :: r2 => 1 + escCount r2
end

theorem dflt_ne_92 {c : Nat} (hc : isDflt c = true) : c ≠ 92 := by
  intro h0; subst h0; simp [isDflt] at hc
theorem dflt_ne_40 {c : Nat} (hc : isDflt c = true) : c ≠ 40 := by
  intro h0; subst h0; simp [isDflt] at hc
theorem dflt_ne_41 {c : Nat} (hc : isDflt c = true) : c ≠ 41 := by
  intro h0; subst h0; simp [isDflt] at hc

theorem escScan_dflt : ∀ (P t : B) (d : Nat), (∀ c ∈ P, isDflt c = true) → escScan (P ++ t) d = escScan t d
  | [], t, d, _ => rfl
  | c :: r, t, d, h => by
    have hc := h c (by simp)
    simp only [List.cons_append, escScan, dflt_ne_92 hc, dflt_ne_40 hc, dflt_ne_41 hc, if_false, hc, if_true]
    exact escScan_dflt r t d (fun x hx => h x (by simp [hx]))

theorem escPlain_of_dflt (t : B) (h : ∀ c ∈ t, isDflt c = true) : escPlain t = true := by
  have := escScan_dflt t [] 0 h
  simp only [List.append_nil] at this
  simp [escPlain, this, escScan]

theorem escPlain_append_dflt (P t : B) (hP : ∀ c ∈ P, isDflt c = true) (ht : escPlain t = true) :
    escPlain (P ++ t) = true := by
  simp only [escPlain, escScan_dflt P t 0 hP]
  exact ht

theorem escPlain_head {c : Nat} {r : B} (h : escPlain (c :: r) = true) : c = 92 ∨ c = 40 ∨ isDflt c = true := by
  by_cases h92 : c = 92
  · exact Or.inl h92
  · by_cases h40 : c = 40
    · exact Or.inr (Or.inl h40)
    · right; right
      simp only [escPlain, escScan, h92, h40, if_false] at h
      by_cases h41 : c = 41
      · simp [h41] at h
      · simp only [h41, if_false] at h
        cases hd : isDflt c with
        | true => rfl
        | false => simp [hd] at h

/-- the tokenizer's loop copies such a word unchanged and keeps count of its parentheses -/
theorem ntLoop_esc : ∀ (w rest : B) (fuel pc pc' : Nat) (text : B), escScan w pc = some pc' →
    ntLoop (fuel + w.length) (w ++ rest) pc text = ntLoop (fuel + escCount w) rest pc' (text ++ w)
  | [], rest, fuel, pc, pc', text, h => by
    simp only [escScan, Option.some.injEq] at h
    subst h
    simp [escCount]
  | c :: r, rest, fuel, pc, pc', text, h => by
    by_cases h92 : c = 92
    · subst h92
      cases r with
      | nil => simp [escScan, escScanTail] at h
      | cons c2 r2 =>
        have h2 : escScan r2 pc = some pc' := by simpa [escScan, escScanTail] using h
        have hf : fuel + (92 :: c2 :: r2).length = ((fuel + 1) + r2.length) + 1 := by simp; omega
        rw [hf]
        simp only [List.cons_append]
        conv => lhs; unfold ntLoop
        simp only [show (92 : Nat) ≠ 40 by decide, show (92 : Nat) ≠ 41 by decide, show (92 : Nat) ≠ 34 by decide,
          if_false, if_true]
        rw [ntLoop_esc r2 rest (fuel + 1) pc pc' (text ++ [92, c2]) h2]
        have : fuel + 1 + escCount r2 = fuel + escCount (92 :: c2 :: r2) := by simp [escCount, escCountTail]; omega
        rw [this]
        simp
    · have hf : fuel + (c :: r).length = (fuel + r.length) + 1 := by simp; omega
      rw [hf, List.cons_append]
      simp only [escScan, h92, if_false] at h
      by_cases h40 : c = 40
      · subst h40
        simp only [if_true] at h
        conv => lhs; unfold ntLoop
        simp only [if_true]
        rw [ntLoop_esc r rest fuel (pc + 1) pc' (text ++ [40]) h]
        simp [escCount]
      · simp only [h40, if_false] at h
        by_cases h41 : c = 41
        · subst h41
          simp only [if_true] at h
          by_cases hd : pc = 0
          · simp [hd] at h
          · simp only [hd, if_false] at h
            conv => lhs; unfold ntLoop
            simp only [show (41 : Nat) ≠ 40 by decide, if_false, if_true, hd]
            rw [ntLoop_esc r rest fuel (pc - 1) pc' (text ++ [41]) h]
            simp [escCount]
        · simp only [h41, if_false] at h
          cases hc : isDflt c with
          | false => simp [hc] at h
          | true =>
            simp only [hc, if_true] at h
            have hc' := hc
            simp [isDflt] at hc'
            obtain ⟨⟨⟨⟨⟨⟨h1, h2⟩, h3⟩, h4⟩, h5⟩, h6⟩, h7⟩ := hc'
            conv => lhs; unfold ntLoop
            simp [h1, h2, h3, h4, h5, h6, h7]
            rw [ntLoop_esc r rest fuel pc pc' (text ++ [c]) h]
            simp [escCount, h92]
termination_by w => w.length

/-- the value part of a rendered leaf: the text itself (plain bytes, backslash escapes, balanced parentheses) or
    its quoted form -/
def ValueOK (V t : B) : Prop := (V = t ∧ escPlain t = true) ∨ V = quote t

/-- the tokenizer's loop on `P ++ V ++ rest`: it copies the prefix, reads the value, and stops at `rest` -/
theorem ntLoop_word (P V t rest : B) (hP : ∀ c ∈ P, isDflt c = true) (hV : ValueOK V t) (hne : P ++ t ≠ [])
    (hf : followOK rest = true) :
    ntLoop ((P ++ V ++ rest).length + 1) (P ++ V ++ rest) 0 [] = .ok (rest, P ++ t, false) := by
  rcases hV with ⟨rfl, ht⟩ | rfl
  · have hw : escScan (P ++ V) 0 = some 0 := by
      have := escPlain_append_dflt P V hP ht
      simpa [escPlain] using this
    have hl : (P ++ V ++ rest).length + 1 = (rest.length + 1) + (P ++ V).length := by simp; omega
    rw [hl, ntLoop_esc (P ++ V) rest (rest.length + 1) 0 0 [] hw]
    have hf2 : rest.length + 1 + escCount (P ++ V) = (rest.length + escCount (P ++ V)) + 1 := by omega
    rw [hf2]
    simpa using ntLoop_stop _ rest (P ++ V) hf hne
  · have hl : (P ++ quote t ++ rest).length + 1 = ((quote t ++ rest).length + 1) + P.length := by simp; omega
    rw [hl, List.append_assoc, ntLoop_plain P (quote t ++ rest) _ 0 [] hP]
    simp only [List.nil_append]
    unfold ntLoop
    have hq : quote t ++ rest = 34 :: (escapeQuoted t ++ [34] ++ rest) := by simp [quote]
    rw [hq]
    simp only [show (34 : Nat) ≠ 40 by decide, show (34 : Nat) ≠ 41 by decide, if_false, if_true]
    rw [← hq, parseStringLiteral_quote t rest]
    simp only [C07.bind_ok, sliceFrom_append]
    have hlen : (quote t ++ rest).length = rest.length + (quote t).length := by simp; omega
    rw [hlen]
    have : rest.length + (quote t).length = (rest.length + ((quote t).length - 1)) + 1 := by simp [quote]; omega
    rw [this]
    exact ntLoop_stop _ rest (P ++ t) hf hne

/-- **token round trip, first half**: a rendered leaf is one token with text `P ++ t` and input `P ++ V` -/
theorem nextToken_word (P V t rest : B) (hP : ∀ c ∈ P, isDflt c = true) (hV : ValueOK V t) (hne : P ++ t ≠ [])
    (hhead : (P ++ V).head? ≠ some 45) (hf : followOK rest = true) :
    nextToken (P ++ V ++ rest) = (setType ⟨tokText, P ++ t, P ++ V⟩).bind fun tk => .ok (some tk) := by
  have hrun := ntLoop_word P V t rest hP hV hne hf
  have hPV : P ++ V ≠ [] := by
    rcases hV with ⟨rfl, _⟩ | rfl
    · exact hne
    · simp [quote]
  unfold nextToken
  cases hinp : P ++ V ++ rest with
  | nil => exact absurd (List.append_eq_nil_iff.mp hinp).1 hPV
  | cons c0 r0 =>
    have hc0 : (P ++ V).head? = some c0 := by
      cases hpv : P ++ V with
      | nil => exact absurd hpv hPV
      | cons x xs => rw [hpv] at hinp; simp at hinp; simp [hinp.1]
    have hne45 : c0 ≠ 45 := by
      intro h; rw [h] at hc0; exact hhead hc0
    simp only [hne45, if_false]
    rw [← hinp, hrun]
    simp only [C07.bind_ok]
    cases hpt : P ++ t with
    | nil => exact absurd hpt hne
    | cons t0 tr =>
      simp only [Bool.false_and, Bool.false_eq_true, if_false]
      rw [← hpt]
      have h1 : P ++ V ++ rest = (P ++ V) ++ rest := rfl
      rw [subLen_append, C07.bind_ok, sliceTo_append, C07.bind_ok]

/-! ### setType on a word -/

theorem prefixes_unambiguous' : ∀ p ∈ prefixes, ∀ q ∈ prefixes, p.1 <+: q.1 → p = q := by
  have h : (prefixes.all fun p => prefixes.all fun q => !(p.1.isPrefixOf q.1) || (p == q)) = true := by decide
  intro p hp q hq hpre
  have := List.all_eq_true.mp (List.all_eq_true.mp h p hp) q hq
  simp only [Bool.or_eq_true, Bool.not_eq_true'] at this
  rcases this with h1 | h1
  · have := List.isPrefixOf_iff_prefix.mpr hpre
    simp [this] at h1
  · exact eq_of_beq h1

theorem findPrefix_unique {p : B × Nat} {input : B} (hp : p ∈ prefixes) (hpre : p.1 <+: input) :
    findPrefix prefixes input = some p := by
  cases h : findPrefix prefixes input with
  | none =>
    unfold findPrefix at h
    have := List.find?_eq_none.mp h p hp
    simp [List.isPrefixOf_iff_prefix.mpr hpre] at this
  | some r =>
    have hr := findPrefix_some h
    have : r = p := by
      by_cases hl : r.1.length ≤ p.1.length
      · exact prefixes_unambiguous' r hr.1 p hp (List.prefix_of_prefix_length_le hr.2 hpre hl)
      · exact (prefixes_unambiguous' p hp r hr.1 (List.prefix_of_prefix_length_le hpre hr.2 (by omega))).symm
    rw [this]

/-- a word that starts with a key of the prefix table gets that key's token kind, and the key is cut off its text -/
theorem setType_prefixed (pref : B) (typ : Nat) (hp : (pref, typ) ∈ prefixes) (t V : B) (ty : Nat) :
    setType ⟨ty, pref ++ t, pref ++ V⟩ = .ok ⟨typ, t, pref ++ V⟩ := by
  unfold setType
  simp only [findPrefix_unique hp (List.prefix_append pref V), sliceFrom_append, C07.bind_ok]

/-- a word that starts with no key, is not a lone parenthesis and not the bare word `or`, stays a text token -/
theorem setType_bare (t inp : B) (hnp : findPrefix prefixes inp = none) (h40 : t ≠ [40]) (h41 : t ≠ [41])
    (hor : ¬ (t = [111,114] ∧ inp = [111,114])) :
    setType ⟨tokText, t, inp⟩ = .ok ⟨tokText, t, inp⟩ := by
  unfold setType
  simp only [hnp]
  have : reservedWords.find? (fun w => decide (t = w.1) && decide (inp = w.1)) = none := by
    simp only [reservedWords, List.find?_cons, List.find?_nil]
    by_cases h1 : t = [111,114]
    · have : inp ≠ [111,114] := fun h2 => hor ⟨h1, h2⟩
      simp [h1, this]
    · simp [h1]
  simp [retype, h40, h41, this]

theorem findPrefix_quote (t : B) : findPrefix prefixes (quote t) = none := by
  simp [findPrefix, prefixes, quote, List.isPrefixOf]

/-! ### `token_roundtrip`: rendered leaves -/

/-- key of the prefix table a field is written with (alias 0 = long form) -/
def prefKey (f : Field) (aliasIx : Nat) : B := fieldPrefix f aliasIx [] |>.take (match f with | .metaF => 5 | _ => 100)

/-- what stays in the token text after the key is cut off, before the value: `<name>:` for `meta.` -/
def prefExtra (f : Field) (name : B) : B :=
  match f with
  | .metaF => name ++ [58]
  | _ => []

theorem fieldPrefix_split (f : Field) (a : Nat) (n : B) : fieldPrefix f a n = prefKey f a ++ prefExtra f n := by
  cases f <;> cases a <;> simp [fieldPrefix, prefKey, prefExtra]

theorem prefKey_entry (f : Field) (a : Nat) (hf : f ≠ .text) : (prefKey f a, tokTypeOf f) ∈ prefixes := by
  cases f <;> cases a <;> first | exact absurd rfl hf | decide | (simp [prefKey, fieldPrefix, tokTypeOf, prefixes, tokContent, tokFile, tokRegex, tokRepo, tokSym, tokBranch, tokLang, tokArchived, tokFork, tokPublic, tokMeta])

theorem tokTextOf_split (f : Field) (t n : B) : tokTextOf f t n = prefExtra f n ++ t := by
  cases f <;> simp [tokTextOf, prefExtra]

theorem prefKey_head (f : Field) (a : Nat) (hf : f ≠ .text) (rest : B) : (prefKey f a ++ rest).head? ≠ some 45 := by
  cases f <;> cases a <;> first | exact absurd rfl hf | simp [prefKey, fieldPrefix]

/-- the value as rendered -/
def valueOf (quoted : Bool) (t : B) : B := if quoted then quote t else t

theorem renderE_atom (f : Field) (a : Nat) (q : Bool) (t n : B) :
    renderE (.atom f a q t n) = fieldPrefix f a n ++ valueOf q t := by
  simp [renderE, valueOf]

/-- atoms whose rendering the tokenizer reads back: an unquoted value has only plain bytes (no blank, no quote),
    backslash escapes and balanced parentheses; a bare pattern is non-empty, not a lone parenthesis, and — unquoted — does not start with
    `-` or a field prefix and is not the word `or`; a `meta.` name has only plain bytes -/
def goodAtom (f : Field) (quoted : Bool) (t n : B) : Bool :=
  (quoted || escPlain t) &&
  (match f with
   | .text => !t.isEmpty && t != [40] && t != [41] &&
       (quoted || (t.head? != some 45 && (findPrefix prefixes t).isNone && t != [111,114]))
   | .metaF => n.all isDflt
   | _ => true)

theorem valueOK_of_good {f : Field} {q : Bool} {t n : B} (h : goodAtom f q t n = true) : ValueOK (valueOf q t) t := by
  simp only [goodAtom, Bool.and_eq_true, Bool.or_eq_true] at h
  cases q with
  | true => right; simp [valueOf]
  | false =>
    left
    refine ⟨by simp [valueOf], ?_⟩
    rcases h.1 with h1 | h1
    · cases h1
    · exact h1

/-- **`token_roundtrip`**: a rendered atom is read back by `nextToken` as one token of the kind of its field, with
    the value as text (for `meta.`: `<name>:<value>`) and exactly the rendering as consumed input -/
theorem token_roundtrip (f : Field) (a : Nat) (q : Bool) (t n rest : B) (hg : goodAtom f q t n = true)
    (hf : followOK rest = true) :
    nextToken (renderE (.atom f a q t n) ++ rest) =
      .ok (some ⟨tokTypeOf f, tokTextOf f t n, renderE (.atom f a q t n)⟩) := by
  have hV := valueOK_of_good hg
  rw [renderE_atom]
  by_cases hft : f = .text
  · subst hft
    simp only [goodAtom, Bool.and_eq_true, Bool.or_eq_true, bne_iff_ne, ne_eq, Bool.not_eq_true',
      List.isEmpty_eq_false_iff, Option.isNone_iff_eq_none] at hg
    obtain ⟨_, ⟨⟨⟨hne, h40⟩, h41⟩, hbare⟩⟩ := hg
    have hP : fieldPrefix .text a n = [] := by simp [fieldPrefix]
    rw [hP]
    have hword := nextToken_word [] (valueOf q t) t rest (by simp) hV (by simpa using hne)
      (by
        cases q with
        | true => simp [valueOf, quote]
        | false =>
          rcases hbare with h | h
          · cases h
          · simpa [valueOf] using h.1.1)
      hf
    simp only [List.nil_append] at hword ⊢
    rw [hword]
    have hst : setType ⟨tokText, t, valueOf q t⟩ = .ok ⟨tokText, t, valueOf q t⟩ := by
      apply setType_bare _ _ _ h40 h41
      · cases q with
        | true => simp [valueOf, quote]
        | false =>
          rcases hbare with h | h
          · cases h
          · intro hh; exact h.2 hh.1
      · cases q with
        | true => simpa [valueOf] using findPrefix_quote t
        | false =>
          rcases hbare with h | h
          · cases h
          · simpa [valueOf] using h.1.2
    rw [hst]
    simp [tokTypeOf, tokTextOf, C07.bind_ok]
  · have hentry := prefKey_entry f a hft
    have hd := (prefixes_dflt _ hentry).1
    have hextra : ∀ c ∈ prefExtra f n, isDflt c = true := by
      cases f <;> simp only [prefExtra, List.not_mem_nil, false_imp_iff, implies_true]
      simp only [goodAtom, Bool.and_eq_true, List.all_eq_true] at hg
      intro c hc
      rcases List.mem_append.mp hc with h | h
      · exact hg.2 c h
      · simp at h; subst h; decide
    have hP : ∀ c ∈ fieldPrefix f a n, isDflt c = true := by
      rw [fieldPrefix_split]
      intro c hc
      rcases List.mem_append.mp hc with h | h
      · exact hd c h
      · exact hextra c h
    have hne : fieldPrefix f a n ++ t ≠ [] := by
      rw [fieldPrefix_split]
      have h2 : 2 ≤ (prefKey f a).length := (prefixes_dflt _ hentry).2
      intro h
      have h3 := congrArg List.length h
      simp only [List.length_append, List.length_nil] at h3
      omega
    have hword := nextToken_word (fieldPrefix f a n) (valueOf q t) t rest hP hV hne
      (by rw [fieldPrefix_split, List.append_assoc]; exact prefKey_head f a hft _) hf
    rw [hword, fieldPrefix_split, List.append_assoc, List.append_assoc,
      setType_prefixed (prefKey f a) (tokTypeOf f) hentry, tokTextOf_split]
    simp [C07.bind_ok]

/-! ### the other tokens of a rendering: directives, `or`, `-`, parentheses -/

theorem caseWord_dflt (fl : Nat) : ∀ c ∈ caseWord fl, isDflt c = true := by
  unfold caseWord; split <;> decide

theorem typeWord_dflt (v : Nat) : ∀ c ∈ typeWord v, isDflt c = true := by
  unfold typeWord; split <;> decide

theorem token_case (fl : Nat) (rest : B) (hf : followOK rest = true) :
    nextToken (renderE (.caseD fl) ++ rest) = .ok (some ⟨tokCase, caseWord fl, renderE (.caseD fl)⟩) := by
  simp only [renderE]
  rw [nextToken_word [99,97,115,101,58] (caseWord fl) (caseWord fl) rest (by decide) (Or.inl ⟨rfl, escPlain_of_dflt _ (caseWord_dflt fl)⟩)
    (by simp) (by simp) hf]
  rw [setType_prefixed [99,97,115,101,58] tokCase (by decide)]
  rfl

theorem token_type (a v : Nat) (rest : B) (hf : followOK rest = true) :
    nextToken (renderE (.typeD a v) ++ rest) = .ok (some ⟨tokType, typeWord v, renderE (.typeD a v)⟩) := by
  simp only [renderE]
  split
  · rw [nextToken_word [116,121,112,101,58] (typeWord v) (typeWord v) rest (by decide) (Or.inl ⟨rfl, escPlain_of_dflt _ (typeWord_dflt v)⟩)
      (by simp) (by simp) hf]
    rw [setType_prefixed [116,121,112,101,58] tokType (by decide)]
    rfl
  · rw [nextToken_word [116,58] (typeWord v) (typeWord v) rest (by decide) (Or.inl ⟨rfl, escPlain_of_dflt _ (typeWord_dflt v)⟩)
      (by simp) (by simp) hf]
    rw [setType_prefixed [116,58] tokType (by decide)]
    rfl

theorem token_or (rest : B) (hf : followOK rest = true) :
    nextToken ([111,114] ++ rest) = .ok (some ⟨tokOr, [111,114], [111,114]⟩) := by
  have h := nextToken_word [] [111,114] [111,114] rest (by simp) (Or.inl ⟨rfl, by decide⟩) (by simp) (by simp) hf
  simp only [List.nil_append] at h
  rw [h]
  have : setType ⟨tokText, [111,114], [111,114]⟩ = .ok ⟨tokOr, [111,114], [111,114]⟩ := by rfl
  rw [this]; rfl

theorem token_negate (s : B) : nextToken (45 :: s) = .ok (some ⟨tokNegate, [45], [45]⟩) := by
  simp [nextToken, sliceTo, C07.bind_ok]

theorem token_close (rest : B) : nextToken (41 :: rest) = .ok (some ⟨tokParenClose, [41], [41]⟩) := by
  unfold nextToken
  simp only [show (41 : Nat) ≠ 45 by decide, if_false]
  have : ntLoop ((41 :: rest).length + 1) (41 :: rest) 0 [] = .ok (rest, [41], false) := by
    unfold ntLoop; simp
  rw [this]
  simp only [C07.bind_ok, Bool.false_and, Bool.false_eq_true, if_false]
  have h1 : subLen "nextToken:len(in)-len(left)" (41 :: rest) rest = .ok 1 := by simp [subLen]
  have h2 : sliceTo "nextToken:in[:len(in)-len(left)]" (41 :: rest) 1 = .ok [41] := by simp [sliceTo]
  rw [h1, C07.bind_ok, h2, C07.bind_ok]
  have : setType ⟨tokText, [41], [41]⟩ = .ok ⟨tokParenClose, [41], [41]⟩ := by rfl
  rw [this]; rfl

/-- an opening parenthesis followed by a blank is the grouping token -/
theorem token_open_pad (rest : B) : nextToken (40 :: 32 :: rest) = .ok (some ⟨tokParenOpen, [40], [40]⟩) := by
  unfold nextToken
  simp only [show (40 : Nat) ≠ 45 by decide, if_false]
  have : ntLoop ((40 :: 32 :: rest).length + 1) (40 :: 32 :: rest) 0 [] = .ok (32 :: rest, [40], true) := by
    simp only [List.length_cons]
    unfold ntLoop
    simp only [if_true]
    unfold ntLoop
    simp
  rw [this]
  simp only [C07.bind_ok, Bool.true_and, decide_true, if_true]
  have h1 : sliceTo "nextToken:cur.Text[:1]" [40] 1 = .ok [40] := by simp [sliceTo]
  have h2 : sliceTo "nextToken:in[:1]" (40 :: 32 :: rest) 1 = .ok [40] := by simp [sliceTo]
  rw [h1, C07.bind_ok, h2, C07.bind_ok]
  have : setType ⟨tokText, [40], [40]⟩ = .ok ⟨tokParenOpen, [40], [40]⟩ := by rfl
  rw [this]; rfl

end ZoektModel.C06
