/-
C06 — the meaning of a query of the documented grammar, written from doc/query_syntax.md (not from the parser):

* a bare pattern matches in the file name or in the content; `content:`/`c:` and `regex:` in the content,
  `file:`/`f:` in the file name, `sym:` in a symbol name, `repo:`/`r:` in the repository name, `branch:`/`b:` in a
  branch name the file is on, `lang:` the file's language, `archived:`/`fork:`/`public:` the repository's flags,
  `meta.<name>:` the repository's metadata value;
* `-` negates; parentheses group; juxtaposition is conjunction; `or` is a disjunction of lower precedence;
* `case:` and `type:` are directives that apply to their enclosing group (the whole query or the innermost
  parenthesised query they are written in, all its `or` branches included); an inner group without its own
  `case:` inherits the enclosing one;
* `case:yes`/`case:no` fix case sensitivity; `case:auto` (the default) is case-sensitive exactly when the pattern
  has an upper-case letter (an ASCII letter `A`–`Z` that is not the character after a backslash);
* `type:repo` selects every document of a repository that has a selected document; `type:filematch`,
  `type:filename`/`type:file` select the same documents as the expression they apply to.

`checkP` is the property for one (query, corpus): the documents the implementation selected are those `sem` selects.
-/
import ZoektModel.C06.Model
namespace ZoektModel.C06
open ZoektModel ZoektModel.C07

/-- "the pattern has an upper-case letter": an ASCII upper-case letter outside backslash escapes -/
def hasUpper : B → Bool
  | [] => false
  | c :: rest =>
    if c = 92 then
      match rest with
      | [] => false
      | _ :: rest2 => hasUpper rest2
    else (65 ≤ c && c ≤ 90) || hasUpper rest

/-- the atom a field asks about; `lang` goes through the language alias table (external, `Oracle.lang`),
    flags through their documented values -/
def keyOf (O : Oracle) (f : Field) (text name : B) : Option AtomKey :=
  match f with
  | .text => some ⟨116, text, []⟩
  | .regex => some ⟨99, text, []⟩     -- "Matches content using a regular expression"
  | .content => some ⟨99, text, []⟩
  | .file => some ⟨102, text, []⟩
  | .sym => some ⟨115, text, []⟩
  | .repo => some ⟨114, text, []⟩
  | .branch => some ⟨98, text, []⟩
  | .lang => (O.lang text).map fun c => ⟨108, c, []⟩
  | .archived => if text = bYes then some ⟨107, natToDec 16, []⟩ else if text = bNo then some ⟨107, natToDec 32, []⟩ else none
  | .fork => if text = bYes then some ⟨107, natToDec 4, []⟩ else if text = bNo then some ⟨107, natToDec 8, []⟩ else none
  | .pub => if text = bYes then some ⟨107, natToDec 1, []⟩ else if text = bNo then some ⟨107, natToDec 2, []⟩ else none
  | .metaF => some ⟨109, text, name⟩

def caseMatters : Field → Bool
  | .text | .regex | .content | .file | .sym => true
  | _ => false

/-- case mode in force: `none` = auto -/
abbrev CaseMode := Option Bool

def caseOfFlavor : Nat → CaseMode
  | 0 => some true | 1 => some false | _ => none

mutual
/-- the `case:` directive written directly in this group (last one wins if the author wrote several) -/
def caseOfQ : Qy → Option CaseMode → Option CaseMode
  | .one c, acc => caseOfC c acc
  | .or c r, acc => caseOfQ r (caseOfC c acc)
def caseOfC : Cj → Option CaseMode → Option CaseMode
  | .one e, acc => caseOfE e acc
  | .cons e r, acc => caseOfC r (caseOfE e acc)
def caseOfE : E → Option CaseMode → Option CaseMode
  | .caseD fl, _ => some (caseOfFlavor fl)
  | _, acc => acc
end

mutual
/-- the `type:` directives written directly in this group -/
def typesOfQ : Qy → List Nat
  | .one c => typesOfC c
  | .or c r => typesOfC c ++ typesOfQ r
def typesOfC : Cj → List Nat
  | .one e => typesOfE e
  | .cons e r => typesOfE e ++ typesOfC r
def typesOfE : E → List Nat
  | .typeD _ v => [v]
  | _ => []
end

def isDirectiveE : E → Bool
  | .caseD _ => true
  | .typeD _ _ => true
  | _ => false

/-- the directives of a group applied to what its expressions select: an explicit `case:` replaces the inherited
    mode, `type:repo` (value 3) lifts to repositories; the other result types select the same documents -/
def groupMode (cm : CaseMode) (q : Qy) : CaseMode :=
  match caseOfQ q none with
  | some m => m
  | none => cm

def groupLift (c : Corpus) (q : Qy) (v : DocPred) : DocPred :=
  if (typesOfQ q).contains 3 then repoLift c v else v

mutual
def semOr (O : Oracle) (c : Corpus) (cm : CaseMode) : Qy → DocPred
  | .one cj => semC O c cm cj
  | .or cj r => fun d => semC O c cm cj d || semOr O c cm r d
def semC (O : Oracle) (c : Corpus) (cm : CaseMode) : Cj → DocPred
  | .one e => semE O c cm e
  | .cons e r => fun d => semE O c cm e d && semC O c cm r d
def semE (O : Oracle) (c : Corpus) (cm : CaseMode) : E → DocPred
  | .atom f _ _ text name =>
    match keyOf O f text name with
    | none => fun _ => false          -- an unknown language matches nothing
    | some k =>
      c.truth k (if caseMatters f then (match cm with | some b => b | none => hasUpper text) else true)
  | .caseD _ => fun _ => true         -- directives select nothing by themselves
  | .typeD _ _ => fun _ => true
  | .neg e => fun d => !(semE O c cm e d)
  | .grp _ _ q => groupLift c q (semOr O c (groupMode cm q) q)
end

/-- documents selected by a query of the documented grammar (total; `definedQ` says whether every value is one
    the documentation defines) -/
def semQ (O : Oracle) (c : Corpus) (cm : CaseMode) (q : Qy) : DocPred :=
  groupLift c q (semOr O c (groupMode cm q) q)

mutual
/-- every value is one the documentation defines, `-` is not applied to a directive, and every group has at
    most one `type:` directive -/
def definedQ : Qy → Bool
  | q => definedOr q && decide ((typesOfQ q).length ≤ 1)
def definedOr : Qy → Bool
  | .one c => definedC c
  | .or c r => definedC c && definedOr r
def definedC : Cj → Bool
  | .one e => definedE e
  | .cons e r => definedE e && definedC r
def definedE : E → Bool
  | .atom f _ _ text _ =>
    match f with
    | .archived | .fork | .pub => text = bYes || text = bNo
    | _ => true
  | .caseD fl => decide (fl ≤ 2)
  | .typeD _ v => decide (v ≤ 3)
  | .neg e => !isDirectiveE e && definedE e
  | .grp _ _ q => definedQ q
end

/-! ## what the parser's token loop is meant to collect for a grammar tree

`itemsQ` is the list `parseExprList`'s token loop should hand to its post-processing (`finishList`) when it reads
`renderQ g` — one item per expression, `orOp` between conjunctions — built with the parser's own `atomOf`,
`finishList` and `parseOperators` (C07/Model.lean); only the byte-level tokenizer is abstracted.
`abstractParse` then runs the rest of `Parse` on it. -/

def tokTypeOf : Field → Nat
  | .text => tokText | .content => tokContent | .file => tokFile | .regex => tokRegex | .repo => tokRepo
  | .sym => tokSym | .branch => tokBranch | .lang => tokLang | .archived => tokArchived | .fork => tokFork
  | .pub => tokPublic | .metaF => tokMeta

def tokTextOf (f : Field) (text name : B) : B :=
  match f with
  | .metaF => name ++ [58] ++ text
  | _ => text

def typeNum : Nat → Nat
  | 0 => 0 | 1 => 1 | 2 => 1 | _ => 2

mutual
def itemE (O : Oracle) : E → Outcome Q
  | .atom f _ _ t n =>
    (atomOf O ⟨tokTypeOf f, tokTextOf f t n, []⟩).bind fun r =>
      match r with
      | some q => .ok q
      | none => .err "no expression"
  | .caseD fl => .ok (.caseQ (caseWord fl))
  | .typeD _ v => .ok (.type (typeNum v) .nil)
  | .neg e => (itemE O e).bind fun q => if isDirective q then .err "'-' applied to a directive" else .ok (.not q)
  | .grp _ _ q => (itemsQ O q).bind fun items => (finishList items).bind fun qs => parseOperators qs
def itemsC (O : Oracle) : Cj → Outcome (List Q)
  | .one e => (itemE O e).bind fun q => .ok [q]
  | .cons e r => (itemE O e).bind fun q => (itemsC O r).bind fun qs => .ok (q :: qs)
def itemsQ (O : Oracle) : Qy → Outcome (List Q)
  | .one c => itemsC O c
  | .or c r => (itemsC O c).bind fun a => (itemsQ O r).bind fun b => .ok (a ++ Q.orOp :: b)
end

/-- `Parse` after the tokenizer: post-processing of the top-level list, `parseOperators`, `stripCaseScopes` -/
def abstractTree (O : Oracle) (g : Qy) : Outcome Q :=
  (itemsQ O g).bind fun items => (finishList items).bind fun qs => (parseOperators qs).bind fun q =>
  .ok (stripCaseScopes q)

def abstractParse (O : Oracle) (g : Qy) : Outcome Q :=
  (abstractTree O g).bind simplify

/-- C06 for one query and corpus: `impl` is what the implementation did (`some p` = the documents the real
    search returned, `none` = the real parser rejected the string) -/
def checkP (O : Oracle) (c : Corpus) (g : Qy) (impl : Option (List Bool)) : Bool :=
  match impl with
  | some got => (List.range c.n).map (semQ O c none g) == got
  | none => false

end ZoektModel.C06
