/-
C06 — the meaning of a query of the documented grammar, written from doc/query_syntax.md (not from the parser):

* a bare pattern (and `regex:`) matches in the file name or in the content; `content:`/`c:` in the content,
  `file:`/`f:` in the file name, `sym:` in a symbol name, `repo:`/`r:` in the repository name, `branch:`/`b:` in a
  branch name the file is on, `lang:` the file's language, `archived:`/`fork:`/`public:` the repository's flags,
  `meta.<name>:` the repository's metadata value;
* `-` negates; parentheses group; juxtaposition is conjunction; `or` is a disjunction of lower precedence;
* `case:` and `type:` are directives that apply to their enclosing group (the whole query or the innermost
  parenthesised query they are written in, all its `or` branches included); an inner group without its own
  `case:` inherits the enclosing one;
* `case:yes`/`case:no` fix case sensitivity; `case:auto` (the default) is case-sensitive exactly when the pattern
  has an upper-case letter (an ASCII letter `A`–`Z` that is not the character after a backslash);
* `type:repo` selects every document of a repository that has a selected document; `type:filematch`,
  `type:filename`/`type:file` select the same documents as the expression they apply to.

`checkP` is the property for one (query, corpus): the documents the implementation selected are those `sem` selects.
-/
import ZoektModel.C06.Model
namespace ZoektModel.C06
open ZoektModel ZoektModel.C07

/-- "the pattern has an upper-case letter": an ASCII upper-case letter outside backslash escapes -/
def hasUpper : B → Bool
  | [] => false
  | c :: rest =>
    if c = 92 then
      match rest with
      | [] => false
      | _ :: rest2 => hasUpper rest2
    else (65 ≤ c && c ≤ 90) || hasUpper rest

/-- the atom a field asks about; `lang` goes through the language alias table (external, `Oracle.lang`),
    flags through their documented values -/
def keyOf (O : Oracle) (f : Field) (text name : B) : Option AtomKey :=
  match f with
  | .text => some ⟨116, text, []⟩
  | .regex => some ⟨116, text, []⟩
  | .content => some ⟨99, text, []⟩
  | .file => some ⟨102, text, []⟩
  | .sym => some ⟨115, text, []⟩
  | .repo => some ⟨114, text, []⟩
  | .branch => some ⟨98, text, []⟩
  | .lang => (O.lang text).map fun c => ⟨108, c, []⟩
  | .archived => if text = bYes then some ⟨107, natToDec 16, []⟩ else if text = bNo then some ⟨107, natToDec 32, []⟩ else none
  | .fork => if text = bYes then some ⟨107, natToDec 4, []⟩ else if text = bNo then some ⟨107, natToDec 8, []⟩ else none
  | .pub => if text = bYes then some ⟨107, natToDec 1, []⟩ else if text = bNo then some ⟨107, natToDec 2, []⟩ else none
  | .metaF => some ⟨109, text, name⟩

def caseMatters : Field → Bool
  | .text | .regex | .content | .file | .sym => true
  | _ => false

/-- case mode in force: `none` = auto -/
abbrev CaseMode := Option Bool

def caseOfFlavor : Nat → CaseMode
  | 0 => some true | 1 => some false | _ => none

mutual
/-- the `case:` directive written directly in this group (last one wins if the author wrote several) -/
def caseOfQ : Qy → Option CaseMode → Option CaseMode
  | .one c, acc => caseOfC c acc
  | .or c r, acc => caseOfQ r (caseOfC c acc)
def caseOfC : Cj → Option CaseMode → Option CaseMode
  | .one e, acc => caseOfE e acc
  | .cons e r, acc => caseOfC r (caseOfE e acc)
def caseOfE : E → Option CaseMode → Option CaseMode
  | .caseD fl, _ => some (caseOfFlavor fl)
  | _, acc => acc
end

mutual
/-- the `type:` directives written directly in this group -/
def typesOfQ : Qy → List Nat
  | .one c => typesOfC c
  | .or c r => typesOfC c ++ typesOfQ r
def typesOfC : Cj → List Nat
  | .one e => typesOfE e
  | .cons e r => typesOfE e ++ typesOfC r
def typesOfE : E → List Nat
  | .typeD _ v => [v]
  | _ => []
end

def isDirectiveE : E → Bool
  | .caseD _ => true
  | .typeD _ _ => true
  | _ => false

mutual
/-- documents selected by a query of the documented grammar; `none` = a value outside the documented ones
    (e.g. `archived:maybe`), an unknown atom, or `-` applied to a directive -/
def semQ (O : Oracle) (c : Corpus) (cm : CaseMode) (q : Qy) : Option Bits :=
  let cm' := match caseOfQ q none with
    | some m => m
    | none => cm
  match semOr O c cm' q with
  | none => none
  | some v =>
    -- `type:repo` (value 3) lifts to repositories; the other result types select the same documents.
    some (if (typesOfQ q).contains 3 then repoLift c v else v)
def semOr (O : Oracle) (c : Corpus) (cm : CaseMode) : Qy → Option Bits
  | .one cj => semC O c cm cj
  | .or cj r => match semC O c cm cj, semOr O c cm r with
    | some a, some b => some (orB a b)
    | _, _ => none
def semC (O : Oracle) (c : Corpus) (cm : CaseMode) : Cj → Option Bits
  | .one e => semE O c cm e
  | .cons e r => match semE O c cm e, semC O c cm r with
    | some a, some b => some (andB a b)
    | _, _ => none
def semE (O : Oracle) (c : Corpus) (cm : CaseMode) : E → Option Bits
  | .atom f _ _ text name =>
    if f = .lang ∧ (O.lang text).isNone then some (allB c false)   -- an unknown language matches nothing
    else match keyOf O f text name with
      | none => none
      | some k =>
        let cs := if caseMatters f then (match cm with | some b => b | none => hasUpper text) else true
        c.truth k cs
  | .caseD _ => some (allB c true)     -- directives select nothing by themselves
  | .typeD _ _ => some (allB c true)
  | .neg e => if isDirectiveE e then none else (semE O c cm e).map notB
  | .grp _ _ q => semQ O c cm q
end

def showBits (b : Bits) : String := String.ofList (b.map fun x => if x then '1' else '0')

/-- C06 for one query and corpus: `impl` is what the implementation did (`some bits` = the documents the real
    search returned, `none` = the real parser rejected the string) -/
def checkP (O : Oracle) (c : Corpus) (g : Qy) (impl : Option Bits) : Bool :=
  match semQ O c none g, impl with
  | some want, some got => want == got
  | _, _ => false

end ZoektModel.C06
