/-
C06 — the parser reads a rendered grammar tree back: `parseExpr` on the rendering of an expression returns the
item `itemE` says it should and consumes exactly the rendering; the token loop of `parseExprList` on the rendering
of a query collects exactly `itemsQ`.
-/
import ZoektModel.C06.Roundtrip
namespace ZoektModel.C06
open ZoektModel ZoektModel.C07

def parenOpenTok : Token := ⟨tokParenOpen, [40], [40]⟩

mutual
/-- renderings the tokenizer reads back (`goodAtom` for leaves; a group must be read as a group: its opening
    parenthesis must come out of `nextToken` as the grouping token — see `opens_of_padL`, `goodQ`) -/
def GoodE : E → Prop
  | .atom f _ q t n => goodAtom f q t n = true
  | .caseD _ => True
  | .typeD _ _ => True
  | .neg e => GoodE e
  | .grp pl pr q => GoodQ q ∧ ∀ rest, nextToken (renderE (.grp pl pr q) ++ rest) = .ok (some parenOpenTok)
def GoodC : Cj → Prop
  | .one e => GoodE e
  | .cons e r => GoodE e ∧ GoodC r
def GoodQ : Qy → Prop
  | .one c => GoodC c
  | .or c r => GoodC c ∧ GoodQ r
end

/-- the first token of a rendered expression -/
def FirstTok (e : E) (tok : Token) : Prop :=
  ∀ rest, followOK rest = true → nextToken (renderE e ++ rest) = .ok (some tok)

theorem goodE_atom {f : Field} {a : Nat} {q : Bool} {t n : B} (h : GoodE (.atom f a q t n)) : goodAtom f q t n = true := by
  simpa only [GoodE] using h

theorem bareText_ne_nil {q : Bool} {t n : B} (h : goodAtom .text q t n = true) : t ≠ [] := by
  simp only [goodAtom, Bool.and_eq_true, Bool.not_eq_true', List.isEmpty_eq_false_iff] at h
  exact h.2.1.1.1

theorem renderE_atom_length (f : Field) (a : Nat) (q : Bool) (t n : B) (h : goodAtom f q t n = true) :
    1 ≤ (renderE (.atom f a q t n)).length := by
  rw [renderE_atom]
  cases q with
  | true => simp only [valueOf, quote, if_true, List.length_append, List.length_cons]; omega
  | false =>
    simp only [valueOf, Bool.false_eq_true, if_false, List.length_append]
    by_cases hft : f = .text
    · subst hft
      have := bareText_ne_nil h
      have : 1 ≤ t.length := by cases t <;> simp_all
      omega
    · have h2 : 2 ≤ (prefKey f a).length := (prefixes_dflt _ (prefKey_entry f a hft)).2
      rw [fieldPrefix_split]
      simp only [List.length_append]
      omega

theorem firstTok_exists (e : E) (h : GoodE e) :
    ∃ tok, FirstTok e tok ∧ tok.typ ≠ tokParenClose ∧ tok.typ ≠ tokOr ∧ 1 ≤ tok.input.length := by
  cases e with
  | atom f a q t n =>
    have hg := goodE_atom h
    refine ⟨_, fun rest hf => token_roundtrip f a q t n rest hg hf, ?_, ?_, ?_⟩
    · show tokTypeOf f ≠ tokParenClose
      cases f <;> decide
    · show tokTypeOf f ≠ tokOr
      cases f <;> decide
    · exact renderE_atom_length f a q t n hg
  | caseD fl =>
    refine ⟨_, fun rest hf => token_case fl rest hf, ?_, ?_, ?_⟩
    · show tokCase ≠ tokParenClose; decide
    · show tokCase ≠ tokOr; decide
    · simp only [renderE, List.length_append, List.length_cons]; omega
  | typeD a v =>
    refine ⟨_, fun rest hf => token_type a v rest hf, ?_, ?_, ?_⟩
    · show tokType ≠ tokParenClose; decide
    · show tokType ≠ tokOr; decide
    · simp only [renderE]; split <;> (simp only [List.length_append, List.length_cons]; omega)
  | neg e =>
    refine ⟨⟨tokNegate, [45], [45]⟩, ?_, by decide, by decide, by simp⟩
    intro rest _
    simp only [renderE, List.cons_append]
    exact token_negate _
  | grp pl pr q =>
    simp only [GoodE] at h
    exact ⟨parenOpenTok, fun rest _ => h.2 rest, by decide, by decide, by simp [parenOpenTok]⟩

theorem skipSpaces_of_head {c : Nat} {r : B} (h : isSpace c = false) : skipSpaces (c :: r) = c :: r := by
  simp [skipSpaces, h]

theorem isSpace_of_dflt {c : Nat} (h : isDflt c = true) : isSpace c = false := by
  simp only [isDflt, Bool.and_eq_true, bne_iff_ne, ne_eq] at h
  simp [isSpace, h.1.1.2, h.2]

/-- a rendered expression does not start with a blank -/
theorem renderE_head (e : E) (h : GoodE e) : ∃ c r, renderE e = c :: r ∧ isSpace c = false := by
  cases e with
  | atom f a q t n =>
    have hg := goodE_atom h
    rw [renderE_atom]
    by_cases hft : f = .text
    · subst hft
      have hne := bareText_ne_nil hg
      simp only [goodAtom, Bool.and_eq_true, Bool.or_eq_true] at hg
      cases q with
      | true => exact ⟨34, escapeQuoted t ++ [34], by simp [fieldPrefix, valueOf, quote], by decide⟩
      | false =>
        cases t with
        | nil => exact absurd rfl hne
        | cons c r =>
          refine ⟨c, r, by simp [fieldPrefix, valueOf], ?_⟩
          rcases hg.1 with h1 | h1
          · cases h1
          · rcases escPlain_head h1 with h2 | h2 | h2
            · subst h2; decide
            · subst h2; decide
            · exact isSpace_of_dflt h2
    · have hentry := prefKey_entry f a hft
      have hd := (prefixes_dflt _ hentry)
      rw [fieldPrefix_split]
      cases hk : prefKey f a with
      | nil => rw [hk] at hd; simp at hd
      | cons c r =>
        refine ⟨c, r ++ prefExtra f n ++ valueOf q t, by simp, ?_⟩
        exact isSpace_of_dflt (hd.1 c (by rw [hk]; simp))
  | caseD fl => exact ⟨99, [97,115,101,58] ++ caseWord fl, by simp [renderE], by decide⟩
  | typeD a v =>
    by_cases ha : a = 0
    · exact ⟨116, [121,112,101,58] ++ typeWord v, by simp [renderE, ha], by decide⟩
    · exact ⟨116, [58] ++ typeWord v, by simp [renderE, ha], by decide⟩
  | neg e => exact ⟨45, renderE e, by simp [renderE], by decide⟩
  | grp pl pr q => exact ⟨40, _, by simp only [renderE, List.cons_append, List.nil_append]; rfl, by decide⟩

/-! ### the parser on a rendering -/

theorem bind_eq_ok {α β} {x : Outcome α} {f : α → Outcome β} {b : β} (h : x.bind f = .ok b) :
    ∃ a, x = .ok a ∧ f a = .ok b := by
  cases x with
  | ok a => exact ⟨a, rfl, h⟩
  | err e => cases h
  | panic s => cases h
  | diverge => cases h

def nC : Cj → Nat
  | .one _ => 1
  | .cons _ r => 1 + nC r

def nQ : Qy → Nat
  | .one c => nC c
  | .or c r => nC c + 1 + nQ r

theorem renderE_length_pos (e : E) (h : GoodE e) : 1 ≤ (renderE e).length := by
  obtain ⟨c, r, hr, _⟩ := renderE_head e h
  rw [hr]; simp

theorem nC_le : ∀ c, GoodC c → nC c ≤ (renderC c).length
  | .one e, h => by simp only [GoodC] at h; simpa [nC, renderC] using renderE_length_pos e h
  | .cons e r, h => by
    simp only [GoodC] at h
    have := renderE_length_pos e h.1
    have := nC_le r h.2
    simp only [nC, renderC, List.length_append, List.length_cons]
    omega

theorem nQ_le : ∀ q, GoodQ q → nQ q ≤ (renderQ q).length
  | .one c, h => by simp only [GoodQ] at h; simpa [nQ, renderQ] using nC_le c h
  | .or c r, h => by
    simp only [GoodQ] at h
    have := nC_le c h.1
    have := nQ_le r h.2
    simp only [nQ, renderQ, List.length_append, List.length_cons]
    omega

theorem pelLoop_skip (O : Oracle) (fuel : Nat) (s : B) (acc' : List Q) (hs : s ≠ []) :
    pelLoop O fuel (32 :: s) acc' = pelLoop O fuel s acc' := by
  cases fuel with
  | zero => simp [pelLoop]
  | succ f =>
    cases s with
    | nil => exact absurd rfl hs
    | cons c r =>
      conv => lhs; unfold pelLoop
      conv => rhs; unfold pelLoop
      simp [skipSpaces, isSpace]

theorem pelLoop_nil (O : Oracle) (f : Nat) (acc : List Q) : pelLoop O (f + 1) [] acc = .ok (acc, []) := by
  simp [pelLoop]

theorem tokIs_some_iff (t : Token) (k : Nat) : tokIs (some t) k = decide (t.typ = k) := by simp [tokIs]

/-- the loop stops in front of a closing parenthesis (after an optional blank) -/
theorem pelLoop_close (O : Oracle) (f : Nat) (pad : Bool) (rest : B) (acc : List Q) :
    pelLoop O (f + 1) ((if pad then [32] else []) ++ 41 :: rest) acc = .ok (acc, 41 :: rest) := by
  have hsk : skipSpaces ((if pad then [32] else []) ++ 41 :: rest) = 41 :: rest := by
    cases pad <;> simp [skipSpaces, isSpace]
  unfold pelLoop
  cases hb : (if pad then [32] else []) ++ 41 :: rest with
  | nil => cases pad <;> simp at hb
  | cons c r =>
    simp only
    rw [← hb, hsk]
    simp [nextTokenIgnoreErr, token_close, C07.bind_ok, tokIs, tokParenClose]

/-- one turn of the loop on a rendered expression -/
theorem pelLoop_step (O : Oracle) (e : E) (x : Q) (rest : B) (f : Nat) (acc : List Q) (hg : GoodE e)
    (hf : followOK rest = true)
    (hpe : parseExpr O f (renderE e ++ rest) = .ok (some x, (renderE e).length)) :
    pelLoop O (f + 1) (renderE e ++ rest) acc = pelLoop O f rest (acc ++ [x]) := by
  obtain ⟨c, r, hr, hsp⟩ := renderE_head e hg
  obtain ⟨tok, htok, hnc, hno, _⟩ := firstTok_exists e hg
  conv => lhs; unfold pelLoop
  have hcons : renderE e ++ rest = c :: (r ++ rest) := by rw [hr]; rfl
  rw [hcons]
  simp only
  rw [skipSpaces_of_head hsp, ← hcons]
  have hnt : nextTokenIgnoreErr (renderE e ++ rest) = .ok (some tok) := by
    simp [nextTokenIgnoreErr, htok rest hf]
  rw [hnt]
  simp only [C07.bind_ok, tokIs, hnc, hno, decide_false, Bool.false_eq_true, if_false]
  rw [hpe]
  simp only [C07.bind_ok, sliceFrom_append]

theorem renderC_ne_nil (c : Cj) (h : GoodC c) : renderC c ≠ [] := by
  have := nC_le c h
  have h1 : 1 ≤ nC c := by cases c <;> simp [nC] <;> omega
  intro h0; rw [h0] at this; simp at this; omega

theorem renderQ_ne_nil (q : Qy) (h : GoodQ q) : renderQ q ≠ [] := by
  cases q with
  | one c => simp only [GoodQ] at h; simpa [renderQ] using renderC_ne_nil c h
  | or c r => simp [renderQ]

theorem renderQ_ne_nil_append (q : Qy) (h : GoodQ q) (rest : B) : renderQ q ++ rest ≠ [] := by
  have := renderQ_ne_nil q h
  cases hq : renderQ q with
  | nil => exact absurd hq this
  | cons c r => simp

mutual
/-- **`parseExpr` reads a rendered expression back** as the item `itemE` and consumes exactly its rendering -/
theorem rt_E (O : Oracle) : ∀ (e : E) (x : Q) (rest : B) (fuel : Nat), GoodE e → followOK rest = true →
    itemE O e = .ok x → 3 * (renderE e ++ rest).length + 1 ≤ fuel →
    parseExpr O fuel (renderE e ++ rest) = .ok (some x, (renderE e).length)
  | .atom f a q t n, x, rest, fuel, hg, hf, hx, hfuel => by
    cases fuel with
    | zero => omega
    | succ fu =>
      have hga := goodE_atom hg
      obtain ⟨c, r, hr, hsp⟩ := renderE_head _ hg
      unfold parseExpr
      simp only
      have hcons : renderE (.atom f a q t n) ++ rest = c :: (r ++ rest) := by rw [hr]; rfl
      rw [hcons, skipSpaces_of_head hsp, ← hcons, token_roundtrip f a q t n rest hga hf]
      simp only [C07.bind_ok, sliceFrom_append]
      have h1 : tokTypeOf f ≠ tokParenOpen := by cases f <;> decide
      have h2 : tokTypeOf f ≠ tokNegate := by cases f <;> decide
      simp only [h1, h2, if_false]
      simp only [itemE] at hx
      obtain ⟨r', hr', hx'⟩ := bind_eq_ok hx
      have hat : atomOf O ⟨tokTypeOf f, tokTextOf f t n, renderE (.atom f a q t n)⟩ = .ok r' := hr'
      rw [hat]
      cases r' with
      | none => cases hx'
      | some y =>
        cases hx'
        simp only [C07.bind_ok, subLen_append]
  | .caseD fl, x, rest, fuel, hg, hf, hx, hfuel => by
    cases fuel with
    | zero => omega
    | succ fu =>
      obtain ⟨c, r, hr, hsp⟩ := renderE_head _ hg
      unfold parseExpr
      simp only
      have hcons : renderE (.caseD fl) ++ rest = c :: (r ++ rest) := by rw [hr]; rfl
      rw [hcons, skipSpaces_of_head hsp, ← hcons, token_case fl rest hf]
      simp only [C07.bind_ok, sliceFrom_append]
      simp only [itemE, Outcome.ok.injEq] at hx
      subst hx
      have hat : atomOf O ⟨tokCase, caseWord fl, renderE (.caseD fl)⟩ = .ok (some (.caseQ (caseWord fl))) := by
        unfold atomOf
        rw [if_pos rfl]
        have : caseWord fl = bYes ∨ caseWord fl = bNo ∨ caseWord fl = bAuto := by
          unfold caseWord; split <;> simp
        rw [if_pos this]
      simp only [show tokCase ≠ tokParenOpen by decide, show tokCase ≠ tokNegate by decide, if_false, hat,
        C07.bind_ok, subLen_append]
  | .typeD a v, x, rest, fuel, hg, hf, hx, hfuel => by
    cases fuel with
    | zero => omega
    | succ fu =>
      obtain ⟨c, r, hr, hsp⟩ := renderE_head _ hg
      unfold parseExpr
      simp only
      have hcons : renderE (.typeD a v) ++ rest = c :: (r ++ rest) := by rw [hr]; rfl
      rw [hcons, skipSpaces_of_head hsp, ← hcons, token_type a v rest hf]
      simp only [C07.bind_ok, sliceFrom_append]
      simp only [itemE, Outcome.ok.injEq] at hx
      subst hx
      have hat : atomOf O ⟨tokType, typeWord v, renderE (.typeD a v)⟩ = .ok (some (.type (typeNum v) .nil)) := by
        rcases v with _ | _ | _ | v <;> rfl
      simp only [show tokType ≠ tokParenOpen by decide, show tokType ≠ tokNegate by decide, if_false, hat,
        C07.bind_ok, subLen_append]
  | .neg e, x, rest, fuel, hg, hf, hx, hfuel => by
    cases fuel with
    | zero => omega
    | succ fu =>
      simp only [GoodE] at hg
      simp only [itemE] at hx
      obtain ⟨y, hy, hx'⟩ := bind_eq_ok hx
      have hnd : isDirective y = false := by
        cases hd : isDirective y with
        | true => simp [hd] at hx'
        | false => rfl
      simp only [hnd, Bool.false_eq_true, if_false, Outcome.ok.injEq] at hx'
      subst hx'
      have hre : renderE (.neg e) = 45 :: renderE e := by simp [renderE]
      have hlen : 3 * (renderE e ++ rest).length + 1 ≤ fu := by
        rw [hre] at hfuel
        simp only [List.cons_append, List.length_cons, List.length_append] at hfuel ⊢
        omega
      have ih := rt_E O e y rest fu hg hf hy hlen
      unfold parseExpr
      rw [hre]
      simp only [List.cons_append]
      rw [skipSpaces_of_head (show isSpace 45 = false by decide), token_negate]
      simp only [C07.bind_ok]
      have hs : sliceFrom "parseExpr:b[len(tok.Input):]" (45 :: (renderE e ++ rest)) 1 = .ok (renderE e ++ rest) := by
        simp [sliceFrom]
      simp only [List.length_cons, List.length_nil, Nat.zero_add, hs, C07.bind_ok,
        show tokNegate ≠ tokParenOpen by decide, if_false, if_true, ih, hnd, Bool.false_eq_true, sliceFrom_append]
      have : subLen "parseExpr:len(in)-len(b)" (45 :: (renderE e ++ rest)) rest = .ok ((45 :: renderE e).length) :=
        subLen_append _ (45 :: renderE e) rest
      rw [this]
      simp [C07.bind_ok]
  | .grp pl pr q, x, rest, fuel, hg, hf, hx, hfuel => by
    cases fuel with
    | zero => omega
    | succ fu =>
      simp only [GoodE] at hg
      obtain ⟨hgq, hopen⟩ := hg
      simp only [itemE] at hx
      obtain ⟨its, hits, hx1⟩ := bind_eq_ok hx
      obtain ⟨qs, hqs, hpo⟩ := bind_eq_ok hx1
      -- the input, split at the parentheses
      let padL : B := if pl then [32] else []
      let padR : B := if pr then [32] else []
      have hrender : renderE (.grp pl pr q) = 40 :: (padL ++ renderQ q ++ padR ++ [41]) := by
        simp only [renderE, padL, padR, List.cons_append, List.nil_append, List.append_assoc]
      have hinp : renderE (.grp pl pr q) ++ rest = 40 :: ((padL ++ renderQ q ++ padR) ++ 41 :: rest) := by
        rw [hrender]; simp
      have hlenq := nQ_le q hgq
      cases fu with
      | zero =>
        rw [hinp] at hfuel; simp at hfuel
      | succ f2 =>
        -- the token loop of the inner parseExprList
        have hloop : pelLoop O f2 ((padL ++ renderQ q ++ padR) ++ 41 :: rest) [] = .ok (its, 41 :: rest) := by
          have hL : (renderE (.grp pl pr q) ++ rest).length =
              1 + padL.length + (renderQ q).length + padR.length + 1 + rest.length := by
            rw [hinp]; simp; omega
          have hf2 : f2 = (f2 - nQ q) + nQ q := by omega
          have hstrip : pelLoop O f2 ((padL ++ renderQ q ++ padR) ++ 41 :: rest) [] =
              pelLoop O f2 (renderQ q ++ (padR ++ 41 :: rest)) [] := by
            cases pl with
            | true =>
              simp only [padL, if_true, List.cons_append, List.nil_append, List.append_assoc]
              exact pelLoop_skip O f2 _ [] (by simp [renderQ_ne_nil q hgq])
            | false => simp [padL]
          rw [hstrip, hf2]
          have hfo : followOK (padR ++ 41 :: rest) = true := by cases pr <;> simp [padR, followOK]
          have hb : 3 * (renderQ q ++ (padR ++ 41 :: rest)).length + 2 ≤ (f2 - nQ q) + nQ q := by
            simp only [List.length_append, List.length_cons] at hL hfuel ⊢
            omega
          rw [rt_Q O q its (padR ++ 41 :: rest) (f2 - nQ q) [] hgq hfo hits hb]
          have hpos : f2 - nQ q = (f2 - nQ q - 1) + 1 := by
            simp only [List.length_append, List.length_cons] at hL hfuel
            omega
          rw [hpos, List.nil_append]
          exact pelLoop_close O _ pr rest its
        unfold parseExpr
        simp only
        rw [hinp, skipSpaces_of_head (show isSpace 40 = false by decide), ← hinp, hopen rest]
        simp only [C07.bind_ok, parenOpenTok, List.length_cons, List.length_nil, Nat.zero_add, if_true]
        have hs1 : sliceFrom "parseExpr:b[len(tok.Input):]" (renderE (.grp pl pr q) ++ rest) 1 =
            .ok ((padL ++ renderQ q ++ padR) ++ 41 :: rest) := by
          rw [hinp]; simp [sliceFrom]
        rw [hs1]
        simp only [C07.bind_ok]
        have hpel : parseExprList O (f2 + 1) ((padL ++ renderQ q ++ padR) ++ 41 :: rest) =
            .ok (qs, (padL ++ renderQ q ++ padR).length) := by
          unfold parseExprList
          rw [hloop]
          simp only [C07.bind_ok, hqs, subLen_append]
        rw [hpel]
        simp only [C07.bind_ok, sliceFrom_append, token_close, tokIs, decide_true, if_true, tokInputLen,
          List.length_cons, List.length_nil, Nat.zero_add]
        have hs2 : sliceFrom "parseExpr:b[len(pTok.Input):]" (41 :: rest) 1 = .ok rest := by simp [sliceFrom]
        rw [hs2]
        simp only [C07.bind_ok, hpo, subLen_append]
/-- the token loop on a rendered conjunction collects its items -/
theorem rt_C (O : Oracle) : ∀ (c : Cj) (xs : List Q) (rest : B) (g : Nat) (acc : List Q), GoodC c →
    followOK rest = true → itemsC O c = .ok xs → 3 * (renderC c ++ rest).length + 2 ≤ g + nC c →
    pelLoop O (g + nC c) (renderC c ++ rest) acc = pelLoop O g rest (acc ++ xs)
  | .one e, xs, rest, g, acc, hg, hf, hx, hb => by
    simp only [GoodC] at hg
    simp only [itemsC] at hx
    obtain ⟨x, hx1, hx2⟩ := bind_eq_ok hx
    cases hx2
    simp only [nC, renderC] at hb ⊢
    exact pelLoop_step O e x rest g acc hg hf (rt_E O e x rest g hg hf hx1 (by omega))
  | .cons e r, xs, rest, g, acc, hg, hf, hx, hb => by
    simp only [GoodC] at hg
    simp only [itemsC] at hx
    obtain ⟨x, hx1, hx2⟩ := bind_eq_ok hx
    obtain ⟨xs', hxs, hx3⟩ := bind_eq_ok hx2
    cases hx3
    have hpos := renderE_length_pos e hg.1
    have hrc : renderC (.cons e r) ++ rest = renderE e ++ (32 :: (renderC r ++ rest)) := by simp [renderC]
    have hn : nC (.cons e r) = 1 + nC r := rfl
    rw [hrc, hn] at hb
    rw [hrc, hn]
    simp only [List.length_append, List.length_cons] at hb
    have hfu : g + (1 + nC r) = (g + nC r) + 1 := by omega
    rw [hfu]
    have hfo : followOK (32 :: (renderC r ++ rest)) = true := by simp [followOK]
    have hE := rt_E O e x (32 :: (renderC r ++ rest)) (g + nC r) hg.1 hfo hx1
      (by simp only [List.length_append, List.length_cons]; omega)
    have hstep := pelLoop_step O e x (32 :: (renderC r ++ rest)) (g + nC r) acc hg.1 hfo hE
    have hskip := pelLoop_skip O (g + nC r) (renderC r ++ rest) (acc ++ [x])
      (by have := renderC_ne_nil r hg.2; cases hr : renderC r with
          | nil => exact absurd hr this
          | cons c t => simp)
    have ih := rt_C O r xs' rest g (acc ++ [x]) hg.2 hf hxs (by simp only [List.length_append]; omega)
    rw [hstep, hskip, ih]
    simp
/-- the token loop on a rendered query collects its items, `orOp` between the alternatives -/
theorem rt_Q (O : Oracle) : ∀ (q : Qy) (its : List Q) (rest : B) (g : Nat) (acc : List Q), GoodQ q →
    followOK rest = true → itemsQ O q = .ok its → 3 * (renderQ q ++ rest).length + 2 ≤ g + nQ q →
    pelLoop O (g + nQ q) (renderQ q ++ rest) acc = pelLoop O g rest (acc ++ its)
  | .one c, its, rest, g, acc, hg, hf, hx, hb => by
    simp only [GoodQ] at hg
    simp only [itemsQ] at hx
    simp only [nQ, renderQ] at hb ⊢
    exact rt_C O c its rest g acc hg hf hx hb
  | .or c r, its, rest, g, acc, hg, hf, hx, hb => by
    simp only [GoodQ] at hg
    simp only [itemsQ] at hx
    obtain ⟨a, ha, hx2⟩ := bind_eq_ok hx
    obtain ⟨b, hb', hx3⟩ := bind_eq_ok hx2
    cases hx3
    have hlc := nC_le c hg.1
    have hrq : renderQ (.or c r) ++ rest = renderC c ++ (32 :: 111 :: 114 :: 32 :: (renderQ r ++ rest)) := by
      simp [renderQ]
    have hn : nQ (.or c r) = nC c + 1 + nQ r := rfl
    rw [hrq, hn] at hb
    rw [hrq, hn]
    simp only [List.length_append, List.length_cons] at hb
    have hfu : g + (nC c + 1 + nQ r) = (g + nQ r + 1) + nC c := by omega
    rw [hfu]
    have hfo : followOK (32 :: 111 :: 114 :: 32 :: (renderQ r ++ rest)) = true := by simp [followOK]
    have hC := rt_C O c a (32 :: 111 :: 114 :: 32 :: (renderQ r ++ rest)) (g + nQ r + 1) acc hg.1 hfo ha
      (by simp only [List.length_append, List.length_cons]; omega)
    have hskip1 := pelLoop_skip O (g + nQ r + 1) (111 :: 114 :: 32 :: (renderQ r ++ rest)) (acc ++ a) (by simp)
    -- the `or` turn
    have hor : pelLoop O (g + nQ r + 1) (111 :: 114 :: 32 :: (renderQ r ++ rest)) (acc ++ a) =
        pelLoop O (g + nQ r) (32 :: (renderQ r ++ rest)) (acc ++ a ++ [.orOp]) := by
      conv => lhs; unfold pelLoop
      simp only
      rw [skipSpaces_of_head (show isSpace 111 = false by decide)]
      have ht := token_or (32 :: (renderQ r ++ rest)) (by simp [followOK])
      simp only [List.cons_append, List.nil_append] at ht
      simp only [nextTokenIgnoreErr, ht, C07.bind_ok, tokIs, show tokOr ≠ tokParenClose by decide, decide_false,
        Bool.false_eq_true, if_false, decide_true, if_true, tokInputLen, List.length_cons, List.length_nil]
      simp [sliceFrom, C07.bind_ok]
    have hskip2 := pelLoop_skip O (g + nQ r) (renderQ r ++ rest) (acc ++ a ++ [.orOp]) (renderQ_ne_nil_append r hg.2 rest)
    have ih := rt_Q O r b rest g (acc ++ a ++ [.orOp]) hg.2 hf hb' (by simp only [List.length_append]; omega)
    rw [hC, hskip1, hor, hskip2, ih]
    simp
end

/-- **`Parse` on a rendered query** is `abstractParse`: the parser's own post-processing (`finishList`,
    `parseOperators`, `stripCaseScopes`, `Simplify`) applied to the items the grammar tree stands for -/
theorem parse_render (O : Oracle) (g : Qy) (q : Q) (hg : GoodQ g) (h : abstractParse O g = .ok q) :
    parse O (renderQ g) = .ok q := by
  unfold abstractParse abstractTree at h
  obtain ⟨t, ht, hsimp⟩ := bind_eq_ok h
  obtain ⟨its, hits, h2⟩ := bind_eq_ok ht
  obtain ⟨qs, hqs, h3⟩ := bind_eq_ok h2
  obtain ⟨r, hr, h4⟩ := bind_eq_ok h3
  cases h4
  have hn := nQ_le g hg
  have hloop : pelLoop O (3 * (renderQ g).length + 2) (renderQ g) [] = .ok (its, []) := by
    have hf : 3 * (renderQ g).length + 2 = (3 * (renderQ g).length + 2 - nQ g) + nQ g := by omega
    have := rt_Q O g its [] (3 * (renderQ g).length + 2 - nQ g) [] hg rfl hits (by simp; omega)
    simp only [List.append_nil, List.nil_append] at this
    rw [hf, this]
    have hp : 3 * (renderQ g).length + 2 - nQ g = (3 * (renderQ g).length + 1 - nQ g) + 1 := by omega
    rw [hp]
    exact pelLoop_nil O _ its
  unfold parse
  have hpel : parseExprList O (parseFuel (renderQ g)) (renderQ g) = .ok (qs, (renderQ g).length) := by
    unfold parseFuel parseExprList
    rw [hloop]
    simp only [C07.bind_ok, hqs]
    simp [subLen, C07.bind_ok]
  rw [hpel]
  simp only [C07.bind_ok, ne_eq, not_true_eq_false, if_false, hr]
  exact hsimp

/-- a group written with a blank after its opening parenthesis is read as a group -/
theorem opens_of_padL (pr : Bool) (q : Qy) (rest : B) :
    nextToken (renderE (.grp true pr q) ++ rest) = .ok (some parenOpenTok) := by
  have : renderE (.grp true pr q) ++ rest = 40 :: 32 :: (renderQ q ++ (if pr then [32] else []) ++ [41] ++ rest) := by
    simp [renderE]
  rw [this]
  exact token_open_pad _

end ZoektModel.C06
