/-
C06 — which parenthesised groups the tokenizer reads as groups, as a decidable predicate: `opensAsGroup s` holds
when the tokenizer's loop, started on the rendering of the group alone, stops at a blank while a parenthesis is
still open, with a text that starts with `(` — the code's own condition `foundSpace && cur.Text[0] == '('`.
What comes after the group cannot change that (`ntLoop_local`).
-/
import ZoektModel.C06.ParseRT
namespace ZoektModel.C06
open ZoektModel ZoektModel.C07

theorem pslLoop_local : ∀ (l lit rest x l' : B), pslLoop l lit = .ok (x, l') → pslLoop (l ++ rest) lit = .ok (x, l' ++ rest)
  | [], lit, rest, x, l', h => by simp [pslLoop] at h
  | c :: r, lit, rest, x, l', h => by
    unfold pslLoop at h
    simp only [List.cons_append]
    unfold pslLoop
    split
    · rename_i hc
      simp only [hc, if_true, Outcome.ok.injEq, Prod.mk.injEq] at h
      obtain ⟨rfl, rfl⟩ := h
      rfl
    · rename_i hc
      simp only [hc, if_false] at h
      split
      · rename_i hc2
        simp only [hc2, if_true] at h
        cases r with
        | nil => cases h
        | cons c2 r2 => exact pslLoop_local r2 _ rest x l' h
      · rename_i hc2
        simp only [hc2, if_false] at h
        exact pslLoop_local r _ rest x l' h

theorem psl_local (l rest t : B) (n : Nat) (h : parseStringLiteral l = .ok (t, n)) :
    parseStringLiteral (l ++ rest) = .ok (t, n) ∧ n ≤ l.length := by
  unfold parseStringLiteral at h
  obtain ⟨left, hl, h2⟩ := bind_eq_ok h
  obtain ⟨r, hr, h3⟩ := bind_eq_ok h2
  obtain ⟨m, hm, h4⟩ := bind_eq_ok h3
  obtain ⟨x, l'⟩ := r
  simp only [Outcome.ok.injEq, Prod.mk.injEq] at h4
  obtain ⟨rfl, rfl⟩ := h4
  cases l with
  | nil => simp [sliceFrom] at hl
  | cons c l0 =>
    have hleft : left = l0 := by simp [sliceFrom] at hl; exact hl.symm
    subst hleft
    have hsafe := pslLoop_safe left []
    rw [hr] at hsafe
    simp only [Safe] at hsafe
    have hm' : m = (c :: left).length - l'.length := by
      simp only [subLen] at hm
      split at hm
      · cases hm; rfl
      · cases hm
    refine ⟨?_, by rw [hm']; omega⟩
    unfold parseStringLiteral
    have hs : sliceFrom "parseStringLiteral:in[1:]" (c :: left ++ rest) 1 = .ok (left ++ rest) := by simp [sliceFrom]
    rw [hs]
    simp only [C07.bind_ok]
    rw [pslLoop_local left [] rest x l' hr]
    simp only [C07.bind_ok]
    have : subLen "parseStringLiteral:len(in)-len(left)" (c :: left ++ rest) (l' ++ rest) = .ok m := by
      simp only [subLen, List.cons_append, List.length_cons, List.length_append]
      rw [if_pos (by omega), hm']
      congr 1
      simp only [List.length_cons]
      omega
    rw [this]
    rfl

/-- if the tokenizer's loop stops at a blank inside an open parenthesis, appending input does not change where -/
theorem ntLoop_local : ∀ (fuel : Nat) (s : B) (pc : Nat) (text left text' : B),
    ntLoop fuel s pc text = .ok (left, text', true) →
    ∀ (rest : B) (k : Nat), ntLoop (fuel + k) (s ++ rest) pc text = .ok (left ++ rest, text', true)
  | 0, s, pc, text, left, text', h => by simp [ntLoop] at h
  | fuel + 1, s, pc, text, left, text', h => by
    intro rest k
    have hfu : fuel + 1 + k = (fuel + k) + 1 := by omega
    rw [hfu]
    unfold ntLoop at h
    cases s with
    | nil => simp at h
    | cons c r =>
      simp only at h
      simp only [List.cons_append]
      unfold ntLoop
      simp only
      split
      · rename_i hc
        subst hc
        simp only [if_true] at h
        exact ntLoop_local fuel r _ _ left text' h rest k
      · rename_i hc
        simp only [hc, if_false] at h
        split
        · rename_i hc1
          subst hc1
          simp only [if_true] at h
          split
          · rename_i hpc
            simp only [hpc, if_true] at h
            split at h <;> simp at h
          · rename_i hpc
            simp only [hpc, if_false] at h
            exact ntLoop_local fuel r _ _ left text' h rest k
        · rename_i hc1
          simp only [hc1, if_false] at h
          split
          · rename_i hc2
            subst hc2
            simp only [if_true] at h
            obtain ⟨pr, hpr, h2⟩ := bind_eq_ok h
            obtain ⟨left1, hl1, h3⟩ := bind_eq_ok h2
            obtain ⟨t, n⟩ := pr
            have hloc := psl_local (34 :: r) rest t n hpr
            simp only [List.cons_append] at hloc
            rw [hloc.1]
            simp only [C07.bind_ok]
            have hl1' : left1 = (34 :: r).drop n := by
              simp only [sliceFrom] at hl1
              split at hl1
              · cases hl1; rfl
              · cases hl1
            have hs : sliceFrom "nextToken:left[n:]" (34 :: (r ++ rest)) n = .ok (left1 ++ rest) := by
              have : 34 :: (r ++ rest) = (34 :: r) ++ rest := rfl
              rw [this, hl1']
              simp only [sliceFrom, List.length_append]
              rw [if_pos (by have := hloc.2; omega), List.drop_append_of_le_length hloc.2]
            rw [hs]
            simp only [C07.bind_ok]
            exact ntLoop_local fuel left1 _ _ left text' h3 rest k
          · rename_i hc2
            simp only [hc2, if_false] at h
            split
            · rename_i hc3
              subst hc3
              simp only [if_true] at h
              cases r with
              | nil => simp at h
              | cons c2 r2 => exact ntLoop_local fuel r2 _ _ left text' h rest k
            · rename_i hc3
              simp only [hc3, if_false] at h
              split
              · rename_i hc4
                simp only [hc4, if_true, Outcome.ok.injEq, Prod.mk.injEq] at h
                obtain ⟨rfl, rfl, hfs⟩ := h
                simp [hfs]
              · rename_i hc4
                simp only [hc4, if_false] at h
                exact ntLoop_local fuel r _ _ left text' h rest k

/-- the code's condition for "this `(` opens a group", evaluated on the rendering of the group alone -/
def opensAsGroup (s : B) : Bool :=
  match s.head?, ntLoop (s.length + 1) s 0 [] with
  | some 40, .ok (_, t0 :: _, true) => t0 == 40
  | _, _ => false

theorem nextToken_of_opens (s : B) (h : opensAsGroup s = true) (rest : B) :
    nextToken (s ++ rest) = .ok (some parenOpenTok) := by
  unfold opensAsGroup at h
  cases s with
  | nil => simp at h
  | cons c0 s' =>
    simp only [List.head?_cons] at h
    split at h
    · rename_i left t0 tr hhead hrun
      simp only [Option.some.injEq] at hhead
      subst hhead
      simp only [beq_iff_eq] at h
      subst h
      have hloc := ntLoop_local _ _ _ _ _ _ hrun rest rest.length
      unfold nextToken
      simp only [List.cons_append, show (40 : Nat) ≠ 45 by decide, if_false]
      have hfu : (40 :: (s' ++ rest)).length + 1 = (40 :: s').length + 1 + rest.length := by
        simp only [List.length_cons, List.length_append]; omega
      rw [hfu]
      simp only [List.cons_append] at hloc
      rw [hloc]
      simp only [C07.bind_ok, Bool.true_and, decide_true, if_true]
      have h1 : sliceTo "nextToken:cur.Text[:1]" (40 :: tr) 1 = .ok [40] := by simp [sliceTo]
      have h2 : sliceTo "nextToken:in[:1]" (40 :: (s' ++ rest)) 1 = .ok [40] := by simp [sliceTo]
      rw [h1, C07.bind_ok, h2, C07.bind_ok]
      have : setType ⟨tokText, [40], [40]⟩ = .ok ⟨tokParenOpen, [40], [40]⟩ := by rfl
      rw [this]; rfl
    · cases h

mutual
/-- **the renderings covered by `C06_parse_sem_partial`**, decidable: every atom is `goodAtom` (unquoted values have
    only plain bytes — no blank, no quote —, backslash escapes and balanced parentheses; bare patterns are non-empty, not a lone
    parenthesis, and when unquoted do not start with `-` or a field prefix and are not `or`); every group is
    one the tokenizer opens as a group (`opensAsGroup`: a blank is reached while its parenthesis is open —
    the complement is the known finding "tight group") -/
def goodE : E → Bool
  | .atom f _ q t n => goodAtom f q t n
  | .caseD _ => true
  | .typeD _ _ => true
  | .neg e => goodE e
  | .grp pl pr q => goodQ q && opensAsGroup (renderE (.grp pl pr q))
def goodC : Cj → Bool
  | .one e => goodE e
  | .cons e r => goodE e && goodC r
def goodQ : Qy → Bool
  | .one c => goodC c
  | .or c r => goodC c && goodQ r
end

mutual
theorem GoodE_of_goodE : ∀ e, goodE e = true → GoodE e
  | .atom f a q t n, h => by simpa [goodE, GoodE] using h
  | .caseD _, _ => by simp [GoodE]
  | .typeD _ _, _ => by simp [GoodE]
  | .neg e, h => by simp only [goodE] at h; simp only [GoodE]; exact GoodE_of_goodE e h
  | .grp pl pr q, h => by
    simp only [goodE, Bool.and_eq_true] at h
    simp only [GoodE]
    exact ⟨GoodQ_of_goodQ q h.1, fun rest => nextToken_of_opens _ h.2 rest⟩
theorem GoodC_of_goodC : ∀ c, goodC c = true → GoodC c
  | .one e, h => by simp only [goodC] at h; simp only [GoodC]; exact GoodE_of_goodE e h
  | .cons e r, h => by
    simp only [goodC, Bool.and_eq_true] at h
    simp only [GoodC]
    exact ⟨GoodE_of_goodE e h.1, GoodC_of_goodC r h.2⟩
theorem GoodQ_of_goodQ : ∀ q, goodQ q = true → GoodQ q
  | .one c, h => by simp only [goodQ] at h; simp only [GoodQ]; exact GoodC_of_goodC c h
  | .or c r, h => by
    simp only [goodQ, Bool.and_eq_true] at h
    simp only [GoodQ]
    exact ⟨GoodC_of_goodC c h.1, GoodQ_of_goodQ r h.2⟩
end

/-- a blank right after the opening parenthesis is enough -/
theorem opensAsGroup_padL (pr : Bool) (q : Qy) : opensAsGroup (renderE (.grp true pr q)) = true := by
  have hr : renderE (.grp true pr q) = 40 :: 32 :: (renderQ q ++ (if pr then [32] else []) ++ [41]) := by
    simp [renderE]
  rw [hr]
  unfold opensAsGroup
  simp only [List.head?_cons, List.length_cons]
  have : ntLoop ((renderQ q ++ (if pr = true then [32] else []) ++ [41]).length + 1 + 1 + 1)
      (40 :: 32 :: (renderQ q ++ (if pr then [32] else []) ++ [41])) 0 [] =
      .ok (32 :: (renderQ q ++ (if pr then [32] else []) ++ [41]), [40], true) := by
    unfold ntLoop
    simp only [if_true]
    unfold ntLoop
    simp
  rw [this]
  simp

end ZoektModel.C06
