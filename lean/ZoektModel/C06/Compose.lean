/-
C06 — the tree the parser builds from the items of a grammar tree selects what the documentation says:
`abstractTree g` (items → `finishList` → `parseOperators`, per group) evaluates to `semQ g`.
-/
import ZoektModel.C06.Lemmas
namespace ZoektModel.C06
open ZoektModel ZoektModel.C07

/-! ### what `scanDirectives` computes -/

def nonDir (l : List Q) : List Q := l.filter (fun q => !isDirective q)

def lastCase : List Q → B → B
  | [], k => k
  | .caseQ f :: r, _ => lastCase r f
  | _ :: r, k => lastCase r k

def anyCase : List Q → Bool → Bool
  | [], h => h
  | .caseQ _ :: r, _ => anyCase r true
  | _ :: r, h => anyCase r h

def minType : List Q → Nat → Nat
  | [], t => t
  | .type ty _ :: r, t => minType r (if ty < t then ty else t)
  | _ :: r, t => minType r t

theorem scan_eq : ∀ (its : List Q) (k : B) (h : Bool) (t : Nat) (acc : List Q),
    scanDirectives its k h t acc = (lastCase its k, anyCase its h, minType its t, acc ++ nonDir its)
  | [], k, h, t, acc => by simp [scanDirectives, lastCase, anyCase, minType, nonDir]
  | q :: r, k, h, t, acc => by
    cases q <;>
      simp [scanDirectives, lastCase, anyCase, minType, nonDir, isDirective, scan_eq r, List.filter_cons]

theorem lastCase_nondir {x : Q} (h : isDirective x = false) (r : List Q) (k : B) : lastCase (x :: r) k = lastCase r k := by
  cases x <;> simp_all [lastCase, isDirective]
theorem anyCase_nondir {x : Q} (h : isDirective x = false) (r : List Q) (b : Bool) : anyCase (x :: r) b = anyCase r b := by
  cases x <;> simp_all [anyCase, isDirective]
theorem minType_nondir {x : Q} (h : isDirective x = false) (r : List Q) (t : Nat) : minType (x :: r) t = minType r t := by
  cases x <;> simp_all [minType, isDirective]
theorem nonDir_cons_nondir {x : Q} (h : isDirective x = false) (r : List Q) : nonDir (x :: r) = x :: nonDir r := by
  simp [nonDir, List.filter_cons, h]
theorem nonDir_cons_dir {x : Q} (h : isDirective x = true) (r : List Q) : nonDir (x :: r) = nonDir r := by
  simp [nonDir, List.filter_cons, h]
theorem nonDir_append (a b : List Q) : nonDir (a ++ b) = nonDir a ++ nonDir b := by simp [nonDir]

theorem lastCase_append : ∀ (a b : List Q) (k : B), lastCase (a ++ b) k = lastCase b (lastCase a k)
  | [], b, k => rfl
  | x :: a, b, k => by
    cases x <;> simp [lastCase, lastCase_append a b]
theorem anyCase_append : ∀ (a b : List Q) (h : Bool), anyCase (a ++ b) h = anyCase b (anyCase a h)
  | [], b, h => rfl
  | x :: a, b, h => by
    cases x <;> simp [anyCase, anyCase_append a b]
theorem minType_append : ∀ (a b : List Q) (t : Nat), minType (a ++ b) t = minType b (minType a t)
  | [], b, t => rfl
  | x :: a, b, t => by
    cases x <;> simp [minType, minType_append a b]

/-! ### shape of the item of an expression -/

theorem bind_eq_ok' {α β} {x : Outcome α} {f : α → Outcome β} {b : β} (h : x.bind f = .ok b) :
    ∃ a, x = .ok a ∧ f a = .ok b := by
  cases x with
  | ok a => exact ⟨a, rfl, h⟩
  | err e => cases h
  | panic s => cases h
  | diverge => cases h

theorem parseOperators_shape {qs : List Q} {r : Q} (h : parseOperators qs = .ok r) : ∃ cs, r = .or cs := by
  unfold parseOperators at h
  obtain ⟨a, _, h2⟩ := bind_eq_ok' h
  split at h2
  · cases h2
  · cases h2; exact ⟨_, rfl⟩

theorem regexpQuery_shape {O : Oracle} {t : B} {ct fl : Bool} {q : Q} (h : regexpQuery O t ct fl = .ok q) :
    (∃ p, classify O t = .lit p ∧ q = .substr p false fl ct t) ∨
    (∃ s a e, classify O t = .re s a e ∧ q = .regexp s e a false fl ct t) := by
  unfold regexpQuery at h
  split at h
  · cases h
  · rename_i p hp; cases h; exact Or.inl ⟨p, hp, rfl⟩
  · rename_i s a e hp; cases h; exact Or.inr ⟨s, a, e, hp, rfl⟩

/-! ### atoms -/

def modeOf (k : B) : CaseMode := if k = bYes then some true else if k = bNo then some false else none

/-- case sensitivity the documentation prescribes for pattern `t` under flavor `k` -/
def csOf (k t : B) : Bool := if k = bYes then true else if k = bNo then false else hasUpper t

theorem csOf_eq (k t : B) : (match modeOf k with | some b => b | none => hasUpper t) = csOf k t := by
  unfold modeOf csOf
  by_cases h1 : k = bYes
  · simp [h1]
  · by_cases h2 : k = bNo
    · subst h2; simp [show ¬ (bNo = bYes) by decide]
    · simp [h1, h2]

theorem semE_atom (O : Oracle) (c : Corpus) (cm : CaseMode) (f : Field) (a : Nat) (q : Bool) (t n : B) :
    semE O c cm (.atom f a q t n) =
      match keyOf O f t n with
      | none => fun _ => false
      | some k => c.truth k (if caseMatters f then (match cm with | some b => b | none => hasUpper t) else true) := by
  rfl

theorem evalQ_textAtom (c : Corpus) {q : Q} (h : isTextAtom q = true) : evalQ c q = atomPred c none q := by
  cases q <;> simp_all [isTextAtom, evalQ]

theorem setCase_textAtom (k : B) {q : Q} (h : isTextAtom q = true) : setCase k q = setCaseAtom k q := by
  cases q <;> simp_all [isTextAtom, setCase]

theorem textAtom_flags {q : Q} (h : isTextAtom q = true) : isDirective q = false ∧ isOrOp q = false := by
  cases q <;> simp_all [isTextAtom, isDirective, isOrOp]

/-- `case:auto` as computed by the code (`Substring.setCase`: pattern ≠ its ASCII-lowered self; `Regexp.setCase`:
    `LowerRegexp` changes the expression) agrees with the documentation's "the pattern has an upper-case letter".
    True of every plain literal (`auto_case_plain`); an assumption about `regexp/syntax` for the other patterns. -/
structure AutoCaseAgrees (O : Oracle) : Prop where
  lit : ∀ t p, classify O t = .lit p → decide (p ≠ toLowerAscii p) = hasUpper t
  re : ∀ t s a e, classify O t = .re s a e → a = hasUpper t

theorem modeOf_yes : modeOf bYes = some true := by decide
theorem modeOf_no : modeOf bNo = some false := by decide
theorem modeOf_auto : modeOf bAuto = none := by decide

theorem textAtom_eval (c : Corpus) {O : Oracle} (hO : AutoCaseAgrees O) {t : B} {ct fl : Bool} {q : Q}
    (h : regexpQuery O t ct fl = .ok q) (k : B) (hk : validK k) (ko : Option Nat) :
    atomPred c ko (setCaseAtom k q) = c.truth ⟨ko.getD (scopeKind fl ct), t, []⟩ (csOf k t) := by
  rcases regexpQuery_shape h with ⟨p, hp, rfl⟩ | ⟨s, a, e, hp, rfl⟩
  · have ha := hO.lit t p hp
    rcases hk with rfl | rfl | rfl
    · simp [setCaseAtom, atomPred, atomKeyOf, csOf]
    · simp [setCaseAtom, atomPred, atomKeyOf, csOf, bYes, bNo]
    · simp [setCaseAtom, atomPred, atomKeyOf, csOf, bYes, bNo, bAuto, ← ha]
  · have ha := hO.re t s a e hp
    rcases hk with rfl | rfl | rfl
    · simp [setCaseAtom, atomPred, atomKeyOf, csOf]
    · simp [setCaseAtom, atomPred, atomKeyOf, csOf, bYes, bNo]
    · simp [setCaseAtom, atomPred, atomKeyOf, csOf, bYes, bNo, bAuto, ha]

theorem itemE_atom {O : Oracle} {f : Field} {a : Nat} {qd : Bool} {t n : B} {x : Q}
    (h : itemE O (.atom f a qd t n) = .ok x) : atomOf O ⟨tokTypeOf f, tokTextOf f t n, []⟩ = .ok (some x) := by
  simp only [itemE] at h
  obtain ⟨r, hr, h2⟩ := bind_eq_ok' h
  cases r with
  | none => cases h2
  | some y => cases h2; exact hr

theorem splitColon_name (n t : B) (hn : 58 ∉ n) : splitColon (n ++ 58 :: t) = some (n, t) := by
  induction n with
  | nil => simp [splitColon]
  | cons c r ih =>
    have hc : c ≠ 58 := fun h => hn (by simp [h])
    have hr : 58 ∉ r := fun h => hn (by simp [h])
    simp [splitColon, hc, ih hr]

theorem yesNo_ok {text : B} {y nn : Nat} {w : String} {r : Option Q} (h : yesNo text y nn w = .ok r) :
    (text = bYes ∧ r = some (.rawConfig y)) ∨ (text = bNo ∧ r = some (.rawConfig nn)) := by
  unfold yesNo at h
  split at h
  · rename_i h1; cases h; exact Or.inl ⟨h1, rfl⟩
  · split at h
    · rename_i h1; cases h; exact Or.inr ⟨h1, rfl⟩
    · cases h

/-- **an atom of the grammar becomes a node that asks the documented question**, with the case sensitivity
    the documentation prescribes once an enclosing list applied flavor `k` -/
theorem atom_sem (c : Corpus) {O : Oracle} (hO : AutoCaseAgrees O) (f : Field) (a : Nat) (qd : Bool) (t n : B) (x : Q)
    (hfr : f ≠ .regex) (hmeta : 58 ∉ n) (hx : itemE O (.atom f a qd t n) = .ok x) (k : B) (hk : validK k) :
    isDirective x = false ∧ isOrOp x = false ∧
      evalQ c (setCase k x) = semE O c (modeOf k) (.atom f a qd t n) := by
  have hat := itemE_atom hx
  have hcs : ∀ tt : B, (match modeOf k with | some b => b | none => hasUpper tt) = csOf k tt := fun tt => csOf_eq k tt
  cases f with
  | regex => exact absurd rfl hfr
  | text =>
    have h1 : atomOf O ⟨tokText, t, []⟩ = (regexpQuery O t false false).bind fun q => .ok (some q) := rfl
    rw [show tokTypeOf .text = tokText from rfl, show tokTextOf .text t n = t from rfl, h1] at hat
    obtain ⟨q, hq, h2⟩ := bind_eq_ok' hat
    have hxq : x = q := by cases h2; rfl
    subst hxq
    have hta : isTextAtom x = true := (regexpQuery_safe O t false false).of_ok hq
    have hev := textAtom_eval c hO hq k hk none
    refine ⟨(textAtom_flags hta).1, (textAtom_flags hta).2, ?_⟩
    rw [setCase_textAtom k hta, evalQ_textAtom c (by rw [isTextAtom_setCaseAtom]; exact hta), hev, semE_atom]
    simp [keyOf, caseMatters, hcs, scopeKind]
  | content =>
    have h1 : atomOf O ⟨tokContent, t, []⟩ = (regexpQuery O t true false).bind fun q => .ok (some q) := rfl
    rw [show tokTypeOf .content = tokContent from rfl, show tokTextOf .content t n = t from rfl, h1] at hat
    obtain ⟨q, hq, h2⟩ := bind_eq_ok' hat
    have hxq : x = q := by cases h2; rfl
    subst hxq
    have hta : isTextAtom x = true := (regexpQuery_safe O t true false).of_ok hq
    have hev := textAtom_eval c hO hq k hk none
    refine ⟨(textAtom_flags hta).1, (textAtom_flags hta).2, ?_⟩
    rw [setCase_textAtom k hta, evalQ_textAtom c (by rw [isTextAtom_setCaseAtom]; exact hta), hev, semE_atom]
    simp [keyOf, caseMatters, hcs, scopeKind]
  | file =>
    have h1 : atomOf O ⟨tokFile, t, []⟩ = (regexpQuery O t false true).bind fun q => .ok (some q) := rfl
    rw [show tokTypeOf .file = tokFile from rfl, show tokTextOf .file t n = t from rfl, h1] at hat
    obtain ⟨q, hq, h2⟩ := bind_eq_ok' hat
    have hxq : x = q := by cases h2; rfl
    subst hxq
    have hta : isTextAtom x = true := (regexpQuery_safe O t false true).of_ok hq
    have hev := textAtom_eval c hO hq k hk none
    refine ⟨(textAtom_flags hta).1, (textAtom_flags hta).2, ?_⟩
    rw [setCase_textAtom k hta, evalQ_textAtom c (by rw [isTextAtom_setCaseAtom]; exact hta), hev, semE_atom]
    simp [keyOf, caseMatters, hcs, scopeKind]
  | sym =>
    have h1 : atomOf O ⟨tokSym, t, []⟩ =
        if t.isEmpty then .err "the sym: atom must have an argument"
        else (regexpQuery O t false false).bind fun q => .ok (some (.sym q)) := rfl
    rw [show tokTypeOf .sym = tokSym from rfl, show tokTextOf .sym t n = t from rfl, h1] at hat
    split at hat
    · cases hat
    · obtain ⟨q, hq, h2⟩ := bind_eq_ok' hat
      cases h2
      have hev := textAtom_eval c hO hq k hk (some 115)
      refine ⟨rfl, rfl, ?_⟩
      simp only [setCase, evalQ]
      rw [hev, semE_atom]
      simp [keyOf, caseMatters, hcs]
  | repo =>
    have h1 : atomOf O ⟨tokRepo, t, []⟩ = if O.compiles t then .ok (some (.repo t)) else .err "regexp compile" := rfl
    rw [show tokTypeOf .repo = tokRepo from rfl, show tokTextOf .repo t n = t from rfl, h1] at hat
    split at hat
    · cases hat
      simp [isDirective, isOrOp, setCase, setCaseAtom, evalQ, semE_atom, keyOf, caseMatters]
    · cases hat
  | branch =>
    have h1 : atomOf O ⟨tokBranch, t, []⟩ = .ok (some (.branch t)) := rfl
    rw [show tokTypeOf .branch = tokBranch from rfl, show tokTextOf .branch t n = t from rfl, h1] at hat
    cases hat
    simp [isDirective, isOrOp, setCase, setCaseAtom, evalQ, semE_atom, keyOf, caseMatters]
  | lang =>
    have h1 : atomOf O ⟨tokLang, t, []⟩ =
        match O.lang t with
        | none => .ok (some (.const false))
        | some cn => .ok (some (.lang cn)) := rfl
    rw [show tokTypeOf .lang = tokLang from rfl, show tokTextOf .lang t n = t from rfl, h1] at hat
    cases hl : O.lang t with
    | none =>
      rw [hl] at hat; cases hat
      simp [isDirective, isOrOp, setCase, setCaseAtom, evalQ, semE_atom, keyOf, hl]
    | some cn =>
      rw [hl] at hat; cases hat
      simp [isDirective, isOrOp, setCase, setCaseAtom, evalQ, semE_atom, keyOf, hl, caseMatters]
  | archived =>
    have h1 : atomOf O ⟨tokArchived, t, []⟩ = yesNo t 16 32 "archived" := rfl
    rw [show tokTypeOf .archived = tokArchived from rfl, show tokTextOf .archived t n = t from rfl, h1] at hat
    rcases yesNo_ok hat with ⟨rfl, h2⟩ | ⟨rfl, h2⟩ <;> cases h2 <;>
      simp [isDirective, isOrOp, setCase, setCaseAtom, evalQ, semE_atom, keyOf, caseMatters, bYes, bNo]
  | fork =>
    have h1 : atomOf O ⟨tokFork, t, []⟩ = yesNo t 4 8 "fork" := rfl
    rw [show tokTypeOf .fork = tokFork from rfl, show tokTextOf .fork t n = t from rfl, h1] at hat
    rcases yesNo_ok hat with ⟨rfl, h2⟩ | ⟨rfl, h2⟩ <;> cases h2 <;>
      simp [isDirective, isOrOp, setCase, setCaseAtom, evalQ, semE_atom, keyOf, caseMatters, bYes, bNo]
  | pub =>
    have h1 : atomOf O ⟨tokPublic, t, []⟩ = yesNo t 1 2 "public" := rfl
    rw [show tokTypeOf .pub = tokPublic from rfl, show tokTextOf .pub t n = t from rfl, h1] at hat
    rcases yesNo_ok hat with ⟨rfl, h2⟩ | ⟨rfl, h2⟩ <;> cases h2 <;>
      simp [isDirective, isOrOp, setCase, setCaseAtom, evalQ, semE_atom, keyOf, caseMatters, bYes, bNo]
  | metaF =>
    have h1 : atomOf O ⟨tokMeta, n ++ [58] ++ t, []⟩ =
        match splitColon (n ++ [58] ++ t) with
        | none => .err "invalid meta field syntax"
        | some (field, value) =>
          if O.compiles value then .ok (some (.metaQ field value)) else .err "invalid regexp in meta value" := rfl
    rw [show tokTypeOf .metaF = tokMeta from rfl, show tokTextOf .metaF t n = n ++ [58] ++ t from rfl, h1] at hat
    have hsp : splitColon (n ++ [58] ++ t) = some (n, t) := by
      have := splitColon_name n t hmeta
      simpa using this
    rw [hsp] at hat
    simp only at hat
    split at hat
    · cases hat
      simp [isDirective, isOrOp, setCase, setCaseAtom, evalQ, semE_atom, keyOf, caseMatters]
    · cases hat

end ZoektModel.C06
