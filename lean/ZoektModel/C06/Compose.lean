/-
C06 — the tree the parser builds from the items of a grammar tree selects what the documentation says:
`abstractTree g` (items → `finishList` → `parseOperators`, per group) evaluates to `semQ g`.
-/
import ZoektModel.C06.Lemmas
namespace ZoektModel.C06
open ZoektModel ZoektModel.C07

/-! ### what `scanDirectives` computes -/

def nonDir (l : List Q) : List Q := l.filter (fun q => !isDirective q)

def lastCase : List Q → B → B
  | [], k => k
  | .caseQ f :: r, _ => lastCase r f
  | _ :: r, k => lastCase r k

def anyCase : List Q → Bool → Bool
  | [], h => h
  | .caseQ _ :: r, _ => anyCase r true
  | _ :: r, h => anyCase r h

def minType : List Q → Nat → Nat
  | [], t => t
  | .type ty _ :: r, t => minType r (if ty < t then ty else t)
  | _ :: r, t => minType r t

theorem scan_eq : ∀ (its : List Q) (k : B) (h : Bool) (t : Nat) (acc : List Q),
    scanDirectives its k h t acc = (lastCase its k, anyCase its h, minType its t, acc ++ nonDir its)
  | [], k, h, t, acc => by simp [scanDirectives, lastCase, anyCase, minType, nonDir]
  | q :: r, k, h, t, acc => by
    cases q <;>
      simp [scanDirectives, lastCase, anyCase, minType, nonDir, isDirective, scan_eq r, List.filter_cons]

theorem lastCase_nondir {x : Q} (h : isDirective x = false) (r : List Q) (k : B) : lastCase (x :: r) k = lastCase r k := by
  cases x <;> simp_all [lastCase, isDirective]
theorem anyCase_nondir {x : Q} (h : isDirective x = false) (r : List Q) (b : Bool) : anyCase (x :: r) b = anyCase r b := by
  cases x <;> simp_all [anyCase, isDirective]
theorem minType_nondir {x : Q} (h : isDirective x = false) (r : List Q) (t : Nat) : minType (x :: r) t = minType r t := by
  cases x <;> simp_all [minType, isDirective]
theorem nonDir_cons_nondir {x : Q} (h : isDirective x = false) (r : List Q) : nonDir (x :: r) = x :: nonDir r := by
  simp [nonDir, List.filter_cons, h]
theorem nonDir_cons_dir {x : Q} (h : isDirective x = true) (r : List Q) : nonDir (x :: r) = nonDir r := by
  simp [nonDir, List.filter_cons, h]
theorem mem_of_mem_nonDir {x : Q} {l : List Q} (h : x ∈ nonDir l) : x ∈ l := (List.mem_filter.mp h).1
theorem nonDir_append (a b : List Q) : nonDir (a ++ b) = nonDir a ++ nonDir b := by simp [nonDir]

theorem lastCase_append : ∀ (a b : List Q) (k : B), lastCase (a ++ b) k = lastCase b (lastCase a k)
  | [], b, k => rfl
  | x :: a, b, k => by
    cases x <;> simp [lastCase, lastCase_append a b]
theorem anyCase_append : ∀ (a b : List Q) (h : Bool), anyCase (a ++ b) h = anyCase b (anyCase a h)
  | [], b, h => rfl
  | x :: a, b, h => by
    cases x <;> simp [anyCase, anyCase_append a b]
theorem minType_append : ∀ (a b : List Q) (t : Nat), minType (a ++ b) t = minType b (minType a t)
  | [], b, t => rfl
  | x :: a, b, t => by
    cases x <;> simp [minType, minType_append a b]

/-! ### shape of the item of an expression -/

theorem bind_eq_ok' {α β} {x : Outcome α} {f : α → Outcome β} {b : β} (h : x.bind f = .ok b) :
    ∃ a, x = .ok a ∧ f a = .ok b := by
  cases x with
  | ok a => exact ⟨a, rfl, h⟩
  | err e => cases h
  | panic s => cases h
  | diverge => cases h

theorem parseOperators_shape {qs : List Q} {r : Q} (h : parseOperators qs = .ok r) : ∃ cs, r = .or cs := by
  unfold parseOperators at h
  obtain ⟨a, _, h2⟩ := bind_eq_ok' h
  split at h2
  · cases h2
  · cases h2; exact ⟨_, rfl⟩

theorem regexpQuery_shape {O : Oracle} {t : B} {ct fl : Bool} {q : Q} (h : regexpQuery O t ct fl = .ok q) :
    (∃ p, classify O t = .lit p ∧ q = .substr p false fl ct t) ∨
    (∃ s a e, classify O t = .re s a e ∧ q = .regexp s e a false fl ct t) := by
  unfold regexpQuery at h
  split at h
  · cases h
  · rename_i p hp; cases h; exact Or.inl ⟨p, hp, rfl⟩
  · rename_i s a e hp; cases h; exact Or.inr ⟨s, a, e, hp, rfl⟩

/-! ### atoms -/

def modeOf (k : B) : CaseMode := if k = bYes then some true else if k = bNo then some false else none

/-- case sensitivity the documentation prescribes for pattern `t` under flavor `k` -/
def csOf (k t : B) : Bool := if k = bYes then true else if k = bNo then false else hasUpper t

theorem csOf_eq (k t : B) : (match modeOf k with | some b => b | none => hasUpper t) = csOf k t := by
  unfold modeOf csOf
  by_cases h1 : k = bYes
  · simp [h1]
  · by_cases h2 : k = bNo
    · subst h2; simp [show ¬ (bNo = bYes) by decide]
    · simp [h1, h2]

theorem semE_atom (O : Oracle) (c : Corpus) (cm : CaseMode) (f : Field) (a : Nat) (q : Bool) (t n : B) :
    semE O c cm (.atom f a q t n) =
      match keyOf O f t n with
      | none => fun _ => false
      | some k => c.truth k (if caseMatters f then (match cm with | some b => b | none => hasUpper t) else true) := by
  rfl

theorem evalQ_textAtom (c : Corpus) {q : Q} (h : isTextAtom q = true) : evalQ c q = atomPred c none q := by
  cases q <;> simp_all [isTextAtom, evalQ]

theorem setCase_textAtom (k : B) {q : Q} (h : isTextAtom q = true) : setCase k q = setCaseAtom k q := by
  cases q <;> simp_all [isTextAtom, setCase]

theorem textAtom_flags {q : Q} (h : isTextAtom q = true) : isDirective q = false ∧ isOrOp q = false := by
  cases q <;> simp_all [isTextAtom, isDirective, isOrOp]

/-- `case:auto` as computed by the code (`Substring.setCase`: pattern ≠ its ASCII-lowered self; `Regexp.setCase`:
    `LowerRegexp` changes the expression) agrees with the documentation's "the pattern has an upper-case letter".
    True of every plain literal (`auto_case_plain`); an assumption about `regexp/syntax` for the other patterns. -/
structure AutoCaseAgrees (O : Oracle) : Prop where
  lit : ∀ t p, classify O t = .lit p → decide (p ≠ toLowerAscii p) = hasUpper t
  re : ∀ t s a e, classify O t = .re s a e → a = hasUpper t

theorem modeOf_yes : modeOf bYes = some true := by decide
theorem modeOf_no : modeOf bNo = some false := by decide
theorem modeOf_auto : modeOf bAuto = none := by decide

theorem textAtom_eval (c : Corpus) {O : Oracle} (hO : AutoCaseAgrees O) {t : B} {ct fl : Bool} {q : Q}
    (h : regexpQuery O t ct fl = .ok q) (k : B) (hk : validK k) (ko : Option Nat) :
    atomPred c ko (setCaseAtom k q) = c.truth ⟨ko.getD (scopeKind fl ct), t, []⟩ (csOf k t) := by
  rcases regexpQuery_shape h with ⟨p, hp, rfl⟩ | ⟨s, a, e, hp, rfl⟩
  · have ha := hO.lit t p hp
    rcases hk with rfl | rfl | rfl
    · simp [setCaseAtom, atomPred, atomKeyOf, csOf]
    · simp [setCaseAtom, atomPred, atomKeyOf, csOf, bYes, bNo]
    · simp [setCaseAtom, atomPred, atomKeyOf, csOf, bYes, bNo, bAuto, ← ha]
  · have ha := hO.re t s a e hp
    rcases hk with rfl | rfl | rfl
    · simp [setCaseAtom, atomPred, atomKeyOf, csOf]
    · simp [setCaseAtom, atomPred, atomKeyOf, csOf, bYes, bNo]
    · simp [setCaseAtom, atomPred, atomKeyOf, csOf, bYes, bNo, bAuto, ha]

theorem itemE_atom {O : Oracle} {f : Field} {a : Nat} {qd : Bool} {t n : B} {x : Q}
    (h : itemE O (.atom f a qd t n) = .ok x) : atomOf O ⟨tokTypeOf f, tokTextOf f t n, []⟩ = .ok (some x) := by
  simp only [itemE] at h
  obtain ⟨r, hr, h2⟩ := bind_eq_ok' h
  cases r with
  | none => cases h2
  | some y => cases h2; exact hr

theorem splitColon_name (n t : B) (hn : 58 ∉ n) : splitColon (n ++ 58 :: t) = some (n, t) := by
  induction n with
  | nil => simp [splitColon]
  | cons c r ih =>
    have hc : c ≠ 58 := fun h => hn (by simp [h])
    have hr : 58 ∉ r := fun h => hn (by simp [h])
    simp [splitColon, hc, ih hr]

theorem yesNo_ok {text : B} {y nn : Nat} {w : String} {r : Option Q} (h : yesNo text y nn w = .ok r) :
    (text = bYes ∧ r = some (.rawConfig y)) ∨ (text = bNo ∧ r = some (.rawConfig nn)) := by
  unfold yesNo at h
  split at h
  · rename_i h1; cases h; exact Or.inl ⟨h1, rfl⟩
  · split at h
    · rename_i h1; cases h; exact Or.inr ⟨h1, rfl⟩
    · cases h

/-- **an atom of the grammar becomes a node that asks the documented question**, with the case sensitivity
    the documentation prescribes once an enclosing list applied flavor `k` -/
theorem atom_sem (c : Corpus) {O : Oracle} (hO : AutoCaseAgrees O) (f : Field) (a : Nat) (qd : Bool) (t n : B) (x : Q)
    (hfr : f ≠ .regex) (hmeta : 58 ∉ n) (hx : itemE O (.atom f a qd t n) = .ok x) (k : B) (hk : validK k) :
    isDirective x = false ∧ isOrOp x = false ∧
      evalQ c (setCase k x) = semE O c (modeOf k) (.atom f a qd t n) := by
  have hat := itemE_atom hx
  have hcs : ∀ tt : B, (match modeOf k with | some b => b | none => hasUpper tt) = csOf k tt := fun tt => csOf_eq k tt
  cases f with
  | regex => exact absurd rfl hfr
  | text =>
    have h1 : atomOf O ⟨tokText, t, []⟩ = (regexpQuery O t false false).bind fun q => .ok (some q) := rfl
    rw [show tokTypeOf .text = tokText from rfl, show tokTextOf .text t n = t from rfl, h1] at hat
    obtain ⟨q, hq, h2⟩ := bind_eq_ok' hat
    have hxq : x = q := by cases h2; rfl
    subst hxq
    have hta : isTextAtom x = true := (regexpQuery_safe O t false false).of_ok hq
    have hev := textAtom_eval c hO hq k hk none
    refine ⟨(textAtom_flags hta).1, (textAtom_flags hta).2, ?_⟩
    rw [setCase_textAtom k hta, evalQ_textAtom c (by rw [isTextAtom_setCaseAtom]; exact hta), hev, semE_atom]
    simp [keyOf, caseMatters, hcs, scopeKind]
  | content =>
    have h1 : atomOf O ⟨tokContent, t, []⟩ = (regexpQuery O t true false).bind fun q => .ok (some q) := rfl
    rw [show tokTypeOf .content = tokContent from rfl, show tokTextOf .content t n = t from rfl, h1] at hat
    obtain ⟨q, hq, h2⟩ := bind_eq_ok' hat
    have hxq : x = q := by cases h2; rfl
    subst hxq
    have hta : isTextAtom x = true := (regexpQuery_safe O t true false).of_ok hq
    have hev := textAtom_eval c hO hq k hk none
    refine ⟨(textAtom_flags hta).1, (textAtom_flags hta).2, ?_⟩
    rw [setCase_textAtom k hta, evalQ_textAtom c (by rw [isTextAtom_setCaseAtom]; exact hta), hev, semE_atom]
    simp [keyOf, caseMatters, hcs, scopeKind]
  | file =>
    have h1 : atomOf O ⟨tokFile, t, []⟩ = (regexpQuery O t false true).bind fun q => .ok (some q) := rfl
    rw [show tokTypeOf .file = tokFile from rfl, show tokTextOf .file t n = t from rfl, h1] at hat
    obtain ⟨q, hq, h2⟩ := bind_eq_ok' hat
    have hxq : x = q := by cases h2; rfl
    subst hxq
    have hta : isTextAtom x = true := (regexpQuery_safe O t false true).of_ok hq
    have hev := textAtom_eval c hO hq k hk none
    refine ⟨(textAtom_flags hta).1, (textAtom_flags hta).2, ?_⟩
    rw [setCase_textAtom k hta, evalQ_textAtom c (by rw [isTextAtom_setCaseAtom]; exact hta), hev, semE_atom]
    simp [keyOf, caseMatters, hcs, scopeKind]
  | sym =>
    have h1 : atomOf O ⟨tokSym, t, []⟩ =
        if t.isEmpty then .err "the sym: atom must have an argument"
        else (regexpQuery O t false false).bind fun q => .ok (some (.sym q)) := rfl
    rw [show tokTypeOf .sym = tokSym from rfl, show tokTextOf .sym t n = t from rfl, h1] at hat
    split at hat
    · cases hat
    · obtain ⟨q, hq, h2⟩ := bind_eq_ok' hat
      cases h2
      have hev := textAtom_eval c hO hq k hk (some 115)
      refine ⟨rfl, rfl, ?_⟩
      simp only [setCase, evalQ]
      rw [hev, semE_atom]
      simp [keyOf, caseMatters, hcs]
  | repo =>
    have h1 : atomOf O ⟨tokRepo, t, []⟩ = if O.compiles t then .ok (some (.repo t)) else .err "regexp compile" := rfl
    rw [show tokTypeOf .repo = tokRepo from rfl, show tokTextOf .repo t n = t from rfl, h1] at hat
    split at hat
    · cases hat
      simp [isDirective, isOrOp, setCase, setCaseAtom, evalQ, semE_atom, keyOf, caseMatters]
    · cases hat
  | branch =>
    have h1 : atomOf O ⟨tokBranch, t, []⟩ = .ok (some (.branch t)) := rfl
    rw [show tokTypeOf .branch = tokBranch from rfl, show tokTextOf .branch t n = t from rfl, h1] at hat
    cases hat
    simp [isDirective, isOrOp, setCase, setCaseAtom, evalQ, semE_atom, keyOf, caseMatters]
  | lang =>
    have h1 : atomOf O ⟨tokLang, t, []⟩ =
        match O.lang t with
        | none => .ok (some (.const false))
        | some cn => .ok (some (.lang cn)) := rfl
    rw [show tokTypeOf .lang = tokLang from rfl, show tokTextOf .lang t n = t from rfl, h1] at hat
    cases hl : O.lang t with
    | none =>
      rw [hl] at hat; cases hat
      simp [isDirective, isOrOp, setCase, setCaseAtom, evalQ, semE_atom, keyOf, hl]
    | some cn =>
      rw [hl] at hat; cases hat
      simp [isDirective, isOrOp, setCase, setCaseAtom, evalQ, semE_atom, keyOf, hl, caseMatters]
  | archived =>
    have h1 : atomOf O ⟨tokArchived, t, []⟩ = yesNo t 16 32 "archived" := rfl
    rw [show tokTypeOf .archived = tokArchived from rfl, show tokTextOf .archived t n = t from rfl, h1] at hat
    rcases yesNo_ok hat with ⟨rfl, h2⟩ | ⟨rfl, h2⟩ <;> cases h2 <;>
      simp [isDirective, isOrOp, setCase, setCaseAtom, evalQ, semE_atom, keyOf, caseMatters, bYes, bNo]
  | fork =>
    have h1 : atomOf O ⟨tokFork, t, []⟩ = yesNo t 4 8 "fork" := rfl
    rw [show tokTypeOf .fork = tokFork from rfl, show tokTextOf .fork t n = t from rfl, h1] at hat
    rcases yesNo_ok hat with ⟨rfl, h2⟩ | ⟨rfl, h2⟩ <;> cases h2 <;>
      simp [isDirective, isOrOp, setCase, setCaseAtom, evalQ, semE_atom, keyOf, caseMatters, bYes, bNo]
  | pub =>
    have h1 : atomOf O ⟨tokPublic, t, []⟩ = yesNo t 1 2 "public" := rfl
    rw [show tokTypeOf .pub = tokPublic from rfl, show tokTextOf .pub t n = t from rfl, h1] at hat
    rcases yesNo_ok hat with ⟨rfl, h2⟩ | ⟨rfl, h2⟩ <;> cases h2 <;>
      simp [isDirective, isOrOp, setCase, setCaseAtom, evalQ, semE_atom, keyOf, caseMatters, bYes, bNo]
  | metaF =>
    have h1 : atomOf O ⟨tokMeta, n ++ [58] ++ t, []⟩ =
        match splitColon (n ++ [58] ++ t) with
        | none => .err "invalid meta field syntax"
        | some (field, value) =>
          if O.compiles value then .ok (some (.metaQ field value)) else .err "invalid regexp in meta value" := rfl
    rw [show tokTypeOf .metaF = tokMeta from rfl, show tokTextOf .metaF t n = n ++ [58] ++ t from rfl, h1] at hat
    have hsp : splitColon (n ++ [58] ++ t) = some (n, t) := by
      have := splitColon_name n t hmeta
      simpa using this
    rw [hsp] at hat
    simp only at hat
    split at hat
    · cases hat
      simp [isDirective, isOrOp, setCase, setCaseAtom, evalQ, semE_atom, keyOf, caseMatters]
    · cases hat

/-! ### reading a flat operand list -/

theorem itemsSem_congr (ev1 ev2 : Q → DocPred) : ∀ (l : List Q) (cur : DocPred) (d : Nat),
    (∀ x ∈ l, isOrOp x = false → ev1 x d = ev2 x d) → (∀ x ∈ l, isOrOp x = false → ∀ d', ev1 x d' = ev2 x d') →
    itemsSem ev1 l cur d = itemsSem ev2 l cur d
  | [], cur, d, _, _ => rfl
  | x :: r, cur, d, h, hall => by
    unfold itemsSem
    cases hx : isOrOp x with
    | true =>
      simp only [if_true]
      rw [itemsSem_congr ev1 ev2 r _ d (fun y hy => h y (by simp [hy])) (fun y hy => hall y (by simp [hy]))]
    | false =>
      simp only [Bool.false_eq_true, if_false]
      have : (fun d => cur d && ev1 x d) = (fun d => cur d && ev2 x d) := by
        funext d'; rw [hall x (by simp) hx d']
      rw [this]
      exact itemsSem_congr ev1 ev2 r _ d (fun y hy => h y (by simp [hy])) (fun y hy => hall y (by simp [hy]))

theorem itemsSem_map (ev : Q → DocPred) (G : Q → Q) (hG : ∀ x, isOrOp (G x) = isOrOp x) :
    ∀ (l : List Q) (cur : DocPred), itemsSem ev (l.map G) cur = itemsSem (fun x => ev (G x)) l cur
  | [], cur => rfl
  | x :: r, cur => by
    simp only [List.map_cons, itemsSem, hG]
    split
    · rw [itemsSem_map ev G hG r]
    · exact itemsSem_map ev G hG r _

theorem itemsSem_noOr (ev : Q → DocPred) : ∀ (l : List Q) (cur : DocPred) (d : Nat), (∀ x ∈ l, isOrOp x = false) →
    itemsSem ev l cur d = (cur d && allEv ev l d)
  | [], cur, d, _ => by simp [itemsSem, allEv]
  | x :: r, cur, d, h => by
    have hx := h x (by simp)
    simp only [itemsSem, hx, Bool.false_eq_true, if_false, allEv]
    rw [itemsSem_noOr ev r _ d (fun y hy => h y (by simp [hy]))]
    simp [Bool.and_assoc]

theorem itemsSem_append_or (ev : Q → DocPred) : ∀ (a b : List Q) (cur : DocPred) (d : Nat),
    (∀ x ∈ a, isOrOp x = false) →
    itemsSem ev (a ++ Q.orOp :: b) cur d = ((cur d && allEv ev a d) || itemsSem ev b (fun _ => true) d)
  | [], b, cur, d, _ => by simp [itemsSem, isOrOp, allEv]
  | x :: r, b, cur, d, h => by
    have hx := h x (by simp)
    simp only [List.cons_append, itemsSem, hx, Bool.false_eq_true, if_false, allEv]
    rw [itemsSem_append_or ev r b _ d (fun y hy => h y (by simp [hy]))]
    simp [Bool.and_assoc]

theorem setCaseList_eq_map (k : B) : ∀ l : List Q, setCaseList k l = l.map (setCase k)
  | [] => rfl
  | x :: r => by simp [setCaseList, setCaseList_eq_map k r]

theorem wrapScopes_eq_map : ∀ l : List Q, wrapScopes l = l.map (fun q => if isOrOp q then q else .caseScope q)
  | [] => rfl
  | x :: r => by simp [wrapScopes, wrapScopes_eq_map r]

/-! ### the directives of a list -/

/-- the `case:` state of the scan (`k`, `hasScope`) against the documented one (`caseOfQ … none`) -/
def CaseRel (k : B) (h : Bool) (m : Option CaseMode) : Prop :=
  (h = false ∧ m = none) ∨ (h = true ∧ m = some (modeOf k))

def typeFold (types : List Nat) (t : Nat) : Nat :=
  types.foldl (fun acc v => if typeNum v < acc then typeNum v else acc) t

structure DirOK (xs : List Q) (caseOf : Option CaseMode → Option CaseMode) (types : List Nat) : Prop where
  caseRel : ∀ k h m, validK k → CaseRel k h m → validK (lastCase xs k) ∧ CaseRel (lastCase xs k) (anyCase xs h) (caseOf m)
  typeRel : ∀ t, minType xs t = typeFold types t

theorem DirOK.append {a b : List Q} {f1 f2 : Option CaseMode → Option CaseMode} {t1 t2 : List Nat}
    (ha : DirOK a f1 t1) (hb : DirOK b f2 t2) : DirOK (a ++ b) (fun m => f2 (f1 m)) (t1 ++ t2) := by
  constructor
  · intro k h m hk hr
    rw [lastCase_append, anyCase_append]
    obtain ⟨h1, h2⟩ := ha.caseRel k h m hk hr
    exact hb.caseRel _ _ _ h1 h2
  · intro t
    rw [minType_append, ha.typeRel, hb.typeRel]
    simp [typeFold, List.foldl_append]

theorem DirOK.plain {x : Q} (h : isDirective x = false) : DirOK [x] (fun m => m) [] := by
  constructor
  · intro k hh m hk hr
    rw [lastCase_nondir h, anyCase_nondir h]
    exact ⟨hk, hr⟩
  · intro t
    rw [minType_nondir h]; rfl

theorem modeOf_caseWord (fl : Nat) : modeOf (caseWord fl) = caseOfFlavor fl := by
  rcases fl with _ | _ | fl <;> rfl

theorem validK_caseWord (fl : Nat) : validK (caseWord fl) := by
  rcases fl with _ | _ | fl
  · exact Or.inl rfl
  · exact Or.inr (Or.inl rfl)
  · exact Or.inr (Or.inr rfl)

theorem DirOK.caseD (fl : Nat) : DirOK [Q.caseQ (caseWord fl)] (fun _ => some (caseOfFlavor fl)) [] := by
  constructor
  · intro k h m _ _
    refine ⟨validK_caseWord fl, Or.inr ⟨rfl, ?_⟩⟩
    simp [lastCase, modeOf_caseWord]
  · intro t; rfl

theorem DirOK.typeD (v : Nat) : DirOK [Q.type (typeNum v) .nil] (fun m => m) [v] := by
  constructor
  · intro k h m hk hr
    exact ⟨hk, hr⟩
  · intro t; rfl

theorem anyCase_true : ∀ xs : List Q, anyCase xs true = true
  | [] => rfl
  | x :: r => by cases x <;> simp [anyCase, anyCase_true r]

theorem lastCase_of_noCase : ∀ (xs : List Q) (k : B), anyCase xs false = false → lastCase xs k = k
  | [], k, _ => rfl
  | x :: r, k, h => by
    cases x
    case caseQ f => simp [anyCase, anyCase_true] at h
    all_goals (simp only [anyCase] at h; simp only [lastCase]; exact lastCase_of_noCase r k h)

/-! ### one group: `finishList` + `parseOperators` against `groupLift`/`groupMode` -/

/-- what an enclosing list does to an item: nothing (`none`, the top level) or `setCase k` -/
def applyK (outer : Option B) (q : Q) : Q :=
  match outer with
  | none => q
  | some k => setCase k q

def keff (outer : Option B) : B := outer.getD bAuto

def evO (c : Corpus) (outer : Option B) (q : Q) : DocPred := evalQ c (applyK outer q)

theorem evO_none (c : Corpus) : evO c none = evalQ c := by funext q; rfl

theorem isOrOp_wrap (y : Q) : isOrOp (if isOrOp y then y else Q.caseScope y) = isOrOp y := by
  cases hy : isOrOp y with
  | true => simp; exact hy
  | false => simp [isOrOp]

theorem evO_and (c : Corpus) (outer : Option B) (cs : List Q) (d : Nat) :
    evO c outer (.and cs) d = allEv (evO c outer) cs d := by
  cases outer with
  | none => rw [evO_none]; simp only [evalQ, evalAnd_eq_allEv]
  | some k => exact evalK_and c k cs d

theorem evO_or (c : Corpus) (outer : Option B) (cs : List Q) (d : Nat) :
    evO c outer (.or cs) d = anyEv (evO c outer) cs d := by
  cases outer with
  | none => rw [evO_none]; simp only [evalQ, evalOr_eq_anyEv]
  | some k => exact evalK_or c k cs d

theorem typeFold_le {types : List Nat} (hv : ∀ v ∈ types, v ≤ 3) (hl : types.length ≤ 1) :
    (types = [] ∧ typeFold types 100 = 100) ∨ (∃ v, types = [v] ∧ typeFold types 100 = typeNum v ∧ typeNum v ≠ 100) := by
  cases types with
  | nil => exact Or.inl ⟨rfl, rfl⟩
  | cons v r =>
    cases r with
    | nil =>
      right
      have hv3 := hv v (by simp)
      refine ⟨v, rfl, ?_, ?_⟩ <;> (rcases v with _ | _ | _ | _ | v <;> first | decide | omega)
    | cons w r' => simp at hl

theorem contains3_iff {v : Nat} (hv : v ≤ 3) : ([v].contains 3 = true) ↔ typeNum v = 2 := by
  rcases v with _ | _ | _ | _ | v <;> first | decide | omega

/-- the heart of the composition: for the items `its` of a group `q`, whatever the enclosing list does (`outer`),
    the tree `finishList` + `parseOperators` build selects `groupLift (semOr … (groupMode …))` -/
theorem group_sem (c : Corpus) (O : Oracle) (q : Qy) (its qs : List Q) (r : Q)
    (hdir : DirOK its (caseOfQ q) (typesOfQ q)) (hv : ∀ v ∈ typesOfQ q, v ≤ 3) (hl : (typesOfQ q).length ≤ 1)
    (hsem : ∀ kE, validK kE → ∀ d, d < c.n →
      itemsSem (fun x => evalQ c (setCase kE x)) (nonDir its) (fun _ => true) d = semOr O c (modeOf kE) q d)
    (hfin : finishList its = .ok qs) (hpo : parseOperators qs = .ok r)
    (outer : Option B) (hout : validK (keff outer)) :
    ∀ d, d < c.n → evO c outer r d = groupLift c q (semOr O c (groupMode (modeOf (keff outer)) q) q) d := by
  -- the scan
  obtain ⟨hk', hrel⟩ := hdir.caseRel bAuto false none (Or.inr (Or.inr rfl)) (Or.inl ⟨rfl, rfl⟩)
  have htype := hdir.typeRel 100
  generalize hkq : lastCase its bAuto = k' at hk' hrel
  generalize hhs : anyCase its false = hs at hrel
  -- effective flavor for the operands of this group
  let kE : B := if hs then k' else keff outer
  have hkE : validK kE := by cases hs <;> simp [kE, hk', hout]
  have hmode : groupMode (modeOf (keff outer)) q = modeOf kE := by
    unfold groupMode
    rcases hrel with ⟨h1, h2⟩ | ⟨h1, h2⟩
    · rw [h2]; simp [kE, h1]
    · rw [h2]; simp [kE, h1]
  have hk'auto : hs = false → k' = bAuto := by
    intro h
    rw [← hkq]
    exact lastCase_of_noCase its bAuto (by rw [hhs, h])
  -- what an operand evaluates to once this group and the enclosing list have set its case
  have helem : ∀ x : Q, ∀ d', evO c outer ((if hs then (fun y => if isOrOp y then y else Q.caseScope y) else (fun y => y))
      (setCase k' x)) d' = evalQ c (setCase kE x) d' ∨ isOrOp x = true := by
    intro x d'
    cases hox : isOrOp x with
    | true => exact Or.inr rfl
    | false =>
      left
      cases hs with
      | true =>
        simp only [if_true, isOrOp_setCase, hox, Bool.false_eq_true, if_false, kE]
        cases outer with
        | none => simp [evO, applyK, evalQ]
        | some k => simp [evO, applyK, setCase_caseScope, evalQ]
      | false =>
        have := hk'auto rfl
        subst this
        simp only [Bool.false_eq_true, if_false, kE]
        cases outer with
        | none => simp [evO, applyK, keff]
        | some k =>
          simp only [evO, applyK, keff, Option.getD_some]
          rw [setCase_idem k bAuto (by simpa [keff] using hout)]
  -- unfold finishList
  unfold finishList at hfin
  simp only [scan_eq, List.nil_append, hkq, hhs, htype] at hfin
  have hsemE := hsem kE hkE
  rw [hmode]
  rcases typeFold_le hv hl with ⟨hnil, h100⟩ | ⟨v, hv1, hfold, hne⟩
  · -- no type directive
    simp only [h100, ne_eq, not_true_eq_false, if_false, C07.bind_ok, Outcome.ok.injEq] at hfin
    intro d hd
    have hlift : groupLift c q (semOr O c (modeOf kE) q) d = semOr O c (modeOf kE) q d := by
      simp [groupLift, hnil]
    rw [hlift, ← hsemE d hd]
    rw [parseOperators_sem (evO c outer) (evO_and c outer) (evO_or c outer) qs r hpo d, ← hfin]
    cases hs with
    | true =>
      simp only [if_true, wrapScopes_eq_map, setCaseList_eq_map, List.map_map]
      rw [itemsSem_map (evO c outer) _ (by intro x; simp only [Function.comp]; rw [isOrOp_wrap, isOrOp_setCase])]
      apply itemsSem_congr
      · intro x _ hx
        rcases helem x d with h | h
        · simpa [Function.comp] using h
        · rw [hx] at h; cases h
      · intro x _ hx d'
        rcases helem x d' with h | h
        · simpa [Function.comp] using h
        · rw [hx] at h; cases h
    | false =>
      simp only [Bool.false_eq_true, if_false, setCaseList_eq_map]
      rw [itemsSem_map (evO c outer) _ (isOrOp_setCase k')]
      apply itemsSem_congr
      · intro x _ hx
        rcases helem x d with h | h
        · simpa using h
        · rw [hx] at h; cases h
      · intro x _ hx d'
        rcases helem x d' with h | h
        · simpa using h
        · rw [hx] at h; cases h
  · -- a type directive: everything becomes the child of one Type node
    simp only [hfold, ne_eq, hne, not_false_eq_true, if_true] at hfin
    obtain ⟨l1, hl1, hfin2⟩ := bind_eq_ok' hfin
    obtain ⟨typed, htyped, hl1'⟩ := bind_eq_ok' hl1
    cases hl1'
    simp only [Outcome.ok.injEq] at hfin2
    -- the inner tree, under whatever case setting reaches it
    have hinner : ∀ d, d < c.n → evalQ c (if hs then typed else applyK outer typed) d = semOr O c (modeOf kE) q d := by
      intro d hd
      rw [← hsemE d hd]
      cases hs with
      | true =>
        simp only [if_true]
        rw [parseOperators_sem (evalQ c) (fun cs d => by simp only [evalQ, evalAnd_eq_allEv])
          (fun cs d => by simp only [evalQ, evalOr_eq_anyEv]) _ typed htyped d, setCaseList_eq_map,
          itemsSem_map (evalQ c) _ (isOrOp_setCase k')]
        simp [kE]
      | false =>
        have := hk'auto rfl
        subst this
        simp only [Bool.false_eq_true, if_false]
        have h1 := parseOperators_sem (evO c outer) (evO_and c outer) (evO_or c outer) _ typed htyped d
        simp only [evO] at h1
        rw [h1, setCaseList_eq_map, itemsSem_map _ _ (isOrOp_setCase bAuto)]
        apply itemsSem_congr
        · intro x _ hx
          rcases helem x d with h | h
          · simpa [evO] using h
          · rw [hx] at h; cases h
        · intro x _ hx d'
          rcases helem x d' with h | h
          · simpa [evO] using h
          · rw [hx] at h; cases h
    intro d hd
    -- r = or [and [y]]
    have hy : ∃ y, qs = [y] ∧ isOrOp y = false ∧
        evO c outer y = (if typeNum v = 2 then repoLift c (evalQ c (if hs then typed else applyK outer typed))
                          else evalQ c (if hs then typed else applyK outer typed)) := by
      cases hs with
      | true =>
        refine ⟨.caseScope (.type (typeNum v) typed), ?_, rfl, ?_⟩
        · rw [← hfin2]; simp [wrapScopes, isOrOp]
        · cases outer with
          | none => simp [evO, applyK, evalQ]
          | some k => simp [evO, applyK, setCase_caseScope, evalQ]
      | false =>
        refine ⟨.type (typeNum v) typed, ?_, rfl, ?_⟩
        · rw [← hfin2]; simp
        · cases outer with
          | none => simp [evO, applyK, evalQ]
          | some k => simp [evO, applyK, setCase, evalQ]
    obtain ⟨y, hqs, hyo, hyev⟩ := hy
    rw [parseOperators_sem (evO c outer) (evO_and c outer) (evO_or c outer) qs r hpo d, hqs]
    simp only [itemsSem, hyo, Bool.false_eq_true, if_false, Bool.true_and, hyev]
    have hv3 := hv v (by rw [hv1]; simp)
    simp only [groupLift, hv1]
    by_cases h2 : typeNum v = 2
    · rw [if_pos h2, if_pos ((contains3_iff hv3).mpr h2)]
      exact repoLift_congr c _ _ hinner d
    · rw [if_neg h2, if_neg (fun h => h2 ((contains3_iff hv3).mp h))]
      exact hinner d hd

/-! ### from the grammar tree to its items -/

mutual
/-- grammar trees for which the documented meaning is defined and the composition theorem is stated: no `regex:`
    field (known finding: it is parsed as a bare pattern), `meta.` names without `:`, `type:` values among the four
    documented ones, no `-` applied to a directive, at most one `type:` directive per group -/
def semOKE : E → Bool
  | .atom f _ _ _ n => f != .regex && !n.contains 58
  | .caseD _ => true
  | .typeD _ v => decide (v ≤ 3)
  | .neg e => !isDirectiveE e && semOKE e
  | .grp _ _ q => semOKQ q && decide ((typesOfQ q).length ≤ 1)
def semOKC : Cj → Bool
  | .one e => semOKE e
  | .cons e r => semOKE e && semOKC r
def semOKQ : Qy → Bool
  | .one c => semOKC c
  | .or c r => semOKC c && semOKQ r
end

theorem typesOfE_le (e : E) (h : semOKE e = true) : ∀ v ∈ typesOfE e, v ≤ 3 := by
  cases e <;> simp_all [typesOfE, semOKE]

theorem typesOfC_le : ∀ (c : Cj), semOKC c = true → ∀ v ∈ typesOfC c, v ≤ 3
  | .one e, h => by simp only [semOKC] at h; simpa [typesOfC] using typesOfE_le e h
  | .cons e r, h => by
    simp only [semOKC, Bool.and_eq_true] at h
    intro v hv
    simp only [typesOfC, List.mem_append] at hv
    rcases hv with hv | hv
    · exact typesOfE_le e h.1 v hv
    · exact typesOfC_le r h.2 v hv

theorem typesOfQ_le : ∀ (q : Qy), semOKQ q = true → ∀ v ∈ typesOfQ q, v ≤ 3
  | .one c, h => by simp only [semOKQ] at h; simpa [typesOfQ] using typesOfC_le c h
  | .or c r, h => by
    simp only [semOKQ, Bool.and_eq_true] at h
    intro v hv
    simp only [typesOfQ, List.mem_append] at hv
    rcases hv with hv | hv
    · exact typesOfC_le c h.1 v hv
    · exact typesOfQ_le r h.2 v hv

def ev0 (c : Corpus) (kE : B) (x : Q) : DocPred := evalQ c (setCase kE x)

mutual
theorem thmE (c : Corpus) (O : Oracle) (hO : AutoCaseAgrees O) : ∀ (e : E) (x : Q), itemE O e = .ok x → semOKE e = true →
    isOrOp x = false ∧ DirOK [x] (caseOfE e) (typesOfE e) ∧ isDirective x = isDirectiveE e ∧
    (isDirectiveE e = false → ∀ kE, validK kE → ∀ d, d < c.n → ev0 c kE x d = semE O c (modeOf kE) e d)
  | .atom f a qd t n, x, hx, hok => by
    simp only [semOKE, Bool.and_eq_true, bne_iff_ne, ne_eq, Bool.not_eq_true', List.contains_eq_mem,
      decide_eq_false_iff_not] at hok
    have h0 := atom_sem c hO f a qd t n x hok.1 hok.2 hx bAuto (Or.inr (Or.inr rfl))
    refine ⟨h0.2.1, ?_, ?_, ?_⟩
    · have : caseOfE (.atom f a qd t n) = fun m => m := by funext m; rfl
      rw [this]
      exact DirOK.plain h0.1
    · rw [h0.1]; rfl
    · intro _ kE hk d _
      have := (atom_sem c hO f a qd t n x hok.1 hok.2 hx kE hk).2.2
      simp only [ev0]
      rw [this]
  | .caseD fl, x, hx, hok => by
    simp only [itemE, Outcome.ok.injEq] at hx
    subst hx
    refine ⟨rfl, ?_, rfl, ?_⟩
    · have : caseOfE (.caseD fl) = fun _ => some (caseOfFlavor fl) := by funext m; rfl
      rw [this]
      exact DirOK.caseD fl
    · intro h; simp [isDirectiveE] at h
  | .typeD a v, x, hx, hok => by
    simp only [itemE, Outcome.ok.injEq] at hx
    subst hx
    refine ⟨rfl, ?_, rfl, ?_⟩
    · have : caseOfE (.typeD a v) = fun m => m := by funext m; rfl
      rw [this]
      exact DirOK.typeD v
    · intro h; simp [isDirectiveE] at h
  | .neg e, x, hx, hok => by
    simp only [semOKE, Bool.and_eq_true, Bool.not_eq_true'] at hok
    simp only [itemE] at hx
    obtain ⟨y, hy, hx'⟩ := bind_eq_ok' hx
    have hnd : isDirective y = false := by
      cases hd : isDirective y with
      | true => simp [hd] at hx'
      | false => rfl
    simp only [hnd, Bool.false_eq_true, if_false, Outcome.ok.injEq] at hx'
    subst hx'
    have ih := thmE c O hO e y hy hok.2
    refine ⟨rfl, ?_, rfl, ?_⟩
    · have : caseOfE (.neg e) = fun m => m := by funext m; rfl
      rw [this]
      exact DirOK.plain rfl
    · intro _ kE hk d hd
      have := ih.2.2.2 hok.1 kE hk d hd
      simp only [ev0] at this
      simp only [ev0, setCase, evalQ, semE, this]
  | .grp pl pr q, x, hx, hok => by
    simp only [semOKE, Bool.and_eq_true, decide_eq_true_eq] at hok
    simp only [itemE] at hx
    obtain ⟨its, hits, hx1⟩ := bind_eq_ok' hx
    obtain ⟨qs, hqs, hpo⟩ := bind_eq_ok' hx1
    obtain ⟨cs, hcs⟩ := parseOperators_shape hpo
    have ih := thmOr c O hO q its hits hok.1
    subst hcs
    refine ⟨rfl, ?_, rfl, ?_⟩
    · have : caseOfE (.grp pl pr q) = fun m => m := by funext m; rfl
      rw [this]
      exact DirOK.plain rfl
    · intro _ kE hk d hd
      have := group_sem c O q its qs (.or cs) ih.1 (typesOfQ_le q hok.1) hok.2 ih.2 hqs hpo (some kE)
        (by simpa [keff] using hk) d hd
      simpa [evO, applyK, ev0, keff, semE] using this
theorem thmC (c : Corpus) (O : Oracle) (hO : AutoCaseAgrees O) : ∀ (cj : Cj) (xs : List Q), itemsC O cj = .ok xs →
    semOKC cj = true →
    (∀ x ∈ xs, isOrOp x = false) ∧ DirOK xs (caseOfC cj) (typesOfC cj) ∧
    (∀ kE, validK kE → ∀ d, d < c.n → allEv (ev0 c kE) (nonDir xs) d = semC O c (modeOf kE) cj d)
  | .one e, xs, hx, hok => by
    simp only [semOKC] at hok
    simp only [itemsC] at hx
    obtain ⟨x, hx1, hx2⟩ := bind_eq_ok' hx
    cases hx2
    have ih := thmE c O hO e x hx1 hok
    refine ⟨by simpa using ih.1, ?_, ?_⟩
    · have : caseOfC (.one e) = caseOfE e := by funext m; rfl
      rw [this]
      exact ih.2.1
    · intro kE hk d hd
      cases hde : isDirectiveE e with
      | true =>
        have hdx : isDirective x = true := by rw [ih.2.2.1, hde]
        rw [nonDir_cons_dir hdx]
        cases e <;> simp_all [isDirectiveE, nonDir, allEv, semC, semE]
      | false =>
        have hdx : isDirective x = false := by rw [ih.2.2.1, hde]
        rw [nonDir_cons_nondir hdx]
        simp only [nonDir, List.filter_nil, allEv, Bool.and_true, semC]
        exact ih.2.2.2 hde kE hk d hd
  | .cons e r, xs, hx, hok => by
    simp only [semOKC, Bool.and_eq_true] at hok
    simp only [itemsC] at hx
    obtain ⟨x, hx1, hx2⟩ := bind_eq_ok' hx
    obtain ⟨xs', hxs, hx3⟩ := bind_eq_ok' hx2
    cases hx3
    have ih1 := thmE c O hO e x hx1 hok.1
    have ih2 := thmC c O hO r xs' hxs hok.2
    refine ⟨?_, ?_, ?_⟩
    · intro y hy
      simp only [List.mem_cons] at hy
      rcases hy with rfl | hy
      · exact ih1.1
      · exact ih2.1 y hy
    · have : caseOfC (.cons e r) = fun m => caseOfC r (caseOfE e m) := by funext m; rfl
      rw [this]
      exact DirOK.append (a := [x]) ih1.2.1 ih2.2.1
    · intro kE hk d hd
      have h2 := ih2.2.2 kE hk d hd
      cases hde : isDirectiveE e with
      | true =>
        have hdx : isDirective x = true := by rw [ih1.2.2.1, hde]
        rw [nonDir_cons_dir hdx, h2]
        cases e <;> simp_all [isDirectiveE, semC, semE]
      | false =>
        have hdx : isDirective x = false := by rw [ih1.2.2.1, hde]
        rw [nonDir_cons_nondir hdx]
        simp only [allEv, semC, h2, ih1.2.2.2 hde kE hk d hd]
theorem thmOr (c : Corpus) (O : Oracle) (hO : AutoCaseAgrees O) : ∀ (q : Qy) (its : List Q), itemsQ O q = .ok its →
    semOKQ q = true →
    DirOK its (caseOfQ q) (typesOfQ q) ∧
    (∀ kE, validK kE → ∀ d, d < c.n →
      itemsSem (fun x => evalQ c (setCase kE x)) (nonDir its) (fun _ => true) d = semOr O c (modeOf kE) q d)
  | .one cj, its, hx, hok => by
    simp only [semOKQ] at hok
    simp only [itemsQ] at hx
    have ih := thmC c O hO cj its hx hok
    refine ⟨?_, ?_⟩
    · have : caseOfQ (.one cj) = caseOfC cj := by funext m; rfl
      rw [this]
      exact ih.2.1
    · intro kE hk d hd
      rw [itemsSem_noOr _ _ _ d (fun x hx' => ih.1 x (mem_of_mem_nonDir hx'))]
      simp only [Bool.true_and, semOr]
      exact ih.2.2 kE hk d hd
  | .or cj r, its, hx, hok => by
    simp only [semOKQ, Bool.and_eq_true] at hok
    simp only [itemsQ] at hx
    obtain ⟨a, ha, hx2⟩ := bind_eq_ok' hx
    obtain ⟨b, hb, hx3⟩ := bind_eq_ok' hx2
    cases hx3
    have ih1 := thmC c O hO cj a ha hok.1
    have ih2 := thmOr c O hO r b hb hok.2
    refine ⟨?_, ?_⟩
    · have : caseOfQ (.or cj r) = fun m => caseOfQ r (caseOfC cj m) := by funext m; rfl
      rw [this]
      have hor : DirOK [Q.orOp] (fun m => m) [] := DirOK.plain rfl
      have h1 := DirOK.append ih1.2.1 (DirOK.append hor ih2.1)
      simpa [typesOfQ] using h1
    · intro kE hk d hd
      have hnd : nonDir (a ++ Q.orOp :: b) = nonDir a ++ Q.orOp :: nonDir b := by
        rw [nonDir_append, nonDir_cons_nondir (by rfl)]
      rw [hnd, itemsSem_append_or _ _ _ _ d (fun x hx' => ih1.1 x (mem_of_mem_nonDir hx'))]
      simp only [Bool.true_and, semOr]
      rw [ih2.2 kE hk d hd]
      have := ih1.2.2 kE hk d hd
      rw [← this]
      rfl
end

/-- **the tree built from the items of a grammar tree selects what the documentation says** -/
theorem abstractTree_sem (c : Corpus) (O : Oracle) (hO : AutoCaseAgrees O) (g : Qy) (t : Q)
    (hok : semOKQ g = true) (hl : (typesOfQ g).length ≤ 1) (h : abstractTree O g = .ok t) :
    ∀ d, d < c.n → evalQ c t d = semQ O c none g d := by
  unfold abstractTree at h
  obtain ⟨its, hits, h2⟩ := bind_eq_ok' h
  obtain ⟨qs, hqs, h3⟩ := bind_eq_ok' h2
  obtain ⟨r, hr, h4⟩ := bind_eq_ok' h3
  cases h4
  have ih := thmOr c O hO g its hits hok
  intro d hd
  have := group_sem c O g its qs r ih.1 (typesOfQ_le g hok) hl ih.2 hqs hr none (Or.inr (Or.inr rfl)) d hd
  rw [evalQ_strip]
  simpa [evO_none, keff, modeOf_auto, semQ] using this

theorem abstractParse_sem (c : Corpus) (he : EmptyOK c) (O : Oracle) (hO : AutoCaseAgrees O) (g : Qy) (q : Q)
    (hok : semOKQ g = true) (hl : (typesOfQ g).length ≤ 1) (h : abstractParse O g = .ok q) :
    ∀ d, d < c.n → evalQ c q d = semQ O c none g d := by
  unfold abstractParse at h
  obtain ⟨t, ht, hs⟩ := bind_eq_ok' h
  -- t = stripCaseScopes q'
  unfold abstractTree at ht
  obtain ⟨its, hits, h2⟩ := bind_eq_ok' ht
  obtain ⟨qs, hqs, h3⟩ := bind_eq_ok' h2
  obtain ⟨r, hr, h4⟩ := bind_eq_ok' h3
  cases h4
  intro d hd
  rw [evalQ_parse_tail c he r q hs d hd]
  have ht' : abstractTree O g = .ok (stripCaseScopes r) := by
    unfold abstractTree; rw [hits]; simp only [C07.bind_ok, hqs, hr]
  have := abstractTree_sem c O hO g _ hok hl ht' d hd
  rwa [evalQ_strip] at this

end ZoektModel.C06
