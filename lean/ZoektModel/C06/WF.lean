/-
C06 — a syntactic well-formedness condition under which the parser accepts the items of a grammar tree
(`abstractParse O g` succeeds): every atom is a valid value for its field, `-` is not applied to a directive, and
in every group with an `or` every alternative has an operand.
-/
import ZoektModel.C06.Compose
namespace ZoektModel.C06
open ZoektModel ZoektModel.C07

/-! ### `Simplify` always returns -/

theorem flattenLoop_ok : ∀ (fuel : Nat) (q : Q), q.size < fuel → ∃ r, flattenLoop fuel q = .ok r
  | 0, _, h => by omega
  | fuel + 1, q, h => by
    have hs := (flatten_spec q).1
    unfold flattenLoop
    simp only
    split
    · rename_i hch
      exact flattenLoop_ok fuel _ (by have := hs.2 hch; omega)
    · exact ⟨_, rfl⟩

theorem simplify_ok (q : Q) : ∃ r, simplify q = .ok r := by
  unfold simplify
  exact flattenLoop_ok _ _ (by omega)

/-! ### when `parseOperators` succeeds -/

/-- `parseOperators` succeeds iff no `or` stands without an operand on either side; mirrors `poLoop` with
    `ce` = "the current alternative is still empty" -/
def poB : List Q → Bool → Bool → Bool
  | [], ce, seen => !(seen && ce)
  | q :: r, ce, seen => if isOrOp q then (!ce && poB r true true) else poB r false seen

theorem poLoop_ok : ∀ (qs top cur : List Q) (seen : Bool), poB qs cur.isEmpty seen = true →
    ∃ top' cur' seen', poLoop qs top cur seen = .ok (top', cur', seen') ∧ (seen' && cur'.isEmpty) = false
  | [], top, cur, seen, h => by
    refine ⟨top, cur, seen, rfl, ?_⟩
    simp only [poB, Bool.not_eq_true'] at h
    exact h
  | q :: r, top, cur, seen, h => by
    unfold poLoop
    unfold poB at h
    split
    · rename_i hor
      simp only [hor, if_true, Bool.and_eq_true, Bool.not_eq_true'] at h
      rw [if_neg (by simp [h.1])]
      exact poLoop_ok r _ [] true (by simpa using h.2)
    · rename_i hor
      simp only [hor, if_false] at h
      have he : (cur ++ [q]).isEmpty = false := by simp
      exact poLoop_ok r top _ seen (by rw [he]; exact h)

theorem parseOperators_ok (qs : List Q) (h : poB qs true false = true) : ∃ r, parseOperators qs = .ok r := by
  obtain ⟨top', cur', seen', hp, hc⟩ := poLoop_ok qs [] [] false (by simpa using h)
  unfold parseOperators
  rw [hp]
  simp only [C07.bind_ok, hc, Bool.false_eq_true, if_false]
  exact ⟨_, rfl⟩

theorem poB_map (G : Q → Q) (hG : ∀ x, isOrOp (G x) = isOrOp x) : ∀ (l : List Q) (ce seen : Bool),
    poB (l.map G) ce seen = poB l ce seen
  | [], _, _ => rfl
  | x :: r, ce, seen => by simp only [List.map_cons, poB, hG, poB_map G hG r]

/-- a stretch without `or`: only whether it is empty matters -/
theorem poB_noOr : ∀ (xs rest : List Q) (ce seen : Bool), (∀ x ∈ xs, isOrOp x = false) →
    poB (xs ++ rest) ce seen = poB rest (ce && xs.isEmpty) seen
  | [], rest, ce, seen, _ => by simp
  | x :: r, rest, ce, seen, h => by
    have hx := h x (by simp)
    simp only [List.cons_append, poB, hx, Bool.false_eq_true, if_false]
    rw [poB_noOr r rest false seen (fun y hy => h y (by simp [hy]))]
    simp

/-! ### one group -/

theorem group_ok (its : List Q) (h : poB (nonDir its) true false = true) :
    ∃ qs r, finishList its = .ok qs ∧ parseOperators qs = .ok r := by
  unfold finishList
  simp only [scan_eq, List.nil_append]
  have hmap : ∀ k, poB (setCaseList k (nonDir its)) true false = true := by
    intro k; rw [setCaseList_eq_map, poB_map _ (isOrOp_setCase k)]; exact h
  have hwrap : ∀ l : List Q, poB (wrapScopes l) true false = poB l true false := by
    intro l; rw [wrapScopes_eq_map, poB_map _ isOrOp_wrap]
  by_cases ht : minType its 100 = 100
  · simp only [ht, ne_eq, not_true_eq_false, if_false, C07.bind_ok]
    cases hs : anyCase its false with
    | true =>
      simp only [if_true]
      obtain ⟨r, hr⟩ := parseOperators_ok (wrapScopes (setCaseList (lastCase its bAuto) (nonDir its)))
        (by rw [hwrap]; exact hmap _)
      exact ⟨_, r, rfl, hr⟩
    | false =>
      simp only [Bool.false_eq_true, if_false]
      obtain ⟨r, hr⟩ := parseOperators_ok (setCaseList (lastCase its bAuto) (nonDir its)) (hmap _)
      exact ⟨_, r, rfl, hr⟩
  · simp only [ne_eq, ht, not_false_eq_true, if_true]
    obtain ⟨typed, htyped⟩ := parseOperators_ok (setCaseList (lastCase its bAuto) (nonDir its)) (hmap (lastCase its bAuto))
    rw [htyped]
    simp only [C07.bind_ok]
    cases hs : anyCase its false with
    | true =>
      simp only [if_true]
      obtain ⟨r, hr⟩ := parseOperators_ok (wrapScopes [Q.type (minType its 100) typed]) (by simp [wrapScopes, isOrOp, poB])
      exact ⟨_, r, rfl, hr⟩
    | false =>
      simp only [Bool.false_eq_true, if_false]
      obtain ⟨r, hr⟩ := parseOperators_ok [Q.type (minType its 100) typed] (by simp [isOrOp, poB])
      exact ⟨_, r, rfl, hr⟩

/-! ### well-formed grammar trees -/

def rqOK (O : Oracle) (t : B) : Bool :=
  match classify O t with
  | .err => false
  | _ => true

/-- the value is one the field accepts: a pattern `regexp/syntax` parses, a regexp `regexp.Compile` accepts,
    `yes`/`no` for the flags, a non-empty pattern for `sym:` -/
def atomValid (O : Oracle) (f : Field) (t n : B) : Bool :=
  match f with
  | .text | .regex | .content | .file => rqOK O t
  | .sym => !t.isEmpty && rqOK O t
  | .repo => O.compiles t
  | .branch | .lang => true
  | .archived | .fork | .pub => t == bYes || t == bNo
  | .metaF => O.compiles t && !n.contains 58

def hasOperandC : Cj → Bool
  | .one e => !isDirectiveE e
  | .cons e r => !isDirectiveE e || hasOperandC r

/-- mirrors `poB` on the grammar: every `or` has an operand on both sides -/
def altsB : Qy → Bool → Bool → Bool
  | .one c, ce, seen => !(seen && (ce && !hasOperandC c))
  | .or c r, ce, _ => !(ce && !hasOperandC c) && altsB r true true

def operandsOK (q : Qy) : Bool := altsB q true false

mutual
def wfE (O : Oracle) : E → Bool
  | .atom f _ _ t n => atomValid O f t n
  | .caseD _ => true
  | .typeD _ _ => true
  | .neg e => !isDirectiveE e && wfE O e
  | .grp _ _ q => wfQ O q && operandsOK q
def wfC (O : Oracle) : Cj → Bool
  | .one e => wfE O e
  | .cons e r => wfE O e && wfC O r
def wfQ (O : Oracle) : Qy → Bool
  | .one c => wfC O c
  | .or c r => wfC O c && wfQ O r
end

theorem regexpQuery_ok {O : Oracle} {t : B} (h : rqOK O t = true) (ct fl : Bool) : ∃ q, regexpQuery O t ct fl = .ok q := by
  unfold rqOK at h
  unfold regexpQuery
  split
  · rename_i hc; rw [hc] at h; cases h
  · exact ⟨_, rfl⟩
  · exact ⟨_, rfl⟩

theorem atomValid_item (O : Oracle) (f : Field) (a : Nat) (qd : Bool) (t n : B) (h : atomValid O f t n = true) :
    ∃ x, itemE O (.atom f a qd t n) = .ok x := by
  have key : ∀ r, atomOf O ⟨tokTypeOf f, tokTextOf f t n, []⟩ = .ok (some r) → ∃ x, itemE O (.atom f a qd t n) = .ok x := by
    intro r hr
    exact ⟨r, by simp only [itemE, hr, C07.bind_ok]⟩
  cases f with
  | text =>
    obtain ⟨q, hq⟩ := regexpQuery_ok (t := t) h false false
    exact key q (by show (regexpQuery O t false false).bind (fun q => .ok (some q)) = _; rw [hq]; rfl)
  | regex =>
    obtain ⟨q, hq⟩ := regexpQuery_ok (t := t) h false false
    exact key q (by show (regexpQuery O t false false).bind (fun q => .ok (some q)) = _; rw [hq]; rfl)
  | content =>
    obtain ⟨q, hq⟩ := regexpQuery_ok (t := t) h true false
    exact key q (by show (regexpQuery O t true false).bind (fun q => .ok (some q)) = _; rw [hq]; rfl)
  | file =>
    obtain ⟨q, hq⟩ := regexpQuery_ok (t := t) h false true
    exact key q (by show (regexpQuery O t false true).bind (fun q => .ok (some q)) = _; rw [hq]; rfl)
  | sym =>
    simp only [atomValid, Bool.and_eq_true, Bool.not_eq_true'] at h
    obtain ⟨q, hq⟩ := regexpQuery_ok (t := t) h.2 false false
    refine key (.sym q) ?_
    show (if t.isEmpty then Outcome.err "the sym: atom must have an argument"
          else (regexpQuery O t false false).bind fun q => Outcome.ok (some (Q.sym q))) = _
    rw [if_neg (by simp [h.1]), hq]; rfl
  | repo =>
    refine key (.repo t) ?_
    show (if O.compiles t then Outcome.ok (some (Q.repo t)) else .err "regexp compile") = _
    have h' : O.compiles t = true := h
    rw [if_pos h']
  | branch => exact key (.branch t) rfl
  | lang =>
    cases hl : O.lang t with
    | none =>
      refine key (.const false) ?_
      show (match O.lang t with | none => Outcome.ok (some (Q.const false)) | some cn => .ok (some (.lang cn))) = _
      rw [hl]
    | some cn =>
      refine key (.lang cn) ?_
      show (match O.lang t with | none => Outcome.ok (some (Q.const false)) | some cn => .ok (some (.lang cn))) = _
      rw [hl]
  | archived =>
    simp only [atomValid, Bool.or_eq_true, beq_iff_eq] at h
    rcases h with rfl | rfl
    · exact key (.rawConfig 16) rfl
    · exact key (.rawConfig 32) rfl
  | fork =>
    simp only [atomValid, Bool.or_eq_true, beq_iff_eq] at h
    rcases h with rfl | rfl
    · exact key (.rawConfig 4) rfl
    · exact key (.rawConfig 8) rfl
  | pub =>
    simp only [atomValid, Bool.or_eq_true, beq_iff_eq] at h
    rcases h with rfl | rfl
    · exact key (.rawConfig 1) rfl
    · exact key (.rawConfig 2) rfl
  | metaF =>
    simp only [atomValid, Bool.and_eq_true, Bool.not_eq_true', List.contains_eq_mem, decide_eq_false_iff_not] at h
    refine key (.metaQ n t) ?_
    show (match splitColon (n ++ [58] ++ t) with
          | none => Outcome.err "invalid meta field syntax"
          | some (field, value) =>
            if O.compiles value then Outcome.ok (some (Q.metaQ field value)) else .err "invalid regexp in meta value") = _
    have hsp : splitColon (n ++ [58] ++ t) = some (n, t) := by simpa using splitColon_name n t h.2
    rw [hsp]
    simp only
    rw [if_pos h.1]

/-! ### the parser accepts the items of a well-formed tree -/

def noCorpus : Corpus := ⟨[], []⟩

mutual
theorem exE (O : Oracle) (hO : AutoCaseAgrees O) : ∀ e, wfE O e = true → semOKE e = true → ∃ x, itemE O e = .ok x
  | .atom f a qd t n, hw, _ => atomValid_item O f a qd t n (by simpa [wfE] using hw)
  | .caseD fl, _, _ => ⟨.caseQ (caseWord fl), by simp only [itemE]⟩
  | .typeD a v, _, _ => ⟨.type (typeNum v) .nil, by simp only [itemE]⟩
  | .neg e, hw, hok => by
    simp only [wfE, Bool.and_eq_true, Bool.not_eq_true'] at hw
    simp only [semOKE, Bool.and_eq_true, Bool.not_eq_true'] at hok
    obtain ⟨y, hy⟩ := exE O hO e hw.2 hok.2
    have hd : isDirective y = false := by
      rw [(thmE noCorpus O hO e y hy hok.2).2.2.1]; exact hw.1
    exact ⟨.not y, by simp only [itemE, hy, C07.bind_ok, hd, Bool.false_eq_true, if_false]⟩
  | .grp pl pr q, hw, hok => by
    simp only [wfE, Bool.and_eq_true] at hw
    simp only [semOKE, Bool.and_eq_true, decide_eq_true_eq] at hok
    obtain ⟨its, hits, hpo⟩ := exQ O hO q hw.1 hok.1
    obtain ⟨qs, r, hqs, hr⟩ := group_ok its (by rw [hpo]; exact hw.2)
    exact ⟨r, by simp only [itemE, hits, C07.bind_ok, hqs, hr]⟩
theorem exC (O : Oracle) (hO : AutoCaseAgrees O) : ∀ cj, wfC O cj = true → semOKC cj = true →
    ∃ xs, itemsC O cj = .ok xs ∧ (nonDir xs).isEmpty = !hasOperandC cj ∧ (∀ x ∈ xs, isOrOp x = false)
  | .one e, hw, hok => by
    simp only [wfC] at hw
    simp only [semOKC] at hok
    obtain ⟨x, hx⟩ := exE O hO e hw hok
    have ht := thmE noCorpus O hO e x hx hok
    refine ⟨[x], by simp only [itemsC, hx, C07.bind_ok], ?_, by simpa using ht.1⟩
    cases hd : isDirectiveE e with
    | true => rw [nonDir_cons_dir (by rw [ht.2.2.1, hd])]; simp [nonDir, hasOperandC, hd]
    | false => rw [nonDir_cons_nondir (by rw [ht.2.2.1, hd])]; simp [hasOperandC, hd]
  | .cons e r, hw, hok => by
    simp only [wfC, Bool.and_eq_true] at hw
    simp only [semOKC, Bool.and_eq_true] at hok
    obtain ⟨x, hx⟩ := exE O hO e hw.1 hok.1
    obtain ⟨xs, hxs, hemp, hno⟩ := exC O hO r hw.2 hok.2
    have ht := thmE noCorpus O hO e x hx hok.1
    refine ⟨x :: xs, by simp only [itemsC, hx, C07.bind_ok, hxs], ?_, ?_⟩
    · cases hd : isDirectiveE e with
      | true => rw [nonDir_cons_dir (by rw [ht.2.2.1, hd]), hemp]; simp [hasOperandC, hd]
      | false => rw [nonDir_cons_nondir (by rw [ht.2.2.1, hd])]; simp [hasOperandC, hd]
    · intro y hy
      simp only [List.mem_cons] at hy
      rcases hy with rfl | hy
      · exact ht.1
      · exact hno y hy
theorem exQ (O : Oracle) (hO : AutoCaseAgrees O) : ∀ q, wfQ O q = true → semOKQ q = true →
    ∃ its, itemsQ O q = .ok its ∧ ∀ ce seen, poB (nonDir its) ce seen = altsB q ce seen
  | .one cj, hw, hok => by
    simp only [wfQ] at hw
    simp only [semOKQ] at hok
    obtain ⟨xs, hxs, hemp, hno⟩ := exC O hO cj hw hok
    refine ⟨xs, by simpa only [itemsQ] using hxs, ?_⟩
    intro ce seen
    have := poB_noOr (nonDir xs) [] ce seen (fun x hx => hno x (mem_of_mem_nonDir hx))
    rw [List.append_nil] at this
    rw [this, hemp]
    simp [poB, altsB]
  | .or cj r, hw, hok => by
    simp only [wfQ, Bool.and_eq_true] at hw
    simp only [semOKQ, Bool.and_eq_true] at hok
    obtain ⟨a, ha, hemp, hno⟩ := exC O hO cj hw.1 hok.1
    obtain ⟨b, hb, hpb⟩ := exQ O hO r hw.2 hok.2
    refine ⟨a ++ Q.orOp :: b, by simp only [itemsQ, ha, C07.bind_ok, hb], ?_⟩
    intro ce seen
    have hnd : nonDir (a ++ Q.orOp :: b) = nonDir a ++ Q.orOp :: nonDir b := by
      rw [nonDir_append, nonDir_cons_nondir (by rfl)]
    rw [hnd, poB_noOr (nonDir a) _ ce seen (fun x hx => hno x (mem_of_mem_nonDir hx)), hemp]
    simp only [poB, isOrOp, if_true, hpb true true, altsB]
end

/-- **a well-formed tree is accepted**: if every atom is a valid value for its field, `-` is not applied to a
    directive and every `or` (in every group) has an operand on both sides, the parser's post-processing of the
    tree's items succeeds -/
theorem abstractParse_ok (O : Oracle) (hO : AutoCaseAgrees O) (g : Qy) (hw : wfQ O g = true) (hop : operandsOK g = true)
    (hok : semOKQ g = true) : ∃ q, abstractParse O g = .ok q := by
  obtain ⟨its, hits, hpo⟩ := exQ O hO g hw hok
  obtain ⟨qs, r, hqs, hr⟩ := group_ok its (by rw [hpo]; exact hop)
  obtain ⟨q, hq⟩ := simplify_ok (stripCaseScopes r)
  exact ⟨q, by simp only [abstractParse, abstractTree, hits, C07.bind_ok, hqs, hr, hq]⟩

end ZoektModel.C06
