import ZoektModel.Basic.Proto
import ZoektModel.C07.Driver
import ZoektModel.C06.Spec
namespace ZoektModel.C06
open ZoektModel ZoektModel.Proto ZoektModel.C07

def fieldOfName (s : String) : Option Field :=
  match s with
  | "text" => some .text | "content" => some .content | "file" => some .file | "regex" => some .regex
  | "repo" => some .repo | "sym" => some .sym | "branch" => some .branch | "lang" => some .lang
  | "archived" => some .archived | "fork" => some .fork | "public" => some .pub | "meta" => some .metaF
  | _ => none

/-! prefix encoding of a grammar tree, tokens separated by `;`:
    `Q<n>` n conjunctions · `C<n>` n expressions · `N` negation · `G<padL><padR>` group · `K<flavor>` case ·
    `T<alias><val>` type · `A.<field>.<alias>.<quoted>.<texthex>.<namehex>` atom -/
mutual
def decE : Nat → List String → Option (E × List String)
  | 0, _ => none
  | fuel + 1, tok :: rest =>
    if tok == "N" then do
      let (e, rest) ← decE fuel rest
      pure (.neg e, rest)
    else if tok.startsWith "G" then
      match (tok.drop 1).toString.toList with
      | [a, b] => do
        let (q, rest) ← decQ fuel rest
        pure (.grp (a == '1') (b == '1') q, rest)
      | _ => none
    else if tok.startsWith "K" then do
      let n ← (tok.drop 1).toString.toNat?
      pure (.caseD n, rest)
    else if tok.startsWith "T" then
      match (tok.drop 1).toString.toList with
      | [a, v] => some (.typeD (a.toNat - 48) (v.toNat - 48), rest)
      | _ => none
    else if tok.startsWith "A." then
      match tok.splitOn "." with
      | [_, f, a, q, t, n] => do
        let f ← fieldOfName f
        let a ← a.toNat?
        let q ← bool? q
        let t ← unhexB t
        let n ← unhexB n
        pure (.atom f a q t n, rest)
      | _ => none
    else none
  | _, [] => none
def decCj : Nat → Nat → List String → Option (Cj × List String)
  | 0, _, _ => none
  | fuel + 1, n, toks => do
    let (e, rest) ← decE fuel toks
    if n ≤ 1 then pure (.one e, rest)
    else do
      let (r, rest) ← decCj fuel (n - 1) rest
      pure (.cons e r, rest)
def decQn : Nat → Nat → List String → Option (Qy × List String)
  | 0, _, _ => none
  | fuel + 1, n, toks =>
    match toks with
    | tok :: rest =>
      if tok.startsWith "C" then do
        let k ← (tok.drop 1).toString.toNat?
        if k = 0 then none else
        let (c, rest) ← decCj fuel k rest
        if n ≤ 1 then pure (.one c, rest)
        else do
          let (r, rest) ← decQn fuel (n - 1) rest
          pure (.or c r, rest)
      else none
    | [] => none
def decQ : Nat → List String → Option (Qy × List String)
  | 0, _ => none
  | fuel + 1, toks =>
    match toks with
    | tok :: rest =>
      if tok.startsWith "Q" then do
        let n ← (tok.drop 1).toString.toNat?
        if n = 0 then none else decQn fuel n rest
      else none
    | [] => none
end

def decodeG (s : String) : Option Qy :=
  let toks := s.splitOn ";"
  match decQ (4 * toks.length + 4) toks with
  | some (q, []) => some q
  | _ => none

def bits? (s : String) : Option (List Bool) :=
  if s == "-" then some [] else
  s.toList.mapM fun c => if c == '1' then some true else if c == '0' then some false else none

def parseRow (s : String) : Option TruthRow :=
  match s.splitOn "." with
  | [k, t, n, cs, ci] => do
    let kc ← k.toList.head?
    let t ← unhexB t
    let n ← unhexB n
    let cs ← bits? cs
    let ci ← bits? ci
    pure ⟨⟨kc.toNat, t, n⟩, cs, ci⟩
  | _ => none

def parseRows (s : String) : Option (List TruthRow) :=
  if s == "-" then some [] else (s.splitOn ",").mapM parseRow

/-- the model's prediction of what the implementation selects: parse the rendered string, evaluate the tree -/
def modelBits (O : Oracle) (c : Corpus) (s : B) : String :=
  match parse O s with
  | .ok q => if keysPresent c q then showPred c (evalQ c q) ++ " T=" ++ canon q else "?" ++ canon q
  | .err _ => "err"
  | .panic st => "panic:" ++ st
  | .diverge => "diverge"

def boolsToString (l : List Bool) : String :=
  if l.isEmpty then "-" else String.ofList (l.map fun x => if x then '1' else '0')

def handle (line : String) : String :=
  let (inp, impl) := splitCase line
  match fields inp with
  | ["sem", g, h, tbl, repos, rows] =>
    match decodeG g, unhexB h, parseOracleTable tbl, natList? repos, parseRows rows with
    | some g, some s, some tbl, some repoOf, some rows =>
      if renderQ g != s then badCase "render(G) differs from the string the harness sent" else
      let c : Corpus := ⟨repoOf, rows⟩
      if !(rows.all fun r => r.cs.length == c.n && r.ci.length == c.n) then badCase "truth row length" else
      if !definedQ g then badCase "sem undefined for this tree (generator must stay inside the documented values)" else
      let m1 := modelBits (mkOracle tbl false) c s
      let m2 := modelBits (mkOracle tbl true) c s
      if m1 != m2 then badCase "oracle table lacks a key the model consulted" else
      let O := mkOracle tbl false
      -- the implementation's answer is `<selected documents> T=<canonical parsed tree>` (or `err`); the tree takes
      -- part in the correspondence only, the property (checkP) is about the documents
      let implDocs := match impl.splitOn " T=" with
        | d :: _ => d
        | [] => impl
      let m1Docs := match m1.splitOn " T=" with
        | d :: _ => d
        | [] => m1
      let implBits : Option (Option (List Bool)) :=
        if implDocs == "err" then some none else (bits? implDocs).map some
      -- the tree the theorems of Props/C06 are about (`abstractParse g`): reported when it selects other documents
      -- than the model's parse of the rendered string (the tokenizer did not read render(g) as g)
      let abs := match abstractParse O g with
        | .ok q => showPred c (evalQ c q)
        | .err _ => "err"
        | _ => "crash"
      let note := if abs == m1Docs then "" else " abstract=" ++ abs
      match implBits with
      | none => specFail m1 ("impl:" ++ impl)
      | some ib =>
        if checkP O c g ib then (if note == "" then answer m1 else specFail m1 ("roundtrip" ++ note))
        else specFail m1 ("sem want=" ++ showPred c (semQ O c none g) ++ note)
    | _, _, _, _, _ => badCase "fields"
  | _ => badCase "op"

def main : IO Unit := runLines handle
end ZoektModel.C06
