import ZoektModel.Basic.Proto
namespace ZoektModel.C06
/-- stub: no model driver for C06 yet -/
def main : IO Unit := ZoektModel.Proto.runLines (fun _ => ZoektModel.Proto.badCase "no model driver for C06")
end ZoektModel.C06
