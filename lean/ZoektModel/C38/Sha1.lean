/-
SHA-1 (FIPS 180-4), executable, core Lean only.  Used by the C38 model so that `Options.GetHash` can be compared
string-for-string with the Go implementation.  Nothing is proved about it: the theorems treat the digest as an
opaque function and carry an explicit no-collision hypothesis for the two preimages at hand.
-/
namespace ZoektModel.Sha1

def rotl (x : UInt32) (n : UInt32) : UInt32 := (x <<< n) ||| (x >>> (32 - n))

def be64 (n : Nat) : List UInt8 :=
  (List.range 8).map fun i => UInt8.ofNat ((n >>> (8 * (7 - i))) % 256)

def pad (msg : List UInt8) : List UInt8 :=
  let l := msg.length
  let zeros := (55 + 64 - l % 64) % 64
  msg ++ [0x80] ++ List.replicate zeros 0 ++ be64 (l * 8)

def word (b : Array UInt8) (off : Nat) : UInt32 :=
  (b[off]!.toUInt32 <<< 24) ||| (b[off + 1]!.toUInt32 <<< 16) ||| (b[off + 2]!.toUInt32 <<< 8) ||| b[off + 3]!.toUInt32

structure St where
  h0 : UInt32
  h1 : UInt32
  h2 : UInt32
  h3 : UInt32
  h4 : UInt32

def block (s : St) (b : Array UInt8) (off : Nat) : St := Id.run do
  let mut w : Array UInt32 := Array.mkEmpty 80
  for i in [0:16] do
    w := w.push (word b (off + 4 * i))
  for i in [16:80] do
    w := w.push (rotl (w[i - 3]! ^^^ w[i - 8]! ^^^ w[i - 14]! ^^^ w[i - 16]!) 1)
  let mut a := s.h0
  let mut bb := s.h1
  let mut c := s.h2
  let mut d := s.h3
  let mut e := s.h4
  for i in [0:80] do
    let (f, k) : UInt32 × UInt32 :=
      if i < 20 then ((bb &&& c) ||| ((~~~ bb) &&& d), 0x5A827999)
      else if i < 40 then (bb ^^^ c ^^^ d, 0x6ED9EBA1)
      else if i < 60 then ((bb &&& c) ||| (bb &&& d) ||| (c &&& d), 0x8F1BBCDC)
      else (bb ^^^ c ^^^ d, 0xCA62C1D6)
    let temp := rotl a 5 + f + e + k + w[i]!
    e := d
    d := c
    c := rotl bb 30
    bb := a
    a := temp
  return ⟨s.h0 + a, s.h1 + bb, s.h2 + c, s.h3 + d, s.h4 + e⟩

def hexDigit (n : Nat) : Char := if n < 10 then Char.ofNat (48 + n) else Char.ofNat (87 + n)

def hex32 (x : UInt32) : List Char :=
  (List.range 8).map fun i => hexDigit ((x.toNat >>> (4 * (7 - i))) % 16)

/-- lower-case hex digest, as `fmt.Sprintf("%x", hasher.Sum(nil))` -/
def sha1hex (msg : List UInt8) : String := Id.run do
  let b := (pad msg).toArray
  let mut s : St := ⟨0x67452301, 0xEFCDAB89, 0x98BADCFE, 0x10325476, 0xC3D2E1F0⟩
  for i in [0:b.size / 64] do
    s := block s b (64 * i)
  return String.ofList (hex32 s.h0 ++ hex32 s.h1 ++ hex32 s.h2 ++ hex32 s.h3 ++ hex32 s.h4)

end ZoektModel.Sha1
