/-
C38 — unique decodability of the hash preimage  ctagsPath ‖ %t ‖ %d ‖ %q ‖ %t  (core Lean only).
The preimage is parsed from the right: the trailing boolean, the bracketed quoted list, the digit run, the boolean,
and what remains is the path.
-/
import ZoektModel.C38.Spec
namespace ZoektModel.C38

theorem fmtBool_true : fmtBool true = ['t', 'r', 'u', 'e'] := by decide
theorem fmtBool_false : fmtBool false = ['f', 'a', 'l', 's', 'e'] := by decide

/-- a run of characters satisfying `p`, ended by one that does not, is determined by the whole string -/
theorem prefix_delim (p : Char → Bool) (A A' : List Char) (x x' : Char) (B B' : List Char)
    (hA : ∀ c ∈ A, p c = true) (hA' : ∀ c ∈ A', p c = true) (hx : p x = false) (hx' : p x' = false)
    (h : A ++ x :: B = A' ++ x' :: B') : A = A' ∧ x = x' ∧ B = B' := by
  induction A generalizing A' with
  | nil =>
    cases A' with
    | nil => simpa using h
    | cons a t =>
      simp only [List.nil_append, List.cons_append, List.cons.injEq] at h
      have := hA' a (by simp)
      rw [← h.1, hx] at this
      cases this
  | cons a t ih =>
    cases A' with
    | nil =>
      simp only [List.nil_append, List.cons_append, List.cons.injEq] at h
      have := hA a (by simp)
      rw [h.1, hx'] at this
      cases this
    | cons a' t' =>
      simp only [List.cons_append, List.cons.injEq] at h
      obtain ⟨rfl, h2⟩ := h
      obtain ⟨h3, h4, h5⟩ := ih t' (fun c hc => hA c (by simp [hc])) (fun c hc => hA' c (by simp [hc])) h2
      exact ⟨by rw [h3], h4, h5⟩

/-! ### the trailing / inner boolean -/

theorem fmtBool_suffix_inj (X Y : List Char) (b c : Bool) (h : X ++ fmtBool b = Y ++ fmtBool c) : b = c ∧ X = Y := by
  cases b <;> cases c
  · exact ⟨rfl, List.append_cancel_right h⟩
  · exfalso
    have := congrArg List.reverse h
    simp [fmtBool_true, fmtBool_false] at this
  · exfalso
    have := congrArg List.reverse h
    simp [fmtBool_true, fmtBool_false] at this
  · exact ⟨rfl, List.append_cancel_right h⟩

theorem fmtBool_reverse_head (b : Bool) : ∃ t, (fmtBool b).reverse = 'e' :: t := by
  cases b
  · exact ⟨['s', 'l', 'a', 'f'], by simp [fmtBool_false]⟩
  · exact ⟨['u', 'r', 't'], by simp [fmtBool_true]⟩

/-! ### `%d` -/

theorem fmtNat_digits (n : Nat) : ∀ c ∈ fmtNat n, c.isDigit = true :=
  fun _ hc => Nat.isDigit_of_mem_toDigits (by decide) (by decide) hc

theorem fmtNat_ne_nil (n : Nat) : fmtNat n ≠ [] := Nat.toDigits_ne_nil

theorem fmtNat_inj (n m : Nat) (h : fmtNat n = fmtNat m) : n = m := by
  have := congrArg (fun l => Nat.ofDigitChars 10 l 0) h
  simpa [fmtNat, Nat.ofDigitChars_ten_toDigits] using this

/-- reversed `%d` followed by something that starts with 'e': the integer is determined -/
theorem fmtInt_delim (i j : Int) (U W : List Char)
    (h : (fmtInt i).reverse ++ 'e' :: U = (fmtInt j).reverse ++ 'e' :: W) : i = j ∧ U = W := by
  have hrev : ∀ n, ∀ c ∈ (fmtNat n).reverse, c.isDigit = true := fun n c hc => fmtNat_digits n c (by simpa using hc)
  cases i with
  | ofNat n =>
    cases j with
    | ofNat m =>
      simp only [fmtInt] at h
      obtain ⟨h1, _, h3⟩ := prefix_delim Char.isDigit _ _ 'e' 'e' U W (hrev n) (hrev m) (by decide) (by decide) h
      have := fmtNat_inj n m (by simpa using h1)
      exact ⟨by rw [this], h3⟩
    | negSucc m =>
      exfalso
      simp only [fmtInt, List.reverse_cons, List.append_assoc, List.singleton_append] at h
      obtain ⟨_, h2, _⟩ := prefix_delim Char.isDigit _ _ 'e' '-' U _ (hrev n) (hrev (m + 1)) (by decide) (by decide) h
      exact absurd h2 (by decide)
  | negSucc n =>
    cases j with
    | ofNat m =>
      exfalso
      simp only [fmtInt, List.reverse_cons, List.append_assoc, List.singleton_append] at h
      obtain ⟨_, h2, _⟩ := prefix_delim Char.isDigit _ _ '-' 'e' _ W (hrev (n + 1)) (hrev m) (by decide) (by decide) h
      exact absurd h2 (by decide)
    | negSucc m =>
      simp only [fmtInt, List.reverse_cons, List.append_assoc, List.singleton_append] at h
      obtain ⟨h1, _, h3⟩ := prefix_delim Char.isDigit _ _ '-' '-' _ _ (hrev (n + 1)) (hrev (m + 1)) (by decide) (by decide) h
      have hnm := fmtNat_inj (n + 1) (m + 1) (by simpa using h1)
      simp only [List.cons.injEq, true_and] at h3
      have : n = m := by omega
      exact ⟨by rw [this], h3⟩

/-! ### `%q` of a string list -/

/-- strings that `%q` prints between bare quotes: no quote, no backslash, no control character -/
def plain (s : List Char) : Prop := ∀ c ∈ s, quoteChar c = [c] ∧ c ≠ '"'

theorem flatMap_quote_plain (s : List Char) (h : plain s) : s.flatMap quoteChar = s := by
  induction s with
  | nil => rfl
  | cons c t ih =>
    rw [List.flatMap_cons, (h c (by simp)).1, ih (fun x hx => h x (by simp [hx]))]
    rfl

theorem goQuote_plain (s : List Char) (h : plain s) : goQuote s = '"' :: (s ++ ['"']) := by
  rw [goQuote, flatMap_quote_plain s h]

theorem joinSp_snoc (m : List (List Char)) (s : List Char) :
    joinSp (m ++ [s]) = if m = [] then s else joinSp m ++ ' ' :: s := by
  induction m with
  | nil => simp [joinSp]
  | cons a t ih =>
    cases t with
    | nil => simp [joinSp]
    | cons b r =>
      simp only [List.cons_append, joinSp] at ih ⊢
      rw [ih]
      simp

/-- the reversed join, by recursion on the reversed element list -/
def rtail (rj : List (List Char) → List Char) : List (List Char) → List Char
  | [] => []
  | t => ' ' :: rj t

def rjoin : List (List Char) → List Char
  | [] => []
  | e :: t => e.reverse ++ (match t with | [] => [] | _ :: _ => ' ' :: rjoin t)

theorem reverse_joinSp (m : List (List Char)) : (joinSp m.reverse).reverse = rjoin m := by
  induction m with
  | nil => rfl
  | cons e t ih =>
    rw [List.reverse_cons, joinSp_snoc]
    cases t with
    | nil => simp [rjoin]
    | cons t0 r =>
      have hne : (t0 :: r).reverse ≠ [] := by simp
      rw [if_neg hne, List.reverse_append, List.reverse_cons, ih]
      simp [rjoin]

theorem rjoin_quoted_delim (m m' : List (List Char)) (hm : ∀ s ∈ m, plain s) (hm' : ∀ s ∈ m', plain s)
    (U W : List Char) (h : rjoin (m.map goQuote) ++ '[' :: U = rjoin (m'.map goQuote) ++ '[' :: W) :
    m = m' ∧ U = W := by
  induction m generalizing m' with
  | nil =>
    cases m' with
    | nil => simpa [rjoin] using h
    | cons s' t' =>
      exfalso
      simp only [List.map_nil, rjoin, List.nil_append, List.map_cons, goQuote_plain s' (hm' s' (by simp))] at h
      simp at h
  | cons s t ih =>
    cases m' with
    | nil =>
      exfalso
      simp only [List.map_nil, rjoin, List.nil_append, List.map_cons, goQuote_plain s (hm s (by simp))] at h
      simp at h
    | cons s' t' =>
      have hs := hm s (by simp)
      have hs' := hm' s' (by simp)
      simp only [List.map_cons, rjoin, goQuote_plain s hs, goQuote_plain s' hs', List.reverse_cons, List.reverse_append,
        List.reverse_nil, List.nil_append, List.singleton_append, List.cons_append, List.append_assoc, List.cons.injEq,
        true_and] at h
      have hq : ∀ (x : List Char), plain x → ∀ c ∈ x.reverse, (c != '"') = true := by
        intro x hx c hc
        have := (hx c (by simpa using hc)).2
        simpa using this
      obtain ⟨h1, _, h3⟩ := prefix_delim (fun c => c != '"') _ _ '"' '"' _ _ (hq s hs) (hq s' hs') (by decide) (by decide) h
      have hss : s = s' := by simpa using h1
      subst hss
      cases t with
      | nil =>
        cases t' with
        | nil => simpa using h3
        | cons a' r' => exfalso; simp at h3
      | cons a r =>
        cases t' with
        | nil => exfalso; simp at h3
        | cons a' r' =>
          simp only [List.map_cons, List.cons_append, List.cons.injEq, true_and] at h3
          have := ih (a' :: r') (fun x hx => hm x (by simp [hx])) (fun x hx => hm' x (by simp [hx]))
            (by simpa using h3)
          exact ⟨by rw [this.1], this.2⟩

/-- reversed `%q` of a list -/
theorem fmtQList_reverse (l : List String) :
    (fmtQList l).reverse = ']' :: (rjoin ((l.map String.toList).reverse.map goQuote) ++ ['[']) := by
  unfold fmtQList
  have : (l.map fun s => goQuote s.toList) = ((l.map String.toList).reverse.map goQuote).reverse := by
    simp [List.map_reverse]
  rw [List.reverse_cons, List.reverse_append, this, reverse_joinSp]
  simp

/-! ### the preimage -/

theorem map_toList_inj : ∀ (l l' : List String), l.map String.toList = l'.map String.toList → l = l'
  | [], [], _ => rfl
  | [], _ :: _, h => by simp at h
  | _ :: _, [], h => by simp at h
  | a :: t, b :: t', h => by
    simp only [List.map_cons, List.cons.injEq] at h
    rw [String.toList_inj.mp h.1, map_toList_inj t t' h.2]

/-- **the hash preimage is uniquely decodable** (large-file patterns without quotes, backslashes and control
    characters): equal preimages have equal hashed fields -/
theorem preimage_injective_partial (a b : Opts)
    (ha : ∀ s ∈ a.largeFiles, plain s.toList) (hb : ∀ s ∈ b.largeFiles, plain s.toList)
    (h : preimage a = preimage b) :
    a.ctagsPath = b.ctagsPath ∧ a.cTagsMustSucceed = b.cTagsMustSucceed ∧ a.sizeMax = b.sizeMax ∧
    a.largeFiles = b.largeFiles ∧ a.disableCTags = b.disableCTags := by
  unfold preimage at h
  obtain ⟨hdis, h1⟩ := fmtBool_suffix_inj _ _ _ _ h
  -- the list and the integer, from the right
  have h2 := congrArg List.reverse h1
  simp only [List.reverse_append, fmtQList_reverse, List.cons_append, List.append_assoc, List.singleton_append,
    List.cons.injEq, true_and] at h2
  obtain ⟨e1, he1⟩ := fmtBool_reverse_head a.cTagsMustSucceed
  obtain ⟨e2, he2⟩ := fmtBool_reverse_head b.cTagsMustSucceed
  obtain ⟨hl, hU⟩ := rjoin_quoted_delim _ _
    (fun s hs => by
      obtain ⟨x, hx, rfl⟩ := List.mem_map.mp (List.mem_reverse.mp hs)
      exact ha x hx)
    (fun s hs => by
      obtain ⟨x, hx, rfl⟩ := List.mem_map.mp (List.mem_reverse.mp hs)
      exact hb x hx) _ _ h2
  have hlf : a.largeFiles = b.largeFiles := by
    have := congrArg List.reverse hl
    simp only [List.reverse_reverse] at this
    exact map_toList_inj _ _ this
  rw [he1, he2] at hU
  simp only [List.cons_append] at hU
  obtain ⟨hsz, _⟩ := fmtInt_delim _ _ _ _ hU
  -- now cancel from the right in the unreversed equation
  rw [hlf, hsz] at h1
  have h3 := List.append_cancel_right (List.append_cancel_right h1)
  obtain ⟨hmust, hp⟩ := fmtBool_suffix_inj _ _ _ _ h3
  exact ⟨String.toList_inj.mp hp, hmust, hsz, hlf, hdis⟩

end ZoektModel.C38
