import ZoektModel.Basic.Proto
namespace ZoektModel.C38
/-- stub: no model driver for C38 yet -/
def main : IO Unit := ZoektModel.Proto.runLines (fun _ => ZoektModel.Proto.badCase "no model driver for C38")
end ZoektModel.C38
