import ZoektModel.Basic.Proto
import ZoektModel.C38.Spec
namespace ZoektModel.C38
open ZoektModel ZoektModel.Proto

/-- strings travel as `x<hex of UTF-8>` (so that the empty string and the empty list stay distinct) -/
def str? (s : String) : Option String :=
  if s.startsWith "x" then do
    let b ← hexCharsToBytes (s.drop 1).toString.toList
    String.fromUTF8? b.toByteArray
  else none

def encStr (s : String) : String :=
  "x" ++ String.ofList (s.toUTF8.toList.flatMap fun b => [hexDigit (b.toNat / 16), hexDigit (b.toNat % 16)])

def list? {α} (sep : String) (f : String → Option α) (s : String) : Option (List α) :=
  if s == "-" then some [] else (s.splitOn sep).mapM f

def pair? (s : String) : Option (String × String) :=
  match s.splitOn "=" with
  | [k, v] => do pure (← str? k, ← str? v)
  | _ => none

def encPairs (l : List (String × String)) : String :=
  showList id ((l.map fun kv => encStr kv.1 ++ "=" ++ encStr kv.2).mergeSort fun a b => !(decide (b < a)))

def repo? (s : String) : Option Repo :=
  match s.splitOn "~" with
  | [id, nm, brs, raw, url, c, f, l, io, md] => do
    let id ← id.toNat?
    let nm ← str? nm
    let brs ← list? "+" (fun b => do let (n, v) ← pair? b; pure (Branch.mk n v)) brs
    let raw ← if raw == "nil" then some none else (list? "+" pair? raw).map some
    let md ← list? "+" pair? md
    pure ⟨id, nm, brs, raw, ← str? url, ← str? c, ← str? f, ← str? l, ← str? io, md⟩
  | _ => none

def encRepo (r : Repo) : String :=
  let brs := showList (fun (b : Branch) => encStr b.name ++ "=" ++ encStr b.version) r.branches
  let brs := brs.replace "," "+"
  let raw := match r.rawConfig with
    | none => "nil"
    | some m => (encPairs m).replace "," "+"
  "~".intercalate [toString r.id, encStr r.name, brs, raw, encStr r.url, encStr r.commitURLTemplate,
    encStr r.fileURLTemplate, encStr r.lineFragmentTemplate, encStr r.indexOptions, (encPairs r.metadata).replace "," "+"]

def opts? (s : String) : Option Opts :=
  match s.splitOn "|" with
  | [sm, tm, dis, ct, scip, must, lf, lm, repo] => do
    let lm ← list? "," (fun e => match e.splitOn "=" with
      | [k, v] => do pure (← str? k, ← v.toNat?)
      | _ => none) lm
    pure ⟨← sm.toInt?, ← tm.toInt?, ← bool? dis, ← str? ct, ← str? scip, ← bool? must, ← list? "," str? lf, lm, ← repo? repo⟩
  | _ => none

def disk? (s : String) : Option Disk :=
  if s == "noshard" then some .noShard
  else if s == "garbage" then some .unreadable
  else match s.splitOn ":" with
    | ["shard", fmt, feat, repos] => do
      pure (.shard (← fmt.toNat?) (← feat.toNat?) (← list? ";" repo? repos))
    | _ => none

def versions? (s : String) : Option Versions :=
  match s.splitOn ":" with
  | [a, b, c] => do pure ⟨← a.toNat?, ← b.toNat?, ← c.toNat?⟩
  | _ => none

def state? (s : String) : Option State :=
  [State.missing, .corrupt, .version, .option, .metaOnly, .content, .equal].find? fun st => st.toString == s

def handle (line : String) : String :=
  let (inp, impl) := splitCase line
  match fields inp with
  | ["hash", o] =>
    match opts? o with
    | some o => answer (getHash o)
    | none => badCase "hash fields"
  | ["merge", r, x] =>
    match repo? r, repo? x with
    | some r, some x =>
      answer (match mergeMutable r x with
        | .error .id => "err:ID"
        | .error .name => "err:Name"
        | .error .branches => "err:Branches"
        | .ok (m, r') => s!"ok:{showBool m}:{encRepo r'}")
    | _, _ => badCase "merge fields"
  | ["state", healthy, v, d, a, b] =>
    match bool? healthy, versions? v, disk? d, opts? a, opts? b with
    | some healthy, some v, some d, some a, some b =>
      let model := (indexState v d b).toString
      if !healthy then answer model else
      match state? impl with
      | none => badCase "state impl"
      | some st =>
        match violation a b st with
        | none => answer model
        | some key => specFail model key
    | _, _, _, _, _ => badCase "state fields"
  | _ => badCase "op"

def main : IO Unit := runLines handle
end ZoektModel.C38
