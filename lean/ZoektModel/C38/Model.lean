/-
C38 — model of index/builder.go `Options.HashOptions`, `Options.GetHash`, `Options.IndexState`,
`Options.IncrementalSkipIndexing` and api.go `Repository.MergeMutable`, transcribed as written.

Strings are `String`s; maps are association lists with unique keys (`Option` where Go distinguishes a nil map).
-/
import ZoektModel.C38.Sha1
namespace ZoektModel.C38

structure Branch where
  name : String
  version : String
  deriving DecidableEq, Repr

/-- zoekt.Repository, the fields `IndexState` / `MergeMutable` read or write, plus `metadata` (which they ignore) -/
structure Repo where
  id : Nat
  name : String
  branches : List Branch
  rawConfig : Option (List (String × String))      -- `none` = nil map
  url : String
  commitURLTemplate : String
  fileURLTemplate : String
  lineFragmentTemplate : String
  indexOptions : String
  metadata : List (String × String)
  deriving DecidableEq, Repr

/-- index.Options -/
structure Opts where
  sizeMax : Int
  trigramMax : Int
  disableCTags : Bool
  ctagsPath : String
  scipCTagsPath : String
  cTagsMustSucceed : Bool
  largeFiles : List String
  languageMap : List (String × Nat)
  repo : Repo                       -- RepositoryDescription
  deriving DecidableEq, Repr

/-! ## GetHash -/

def fmtBool (b : Bool) : List Char := if b then "true".toList else "false".toList

def fmtNat (n : Nat) : List Char := (Nat.toDigits 10 n)

/-- `%d` -/
def fmtInt (i : Int) : List Char :=
  match i with
  | .ofNat n => fmtNat n
  | .negSucc n => '-' :: fmtNat (n + 1)

def hexDigit (n : Nat) : Char := if n < 10 then Char.ofNat (48 + n) else Char.ofNat (87 + n)

/-- `strconv.Quote` on one character, for ASCII input (code points < 0x80; others are passed through, which is
    what Go does for printable non-ASCII runes — non-printable non-ASCII runes are outside this model) -/
def quoteChar (c : Char) : List Char :=
  if c = '"' then ['\\', '"']
  else if c = '\\' then ['\\', '\\']
  else if c.toNat = 7 then ['\\', 'a']
  else if c.toNat = 8 then ['\\', 'b']
  else if c.toNat = 12 then ['\\', 'f']
  else if c = '\n' then ['\\', 'n']
  else if c = '\r' then ['\\', 'r']
  else if c = '\t' then ['\\', 't']
  else if c.toNat = 11 then ['\\', 'v']
  else if c.toNat < 32 ∨ c.toNat = 127 then ['\\', 'x', hexDigit (c.toNat / 16), hexDigit (c.toNat % 16)]
  else [c]

def goQuote (s : List Char) : List Char := '"' :: (s.flatMap quoteChar ++ ['"'])

def joinSp : List (List Char) → List Char
  | [] => []
  | [a] => a
  | a :: b :: r => a ++ ' ' :: joinSp (b :: r)

/-- `%q` of a `[]string` -/
def fmtQList (l : List String) : List Char := '[' :: (joinSp (l.map fun s => goQuote s.toList) ++ [']'])

/-- the `hasher.Write` sequence of `GetHash`, as (verb, HashOptions field); tied to the source by `Gen.hashWrites` -/
def hashWrites : List (String × String) :=
  [("raw", "ctagsPath"), ("%t", "cTagsMustSucceed"), ("%d", "sizeMax"), ("%q", "largeFiles"), ("%t", "disableCTags")]

/-- `HashOptions()`: (HashOptions field, Options field); tied to the source by `Gen.hashOptionsMap` -/
def hashOptionsMap : List (String × String) :=
  [("sizeMax", "SizeMax"), ("disableCTags", "DisableCTags"), ("ctagsPath", "CTagsPath"),
   ("cTagsMustSucceed", "CTagsMustSucceed"), ("largeFiles", "LargeFiles")]

/-- the bytes written to the hasher -/
def preimage (o : Opts) : List Char :=
  o.ctagsPath.toList ++ fmtBool o.cTagsMustSucceed ++ fmtInt o.sizeMax ++ fmtQList o.largeFiles ++ fmtBool o.disableCTags

/-- `GetHash` with the digest as a parameter: `D` stands for `hex ∘ SHA-1` -/
def getHashWith (D : List Char → String) (o : Opts) : String := D (preimage o)

/-- hex SHA-1 of the UTF-8 bytes -/
def sha (cs : List Char) : String := Sha1.sha1hex (String.ofList cs).toUTF8.toList

/-- `Options.GetHash()` -/
def getHash (o : Opts) : String := getHashWith sha o

/-! ## MergeMutable -/

/-- Go map read: a missing key reads as "" -/
def mapGet (m : List (String × String)) (k : String) : String := (m.lookup k).getD ""

def mapSet (m : List (String × String)) (k v : String) : List (String × String) :=
  match m with
  | [] => [(k, v)]
  | (k', v') :: r => if k' = k then (k, v) :: r else (k', v') :: mapSet r k v

def skippedKeys : List String := ["name", "id"]

/-- one iteration of `for k, v := range x.RawConfig` -/
def mergeKey (st : Bool × Option (List (String × String))) (kv : String × String) : Bool × Option (List (String × String)) :=
  if skippedKeys.contains kv.1 then st else
  let st := match st.2 with
    | none => (true, some [])
    | some m => (st.1, some m)
  let m := st.2.getD []
  if mapGet m kv.1 ≠ kv.2 then (true, some (mapSet m kv.1 kv.2)) else st

inductive MergeErr where
  | id | name | branches
  deriving DecidableEq, Repr

/-- `r.MergeMutable(x)`: the error, or (mutated, r after the merge) -/
def mergeMutable (r x : Repo) : Except MergeErr (Bool × Repo) :=
  if r.id ≠ x.id then .error .id
  else if r.name ≠ x.name then .error .name
  else if r.branches ≠ x.branches then .error .branches
  else
    let (m, raw) := (x.rawConfig.getD []).foldl mergeKey (false, r.rawConfig)
    let m := m || decide (r.url ≠ x.url) || decide (r.commitURLTemplate ≠ x.commitURLTemplate) ||
      decide (r.fileURLTemplate ≠ x.fileURLTemplate) || decide (r.lineFragmentTemplate ≠ x.lineFragmentTemplate)
    .ok (m, { r with rawConfig := raw, url := x.url, commitURLTemplate := x.commitURLTemplate,
                     fileURLTemplate := x.fileURLTemplate, lineFragmentTemplate := x.lineFragmentTemplate })

/-- the merged / immutable fields in source order; tied to the source by `Gen.mergeMutableFields` etc. -/
def mergeMutableFields : List String := ["RawConfig", "URL", "CommitURLTemplate", "FileURLTemplate", "LineFragmentTemplate"]
def mergeImmutableFields : List String := ["ID", "Name", "Branches"]

/-! ## IndexState -/

/-- what `findShard` + `ReadMetadataPathAlive` find -/
inductive Disk where
  | noShard                                   -- findShard() == ""
  | notExist                                  -- os.IsNotExist from ReadMetadataPathAlive
  | unreadable                                -- any other error
  | shard (formatVersion featureVersion : Nat) (repos : List Repo)
  deriving Repr

inductive State where
  | missing | corrupt | version | option | metaOnly | content | equal
  deriving DecidableEq, Repr

def State.toString : State → String
  | .missing => "missing" | .corrupt => "corrupt" | .version => "version-mismatch" | .option => "option-mismatch"
  | .metaOnly => "meta-mismatch" | .content => "content-mismatch" | .equal => "equal"

/-- the constants of `readVersions` -/
structure Versions where
  indexFormat : Nat
  nextIndexFormat : Nat
  feature : Nat

def versionMismatch (V : Versions) (fmt feat : Nat) : Bool :=
  (V.indexFormat = fmt && V.feature ≠ feat) || (V.nextIndexFormat = fmt && V.feature ≠ feat)

/-- `Options.IndexState()`; `H` is `GetHash` -/
def indexStateWith (H : Opts → String) (V : Versions) (d : Disk) (o : Opts) : State :=
  match d with
  | .noShard => .missing
  | .notExist => .missing
  | .unreadable => .corrupt
  | .shard fmt feat repos =>
    if versionMismatch V fmt feat then .version else
    match repos.find? (fun c => c.name = o.repo.name) with
    | none => .corrupt
    | some repo =>
      if repo.indexOptions ≠ H o then .option
      else if repo.branches ≠ o.repo.branches then .content
      else match mergeMutable repo o.repo with
        | .error _ => .content
        | .ok (true, _) => .metaOnly
        | .ok (false, _) => .equal

def indexState (V : Versions) (d : Disk) (o : Opts) : State := indexStateWith getHash V d o

/-- the states of the return statements of `IndexState`, in source order; tied to the source by `Gen.indexStateReturns` -/
def indexStateReturns : List String :=
  ["IndexStateMissing", "IndexStateMissing", "IndexStateCorrupt", "IndexStateVersion", "IndexStateCorrupt",
   "IndexStateOption", "IndexStateContent", "IndexStateContent", "IndexStateMeta", "IndexStateEqual"]

/-- `IncrementalSkipIndexing` -/
def incrementalSkip (V : Versions) (d : Disk) (o : Opts) : Bool := indexState V d o = .equal

end ZoektModel.C38
