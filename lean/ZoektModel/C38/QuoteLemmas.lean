/-
C38 — Go's `%q` on arbitrary (model) strings: the quoted form is decodable from the left (injective) and its end
is found from the right (a quote preceded by an even run of backslashes).  Core Lean only.
-/
import ZoektModel.C38.HashLemmas
namespace ZoektModel.C38

/-! ### from the right: where does a quoted string begin -/

/-- number of leading backslashes -/
def lead : List Char → Nat
  | '\\' :: r => lead r + 1
  | _ => 0

/-- first `"` that is followed by an even number of backslashes: (what precedes it, what follows it) -/
def scan : List Char → Option (List Char × List Char)
  | [] => none
  | c :: r =>
    if c = '"' ∧ lead r % 2 = 0 then some ([], r)
    else (scan r).map fun pq => (c :: pq.1, pq.2)

/-- every `"` of `R` is followed, in `R ++ tail`, by an odd run of backslashes -/
def qodd : List Char → List Char → Bool
  | [], _ => true
  | c :: r, tail => (c != '"' || lead (r ++ tail) % 2 == 1) && qodd r tail

theorem scan_spec (R X : List Char) (hX : lead X % 2 = 0) (h : qodd R ('"' :: X) = true) :
    scan (R ++ '"' :: X) = some (R, X) := by
  induction R with
  | nil => simp [scan, hX]
  | cons c r ih =>
    simp only [qodd, Bool.and_eq_true, Bool.or_eq_true, bne_iff_ne, ne_eq, beq_iff_eq] at h
    obtain ⟨h1, h2⟩ := h
    simp only [List.cons_append, scan]
    have hcond : ¬ (c = '"' ∧ lead (r ++ '"' :: X) % 2 = 0) := by
      intro ⟨hc, he⟩
      rcases h1 with h1 | h1
      · exact h1 hc
      · omega
    rw [if_neg hcond, ih h2]
    rfl

theorem qodd_append (A B T : List Char) : qodd (A ++ B) T = (qodd A (B ++ T) && qodd B T) := by
  induction A with
  | nil => simp [qodd]
  | cons c r ih => simp [qodd, ih, List.append_assoc, Bool.and_assoc]

theorem qodd_of_no_quote (A T : List Char) (h : ∀ c ∈ A, c ≠ '"') : qodd A T = true := by
  induction A with
  | nil => rfl
  | cons c r ih =>
    simp only [qodd, Bool.and_eq_true, Bool.or_eq_true, bne_iff_ne, ne_eq, beq_iff_eq]
    exact ⟨Or.inl (h c (by simp)), ih (fun x hx => h x (by simp [hx]))⟩

/-! ### the shapes of `quoteChar` -/

theorem hexDigit_ok : ∀ n, n < 16 → hexDigit n ≠ '"' ∧ hexDigit n ≠ '\\' := by decide

theorem quoteChar_cases (c : Char) :
    (c = '"' ∧ quoteChar c = ['\\', '"']) ∨ (c = '\\' ∧ quoteChar c = ['\\', '\\']) ∨
    (∃ e, e ≠ '"' ∧ e ≠ '\\' ∧ e ≠ 'x' ∧ quoteChar c = ['\\', e]) ∨
    (∃ h1 h2, h1 ≠ '"' ∧ h2 ≠ '"' ∧ h2 ≠ '\\' ∧ quoteChar c = ['\\', 'x', h1, h2]) ∨
    (c ≠ '"' ∧ c ≠ '\\' ∧ quoteChar c = [c]) := by
  unfold quoteChar
  by_cases h1 : c = '"'
  · exact Or.inl ⟨h1, by simp [h1]⟩
  by_cases h2 : c = '\\'
  · exact Or.inr (Or.inl ⟨h2, by simp [h2]⟩)
  simp only [h1, h2, if_false]
  by_cases h3 : c.toNat = 7
  · exact Or.inr (Or.inr (Or.inl ⟨'a', by decide, by decide, by decide, by simp [h3]⟩))
  by_cases h4 : c.toNat = 8
  · exact Or.inr (Or.inr (Or.inl ⟨'b', by decide, by decide, by decide, by simp [h3, h4]⟩))
  by_cases h5 : c.toNat = 12
  · exact Or.inr (Or.inr (Or.inl ⟨'f', by decide, by decide, by decide, by simp [h3, h4, h5]⟩))
  by_cases h6 : c = '\n'
  · exact Or.inr (Or.inr (Or.inl ⟨'n', by decide, by decide, by decide, by simp [h3, h4, h5, h6]⟩))
  by_cases h7 : c = '\r'
  · exact Or.inr (Or.inr (Or.inl ⟨'r', by decide, by decide, by decide, by simp [h3, h4, h5, h6, h7]⟩))
  by_cases h8 : c = '\t'
  · exact Or.inr (Or.inr (Or.inl ⟨'t', by decide, by decide, by decide, by simp [h3, h4, h5, h6, h7, h8]⟩))
  by_cases h9 : c.toNat = 11
  · exact Or.inr (Or.inr (Or.inl ⟨'v', by decide, by decide, by decide, by simp [h3, h4, h5, h6, h7, h8, h9]⟩))
  by_cases h10 : c.toNat < 32 ∨ c.toNat = 127
  · have hlt : c.toNat < 128 := by omega
    have ha := hexDigit_ok (c.toNat / 16) (by omega)
    have hb := hexDigit_ok (c.toNat % 16) (by omega)
    exact Or.inr (Or.inr (Or.inr (Or.inl ⟨_, _, ha.1, hb.1, hb.2, by simp [h3, h4, h5, h6, h7, h8, h9, h10]⟩)))
  · exact Or.inr (Or.inr (Or.inr (Or.inr ⟨h1, h2, by simp [h3, h4, h5, h6, h7, h8, h9, h10]⟩)))

/-! ### the reversed body of a quoted string -/

def rq (c : Char) : List Char := (quoteChar c).reverse

theorem reverse_flatMap_quote (s : List Char) : (s.flatMap quoteChar).reverse = s.reverse.flatMap rq := by
  rw [List.reverse_flatMap]; rfl

theorem lead_cons_ne (c : Char) (r : List Char) (h : c ≠ '\\') : lead (c :: r) = 0 := by
  unfold lead
  split
  · rename_i heq; simp only [List.cons.injEq] at heq; exact absurd heq.1 h
  · rfl

/-- a reversed body followed by an even-run tail starts with an even run, and its quotes are followed by odd runs -/
theorem rbody_ok (m : List Char) (T : List Char) (hT : lead T % 2 = 0) :
    lead (m.flatMap rq ++ T) % 2 = 0 ∧ qodd (m.flatMap rq) T = true := by
  induction m with
  | nil => simp [hT, qodd]
  | cons c t ih =>
    obtain ⟨ih1, ih2⟩ := ih
    simp only [List.flatMap_cons, List.append_assoc, qodd_append, ih2, Bool.and_true]
    rcases quoteChar_cases c with ⟨_, hq⟩ | ⟨_, hq⟩ | ⟨e, he1, he2, _, hq⟩ | ⟨a, b, ha, hb1, hb2, hq⟩ | ⟨hc1, hc2, hq⟩
    · simp only [rq, hq, List.reverse_cons, List.reverse_nil, List.nil_append, List.cons_append]
      refine ⟨by rw [lead_cons_ne _ _ (by decide)], ?_⟩
      simp only [qodd, List.cons_append, List.nil_append, bne_self_eq_false, Bool.false_or, Bool.and_true, lead]
      simp only [Bool.and_eq_true, beq_iff_eq, Bool.or_eq_true, bne_iff_ne, ne_eq]
      exact ⟨by omega, Or.inl (by decide)⟩
    · simp only [rq, hq, List.reverse_cons, List.reverse_nil, List.nil_append, List.cons_append]
      refine ⟨by simp only [lead]; omega, ?_⟩
      exact qodd_of_no_quote _ _ (by simp)
    · simp only [rq, hq, List.reverse_cons, List.reverse_nil, List.nil_append, List.cons_append]
      refine ⟨by rw [lead_cons_ne _ _ he2], ?_⟩
      exact qodd_of_no_quote _ _ (by simp [he1])
    · simp only [rq, hq, List.reverse_cons, List.reverse_nil, List.nil_append, List.cons_append]
      refine ⟨by rw [lead_cons_ne _ _ hb2], ?_⟩
      exact qodd_of_no_quote _ _ (by simp [ha, hb1])
    · simp only [rq, hq, List.reverse_cons, List.reverse_nil, List.nil_append, List.cons_append]
      refine ⟨by rw [lead_cons_ne _ _ hc2], ?_⟩
      exact qodd_of_no_quote _ _ (by simp [hc1])

/-! ### from the left: the quoted body decodes uniquely -/

/-- length of the first token of a quoted body -/
def tokLen : List Char → Nat
  | [] => 1
  | c :: r => if c = '\\' then (match r with | e :: _ => if e = 'x' then 4 else 2 | [] => 2) else 1

theorem tokLen_quoteChar (c : Char) (U : List Char) : tokLen (quoteChar c ++ U) = (quoteChar c).length := by
  rcases quoteChar_cases c with ⟨_, hq⟩ | ⟨_, hq⟩ | ⟨e, _, _, he3, hq⟩ | ⟨a, b, _, _, _, hq⟩ | ⟨_, hc2, hq⟩
  · simp [hq, tokLen]
  · simp [hq, tokLen]
  · simp [hq, tokLen, he3]
  · simp [hq, tokLen]
  · simp [hq, tokLen, hc2]

def hv (c : Char) : Nat := if c.toNat < 58 then c.toNat - 48 else c.toNat - 87

theorem hv_hexDigit : ∀ n, n < 128 → hv (hexDigit (n / 16)) * 16 + hv (hexDigit (n % 16)) = n := by decide

/-- decoder of one token -/
def unq (l : List Char) : Char :=
  match l with
  | [c] => c
  | [_, e] =>
    if e = 'a' then Char.ofNat 7 else if e = 'b' then Char.ofNat 8 else if e = 'f' then Char.ofNat 12
    else if e = 'n' then '\n' else if e = 'r' then '\r' else if e = 't' then '\t'
    else if e = 'v' then Char.ofNat 11 else e
  | [_, _, a, b] => Char.ofNat (hv a * 16 + hv b)
  | _ => 'x'

theorem unq_quoteChar (c : Char) : unq (quoteChar c) = c := by
  unfold quoteChar
  by_cases h1 : c = '"'
  · subst h1; decide
  by_cases h2 : c = '\\'
  · subst h2; decide
  simp only [h1, h2, if_false]
  by_cases h3 : c.toNat = 7
  · simp only [h3, if_true, unq]; rw [← Char.ofNat_toNat c, h3]
  by_cases h4 : c.toNat = 8
  · simp only [h3, h4, if_true, if_false, unq]; rw [← Char.ofNat_toNat c, h4]; rfl
  by_cases h5 : c.toNat = 12
  · simp only [h3, h4, h5, if_true, if_false, unq]; rw [← Char.ofNat_toNat c, h5]; rfl
  by_cases h6 : c = '\n'
  · subst h6; decide
  by_cases h7 : c = '\r'
  · subst h7; decide
  by_cases h8 : c = '\t'
  · subst h8; decide
  by_cases h9 : c.toNat = 11
  · simp only [h3, h4, h5, h6, h7, h8, h9, if_true, if_false, unq]; rw [← Char.ofNat_toNat c, h9]; rfl
  by_cases h10 : c.toNat < 32 ∨ c.toNat = 127
  · simp only [h3, h4, h5, h6, h7, h8, h9, h10, if_true, if_false, unq]
    rw [hv_hexDigit c.toNat (by omega), Char.ofNat_toNat]
  · simp only [h3, h4, h5, h6, h7, h8, h9, h10, if_false, unq]

theorem quoteChar_inj (c c' : Char) (h : quoteChar c = quoteChar c') : c = c' := by
  have := congrArg unq h
  rwa [unq_quoteChar, unq_quoteChar] at this

theorem quote_token_inj (c c' : Char) (U U' : List Char) (h : quoteChar c ++ U = quoteChar c' ++ U') :
    c = c' ∧ U = U' := by
  have hlen : (quoteChar c).length = (quoteChar c').length := by
    rw [← tokLen_quoteChar c U, ← tokLen_quoteChar c' U', h]
  obtain ⟨h1, h2⟩ := List.append_inj h hlen
  exact ⟨quoteChar_inj c c' h1, h2⟩

theorem quoteChar_ne_nil (c : Char) : quoteChar c ≠ [] := by
  rcases quoteChar_cases c with ⟨_, hq⟩ | ⟨_, hq⟩ | ⟨e, _, _, _, hq⟩ | ⟨a, b, _, _, _, hq⟩ | ⟨_, _, hq⟩ <;> simp [hq]

theorem flatMap_quote_inj : ∀ (s s' : List Char), s.flatMap quoteChar = s'.flatMap quoteChar → s = s'
  | [], [], _ => rfl
  | [], c' :: t', h => by
    exfalso
    simp only [List.flatMap_nil, List.flatMap_cons] at h
    have := congrArg List.length h
    have hne := quoteChar_ne_nil c'
    cases hq : quoteChar c' with
    | nil => exact hne hq
    | cons a b => rw [hq] at this; simp at this
  | c :: t, [], h => by
    exfalso
    simp only [List.flatMap_nil, List.flatMap_cons] at h
    have := congrArg List.length h
    have hne := quoteChar_ne_nil c
    cases hq : quoteChar c with
    | nil => exact hne hq
    | cons a b => rw [hq] at this; simp at this
  | c :: t, c' :: t', h => by
    simp only [List.flatMap_cons] at h
    obtain ⟨h1, h2⟩ := quote_token_inj c c' _ _ h
    rw [h1, flatMap_quote_inj t t' h2]

/-! ### the quoted list and the preimage, without restrictions on the strings -/

theorem goQuote_reverse (s : List Char) : (goQuote s).reverse = '"' :: (s.reverse.flatMap rq ++ ['"']) := by
  simp [goQuote, reverse_flatMap_quote]

/-- two reversed quoted strings followed by tails that do not start with a backslash: the strings and tails agree -/
theorem rquote_delim (s s' X Y : List Char) (hX : lead X % 2 = 0) (hY : lead Y % 2 = 0)
    (h : s.reverse.flatMap rq ++ '"' :: X = s'.reverse.flatMap rq ++ '"' :: Y) : s = s' ∧ X = Y := by
  have h1 := scan_spec (s.reverse.flatMap rq) X hX (rbody_ok s.reverse ('"' :: X) (by simp [lead])).2
  have h2 := scan_spec (s'.reverse.flatMap rq) Y hY (rbody_ok s'.reverse ('"' :: Y) (by simp [lead])).2
  rw [h] at h1
  rw [h1] at h2
  simp only [Option.some.injEq, Prod.mk.injEq] at h2
  obtain ⟨hb, hxy⟩ := h2
  rw [← reverse_flatMap_quote, ← reverse_flatMap_quote] at hb
  have := flatMap_quote_inj s s' (List.reverse_inj.mp hb)
  exact ⟨this, hxy⟩

theorem rjoin_goQuote_delim (m m' : List (List Char)) (U W : List Char)
    (h : rjoin (m.map goQuote) ++ '[' :: U = rjoin (m'.map goQuote) ++ '[' :: W) : m = m' ∧ U = W := by
  induction m generalizing m' with
  | nil =>
    cases m' with
    | nil => simpa [rjoin] using h
    | cons s' t' =>
      exfalso
      simp only [List.map_nil, rjoin, List.nil_append, List.map_cons, goQuote_reverse] at h
      simp at h
  | cons s t ih =>
    cases m' with
    | nil =>
      exfalso
      simp only [List.map_nil, rjoin, List.nil_append, List.map_cons, goQuote_reverse] at h
      simp at h
    | cons s' t' =>
      simp only [List.map_cons, rjoin, goQuote_reverse, List.cons_append, List.append_assoc, List.singleton_append,
        List.cons.injEq, true_and] at h
      cases t with
      | nil =>
        cases t' with
        | nil =>
          simp only [List.map_nil, List.nil_append] at h
          obtain ⟨h1, h2⟩ := rquote_delim s s' _ _ (by simp [lead]) (by simp [lead]) h
          simp only [List.cons.injEq, true_and] at h2
          exact ⟨by rw [h1], h2⟩
        | cons a' r' =>
          exfalso
          simp only [List.map_nil, List.nil_append, List.map_cons, List.cons_append] at h
          obtain ⟨_, h2⟩ := rquote_delim s s' _ _ (by simp [lead]) (by simp [lead]) h
          simp at h2
      | cons a r =>
        cases t' with
        | nil =>
          exfalso
          simp only [List.map_nil, List.nil_append, List.map_cons, List.cons_append] at h
          obtain ⟨_, h2⟩ := rquote_delim s s' _ _ (by simp [lead]) (by simp [lead]) h
          simp at h2
        | cons a' r' =>
          simp only [List.map_cons, List.nil_append, List.cons_append] at h
          obtain ⟨h1, h2⟩ := rquote_delim s s' _ _ (by simp [lead]) (by simp [lead]) h
          simp only [List.cons.injEq, true_and] at h2
          have := ih (a' :: r') (by simpa using h2)
          exact ⟨by rw [h1, this.1], this.2⟩

/-- **the hash preimage is uniquely decodable**: equal preimages have equal hashed fields, for all option sets -/
theorem preimage_injective (a b : Opts) (h : preimage a = preimage b) :
    a.ctagsPath = b.ctagsPath ∧ a.cTagsMustSucceed = b.cTagsMustSucceed ∧ a.sizeMax = b.sizeMax ∧
    a.largeFiles = b.largeFiles ∧ a.disableCTags = b.disableCTags := by
  unfold preimage at h
  obtain ⟨hdis, h1⟩ := fmtBool_suffix_inj _ _ _ _ h
  have h2 := congrArg List.reverse h1
  simp only [List.reverse_append, fmtQList_reverse, List.cons_append, List.append_assoc, List.singleton_append,
    List.cons.injEq, true_and] at h2
  obtain ⟨e1, he1⟩ := fmtBool_reverse_head a.cTagsMustSucceed
  obtain ⟨e2, he2⟩ := fmtBool_reverse_head b.cTagsMustSucceed
  obtain ⟨hl, hU⟩ := rjoin_goQuote_delim _ _ _ _ h2
  have hlf : a.largeFiles = b.largeFiles := by
    have := congrArg List.reverse hl
    simp only [List.reverse_reverse] at this
    exact map_toList_inj _ _ this
  rw [he1, he2] at hU
  simp only [List.cons_append] at hU
  obtain ⟨hsz, _⟩ := fmtInt_delim _ _ _ _ hU
  rw [hlf, hsz] at h1
  have h3 := List.append_cancel_right (List.append_cancel_right h1)
  obtain ⟨hmust, hp⟩ := fmtBool_suffix_inj _ _ _ _ h3
  exact ⟨String.toList_inj.mp hp, hmust, hsz, hlf, hdis⟩

end ZoektModel.C38
