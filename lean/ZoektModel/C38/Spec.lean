/-
C38 — the property as an executable predicate, written from the statement:

  incremental indexing skips a repository only when its existing index was built from the same branch versions
  with the same content-affecting build options; changing any option that changes which content or symbols get
  indexed, or changing the branches, causes a re-index, while metadata-only changes are applied without one.

The two hand-written tables below classify the fields of `index.Options` and `zoekt.Repository`; the theorems
`options_classified` / `repository_classified` (Props/C38.lean) force every field of the current source into
exactly one class, so a new field cannot go unclassified.
-/
import ZoektModel.C38.Model
namespace ZoektModel.C38

/-- Options fields that change which content or symbols get indexed -/
def contentAffecting : List String :=
  ["SizeMax", "TrigramMax", "DisableCTags", "CTagsPath", "ScipCTagsPath", "CTagsMustSucceed", "LargeFiles", "LanguageMap"]

/-- Options fields that do not: where and how shards are written, build mode, profiling; `RepositoryDescription`
    is classified field by field below; `SubRepositories` is derived from the indexed trees by the git indexer -/
def notContentAffecting : List String :=
  ["IndexDir", "ShardPrefixOverride", "Parallelism", "ShardMax", "RepositoryDescription", "SubRepositories", "IsDelta",
   "changedOrRemovedFiles", "ShardMerging", "HeapProfileTriggerBytes"]

/-- Repository fields: identity (a change means another repository / shard name) -/
def repoIdentity : List String := ["TenantID", "ID", "Name"]
/-- Repository fields: what is indexed -/
def repoContent : List String := ["Branches"]
/-- Repository fields: caller-provided metadata that must reach the index without a re-index -/
def repoMetadata : List String :=
  ["URL", "Metadata", "CommitURLTemplate", "FileURLTemplate", "LineFragmentTemplate", "RawConfig"]
/-- Repository fields computed while indexing or reading, or maintained by other operations -/
def repoDerived : List String :=
  ["Source", "SubRepoMap", "priority", "Rank", "IndexOptions", "HasSymbols", "Tombstone", "LatestCommitDate", "FileTombstones"]

/-- first content-affecting option in which two option sets differ -/
def contentDiff (a b : Opts) : Option String :=
  if a.sizeMax ≠ b.sizeMax then some "SizeMax"
  else if a.trigramMax ≠ b.trigramMax then some "TrigramMax"
  else if a.disableCTags ≠ b.disableCTags then some "DisableCTags"
  else if a.ctagsPath ≠ b.ctagsPath then some "CTagsPath"
  else if a.scipCTagsPath ≠ b.scipCTagsPath then some "ScipCTagsPath"
  else if a.cTagsMustSucceed ≠ b.cTagsMustSucceed then some "CTagsMustSucceed"
  else if a.largeFiles ≠ b.largeFiles then some "LargeFiles"
  else if a.languageMap ≠ b.languageMap then some "LanguageMap"
  else none

/-- identity or branches differ -/
def contentRepoDiff (a b : Repo) : Option String :=
  if a.id ≠ b.id then some "ID"
  else if a.name ≠ b.name then some "Name"
  else if a.branches ≠ b.branches then some "Branches"
  else none

def sameMap (a b : List (String × String)) : Bool :=
  a.all (fun kv => mapGet b kv.1 = kv.2) && b.all (fun kv => mapGet a kv.1 = kv.2)

/-- first piece of metadata the new description `b` asks for that `a` does not already have
    (RawConfig is compared as Go reads it — a missing key reads "" — and without the keys name / id,
    which the repository carries in its own fields) -/
def metaDiff (a b : Repo) : Option String :=
  let ra := (a.rawConfig.getD []).filter fun kv => !skippedKeys.contains kv.1
  let rb := (b.rawConfig.getD []).filter fun kv => !skippedKeys.contains kv.1
  if a.url ≠ b.url then some "URL"
  else if a.commitURLTemplate ≠ b.commitURLTemplate then some "CommitURLTemplate"
  else if a.fileURLTemplate ≠ b.fileURLTemplate then some "FileURLTemplate"
  else if a.lineFragmentTemplate ≠ b.lineFragmentTemplate then some "LineFragmentTemplate"
  else if !(rb.all fun kv => mapGet ra kv.1 = kv.2) then some "RawConfig"
  else if !(ra.all fun kv => mapGet rb kv.1 = kv.2) then some "RawConfig-removed-key"
  else if !sameMap a.metadata b.metadata then some "Metadata"
  else none

/-- the statement, for an index that exists, is readable and was built from `a` (options and description),
    when indexing is asked for `b`: `none` = satisfied, `some key` = violated.
      equal  (skip)             only if nothing content-affecting differs and there is no metadata left to apply;
      meta   (apply, no reindex) only if nothing content-affecting differs;
      anything else (re-index)   only if something content-affecting differs. -/
def violation (a b : Opts) (st : State) : Option String :=
  let cd := (contentDiff a b).orElse fun _ => contentRepoDiff a.repo b.repo
  match st with
  | .equal =>
    match cd with
    | some f => some ("unhashed:" ++ f)
    | none => (metaDiff a.repo b.repo).map ("meta-not-applied:" ++ ·)
  | .metaOnly =>
    match cd with
    | some f => some ("unhashed:" ++ f)
    | none => none
  | s =>
    match cd with
    | some _ => none
    | none => some ("needless-reindex:" ++ s.toString)

def checkP (a b : Opts) (st : State) : Bool := (violation a b st).isNone

end ZoektModel.C38
