/-
C38 — applying the merge converges: a second `MergeMutable` with the same description changes nothing.
-/
import ZoektModel.C38.Lemmas
namespace ZoektModel.C38

/-- an iteration whose key is skipped or already reads its value changes nothing -/
theorem mergeKey_noop (b : Bool) (m : List (String × String)) (kv : String × String)
    (h : kv.1 ∈ skippedKeys ∨ mapGet m kv.1 = kv.2) : mergeKey (b, some m) kv = (b, some m) := by
  rw [mergeKey_eq]
  by_cases hs : kv.1 ∈ skippedKeys
  · simp [hs]
  · rcases h with h | h
    · exact absurd h hs
    · simp [hs, h]

theorem foldl_mergeKey_noop (xs : List (String × String)) (b : Bool) (m : List (String × String))
    (h : ∀ kv ∈ xs, kv.1 ∈ skippedKeys ∨ mapGet m kv.1 = kv.2) : xs.foldl mergeKey (b, some m) = (b, some m) := by
  induction xs with
  | nil => rfl
  | cons x t ih =>
    simp only [List.foldl_cons]
    rw [mergeKey_noop b m x (h x (by simp))]
    exact ih (fun kv hkv => h kv (by simp [hkv]))

theorem foldl_mergeKey_skipped (xs : List (String × String)) (st : MSt)
    (h : ∀ kv ∈ xs, kv.1 ∈ skippedKeys) : xs.foldl mergeKey st = st := by
  induction xs with
  | nil => rfl
  | cons x t ih =>
    obtain ⟨b, m⟩ := st
    simp only [List.foldl_cons]
    rw [mergeKey_eq, if_pos (h x (by simp))]
    exact ih (fun kv hkv => h kv (by simp [hkv]))

/-- the result of the loop is a fixed point of the loop (distinct keys) -/
theorem foldl_mergeKey_idem (xs : List (String × String)) (hd : xs.Pairwise fun a b => a.1 ≠ b.1) (st : MSt) :
    xs.foldl mergeKey (false, (xs.foldl mergeKey st).2) = (false, (xs.foldl mergeKey st).2) := by
  cases hres : (xs.foldl mergeKey st).2 with
  | none =>
    -- the map never came into existence: every key is skipped
    apply foldl_mergeKey_skipped
    intro kv hkv
    by_cases hs : kv.1 ∈ skippedKeys
    · exact hs
    · obtain ⟨m, hm, _⟩ := foldl_mergeKey_applies xs hd st kv hkv hs
      rw [hres] at hm
      cases hm
  | some m =>
    apply foldl_mergeKey_noop
    intro kv hkv
    by_cases hs : kv.1 ∈ skippedKeys
    · exact Or.inl hs
    · obtain ⟨m', hm, hg⟩ := foldl_mergeKey_applies xs hd st kv hkv hs
      rw [hres] at hm
      simp only [Option.some.injEq] at hm
      subst hm
      exact Or.inr hg

/-- **the merge converges**: merging the same description into the merged repository is not a mutation -/
theorem mergeMutable_idem (r x r' : Repo) (m : Bool) (h : mergeMutable r x = .ok (m, r'))
    (hd : (x.rawConfig.getD []).Pairwise fun a b => a.1 ≠ b.1) : mergeMutable r' x = .ok (false, r') := by
  unfold mergeMutable at h
  by_cases hid : r.id = x.id
  · by_cases hnm : r.name = x.name
    · by_cases hbr : r.branches = x.branches
      · simp only [hid, hnm, hbr, ne_eq, not_true_eq_false, if_false] at h
        have hidem := foldl_mergeKey_idem (x.rawConfig.getD []) hd (false, r.rawConfig)
        generalize hfold : (x.rawConfig.getD []).foldl mergeKey (false, r.rawConfig) = res at h hidem
        obtain ⟨mflag, raw⟩ := res
        simp only [Except.ok.injEq, Prod.mk.injEq] at h
        obtain ⟨_, rfl⟩ := h
        simp only at hidem
        unfold mergeMutable
        simp only [ne_eq, not_true_eq_false, if_false, hidem, Bool.false_or, decide_false, Bool.or_self]
      · simp [hid, hnm, hbr] at h
    · simp [hid, hnm] at h
  · simp [hid] at h

end ZoektModel.C38
