/-
C38 — lemmas for the capstone theorem (core Lean only): reading a filtered RawConfig, the statement's `metaDiff`
against what `IndexState = equal` guarantees.
-/
import ZoektModel.C38.Lemmas
import ZoektModel.C38.QuoteLemmas
namespace ZoektModel.C38

theorem mapGet_filter_nonskipped (m : List (String × String)) (k : String) (hk : k ∉ skippedKeys) :
    mapGet (m.filter fun kv => !skippedKeys.contains kv.1) k = mapGet m k := by
  simp only [List.contains_eq_mem]
  induction m with
  | nil => rfl
  | cons kv r ih =>
    obtain ⟨k', v'⟩ := kv
    by_cases hs : k' ∈ skippedKeys
    · have hne : (k == k') = false := by
        simp only [beq_eq_false_iff_ne, ne_eq]
        intro e; subst e; exact hk hs
      simp only [List.filter_cons, hs, decide_true, Bool.not_true, Bool.false_eq_true, if_false]
      rw [ih]
      simp [mapGet, List.lookup, hne]
    · simp only [List.filter_cons, hs, decide_false, Bool.not_false, if_true]
      simp only [mapGet, List.lookup] at ih ⊢
      cases hkk : (k == k')
      · simpa using ih
      · simp

/-- the five hashed options agree -/
def hashedEq (a b : Opts) : Prop :=
  a.ctagsPath = b.ctagsPath ∧ a.cTagsMustSucceed = b.cTagsMustSucceed ∧ a.sizeMax = b.sizeMax ∧
  a.largeFiles = b.largeFiles ∧ a.disableCTags = b.disableCTags

instance (a b : Opts) : Decidable (hashedEq a b) := by unfold hashedEq; infer_instance

theorem preimage_congr (a b : Opts) (h : hashedEq a b) : preimage a = preimage b := by
  obtain ⟨h1, h2, h3, h4, h5⟩ := h
  simp [preimage, h1, h2, h3, h4, h5]

theorem contentDiff_some_of_not_hashedEq (a b : Opts) (h : ¬ hashedEq a b) : (contentDiff a b).isSome = true := by
  unfold contentDiff
  by_cases h1 : a.sizeMax = b.sizeMax
  · by_cases h2 : a.trigramMax = b.trigramMax
    · by_cases h3 : a.disableCTags = b.disableCTags
      · by_cases h4 : a.ctagsPath = b.ctagsPath
        · by_cases h5 : a.scipCTagsPath = b.scipCTagsPath
          · by_cases h6 : a.cTagsMustSucceed = b.cTagsMustSucceed
            · by_cases h7 : a.largeFiles = b.largeFiles
              · exact absurd ⟨h4, h6, h1, h7, h3⟩ h
              · simp [h1, h2, h3, h4, h5, h6, h7]
            · simp [h1, h2, h3, h4, h5, h6]
          · simp [h1, h2, h3, h4, h5]
        · simp [h1, h2, h3, h4]
      · simp [h1, h2, h3]
    · simp [h1, h2]
  · simp [h1]

theorem contentDiff_none (a b : Opts) (h : hashedEq a b) (ht : a.trigramMax = b.trigramMax)
    (hs : a.scipCTagsPath = b.scipCTagsPath) (hl : a.languageMap = b.languageMap) : contentDiff a b = none := by
  obtain ⟨h1, h2, h3, h4, h5⟩ := h
  simp [contentDiff, h1, h2, h3, h4, h5, ht, hs, hl]

/-- the two RawConfig clauses of `metaDiff`, named -/
def rawApplied (a b : Repo) : Bool :=
  ((b.rawConfig.getD []).filter fun kv => !skippedKeys.contains kv.1).all fun kv =>
    mapGet ((a.rawConfig.getD []).filter fun kv => !skippedKeys.contains kv.1) kv.1 = kv.2
def noRemovedKey (a b : Repo) : Bool :=
  ((a.rawConfig.getD []).filter fun kv => !skippedKeys.contains kv.1).all fun kv =>
    mapGet ((b.rawConfig.getD []).filter fun kv => !skippedKeys.contains kv.1) kv.1 = kv.2

theorem metaDiff_none (a b : Repo) (hu : a.url = b.url) (hc : a.commitURLTemplate = b.commitURLTemplate)
    (hf : a.fileURLTemplate = b.fileURLTemplate) (hl : a.lineFragmentTemplate = b.lineFragmentTemplate)
    (h1 : rawApplied a b = true) (h2 : noRemovedKey a b = true) (h3 : sameMap a.metadata b.metadata = true) :
    metaDiff a b = none := by
  unfold rawApplied at h1
  unfold noRemovedKey at h2
  simp only [metaDiff, hu, hc, hf, hl, ne_eq, not_true_eq_false, if_false, h1, h2, h3, Bool.not_true, Bool.false_eq_true]

/-- what `IndexState = equal` says about RawConfig implies the statement's "applied" clause -/
theorem rawApplied_of_equal (a b : Repo)
    (h : ∀ kv ∈ b.rawConfig.getD [], kv.1 ∈ skippedKeys ∨ ∃ m, a.rawConfig = some m ∧ mapGet m kv.1 = kv.2) :
    rawApplied a b = true := by
  unfold rawApplied
  rw [List.all_eq_true]
  intro kv hkv
  obtain ⟨hmem, hns⟩ := List.mem_filter.mp hkv
  have hns' : kv.1 ∉ skippedKeys := by simpa using hns
  rcases h kv hmem with hsk | ⟨m, hm, hg⟩
  · exact absurd hsk hns'
  · rw [hm, Option.getD_some, mapGet_filter_nonskipped m kv.1 hns', hg]
    simp

end ZoektModel.C38
