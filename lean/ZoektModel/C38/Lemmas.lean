/-
C38 — helper lemmas (core Lean only).
-/
import ZoektModel.C38.Spec
namespace ZoektModel.C38

/-! ### association lists -/

theorem mapGet_mapSet_self (m : List (String × String)) (k v : String) : mapGet (mapSet m k v) k = v := by
  induction m with
  | nil => simp [mapSet, mapGet, List.lookup]
  | cons kv r ih =>
    obtain ⟨k', v'⟩ := kv
    simp only [mapSet]
    by_cases h : k' = k
    · simp [h, mapGet, List.lookup]
    · have h' : (k == k') = false := by simpa using fun e => h e.symm
      simp only [h, if_false, mapGet, List.lookup, h'] at ih ⊢
      exact ih

theorem mapGet_mapSet_other (m : List (String × String)) (k v k2 : String) (hne : k2 ≠ k) :
    mapGet (mapSet m k v) k2 = mapGet m k2 := by
  induction m with
  | nil =>
    have : (k2 == k) = false := by simpa using hne
    simp [mapSet, mapGet, List.lookup, this]
  | cons kv r ih =>
    obtain ⟨k', v'⟩ := kv
    simp only [mapSet]
    by_cases h : k' = k
    · subst h
      have : (k2 == k') = false := by simpa using hne
      simp [mapGet, List.lookup, this]
    · simp only [h, if_false, mapGet, List.lookup] at ih ⊢
      cases hk : (k2 == k') <;> simp [ih]

/-! ### the RawConfig loop -/

abbrev MSt := Bool × Option (List (String × String))

theorem mergeKey_eq (b : Bool) (m : Option (List (String × String))) (kv : String × String) :
    mergeKey (b, m) kv =
      if kv.1 ∈ skippedKeys then (b, m) else
      match m with
      | none => if mapGet [] kv.1 = kv.2 then (true, some []) else (true, some (mapSet [] kv.1 kv.2))
      | some mm => if mapGet mm kv.1 = kv.2 then (b, some mm) else (true, some (mapSet mm kv.1 kv.2)) := by
  unfold mergeKey
  by_cases hs : kv.1 ∈ skippedKeys
  · simp [hs]
  · cases m with
    | none => by_cases hg : mapGet [] kv.1 = kv.2 <;> simp [hs, hg]
    | some mm => by_cases hg : mapGet mm kv.1 = kv.2 <;> simp [hs, hg]

theorem mergeKey_true (st : MSt) (kv : String × String) (h : st.1 = true) : (mergeKey st kv).1 = true := by
  obtain ⟨b, m⟩ := st
  simp only at h
  subst h
  rw [mergeKey_eq]
  split
  · rfl
  · cases m with
    | none => simp only []; split <;> rfl
    | some mm => simp only []; split <;> rfl

theorem foldl_mergeKey_true (xs : List (String × String)) (st : MSt) (h : st.1 = true) :
    (xs.foldl mergeKey st).1 = true := by
  induction xs generalizing st with
  | nil => exact h
  | cons x xs ih => exact ih _ (mergeKey_true st x h)

/-- an iteration that leaves `mutated` false changed nothing, and the key was skipped or already had the value -/
theorem mergeKey_false (st : MSt) (kv : String × String) (h : (mergeKey st kv).1 = false) :
    mergeKey st kv = st ∧ (kv.1 ∈ skippedKeys ∨ ∃ m, st.2 = some m ∧ mapGet m kv.1 = kv.2) := by
  obtain ⟨b, m⟩ := st
  rw [mergeKey_eq] at h ⊢
  by_cases hs : kv.1 ∈ skippedKeys
  · simp [hs]
  · simp only [hs, if_false] at h ⊢
    cases m with
    | none =>
      simp only [] at h
      split at h <;> simp at h
    | some mm =>
      simp only [] at h ⊢
      by_cases hg : mapGet mm kv.1 = kv.2
      · simp [hg]
      · simp [hg] at h

theorem foldl_mergeKey_false (xs : List (String × String)) (st : MSt) (h : (xs.foldl mergeKey st).1 = false) :
    xs.foldl mergeKey st = st ∧
      ∀ kv ∈ xs, kv.1 ∈ skippedKeys ∨ ∃ m, st.2 = some m ∧ mapGet m kv.1 = kv.2 := by
  induction xs generalizing st with
  | nil => simp
  | cons x xs ih =>
    simp only [List.foldl_cons] at h ⊢
    have h1 : (mergeKey st x).1 = false := by
      cases hb : (mergeKey st x).1
      · rfl
      · rw [foldl_mergeKey_true xs _ hb] at h; cases h
    obtain ⟨heq, hx⟩ := mergeKey_false st x h1
    rw [heq] at h ⊢
    obtain ⟨hfold, hall⟩ := ih st h
    refine ⟨hfold, ?_⟩
    intro kv hkv
    rcases List.mem_cons.mp hkv with rfl | hkv
    · exact hx
    · exact hall kv hkv

/-- after an iteration the key reads the new value (unless it is a skipped key) -/
theorem mergeKey_get (st : MSt) (kv : String × String) (hs : kv.1 ∉ skippedKeys) :
    ∃ m, (mergeKey st kv).2 = some m ∧ mapGet m kv.1 = kv.2 := by
  obtain ⟨b, m⟩ := st
  rw [mergeKey_eq]
  simp only [hs, if_false]
  cases m with
  | none =>
    by_cases hg : mapGet [] kv.1 = kv.2
    · simp [hg]
    · simp [hg, mapGet_mapSet_self]
  | some mm =>
    by_cases hg : mapGet mm kv.1 = kv.2
    · simp [hg]
    · simp [hg, mapGet_mapSet_self]

/-- an iteration on another key does not disturb what a key reads (once the map exists) -/
theorem mergeKey_keep (st : MSt) (kv : String × String) (k : String) (hne : k ≠ kv.1) (m : List (String × String))
    (hm : st.2 = some m) : ∃ m', (mergeKey st kv).2 = some m' ∧ mapGet m' k = mapGet m k := by
  obtain ⟨b, m0⟩ := st
  simp only at hm
  subst hm
  rw [mergeKey_eq]
  by_cases hs : kv.1 ∈ skippedKeys
  · simp [hs]
  · by_cases hg : mapGet m kv.1 = kv.2
    · simp [hs, hg]
    · simp [hs, hg, mapGet_mapSet_other _ _ _ _ hne]

theorem foldl_mergeKey_keep (xs : List (String × String)) (st : MSt) (k : String) (hne : ∀ kv ∈ xs, k ≠ kv.1)
    (m : List (String × String)) (hm : st.2 = some m) :
    ∃ m', (xs.foldl mergeKey st).2 = some m' ∧ mapGet m' k = mapGet m k := by
  induction xs generalizing st m with
  | nil => exact ⟨m, hm, rfl⟩
  | cons x xs ih =>
    simp only [List.foldl_cons]
    obtain ⟨m1, h1, hg1⟩ := mergeKey_keep st x k (hne x (by simp)) m hm
    obtain ⟨m2, h2, hg2⟩ := ih (mergeKey st x) (fun kv hkv => hne kv (by simp [hkv])) m1 h1
    exact ⟨m2, h2, by rw [hg2, hg1]⟩

/-- the loop, over a description with distinct keys: every non-skipped key reads its new value afterwards -/
theorem foldl_mergeKey_applies (xs : List (String × String)) (hd : xs.Pairwise fun a b => a.1 ≠ b.1) (st : MSt) :
    ∀ kv ∈ xs, kv.1 ∉ skippedKeys →
      ∃ m, (xs.foldl mergeKey st).2 = some m ∧ mapGet m kv.1 = kv.2 := by
  induction xs generalizing st with
  | nil => simp
  | cons x xs ih =>
    intro kv hkv hs
    simp only [List.foldl_cons]
    rw [List.pairwise_cons] at hd
    rcases List.mem_cons.mp hkv with rfl | hkv
    · obtain ⟨m1, h1, hg1⟩ := mergeKey_get st kv hs
      obtain ⟨m2, h2, hg2⟩ := foldl_mergeKey_keep xs (mergeKey st kv) kv.1 (fun y hy => hd.1 y hy) m1 h1
      exact ⟨m2, h2, by rw [hg2, hg1]⟩
    · exact ih hd.2 (mergeKey st x) kv hkv hs

end ZoektModel.C38
