/-
C12 — FsProto model of `index.Builder.Finish` / `writeShard` / `JsonMarshalRepoMetaTemp` / `SetTombstone`
(index/builder.go, index/tombstones.go) and of the loader's view of an index directory
(search/watcher.go `DirectoryWatcher.scan`: every `*.zoekt` file is loaded, `*.tmp` is ignored;
index/read.go `parseMetadata`: a non-empty `<shard>.meta` sidecar takes precedence over the embedded
repository metadata).

The directory is seen from ONE repository's point of view:
  * `shard n`  = `<repo>_v16.<n>.zoekt`, `side n` = its `.meta` sidecar,
  * `tmp k`    = the k-th `*.tmp` file created by the run (`os.CreateTemp`),
  * `cshard` / `cmeta` = the compound shard (`compound-*_v17.00000.zoekt`) that holds the repository, and its sidecar.
Contents are identities, not bytes: which complete shard / sidecar a file holds, or `trunc` for a file that
is still being written.

`finish` transcribes the control flow of `Builder.Finish` after `b.building.Wait()` as it is written
(with the `fix:` commits of this branch applied, see the comments marked FIX): the renames of
`artifactPaths` in the order `ro` (Go map iteration order: any permutation), then the removals of `toDelete`
in the order `dord` (any permutation), every rename/remove may fail (`fails tick`).
-/
namespace ZoektModel.C12

inductive Path where
  | shard (n : Nat)
  | side (n : Nat)
  | tmp (k : Nat)
  | cshard
  | cmeta
  deriving DecidableEq, Repr

inductive Content where
  | oldShard (n : Nat)   -- the complete n-th shard of the previous index
  | newShard (n : Nat)   -- the complete shard the run writes for final name `shard n`
  | oldMeta              -- a sidecar left by a previous delta build
  | newMeta              -- the sidecar this (delta) run writes for the old shards
  | compOld              -- the compound shard (this repository alive in its embedded metadata)
  | compMetaAlive        -- a sidecar of the compound shard in which this repository is alive
  | compMetaTomb         -- a sidecar of the compound shard in which this repository is tombstoned
  | trunc              -- created, not yet completely written
  | other                -- anything else (only produced by the harness for unidentifiable files)
  deriving DecidableEq, Repr

abbrev Dir := Path → Option Content

def Dir.set (d : Dir) (p : Path) (c : Option Content) : Dir := fun q => if q = p then c else d q

inductive Op where
  | create (p : Path)                 -- os.CreateTemp
  | write (p : Path) (c : Content)    -- the writes + Close that complete the file
  | rename (src dst : Path)           -- os.Rename
  | remove (p : Path)                 -- os.Remove
  deriving DecidableEq, Repr

/-- effect of a *successful* operation (rename(2) replaces the destination atomically) -/
def apply (d : Dir) : Op → Dir
  | .create p => d.set p (some .trunc)
  | .write p c => d.set p (some c)
  | .rename s t =>
    match d s with
    | none => d
    | some c => (d.set t (some c)).set s none
  | .remove p => d.set p none

def applyAll (d : Dir) (ops : List Op) : Dir := ops.foldl apply d

/-- A build scenario, from the repository's point of view. -/
structure Scn where
  delta : Bool          -- Options.IsDelta
  compound : Bool       -- the previous index of the repository lives in a compound shard
  compMeta : Bool       -- … which already has a sidecar
  shardMerging : Bool   -- Options.ShardMerging
  nNew : Nat            -- number of shards the run builds (len(finishedShards))
  oldMeta : List Bool   -- one entry per old simple shard: does it have a sidecar?
  deriving Repr, DecidableEq

def Scn.nOld (s : Scn) : Nat := s.oldMeta.length

/-- delta builds on compound shards are rejected by `Finish` before any rename; sidecar flag only with compound;
    a run always writes at least one shard unless it is a delta run on an existing index
    (`Builder.flush`: `if len(todo) == 0 && hasShard { return nil }`) -/
def Scn.WF (s : Scn) : Bool :=
  (!s.compound || (s.oldMeta.isEmpty && !s.delta)) && (s.compound || !s.compMeta) &&
  (decide (1 ≤ s.nNew) || (s.delta && decide (1 ≤ s.nOld)))

/-- first shard number of the run: `NewBuilder` sets `nextShardNum = len(FindAllShards())` for delta builds -/
def Scn.base (s : Scn) : Nat := if s.delta then s.nOld else 0

/-- number of sidecar temp files `Finish` writes (one per old shard, delta only) -/
def Scn.nSide (s : Scn) : Nat := if s.delta then s.nOld else 0

/-- the directory before the run -/
def oldDir (s : Scn) : Dir
  | .shard n => if n < s.nOld then some (.oldShard n) else none
  | .side n => if s.oldMeta.getD n false then some .oldMeta else none
  | .tmp _ => none
  | .cshard => if s.compound then some .compOld else none
  | .cmeta => if s.compound && s.compMeta then some .compMetaAlive else none

/-- `writeShard` for each flushed shard, then (delta) `JsonMarshalRepoMetaTemp` for each old shard -/
def tempOps (s : Scn) : List Op :=
  (List.range s.nNew).flatMap (fun j => [Op.create (.tmp j), Op.write (.tmp j) (.newShard (s.base + j))]) ++
  (List.range s.nSide).flatMap (fun i => [Op.create (.tmp (s.nNew + i)), Op.write (.tmp (s.nNew + i)) .newMeta])

/-- `artifactPaths`: temp name ↦ final name -/
def artifacts (s : Scn) : List (Path × Path) :=
  (List.range s.nNew).map (fun j => (Path.tmp j, Path.shard (s.base + j))) ++
  (List.range s.nSide).map (fun i => (Path.tmp (s.nNew + i), Path.side i))

/-- `toDelete` before the rename loop: `IndexFilePaths` of every old shard (non-delta builds only) -/
def toDelete0 (s : Scn) : List Path :=
  if s.delta then []
  else if s.compound then Path.cshard :: (if s.compMeta then [Path.cmeta] else [])
  else (List.range s.nOld).map Path.shard ++ ((List.range s.nOld).filter fun i => s.oldMeta.getD i false).map Path.side

/-- index of the temp file `SetTombstone` creates -/
def Scn.tombTmp (s : Scn) : Nat := s.nNew + s.nSide

structure Acc where
  tick : Nat                 -- fallible mutations attempted so far
  err : Bool                 -- b.buildError != nil
  log : List (Op × Bool)     -- operations attempted, with their success
  deriving Repr

/-- the rename loop of `Finish`: `delete(toDelete, final)` after a successful rename; a failure sets `buildError` -/
def renameLoop (fails : Nat → Bool) : List (Path × Path) → List Path → Acc → List Path × Acc
  | [], td, a => (td, a)
  | (t, f) :: rest, td, a =>
    let ok := !fails a.tick
    renameLoop fails rest (if ok then td.erase f else td) ⟨a.tick + 1, a.err || !ok, a.log ++ [(Op.rename t f, ok)]⟩

def isCompoundPath : Path → Bool
  | .cshard => true
  | .cmeta => true
  | _ => false

/-- the `toDelete` loop of `Finish`, including `SetTombstone` for compound shards
    (`setTombstone`: read metadata, flip the flag, `JsonMarshalRepoMetaTemp`, `os.Rename`; on failure remove the temp).
    FIX (fix: return the rename error from setTombstone) and FIX (fix: do not overwrite buildError with nil):
    a failed sidecar rename sets the error and a successful `SetTombstone` leaves an earlier error in place. -/
def deleteLoop (fails : Nat → Bool) (s : Scn) : List Path → Acc → Acc
  | [], a => a
  | p :: rest, a =>
    if s.shardMerging && isCompoundPath p then
      if p = Path.cmeta then deleteLoop fails s rest a
      else
        let ok := !fails a.tick
        let t := Path.tmp s.tombTmp
        -- after a failed rename `setTombstone` removes its temp file and ignores the outcome of that removal
        let log := a.log ++ [(Op.create t, true), (Op.write t .compMetaTomb, true), (Op.rename t .cmeta, ok)] ++
          (if ok then [] else [(Op.remove t, !fails (a.tick + 1))])
        deleteLoop fails s rest ⟨a.tick + (if ok then 1 else 2), a.err || !ok, log⟩
    else
      let ok := !fails a.tick
      deleteLoop fails s rest ⟨a.tick + 1, a.err || !ok, a.log ++ [(Op.remove p, ok)]⟩

/-- what is left in `toDelete` after the rename loop -/
def toDeleteAfter (s : Scn) (ro : List (Path × Path)) : List Path :=
  (renameLoop (fun _ => false) ro (toDelete0 s) ⟨0, false, []⟩).1

/-- `Builder.Finish` from `artifactPaths` on: `(log, buildError != nil)`.
    `ro` is the order in which the map `artifactPaths` is iterated, `dord` the order of `toDelete`.
    FIX (fix: Builder.Finish keeps the old shards when a rename failed): after a failed rename `Finish` returns the
    error before it removes or tombstones anything; the unfixed code went on through `toDelete`, in which the old file
    whose replacement had just failed was still listed. -/
def finish (s : Scn) (ro : List (Path × Path)) (dord : List Path) (fails : Nat → Bool) : List (Op × Bool) × Bool :=
  if ro.isEmpty then ([], false)
  else
    let r := renameLoop fails ro (toDelete0 s) ⟨0, false, []⟩
    if r.2.err then (r.2.log, true)
    else
      let a := deleteLoop fails s dord r.2
      (a.log, a.err)

def successOps (log : List (Op × Bool)) : List Op :=
  log.filterMap (fun e => if e.2 then some e.1 else none)

/-- every successful mutation of the run, in order: the crash points are the prefixes of this list -/
def trace (s : Scn) (ro : List (Path × Path)) (dord : List Path) (fails : Nat → Bool) : List Op :=
  tempOps s ++ successOps (finish s ro dord fails).1

/-- the directory a crash after the first `k` mutations leaves behind -/
def crashDir (s : Scn) (ro : List (Path × Path)) (dord : List Path) (fails : Nat → Bool) (k : Nat) : Dir :=
  applyAll (oldDir s) ((trace s ro dord fails).take k)

/-- the directory after the complete run -/
def finalDir (s : Scn) (ro : List (Path × Path)) (dord : List Path) (fails : Nat → Bool) : Dir :=
  applyAll (oldDir s) (trace s ro dord fails)

/-- A run in which the write of its `j`-th temp file fails (ENOSPC, EFBIG, EIO …), `j < nNew + nSide`.
    `j < nNew`: `writeShard` of shard `j` fails: its temp file stays behind incomplete, `buildError` is set, no further
    shard is written and `Finish` removes the temp files of the shards that did finish.
    `j ≥ nNew`: `JsonMarshalRepoMetaTemp` fails for a sidecar: it removes its own temp file and `Finish` returns the
    error at once, leaving the other temp files behind.  Either way `Finish` returns an error before any rename. -/
def writeFailOps (s : Scn) (j : Nat) : List Op :=
  (tempOps s).take (2 * j) ++ [Op.create (.tmp j)] ++
  (if j < s.nNew then (List.range j).map (fun i => Op.remove (.tmp i)) else [Op.remove (.tmp j)])

/-! ### the loader's view -/

/-- simple shard `n` as the searcher sees it: the shard's content and the sidecar that overrides its metadata -/
def sview (d : Dir) (n : Nat) : Option (Content × Option Content) :=
  (d (.shard n)).map fun c => (c, d (.side n))

/-- is the repository visible through the compound shard? -/
def cview (d : Dir) : Bool :=
  (d .cshard).isSome && !(d .cmeta == some Content.compMetaTomb)

end ZoektModel.C12
