/- C12 — the general theorems: success ⇒ installed, never a truncated visible file (all scenarios, orders, failures) -/
import ZoektModel.C12.Lemmas
namespace ZoektModel.C12
set_option linter.unusedSimpArgs false

theorem applyAll_append (d : Dir) (a b : List Op) : applyAll d (a ++ b) = applyAll (applyAll d a) b := by
  simp [applyAll, List.foldl_append]

theorem successOps_append (a b : List (Op × Bool)) : successOps (a ++ b) = successOps a ++ successOps b := by
  simp [successOps, List.filterMap_append]

def renameOps (ro : List (Path × Path)) : List Op := ro.map fun a => Op.rename a.1 a.2

def eraseAll (td : List Path) (ro : List (Path × Path)) : List Path := ro.foldl (fun td a => td.erase a.2) td

theorem renameLoop_fst (ro : List (Path × Path)) (td : List Path) (a : Acc) :
    (renameLoop (fun _ => false) ro td a).1 = eraseAll td ro := by
  induction ro generalizing td a with
  | nil => rfl
  | cons x rest ih =>
    obtain ⟨t, f⟩ := x
    simp only [renameLoop, eraseAll, List.foldl_cons, Bool.not_false, if_true]
    rw [ih]; rfl

theorem renameLoop_ok (fails : Nat → Bool) (ro : List (Path × Path)) (td : List Path) (a : Acc)
    (h : (renameLoop fails ro td a).2.err = false) :
    a.err = false ∧ successOps (renameLoop fails ro td a).2.log = successOps a.log ++ renameOps ro := by
  induction ro generalizing td a with
  | nil => simp [renameLoop, renameOps] at h ⊢; exact h
  | cons x rest ih =>
    obtain ⟨t, f⟩ := x
    simp only [renameLoop] at h ⊢
    obtain ⟨h1, h2⟩ := ih _ _ h
    simp only [Bool.or_eq_false_iff, Bool.not_eq_false'] at h1
    obtain ⟨ha, hok⟩ := h1
    refine ⟨ha, ?_⟩
    rw [h2, successOps_append]
    simp [successOps, hok, renameOps]

/-- the successful operations of the `toDelete` loop when nothing fails -/
def delOps (s : Scn) : List Path → List Op
  | [] => []
  | p :: rest =>
    (if s.shardMerging && isCompoundPath p then
      (if p = Path.cmeta then []
       else [Op.create (.tmp s.tombTmp), Op.write (.tmp s.tombTmp) .compMetaTomb, Op.rename (.tmp s.tombTmp) .cmeta])
     else [Op.remove p]) ++ delOps s rest

theorem deleteLoop_ok (fails : Nat → Bool) (s : Scn) (dord : List Path) (a : Acc)
    (h : (deleteLoop fails s dord a).err = false) :
    a.err = false ∧ successOps (deleteLoop fails s dord a).log = successOps a.log ++ delOps s dord := by
  induction dord generalizing a with
  | nil => simp [deleteLoop, delOps] at h ⊢; exact h
  | cons p rest ih =>
    simp only [deleteLoop] at h ⊢
    cases hc : (s.shardMerging && isCompoundPath p)
    · simp only [hc, Bool.false_eq_true, if_false] at h ⊢
      obtain ⟨h1, h2⟩ := ih _ h
      simp only [Bool.or_eq_false_iff, Bool.not_eq_false'] at h1
      obtain ⟨ha, hok⟩ := h1
      refine ⟨ha, ?_⟩
      rw [h2]
      simp [delOps, hc, hok, successOps, List.filterMap_append]
    · simp only [hc, if_true] at h ⊢
      by_cases hp : p = Path.cmeta
      · simp only [hp, if_true] at h ⊢
        obtain ⟨h1, h2⟩ := ih _ h
        refine ⟨h1, ?_⟩
        rw [h2]
        subst hp
        simp [delOps, hc]
      · simp only [hp, if_false] at h ⊢
        obtain ⟨h1, h2⟩ := ih _ h
        simp only [Bool.or_eq_false_iff, Bool.not_eq_false'] at h1
        obtain ⟨ha, hok⟩ := h1
        refine ⟨ha, ?_⟩
        rw [h2]
        simp [delOps, hc, hp, hok, successOps, List.filterMap_append]

/-- when `Finish` returns nil, the mutations it made are exactly: all renames (in the order `ro`), then the whole `toDelete` loop -/
theorem finish_ok_trace (s : Scn) (ro : List (Path × Path)) (dord : List Path) (fails : Nat → Bool)
    (hne : ro ≠ []) (hok : (finish s ro dord fails).2 = false) :
    trace s ro dord fails = tempOps s ++ (renameOps ro ++ delOps s dord) := by
  have hro : ro.isEmpty = false := by cases ro <;> simp_all
  simp only [finish, hro, Bool.false_eq_true, if_false] at hok
  simp only [trace, finish, hro, Bool.false_eq_true, if_false]
  cases herr : (renameLoop fails ro (toDelete0 s) ⟨0, false, []⟩).2.err
  · simp only [herr, Bool.false_eq_true, if_false] at hok ⊢
    obtain ⟨h1, h2⟩ := deleteLoop_ok _ _ _ _ hok
    obtain ⟨_, h3⟩ := renameLoop_ok _ _ _ _ h1
    rw [h2, h3]
    simp [successOps]
  · simp [herr] at hok

/-! ### the directory after the temp files are written -/

def genTemps (off n : Nat) (f : Nat → Content) : List Op :=
  (List.range n).flatMap fun j => [Op.create (.tmp (off + j)), Op.write (.tmp (off + j)) (f j)]

theorem applyAll_genTemps (d : Dir) (off n : Nat) (f : Nat → Content) (p : Path) :
    applyAll d (genTemps off n f) p =
      match p with
      | .tmp k => if off ≤ k ∧ k < off + n then some (f (k - off)) else d (.tmp k)
      | q => d q := by
  induction n with
  | zero =>
    cases p <;> simp [genTemps, applyAll]
    omega
  | succ n ih =>
    have : genTemps off (n + 1) f = genTemps off n f ++ [Op.create (.tmp (off + n)), Op.write (.tmp (off + n)) (f n)] := by
      simp [genTemps, List.range_succ, List.flatMap_append]
    rw [this, applyAll_append]
    simp only [applyAll, List.foldl_cons, List.foldl_nil, apply, Dir.set]
    have ih' := ih
    simp only [applyAll] at ih'
    cases p with
    | tmp k =>
      by_cases hk : k = off + n
      · subst hk; simp
      · have : ¬ (Path.tmp k = Path.tmp (off + n)) := by simpa using hk
        simp only [this, if_false]
        rw [ih']
        by_cases h1 : off ≤ k ∧ k < off + n
        · have h2 : off ≤ k ∧ k < off + (n + 1) := ⟨h1.1, by omega⟩
          simp [h1, h2]
        · have h2 : ¬ (off ≤ k ∧ k < off + (n + 1)) := by omega
          simp [h1, h2]
    | shard m => simp; rw [ih']
    | side m => simp; rw [ih']
    | cshard => simp; rw [ih']
    | cmeta => simp; rw [ih']

def afterTemps (s : Scn) : Dir
  | .tmp k =>
    if k < s.nNew then some (.newShard (s.base + k))
    else if k < s.nNew + s.nSide then some .newMeta else none
  | p => oldDir s p

theorem applyAll_tempOps (s : Scn) : applyAll (oldDir s) (tempOps s) = afterTemps s := by
  funext p
  have h : tempOps s = genTemps 0 s.nNew (fun j => .newShard (s.base + j)) ++ genTemps s.nNew s.nSide (fun _ => .newMeta) := by
    simp [tempOps, genTemps]
  rw [h, applyAll_append, applyAll_genTemps]
  cases p with
  | tmp k =>
    simp only [applyAll_genTemps, afterTemps, oldDir]
    by_cases h1 : k < s.nNew
    · have : ¬ (s.nNew ≤ k ∧ k < s.nNew + s.nSide) := by omega
      simp [h1, this]
    · by_cases h2 : k < s.nNew + s.nSide
      · have : s.nNew ≤ k ∧ k < s.nNew + s.nSide := ⟨by omega, h2⟩
        simp [h1, this, h2]
      · have : ¬ (s.nNew ≤ k ∧ k < s.nNew + s.nSide) := by omega
        simp [h1, this, h2]
  | shard m => simp [applyAll_genTemps, afterTemps]
  | side m => simp [applyAll_genTemps, afterTemps]
  | cshard => simp [applyAll_genTemps, afterTemps]
  | cmeta => simp [applyAll_genTemps, afterTemps]

/-! ### renames of distinct complete temp files onto distinct final names, in any order -/

theorem applyAll_renames (ro : List (Path × Path)) (d : Dir)
    (hsrc : (ro.map (·.1)).Nodup) (hdst : (ro.map (·.2)).Nodup)
    (htmp : ∀ a ∈ ro, (∃ k, a.1 = Path.tmp k) ∧ (∀ k, a.2 ≠ Path.tmp k) ∧ (d a.1).isSome = true) :
    (∀ a ∈ ro, applyAll d (renameOps ro) a.2 = d a.1 ∧ applyAll d (renameOps ro) a.1 = none) ∧
    (∀ p, p ∉ ro.map (·.1) → p ∉ ro.map (·.2) → applyAll d (renameOps ro) p = d p) := by
  induction ro generalizing d with
  | nil => simp [renameOps, applyAll]
  | cons x rest ih =>
    obtain ⟨t, f⟩ := x
    simp only [List.map_cons, List.nodup_cons] at hsrc hdst
    obtain ⟨⟨k, hk⟩, hf, hsome⟩ := htmp (t, f) (by simp)
    simp only at hk hf hsome
    obtain ⟨c, hc⟩ := Option.isSome_iff_exists.mp hsome
    have htf : t ≠ f := by rw [hk]; exact fun h => hf k h.symm
    -- the directory after the first rename
    let d' : Dir := (d.set f (some c)).set t none
    have hstep : applyAll d (renameOps ((t, f) :: rest)) = applyAll d' (renameOps rest) := by
      simp [renameOps, applyAll, apply, hc, d']
    have hd' : ∀ p, p ≠ t → p ≠ f → d' p = d p := by
      intro p h1 h2; simp [d', Dir.set, h1, h2]
    have hd't : d' t = none := by simp [d', Dir.set]
    have hd'f : d' f = some c := by simp [d', Dir.set, htf.symm]
    have hrest : ∀ a ∈ rest, a.1 ≠ t ∧ a.1 ≠ f ∧ a.2 ≠ f ∧ a.2 ≠ t := by
      intro a ha
      obtain ⟨⟨k', hk'⟩, hf', _⟩ := htmp a (by simp [ha])
      refine ⟨?_, ?_, ?_, ?_⟩
      · intro h; exact hsrc.1 (by rw [← h]; exact List.mem_map_of_mem ha)
      · rw [hk']; exact fun h => hf k' h.symm
      · intro h; exact hdst.1 (by rw [← h]; exact List.mem_map_of_mem ha)
      · rw [hk]; exact hf' k
    have ih' := ih d' hsrc.2 hdst.2 (by
      intro a ha
      obtain ⟨hk', hf', hs'⟩ := htmp a (by simp [ha])
      obtain ⟨h1, h2, _, _⟩ := hrest a ha
      exact ⟨hk', hf', by rw [hd' _ h1 h2]; exact hs'⟩)
    rw [hstep]
    refine ⟨?_, ?_⟩
    · intro a ha
      rcases List.mem_cons.mp ha with rfl | ha
      · -- the head: neither t nor f is touched by the remaining renames
        have ht1 : t ∉ rest.map (·.1) := hsrc.1
        have ht2 : t ∉ rest.map (·.2) := by
          intro h; obtain ⟨a, ha, hat⟩ := List.mem_map.mp h
          exact (hrest a ha).2.2.2 hat
        have hf1 : f ∉ rest.map (·.1) := by
          intro h; obtain ⟨a, ha, hat⟩ := List.mem_map.mp h
          exact (hrest a ha).2.1 hat
        have hf2 : f ∉ rest.map (·.2) := hdst.1
        exact ⟨by rw [ih'.2 f hf1 hf2, hd'f, hc], by rw [ih'.2 t ht1 ht2, hd't]⟩
      · obtain ⟨h1, h2, _, _⟩ := hrest a ha
        have := ih'.1 a ha
        exact ⟨by rw [this.1, hd' _ h1 h2], this.2⟩
    · intro p hp1 hp2
      simp only [List.map_cons, List.mem_cons, not_or] at hp1 hp2
      rw [ih'.2 p hp1.2 hp2.2, hd' p hp1.1 hp2.1]

theorem applyAll_removes (l : List Path) (d : Dir) (p : Path) :
    applyAll d (l.map Op.remove) p = if p ∈ l then none else d p := by
  induction l generalizing d with
  | nil => simp [applyAll]
  | cons q rest ih =>
    simp only [List.map_cons, applyAll, List.foldl_cons] at ih ⊢
    rw [ih]
    by_cases h1 : p ∈ rest
    · simp [h1]
    · by_cases h2 : p = q
      · simp [h1, h2, apply, Dir.set]
      · simp [h1, h2, apply, Dir.set]

theorem mem_eraseAll (ro : List (Path × Path)) (td : List Path) (hn : td.Nodup) (p : Path) :
    p ∈ eraseAll td ro ↔ p ∈ td ∧ p ∉ ro.map (·.2) := by
  induction ro generalizing td with
  | nil => simp [eraseAll]
  | cons x rest ih =>
    simp only [eraseAll, List.foldl_cons, List.map_cons, List.mem_cons, not_or] at ih ⊢
    rw [ih _ (hn.erase _), List.Nodup.mem_erase_iff hn]
    constructor
    · rintro ⟨⟨h1, h2⟩, h3⟩; exact ⟨h2, h1, h3⟩
    · rintro ⟨h2, h1, h3⟩; exact ⟨⟨h1, h2⟩, h3⟩


/-! ### facts about `artifactPaths` and `toDelete` -/

theorem nodup_map_range {α} (f : Nat → α) (hf : ∀ i j, f i = f j → i = j) (n : Nat) : ((List.range n).map f).Nodup := by
  unfold List.Nodup
  rw [List.pairwise_map]
  exact List.Pairwise.imp (fun h e => h (hf _ _ e)) List.nodup_range

theorem mem_artifacts (s : Scn) (a : Path × Path) : a ∈ artifacts s ↔
    (∃ j, j < s.nNew ∧ a = (Path.tmp j, Path.shard (s.base + j))) ∨
    (∃ i, i < s.nSide ∧ a = (Path.tmp (s.nNew + i), Path.side i)) := by
  simp only [artifacts, List.mem_append, List.mem_map, List.mem_range]
  constructor
  · rintro (⟨j, hj, rfl⟩ | ⟨i, hi, rfl⟩)
    · exact Or.inl ⟨j, hj, rfl⟩
    · exact Or.inr ⟨i, hi, rfl⟩
  · rintro (⟨j, hj, rfl⟩ | ⟨i, hi, rfl⟩)
    · exact Or.inl ⟨j, hj, rfl⟩
    · exact Or.inr ⟨i, hi, rfl⟩

theorem artifacts_src_nodup (s : Scn) : ((artifacts s).map (·.1)).Nodup := by
  simp only [artifacts, List.map_append, List.map_map]
  rw [List.nodup_append]
  refine ⟨nodup_map_range _ (by intro i j h; simpa using h) _, nodup_map_range _ (by intro i j h; simp at h; omega) _, ?_⟩
  intro a ha b hb
  simp only [List.mem_map, List.mem_range, Function.comp] at ha hb
  obtain ⟨j, hj, rfl⟩ := ha
  obtain ⟨i, _, rfl⟩ := hb
  simp; omega

theorem artifacts_dst_nodup (s : Scn) : ((artifacts s).map (·.2)).Nodup := by
  simp only [artifacts, List.map_append, List.map_map]
  rw [List.nodup_append]
  refine ⟨nodup_map_range _ (by intro i j h; simp at h; omega) _, nodup_map_range _ (by intro i j h; simpa using h) _, ?_⟩
  intro a ha b hb
  simp only [List.mem_map, List.mem_range, Function.comp] at ha hb
  obtain ⟨j, _, rfl⟩ := ha
  obtain ⟨i, _, rfl⟩ := hb
  simp

theorem toDelete0_nodup (s : Scn) : (toDelete0 s).Nodup := by
  unfold toDelete0
  split
  · simp
  · split
    · split <;> simp
    · rw [List.nodup_append]
      refine ⟨nodup_map_range _ (by intro i j h; simpa using h) _, ?_, ?_⟩
      · unfold List.Nodup
        rw [List.pairwise_map]
        exact List.Pairwise.imp (fun h e => h (by simpa using e)) (List.Pairwise.filter _ List.nodup_range)
      · intro a ha b hb
        simp only [List.mem_map] at ha hb
        obtain ⟨_, _, rfl⟩ := ha
        obtain ⟨_, _, rfl⟩ := hb
        simp

def afterRenames (s : Scn) (ro : List (Path × Path)) : Dir := applyAll (afterTemps s) (renameOps ro)

/-- the spec of the rename phase for any order `ro` of `artifactPaths` -/
theorem after_renames (s : Scn) (ro : List (Path × Path)) (hro : ro.Perm (artifacts s)) :
    let d1 := afterRenames s ro
    (∀ j, j < s.nNew → d1 (.shard (s.base + j)) = some (.newShard (s.base + j))) ∧
    (∀ i, i < s.nSide → d1 (.side i) = some .newMeta) ∧
    (∀ k, (∃ f, (Path.tmp k, f) ∈ artifacts s) → d1 (.tmp k) = none) ∧
    (∀ p, (∀ k, p ≠ Path.tmp k) → p ∉ (artifacts s).map (·.2) → d1 p = oldDir s p) ∧
    (∀ k, s.nNew + s.nSide ≤ k → d1 (.tmp k) = none) := by
  simp only [afterRenames]
  have hmem : ∀ a, a ∈ ro ↔ a ∈ artifacts s := fun a => hro.mem_iff
  have hsrc : (ro.map (·.1)).Nodup := ((hro.map (·.1)).nodup_iff).mpr (artifacts_src_nodup s)
  have hdst : (ro.map (·.2)).Nodup := ((hro.map (·.2)).nodup_iff).mpr (artifacts_dst_nodup s)
  have hval : ∀ a ∈ artifacts s, (∃ k, a.1 = Path.tmp k) ∧ (∀ k, a.2 ≠ Path.tmp k) ∧
      ((∃ j, j < s.nNew ∧ a = (Path.tmp j, Path.shard (s.base + j)) ∧ afterTemps s a.1 = some (.newShard (s.base + j))) ∨
       (∃ i, i < s.nSide ∧ a = (Path.tmp (s.nNew + i), Path.side i) ∧ afterTemps s a.1 = some .newMeta)) := by
    intro a ha
    rcases (mem_artifacts s a).mp ha with ⟨j, hj, rfl⟩ | ⟨i, hi, rfl⟩
    · exact ⟨⟨j, rfl⟩, by simp, Or.inl ⟨j, hj, rfl, by simp [afterTemps, hj]⟩⟩
    · refine ⟨⟨_, rfl⟩, by simp, Or.inr ⟨i, hi, rfl, ?_⟩⟩
      have h1 : ¬ (s.nNew + i < s.nNew) := by omega
      have h2 : s.nNew + i < s.nNew + s.nSide := by omega
      simp [afterTemps, h1, h2]
  have hspec := applyAll_renames ro (afterTemps s) hsrc hdst (by
    intro a ha
    obtain ⟨h1, h2, h3⟩ := hval a ((hmem a).mp ha)
    refine ⟨h1, h2, ?_⟩
    rcases h3 with ⟨_, _, _, h⟩ | ⟨_, _, _, h⟩ <;> simp [h])
  refine ⟨?_, ?_, ?_, ?_, ?_⟩
  · intro j hj
    have ha : (Path.tmp j, Path.shard (s.base + j)) ∈ artifacts s := (mem_artifacts s _).mpr (Or.inl ⟨j, hj, rfl⟩)
    have := (hspec.1 _ ((hmem _).mpr ha)).1
    simp only at this
    rw [this]; simp [afterTemps, hj]
  · intro i hi
    have ha : (Path.tmp (s.nNew + i), Path.side i) ∈ artifacts s := (mem_artifacts s _).mpr (Or.inr ⟨i, hi, rfl⟩)
    have := (hspec.1 _ ((hmem _).mpr ha)).1
    simp only at this
    rw [this]
    have h1 : ¬ (s.nNew + i < s.nNew) := by omega
    have h2 : s.nNew + i < s.nNew + s.nSide := by omega
    simp [afterTemps, h1, h2]
  · rintro k ⟨f, hf⟩
    exact (hspec.1 _ ((hmem _).mpr hf)).2
  · intro p hp hnf
    have h1 : p ∉ ro.map (·.1) := by
      intro h
      obtain ⟨a, ha, rfl⟩ := List.mem_map.mp h
      obtain ⟨⟨k, hk⟩, _, _⟩ := hval a ((hmem a).mp ha)
      exact hp k hk
    have h2 : p ∉ ro.map (·.2) := by
      intro h; exact hnf (((hro.map (·.2)).mem_iff).mp h)
    rw [hspec.2 p h1 h2]
    cases p with
    | tmp k => exact absurd rfl (hp k)
    | _ => rfl
  · intro k hk
    have h1 : Path.tmp k ∉ ro.map (·.1) := by
      intro h
      obtain ⟨a, ha, hat⟩ := List.mem_map.mp h
      rcases (mem_artifacts s a).mp ((hmem a).mp ha) with ⟨j, hj, rfl⟩ | ⟨i, hi, rfl⟩
      · simp at hat; omega
      · simp at hat; omega
    have h2 : Path.tmp k ∉ ro.map (·.2) := by
      intro h
      obtain ⟨a, ha, hat⟩ := List.mem_map.mp h
      obtain ⟨_, hnt, _⟩ := hval a ((hmem a).mp ha)
      exact hnt k hat
    rw [hspec.2 _ h1 h2]
    have h3 : ¬ (k < s.nNew) := by omega
    have h4 : ¬ (k < s.nNew + s.nSide) := by omega
    simp [afterTemps, h3, h4]


theorem sameView_of (a b : Dir) (h1 : ∀ n, a (.shard n) = b (.shard n)) (h2 : ∀ n, a (.side n) = b (.side n))
    (h3 : cview a = cview b) : SameView a b :=
  ⟨fun n => by simp [sview, h1, h2], h3⟩

theorem delOps_simple (s : Scn) (l : List Path) (h : ∀ p ∈ l, (s.shardMerging && isCompoundPath p) = false) :
    delOps s l = l.map Op.remove := by
  induction l with
  | nil => rfl
  | cons p rest ih =>
    have hp := h p (by simp)
    simp only [delOps, hp, Bool.false_eq_true, if_false, List.map_cons, List.singleton_append]
    rw [ih (fun q hq => h q (by simp [hq]))]

theorem mem_dsts (s : Scn) (p : Path) : p ∈ (artifacts s).map (·.2) ↔
    (∃ j, j < s.nNew ∧ p = Path.shard (s.base + j)) ∨ (∃ i, i < s.nSide ∧ p = Path.side i) := by
  simp only [List.mem_map]
  constructor
  · rintro ⟨a, ha, rfl⟩
    rcases (mem_artifacts s a).mp ha with ⟨j, hj, rfl⟩ | ⟨i, hi, rfl⟩
    · exact Or.inl ⟨j, hj, rfl⟩
    · exact Or.inr ⟨i, hi, rfl⟩
  · rintro (⟨j, hj, rfl⟩ | ⟨i, hi, rfl⟩)
    · exact ⟨_, (mem_artifacts s _).mpr (Or.inl ⟨j, hj, rfl⟩), rfl⟩
    · exact ⟨_, (mem_artifacts s _).mpr (Or.inr ⟨i, hi, rfl⟩), rfl⟩

theorem mem_dord (s : Scn) (ro : List (Path × Path)) (hro : ro.Perm (artifacts s))
    (dord : List Path) (hd : dord.Perm (toDeleteAfter s ro)) (p : Path) :
    p ∈ dord ↔ p ∈ toDelete0 s ∧ p ∉ (artifacts s).map (·.2) := by
  rw [hd.mem_iff, toDeleteAfter, renameLoop_fst, mem_eraseAll _ _ (toDelete0_nodup s)]
  rw [(hro.map (·.2)).mem_iff]


theorem eraseAll_nodup (ro : List (Path × Path)) (td : List Path) (hn : td.Nodup) : (eraseAll td ro).Nodup := by
  induction ro generalizing td with
  | nil => exact hn
  | cons x rest ih => exact ih _ (hn.erase _)

theorem delOps_cmeta_only (s : Scn) (hsm : s.shardMerging = true) (l : List Path) (h : ∀ p ∈ l, p = Path.cmeta) :
    delOps s l = [] := by
  induction l with
  | nil => rfl
  | cons p rest ih =>
    have hp := h p (by simp)
    subst hp
    simp [delOps, hsm, isCompoundPath, ih (fun q hq => h q (by simp [hq]))]

theorem delOps_tomb (s : Scn) (hsm : s.shardMerging = true) (l : List Path) (hn : l.Nodup)
    (h : ∀ p ∈ l, p = Path.cshard ∨ p = Path.cmeta) (hc : Path.cshard ∈ l) :
    delOps s l = [Op.create (.tmp s.tombTmp), Op.write (.tmp s.tombTmp) .compMetaTomb, Op.rename (.tmp s.tombTmp) .cmeta] := by
  induction l with
  | nil => simp at hc
  | cons p rest ih =>
    rw [List.nodup_cons] at hn
    rcases h p (by simp) with rfl | rfl
    · have hrest : ∀ q ∈ rest, q = Path.cmeta := by
        intro q hq
        rcases h q (by simp [hq]) with rfl | rfl
        · exact absurd hq hn.1
        · rfl
      simp [delOps, hsm, isCompoundPath, delOps_cmeta_only s hsm rest hrest]
    · have hc' : Path.cshard ∈ rest := by
        rcases List.mem_cons.mp hc with h' | h'
        · simp at h'
        · exact h'
      simp [delOps, hsm, isCompoundPath, ih hn.2 (fun q hq => h q (by simp [hq])) hc']

/-- **success ⇒ the complete new index is installed**, for every well-formed scenario, order and failure set -/
theorem success_sameView (s : Scn) (hwf : s.WF = true)
    (ro : List (Path × Path)) (hro : ro.Perm (artifacts s))
    (dord : List Path) (hd : dord.Perm (toDeleteAfter s ro)) (fails : Nat → Bool)
    (hok : (finish s ro dord fails).2 = false) :
    SameView (finalDir s ro dord fails) (newDir s) := by
  have hne : ro ≠ [] := by
    intro h; subst h
    have hl := hro.length_eq
    simp [artifacts, Scn.nSide] at hl
    simp [Scn.WF] at hwf
    rcases hwf.2 with h | ⟨h3, h4⟩
    · omega
    · simp [h3] at hl; omega
  have htr := finish_ok_trace s ro dord fails hne hok
  have hfin : finalDir s ro dord fails = applyAll (afterRenames s ro) (delOps s dord) := by
    simp only [finalDir, htr, applyAll_append, applyAll_tempOps, afterRenames]
  rw [hfin]
  obtain ⟨V1, V2, V3, V4, V5⟩ := after_renames s ro hro
  have hmd := mem_dord s ro hro dord hd
  have hdst := mem_dsts s
  obtain ⟨delta, compound, compMeta, sm, nNew, oldMeta⟩ := s
  cases delta
  · simp only [Scn.base, Scn.nSide, Scn.nOld, Bool.false_eq_true, if_false, Nat.zero_add] at V1 V2 V4 hdst
    have hdst' : ∀ p, p ∈ (artifacts ⟨false, compound, compMeta, sm, nNew, oldMeta⟩).map (·.2) ↔ ∃ j, j < nNew ∧ p = Path.shard j := by
      intro p; rw [hdst]; simp
    cases compound
    · -- full build over simple shards
      have hsimple : ∀ p ∈ dord, (sm && isCompoundPath p) = false := by
        intro p hp
        have := ((hmd p).mp hp).1
        simp only [toDelete0, Bool.false_eq_true, if_false, List.mem_append, List.mem_map] at this
        rcases this with ⟨_, _, rfl⟩ | ⟨_, _, rfl⟩ <;> simp [isCompoundPath]
      rw [delOps_simple _ _ hsimple]
      apply sameView_of
      · intro n
        rw [applyAll_removes]
        by_cases h1 : n < nNew
        · have hnd : Path.shard n ∉ dord := by
            intro h; exact ((hmd _).mp h).2 ((hdst' _).mpr ⟨n, h1, rfl⟩)
          simp [hnd, V1 n h1, newDir, h1]
        · have hnf : Path.shard n ∉ (artifacts ⟨false, false, compMeta, sm, nNew, oldMeta⟩).map (·.2) := by
            rw [hdst']; rintro ⟨j, hj, h⟩; simp at h; omega
          by_cases h2 : n < oldMeta.length
          · have hin : Path.shard n ∈ dord := (hmd _).mpr ⟨by simp [toDelete0, Scn.nOld, h2], hnf⟩
            simp [hin, newDir, h1]
          · have hnd : Path.shard n ∉ dord := by
              intro h
              have := ((hmd _).mp h).1
              simp [toDelete0, Scn.nOld] at this; omega
            simp [hnd, V4 _ (by simp) hnf, oldDir, Scn.nOld, h2, newDir, h1]
      · intro n
        rw [applyAll_removes]
        have hnf : Path.side n ∉ (artifacts ⟨false, false, compMeta, sm, nNew, oldMeta⟩).map (·.2) := by
          rw [hdst']; rintro ⟨j, hj, h⟩; simp at h
        by_cases hm : oldMeta[n]?.getD false = true
        · have hlt : n < oldMeta.length := by
            by_cases h : n < oldMeta.length
            · exact h
            · rw [List.getElem?_eq_none (by omega)] at hm; simp at hm
          have hm' : oldMeta[n] = true := by simpa [List.getElem?_eq_getElem hlt] using hm
          have hin : Path.side n ∈ dord := (hmd _).mpr ⟨by simp [toDelete0, Scn.nOld, hlt, hm'], hnf⟩
          simp [hin, newDir]
        · have hnd : Path.side n ∉ dord := by
            intro h
            have := ((hmd _).mp h).1
            simp [toDelete0, Scn.nOld] at this
            exact hm this.2
          simp [hnd, V4 _ (by simp) hnf, oldDir, newDir, hm]
      · have hnd : ∀ p, isCompoundPath p = true → p ∉ dord := by
          intro p hp h
          have := hsimple p h
          simp [hp] at this
          have := ((hmd p).mp h).1
          simp only [toDelete0, Bool.false_eq_true, if_false, List.mem_append, List.mem_map] at this
          rcases this with ⟨_, _, rfl⟩ | ⟨_, _, rfl⟩ <;> simp [isCompoundPath] at hp
        have hcs : Path.cshard ∉ (artifacts ⟨false, false, compMeta, sm, nNew, oldMeta⟩).map (·.2) := by
          rw [hdst']; rintro ⟨j, hj, h⟩; simp at h
        simp [cview, applyAll_removes, hnd Path.cshard rfl, V4 _ (by simp) hcs, oldDir, newDir]
    · -- the old index lives in a compound shard
      simp [Scn.WF] at hwf
      have hom : oldMeta = [] := by
        cases oldMeta with
        | nil => rfl
        | cons _ _ => simp at hwf
      subst hom
      have hnf : ∀ p, (∀ n, p ≠ Path.shard n) → p ∉ (artifacts ⟨false, true, compMeta, sm, nNew, []⟩).map (·.2) := by
        intro p hp; rw [hdst']; rintro ⟨j, _, h⟩; exact hp j h
      have hmd' : ∀ p, p ∈ dord ↔ (p = Path.cshard ∨ (compMeta = true ∧ p = Path.cmeta)) := by
        intro p
        rw [hmd]
        constructor
        · rintro ⟨h, _⟩
          cases compMeta <;> simp [toDelete0] at h ⊢ <;> exact h
        · rintro (rfl | ⟨hc, rfl⟩)
          · exact ⟨by simp [toDelete0], hnf _ (by simp)⟩
          · exact ⟨by simp [toDelete0, hc], hnf _ (by simp)⟩
      have hshard : ∀ n, afterRenames ⟨false, true, compMeta, sm, nNew, []⟩ ro (.shard n) = newDir ⟨false, true, compMeta, sm, nNew, []⟩ (.shard n) := by
        intro n
        by_cases h1 : n < nNew
        · simp [V1 n h1, newDir, h1]
        · rw [V4 _ (by simp) (by rw [hdst']; rintro ⟨j, hj, h⟩; simp at h; omega)]
          simp [oldDir, newDir, Scn.nOld, h1]
      have hside : ∀ n, afterRenames ⟨false, true, compMeta, sm, nNew, []⟩ ro (.side n) = newDir ⟨false, true, compMeta, sm, nNew, []⟩ (.side n) := by
        intro n
        rw [V4 _ (by simp) (hnf _ (by simp))]
        simp [oldDir, newDir]
      have hcs : afterRenames ⟨false, true, compMeta, sm, nNew, []⟩ ro .cshard = some .compOld := by
        rw [V4 _ (by simp) (hnf _ (by simp))]; simp [oldDir]
      cases sm
      · rw [delOps_simple _ _ (by intro p _; simp)]
        apply sameView_of
        · intro n
          rw [applyAll_removes]
          have : Path.shard n ∉ dord := by rw [hmd']; simp
          simp [this, hshard]
        · intro n
          rw [applyAll_removes]
          have : Path.side n ∉ dord := by rw [hmd']; simp
          simp [this, hside]
        · have : Path.cshard ∈ dord := by rw [hmd']; simp
          simp [cview, applyAll_removes, this, newDir]
      · have hnd : dord.Nodup := by
          rw [hd.nodup_iff, toDeleteAfter, renameLoop_fst]
          exact eraseAll_nodup _ _ (toDelete0_nodup _)
        have hdel := delOps_tomb ⟨false, true, compMeta, true, nNew, []⟩ rfl dord hnd
          (by intro p hp; rcases (hmd' p).mp hp with h | ⟨_, h⟩ <;> simp [h])
          ((hmd' _).mpr (Or.inl rfl))
        rw [hdel]
        simp only [Scn.tombTmp, Scn.nSide, Bool.false_eq_true, if_false, Nat.add_zero]
        apply sameView_of
        · intro n
          simp [applyAll, apply, Dir.set, hshard]
        · intro n
          simp [applyAll, apply, Dir.set, hside]
        · simp [cview, applyAll, apply, Dir.set, hcs, newDir]
  · -- delta run: nothing is deleted
    simp [Scn.WF] at hwf
    obtain ⟨⟨hc, hcm⟩, _⟩ := hwf
    have hcomp : compound = false := by
      cases compound <;> simp_all
    subst hcomp
    have hdn : dord = [] := by
      cases dord with
      | nil => rfl
      | cons p rest => have := (hmd p).mp (by simp); simp [toDelete0] at this
    subst hdn
    simp only [delOps, applyAll, List.foldl_nil]
    simp only [Scn.base, Scn.nSide, Scn.nOld, if_true] at V1 V2 V4 hdst
    apply sameView_of
    · intro n
      by_cases h1 : n < oldMeta.length
      · rw [V4 _ (by simp) (by rw [hdst]; simp; omega)]
        simp [oldDir, newDir, Scn.nOld, h1]
      · by_cases h2 : n < oldMeta.length + nNew
        · have := V1 (n - oldMeta.length) (by omega)
          rw [show oldMeta.length + (n - oldMeta.length) = n by omega] at this
          rw [this]; simp [newDir, Scn.nOld, h1, h2]
        · rw [V4 _ (by simp) (by rw [hdst]; simp; omega)]
          simp [oldDir, newDir, Scn.nOld, h1, h2]
    · intro n
      by_cases h1 : n < oldMeta.length
      · rw [V2 n h1]; simp [newDir, Scn.nOld, h1]
      · rw [V4 _ (by simp) (by rw [hdst]; simp; omega)]
        have : oldMeta[n]?.getD false = false := by
          rw [List.getElem?_eq_none (by omega)]; rfl
        simp [oldDir, newDir, Scn.nOld, h1, this]
    · have hcs := V4 Path.cshard (by simp) (by rw [hdst]; simp)
      simp [cview, hcs, oldDir, newDir]

end ZoektModel.C12
