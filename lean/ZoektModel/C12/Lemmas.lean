/- C12 — lemmas for Props/C12.lean -/
import ZoektModel.C12.Spec
namespace ZoektModel.C12

theorem atomic_shapes (s : Scn) (hwf : s.WF = true) (hat : atomic s = true) :
    (∃ sm, s = ⟨false, false, false, sm, 1, []⟩) ∨ (∃ sm, s = ⟨false, false, false, sm, 1, [false]⟩) ∨
    (∃ sm, s = ⟨true, false, false, sm, 1, []⟩) ∨ (∃ sm b, s = ⟨true, false, false, sm, 0, [b]⟩) := by
  obtain ⟨d, c, cm, sm, n, om⟩ := s
  cases d <;> cases c <;> cases cm <;> simp [atomic, Scn.WF, Scn.nOld] at hwf hat ⊢
  · rcases hat with ⟨rfl, rfl | rfl⟩ <;> simp
  · match om, hat with
    | [], h => simp at h; subst h; simp
    | [b], h => simp at h; subst h; simp
    | _ :: _ :: _, h => simp at h; omega


set_option linter.unusedSimpArgs false

/-- `SameView` between two concrete directories -/
macro "sv" : tactic => `(tactic|
  (refine ⟨fun n => ?_, ?_⟩ <;> simp [sview, cview, applyAll, apply, Dir.set, oldDir, newDir, Scn.nOld] <;>
    (try (rcases n with _ | _ | n <;> simp))))

macro "unf" : tactic => `(tactic|
  simp [crashDir, finalDir, trace, finish, renameLoop, deleteLoop, tempOps, successOps, toDelete0, Scn.base, Scn.nSide,
    Scn.nOld, Scn.tombTmp, List.range, List.range.loop, *])

theorem atomic_all (s : Scn) (hwf : s.WF = true) (hat : atomic s = true)
    (ro : List (Path × Path)) (hro : ro.Perm (artifacts s))
    (dord : List Path) (hd : dord.Perm (toDeleteAfter s ro)) (fails : Nat → Bool) :
    OldOrNew s (finalDir s ro dord fails) ∧ ∀ k, OldOrNew s (crashDir s ro dord fails k) := by
  rcases atomic_shapes s hwf hat with ⟨sm, rfl⟩ | ⟨sm, rfl⟩ | ⟨sm, rfl⟩ | ⟨sm, b, rfl⟩
  all_goals
    simp [artifacts, Scn.base, Scn.nSide, Scn.nOld, List.range, List.range.loop] at hro
    subst hro
    simp [toDeleteAfter, toDelete0, renameLoop, Scn.nOld, List.range, List.range.loop] at hd
    subst hd
    cases hf : fails 0
    · refine ⟨?_, fun k => ?_⟩
      · unf; right; sv
      · unf
        rcases k with _ | _ | _ | _ | k <;> simp [List.take] <;> first | (left; sv; done) | (right; sv; done)
    · refine ⟨?_, fun k => ?_⟩
      · unf; left; sv
      · unf
        rcases k with _ | _ | _ | _ | k <;> simp [List.take] <;> first | (left; sv; done) | (right; sv; done)
end ZoektModel.C12
