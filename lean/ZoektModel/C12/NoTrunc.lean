/- C12 — "never a truncated shard": at every crash point every file with a non-temporary name is complete -/
import ZoektModel.C12.Success
namespace ZoektModel.C12
set_option linter.unusedSimpArgs false

def isTmp : Path → Bool
  | .tmp _ => true
  | _ => false

/-- a static check of an operation list that tracks the temp files which are still incomplete:
    only temp files are created and written, only complete temp files are renamed, onto non-temporary names -/
def safeRun : List Nat → List Op → Option (List Nat)
  | T, [] => some T
  | T, Op.create p :: r =>
    match p with
    | .tmp k => safeRun (k :: T) r
    | _ => none
  | T, Op.write p c :: r =>
    match p with
    | .tmp k => if c = Content.trunc then none else safeRun (T.filter (· ≠ k)) r
    | _ => none
  | T, Op.rename p f :: r =>
    match p with
    | .tmp k => if k ∈ T ∨ isTmp f = true then none else safeRun T r
    | _ => none
  | T, Op.remove _ :: r => safeRun T r

theorem safeRun_append (a b : List Op) (T : List Nat) :
    safeRun T (a ++ b) = (safeRun T a).bind fun T1 => safeRun T1 b := by
  induction a generalizing T with
  | nil => simp [safeRun]
  | cons op rest ih =>
    cases op with
    | create p => cases p <;> simp [safeRun, ih]
    | write p c => cases p <;> simp [safeRun, ih] ; split <;> simp
    | rename p f => cases p <;> simp [safeRun, ih] ; split <;> simp
    | remove p => simp [safeRun, ih]

theorem safeRun_noTrunc (ops : List Op) (T T' : List Nat) (d : Dir)
    (hs : safeRun T ops = some T') (hd : ∀ p, d p = some Content.trunc → ∃ k, k ∈ T ∧ p = Path.tmp k) (j : Nat) :
    NoTrunc (applyAll d (ops.take j)) := by
  induction ops generalizing T d j with
  | nil =>
    simp only [List.take_nil, applyAll, List.foldl_nil]
    intro p hp h
    obtain ⟨k, _, rfl⟩ := hd p h
    exact hp k rfl
  | cons op rest ih =>
    cases j with
    | zero =>
      simp only [List.take_zero, applyAll, List.foldl_nil]
      intro p hp h
      obtain ⟨k, _, rfl⟩ := hd p h
      exact hp k rfl
    | succ j =>
      simp only [List.take_succ_cons, applyAll, List.foldl_cons]
      cases op with
      | create p =>
        cases p with
        | tmp k =>
          simp only [safeRun] at hs
          apply ih (k :: T) (apply d (Op.create (.tmp k))) hs
          intro q hq
          by_cases hqk : q = Path.tmp k
          · exact ⟨k, by simp, hqk⟩
          · simp only [apply, Dir.set, hqk, if_false] at hq
            obtain ⟨k', hk', rfl⟩ := hd q hq
            exact ⟨k', by simp [hk'], rfl⟩
        | _ => simp [safeRun] at hs
      | write p c =>
        cases p with
        | tmp k =>
          simp only [safeRun] at hs
          split at hs
          · simp at hs
          · rename_i hc
            apply ih _ (apply d (Op.write (.tmp k) c)) hs
            intro q hq
            by_cases hqk : q = Path.tmp k
            · subst hqk; simp [apply, Dir.set] at hq; exact absurd hq hc
            · simp only [apply, Dir.set, hqk, if_false] at hq
              obtain ⟨k', hk', rfl⟩ := hd q hq
              refine ⟨k', ?_, rfl⟩
              have : k' ≠ k := fun h => hqk (by rw [h])
              simp [hk', this]
        | _ => simp [safeRun] at hs
      | rename p f =>
        cases p with
        | tmp k =>
          simp only [safeRun] at hs
          split at hs
          · simp at hs
          · rename_i hc
            simp only [not_or] at hc
            apply ih T (apply d (Op.rename (.tmp k) f)) hs
            intro q hq
            simp only [apply] at hq
            cases hsrc : d (.tmp k) with
            | none => simp only [hsrc] at hq; exact hd q hq
            | some c =>
              simp only [hsrc, Dir.set] at hq
              by_cases h1 : q = Path.tmp k
              · simp [h1] at hq
              · simp only [h1, if_false] at hq
                by_cases h2 : q = f
                · simp only [h2, if_true] at hq
                  injection hq with hq
                  subst hq
                  obtain ⟨k', hk', he⟩ := hd _ hsrc
                  injection he with he
                  subst he
                  exact absurd hk' hc.1
                · simp only [h2, if_false] at hq
                  exact hd q hq
        | _ => simp [safeRun] at hs
      | remove p =>
        simp only [safeRun] at hs
        apply ih T (apply d (Op.remove p)) hs
        intro q hq
        simp only [apply, Dir.set] at hq
        by_cases h1 : q = p
        · simp [h1] at hq
        · simp only [h1, if_false] at hq
          exact hd q hq


theorem safeRun_genTemps (off n : Nat) (f : Nat → Content) (hf : ∀ j, f j ≠ Content.trunc) :
    safeRun [] (genTemps off n f) = some [] := by
  induction n with
  | zero => simp [genTemps, safeRun]
  | succ n ih =>
    have : genTemps off (n + 1) f = genTemps off n f ++ [Op.create (.tmp (off + n)), Op.write (.tmp (off + n)) (f n)] := by
      simp [genTemps, List.range_succ, List.flatMap_append]
    rw [this, safeRun_append, ih]
    simp [safeRun, hf n]

theorem safeRun_tempOps (s : Scn) : safeRun [] (tempOps s) = some [] := by
  have h : tempOps s = genTemps 0 s.nNew (fun j => .newShard (s.base + j)) ++ genTemps s.nNew s.nSide (fun _ => .newMeta) := by
    simp [tempOps, genTemps]
  rw [h, safeRun_append, safeRun_genTemps _ _ _ (by intro j; simp)]
  simp [safeRun_genTemps _ _ _ (fun _ => by simp : ∀ j : Nat, (fun _ => Content.newMeta) j ≠ Content.trunc)]

theorem safeRun_renameLoop (fails : Nat → Bool) (ro : List (Path × Path)) (td : List Path) (a : Acc)
    (hro : ∀ x ∈ ro, (∃ k, x.1 = Path.tmp k) ∧ isTmp x.2 = false)
    (ha : safeRun [] (successOps a.log) = some []) :
    safeRun [] (successOps (renameLoop fails ro td a).2.log) = some [] := by
  induction ro generalizing td a with
  | nil => simpa [renameLoop] using ha
  | cons x rest ih =>
    obtain ⟨t, f⟩ := x
    simp only [renameLoop]
    apply ih _ _ (fun y hy => hro y (by simp [hy]))
    obtain ⟨⟨k, hk⟩, hf⟩ := hro (t, f) (by simp)
    simp only at hk hf
    subst hk
    rw [successOps_append, safeRun_append, ha]
    cases fails a.tick <;> simp [successOps, safeRun, hf]

theorem safeRun_deleteLoop (fails : Nat → Bool) (s : Scn) (dord : List Path) (a : Acc)
    (ha : safeRun [] (successOps a.log) = some []) :
    safeRun [] (successOps (deleteLoop fails s dord a).log) = some [] := by
  induction dord generalizing a with
  | nil => simpa [deleteLoop] using ha
  | cons p rest ih =>
    simp only [deleteLoop]
    split
    · split
      · exact ih _ ha
      · apply ih
        simp only [successOps_append, safeRun_append, ha, List.append_assoc]
        cases fails a.tick <;> cases fails (a.tick + 1) <;> simp [successOps, safeRun, isTmp]
    · apply ih
      rw [successOps_append, safeRun_append, ha]
      cases fails a.tick <;> simp [successOps, safeRun]

theorem oldDir_noTrunc (s : Scn) (p : Path) : oldDir s p ≠ some Content.trunc := by
  cases p <;> simp [oldDir] <;> split <;> simp

/-- at every crash point of every run every file with a non-temporary name is complete -/
theorem crash_noTrunc (s : Scn) (ro : List (Path × Path)) (hro : ro.Perm (artifacts s))
    (dord : List Path) (fails : Nat → Bool) (k : Nat) :
    NoTrunc (crashDir s ro dord fails k) := by
  have hsafe : safeRun [] (trace s ro dord fails) = some [] := by
    have hren : ∀ x ∈ ro, (∃ k, x.1 = Path.tmp k) ∧ isTmp x.2 = false := by
      intro x hx
      rcases (mem_artifacts s x).mp (hro.mem_iff.mp hx) with ⟨j, _, rfl⟩ | ⟨i, _, rfl⟩
      · exact ⟨⟨j, rfl⟩, rfl⟩
      · exact ⟨⟨_, rfl⟩, rfl⟩
    have h0 : safeRun [] (successOps ([] : List (Op × Bool))) = some [] := by simp [successOps, safeRun]
    simp only [trace, safeRun_append, safeRun_tempOps, Option.bind_some, finish]
    split
    · exact h0
    · split
      · exact safeRun_renameLoop _ _ _ _ hren h0
      · exact safeRun_deleteLoop _ _ _ _ (safeRun_renameLoop _ _ _ _ hren h0)
  exact safeRun_noTrunc _ [] [] (oldDir s) hsafe (fun p h => absurd h (oldDir_noTrunc s p)) k

end ZoektModel.C12
