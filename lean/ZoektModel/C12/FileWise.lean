/- C12 — at every crash point every visible file is exactly its old or exactly its new version -/
import ZoektModel.C12.Present
namespace ZoektModel.C12
set_option linter.unusedSimpArgs false

/-- every file with a non-temporary name holds exactly its old or exactly its new content -/
def FileWise (s : Scn) (d : Dir) : Prop :=
  ∀ p, (∀ k, p ≠ Path.tmp k) → d p = oldDir s p ∨ d p = newDir s p

theorem renameLoop_nofail (ro : List (Path × Path)) (td : List Path) (a : Acc) :
    (renameLoop (fun _ => false) ro td a).2.err = a.err := by
  induction ro generalizing td a with
  | nil => rfl
  | cons x rest ih => obtain ⟨t, f⟩ := x; simp only [renameLoop]; rw [ih]; simp

theorem deleteLoop_nofail (s : Scn) (dord : List Path) (a : Acc) :
    (deleteLoop (fun _ => false) s dord a).err = a.err := by
  induction dord generalizing a with
  | nil => rfl
  | cons p rest ih =>
    simp only [deleteLoop]
    split
    · split
      · exact ih a
      · rw [ih]; simp
    · rw [ih]; simp

theorem finish_nofail (s : Scn) (ro : List (Path × Path)) (dord : List Path) :
    (finish s ro dord (fun _ => false)).2 = false := by
  simp only [finish]
  split
  · rfl
  · rw [renameLoop_nofail]
    simp [deleteLoop_nofail, renameLoop_nofail]

theorem ro_ne_nil (s : Scn) (hwf : s.WF = true) (ro : List (Path × Path)) (hro : ro.Perm (artifacts s)) : ro ≠ [] := by
  intro h; subst h
  have hl := hro.length_eq
  simp [artifacts, Scn.nSide] at hl
  simp [Scn.WF] at hwf
  rcases hwf.2 with h | ⟨h3, h4⟩
  · omega
  · simp [h3] at hl; omega

/-- the new content of every final name is what its temp file holds -/
theorem artifact_new (s : Scn) (a : Path × Path) (ha : a ∈ artifacts s) : afterTemps s a.1 = newDir s a.2 := by
  rcases (mem_artifacts s a).mp ha with ⟨j, hj, rfl⟩ | ⟨i, hi, rfl⟩
  · by_cases hd : s.delta = true
    · have h1 : ¬ (s.nOld + j < s.nOld) := by omega
      have h2 : s.nOld + j < s.nOld + s.nNew := by omega
      simp [afterTemps, hj, newDir, Scn.base, hd, h1, h2]
    · simp [afterTemps, hj, newDir, Scn.base, hd]
  · have h1 : ¬ (s.nNew + i < s.nNew) := by omega
    have h2 : s.nNew + i < s.nNew + s.nSide := by omega
    by_cases hd : s.delta = true
    · simp [Scn.nSide, hd] at hi
      simp [afterTemps, h1, h2, newDir, hd, hi]
    · simp [Scn.nSide, hd] at hi

def K (s : Scn) (d : Dir) : Prop :=
  FileWise s d ∧ ∀ a ∈ artifacts s, d a.1 = none ∨ d a.1 = newDir s a.2

theorem K_afterTemps (s : Scn) : K s (afterTemps s) := by
  refine ⟨?_, fun a ha => Or.inr (artifact_new s a ha)⟩
  intro p hp
  left
  cases p with
  | tmp k => exact absurd rfl (hp k)
  | _ => rfl

theorem K_rename (s : Scn) (a : Path × Path) (ha : a ∈ artifacts s) (d : Dir) (hK : K s d) :
    K s (apply d (Op.rename a.1 a.2)) := by
  obtain ⟨hfw, hk2⟩ := hK
  have hsrc : ∃ k, a.1 = Path.tmp k := by
    rcases (mem_artifacts s a).mp ha with ⟨j, _, rfl⟩ | ⟨i, _, rfl⟩ <;> exact ⟨_, rfl⟩
  have hdst : ∀ k, a.2 ≠ Path.tmp k := by
    rcases (mem_artifacts s a).mp ha with ⟨j, _, rfl⟩ | ⟨i, _, rfl⟩ <;> simp
  obtain ⟨k, hk⟩ := hsrc
  simp only [apply]
  cases hs : d a.1 with
  | none => exact ⟨hfw, hk2⟩
  | some c =>
    have hnew : newDir s a.2 = some c := by
      rcases hk2 a ha with h | h
      · rw [hs] at h; simp at h
      · rw [← h, hs]
    refine ⟨?_, ?_⟩
    · intro p hp
      have hpt : p ≠ a.1 := by rw [hk]; exact hp k
      by_cases hpf : p = a.2
      · right; simp [Dir.set, hpt, hpf, hnew]; rw [← hpf] at hnew ⊢; simp [hpt, hnew]
      · simpa [Dir.set, hpt, hpf] using hfw p hp
    · intro b hb
      by_cases hbt : b.1 = a.1
      · left; simp [Dir.set, hbt]
      · have hbf : b.1 ≠ a.2 := by
          rcases (mem_artifacts s b).mp hb with ⟨j, _, rfl⟩ | ⟨i, _, rfl⟩ <;> exact fun h => hdst _ h.symm
        simpa [Dir.set, hbt, hbf] using hk2 b hb


theorem tmpOnly_fw (s : Scn) (ops : List Op)
    (h : ∀ op ∈ ops, (∃ k, op = Op.create (.tmp k)) ∨ (∃ k c, op = Op.write (.tmp k) c)) (d : Dir)
    (hd : ∀ p, (∀ k, p ≠ Path.tmp k) → d p = oldDir s p) (j : Nat) :
    ∀ p, (∀ k, p ≠ Path.tmp k) → applyAll d (ops.take j) p = oldDir s p := by
  apply prefix_inv (fun d => ∀ p, (∀ k, p ≠ Path.tmp k) → d p = oldDir s p) ops _ d hd j
  intro op hop d hd p hp
  rcases h op hop with ⟨k, rfl⟩ | ⟨k, c, rfl⟩
  · simp [apply, Dir.set, hp k, hd p hp]
  · simp [apply, Dir.set, hp k, hd p hp]

/-- what `toDelete` still holds after the renames has no place in the new index -/
theorem dord_new_none (s : Scn) (hsm : (s.compound && s.shardMerging) = false)
    (p : Path) (h1 : p ∈ toDelete0 s) (h2 : p ∉ (artifacts s).map (·.2)) : newDir s p = none := by
  unfold toDelete0 at h1
  split at h1
  · simp at h1
  · rename_i hdelta
    have hd : s.delta = false := by simpa using hdelta
    split at h1
    · rename_i hc
      have hsm' : s.shardMerging = false := by simpa [hc] using hsm
      have : p = Path.cshard ∨ p = Path.cmeta := by
        split at h1
        · simpa using h1
        · simp at h1; exact Or.inl h1
      rcases this with rfl | rfl <;> simp [newDir, hsm']
    · simp only [List.mem_append, List.mem_map, List.mem_range, List.mem_filter] at h1
      rcases h1 with ⟨i, hi, rfl⟩ | ⟨i, _, rfl⟩
      · have : ¬ (i < s.nNew) := by
          intro hlt
          exact h2 ((mem_dsts s _).mpr (Or.inl ⟨i, hlt, by simp [Scn.base, hd]⟩))
        simp [newDir, hd, this]
      · simp [newDir, hd]

theorem removes_fw (s : Scn) (l : List Path) (hl : ∀ p ∈ l, newDir s p = none) (d : Dir) (hd : FileWise s d) (j : Nat) :
    FileWise s (applyAll d ((l.map Op.remove).take j)) := by
  apply prefix_inv (FileWise s) _ _ d hd j
  intro op hop d hd p hp
  obtain ⟨q, hq, rfl⟩ := List.mem_map.mp hop
  by_cases hpq : p = q
  · right; subst hpq; simp [apply, Dir.set, hl p hq]
  · simpa [apply, Dir.set, hpq] using hd p hp

/-- **each visible file is exactly old or exactly new at every crash point** (no failures): whatever the scenario and
    the iteration orders, a crash leaves a directory in which every non-temporary file is either the file of the previous
    index or the file of the new index at that name — the mixture of C12_crash_full_false is a mixture of whole files. -/
theorem crash_filewise (s : Scn) (hwf : s.WF = true)
    (ro : List (Path × Path)) (hro : ro.Perm (artifacts s))
    (dord : List Path) (hd : dord.Perm (toDeleteAfter s ro)) (k : Nat) :
    FileWise s (crashDir s ro dord (fun _ => false) k) := by
  have htr := finish_ok_trace s ro dord (fun _ => false) (ro_ne_nil s hwf ro hro) (finish_nofail s ro dord)
  simp only [crashDir, htr]
  rw [List.take_append, applyAll_append]
  by_cases hk : k ≤ (tempOps s).length
  · have : k - (tempOps s).length = 0 := by omega
    rw [this]
    simp only [List.take_zero, applyAll, List.foldl_nil]
    intro p hp
    left
    exact tmpOnly_fw s (tempOps s) (by
      intro op hop
      rcases tempOps_Q1 s op hop with h | h | ⟨_, _, h⟩ | ⟨_, _, h⟩
      · exact Or.inl h
      · exact Or.inr h
      · simp [tempOps] at hop; rcases hop with ⟨_, _, h' | h'⟩ | ⟨_, _, h' | h'⟩ <;> simp [h'] at h
      · simp [tempOps] at hop; rcases hop with ⟨_, _, h' | h'⟩ | ⟨_, _, h' | h'⟩ <;> simp [h'] at h)
      (oldDir s) (fun _ _ => rfl) k p hp
  · rw [List.take_of_length_le (by omega), applyAll_tempOps]
    generalize k - (tempOps s).length = j
    -- renames
    have hRop : ∀ op ∈ renameOps ro, ∀ d, K s d → K s (apply d op) := by
      intro op hop d hK
      obtain ⟨a, ha, rfl⟩ := List.mem_map.mp hop
      exact K_rename s a (hro.mem_iff.mp ha) d hK
    rw [List.take_append, applyAll_append]
    by_cases hj : j ≤ (renameOps ro).length
    · have : j - (renameOps ro).length = 0 := by omega
      rw [this]
      simp only [List.take_zero, applyAll, List.foldl_nil]
      exact (prefix_inv (K s) _ hRop _ (K_afterTemps s) j).1
    · rw [List.take_of_length_le (by omega)]
      have hK1 : K s (applyAll (afterTemps s) (renameOps ro)) := full_inv (K s) _ hRop _ (K_afterTemps s)
      generalize j - (renameOps ro).length = i
      have hmd := mem_dord s ro hro dord hd
      cases hsm : (s.compound && s.shardMerging)
      · -- plain removals
        have hsimple : ∀ p ∈ dord, (s.shardMerging && isCompoundPath p) = false := by
          intro p hp
          cases hm : s.shardMerging
          · rfl
          · have hc : s.compound = false := by simpa [hm] using hsm
            have := ((hmd p).mp hp).1
            simp only [toDelete0, hc, Bool.false_eq_true, if_false] at this
            split at this
            · simp at this
            · simp only [List.mem_append, List.mem_map] at this
              rcases this with ⟨_, _, rfl⟩ | ⟨_, _, rfl⟩ <;> simp [isCompoundPath]
        rw [delOps_simple _ _ hsimple]
        exact removes_fw s dord (fun p hp => dord_new_none s hsm p ((hmd p).mp hp).1 ((hmd p).mp hp).2) _ hK1.1 i
      · -- SetTombstone on the compound shard
        simp only [Bool.and_eq_true] at hsm
        have hnd : dord.Nodup := by
          rw [hd.nodup_iff, toDeleteAfter, renameLoop_fst]
          exact eraseAll_nodup _ _ (toDelete0_nodup _)
        have hmem : ∀ p ∈ dord, p = Path.cshard ∨ p = Path.cmeta := by
          intro p hp
          have := ((hmd p).mp hp).1
          simp only [Scn.WF, Bool.and_eq_true, Bool.or_eq_true, decide_eq_true_eq] at hwf
          have hdl : s.delta = false := by
            have := hwf.1.1; simp [hsm.1] at this; simpa using this.2
          simp only [toDelete0, hdl, hsm.1, Bool.false_eq_true, if_false, if_true] at this
          split at this
          · simpa using this
          · simp at this; exact Or.inl this
        have hcs : Path.cshard ∈ dord := by
          simp only [Scn.WF, Bool.and_eq_true, Bool.or_eq_true, decide_eq_true_eq] at hwf
          have hdl : s.delta = false := by
            have := hwf.1.1; simp [hsm.1] at this; simpa using this.2
          refine (hmd _).mpr ⟨by simp [toDelete0, hdl, hsm.1], ?_⟩
          rw [mem_dsts]; simp
        rw [delOps_tomb s hsm.2 dord hnd hmem hcs]
        have hfw := hK1.1
        generalize applyAll (afterTemps s) (renameOps ro) = d1 at hfw ⊢
        intro p hp
        rcases i with _ | _ | _ | i
        · simpa [applyAll] using hfw p hp
        · simpa [applyAll, apply, Dir.set, hp s.tombTmp] using hfw p hp
        · simpa [applyAll, apply, Dir.set, hp s.tombTmp] using hfw p hp
        · simp only [List.take_succ_cons, List.take_nil, applyAll, List.foldl_cons, List.foldl_nil, apply, Dir.set,
            if_true]
          by_cases hpc : p = Path.cmeta
          · right; subst hpc; simp [newDir, hsm.1, hsm.2]
          · simpa [hpc, hp s.tombTmp] using hfw p hp


/-- operations on temp files only leave every non-temporary path as it was -/
theorem tmpOnly_same (ops : List Op)
    (h : ∀ op ∈ ops, (∃ k, op = Op.create (.tmp k)) ∨ (∃ k c, op = Op.write (.tmp k) c) ∨ (∃ k, op = Op.remove (.tmp k)))
    (d : Dir) (j : Nat) : ∀ p, (∀ k, p ≠ Path.tmp k) → applyAll d (ops.take j) p = d p := by
  apply prefix_inv (fun d' => ∀ p, (∀ k, p ≠ Path.tmp k) → d' p = d p) ops _ d (fun _ _ => rfl) j
  intro op hop d' hd p hp
  rcases h op hop with ⟨k, rfl⟩ | ⟨k, c, rfl⟩ | ⟨k, rfl⟩ <;> simp [apply, Dir.set, hp k, hd p hp]

theorem writeFailOps_tmpOnly (s : Scn) (j : Nat) :
    ∀ op ∈ writeFailOps s j,
      (∃ k, op = Op.create (.tmp k)) ∨ (∃ k c, op = Op.write (.tmp k) c) ∨ (∃ k, op = Op.remove (.tmp k)) := by
  intro op hop
  simp only [writeFailOps, List.mem_append] at hop
  rcases hop with (hop | hop) | hop
  · rcases tempOps_Q1 s op (List.mem_of_mem_take hop) with h | h | ⟨_, _, h⟩ | ⟨_, _, h⟩
    · exact Or.inl h
    · exact Or.inr (Or.inl h)
    · have := List.mem_of_mem_take hop
      simp [tempOps] at this; rcases this with ⟨_, _, h' | h'⟩ | ⟨_, _, h' | h'⟩ <;> simp [h'] at h
    · have := List.mem_of_mem_take hop
      simp [tempOps] at this; rcases this with ⟨_, _, h' | h'⟩ | ⟨_, _, h' | h'⟩ <;> simp [h'] at h
  · simp at hop; exact Or.inl ⟨j, hop⟩
  · split at hop
    · simp at hop; obtain ⟨i, _, rfl⟩ := hop; exact Or.inr (Or.inr ⟨i, rfl⟩)
    · simp at hop; exact Or.inr (Or.inr ⟨j, hop⟩)

/-- a failing temp-file write changes nothing a searcher can see, at any crash point of such a run -/
theorem writeFail_same (s : Scn) (j k : Nat) (p : Path) (hp : ∀ i, p ≠ Path.tmp i) :
    applyAll (oldDir s) ((writeFailOps s j).take k) p = oldDir s p :=
  tmpOnly_same _ (writeFailOps_tmpOnly s j) (oldDir s) k p hp

end ZoektModel.C12
