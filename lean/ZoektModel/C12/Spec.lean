/-
C12 — the property as executable predicates, written from the statement (not from `Finish`):
"a searcher that loads the index directory afterwards sees for that repository either exactly the previous
index or exactly the new one: never a truncated shard, a missing repository or a mixture of old and new shards.
A run that reports success has installed the complete new index."
-/
import ZoektModel.C12.Model
namespace ZoektModel.C12

/-- the complete new index of the scenario (independent of how `Finish` gets there):
    full build: exactly the new shards `0 … nNew-1`, no sidecars, the repository gone from (or tombstoned in) the
    compound shard; delta build: the old shards, each with the run's sidecar, followed by the new shards. -/
def newDir (s : Scn) : Dir
  | .shard n =>
    if s.delta then
      if n < s.nOld then some (.oldShard n) else if n < s.nOld + s.nNew then some (.newShard n) else none
    else if n < s.nNew then some (.newShard n) else none
  | .side n => if s.delta && decide (n < s.nOld) then some .newMeta else none
  | .tmp _ => none
  | .cshard => if s.compound && s.shardMerging then some .compOld else none
  | .cmeta => if s.compound && s.shardMerging then some .compMetaTomb else none

/-- two directories show the searcher the same index of the repository -/
def SameView (a b : Dir) : Prop := (∀ n, sview a n = sview b n) ∧ cview a = cview b

/-- the property at a crash point / after a fault -/
def OldOrNew (s : Scn) (d : Dir) : Prop := SameView d (oldDir s) ∨ SameView d (newDir s)

/-- no visible file is truncated: every non-temporary path holds a complete shard or sidecar -/
def NoTrunc (d : Dir) : Prop := ∀ p, (∀ k, p ≠ Path.tmp k) → d p ≠ some Content.trunc

/-- the repository has not disappeared -/
def Present (d : Dir) : Prop := (∃ n, (sview d n).isSome) ∨ cview d = true

/-- scenarios in which the visible state changes by a single rename:
    a full build of one shard over at most one old shard without sidecar, or a delta run with exactly one artifact
    (a metadata-only update of a one-shard index, or a first shard). -/
def atomic (s : Scn) : Bool :=
  (!s.delta && !s.compound && s.nNew == 1 && (s.oldMeta == [] || s.oldMeta == [false])) ||
  (s.delta && !s.compound && s.nNew + s.nOld == 1)

/-! ### executable versions, used by the driver on the implementation's directory listing -/

def bound (s : Scn) : Nat := s.nOld + s.nNew + 3

def sameViewB (b : Nat) (x y : Dir) : Bool :=
  (List.range b).all (fun n => sview x n == sview y n) && cview x == cview y

def visiblePaths (b : Nat) : List Path :=
  (List.range b).map Path.shard ++ (List.range b).map Path.side ++ [Path.cshard, Path.cmeta]

def noTruncB (b : Nat) (d : Dir) : Bool :=
  (visiblePaths b).all fun p => !(d p == some Content.trunc) && !(d p == some Content.other)

/-- some shard of the repository is visible -/
def presentB (b : Nat) (d : Dir) : Bool :=
  (List.range b).any (fun n => (sview d n).isSome) || cview d

def descr (s : Scn) : String :=
  (if s.compound then (if s.shardMerging then "compound" else "compound-nomerge") else if s.delta then "delta" else "full") ++
  ":" ++ toString s.nOld ++ "to" ++ toString s.nNew ++ (if s.oldMeta.any id || s.compMeta then "+meta" else "")

def classify (s : Scn) (d : Dir) : String :=
  if sameViewB (bound s) d (newDir s) then "new"
  else if sameViewB (bound s) d (oldDir s) then "old" else "mix"

/-- `none` = the property holds of this observation; `some key` = it fails, `key` names the failure class.
    `isEnd`: the run completed (else: a crash point); `resOk`: `Finish` returned nil; `faulted`: a fault was injected. -/
def checkP (s : Scn) (isEnd resOk faulted : Bool) (d : Dir) : Option String :=
  if !noTruncB (bound s) d then some ("truncated:" ++ descr s)
  else
    let isOld := sameViewB (bound s) d (oldDir s)
    let isNew := sameViewB (bound s) d (newDir s)
    if isEnd && resOk && !isNew then some ("false-success:" ++ descr s)
    else if !(isOld || isNew) && !presentB (bound s) d && presentB (bound s) (oldDir s) && presentB (bound s) (newDir s) then
      some ("missing:" ++ descr s)
    else if !(isOld || isNew) then
      some ((if isEnd && faulted then "fault-mix:" else "crash-mix:") ++
            (if atomic s then "atomic:" else "nonatomic:") ++ descr s)
    else none

end ZoektModel.C12
