import ZoektModel.Basic.Proto
import ZoektModel.C12.Spec
namespace ZoektModel.C12
open ZoektModel ZoektModel.Proto

/-! line protocol
  input : `run <delta> <compound> <compMeta> <shardMerging> <nNew> <oldMeta bits|-> <ro|-> <do|-> <fails|-> <k|end> <e2e>`
          `ro`  = final names in the order the implementation attempted the renames (`s0,m0,…`)
          `do`  = paths in the order the implementation worked through `toDelete` (`s1,m0,cs,cm`)
          `fails` = indices (0-based, over the fallible renames/removes in order) of the injected failures
          `k`   = number of rename/unlink system calls that had been issued when the directory was observed
          `e2e` = what a real searcher over the observed directory saw of the repository: `old`, `new` or `mix`
                  (harness oracle over search.NewDirectorySearcher); used to tie the model's loader view to the real loader:
                  whenever the model's view of the observed directory is `old` (`new`), the real searcher must see old (new).
                  The model's view is finer than the searcher's (it compares files, not documents), so the converse may fail.
  output: `ops=<trace> res=<ok|err|-> dir=<listing>`
-/

def showPath : Path → String
  | .shard n => s!"s{n}"
  | .side n => s!"m{n}"
  | .tmp k => s!"t{k}"
  | .cshard => "cs"
  | .cmeta => "cm"

def parsePath (t : String) : Option Path :=
  if t == "cs" then some .cshard
  else if t == "cm" then some .cmeta
  else
    let rest := (t.drop 1).toString
    match t.front, rest.toNat? with
    | 's', some n => some (.shard n)
    | 'm', some n => some (.side n)
    | 't', some n => some (.tmp n)
    | _, _ => none

def showContent : Content → String
  | .oldShard n => s!"O{n}"
  | .newShard n => s!"N{n}"
  | .oldMeta => "om"
  | .newMeta => "nm"
  | .compOld => "co"
  | .compMetaAlive => "ca"
  | .compMetaTomb => "ct"
  | .trunc => "pt"
  | .other => "xx"

def parseContent (t : String) : Option Content :=
  if t == "om" then some .oldMeta
  else if t == "nm" then some .newMeta
  else if t == "co" then some .compOld
  else if t == "ca" then some .compMetaAlive
  else if t == "ct" then some .compMetaTomb
  else if t == "pt" then some .trunc
  else if t == "xx" then some .other
  else
    let rest := (t.drop 1).toString
    match t.front, rest.toNat? with
    | 'O', some n => some (.oldShard n)
    | 'N', some n => some (.newShard n)
    | _, _ => none

def listPaths (s : Scn) : List Path :=
  let b := bound s
  (List.range b).map Path.shard ++ (List.range b).map Path.side ++
  (List.range (s.nNew + s.nSide + 2)).map Path.tmp ++ [Path.cshard, Path.cmeta]

def showDir (s : Scn) (d : Dir) : String :=
  let es := (listPaths s).filterMap fun p => (d p).map fun c => showPath p ++ "=" ++ showContent c
  if es.isEmpty then "-" else ";".intercalate es

def parseDir (t : String) : Option Dir :=
  if t == "-" then some (fun _ => none) else
  (t.splitOn ";").foldlM (init := (fun _ => none : Dir)) fun d e =>
    match e.splitOn "=" with
    | [p, c] => do
      let p ← parsePath p
      let c ← parseContent c
      pure (d.set p (some c))
    | _ => none

def showOp : Op × Bool → Option String
  | (.create p, _) => some ("c:" ++ showPath p)
  | (.write _ _, _) => none
  | (.rename a b, ok) => some ("r:" ++ showPath a ++ ">" ++ showPath b ++ (if ok then "+" else "!"))
  | (.remove p, ok) => some ("u:" ++ showPath p ++ (if ok then "+" else "!"))

def isSyscallRU : Op → Bool
  | .rename _ _ => true
  | .remove _ => true
  | _ => false

/-- entries up to and including the `k`-th rename/remove -/
def takeRU : Nat → List (Op × Bool) → List (Op × Bool)
  | 0, _ => []
  | _, [] => []
  | k + 1, e :: rest =>
    if isSyscallRU e.1 then
      (if k == 0 then [e] else e :: takeRU k rest)
    else e :: takeRU (k + 1) rest

/-- with k = 0 nothing of `Finish` has run, but the temp files of the shards exist already: keep leading non-RU entries -/
def takeRU0 (k : Nat) (l : List (Op × Bool)) : List (Op × Bool) :=
  if k == 0 then l.takeWhile (fun e => !isSyscallRU e.1) else takeRU k l

def parseBits (t : String) : Option (List Bool) :=
  if t == "-" then some [] else t.toList.mapM fun c => if c == '1' then some true else if c == '0' then some false else none

def parsePaths (t : String) : Option (List Path) :=
  if t == "-" then some [] else (t.splitOn ",").mapM parsePath

def isPermOf {α} [DecidableEq α] (a b : List α) : Bool :=
  a.length == b.length && a.all (fun x => a.count x == b.count x)

def handle (line : String) : String :=
  let (inp, impl) := splitCase line
  match fields inp with
  | ["run", d, c, cm, sm, n, om, ro, dor, fl, k, e2e] =>
    match bool? d, bool? c, bool? cm, bool? sm, n.toNat?, parseBits om, parsePaths ro, parsePaths dor, natList? fl with
    | some d, some c, some cm, some sm, some n, some om, some ro, some dor, some fl =>
      let s : Scn := ⟨d, c, cm, sm, n, om⟩
      if !s.WF then badCase "scenario not well-formed" else
      let arts := artifacts s
      let roPairs := ro.filterMap fun f => arts.find? (fun a => a.2 == f)
      let fails := fun t => fl.contains t
      let isEnd := k == "end"
      let kk := k.toNat?.getD 0
      -- trace inclusion: the observed orders must be orders `Finish` can produce
      let model :=
        if !(isPermOf (roPairs.map (·.2)) (arts.map (·.2)) && roPairs.length == ro.length) then
          "ops=REJECT:renames-are-not-the-artifacts"
        else if !isPermOf dor (if arts.isEmpty then [] else toDeleteAfter s roPairs) then
          "ops=REJECT:removals-are-not-toDelete"
        else
          let (log, err) := finish s roPairs dor fails
          let full := (tempOps s).map (fun o => (o, true)) ++ log
          let pre := if isEnd then full else takeRU0 kk full
          let dir := applyAll (oldDir s) (successOps pre)
          let ops := pre.filterMap showOp
          s!"ops={if ops.isEmpty then "-" else ",".intercalate ops} res={if isEnd then (if err then "err" else "ok") else "-"} dir={showDir s dir}"
      -- the property, evaluated on the implementation's observation
      match fields impl with
      | [_, ires, idir] =>
        if !(ires.startsWith "res=" && idir.startsWith "dir=") then badCase "impl fields" else
        match parseDir (idir.drop 4).toString with
        | none => badCase "impl dir"
        | some id =>
          let mv := classify s id
          if mv != "mix" && mv != e2e then specFail model ("loader-model:" ++ mv ++ "-but-searcher-sees-" ++ e2e) else
          match checkP s isEnd ((ires.drop 4).toString == "ok") (!fl.isEmpty) id with
          | some key => specFail model key
          | none => answer model
      | _ => badCase "impl output"
    | _, _, _, _, _, _, _, _, _ => badCase "fields"
  -- a run whose j-th temp-file write failed (write fault), observed at its end:
  -- `wfail <delta> <compound> <compMeta> <shardMerging> <nNew> <oldMeta> <j> <e2e>` → `ops=… res=err dir=…`
  | ["wfail", d, c, cm, sm, n, om, j, e2e] =>
    match bool? d, bool? c, bool? cm, bool? sm, n.toNat?, parseBits om, j.toNat? with
    | some d, some c, some cm, some sm, some n, some om, some j =>
      let s : Scn := ⟨d, c, cm, sm, n, om⟩
      if !s.WF then badCase "scenario not well-formed" else
      let model :=
        if j ≥ s.nNew + s.nSide then "ops=REJECT:no-such-temp-file"
        else
          let ops := writeFailOps s j
          let dir := applyAll (oldDir s) ops
          let shown := (ops.map fun o => (o, true)).filterMap showOp
          s!"ops={if shown.isEmpty then "-" else ",".intercalate shown} res=err dir={showDir s dir}"
      match fields impl with
      | [_, ires, idir] =>
        match parseDir (idir.drop 4).toString with
        | none => badCase "impl dir"
        | some id =>
          let mv := classify s id
          if mv != "mix" && mv != e2e then specFail model ("loader-model:" ++ mv ++ "-but-searcher-sees-" ++ e2e) else
          if (ires.drop 4).toString == "ok" then specFail model ("false-success:write-fault:" ++ descr s) else
          match checkP s true false true id with
          | some key => specFail model ("write-fault:" ++ key)
          | none =>
            -- a failed run that installed nothing must leave exactly the old index
            if mv != "old" && !(sameViewB (bound s) (oldDir s) (newDir s)) then specFail model ("write-fault-changed-index:" ++ descr s)
            else answer model
      | _ => badCase "impl output"
    | _, _, _, _, _, _, _ => badCase "wfail fields"
  -- an observation outside the model's traces (e.g. a kill in the middle of a file write): only the property is evaluated
  -- `obs <delta> <compound> <compMeta> <shardMerging> <nNew> <oldMeta> <isEnd> <resOk> <faulted> <dir> <e2e>` → `obs`
  | ["obs", d, c, cm, sm, n, om, ie, ro, fa, dir, e2e] =>
    match bool? d, bool? c, bool? cm, bool? sm, n.toNat?, parseBits om, bool? ie, bool? ro, bool? fa, parseDir dir with
    | some d, some c, some cm, some sm, some n, some om, some ie, some ro, some fa, some id =>
      let s : Scn := ⟨d, c, cm, sm, n, om⟩
      if !s.WF then badCase "scenario not well-formed" else
      let mv := classify s id
      if mv != "mix" && mv != e2e then specFail "obs" ("loader-model:" ++ mv ++ "-but-searcher-sees-" ++ e2e) else
      match checkP s ie ro fa id with
      | some key => specFail "obs" key
      | none => answer "obs"
    | _, _, _, _, _, _, _, _, _, _ => badCase "obs fields"
  | _ => badCase "op"

def main : IO Unit := runLines handle
end ZoektModel.C12
