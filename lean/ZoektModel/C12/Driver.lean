import ZoektModel.Basic.Proto
namespace ZoektModel.C12
/-- stub: no model driver for C12 yet -/
def main : IO Unit := ZoektModel.Proto.runLines (fun _ => ZoektModel.Proto.badCase "no model driver for C12")
end ZoektModel.C12
