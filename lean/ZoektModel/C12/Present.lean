/- C12 — "never a missing repository": at every crash point of every run the repository stays visible -/
import ZoektModel.C12.NoTrunc
namespace ZoektModel.C12
set_option linter.unusedSimpArgs false

theorem prefix_inv (I : Dir → Prop) (ops : List Op) (h : ∀ op ∈ ops, ∀ d, I d → I (apply d op)) (d : Dir) (hd : I d)
    (j : Nat) : I (applyAll d (ops.take j)) := by
  induction ops generalizing d j with
  | nil => simpa [applyAll] using hd
  | cons op rest ih =>
    cases j with
    | zero => simpa [applyAll] using hd
    | succ j =>
      simp only [List.take_succ_cons, applyAll, List.foldl_cons]
      exact ih (fun o ho => h o (by simp [ho])) _ (h op (by simp) d hd) j

theorem full_inv (I : Dir → Prop) (ops : List Op) (h : ∀ op ∈ ops, ∀ d, I d → I (apply d op)) (d : Dir) (hd : I d) :
    I (applyAll d ops) := by
  have := prefix_inv I ops h d hd ops.length
  simpa using this

/-- shard 0 is there, or the repository is visible through the compound shard -/
def P (d : Dir) : Prop := (d (.shard 0)).isSome = true ∨ cview d = true
def P0 (d : Dir) : Prop := (d (.shard 0)).isSome = true

/-- operations of the build and rename phases -/
def Q1 (op : Op) : Prop :=
  (∃ k, op = Op.create (.tmp k)) ∨ (∃ k c, op = Op.write (.tmp k) c) ∨
  (∃ k n, op = Op.rename (.tmp k) (.shard n)) ∨ (∃ k n, op = Op.rename (.tmp k) (.side n))

theorem Q1_P (op : Op) (h : Q1 op) (d : Dir) (hd : P d) : P (apply d op) := by
  rcases h with ⟨k, rfl⟩ | ⟨k, c, rfl⟩ | ⟨k, n, rfl⟩ | ⟨k, n, rfl⟩
  · simpa [P, apply, Dir.set, cview] using hd
  · simpa [P, apply, Dir.set, cview] using hd
  · simp only [apply]
    cases hs : d (.tmp k) with
    | none => simpa using hd
    | some c =>
      rcases hd with hd | hd
      · left
        by_cases hn : 0 = n
        · simp [Dir.set, hn]
        · simp [Dir.set, hn, hd]
      · right; simpa [cview, Dir.set] using hd
  · simp only [apply]
    cases hs : d (.tmp k) with
    | none => simpa using hd
    | some c =>
      rcases hd with hd | hd
      · left; simpa [Dir.set] using hd
      · right; simpa [cview, Dir.set] using hd

theorem tempOps_Q1 (s : Scn) : ∀ op ∈ tempOps s, Q1 op := by
  intro op hop
  simp only [tempOps, List.mem_append, List.mem_flatMap, List.mem_range] at hop
  rcases hop with ⟨j, _, h⟩ | ⟨i, _, h⟩
  · simp at h; rcases h with rfl | rfl
    · exact Or.inl ⟨_, rfl⟩
    · exact Or.inr (Or.inl ⟨_, _, rfl⟩)
  · simp at h; rcases h with rfl | rfl
    · exact Or.inl ⟨_, rfl⟩
    · exact Or.inr (Or.inl ⟨_, _, rfl⟩)

theorem renameLoop_Q1 (fails : Nat → Bool) (ro : List (Path × Path)) (td : List Path) (a : Acc)
    (hro : ∀ x ∈ ro, Q1 (Op.rename x.1 x.2)) (ha : ∀ op ∈ successOps a.log, Q1 op) :
    ∀ op ∈ successOps (renameLoop fails ro td a).2.log, Q1 op := by
  induction ro generalizing td a with
  | nil => simpa [renameLoop] using ha
  | cons x rest ih =>
    obtain ⟨t, f⟩ := x
    simp only [renameLoop]
    apply ih _ _ (fun y hy => hro y (by simp [hy]))
    intro op hop
    rw [successOps_append, List.mem_append] at hop
    rcases hop with hop | hop
    · exact ha op hop
    · cases hf : fails a.tick <;> simp [successOps, hf] at hop
      subst hop; exact hro (t, f) (by simp)

/-- operations of the `toDelete` loop -/
def Qdel (s : Scn) (dord : List Path) (op : Op) : Prop :=
  (∃ p, p ∈ dord ∧ op = Op.remove p) ∨ op = Op.create (.tmp s.tombTmp) ∨ (∃ c, op = Op.write (.tmp s.tombTmp) c) ∨
  op = Op.rename (.tmp s.tombTmp) .cmeta ∨ op = Op.remove (.tmp s.tombTmp)

theorem Qdel_P0 (s : Scn) (dord : List Path) (h0 : Path.shard 0 ∉ dord) (op : Op) (h : Qdel s dord op) (d : Dir)
    (hd : P0 d) : P0 (apply d op) := by
  rcases h with ⟨p, hp, rfl⟩ | rfl | ⟨c, rfl⟩ | rfl | rfl
  · have : Path.shard 0 ≠ p := fun h => h0 (h ▸ hp)
    simpa [P0, apply, Dir.set, this] using hd
  · simpa [P0, apply, Dir.set] using hd
  · simpa [P0, apply, Dir.set] using hd
  · simp only [apply]
    cases hs : d (.tmp s.tombTmp) with
    | none => simpa using hd
    | some c => simpa [P0, Dir.set] using hd
  · simpa [P0, apply, Dir.set] using hd

theorem deleteLoop_log (fails : Nat → Bool) (s : Scn) (dord : List Path) (a : Acc) :
    ∃ extra, (deleteLoop fails s dord a).log = a.log ++ extra ∧ ∀ e ∈ extra, Qdel s dord e.1 := by
  induction dord generalizing a with
  | nil => exact ⟨[], by simp [deleteLoop], by simp⟩
  | cons p rest ih =>
    have lift : ∀ e : Op × Bool, Qdel s rest e.1 → Qdel s (p :: rest) e.1 := by
      intro e h
      rcases h with ⟨q, hq, h⟩ | h | h | h | h
      · exact Or.inl ⟨q, by simp [hq], h⟩
      · exact Or.inr (Or.inl h)
      · exact Or.inr (Or.inr (Or.inl h))
      · exact Or.inr (Or.inr (Or.inr (Or.inl h)))
      · exact Or.inr (Or.inr (Or.inr (Or.inr h)))
    simp only [deleteLoop]
    split
    · split
      · obtain ⟨ex, h1, h2⟩ := ih a
        exact ⟨ex, h1, fun e he => lift e (h2 e he)⟩
      · obtain ⟨ex, h1, h2⟩ := ih ⟨a.tick + (if (!fails a.tick) = true then 1 else 2), a.err || !(!fails a.tick),
            a.log ++ [(Op.create (.tmp s.tombTmp), true), (Op.write (.tmp s.tombTmp) .compMetaTomb, true),
              (Op.rename (.tmp s.tombTmp) .cmeta, !fails a.tick)] ++
              (if (!fails a.tick) = true then [] else [(Op.remove (.tmp s.tombTmp), !fails (a.tick + 1))])⟩
        refine ⟨([(Op.create (.tmp s.tombTmp), true), (Op.write (.tmp s.tombTmp) .compMetaTomb, true),
              (Op.rename (.tmp s.tombTmp) .cmeta, !fails a.tick)] ++
              (if (!fails a.tick) = true then [] else [(Op.remove (.tmp s.tombTmp), !fails (a.tick + 1))])) ++ ex,
            by rw [h1]; simp only [List.append_assoc], ?_⟩
        intro e he
        rcases List.mem_append.mp he with he | he
        · rcases List.mem_append.mp he with he | he
          · simp only [List.mem_cons, List.not_mem_nil, or_false] at he
            rcases he with rfl | rfl | rfl
            · exact Or.inr (Or.inl rfl)
            · exact Or.inr (Or.inr (Or.inl ⟨_, rfl⟩))
            · exact Or.inr (Or.inr (Or.inr (Or.inl rfl)))
          · split at he
            · simp at he
            · simp at he; subst he; exact Or.inr (Or.inr (Or.inr (Or.inr rfl)))
        · exact lift e (h2 e he)
    · obtain ⟨ex, h1, h2⟩ := ih ⟨a.tick + 1, a.err || !(!fails a.tick), a.log ++ [(Op.remove p, !fails a.tick)]⟩
      refine ⟨[(Op.remove p, !fails a.tick)] ++ ex, by rw [h1]; simp only [List.append_assoc], ?_⟩
      intro e he
      rcases List.mem_append.mp he with he | he
      · simp at he; subst he; exact Or.inl ⟨p, by simp, rfl⟩
      · exact lift e (h2 e he)


theorem mem_successOps (log : List (Op × Bool)) (op : Op) : op ∈ successOps log ↔ (op, true) ∈ log := by
  simp only [successOps, List.mem_filterMap]
  constructor
  · rintro ⟨⟨o, b⟩, he, h⟩
    cases b <;> simp at h
    subst h; exact he
  · intro h; exact ⟨(op, true), h, by simp⟩

theorem P_present (d : Dir) (h : P d) : Present d := by
  rcases h with h | h
  · left; refine ⟨0, ?_⟩
    simp only [sview]
    cases hd : d (.shard 0) with
    | none => simp [hd] at h
    | some c => simp
  · right; exact h

/-- the repository never disappears: at every crash point of every run, with any failing renames/removals -/
theorem crash_present (s : Scn) (hwf : s.WF = true) (hold : 1 ≤ s.nOld ∨ s.compound = true)
    (ro : List (Path × Path)) (hro : ro.Perm (artifacts s))
    (dord : List Path) (hd : dord.Perm (toDeleteAfter s ro)) (fails : Nat → Bool) (k : Nat) :
    Present (crashDir s ro dord fails k) := by
  apply P_present
  have hPold : P (oldDir s) := by
    rcases hold with h | h
    · left; simp [oldDir]; omega
    · right; cases hcm : s.compMeta <;> simp [cview, oldDir, h, hcm]
  have hroQ : ∀ x ∈ ro, Q1 (Op.rename x.1 x.2) := by
    intro x hx
    rcases (mem_artifacts s x).mp (hro.mem_iff.mp hx) with ⟨j, _, rfl⟩ | ⟨i, _, rfl⟩
    · exact Or.inr (Or.inr (Or.inl ⟨_, _, rfl⟩))
    · exact Or.inr (Or.inr (Or.inr ⟨_, _, rfl⟩))
  have hX : ∀ op ∈ tempOps s ++ successOps (renameLoop fails ro (toDelete0 s) ⟨0, false, []⟩).2.log, Q1 op := by
    intro op hop
    rcases List.mem_append.mp hop with h | h
    · exact tempOps_Q1 s op h
    · exact renameLoop_Q1 fails ro _ _ hroQ (by simp [successOps]) op h
  simp only [crashDir, trace, finish]
  split
  · exact prefix_inv P _ (fun op hop => Q1_P op (tempOps_Q1 s op (by simpa [successOps] using hop))) _ hPold k
  · rename_i hne
    split
    · exact prefix_inv P _ (fun op hop => Q1_P op (hX op hop)) _ hPold k
    · rename_i herr
      have herr' : (renameLoop fails ro (toDelete0 s) ⟨0, false, []⟩).2.err = false := by
        cases h : (renameLoop fails ro (toDelete0 s) ⟨0, false, []⟩).2.err <;> simp_all
      obtain ⟨extra, hlog, hex⟩ := deleteLoop_log fails s dord (renameLoop fails ro (toDelete0 s) ⟨0, false, []⟩).2
      simp only [hlog, successOps_append, ← List.append_assoc]
      rw [List.take_append, applyAll_append]
      by_cases hk : k ≤ (tempOps s ++ successOps (renameLoop fails ro (toDelete0 s) ⟨0, false, []⟩).2.log).length
      · have : k - (tempOps s ++ successOps (renameLoop fails ro (toDelete0 s) ⟨0, false, []⟩).2.log).length = 0 := by omega
        rw [this]
        simp only [List.take_zero, applyAll, List.foldl_nil]
        exact prefix_inv P _ (fun op hop => Q1_P op (hX op hop)) _ hPold k
      · rw [List.take_of_length_le (by omega)]
        obtain ⟨_, h3⟩ := renameLoop_ok _ _ _ _ herr'
        have hd1 : applyAll (oldDir s) (tempOps s ++ successOps (renameLoop fails ro (toDelete0 s) ⟨0, false, []⟩).2.log)
            = afterRenames s ro := by
          rw [h3, applyAll_append, applyAll_tempOps]; simp [successOps, afterRenames]
        rw [hd1]
        obtain ⟨V1, _, _, V4, _⟩ := after_renames s ro hro
        have hmd := mem_dord s ro hro dord hd
        have h0 : P0 (afterRenames s ro) ∧ Path.shard 0 ∉ dord := by
          simp only [Scn.WF, Bool.and_eq_true, Bool.or_eq_true, decide_eq_true_eq] at hwf
          cases hdl : s.delta
          · have hn : 1 ≤ s.nNew := by
              rcases hwf.2 with h | ⟨h, _⟩
              · exact h
              · simp [hdl] at h
            have hb : s.base = 0 := by simp [Scn.base, hdl]
            have := V1 0 (by omega)
            rw [hb] at this
            refine ⟨by simp [P0, this], ?_⟩
            intro hin
            exact ((hmd _).mp hin).2 ((mem_dsts s _).mpr (Or.inl ⟨0, by omega, by simp [hb]⟩))
          · have hnc : s.compound = false := by
              cases hc : s.compound
              · rfl
              · have := hwf.1.1; simp [hc, hdl] at this
            have hno : 1 ≤ s.nOld := by
              rcases hold with h | h
              · exact h
              · simp [hnc] at h
            have hnf : Path.shard 0 ∉ (artifacts s).map (·.2) := by
              rw [mem_dsts]
              rintro (⟨j, _, h⟩ | ⟨i, _, h⟩)
              · simp [Scn.base, hdl] at h; omega
              · simp at h
            refine ⟨?_, ?_⟩
            · have := V4 (.shard 0) (by simp) hnf
              simp [P0, this, oldDir]; omega
            · intro hin
              have := ((hmd _).mp hin).1
              simp [toDelete0, hdl] at this
        apply Or.inl
        exact prefix_inv P0 _ (fun op hop => Qdel_P0 s dord h0.2 op (hex (op, true) ((mem_successOps _ _).mp hop))) _ h0.1 _


theorem final_present (s : Scn) (hwf : s.WF = true) (hold : 1 ≤ s.nOld ∨ s.compound = true)
    (ro : List (Path × Path)) (hro : ro.Perm (artifacts s))
    (dord : List Path) (hd : dord.Perm (toDeleteAfter s ro)) (fails : Nat → Bool) :
    Present (finalDir s ro dord fails) := by
  have := crash_present s hwf hold ro hro dord hd fails (trace s ro dord fails).length
  simpa [crashDir, finalDir] using this

end ZoektModel.C12
