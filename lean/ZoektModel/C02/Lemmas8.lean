/-
C02 — helper lemmas, part 8: composing the proved steps into the executable statement `checkP` of C02/Spec.lean for the
reporting pipeline `gatherMatches → fillMatches | fillChunkMatches`.
-/
import ZoektModel.C02.Lemmas7
import ZoektModel.C03.Lemmas8
namespace ZoektModel.C02
open ZoektModel ZoektModel.C03

theorem orderedDisjoint_of_pairwise (l : List Cand)
    (h : l.Pairwise (fun a b => a.off + a.sz ≤ b.off)) : orderedDisjoint (candsAsRanges l) = true := by
  induction l with
  | nil => rfl
  | cons a t ih =>
    cases t with
    | nil => rfl
    | cons b r =>
      rw [List.pairwise_cons] at h
      have hab := h.1 b (by simp)
      have := ih h.2
      simp only [candsAsRanges, List.map_cons, orderedDisjoint, RRange.stop] at this ⊢
      rw [this]
      simp only [Bool.and_true, Bool.and_eq_true, decide_eq_true_eq, Bool.or_eq_true, beq_iff_eq]
      refine ⟨decide_eq_true hab, ?_⟩
      by_cases h0 : a.off < b.off
      · exact Or.inl h0
      · exact Or.inr ⟨by omega, by omega⟩

theorem orderedDisjoint_append {l1 l2 : List RRange} (h : orderedDisjoint (l1 ++ l2) = true) :
    orderedDisjoint l1 = true ∧ orderedDisjoint l2 = true := by
  induction l1 with
  | nil => exact ⟨rfl, by simpa using h⟩
  | cons a t ih =>
    cases t with
    | nil =>
      refine ⟨rfl, ?_⟩
      cases l2 with
      | nil => rfl
      | cons b r =>
        simp only [List.cons_append, List.nil_append, orderedDisjoint, Bool.and_eq_true] at h
        exact h.2
    | cons b r =>
      simp only [List.cons_append, orderedDisjoint, Bool.and_eq_true] at h
      have := ih (by simpa using h.2)
      simp only [orderedDisjoint, Bool.and_eq_true]
      exact ⟨⟨h.1, this.1⟩, this.2⟩

theorem orderedDisjoint_groups (groups : List (List RRange)) (h : orderedDisjoint (groups.flatMap id) = true) :
    groups.all orderedDisjoint = true := by
  induction groups with
  | nil => rfl
  | cons g t ih =>
    simp only [List.flatMap_cons, id] at h
    have := orderedDisjoint_append h
    simp only [List.all_cons, Bool.and_eq_true]
    exact ⟨this.1, ih this.2⟩

/-- the ranges of content chunk matches, flattened -/
theorem rangesOfChunks_flat (cms : List ChunkMatch) (h : ∀ cm ∈ cms, cm.fileName = false) :
    (rangesOfChunks cms).flatMap id =
      (cms.flatMap (fun cm => cm.ranges.map (fun r => (r.start.byteOff, r.stop.byteOff)))).map
        (fun p => (⟨false, p.1, p.2 - p.1⟩ : RRange)) := by
  induction cms with
  | nil => rfl
  | cons cm t ih =>
    simp only [rangesOfChunks, List.map_cons, List.flatMap_cons, id, List.map_append, List.map_map]
    rw [show (List.map (fun cm => List.map (fun r => ({ fileName := cm.fileName, off := r.start.byteOff, len := r.stop.byteOff - r.start.byteOff } : RRange)) cm.ranges) t).flatMap id = (rangesOfChunks t).flatMap id from rfl,
      ih (fun c hc => h c (by simp [hc])), h cm (by simp)]
    rfl

theorem rangesOfLines_flat (lms : List LineMatch) (h : ∀ lm ∈ lms, lm.fileName = false) :
    (rangesOfLines lms).flatMap id =
      (lms.flatMap (fun lm => lm.frags.map (fun f => (f.off, f.len)))).map (fun p => (⟨false, p.1, p.2⟩ : RRange)) := by
  induction lms with
  | nil => rfl
  | cons lm t ih =>
    simp only [rangesOfLines, List.map_cons, List.flatMap_cons, id, List.map_append, List.map_map]
    rw [show (List.map (fun lm => List.map (fun f => ({ fileName := lm.fileName, off := f.off, len := f.len } : RRange)) lm.frags) t).flatMap id = (rangesOfLines t).flatMap id from rfl,
      ih (fun c hc => h c (by simp [hc])), h lm (by simp)]
    rfl


theorem gather_mem_cases (name : Bytes) (cands : List Cand) :
    ∀ c ∈ gatherCands name cands, c ∈ cands ∨ (cands = [] ∧ c = ⟨true, 0, name.length⟩) := by
  intro c hc
  by_cases hne : cands = []
  · subst hne
    simp only [gatherCands, List.length_nil, if_true, List.mem_singleton] at hc
    exact Or.inr ⟨rfl, hc⟩
  · have hlen : ¬ cands.length = 0 := by simpa using hne
    simp only [gatherCands, hlen, if_false] at hc
    exact Or.inl (mem_sortCands.mp ((overlapFilter_sublist _).subset hc))

/-- the general clauses of `checkP` for a list of groups whose flattening is the gathered candidates of one kind -/
theorem checkP_general (data name : Bytes) (cands : List Cand) (groups : List (List RRange)) (sel : List Cand)
    (hflat : groups.flatMap id = candsAsRanges sel)
    (hsel : ∀ c ∈ sel, c ∈ gatherCands name cands)
    (hkind : (∀ c ∈ sel, c.fileName = true) ∨ (∀ c ∈ sel, c.fileName = false))
    (hdis : sel.Pairwise (fun a b => a.off + a.sz ≤ b.off))
    (hb : ∀ c ∈ cands, c.off + c.sz ≤ (if c.fileName then name.length else data.length)) :
    checkP data name false .multi cands groups = true := by
  have hod := orderedDisjoint_of_pairwise sel hdis
  have g := gathered_of_gather data name cands hb
  unfold checkP
  simp only [hflat]
  rw [Bool.and_eq_true, Bool.and_eq_true, Bool.and_eq_true, Bool.and_eq_true]
  refine ⟨⟨⟨⟨?_, ?_⟩, ?_⟩, ?_⟩, rfl⟩
  · -- inside
    simp only [inside, candsAsRanges, List.all_map, List.all_eq_true, Function.comp, decide_eq_true_eq, RRange.stop]
    intro c hc
    exact decide_eq_true (g.inBounds c (hsel c hc))
  · apply orderedDisjoint_groups; rw [hflat]; exact hod
  · rcases hkind with hk | hk
    · have : (candsAsRanges sel).filter (fun r => !r.fileName) = [] := by
        rw [List.filter_eq_nil_iff]
        intro r hr
        simp only [candsAsRanges, List.mem_map] at hr
        obtain ⟨c, hc, rfl⟩ := hr
        simp [hk c hc]
      rw [this]; rfl
    · have : (candsAsRanges sel).filter (fun r => !r.fileName) = candsAsRanges sel := by
        rw [List.filter_eq_self]
        intro r hr
        simp only [candsAsRanges, List.mem_map] at hr
        obtain ⟨c, hc, rfl⟩ := hr
        simp [hk c hc]
      rw [this]; exact hod
  · simp only [candsAsRanges, List.all_map, List.all_eq_true, Function.comp, Bool.or_eq_true, Bool.and_eq_true,
      List.isEmpty_iff, decide_eq_true_eq]
    intro c hc
    rcases gather_mem_cases name cands c (hsel c hc) with h | ⟨h1, h2⟩
    · left
      simp only [matchedByAtom, Bool.false_and, Bool.false_eq_true, if_false, List.any_eq_true, Bool.and_eq_true,
        beq_iff_eq]
      exact ⟨c, h, rfl, rfl, rfl⟩
    · right
      subst h2
      exact ⟨h1, by simp⟩


/-- chunk mode with content candidates: all chunk matches are content matches and their ranges are, in order, the
    gathered content candidates -/
theorem fillChunk_content (data name : Bytes) (ctx : Nat) (ms : List Cand) (g : Gathered data name ms)
    (hc : ms.filter (fun c => !c.fileName) ≠ []) :
    (∀ cm ∈ fillChunkMatches data name ctx ms, cm.fileName = false) ∧
    (fillChunkMatches data name ctx ms).flatMap (fun cm => cm.ranges.map (fun r => (r.start.byteOff, r.stop.byteOff))) =
      (ms.filter (fun c => !c.fileName)).map (fun c => (c.off, c.off + c.sz)) := by
  have hlen : (ms.filter (fun c => !c.fileName)).length > 0 := List.length_pos_iff.mpr hc
  obtain ⟨hd, hb⟩ := g.content
  have hsorted : isSortedCands (ms.filter (fun c => !c.fileName)) = true :=
    isSortedCands_of_pairwise _ (g.sorted.filter _)
  have hspec := chunkCandidates_spec (wf_ofData data) ctx (ms.filter (fun c => !c.fileName)) hd
    (fun c h => (hb c h).2)
  obtain ⟨h1, _, _, h4⟩ := chunkMatches_ok data ctx _ {} hspec.1 hspec.2.1
  simp only [fillChunkMatches, hlen, if_true, fillContentChunkMatches, hsorted]
  exact ⟨fun cm hcm => (h1 cm hcm).1, by rw [h4, hspec.2.2]⟩

/-- the flattened groups of the chunk-mode report are the gathered candidates of the reported kind -/
theorem reportChunks_flat (data name : Bytes) (ctx : Nat) (cands : List Cand)
    (hb : ∀ c ∈ cands, c.off + c.sz ≤ (if c.fileName then name.length else data.length)) :
    ∃ sel, (rangesOfChunks (reportChunks data name ctx cands)).flatMap id = candsAsRanges sel ∧
      (∀ c ∈ sel, c ∈ gatherCands name cands) ∧
      ((∀ c ∈ sel, c.fileName = true) ∨ (∀ c ∈ sel, c.fileName = false)) ∧
      sel.Pairwise (fun a b => a.off + a.sz ≤ b.off) ∧
      sel.filter (fun c => !c.fileName) = (gatherCands name cands).filter (fun c => !c.fileName) := by
  have g := gathered_of_gather data name cands hb
  unfold reportChunks
  by_cases hc : (gatherCands name cands).filter (fun c => !c.fileName) = []
  · -- file-name chunk
    have hfn : ∀ c ∈ gatherCands name cands, c.fileName = true := by
      intro c hcm
      cases h : c.fileName with
      | true => rfl
      | false =>
        have : c ∈ (gatherCands name cands).filter (fun c => !c.fileName) := by simp [List.mem_filter, hcm, h]
        rw [hc] at this; simp at this
    refine ⟨gatherCands name cands, ?_, fun c h => h, Or.inl hfn, ?_, rfl⟩
    · simp only [fillChunkMatches, hc, List.length_nil, Nat.lt_irrefl, if_false, rangesOfChunks, fileNameChunk,
        List.map_cons, List.map_nil, List.flatMap_cons, List.flatMap_nil, List.append_nil, id, List.map_map,
        candsAsRanges]
      apply List.map_congr_left
      intro c hcm
      simp only [Function.comp, RRange.mk.injEq]
      exact ⟨(hfn c hcm).symm, trivial, by omega⟩
    · refine g.disjoint.imp_of_mem ?_
      intro a b ha hbm hab
      exact hab (by rw [hfn a ha, hfn b hbm])
  · obtain ⟨h1, h2⟩ := fillChunk_content data name ctx _ g hc
    obtain ⟨hd, hbb⟩ := g.content
    refine ⟨(gatherCands name cands).filter (fun c => !c.fileName), ?_, ?_, Or.inr (fun c h => (hbb c h).1), hd, ?_⟩
    · rw [rangesOfChunks_flat _ h1, h2, List.map_map]
      simp only [candsAsRanges]
      apply List.map_congr_left
      intro c hcm
      simp only [Function.comp, RRange.mk.injEq]
      exact ⟨((hbb c hcm).1).symm, trivial, by omega⟩
    · intro c hcm; exact (List.mem_filter.mp hcm).1
    · rw [List.filter_filter]; simp

/-- **C02 end to end, chunk mode, general clauses** -/
theorem C02_search_chunks' (data name : Bytes) (ctx : Nat) (cands : List Cand)
    (hb : ∀ c ∈ cands, c.off + c.sz ≤ (if c.fileName then name.length else data.length)) :
    checkP data name false .multi cands (rangesOfChunks (reportChunks data name ctx cands)) = true := by
  obtain ⟨sel, h1, h2, h3, h4, _⟩ := reportChunks_flat data name ctx cands hb
  exact checkP_general data name cands _ sel h1 h2 h3 h4 hb


/-- `checkP` = its general clauses and the clause of the query kind -/
theorem checkP_split (data name : Bytes) (lineMode : Bool) (kind : QKind) (cands : List Cand) (groups : List (List RRange)) :
    checkP data name lineMode kind cands groups =
      (checkP data name lineMode .multi cands groups &&
        (match kind with
         | .multi => true
         | .substr pat =>
           pat.isEmpty ||
           ((groups.flatMap id).filter (fun r => !r.fileName)).map (fun r => (r.off, r.len)) ==
             expectedSingle data lineMode ((leftmostOcc pat data 0 0).map fun o => (o, pat.length))
         | .occs =>
           ((groups.flatMap id).filter (fun r => !r.fileName)).map (fun r => (r.off, r.len)) ==
             expectedSingle data lineMode (greedyFrom 0 (cands.filter (fun c => !c.fileName) |>.map fun c => (c.off, c.sz)))
         | .regexp engine =>
           coverMask data.length ((((groups.flatMap id).filter (fun r => !r.fileName)).filter (fun r => r.len > 0)).map fun r => (r.off, r.len)) ==
             coverMask data.length (expectedSingle data lineMode (engine.filter (fun m => m.2 > 0))))) := by
  unfold checkP
  cases kind <;> simp

theorem isPrefixOf_length {pat l : Bytes} (h : pat.isPrefixOf l = true) : pat.length ≤ l.length := by
  rw [List.isPrefixOf_iff_prefix] at h
  exact h.length_le

/-- the candidates of a single content substring atom: every occurrence -/
def allOccurrences (pat data : Bytes) : List Cand := (occFrom pat data 0).map fun o => ⟨false, o, pat.length⟩

theorem allOccurrences_inBounds (pat data name : Bytes) (cands : List Cand) (hc : cands.Perm (allOccurrences pat data)) :
    ∀ c ∈ cands, c.off + c.sz ≤ (if c.fileName then name.length else data.length) := by
  intro c hcm
  have := hc.mem_iff.mp hcm
  simp only [allOccurrences, List.mem_map] at this
  obtain ⟨o, ho, rfl⟩ := this
  have := (mem_occFrom pat data 0 o).mp ho
  have hl := isPrefixOf_length this.2.2
  simp only [List.length_drop] at hl
  simp only [Bool.false_eq_true, if_false]
  omega


theorem pairwise_mem_cases {α} {R : α → α → Prop} {l : List α} (h : l.Pairwise R) {x y : α} (hx : x ∈ l) (hy : y ∈ l) :
    x = y ∨ R x y ∨ R y x := by
  induction l with
  | nil => simp at hx
  | cons a t ih =>
    rw [List.pairwise_cons] at h
    rcases List.mem_cons.mp hx with rfl | hx' <;> rcases List.mem_cons.mp hy with rfl | hy'
    · exact Or.inl rfl
    · exact Or.inr (Or.inl (h.1 y hy'))
    · exact Or.inr (Or.inr (h.1 x hx'))
    · exact ih h.2 hx' hy'

/-- the pieces of `breakOnNewlines` are maximal: each end is an end of the candidate or touches a newline byte -/
theorem break_maximal (text : Bytes) (cm : Cand) (hb : cm.off + cm.sz ≤ text.length) :
    ∀ r ∈ breakOnNewlines text cm,
      (r.off = cm.off ∨ text.getD (r.off - 1) 0 = 10) ∧ (r.off + r.sz = cm.off + cm.sz ∨ text.getD (r.off + r.sz) 0 = 10) := by
  intro r hr
  have hstruct := breakLoop_struct cm.fileName (cm.off + cm.sz) (text.drop cm.off) cm.off cm.off (Nat.le_refl _) (by omega)
  have hcov : ∀ p, covers (breakOnNewlines text cm) p ↔ cm.off ≤ p ∧ p < cm.off + cm.sz ∧ text.getD p 0 ≠ 10 := by
    intro p
    unfold breakOnNewlines
    rw [breakLoop_cover cm.fileName (cm.off + cm.sz) (text.drop cm.off) cm.off cm.off p (Nat.le_refl _) (by omega)
      (by simp; omega)]
    constructor
    · rintro (h | ⟨h1, h2, h3⟩)
      · omega
      · refine ⟨h1, h2, ?_⟩
        rw [getD_drop] at h3
        have e : cm.off + (p - cm.off) = p := by omega
        rwa [e] at h3
    · rintro ⟨h1, h2, h3⟩
      right
      refine ⟨h1, h2, ?_⟩
      rw [getD_drop]
      have e : cm.off + (p - cm.off) = p := by omega
      rwa [e]
  have hr' := hstruct.1 r hr
  constructor
  · by_cases h0 : r.off = cm.off
    · exact Or.inl h0
    · right
      apply Classical.byContradiction
      intro hne
      have hc := (hcov (r.off - 1)).mpr ⟨by omega, by omega, hne⟩
      obtain ⟨r2, hr2, h1, h2⟩ := hc
      rcases pairwise_mem_cases hstruct.2 hr2 hr with rfl | h | h
      · omega
      · omega
      · have := hstruct.1 r2 hr2; omega
  · by_cases h0 : r.off + r.sz = cm.off + cm.sz
    · exact Or.inl h0
    · right
      apply Classical.byContradiction
      intro hne
      have hc := (hcov (r.off + r.sz)).mpr ⟨by omega, by omega, hne⟩
      obtain ⟨r2, hr2, h1, h2⟩ := hc
      rcases pairwise_mem_cases hstruct.2 hr2 hr with rfl | h | h
      · omega
      · have := hstruct.1 r2 hr2; omega
      · omega

theorem slice_contains_false (data : Bytes) (a b : Nat) (h : ∀ p, a ≤ p → p < b → data.getD p 0 ≠ 10) :
    (Bytes.slice data a b).contains 10 = false := by
  rw [Bool.eq_false_iff]
  intro hc
  rw [List.contains_iff_mem, List.mem_iff_getElem?] at hc
  obtain ⟨i, hi⟩ := hc
  simp only [Bytes.slice] at hi
  rw [List.getElem?_take] at hi
  split at hi
  · rename_i hlt
    rw [List.getElem?_drop] at hi
    have := h (a + i) (by omega) (by omega)
    rw [List.getD_eq_getElem?_getD, hi] at this
    simp at this
  · simp at hi


/-- the general clauses of `checkP`, for either mode, from facts about the flattened groups -/
theorem checkP_general' (data name : Bytes) (lineMode : Bool) (cands : List Cand) (groups : List (List RRange))
    (sel : List Cand) (hflat : groups.flatMap id = candsAsRanges sel)
    (hin : ∀ c ∈ sel, c.off + c.sz ≤ (if c.fileName then name.length else data.length))
    (hkind : (∀ c ∈ sel, c.fileName = true) ∨ (∀ c ∈ sel, c.fileName = false))
    (hdis : sel.Pairwise (fun a b => a.off + a.sz ≤ b.off))
    (hmatch : ∀ c ∈ sel, matchedByAtom data lineMode cands ⟨c.fileName, c.off, c.sz⟩ = true ∨
      (cands = [] ∧ c = ⟨true, 0, name.length⟩)) :
    checkP data name lineMode .multi cands groups = true := by
  have hod := orderedDisjoint_of_pairwise sel hdis
  unfold checkP
  simp only [hflat]
  rw [Bool.and_eq_true, Bool.and_eq_true, Bool.and_eq_true, Bool.and_eq_true]
  refine ⟨⟨⟨⟨?_, ?_⟩, ?_⟩, ?_⟩, rfl⟩
  · simp only [inside, candsAsRanges, List.all_map, List.all_eq_true, Function.comp, decide_eq_true_eq, RRange.stop]
    intro c hc
    exact decide_eq_true (hin c hc)
  · apply orderedDisjoint_groups; rw [hflat]; exact hod
  · rcases hkind with hk | hk
    · have : (candsAsRanges sel).filter (fun r => !r.fileName) = [] := by
        rw [List.filter_eq_nil_iff]
        intro r hr
        simp only [candsAsRanges, List.mem_map] at hr
        obtain ⟨c, hc, rfl⟩ := hr
        simp [hk c hc]
      rw [this]; rfl
    · have : (candsAsRanges sel).filter (fun r => !r.fileName) = candsAsRanges sel := by
        rw [List.filter_eq_self]
        intro r hr
        simp only [candsAsRanges, List.mem_map] at hr
        obtain ⟨c, hc, rfl⟩ := hr
        simp [hk c hc]
      rw [this]; exact hod
  · simp only [candsAsRanges, List.all_map, List.all_eq_true, Function.comp, Bool.or_eq_true, Bool.and_eq_true,
      List.isEmpty_iff, decide_eq_true_eq]
    intro c hc
    rcases hmatch c hc with h | ⟨h1, h2⟩
    · exact Or.inl h
    · right
      subst h2
      exact ⟨h1, by simp⟩

/-- line mode: the line matches reported, flattened -/
theorem reportLines_flat (data name : Bytes) (ctx : Nat) (cands : List Cand)
    (hb : ∀ c ∈ cands, c.off + c.sz ≤ (if c.fileName then name.length else data.length)) :
    ∃ lms sel, reportLines data name ctx cands = some lms ∧
      (rangesOfLines lms).flatMap id = candsAsRanges sel ∧
      (((gatherCands name cands).filter (fun c => !c.fileName) = [] ∧ sel = gatherCands name cands ∧
          ∀ c ∈ sel, c.fileName = true) ∨
       (sel = breakMatchesOnNewlines data ((gatherCands name cands).filter (fun c => !c.fileName)) ∧
          ∀ c ∈ sel, c.fileName = false)) := by
  have g := gathered_of_gather data name cands hb
  unfold reportLines
  by_cases hc : (gatherCands name cands).filter (fun c => !c.fileName) = []
  · have hfn : ∀ c ∈ gatherCands name cands, c.fileName = true := by
      intro c hcm
      cases h : c.fileName with
      | true => rfl
      | false =>
        have : c ∈ (gatherCands name cands).filter (fun c => !c.fileName) := by simp [List.mem_filter, hcm, h]
        rw [hc] at this; simp at this
    refine ⟨[fileNameLine name (gatherCands name cands)], gatherCands name cands, by simp [fillMatches, hc], ?_,
      Or.inl ⟨hc, rfl, hfn⟩⟩
    simp only [rangesOfLines, fileNameLine, List.map_cons, List.map_nil, List.flatMap_cons, List.flatMap_nil,
      List.append_nil, id, List.map_map, candsAsRanges]
    apply List.map_congr_left
    intro c hcm
    simp only [Function.comp, RRange.mk.injEq]
    exact ⟨(hfn c hcm).symm, trivial, trivial⟩
  · have hlen : ((gatherCands name cands).filter (fun c => !c.fileName)).length > 0 := List.length_pos_iff.mpr hc
    obtain ⟨hd, hbb⟩ := g.content
    have pre := linePre_break data _ hd (fun c h => (hbb c h).2)
    obtain ⟨lms, h1, h2, h3⟩ := fill_lines_ok data ctx _ _ (Nat.le_refl _) pre
    have hfalse : ∀ c ∈ breakMatchesOnNewlines data ((gatherCands name cands).filter (fun c => !c.fileName)), c.fileName = false := by
      intro c hcm
      simp only [breakMatchesOnNewlines, List.mem_flatMap] at hcm
      obtain ⟨a, ha, hca⟩ := hcm
      have := (breakLoop_struct a.fileName (a.off + a.sz) (data.drop a.off) a.off a.off (Nat.le_refl _) (by omega)).1 c hca
      rw [this.1]; exact (hbb a ha).1
    refine ⟨lms, _, by simp only [fillMatches, hlen, if_true]; exact h1, ?_, Or.inr ⟨rfl, hfalse⟩⟩
    rw [rangesOfLines_flat lms (fun lm hlm => (h2 lm hlm).2.2), h3, List.map_map]
    simp only [candsAsRanges]
    apply List.map_congr_left
    intro c hcm
    simp only [Function.comp, RRange.mk.injEq]
    exact ⟨(hfalse c hcm).symm, trivial, trivial⟩


/-- **C02 end to end, line mode, general clauses**: the search reports line matches whose fragments lie inside the
    content (or name), are ordered and disjoint, and each of which is a maximal newline-free piece of a match of a
    positive atom (or, on the file name, a match of an atom / the whole-name fallback). -/
theorem C02_search_lines' (data name : Bytes) (ctx : Nat) (cands : List Cand)
    (hb : ∀ c ∈ cands, c.off + c.sz ≤ (if c.fileName then name.length else data.length)) :
    ∃ lms, reportLines data name ctx cands = some lms ∧
      checkP data name true .multi cands (rangesOfLines lms) = true := by
  have g := gathered_of_gather data name cands hb
  obtain ⟨lms, sel, h1, h2, h3⟩ := reportLines_flat data name ctx cands hb
  refine ⟨lms, h1, ?_⟩
  rcases h3 with ⟨_, rfl, hfn⟩ | ⟨rfl, hfalse⟩
  · apply checkP_general' data name true cands _ _ h2 g.inBounds (Or.inl hfn)
    · refine g.disjoint.imp_of_mem ?_
      intro a b ha hbm hab
      exact hab (by rw [hfn a ha, hfn b hbm])
    · intro c hc
      rcases gather_mem_cases name cands c hc with h | h
      · left
        simp only [matchedByAtom, hfn c hc, Bool.not_true, Bool.and_false, Bool.false_eq_true, if_false,
          List.any_eq_true, Bool.and_eq_true, beq_iff_eq]
        exact ⟨c, h, hfn c hc, rfl, rfl⟩
      · exact Or.inr h
  · obtain ⟨hd, hbb⟩ := g.content
    have pre := linePre_break data _ hd (fun c h => (hbb c h).2)
    apply checkP_general' data name true cands _ _ h2 _ (Or.inr hfalse) pre.1
    · intro c hc
      left
      have hcf := hfalse c hc
      have hcpre := pre.2 c hc
      simp only [breakMatchesOnNewlines, List.mem_flatMap] at hc
      obtain ⟨a, ha, hca⟩ := hc
      have haf := (hbb a ha).1
      have hab := (hbb a ha).2
      have hacands : a ∈ cands := by
        rcases gather_mem_cases name cands a (List.mem_filter.mp ha).1 with h | ⟨_, h⟩
        · exact h
        · rw [h] at haf; simp at haf
      have hs := (breakLoop_struct a.fileName (a.off + a.sz) (data.drop a.off) a.off a.off (Nat.le_refl _) (by omega)).1 c hca
      have hmax := break_maximal data a hab c hca
      simp only [matchedByAtom, hcf, Bool.not_false, Bool.and_self, if_true, List.any_eq_true, Bool.and_eq_true,
        beq_iff_eq]
      refine ⟨a, hacands, haf, ?_⟩
      simp only [isLinePiece, Cand.stop, RRange.stop, Bool.and_eq_true, decide_eq_true_eq, Bool.not_eq_true',
        Bool.or_eq_true, beq_iff_eq]
      refine ⟨⟨⟨⟨⟨hs.2.2.1, decide_eq_true hs.2.2.2⟩, hs.2.1⟩, slice_contains_false data _ _ hcpre.2.2⟩, ?_⟩, ?_⟩
      · rcases hmax.1 with h | h
        · exact Or.inl h
        · exact Or.inr h
      · rcases hmax.2 with h | h
        · exact Or.inl h
        · exact Or.inr h
    · intro c hc
      have := pre.2 c hc
      simp only [hfalse c hc, Bool.false_eq_true, if_false]
      exact this.2.1


theorem gatherCands_ne_nil (name : Bytes) (cands : List Cand) : gatherCands name cands ≠ [] := by
  unfold gatherCands
  split
  · simp
  · rename_i h
    have hl := (sortCands_perm cands).length_eq
    cases hs : sortCands cands with
    | nil => rw [hs] at hl; simp at hl; omega
    | cons c r => simp [overlapFilter]

theorem flatMap_congr' {α β} {l : List α} {f g : α → List β} (h : ∀ a ∈ l, f a = g a) : l.flatMap f = l.flatMap g := by
  induction l with
  | nil => rfl
  | cons a t ih =>
    simp only [List.flatMap_cons]
    rw [h a (by simp), ih (fun x hx => h x (by simp [hx]))]


end ZoektModel.C02
