/-
C02 — helper lemmas, part 7: breakOnNewlines = the specification's cut; maximality of the pieces.
-/
import ZoektModel.C02.Lemmas6
namespace ZoektModel.C02
open ZoektModel ZoektModel.C03

theorem piece_map (fn : Bool) (a b : Nat) :
    (if b - a ≠ 0 then [(⟨fn, a, b - a⟩ : Cand)] else []).map (fun c => (c.off, c.sz)) =
      if b > a then [(a, b - a)] else [] := by
  by_cases h : b > a
  · have : b - a ≠ 0 := by omega
    simp [h, this]
  · have : ¬ b - a ≠ 0 := by omega
    simp [h, this]

theorem breakLoop_eq_go (fn : Bool) (stop : Nat) (bytes : Bytes) : ∀ (i start : Nat), i ≤ stop → stop ≤ i + bytes.length →
    (breakLoop fn stop bytes i start).map (fun c => (c.off, c.sz)) = cutAtNL.go bytes (stop - i) start i := by
  induction bytes with
  | nil =>
    intro i start h1 h2
    simp only [List.length_nil, Nat.add_zero] at h2
    have : stop = i := by omega
    subst this
    simp only [breakLoop, Nat.sub_self, cutAtNL.go]
    exact piece_map fn start stop
  | cons b rest ih =>
    intro i start h1 h2
    simp only [List.length_cons] at h2
    by_cases hge : i ≥ stop
    · have : stop = i := by omega
      subst this
      simp only [breakLoop, ge_iff_le, Nat.le_refl, if_true, Nat.sub_self, cutAtNL.go]
      exact piece_map fn start stop
    · have e : stop - i = (stop - (i + 1)) + 1 := by omega
      rw [e]
      simp only [breakLoop, hge, if_false, cutAtNL.go]
      by_cases hb : b = 10
      · simp only [hb, if_true, List.map_append]
        rw [ih (i + 1) (i + 1) (by omega) (by omega), piece_map]
      · simp only [hb, if_false]
        exact ih (i + 1) start (by omega) (by omega)

/-- **the model's `breakOnNewlines` is the specification's cut at newline bytes** -/
theorem breakOnNewlines_eq_cut (text : Bytes) (cm : Cand) (hb : cm.off + cm.sz ≤ text.length) :
    (breakOnNewlines text cm).map (fun c => (c.off, c.sz)) = cutAtNL text cm.off cm.sz := by
  unfold breakOnNewlines cutAtNL
  have := breakLoop_eq_go cm.fileName (cm.off + cm.sz) (text.drop cm.off) cm.off cm.off (by omega) (by simp; omega)
  have e : cm.off + cm.sz - cm.off = cm.sz := by omega
  rw [e] at this
  exact this

end ZoektModel.C02
