/-
C02 — helper lemmas, part 3: breakOnNewlines.
-/
import ZoektModel.C02.Lemmas2
namespace ZoektModel.C02
open ZoektModel ZoektModel.C03

/-- byte position `p` lies in one of the candidates -/
def covers (l : List Cand) (p : Nat) : Prop := ∃ c ∈ l, c.off ≤ p ∧ p < c.off + c.sz

theorem covers_nil (p : Nat) : ¬ covers [] p := by simp [covers]

theorem covers_append (l1 l2 : List Cand) (p : Nat) : covers (l1 ++ l2) p ↔ covers l1 p ∨ covers l2 p := by
  simp only [covers, List.mem_append]
  constructor
  · rintro ⟨c, hc | hc, h⟩
    · exact Or.inl ⟨c, hc, h⟩
    · exact Or.inr ⟨c, hc, h⟩
  · rintro (⟨c, hc, h⟩ | ⟨c, hc, h⟩)
    · exact ⟨c, Or.inl hc, h⟩
    · exact ⟨c, Or.inr hc, h⟩

theorem covers_piece (fn : Bool) (a b p : Nat) :
    covers (if b - a ≠ 0 then [(⟨fn, a, b - a⟩ : Cand)] else []) p ↔ a ≤ p ∧ p < b := by
  unfold covers
  split
  · constructor
    · rintro ⟨c, hc, h1, h2⟩
      rw [List.mem_singleton] at hc
      subst hc
      simp only at h1 h2
      omega
    · intro hp
      exact ⟨_, List.mem_singleton.mpr rfl, by simp only; omega, by simp only; omega⟩
  · constructor
    · rintro ⟨c, hc, _⟩; simp at hc
    · intro hp; omega

theorem piece_struct (fn : Bool) (a b lo hi : Nat) (hlo : lo ≤ a) (hhi : b ≤ hi) :
    ∀ c ∈ (if b - a ≠ 0 then [(⟨fn, a, b - a⟩ : Cand)] else []),
      c.fileName = fn ∧ 0 < c.sz ∧ lo ≤ c.off ∧ c.off + c.sz ≤ hi := by
  intro c hc
  split at hc
  · rw [List.mem_singleton] at hc; subst hc
    exact ⟨rfl, by simp only; omega, by simp only; omega, by simp only; omega⟩
  · simp at hc

theorem piece_pairwise (fn : Bool) (a b : Nat) :
    (if b - a ≠ 0 then [(⟨fn, a, b - a⟩ : Cand)] else []).Pairwise (fun x y => x.off + x.sz < y.off) := by
  split <;> simp

/-- the bytes the pieces of `breakLoop` cover: the pending piece `[start, i)` and every non-newline byte of `[i, stop)` -/
theorem breakLoop_cover (fn : Bool) (stop : Nat) (bytes : Bytes) (i start p : Nat)
    (h1 : start ≤ i) (h2 : i ≤ stop) (h3 : stop ≤ i + bytes.length) :
    covers (breakLoop fn stop bytes i start) p ↔
      (start ≤ p ∧ p < i) ∨ (i ≤ p ∧ p < stop ∧ bytes.getD (p - i) 0 ≠ 10) := by
  induction bytes generalizing i start with
  | nil =>
    simp only [List.length_nil, Nat.add_zero] at h3
    have : stop = i := by omega
    subst this
    simp only [breakLoop]
    rw [covers_piece]
    constructor
    · intro h; exact Or.inl h
    · rintro (h | h)
      · exact h
      · omega
  | cons b rest ih =>
    simp only [breakLoop]
    by_cases hge : i ≥ stop
    · have : stop = i := by omega
      subst this
      simp only [ge_iff_le, Nat.le_refl, if_true]
      rw [covers_piece]
      constructor
      · intro h; exact Or.inl h
      · rintro (h | h)
        · exact h
        · omega
    · simp only [hge, if_false]
      simp only [List.length_cons] at h3
      by_cases hb : b = 10
      · simp only [hb, if_true]
        rw [covers_append, covers_piece, ih (i + 1) (i + 1) (Nat.le_refl _) (by omega) (by omega)]
        constructor
        · rintro (h | h | ⟨h4, h5, h6⟩)
          · exact Or.inl h
          · omega
          · right
            refine ⟨by omega, h5, ?_⟩
            have e : p - i = (p - (i + 1)) + 1 := by omega
            rw [e, List.getD_cons_succ]; exact h6
        · rintro (h | ⟨h4, h5, h6⟩)
          · exact Or.inl h
          · by_cases hpi : p = i
            · subst hpi; simp at h6
            · right; right
              refine ⟨by omega, h5, ?_⟩
              have e : p - i = (p - (i + 1)) + 1 := by omega
              rw [e, List.getD_cons_succ] at h6; exact h6
      · simp only [hb, if_false]
        rw [ih (i + 1) start (by omega) (by omega) (by omega)]
        constructor
        · rintro (h | ⟨h4, h5, h6⟩)
          · by_cases hpi : p = i
            · subst hpi; right; exact ⟨Nat.le_refl _, by omega, by simpa using hb⟩
            · left; omega
          · right
            refine ⟨by omega, h5, ?_⟩
            have e : p - i = (p - (i + 1)) + 1 := by omega
            rw [e, List.getD_cons_succ]; exact h6
        · rintro (h | ⟨h4, h5, h6⟩)
          · left; omega
          · by_cases hpi : p = i
            · left; omega
            · right
              refine ⟨by omega, h5, ?_⟩
              have e : p - i = (p - (i + 1)) + 1 := by omega
              rw [e, List.getD_cons_succ] at h6; exact h6

/-- shape of the pieces: kind kept, non-empty, inside `[start, stop)`, in increasing order, separated by at least one byte -/
theorem breakLoop_struct (fn : Bool) (stop : Nat) (bytes : Bytes) (i start : Nat) (h1 : start ≤ i) (h2 : i ≤ stop) :
    (∀ c ∈ breakLoop fn stop bytes i start, c.fileName = fn ∧ 0 < c.sz ∧ start ≤ c.off ∧ c.off + c.sz ≤ stop) ∧
    (breakLoop fn stop bytes i start).Pairwise (fun a b => a.off + a.sz < b.off) := by
  induction bytes generalizing i start with
  | nil =>
    simp only [breakLoop]
    exact ⟨piece_struct fn start stop start stop (Nat.le_refl _) (Nat.le_refl _), piece_pairwise fn start stop⟩
  | cons b rest ih =>
    simp only [breakLoop]
    by_cases hge : i ≥ stop
    · simp only [hge, if_true]
      exact ⟨piece_struct fn start stop start stop (Nat.le_refl _) (Nat.le_refl _), piece_pairwise fn start stop⟩
    · simp only [hge, if_false]
      by_cases hb : b = 10
      · simp only [hb, if_true]
        obtain ⟨a1, a2⟩ := ih (i + 1) (i + 1) (Nat.le_refl _) (by omega)
        have p1 := piece_struct fn start i start i (Nat.le_refl _) (Nat.le_refl _)
        constructor
        · intro c hc
          rcases List.mem_append.mp hc with hc | hc
          · have := p1 c hc
            exact ⟨this.1, this.2.1, this.2.2.1, by omega⟩
          · have := a1 c hc
            exact ⟨this.1, this.2.1, by omega, this.2.2.2⟩
        · rw [List.pairwise_append]
          refine ⟨piece_pairwise fn start i, a2, ?_⟩
          intro x hx y hy
          have := p1 x hx
          have := a1 y hy
          omega
      · simp only [hb, if_false]
        exact ih (i + 1) start (by omega) (by omega)

theorem getD_drop (l : Bytes) (a k : Nat) : (l.drop a).getD k 0 = l.getD (a + k) 0 := by
  simp [List.getD_eq_getElem?_getD, List.getElem?_drop]

end ZoektModel.C02
