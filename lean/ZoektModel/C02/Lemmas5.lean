/-
C02 — helper lemmas, part 5: walking runes (`advance`), clean concatenation of documents, the builder's sampling.
-/
import ZoektModel.C02.Lemmas4
import ZoektModel.C03.Utf8Lemmas
namespace ZoektModel.C02
open ZoektModel ZoektModel.C03

theorem advance_succ (n : Nat) (d : Bytes) : advance (n + 1) d = runeSize d + advance n (d.drop (runeSize d)) := rfl

theorem advance_nil (n : Nat) : advance n [] = 0 := by
  induction n with
  | zero => rfl
  | succ n ih => simp [advance_succ, runeSize, ih]

theorem advance_le (n : Nat) (d : Bytes) : advance n d ≤ d.length ∧ advance n d ≤ 4 * n := by
  induction n generalizing d with
  | zero => simp [advance]
  | succ n ih =>
    rw [advance_succ]
    have := runeSize_bounds d
    have := ih (d.drop (runeSize d))
    simp only [List.length_drop] at this
    omega

theorem advance_add (a b : Nat) (d : Bytes) : advance (a + b) d = advance a d + advance b (d.drop (advance a d)) := by
  induction a generalizing d with
  | zero => simp [advance]
  | succ a ih =>
    have e : a + 1 + b = (a + b) + 1 := by omega
    rw [e, advance_succ, advance_succ, ih, List.drop_drop]
    omega

/-- walking `n` runes only needs the next `4 n` bytes -/
theorem advance_take (n m : Nat) (d : Bytes) (h : 4 * n ≤ m) : advance n (d.take m) = advance n d := by
  induction n generalizing d m with
  | zero => rfl
  | succ n ih =>
    have hb := runeSize_bounds d
    rw [advance_succ, advance_succ, runeSize_take d m (by omega), List.drop_take, ih _ _ (by omega)]

theorem isBoundary_advance (n : Nat) (d : Bytes) : IsBoundary d (advance n d) := by
  induction n generalizing d with
  | zero => exact IsBoundary.zero d
  | succ n ih =>
    rw [advance_succ]
    by_cases hd : d = []
    · subst hd; simp [runeSize, advance_nil]; exact IsBoundary.zero _
    · exact IsBoundary.step d _ hd (ih _)

/-- `k` is the `runeCount (d.take k)`-th boundary -/
theorem advance_runeCount_take {d : Bytes} {k : Nat} (h : IsBoundary d k) : advance (runeCount (d.take k)) d = k := by
  induction h with
  | zero d => simp [runeCount_nil, advance]
  | step d k hne _ ih =>
    have hs := runeSize_pos hne
    have hk : d.take (runeSize d + k) ≠ [] := by
      cases d with
      | nil => exact absurd rfl hne
      | cons b r =>
        have : runeSize (b :: r) + k = (runeSize (b :: r) + k - 1) + 1 := by omega
        rw [this]; simp
    rw [runeCount_step _ hk, runeSize_take d _ (by omega), List.drop_take]
    have e : runeSize d + k - runeSize d = k := by omega
    rw [e, Nat.add_comm 1, advance_succ, ih]

theorem isBoundary_trans {d : Bytes} {a : Nat} (ha : IsBoundary d a) {b : Nat} (hb : IsBoundary (d.drop a) b) :
    IsBoundary d (a + b) := by
  induction ha with
  | zero d => simpa using hb
  | step d k hne _ ih =>
    rw [List.drop_drop] at ih
    have := ih hb
    rw [Nat.add_assoc]
    exact IsBoundary.step d _ hne this

theorem isBoundary_first_le {d : Bytes} {k : Nat} (h : IsBoundary d k) (hk : 0 < k) :
    d ≠ [] ∧ runeSize d ≤ k ∧ IsBoundary (d.drop (runeSize d)) (k - runeSize d) := by
  cases h with
  | zero => omega
  | step _ k' hne h' => exact ⟨hne, by omega, by simpa using h'⟩

/-- a document whose decoding ends exactly at its end whatever follows it (true of valid UTF-8; false only when the
    document ends with a truncated multi-byte sequence that the following bytes would complete) -/
def Clean (d : Bytes) : Prop := ∀ rest : Bytes, IsBoundary (d ++ rest) d.length

theorem clean_nil : Clean [] := fun rest => IsBoundary.zero _

theorem clean_append {a b : Bytes} (ha : Clean a) (hb : Clean b) : Clean (a ++ b) := by
  intro rest
  have h1 := ha (b ++ rest)
  have h2 := hb rest
  rw [List.append_assoc, List.length_append]
  apply isBoundary_trans h1
  simpa using h2

/-- decoding `c ++ rest` agrees with decoding `c` as long as `c` has runes left -/
theorem advance_append_of_boundary : ∀ (n : Nat) (c rest : Bytes), IsBoundary (c ++ rest) c.length →
    n ≤ runeCount c → advance n (c ++ rest) = advance n c := by
  intro n
  induction n with
  | zero => intro c rest _ _; rfl
  | succ n ih =>
    intro c rest hb hn
    have hc : c ≠ [] := by intro h; subst h; simp [runeCount_nil] at hn
    have hcr : c ++ rest ≠ [] := by simp [hc]
    -- the first rune of c ++ rest ends inside c
    have hlen : 0 < c.length := List.length_pos_iff.mpr hc
    have hs : runeSize (c ++ rest) ≤ c.length := (isBoundary_first_le hb hlen).2.1
    have hsz : runeSize c = runeSize (c ++ rest) := by
      have := runeSize_take (c ++ rest) c.length hs
      simpa using this
    rw [advance_succ, advance_succ, ← hsz]
    have hsl := runeSize_le c
    have hdrop : (c ++ rest).drop (runeSize c) = c.drop (runeSize c) ++ rest := by
      rw [List.drop_append_of_le_length hsl]
    rw [hdrop]
    congr 1
    apply ih
    · -- boundary of the remainder
      have := (isBoundary_advance 1 (c ++ rest)).drop hb (by
        simp only [advance, Nat.add_zero]; rw [← hsz]; exact hsl)
      simp only [advance, Nat.add_zero, ← hsz, hdrop] at this
      simpa using this
    · rw [runeCount_step c hc] at hn; omega

theorem runeCount_append {c : Bytes} (hc : Clean c) (d : Bytes) : runeCount (c ++ d) = runeCount c + runeCount d := by
  have h := runeCount_take_add (hc d) (c ++ d).length (by simp)
  rw [List.take_length] at h
  simpa using h

/-- the `runeCount c + j`-th rune of `c ++ d` is the `j`-th rune of `d` -/
theorem advance_append {c : Bytes} (hc : Clean c) (d : Bytes) (j : Nat) :
    advance (runeCount c + j) (c ++ d) = c.length + advance j d := by
  rw [advance_add]
  have h := advance_runeCount_take (hc d)
  simp only [List.take_left'] at h
  rw [h]; simp

end ZoektModel.C02
