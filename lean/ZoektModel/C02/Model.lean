/-
C02 — model of index/eval.go `gatherMatches` (candidate collection over the visited atoms, `sortByOffsetSlice`,
greedy overlap filter), index/bits.go `makeRuneOffsetMap` / `runeOffsetMap.lookup`, the builder's rune-offset sampling
(index/shard_builder.go `newSearchableString`), index/contentprovider.go `findOffset`, and the end-to-end pipeline
`gatherMatches → fillMatches | fillChunkMatches` (the content-provider functions live in C03/Model.lean).

Offsets are `Nat` (Go: `uint32`; shard contents are < 4 GiB, the format's own limit).
-/
import ZoektModel.C03.Model
namespace ZoektModel.C02
open ZoektModel ZoektModel.C03

/-! ## gatherMatches -/

/-- one atom of the match tree with the candidates it holds after evaluation.
    `kind`: 0 substr, 1 regexp, 2 word, 3 symbolRegexp (all four are collected by `gatherMatches`);
    `wrap`: 0 none, 1 not, 2 noVisit, 3 fileName (`visitMatches` does not descend into these three),
            4 boost, 5 nested or, 6 andLine, 7 symbolSubstr (descended);
    `known`: the value of the `known` map for the atom and its wrapper. -/
structure Atom where
  kind : Nat
  wrap : Nat
  known : Bool
  cands : List Cand
  deriving Repr

/-- is the atom reached by `visitMatches` -/
def Atom.visited (a : Atom) : Bool := a.known && !(a.wrap == 1 || a.wrap == 2 || a.wrap == 3)

/-- the greedy loop of `gatherMatches` after its first element: `last` is `res[len(res)-1]` -/
def filterFrom (last : Cand) : List Cand → List Cand
  | [] => []
  | c :: r =>
    if last.fileName != c.fileName then c :: filterFrom c r          -- never compare filename and content matches
    else if last.off + last.sz ≤ c.off then c :: filterFrom c r      -- lastEnd <= c.byteOffset
    else filterFrom last r

def overlapFilter : List Cand → List Cand
  | [] => []
  | c :: r => c :: filterFrom c r

/-- `gatherMatches` on the collected candidates: none at all → one match on the whole file name -/
def gatherCands (name : Bytes) (cands : List Cand) : List Cand :=
  if cands.length = 0 then [⟨true, 0, name.length⟩] else overlapFilter (sortCands cands)

def collect (atoms : List Atom) : List Cand := (atoms.filter Atom.visited).flatMap Atom.cands

def gatherMatches (name : Bytes) (atoms : List Atom) : List Cand := gatherCands name (collect atoms)

/-! ### the match tree proper -/

/-- a match tree as `visitMatches` sees it; the `Bool` next to a child of and / or / andLine is `known[child]`
    (a missing key reads as `false` in Go) -/
inductive MT where
  | atom (kind : Nat) (cands : List Cand)   -- substr / regexp / word / symbolRegexp tree holding its candidates
  | other                                   -- any other leaf (docMatchTree, branchQueryMatchTree, …): visited, nothing collected
  | and (ch : List (Bool × MT))
  | or (ch : List (Bool × MT))
  | andLine (ch : List (Bool × MT))
  | not (c : MT)
  | noVisit (c : MT)
  | fileName (c : MT)
  | boost (c : MT)
  | symbolSubstr (c : MT)

mutual
/-- `visitMatches` with the collecting callback of `gatherMatches`: what is appended to `cands` -/
def visit : MT → List Cand
  | .atom _ cs => cs
  | .other => []
  | .and ch => visitList ch
  | .or ch => visitList ch
  | .andLine ch => visitList ch
  | .boost c => visit c
  | .symbolSubstr c => visit c
  | .not _ => []          -- don't collect into negative trees
  | .noVisit _ => []
  | .fileName _ => []     -- "we will just gather the filename if we do not visit this tree"
def visitList : List (Bool × MT) → List Cand
  | [] => []
  | (k, t) :: r => (if k then visit t else []) ++ visitList r
end

/-- `gatherMatches(nextDoc, mt, known)` -/
def gatherTree (name : Bytes) (t : MT) : List Cand := gatherCands name (visit t)

/-! ## rune offsets -/

/-- `runeOffsetFrequency` -/
def freq : Nat := 100

structure Corr where
  runeOffset : Nat
  byteOffset : Nat
  deriving Repr, DecidableEq, Inhabited

def makeRomAux : List Nat → Nat → Nat → List Corr
  | [], _, _ => []
  | b :: r, i, expected =>
    if b ≠ expected then ⟨i * freq, b⟩ :: makeRomAux r (i + 1) (b + freq)
    else makeRomAux r (i + 1) (expected + freq)

/-- `makeRuneOffsetMap` -/
def makeRuneOffsetMap (off : List Nat) : List Corr := makeRomAux off 0 0

/-- `runeOffsetMap.lookup` -/
def lookup (m : List Corr) (runeOffset : Nat) : Nat × Nat :=
  let left := runeOffset % freq
  let ro := runeOffset - left
  let slen := m.length
  if slen = 0 then (ro, left) else
  let i := search (fun i => decide (ro ≥ (m.getD (slen - 1 - i) default).runeOffset)) 0 slen
  -- Go: idx = slen - 1 - i, in [-1, slen); -1 ⇔ i = slen
  let byteOff := if i < slen then
      let e := m.getD (slen - 1 - i) default
      e.byteOffset + ro - e.runeOffset
    else ro
  (byteOff, left)

/-- the sampling loop of `newSearchableString` over one document, byte by byte: `skip` = bytes of the current rune
    still to be consumed; returns the samples taken and the rune index after the document -/
def sampleAux : Nat → Bytes → Nat → Nat → List Nat × Nat
  | _, [], ri, _ => ([], ri)
  | 0, b :: rest, ri, bo =>
    let (l, n) := sampleAux (runeSize (b :: rest) - 1) rest (ri + 1) (bo + 1)
    (if ri % freq = 0 then bo :: l else l, n)
  | k + 1, _ :: rest, ri, bo => sampleAux k rest ri (bo + 1)

/-- what one `postingsBuilder` records for a list of documents (contents, or names) -/
structure Posting where
  samples : List Nat := []      -- runeOffsets
  endRunes : List Nat := []
  boundaries : List Nat := [0]  -- byte offset of each document start, plus the total
  runeCount : Nat := 0
  endByte : Nat := 0
  corpus : Bytes := []
  plainASCII : Bool := true
  deriving Repr

def Posting.add (p : Posting) (data : Bytes) : Posting :=
  let (l, n) := sampleAux 0 data p.runeCount p.endByte
  { samples := p.samples ++ l, endRunes := p.endRunes ++ [n], boundaries := p.boundaries ++ [p.endByte + data.length],
    runeCount := n, endByte := p.endByte + data.length, corpus := p.corpus ++ data,
    plainASCII := p.plainASCII && data.all (fun b => decide (b.toNat < 0x80)) }

def Posting.ofDocs (docs : List Bytes) : Posting := docs.foldl Posting.add {}

/-- number of bytes `findOffset` reads after the sampled offset for content (`k * runeOffsetFrequency`; the unfixed
    code used k = 3, the fixed code k = utf8.UTFMax = 4) -/
def readLen (k : Nat) : Nat := k * freq

/-- `contentProvider.findOffset(filename, r)` for document `idx`. `plain` = metaData.PlainASCII (contents and names).
    `limit = none` for file names (the whole remaining name corpus is available), `some n` for contents. -/
def findOffset (p : Posting) (plain : Bool) (limit : Option Nat) (idx r : Nat) : Nat :=
  if plain then r else
  let absR := r + (if idx > 0 then p.endRunes.getD (idx - 1) 0 else 0)
  let (byteOff, left) := lookup (makeRuneOffsetMap p.samples) absR
  let data := match limit with
    | none => p.corpus.drop byteOff
    | some n => (p.corpus.drop byteOff).take n
  byteOff + advance left data - p.boundaries.getD idx 0

/-! ## verification of a substring candidate (`candidateMatch.matchContent`), ASCII texts -/

/-- `unicode.ToLower` / the `mb |= 0x20` of the fast path, on an ASCII byte: only 'A'..'Z' change -/
def asciiLower (b : UInt8) : Nat := if 65 ≤ b.toNat ∧ b.toNat ≤ 90 then b.toNat + 32 else b.toNat

/-- the ASCII fast path of `caseFoldingEqualsRunes(lower, mixed)`: `some matchTotal` when it returns `(matchTotal, true)`.
    `lower` is the already lower-cased pattern as numbers. -/
def foldEqASCII : List Nat → Bytes → Nat → Option Nat
  | [], _, n => some n                      -- the loop ends with len(lower) == 0
  | _ :: _, [], _ => none                   -- the content ran out: (matchTotal, false)
  | lb :: lr, mb :: mr, n => if lb ≠ asciiLower mb then none else foldEqASCII lr mr (n + 1)

/-- `candidateMatch.matchContent(content)` for ASCII pattern and content, candidate at byte offset `off`:
    `some byteMatchSz` when it returns true. (Case-sensitive: the Go code slices `content[off:off+len]`, callers pass
    in-range offsets; out of range is modelled as no match.) -/
def matchContentASCII (pattern content : Bytes) (off : Nat) (caseSensitive : Bool) : Option Nat :=
  if caseSensitive then
    (if off + pattern.length ≤ content.length ∧ Bytes.slice content off (off + pattern.length) = pattern
     then some pattern.length else none)
  else foldEqASCII (pattern.map asciiLower) (content.drop off) 0

/-! ## the reporting pipeline of `indexData.Search` for one document -/

/-- line mode: `gatherMatches` then `fillMatches` -/
def reportLines (data name : Bytes) (ctx : Nat) (cands : List Cand) : Option (List LineMatch) :=
  fillMatches data name ctx (gatherCands name cands)

/-- chunk mode: `gatherMatches` then `fillChunkMatches` -/
def reportChunks (data name : Bytes) (ctx : Nat) (cands : List Cand) : List ChunkMatch :=
  fillChunkMatches data name ctx (gatherCands name cands)

end ZoektModel.C02
