/-
C02 — helper lemmas, part 9: the verifier of substring candidates accepts exactly the occurrences.
-/
import ZoektModel.C02.Lemmas8
namespace ZoektModel.C02
open ZoektModel ZoektModel.C03

theorem zip_take_length {α β} (l : List α) (m : List β) : List.zip l (m.take l.length) = List.zip l m := by
  induction l generalizing m with
  | nil => simp
  | cons a t ih =>
    cases m with
    | nil => simp
    | cons b r => simp [ih]

theorem foldEqASCII_spec (l : Bytes) : ∀ (m : Bytes) (k : Nat),
    foldEqASCII (l.map asciiLower) m k =
      if l.length ≤ m.length ∧ (List.zip l m).all (fun (p, c) => asciiLower p == asciiLower c) = true
      then some (k + l.length) else none := by
  induction l with
  | nil => intro m k; simp [foldEqASCII]
  | cons a t ih =>
    intro m k
    cases m with
    | nil => simp [foldEqASCII]
    | cons b r =>
      simp only [List.map_cons, foldEqASCII, List.length_cons, List.zip_cons_cons, List.all_cons, Bool.and_eq_true,
        beq_iff_eq]
      by_cases h : asciiLower a = asciiLower b
      · simp only [h, ne_eq, not_true_eq_false, if_false, true_and]
        rw [ih r (k + 1)]
        by_cases h2 : t.length ≤ r.length ∧ (List.zip t r).all (fun (p, c) => asciiLower p == asciiLower c) = true
        · have h3 : t.length + 1 ≤ r.length + 1 ∧ (List.zip t r).all (fun (p, c) => asciiLower p == asciiLower c) = true :=
            ⟨by omega, h2.2⟩
          simp only [h2, and_self, if_true, h3]
          congr 1; omega
        · have h3 : ¬ (t.length + 1 ≤ r.length + 1 ∧ (List.zip t r).all (fun (p, c) => asciiLower p == asciiLower c) = true) := by
            intro hh; exact h2 ⟨by omega, hh.2⟩
          simp only [h2, if_false, h3]
      · simp [h]

theorem zip_all_beq_iff (a b : Bytes) (h : a.length = b.length) :
    (List.zip a b).all (fun (p, c) => p == c) = true ↔ b = a := by
  induction a generalizing b with
  | nil => cases b <;> simp_all
  | cons x t ih =>
    cases b with
    | nil => simp at h
    | cons y r =>
      simp only [List.length_cons, Nat.add_right_cancel_iff] at h
      simp only [List.zip_cons_cons, List.all_cons, Bool.and_eq_true, beq_iff_eq, ih r h, List.cons.injEq]
      constructor
      · rintro ⟨h1, h2⟩; exact ⟨h1.symm, h2⟩
      · rintro ⟨h1, h2⟩; exact ⟨h1.symm, h2⟩

end ZoektModel.C02
