/-
C02 — helper lemmas, part 2: single-substring exactness (greedy filter over all occurrences = left-to-right scan),
identity of gather on an engine's match list.
-/
import ZoektModel.C02.Lemmas
namespace ZoektModel.C02
open ZoektModel ZoektModel.C03

/-- every offset at which `pat` occurs in the text whose suffix at offset `i` is the argument (increasing order):
    what the trigram index plus verification hands to `gatherMatches` for a substring atom -/
def occFrom (pat : Bytes) : Bytes → Nat → List Nat
  | [], _ => []
  | b :: r, i => if pat.isPrefixOf (b :: r) then i :: occFrom pat r (i + 1) else occFrom pat r (i + 1)

theorem occFrom_ge (pat : Bytes) (rest : Bytes) (i : Nat) : ∀ o ∈ occFrom pat rest i, i ≤ o := by
  induction rest generalizing i with
  | nil => simp [occFrom]
  | cons b r ih =>
    intro o ho
    simp only [occFrom] at ho
    split at ho
    · rcases List.mem_cons.mp ho with rfl | ho
      · exact Nat.le_refl _
      · have := ih (i + 1) o ho; omega
    · have := ih (i + 1) o ho; omega

theorem occFrom_sorted (pat : Bytes) (rest : Bytes) (i : Nat) : (occFrom pat rest i).Pairwise (· < ·) := by
  induction rest generalizing i with
  | nil => simp [occFrom]
  | cons b r ih =>
    simp only [occFrom]
    split
    · refine List.pairwise_cons.mpr ⟨?_, ih (i + 1)⟩
      intro o ho
      have := occFrom_ge pat r (i + 1) o ho; omega
    · exact ih (i + 1)

/-- `occFrom` lists exactly the occurrences -/
theorem mem_occFrom (pat rest : Bytes) (i o : Nat) :
    o ∈ occFrom pat rest i ↔ i ≤ o ∧ o < i + rest.length ∧ pat.isPrefixOf (rest.drop (o - i)) = true := by
  induction rest generalizing i with
  | nil => simp [occFrom]; omega
  | cons b r ih =>
    simp only [occFrom]
    by_cases hp : pat.isPrefixOf (b :: r) = true
    · simp only [hp, if_true, List.mem_cons, ih (i + 1), List.length_cons]
      constructor
      · rintro (rfl | ⟨h1, h2, h3⟩)
        · simp [hp]
        · refine ⟨by omega, by omega, ?_⟩
          have e : o - i = (o - (i + 1)) + 1 := by omega
          rw [e, List.drop_succ_cons]; exact h3
      · rintro ⟨h1, h2, h3⟩
        by_cases hoi : o = i
        · exact Or.inl hoi
        · right
          refine ⟨by omega, by omega, ?_⟩
          have e : o - i = (o - (i + 1)) + 1 := by omega
          rw [e, List.drop_succ_cons] at h3; exact h3
    · simp only [hp, Bool.false_eq_true, if_false, ih (i + 1), List.length_cons]
      constructor
      · rintro ⟨h1, h2, h3⟩
        refine ⟨by omega, by omega, ?_⟩
        have e : o - i = (o - (i + 1)) + 1 := by omega
        rw [e, List.drop_succ_cons]; exact h3
      · rintro ⟨h1, h2, h3⟩
        by_cases hoi : o = i
        · subst hoi; simp only [Nat.sub_self, List.drop_zero] at h3; exact absurd h3 hp
        · refine ⟨by omega, by omega, ?_⟩
          have e : o - i = (o - (i + 1)) + 1 := by omega
          rw [e, List.drop_succ_cons] at h3; exact h3

theorem greedyFrom_congr (pos pos' : Nat) (l : List (Nat × Nat)) (h : ∀ o ∈ l, pos ≤ o.1 ∧ pos' ≤ o.1) :
    greedyFrom pos l = greedyFrom pos' l := by
  cases l with
  | nil => rfl
  | cons o r =>
    have := h o (by simp)
    simp [greedyFrom, this.1, this.2]

/-- the left-to-right scan of the specification = greedy choice among all occurrences -/
theorem leftmostOcc_eq_greedy (pat : Bytes) (hp : pat ≠ []) (rest : Bytes) (i skip : Nat) :
    leftmostOcc pat rest i skip =
      (greedyFrom (i + skip) ((occFrom pat rest i).map fun o => (o, pat.length))).map (·.1) := by
  have hm : 1 ≤ pat.length := by cases pat <;> simp_all
  induction rest generalizing i skip with
  | nil => simp [leftmostOcc, occFrom, greedyFrom]
  | cons b r ih =>
    simp only [leftmostOcc, occFrom]
    by_cases hpre : pat.isPrefixOf (b :: r) = true
    · simp only [hpre, and_true, if_true, List.map_cons]
      by_cases hs : skip = 0
      · subst hs
        simp only [if_true, Nat.add_zero, greedyFrom, ge_iff_le, Nat.le_refl, List.map_cons]
        rw [ih (i + 1) (pat.length - 1)]
        have e : i + 1 + (pat.length - 1) = i + pat.length := by omega
        rw [e]
      · simp only [hs, if_false]
        have : ¬ (i ≥ i + skip) := by omega
        simp only [greedyFrom, this, if_false]
        rw [ih (i + 1) (skip - 1)]
        have e : i + 1 + (skip - 1) = i + skip := by omega
        rw [e]
    · simp only [hpre, Bool.false_eq_true, and_false, if_false]
      rw [ih (i + 1) (skip - 1)]
      by_cases hs : skip = 0
      · subst hs
        congr 1
        apply greedyFrom_congr
        intro o ho
        simp only [List.mem_map] at ho
        obtain ⟨x, hx, rfl⟩ := ho
        have := occFrom_ge pat r (i + 1) x hx
        simp only
        omega
      · have e : i + 1 + (skip - 1) = i + skip := by omega
        rw [e]

/-- the greedy loop of `gatherMatches` over content candidates of one size = greedy choice of offsets -/
theorem filterFrom_eq_greedy (m : Nat) (o : Nat) (l : List Nat) :
    filterFrom ⟨false, o, m⟩ (l.map fun x => (⟨false, x, m⟩ : Cand)) =
      (greedyFrom (o + m) (l.map fun x => (x, m))).map fun p => (⟨false, p.1, m⟩ : Cand) := by
  induction l generalizing o with
  | nil => simp [filterFrom, greedyFrom]
  | cons x r ih =>
    simp only [List.map_cons, filterFrom, greedyFrom, bne_self_eq_false, Bool.false_eq_true, if_false]
    by_cases h : o + m ≤ x
    · simp only [h, if_true, List.map_cons]
      rw [ih x]
    · simp only [h, if_false]
      exact ih o

theorem candLess_of_lt (m : Nat) {a b : Nat} (h : a < b) : candLess ⟨false, a, m⟩ ⟨false, b, m⟩ = true := by
  rw [candLess_iff]; right; exact ⟨rfl, Or.inl h⟩

theorem pairwise_cle_of_lt (m : Nat) (l : List Nat) (h : l.Pairwise (· < ·)) :
    (l.map fun x => (⟨false, x, m⟩ : Cand)).Pairwise cle := by
  rw [List.pairwise_map]
  exact h.imp (fun hab => cle_of_less (candLess_of_lt m hab))

/-- sorting does not depend on the order in which the candidates were collected -/
theorem sortCands_perm_invariant {l l' : List Cand} (hp : l'.Perm l) : sortCands l' = sortCands l :=
  sorted_perm_eq ((sortCands_perm l').trans (hp.trans (sortCands_perm l).symm)) (sortCands_sorted l') (sortCands_sorted l)

theorem sortCands_of_sorted {l : List Cand} (h : l.Pairwise cle) : sortCands l = l :=
  sorted_perm_eq (sortCands_perm l) (sortCands_sorted l) h

/-- the greedy loop keeps a list whose consecutive same-kind elements do not overlap -/
theorem filterFrom_id (last : Cand) (l : List Cand) (h : ChainFrom last l) : filterFrom last l = l := by
  induction l generalizing last with
  | nil => rfl
  | cons c r ih =>
    obtain ⟨h1, h2⟩ := h
    simp only [filterFrom]
    by_cases hk : last.fileName = c.fileName
    · have : (last.fileName != c.fileName) = false := by simp [hk]
      simp only [this, Bool.false_eq_true, if_false, h1 hk, if_true]
      rw [ih c h2]
    · have : (last.fileName != c.fileName) = true := by simp [hk]
      simp only [this, if_true]
      rw [ih c h2]

theorem chainFrom_of_pairwise (last : Cand) (l : List Cand)
    (h : (last :: l).Pairwise (fun a b => a.fileName = b.fileName → a.off + a.sz ≤ b.off)) : ChainFrom last l := by
  induction l generalizing last with
  | nil => trivial
  | cons c r ih =>
    rw [List.pairwise_cons] at h
    exact ⟨h.1 c (by simp), ih c h.2⟩

end ZoektModel.C02
