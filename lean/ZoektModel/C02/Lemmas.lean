/-
C02 — helper lemmas: the order behind `sortByOffsetSlice`, insertion sort, the greedy overlap filter.
-/
import ZoektModel.C02.Spec
namespace ZoektModel.C02
open ZoektModel ZoektModel.C03

/-- `a` may stand before `b` in a slice sorted with `sortByOffsetSlice.Less` -/
def cle (a b : Cand) : Prop := candLess b a = false

instance : DecidableRel cle := fun a b => inferInstanceAs (Decidable (candLess b a = false))

theorem candLess_iff (a b : Cand) : candLess a b = true ↔
    (a.fileName = true ∧ b.fileName = false) ∨
    (a.fileName = b.fileName ∧ (a.off < b.off ∨ (a.off = b.off ∧ a.sz > b.sz))) := by
  unfold candLess
  cases ha : a.fileName <;> cases hb : b.fileName <;> simp <;> split <;> simp_all <;> omega

theorem cle_iff (a b : Cand) : cle a b ↔
    (a.fileName = true ∧ b.fileName = false) ∨
    (a.fileName = b.fileName ∧ (a.off < b.off ∨ (a.off = b.off ∧ a.sz ≥ b.sz))) := by
  unfold cle
  rw [← Bool.not_eq_true, candLess_iff]
  cases ha : a.fileName <;> cases hb : b.fileName <;> simp <;> omega

theorem cle_total (a b : Cand) : cle a b ∨ cle b a := by
  rw [cle_iff, cle_iff]
  cases ha : a.fileName <;> cases hb : b.fileName <;> simp <;> omega

theorem cle_trans {a b c : Cand} (h1 : cle a b) (h2 : cle b c) : cle a c := by
  rw [cle_iff] at *
  cases ha : a.fileName <;> cases hb : b.fileName <;> cases hc : c.fileName <;> simp_all <;> omega

theorem cle_of_less {a b : Cand} (h : candLess a b = true) : cle a b := by
  rw [cle_iff]; rw [candLess_iff] at h
  rcases h with h | ⟨h1, h2⟩
  · exact Or.inl h
  · exact Or.inr ⟨h1, by omega⟩

/-- candidates that compare equal are equal: the order is total on the observable values, which is why an unstable
    sort cannot be observed -/
theorem cle_antisymm {a b : Cand} (h1 : cle a b) (h2 : cle b a) : a = b := by
  rw [cle_iff] at *
  cases a; cases b
  simp only [Cand.mk.injEq]
  simp only at h1 h2
  rename_i fa oa sa fb ob sb
  cases fa <;> cases fb <;> simp_all <;> omega

theorem mem_insertCand {c x : Cand} {l : List Cand} : x ∈ insertCand c l ↔ x = c ∨ x ∈ l := by
  induction l with
  | nil => simp [insertCand]
  | cons y r ih =>
    simp only [insertCand]
    split
    · simp
    · simp only [List.mem_cons, ih]
      constructor
      · rintro (h | h | h) <;> simp [h]
      · rintro (h | h | h) <;> simp [h]

theorem insertCand_perm (c : Cand) (l : List Cand) : (insertCand c l).Perm (c :: l) := by
  induction l with
  | nil => simp [insertCand]
  | cons y r ih =>
    simp only [insertCand]
    split
    · exact List.Perm.refl _
    · exact (List.Perm.cons y ih).trans (List.Perm.swap c y r)

theorem insertCand_sorted (c : Cand) (l : List Cand) (h : l.Pairwise cle) : (insertCand c l).Pairwise cle := by
  induction l with
  | nil => simp [insertCand]
  | cons y r ih =>
    rw [List.pairwise_cons] at h
    simp only [insertCand]
    split
    · rename_i hlt
      rw [List.pairwise_cons]
      refine ⟨?_, List.pairwise_cons.mpr h⟩
      intro z hz
      rcases List.mem_cons.mp hz with rfl | hz
      · exact cle_of_less hlt
      · exact cle_trans (cle_of_less hlt) (h.1 z hz)
    · rename_i hlt
      rw [List.pairwise_cons]
      refine ⟨?_, ih h.2⟩
      intro z hz
      rcases mem_insertCand.mp hz with rfl | hz
      · simpa [cle] using hlt
      · exact h.1 z hz

theorem sortCands_perm (l : List Cand) : (sortCands l).Perm l := by
  induction l with
  | nil => exact List.Perm.refl _
  | cons a t ih =>
    show (insertCand a (sortCands t)).Perm (a :: t)
    exact (insertCand_perm a _).trans (List.Perm.cons a ih)

theorem sortCands_sorted (l : List Cand) : (sortCands l).Pairwise cle := by
  induction l with
  | nil => exact List.Pairwise.nil
  | cons a t ih => exact insertCand_sorted a _ ih

theorem mem_sortCands {x : Cand} {l : List Cand} : x ∈ sortCands l ↔ x ∈ l := (sortCands_perm l).mem_iff

/-- two sorted permutations of each other are equal -/
theorem sorted_perm_eq : ∀ {l1 l2 : List Cand}, l1.Perm l2 → l1.Pairwise cle → l2.Pairwise cle → l1 = l2
  | [], l2, hp, _, _ => by simpa using hp.symm.eq_nil
  | a :: t1, [], hp, _, _ => by simpa using hp.eq_nil
  | a :: t1, b :: t2, hp, h1, h2 => by
    rw [List.pairwise_cons] at h1 h2
    have hab : a = b := by
      have ha : a ∈ b :: t2 := hp.mem_iff.mp (by simp)
      have hb : b ∈ a :: t1 := hp.mem_iff.mpr (by simp)
      rcases List.mem_cons.mp ha with h | ha
      · exact h
      rcases List.mem_cons.mp hb with h | hb
      · exact h.symm
      exact cle_antisymm (h1.1 b hb) (h2.1 a ha)
    subst hab
    rw [sorted_perm_eq (List.Perm.cons_inv hp) h1.2 h2.2]

theorem isSortedCands_of_pairwise (l : List Cand) (h : l.Pairwise cle) : isSortedCands l = true := by
  induction l with
  | nil => rfl
  | cons a t ih =>
    cases t with
    | nil => rfl
    | cons b r =>
      rw [List.pairwise_cons] at h
      have hab : candLess b a = false := h.1 b (by simp)
      simp [isSortedCands, hab, ih h.2]

/-! ### the greedy filter -/

/-- consecutive kept candidates of the same kind do not overlap -/
def ChainFrom : Cand → List Cand → Prop
  | _, [] => True
  | last, c :: r => (last.fileName = c.fileName → last.off + last.sz ≤ c.off) ∧ ChainFrom c r

theorem filterFrom_chain (last : Cand) (l : List Cand) : ChainFrom last (filterFrom last l) := by
  induction l generalizing last with
  | nil => simp [filterFrom, ChainFrom]
  | cons c r ih =>
    simp only [filterFrom]
    split
    · rename_i h
      exact ⟨fun heq => by simp [heq] at h, ih c⟩
    · split
      · rename_i h
        exact ⟨fun _ => h, ih c⟩
      · exact ih last

theorem filterFrom_sublist (last : Cand) (l : List Cand) : (filterFrom last l).Sublist l := by
  induction l generalizing last with
  | nil => simp [filterFrom]
  | cons c r ih =>
    simp only [filterFrom]
    split
    · exact (ih c).cons_cons c
    · split
      · exact (ih c).cons_cons c
      · exact (ih last).cons c

theorem overlapFilter_sublist (l : List Cand) : (overlapFilter l).Sublist l := by
  cases l with
  | nil => simp [overlapFilter]
  | cons c r => exact (filterFrom_sublist c r).cons_cons c

/-- in a list sorted by `cle` whose consecutive same-kind elements do not overlap, all same-kind pairs are disjoint
    and ordered -/
theorem chain_pairwise (last : Cand) (l : List Cand) (hs : (last :: l).Pairwise cle) (hc : ChainFrom last l) :
    (last :: l).Pairwise (fun a b => a.fileName = b.fileName → a.off + a.sz ≤ b.off) := by
  induction l generalizing last with
  | nil => simp
  | cons c r ih =>
    obtain ⟨h1, h2⟩ := hc
    have hs' := hs
    rw [List.pairwise_cons] at hs
    have ihc := ih c hs.2 h2
    rw [List.pairwise_cons]
    refine ⟨?_, ihc⟩
    intro z hz heq
    rcases List.mem_cons.mp hz with rfl | hz
    · exact h1 heq
    · -- last, c, …, z : by sortedness c has the same kind as both
      have hlc := hs.1 c (by simp)
      have hlz := hs.1 z (by simp [hz])
      have hcz := (List.pairwise_cons.mp hs.2).1 z hz
      rw [cle_iff] at hlc hlz hcz
      have hk : last.fileName = c.fileName ∧ c.fileName = z.fileName := by
        cases hl : last.fileName <;> cases hcf : c.fileName <;> cases hzf : z.fileName <;> simp_all
      have a1 := h1 hk.1
      have a2 := (List.pairwise_cons.mp ihc).1 z hz hk.2
      omega

end ZoektModel.C02
