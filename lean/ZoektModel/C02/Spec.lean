/-
C02 — the property as executable predicates over the match ranges *reported* for one file, written from the
statement (properties.jsonl): plain byte scans of the content, no use of the model's sort / filter / newline table.
Evaluated by the driver on the implementation's output and used verbatim in Props/C02.lean.
-/
import ZoektModel.C02.Model
namespace ZoektModel.C02
open ZoektModel ZoektModel.C03

/-- a reported range: on the file name or on the content, bytes `[off, off+len)` -/
structure RRange where
  fileName : Bool
  off : Nat
  len : Nat
  deriving Repr, DecidableEq

def RRange.stop (r : RRange) : Nat := r.off + r.len

/-- the ranges of a list of line matches, in the order reported -/
def rangesOfLines (lms : List LineMatch) : List (List RRange) :=
  lms.map fun lm => lm.frags.map fun f => ⟨lm.fileName, f.off, f.len⟩

/-- the ranges of a list of chunk matches, in the order reported -/
def rangesOfChunks (cms : List ChunkMatch) : List (List RRange) :=
  cms.map fun cm => cm.ranges.map fun r => ⟨cm.fileName, r.start.byteOff, r.stop.byteOff - r.start.byteOff⟩

/-- every range lies inside the file's content (or its name) -/
def inside (data name : Bytes) (rs : List RRange) : Bool :=
  rs.all fun r => decide (r.stop ≤ (if r.fileName then name.length else data.length))

/-- increasing offset order without overlapping -/
def orderedDisjoint : List RRange → Bool
  | [] => true
  | [_] => true
  | a :: b :: r => decide (a.stop ≤ b.off) && decide (a.off < b.off || (a.off == b.off && a.len == 0)) && orderedDisjoint (b :: r)

def candsAsRanges (l : List Cand) : List RRange := l.map fun c => ⟨c.fileName, c.off, c.sz⟩

/-- what the statement demands of the candidates `out` gathered for a document from the matches `collected` of the
    visited atoms: file-name matches first, each kind in increasing offset order without overlap, every one of them a
    match of a visited atom (or the whole-name fallback when nothing was collected) -/
def checkGather (name : Bytes) (collected out : List Cand) : Bool :=
  let src := if collected.isEmpty then [⟨true, 0, name.length⟩] else collected
  orderedDisjoint (candsAsRanges (out.filter (·.fileName))) &&
  orderedDisjoint (candsAsRanges (out.filter (!·.fileName))) &&
  out.all (fun c => decide (c ∈ src)) &&
  isSortedCands out

/-- `r` is a maximal newline-free piece of `[lo, hi)`: it lies inside, contains no '\n', and each of its two ends
    is an end of `[lo, hi)` or is adjacent to a '\n' byte of `[lo, hi)` -/
def isLinePiece (data : Bytes) (lo hi : Nat) (r : RRange) : Bool :=
  decide (lo ≤ r.off) && decide (r.stop ≤ hi) && decide (r.len > 0) &&
  !(Bytes.slice data r.off r.stop).contains 10 &&
  (r.off == lo || data.getD (r.off - 1) 0 == 10) &&
  (r.stop == hi || data.getD r.stop 0 == 10)

/-- the bytes of the range are matched at that position by a (non-negated) atom: the range is one of the atom
    matches `cands`; in line mode a maximal newline-free piece of one -/
def matchedByAtom (data : Bytes) (lineMode : Bool) (cands : List Cand) (r : RRange) : Bool :=
  cands.any fun c =>
    c.fileName == r.fileName &&
    (if lineMode && !r.fileName then isLinePiece data c.off c.stop r
     else c.off == r.off && c.sz == r.len)

/-- successive leftmost non-overlapping occurrences of a non-empty pattern, by a left-to-right scan;
    `skip` = bytes of the previous occurrence still to be passed -/
def leftmostOcc (pat : Bytes) : Bytes → Nat → Nat → List Nat
  | [], _, _ => []
  | b :: rest, i, skip =>
    if skip = 0 ∧ pat.isPrefixOf (b :: rest) then i :: leftmostOcc pat rest (i + 1) (pat.length - 1)
    else leftmostOcc pat rest (i + 1) (skip - 1)

/-- cut `[off, off+len)` at newline bytes, dropping the newlines and empty pieces (what line mode may report) -/
def cutAtNL (data : Bytes) (off len : Nat) : List (Nat × Nat) :=
  let rec go : Bytes → Nat → Nat → Nat → List (Nat × Nat)
    | _, 0, start, i => if i > start then [(start, i - start)] else []
    | [], _, start, i => if i > start then [(start, i - start)] else []
    | b :: rest, n + 1, start, i =>
      if b = 10 then (if i > start then [(start, i - start)] else []) ++ go rest n (i + 1) (i + 1)
      else go rest n start (i + 1)
  go (data.drop off) len off off

/-- the positions a list of ranges covers, as a bit per byte of `data` -/
def coverMask (n : Nat) (rs : List (Nat × Nat)) : List Bool :=
  (List.range n).map fun i => rs.any fun r => decide (r.1 ≤ i) && decide (i < r.1 + r.2)

/-- the bytes `[off, off+size)` of `content` are matched by the substring atom `pattern`: same length, inside the
    content, byte for byte equal — up to the case of ASCII letters when the atom is case-insensitive (ASCII texts) -/
def occursAt (pattern content : Bytes) (off size : Nat) (caseSensitive : Bool) : Bool :=
  size == pattern.length && decide (off + size ≤ content.length) &&
  (List.zip pattern (Bytes.slice content off (off + size))).all fun (p, c) =>
    if caseSensitive then p == c else asciiLower p == asciiLower c

/-- what the statement demands of the verifier's verdict `res` (`some size` = accepted with that match length): it
    accepts exactly the real occurrences, with the right length -/
def checkVerify (pattern content : Bytes) (off : Nat) (caseSensitive : Bool) (res : Option Nat) : Bool :=
  match res with
  | some size => occursAt pattern content off size caseSensitive
  | none => !occursAt pattern content off pattern.length caseSensitive

/-- which exactness clause applies to the query -/
inductive QKind where
  | multi                    -- several atoms: only the general clauses
  | substr (pat : Bytes)     -- one case-sensitive content substring
  | occs                     -- one content substring whose occurrences are given (case-insensitive): `cands` = all occurrences
  | regexp (engine : List (Nat × Nat))  -- one content regular expression; `engine` = the regexp engine's matches (off, len)
  deriving Repr

/-- the content ranges the single-atom clauses demand -/
def expectedSingle (data : Bytes) (lineMode : Bool) (occ : List (Nat × Nat)) : List (Nat × Nat) :=
  if lineMode then occ.flatMap (fun o => cutAtNL data o.1 o.2) else occ

/-- greedy choice of successive leftmost non-overlapping ranges from all occurrences listed by increasing offset -/
def greedyFrom : Nat → List (Nat × Nat) → List (Nat × Nat)
  | _, [] => []
  | pos, o :: r => if o.1 ≥ pos then o :: greedyFrom (o.1 + o.2) r else greedyFrom pos r

/-- the whole statement for one reported file. `groups` = ranges per line match / chunk match, the groups ordered
    by position in the file; `cands` = the matches of every non-negated atom of the query. -/
def checkP (data name : Bytes) (lineMode : Bool) (kind : QKind) (cands : List Cand) (groups : List (List RRange)) : Bool :=
  let all := groups.flatMap id
  let content := all.filter (fun r => !r.fileName)
  inside data name all &&
  groups.all orderedDisjoint && orderedDisjoint content &&
  -- (a file that matches without any text atom contributing a match — e.g. a pure filter query, or atoms only below
  --  `type:file` — is reported with the whole file name as its one range: the documented fallback of gatherMatches)
  all.all (fun r => matchedByAtom data lineMode cands r || (cands.isEmpty && r == ⟨true, 0, name.length⟩)) &&
  (match kind with
   | .multi => true
   | .substr pat =>
     pat.isEmpty ||
     content.map (fun r => (r.off, r.len)) ==
       expectedSingle data lineMode ((leftmostOcc pat data 0 0).map fun o => (o, pat.length))
   | .occs =>
     content.map (fun r => (r.off, r.len)) ==
       expectedSingle data lineMode (greedyFrom 0 (cands.filter (fun c => !c.fileName) |>.map fun c => (c.off, c.sz)))
   | .regexp engine =>
     coverMask data.length ((content.filter (fun r => r.len > 0)).map fun r => (r.off, r.len)) ==
       coverMask data.length (expectedSingle data lineMode (engine.filter (fun m => m.2 > 0))))

end ZoektModel.C02
