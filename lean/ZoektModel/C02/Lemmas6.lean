/-
C02 — helper lemmas, part 6: what the builder samples, and `findOffset`.
-/
import ZoektModel.C02.Lemmas5
namespace ZoektModel.C02
open ZoektModel ZoektModel.C03

/-- number of multiples of `freq` below `r`: how many samples a corpus of `r` runes has -/
def cnt (r : Nat) : Nat := (r + 99) / 100

theorem sampleAux_skip (k : Nat) : ∀ (l : Bytes) (ri bo : Nat), k ≤ l.length →
    sampleAux k l ri bo = sampleAux 0 (l.drop k) ri (bo + k) := by
  induction k with
  | zero => intro l ri bo _; simp
  | succ k ih =>
    intro l ri bo h
    cases l with
    | nil => simp at h
    | cons b rest =>
      simp only [sampleAux, List.drop_succ_cons]
      rw [ih rest ri (bo + 1) (by simpa using h)]
      have : bo + 1 + k = bo + (k + 1) := by omega
      rw [this]

theorem sampleAux_nil (ri bo : Nat) : sampleAux 0 [] ri bo = ([], ri) := rfl

theorem sampleAux_step (data : Bytes) (h : data ≠ []) (ri bo : Nat) :
    sampleAux 0 data ri bo =
      ((if ri % freq = 0 then bo :: (sampleAux 0 (data.drop (runeSize data)) (ri + 1) (bo + runeSize data)).1
        else (sampleAux 0 (data.drop (runeSize data)) (ri + 1) (bo + runeSize data)).1),
       (sampleAux 0 (data.drop (runeSize data)) (ri + 1) (bo + runeSize data)).2) := by
  cases data with
  | nil => exact absurd rfl h
  | cons b rest =>
    have hs := runeSize_pos h
    have hl := runeSize_le (b :: rest)
    simp only [List.length_cons] at hl
    simp only [sampleAux]
    rw [sampleAux_skip _ rest _ _ (by omega)]
    have e1 : bo + 1 + (runeSize (b :: rest) - 1) = bo + runeSize (b :: rest) := by omega
    have e2 : (b :: rest).drop (runeSize (b :: rest)) = rest.drop (runeSize (b :: rest) - 1) := by
      have : runeSize (b :: rest) = (runeSize (b :: rest) - 1) + 1 := by omega
      conv => lhs; rw [this, List.drop_succ_cons]
    rw [e1, e2]

/-- the samples taken over one document starting at global rune index `ri` and global byte offset `bo` -/
theorem sampleAux_spec : ∀ (n : Nat) (data : Bytes) (ri bo : Nat), data.length ≤ n →
    (sampleAux 0 data ri bo).2 = ri + runeCount data ∧
    (sampleAux 0 data ri bo).1.length = cnt (ri + runeCount data) - cnt ri ∧
    ∀ q, cnt ri ≤ q → q < cnt (ri + runeCount data) →
      (sampleAux 0 data ri bo).1.getD (q - cnt ri) 0 = bo + advance (100 * q - ri) data := by
  intro n
  induction n with
  | zero =>
    intro data ri bo h
    have : data = [] := List.length_eq_zero_iff.mp (by omega)
    subst this
    simp only [sampleAux_nil, runeCount_nil, Nat.add_zero, List.length_nil, Nat.sub_self, true_and]
    intro q h1 h2; omega
  | succ n ih =>
    intro data ri bo hlen
    by_cases hd : data = []
    · subst hd
      simp only [sampleAux_nil, runeCount_nil, Nat.add_zero, List.length_nil, Nat.sub_self, true_and]
      intro q h1 h2; omega
    · have hs := runeSize_pos hd
      have hsl := runeSize_le data
      obtain ⟨i1, i2, i3⟩ := ih (data.drop (runeSize data)) (ri + 1) (bo + runeSize data) (by simp; omega)
      rw [sampleAux_step data hd, runeCount_step data hd]
      have erc : ri + (1 + runeCount (data.drop (runeSize data))) = ri + 1 + runeCount (data.drop (runeSize data)) := by omega
      rw [erc]
      refine ⟨i1, ?_, ?_⟩
      · by_cases hm : ri % freq = 0
        · simp only [hm, if_true, List.length_cons, i2]
          simp only [freq] at hm
          simp only [cnt]; omega
        · simp only [hm, if_false, i2]
          simp only [freq] at hm
          simp only [cnt]; omega
      · intro q h1 h2
        by_cases hm : ri % freq = 0
        · simp only [hm, if_true]
          simp only [freq] at hm
          by_cases hq : q = cnt ri
          · subst hq
            have : 100 * cnt ri - ri = 0 := by simp only [cnt]; omega
            simp [this, advance]
          · have hc : cnt (ri + 1) = cnt ri + 1 := by simp only [cnt]; omega
            have e : q - cnt ri = (q - cnt (ri + 1)) + 1 := by omega
            rw [e, List.getD_cons_succ, i3 q (by omega) h2]
            have e2 : 100 * q - ri = (100 * q - (ri + 1)) + 1 := by simp only [cnt] at h1 hq hc; omega
            rw [e2, advance_succ]; omega
        · simp only [hm, if_false]
          simp only [freq] at hm
          have hc : cnt (ri + 1) = cnt ri := by simp only [cnt]; omega
          have := i3 q (by omega) h2
          rw [hc] at this
          rw [this]
          have e2 : 100 * q - ri = (100 * q - (ri + 1)) + 1 := by simp only [cnt] at h1 hc; omega
          rw [e2, advance_succ]; omega

end ZoektModel.C02

namespace ZoektModel.C02
open ZoektModel ZoektModel.C03

/-- what a `postingsBuilder` has recorded after the documents `docs` -/
structure PInv (docs : List Bytes) (p : Posting) : Prop where
  corpus : p.corpus = docs.flatten
  clean : Clean p.corpus
  endByte : p.endByte = p.corpus.length
  rc : p.runeCount = runeCount p.corpus
  slen : p.samples.length = cnt p.runeCount
  sval : ∀ q, q < cnt p.runeCount → p.samples.getD q 0 = advance (100 * q) p.corpus
  erLen : p.endRunes.length = docs.length
  erVal : ∀ i, i < docs.length → p.endRunes.getD i 0 = runeCount (docs.take (i + 1)).flatten
  bdLen : p.boundaries.length = docs.length + 1
  bdVal : ∀ i, i ≤ docs.length → p.boundaries.getD i 0 = (docs.take i).flatten.length
  plain : p.plainASCII = docs.all (fun d => d.all (fun b => decide (b.toNat < 0x80)))

theorem pinv_empty : PInv [] {} where
  corpus := rfl
  clean := clean_nil
  endByte := rfl
  rc := rfl
  slen := rfl
  sval := by intro q h; simp [cnt] at h
  erLen := rfl
  erVal := by intro i h; simp at h
  bdLen := rfl
  bdVal := by intro i h; simp at h; subst h; rfl
  plain := rfl

theorem getD_append_left {α} (l1 l2 : List α) (i : Nat) (d : α) (h : i < l1.length) : (l1 ++ l2).getD i d = l1.getD i d := by
  simp [List.getD_eq_getElem?_getD, List.getElem?_append_left h]

theorem getD_append_right' {α} (l1 l2 : List α) (i : Nat) (d : α) (h : l1.length ≤ i) :
    (l1 ++ l2).getD i d = l2.getD (i - l1.length) d := by
  simp [List.getD_eq_getElem?_getD, List.getElem?_append_right h]

theorem pinv_add (docs : List Bytes) (p : Posting) (d : Bytes) (inv : PInv docs p) (hd : Clean d) :
    PInv (docs ++ [d]) (p.add d) := by
  obtain ⟨s1, s2, s3⟩ := sampleAux_spec d.length d p.runeCount p.endByte (Nat.le_refl _)
  have hrc : runeCount (p.corpus ++ d) = runeCount p.corpus + runeCount d := runeCount_append inv.clean d
  have hmono : cnt p.runeCount ≤ cnt (p.runeCount + runeCount d) := by simp only [cnt]; omega
  refine { corpus := ?_, clean := ?_, endByte := ?_, rc := ?_, slen := ?_, sval := ?_, erLen := ?_, erVal := ?_,
           bdLen := ?_, bdVal := ?_, plain := ?_ }
  · simp [Posting.add, inv.corpus]
  · simp only [Posting.add]; exact clean_append inv.clean hd
  · simp [Posting.add, inv.endByte]
  · simp only [Posting.add]; rw [s1, hrc, inv.rc]
  · simp only [Posting.add, List.length_append]; rw [s1, s2, inv.slen]; omega
  · intro q hq
    simp only [Posting.add] at hq ⊢
    rw [s1] at hq
    by_cases hold : q < cnt p.runeCount
    · rw [getD_append_left _ _ _ _ (by rw [inv.slen]; exact hold), inv.sval q hold]
      -- an old sample: the rune lies in the old corpus
      have hlt : 100 * q ≤ runeCount p.corpus := by rw [← inv.rc]; simp only [cnt] at hold; omega
      exact (advance_append_of_boundary _ _ d (inv.clean d) hlt).symm
    · rw [getD_append_right' _ _ _ _ (by rw [inv.slen]; omega), inv.slen, s3 q (by omega) hq]
      have hge : p.runeCount ≤ 100 * q := by simp only [cnt] at hold; omega
      have e : 100 * q = runeCount p.corpus + (100 * q - p.runeCount) := by rw [← inv.rc]; omega
      rw [e, advance_append inv.clean, inv.endByte]
      have e3 : runeCount p.corpus + (100 * q - p.runeCount) - p.runeCount = 100 * q - p.runeCount := by
        rw [← inv.rc]; omega
      rw [e3]
  · simp [Posting.add, inv.erLen]
  · intro i hi
    simp only [List.length_append, List.length_singleton] at hi
    simp only [Posting.add]
    by_cases hlt : i < docs.length
    · rw [getD_append_left _ _ _ _ (by rw [inv.erLen]; exact hlt), inv.erVal i hlt,
        List.take_append_of_le_length (by omega)]
    · have : i = docs.length := by omega
      subst this
      rw [getD_append_right' _ _ _ _ (by rw [inv.erLen]; omega), inv.erLen]
      simp only [Nat.sub_self, List.getD_cons_zero]
      rw [s1, List.take_of_length_le (by simp), List.flatten_append, ← inv.corpus]
      simp only [List.flatten_cons, List.flatten_nil, List.append_nil]
      rw [hrc, inv.rc]
  · simp [Posting.add, inv.bdLen]
  · intro i hi
    simp only [List.length_append, List.length_singleton] at hi
    simp only [Posting.add]
    by_cases hlt : i ≤ docs.length
    · rw [getD_append_left _ _ _ _ (by rw [inv.bdLen]; omega), inv.bdVal i hlt,
        List.take_append_of_le_length hlt]
    · have : i = docs.length + 1 := by omega
      subst this
      rw [getD_append_right' _ _ _ _ (by rw [inv.bdLen]; omega), inv.bdLen]
      simp only [Nat.sub_self, List.getD_cons_zero]
      rw [List.take_of_length_le (by simp), List.flatten_append, ← inv.corpus, inv.endByte]
      simp
  · simp [Posting.add, inv.plain, List.all_append]

theorem pinv_foldl (ds : List Bytes) : ∀ (docs : List Bytes) (p : Posting), PInv docs p → (∀ d ∈ ds, Clean d) →
    PInv (docs ++ ds) (ds.foldl Posting.add p) := by
  induction ds with
  | nil => intro docs p inv _; simpa using inv
  | cons d t ih =>
    intro docs p inv h
    simp only [List.foldl_cons]
    have := ih (docs ++ [d]) (p.add d) (pinv_add docs p d inv (h d (by simp))) (fun x hx => h x (by simp [hx]))
    simpa using this

theorem pinv_ofDocs (docs : List Bytes) (h : ∀ d ∈ docs, Clean d) : PInv docs (Posting.ofDocs docs) := by
  have := pinv_foldl docs [] {} pinv_empty h
  simpa [Posting.ofDocs] using this

theorem clean_flatten (docs : List Bytes) (h : ∀ d ∈ docs, Clean d) : Clean docs.flatten := by
  induction docs with
  | nil => exact clean_nil
  | cons d t ih =>
    simp only [List.flatten_cons]
    exact clean_append (h d (by simp)) (ih (fun x hx => h x (by simp [hx])))

end ZoektModel.C02
