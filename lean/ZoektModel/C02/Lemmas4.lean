/-
C02 — helper lemmas, part 4: makeRuneOffsetMap / lookup return the sampled byte offset.
-/
import ZoektModel.C02.Lemmas3
import ZoektModel.C03.Lemmas
namespace ZoektModel.C02
open ZoektModel ZoektModel.C03

/-- the byte offset the map assigns to rune offset `ro`: the last correction at or before `ro`, extrapolated one byte
    per rune; `cur` = the value if no correction applies -/
def interp (cur : Nat) : List Corr → Nat → Nat
  | [], _ => cur
  | c :: r, ro => if c.runeOffset ≤ ro then interp (c.byteOffset + ro - c.runeOffset) r ro else cur

theorem makeRomAux_ge (S : List Nat) (i e : Nat) : ∀ c ∈ makeRomAux S i e, i * freq ≤ c.runeOffset := by
  induction S generalizing i e with
  | nil => simp [makeRomAux]
  | cons b r ih =>
    intro c hc
    simp only [makeRomAux] at hc
    split at hc
    · rcases List.mem_cons.mp hc with rfl | hc
      · exact Nat.le_refl _
      · have := ih (i + 1) _ c hc
        have : i * freq ≤ (i + 1) * freq := Nat.mul_le_mul_right _ (by omega)
        omega
    · have := ih (i + 1) _ c hc
      have : i * freq ≤ (i + 1) * freq := Nat.mul_le_mul_right _ (by omega)
      omega

theorem makeRomAux_sorted (S : List Nat) (i e : Nat) :
    (makeRomAux S i e).Pairwise (fun a b => a.runeOffset < b.runeOffset) := by
  induction S generalizing i e with
  | nil => simp [makeRomAux]
  | cons b r ih =>
    simp only [makeRomAux]
    split
    · refine List.pairwise_cons.mpr ⟨?_, ih _ _⟩
      intro c hc
      have := makeRomAux_ge r (i + 1) _ c hc
      simp only [freq] at this ⊢
      omega
    · exact ih _ _

theorem interp_head_gt (cur : Nat) (m : List Corr) (ro : Nat) (h : ∀ c ∈ m, ro < c.runeOffset) : interp cur m ro = cur := by
  cases m with
  | nil => rfl
  | cons c r =>
    have := h c (by simp)
    simp only [interp]
    have : ¬ c.runeOffset ≤ ro := by omega
    simp [this]

/-- the map reproduces every sample -/
theorem interp_makeRomAux (S : List Nat) (i e q : Nat) (h1 : i ≤ q) (h2 : q < i + S.length) :
    interp (e + freq * (q - i)) (makeRomAux S i e) (q * freq) = S.getD (q - i) 0 := by
  induction S generalizing i e with
  | nil => simp at h2; omega
  | cons b r ih =>
    simp only [List.length_cons] at h2
    simp only [makeRomAux]
    have hgt : q = i → ∀ c ∈ makeRomAux r (i + 1) (b + freq), q * freq < c.runeOffset := by
      intro hq c hc
      have := makeRomAux_ge r (i + 1) _ c hc
      subst hq
      simp only [freq] at this ⊢
      omega
    by_cases hb : b ≠ e
    · simp only [hb, ne_eq, not_false_eq_true, if_true, interp]
      have hle : i * freq ≤ q * freq := Nat.mul_le_mul_right _ h1
      simp only [hle, if_true]
      by_cases hq : q = i
      · rw [interp_head_gt _ _ _ (hgt hq)]
        subst hq; simp
      · have := ih (i + 1) (b + freq) (by omega) (by omega)
        have e1 : q - i = (q - (i + 1)) + 1 := by omega
        rw [e1, List.getD_cons_succ, ← this]
        congr 1
        simp only [freq] at hle ⊢
        omega
    · have hbe : b = e := by simpa using hb
      subst hbe
      simp only [ne_eq, not_true_eq_false, if_false]
      by_cases hq : q = i
      · rw [interp_head_gt _ _ _ (hgt hq)]
        subst hq; simp
      · have := ih (i + 1) (b + freq) (by omega) (by omega)
        have e1 : q - i = (q - (i + 1)) + 1 := by omega
        rw [e1, List.getD_cons_succ, ← this]
        congr 1
        simp only [freq]
        omega

/-- `interp` in terms of the number `c` of corrections at or before `ro` -/
theorem interp_threshold (m : List Corr) (ro : Nat) : ∀ (cur c : Nat), c ≤ m.length →
    (∀ k, k < c → (m.getD k default).runeOffset ≤ ro) → (∀ k, c ≤ k → k < m.length → ro < (m.getD k default).runeOffset) →
    interp cur m ro = if c = 0 then cur else (m.getD (c - 1) default).byteOffset + ro - (m.getD (c - 1) default).runeOffset := by
  induction m with
  | nil => intro cur c hc _ _; simp at hc; subst hc; rfl
  | cons x t ih =>
    intro cur c hc h1 h2
    cases c with
    | zero =>
      have := h2 0 (Nat.le_refl _) (by simp)
      simp only [List.getD_cons_zero] at this
      have : ¬ x.runeOffset ≤ ro := by omega
      simp [interp, this]
    | succ c' =>
      have hx := h1 0 (by omega)
      simp only [List.getD_cons_zero] at hx
      simp only [interp, hx, if_true]
      rw [ih _ c' (by simpa using hc) (fun k hk => by simpa using h1 (k + 1) (by omega))
        (fun k hk1 hk2 => by simpa using h2 (k + 1) (by omega) (by simpa using hk2))]
      cases c' with
      | zero => simp
      | succ c'' => simp

/-- **`runeOffsetMap.lookup` over `makeRuneOffsetMap`**: for every list of samples and every rune offset inside the
    sampled range, the lookup returns the sample of the enclosing window and the number of runes left to walk -/
theorem lookup_exact (S : List Nat) (R : Nat) (h : R / freq < S.length) :
    lookup (makeRuneOffsetMap S) R = (S.getD (R / freq) 0, R % freq) := by
  have hro : R - R % freq = (R / freq) * freq := by
    have := Nat.div_add_mod R freq
    have := Nat.mul_comm freq (R / freq)
    omega
  have hval := interp_makeRomAux S 0 0 (R / freq) (Nat.zero_le _) (by omega)
  simp only [Nat.sub_zero, Nat.zero_add] at hval
  have hsorted := makeRomAux_sorted S 0 0
  unfold lookup makeRuneOffsetMap
  simp only
  rw [hro]
  generalize hm : makeRomAux S 0 0 = m at *
  by_cases hlen : m.length = 0
  · have : m = [] := List.length_eq_zero_iff.mp hlen
    subst this
    simp only [List.length_nil, if_true]
    simp only [interp] at hval
    have e0 : freq * (R / freq) = R / freq * freq := Nat.mul_comm _ _
    rw [← hval, e0]
  · simp only [hlen, if_false]
    -- the search finds the number of corrections that do not apply, counted from the end
    have hmono : ∀ a b, 0 ≤ a → a ≤ b → b < m.length →
        (fun i => decide (R / freq * freq ≥ (m.getD (m.length - 1 - i) default).runeOffset)) a = true →
        (fun i => decide (R / freq * freq ≥ (m.getD (m.length - 1 - i) default).runeOffset)) b = true := by
      intro a b _ hab hb ha
      simp only [ge_iff_le, decide_eq_true_eq] at ha ⊢
      rcases Nat.lt_or_eq_of_le hab with hlt | heq
      · have h1 : m.length - 1 - b < m.length - 1 - a := by omega
        have h2 : m.length - 1 - a < m.length := by omega
        have h3 : m.length - 1 - b < m.length := by omega
        have := List.pairwise_iff_getElem.mp hsorted _ _ h3 h2 h1
        have ea : m.getD (m.length - 1 - a) default = m[m.length - 1 - a] := by
          simp [List.getD_eq_getElem?_getD, List.getElem?_eq_getElem h2]
        have eb : m.getD (m.length - 1 - b) default = m[m.length - 1 - b] := by
          simp [List.getD_eq_getElem?_getD, List.getElem?_eq_getElem h3]
        rw [ea] at ha
        rw [eb]
        omega
      · subst heq; exact ha
    obtain ⟨_, s2, s3, s4⟩ := search_spec _ m.length 0 m.length rfl (Nat.zero_le _) hmono
    generalize search (fun i => decide (R / freq * freq ≥ (m.getD (m.length - 1 - i) default).runeOffset)) 0 m.length = i at *
    have hthr := interp_threshold m (R / freq * freq) (freq * (R / freq)) (m.length - i) (by omega)
      (by
        intro k hk
        have := s4 (m.length - 1 - k) (by omega) (by omega)
        simp only [ge_iff_le, decide_eq_true_eq] at this
        have e : m.length - 1 - (m.length - 1 - k) = k := by omega
        rwa [e] at this)
      (by
        intro k hk1 hk2
        have := s3 (m.length - 1 - k) (Nat.zero_le _) (by omega)
        simp only [ge_iff_le, decide_eq_false_iff_not] at this
        have e : m.length - 1 - (m.length - 1 - k) = k := by omega
        rw [e] at this
        omega)
    rw [hthr] at hval
    by_cases hi : i < m.length
    · have hne : ¬ (m.length - i = 0) := by omega
      simp only [hne, if_false] at hval
      have e : m.length - i - 1 = m.length - 1 - i := by omega
      rw [e] at hval
      simp only [hi, if_true, hval]
    · have he : m.length - i = 0 := by omega
      simp only [he, if_true] at hval
      simp only [hi, if_false]
      have e0 : freq * (R / freq) = R / freq * freq := Nat.mul_comm _ _
      rw [← hval, e0]

end ZoektModel.C02
