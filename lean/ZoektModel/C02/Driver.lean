import ZoektModel.Basic.Proto
import ZoektModel.C02.Spec
import ZoektModel.C03.Render
namespace ZoektModel.C02
open ZoektModel ZoektModel.Proto ZoektModel.C03

/-- atoms: `kind:wrap:known:cands` joined by `;` (`-` = none) -/
def parseAtoms (s : String) : Option (List Atom) :=
  if s == "-" then some [] else
  (s.splitOn ";").mapM fun a =>
    match a.splitOn ":" with
    | [k, w, kn, cs] => do pure ⟨← k.toNat?, ← w.toNat?, (← kn.toNat?) == 1, ← parseCands cs⟩
    | _ => none

/-- match trees: `a<kind>[cands]` atom, `x` other leaf, `A(..)` and, `O(..)` or, `L(..)` andLine with children
    `<known 0|1><tree>` separated by `;`, and the unary `N` not, `V` noVisit, `F` fileName, `B` boost, `S` symbolSubstr -/
partial def parseMT : List Char → Option (MT × List Char)
  | 'x' :: r => some (.other, r)
  | 'a' :: k :: '[' :: r =>
    let body := r.takeWhile (· != ']')
    let rest := (r.dropWhile (· != ']')).drop 1
    match (String.ofList [k]).toNat?, (if body.isEmpty then some [] else parseCands (String.ofList body)) with
    | some kind, some cs => some (.atom kind cs, rest)
    | _, _ => none
  | 'N' :: r => (parseMT r).map fun (t, r') => (.not t, r')
  | 'V' :: r => (parseMT r).map fun (t, r') => (.noVisit t, r')
  | 'F' :: r => (parseMT r).map fun (t, r') => (.fileName t, r')
  | 'B' :: r => (parseMT r).map fun (t, r') => (.boost t, r')
  | 'S' :: r => (parseMT r).map fun (t, r') => (.symbolSubstr t, r')
  | c :: '(' :: r =>
    if c != 'A' && c != 'O' && c != 'L' then none else
    let rec children (cs : List Char) (acc : List (Bool × MT)) : Option (List (Bool × MT) × List Char) :=
      match cs with
      | ')' :: r' => some (acc.reverse, r')
      | ';' :: r' => children r' acc
      | k :: r' =>
        match parseMT r' with
        | some (t, r'') => children r'' ((k == '1', t) :: acc)
        | none => none
      | [] => none
    match children r [] with
    | some (ch, r') => some ((if c == 'A' then MT.and ch else if c == 'O' then MT.or ch else MT.andLine ch), r')
    | none => none
  | _ => none

def parseHexList (s : String) : Option (List Bytes) :=
  if s == "_" then some [] else (s.splitOn ";").mapM hexToBytes?

def showPairs (l : List (Nat × Nat)) : String := showList (fun p => s!"{p.1}.{p.2}") l

def parsePairs (s : String) : Option (List (Nat × Nat)) :=
  if s == "-" then some [] else
  (s.splitOn ",").mapM fun e =>
    match e.splitOn "." with
    | [a, b] => do pure (← a.toNat?, ← b.toNat?)
    | _ => none

/-- byte offsets at which the runes of `data` start, plus the end offset: the specification of `findOffset` -/
def runeStarts : Nat → Bytes → Nat → List Nat
  | _, [], pos => [pos]
  | 0, b :: rest, pos => pos :: runeStarts (runeSize (b :: rest) - 1) rest (pos + 1)
  | k + 1, _ :: rest, pos => runeStarts k rest (pos + 1)

def parseKind (s : String) : Option QKind :=
  if s == "multi" then some .multi
  else if s == "occs" then some .occs
  else if s.startsWith "re:" then (parsePairs (s.drop 3).toString).map .regexp
  else if s.startsWith "sub:" then (hexToBytes? (s.drop 4).toString).map .substr
  else none

def handle (line : String) : String :=
  let (inp, impl) := splitCase line
  match fields inp with
  -- gather <nameHex> <rootOr> <atoms>
  | ["gather", nameHex, _rootOr, atoms] =>
    match hexToBytes? nameHex, parseAtoms atoms with
    | some name, some atoms =>
      let model := showCands (gatherMatches name atoms)
      match parseCands impl with
      | none => badCase "impl cands"
      | some got =>
        if checkGather name (collect atoms) got then answer model else specFail model "gather"
    | _, _ => badCase "gather fields"
  -- gathert <nameHex> <tree>: gatherMatches over a real (nested) match tree
  | ["gathert", nameHex, tree] =>
    match hexToBytes? nameHex, parseMT tree.toList with
    | some name, some (t, []) =>
      let model := showCands (gatherTree name t)
      match parseCands impl with
      | none => badCase "impl cands"
      | some got => if checkGather name (visit t) got then answer model else specFail model "gather"
    | _, _ => badCase "gathert fields"
  -- verify <cs 0|1> <patternHex> <contentHex> <off>: candidateMatch.matchContent (ASCII texts)
  | ["verify", cs, patHex, contentHex, off] =>
    match bool? cs, hexToBytes? patHex, hexToBytes? contentHex, off.toNat? with
    | some cs, some pat, some content, some off =>
      let showRes : Option Nat → String := fun r => match r with | some n => s!"ok:{n}" | none => "no"
      let model := showRes (matchContentASCII pat content off cs)
      let res : Option (Option Nat) :=
        if impl == "no" then some none
        else if impl.startsWith "ok:" then (impl.drop 3).toString.toNat?.map some
        else none
      match res with
      | none => if impl == "panic" then specFail model "verify-panic" else badCase "impl verify"
      | some r => if checkVerify pat content off cs r then answer model else specFail model "verify"
    | _, _, _, _ => badCase "verify fields"
  -- brk <textHex> <cands>
  | ["brk", textHex, cands] =>
    match hexToBytes? textHex, parseCands cands with
    | some text, some cands =>
      let model := showCands (breakMatchesOnNewlines text cands)
      match parseCands impl with
      | none => badCase "impl cands"
      | some got =>
        let want := cands.flatMap fun c => (cutAtNL text c.off c.sz).map fun p => (⟨c.fileName, p.1, p.2⟩ : Cand)
        if got == want then answer model else specFail model "break"
    | _, _ => badCase "brk fields"
  -- rom <offs> <runeOffsets>
  | ["rom", offs, rs] =>
    match natList? offs, natList? rs with
    | some offs, some rs =>
      let m := makeRuneOffsetMap offs
      answer s!"m={showPairs (m.map fun c => (c.runeOffset, c.byteOffset))} res={showPairs (rs.map (lookup m))}"
    | _, _ => badCase "rom fields"
  -- findoff <fn> <idx> <contents> <names>: findOffset for every rune index 0..runeCount of document idx
  | ["findoff", fn, idx, contents, names] =>
    match bool? fn, idx.toNat?, parseHexList contents, parseHexList names with
    | some fn, some idx, some contents, some names =>
      let pc := Posting.ofDocs contents
      let pn := Posting.ofDocs names
      let plain := pc.plainASCII && pn.plainASCII
      let doc := (if fn then names else contents).getD idx []
      let n := runeCount doc
      let p := if fn then pn else pc
      let lim := if fn then none else some (readLen 4)
      match natList? impl with
      | none => if impl == "ERR" then specFail "?" "findoffset-error" else badCase "impl offsets"
      | some got =>
        -- the harness asks for every rune index of the document and (except at the very end of the corpus) for the
        -- end-of-document index: n or n + 1 answers
        if got.length < n || got.length > n + 1 then badCase "number of offsets" else
        let model := showNatList ((List.range got.length).map (findOffset p plain lim idx))
        if got == (runeStarts 0 doc 0).take got.length then answer model else specFail model "findoffset"
    | _, _, _, _ => badCase "findoff fields"
  -- e2e <mode> <ctx> <contentHex> <nameHex> <kind> <cands>
  | ["e2e", mode, ctx, dataHex, nameHex, kind, cands] =>
    match ctx.toNat?, hexToBytes? dataHex, hexToBytes? nameHex, parseKind kind, parseCands cands with
    | some ctx, some data, some name, some kind, some cands =>
      if mode == "l" then
        let model := match reportLines data name ctx cands with
          | none => "PANIC"
          | some lms => showLines lms
        if impl == "PANIC" then specFail model "panic" else
        match parseLines impl with
        | none => badCase "impl lines"
        | some lms =>
          if checkP data name true kind cands (rangesOfLines lms) then answer model else specFail model "ranges-lines"
      else if mode == "c" then
        let model := showChunks (reportChunks data name ctx cands)
        if impl == "PANIC" then specFail model "panic" else
        match parseChunks impl with
        | none => badCase "impl chunks"
        | some cms =>
          if checkP data name false kind cands (rangesOfChunks cms) then answer model else specFail model "ranges-chunks"
      else badCase "mode"
    | _, _, _, _, _ => badCase "e2e fields"
  | _ => badCase "op"

def main : IO Unit := runLines handle
end ZoektModel.C02
