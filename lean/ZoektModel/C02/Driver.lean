import ZoektModel.Basic.Proto
namespace ZoektModel.C02
/-- stub: no model driver for C02 yet -/
def main : IO Unit := ZoektModel.Proto.runLines (fun _ => ZoektModel.Proto.badCase "no model driver for C02")
end ZoektModel.C02
