import ZoektModel.Basic.Proto
namespace ZoektModel.C07
/-- stub: no model driver for C07 yet -/
def main : IO Unit := ZoektModel.Proto.runLines (fun _ => ZoektModel.Proto.badCase "no model driver for C07")
end ZoektModel.C07
