import ZoektModel.Basic.Proto
import ZoektModel.C07.Spec
namespace ZoektModel.C07
open ZoektModel ZoektModel.Proto

def toB (l : List UInt8) : B := l.map (·.toNat)
def ofB (b : B) : List UInt8 := b.map UInt8.ofNat
def hexB (b : B) : String := bytesToHex (ofB b)
def unhexB (s : String) : Option B := (hexToBytes? s).map toB

def bit (b : Bool) : String := if b then "1" else "0"

mutual
/-- canonical rendering of a query tree, the same format the harness prints the Go value in -/
def canon : Q → String
  | .and cs => "(and" ++ canonList cs ++ ")"
  | .or cs => "(or" ++ canonList cs ++ ")"
  | .not c => "(not " ++ canon c ++ ")"
  | .type t c => s!"(type {t} " ++ canon c ++ ")"
  | .nil => "nil"
  | .const v => if v then "T" else "F"
  | .substr p cs f c _ => s!"(sub {hexB p} {bit cs}{bit f}{bit c})"
  | .regexp r _ _ cs f c _ => s!"(re {hexB r} {bit cs}{bit f}{bit c})"
  | .repo r => s!"(repo {hexB r})"
  | .rawConfig n => s!"(rc {n})"
  | .branch p => s!"(br {hexB p})"
  | .lang n => s!"(lang {hexB n})"
  | .sym e => "(sym " ++ canon e ++ ")"
  | .metaQ f v => s!"(meta {hexB f} {hexB v})"
  | .caseQ f => s!"(case {hexB f})"
  | .orOp => "orOp"
  | .caseScope c => "(scope " ++ canon c ++ ")"
def canonList : List Q → String
  | [] => ""
  | q :: qs => " " ++ canon q ++ canonList qs
end

structure OEntry where
  text : B
  rq : RQ
  compiles : Bool
  lang : Option B

def parseRQ (s : String) : Option RQ :=
  if s == "e" then some .err
  else if s.startsWith "l" then (unhexB (s.drop 1).toString).map .lit
  else if s.startsWith "r" then
    match (s.drop 1).toString.splitOn "." with
    | [h, a, e] => do
      let h ← unhexB h
      let a ← bool? a
      let e ← bool? e
      pure (.re h a e)
    | _ => none
  else none

def parseEntry (s : String) : Option OEntry :=
  match s.splitOn "/" with
  | [t, rq, cp, lg] => do
    let t ← unhexB t
    let rq ← parseRQ rq
    let cp ← bool? cp
    let lg ← if lg == "n" then some none
             else if lg.startsWith "y" then (unhexB (lg.drop 1).toString).map some else none
    pure ⟨t, rq, cp, lg⟩
  | _ => none

def parseOracleTable (s : String) : Option (List OEntry) :=
  if s == "-" then some [] else (s.splitOn ",").mapM parseEntry

/-- oracle from a table; `dflt` selects what a missing key answers (the driver runs the model with both
    defaults: if the answers differ, the model consulted a key the harness did not supply) -/
def mkOracle (tbl : List OEntry) (dflt : Bool) : Oracle :=
  let find (t : B) := tbl.find? (fun e => e.text == t)
  { rq := fun t => match find t with
      | some e => e.rq
      | none => if dflt then .lit [1] else .err
    compiles := fun t => match find t with
      | some e => e.compiles
      | none => dflt
    lang := fun t => match find t with
      | some e => e.lang
      | none => if dflt then some [1] else none }

def renderTok (o : Outcome (Option Token)) : String :=
  match o with
  | .ok none => "nil"
  | .ok (some t) => s!"ok {t.typ} {hexB t.text} {t.input.length}"
  | .err _ => "err"
  | .panic s => "panic:" ++ s
  | .diverge => "diverge"

def renderParse (O : Oracle) (s : B) : String × Obs :=
  let obs := observe O s
  match parse O s with
  | .ok q => (s!"P=ok T={canon q} W={obs.proto} M={if obs.mtree == "err" then "ok" else obs.mtree}", obs)
  | _ => (s!"P={obs.parse}", obs)

/-- `P=… [T=… W=… M=…]` from the harness → observation -/
def parseImplObs (s : String) : Option Obs :=
  let fs := fields s
  let get (k : String) : Option String :=
    (fs.find? (·.startsWith k)).map fun f => (f.drop k.length).toString
  match get "P=" with
  | none => none
  | some p =>
    if p == "ok" then do
      let w ← get "W="
      let m ← get "M="
      let st ← get "S="
      pure { parse := p, str := st, proto := w, mtree := m }
    else some { parse := p }

def handle (line : String) : String :=
  let (inp, impl) := splitCase line
  match fields inp with
  | ["tok", h] =>
    match unhexB h with
    | some b =>
      let m := renderTok (nextToken b)
      if impl.startsWith "panic" then specFail m ("tok:" ++ impl) else answer m
    | none => badCase "hex"
  | ["psl", h] =>
    match unhexB h with
    | some b =>
      let m := match parseStringLiteral b with
        | .ok (lit, n) => s!"ok {hexB lit} {n}"
        | .err _ => "err" | .panic s => "panic:" ++ s | .diverge => "diverge"
      if impl.startsWith "panic" then specFail m ("psl:" ++ impl) else answer m
    | none => badCase "hex"
  | ["parse", h, tbl] =>
    match unhexB h, parseOracleTable tbl with
    | some b, some tbl =>
      let (m1, _) := renderParse (mkOracle tbl false) b
      let (m2, _) := renderParse (mkOracle tbl true) b
      if m1 != m2 then badCase "oracle table lacks a key the model consulted" else
      -- the model prints S= only implicitly (always ok); the harness prints it
      match parseImplObs impl with
      | none => badCase "impl output"
      | some iobs =>
        let m := if m1.startsWith "P=ok" then m1 ++ " S=ok" else m1
        if !checkP iobs then specFail m (failKey iobs) else answer m
    | _, _ => badCase "fields"
  | ["json", kind, h, tbl] =>
    match unhexB h, parseOracleTable tbl with
    | some b, some tbl =>
      let isSearch := kind == "search"
      let m1 := jsonStatus (mkOracle tbl false) isSearch b
      let m2 := jsonStatus (mkOracle tbl true) isSearch b
      if m1 != m2 then badCase "oracle table lacks a key the model consulted" else
      if impl == "400" || impl == "run" then answer m1 else specFail m1 ("json:" ++ impl)
    | _, _ => badCase "fields"
  | _ => badCase "op"

def main : IO Unit := runLines handle
end ZoektModel.C07
