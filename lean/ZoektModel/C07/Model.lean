/-
C06/C07 — Lean port of query/parse.go (`parseStringLiteral`, `nextToken`, `token.setType`, `parseExpr`,
`parseExprList`, `parseOperators`, `stripCaseScopes`, `Parse`), of the parts of query/query.go that `Parse` runs
(`setCase`, `Map`, `evalConstants`, `flatten`, `Simplify`), and of the node-kind dispatch of
`query.QToProto` and `index.(*indexData).newMatchTree`.

Conventions
* bytes are `Nat`s (the driver feeds values < 256; the theorems hold for every list of naturals);
* every Go slice expression whose bound is not checked on the line before it is an explicit `Outcome`
  (`sliceFrom`, `sliceTo`, `subLen`); every Go loop that is not a `range` over a list runs on fuel and
  returns `Outcome.diverge` when the fuel runs out (Props/C07.lean proves that it never does);
* what `Parse` takes from other packages is a parameter `Oracle`: `regexp/syntax.Parse` + `OptimizeRegexp` +
  the literal test of `RegexpQuery`, `regexp.Compile`, `languages.GetLanguageByNameOrAlias`;
  for texts made of plain characters only (`isPlainLit`) the model does not ask the oracle: they are literals.
* model follows the tree *after* the three `fix:` commits (Meta in QToProto; `-case:`/`-type:` rejected by the
  parser; `type:filematch` / `type:repo` in newMatchTree).
-/
import ZoektModel.Basic.Outcome
namespace ZoektModel.C07
open ZoektModel

abbrev B := List Nat

/-! ## token kinds (query/parse.go const block; tied to the source by `Gen.parseTokKinds` in Props) -/
def tokText := 0
def tokFile := 1
def tokRepo := 2
def tokCase := 3
def tokBranch := 4
def tokParenOpen := 5
def tokParenClose := 6
def tokError := 7
def tokNegate := 8
def tokRegex := 9
def tokOr := 10
def tokContent := 11
def tokLang := 12
def tokSym := 13
def tokType := 14
def tokArchived := 15
def tokPublic := 16
def tokFork := 17
def tokMeta := 18

def tokKinds : List (String × Nat) :=
  [("tokText", 0), ("tokFile", 1), ("tokRepo", 2), ("tokCase", 3), ("tokBranch", 4), ("tokParenOpen", 5),
   ("tokParenClose", 6), ("tokError", 7), ("tokNegate", 8), ("tokRegex", 9), ("tokOr", 10), ("tokContent", 11),
   ("tokLang", 12), ("tokSym", 13), ("tokType", 14), ("tokArchived", 15), ("tokPublic", 16), ("tokFork", 17),
   ("tokMeta", 18)]

/-- `prefixes` of query/parse.go, as bytes (tied to the source by `Gen.parsePrefixes` in Props) -/
def prefixes : List (B × Nat) :=
  [([97,114,99,104,105,118,101,100,58], 15),   -- archived:
   ([98,58], 4),                               -- b:
   ([98,114,97,110,99,104,58], 4),             -- branch:
   ([99,58], 11),                              -- c:
   ([99,97,115,101,58], 3),                    -- case:
   ([99,111,110,116,101,110,116,58], 11),      -- content:
   ([102,58], 1),                              -- f:
   ([102,105,108,101,58], 1),                  -- file:
   ([102,111,114,107,58], 17),                 -- fork:
   ([112,117,98,108,105,99,58], 16),           -- public:
   ([114,58], 2),                              -- r:
   ([114,101,103,101,120,58], 9),              -- regex:
   ([114,101,112,111,58], 2),                  -- repo:
   ([108,97,110,103,58], 12),                  -- lang:
   ([115,121,109,58], 13),                     -- sym:
   ([116,58], 14),                             -- t:
   ([116,121,112,101,58], 14),                 -- type:
   ([109,101,116,97,46], 18)]                  -- meta.

/-- `reservedWords` -/
def reservedWords : List (B × Nat) := [([111,114], 10)]  -- or

/-! ## query nodes -/

/-- `query.Q` values that the parser can build. `nil` is Go's nil interface (the child of a bare `type:` token);
    `caseQ`, `orOp`, `caseScope` are the parse-time nodes `*caseQ`, `*orOperator`, `*caseScopeQ`.
    `regexp`: `re` = `RegexpString()` of the optimised regexp, `empty` = (`Op == OpEmptyMatch`),
    `autoCS` = what `setCase("auto")` computes (`!r.Equal(LowerRegexp(r))`), all three from the oracle.
    `src` (Substring/Regexp) is the atom text the node was built from; it is not part of the Go value and is
    not printed — C06 uses it to look up the truth of the atom. -/
inductive Q where
  | and (cs : List Q)
  | or (cs : List Q)
  | not (c : Q)
  | type (t : Nat) (c : Q)
  | nil
  | const (v : Bool)
  | substr (pat : B) (cs file content : Bool) (src : B)
  | regexp (re : B) (empty autoCS : Bool) (cs file content : Bool) (src : B)
  | repo (re : B)
  | rawConfig (flags : Nat)
  | branch (pat : B)
  | lang (name : B)
  | sym (e : Q)
  | metaQ (field value : B)
  | caseQ (flavor : B)
  | orOp
  | caseScope (c : Q)
  deriving Repr, Inhabited

/-- name of the Go type, as it appears (normalised) in the `case` lists of the type switches -/
def Q.kind : Q → String
  | .and _ => "And" | .or _ => "Or" | .not _ => "Not" | .type _ _ => "Type" | .nil => "nil"
  | .const _ => "Const" | .substr .. => "Substring" | .regexp .. => "Regexp" | .repo _ => "Repo"
  | .rawConfig _ => "RawConfig" | .branch _ => "Branch" | .lang _ => "Language" | .sym _ => "Symbol"
  | .metaQ .. => "Meta" | .caseQ _ => "caseQ" | .orOp => "orOperator" | .caseScope _ => "caseScopeQ"

/-! ## what the parser takes from other packages -/

/-- outcome of `syntax.Parse(text, regexpFlags)`, `OptimizeRegexp`, and the `Op == OpLiteral` test -/
inductive RQ where
  | err
  | lit (pat : B)
  | re (s : B) (autoCS empty : Bool)
  deriving Repr, Inhabited

structure Oracle where
  rq : B → RQ
  compiles : B → Bool          -- `regexp.Compile(text)` succeeds
  lang : B → Option B          -- `languages.GetLanguageByNameOrAlias`

/-- characters that are ordinary in a regular expression *and* need no oracle: ASCII letters, digits and
    `space ! " # % & ' , - / : ; < = > @ _ ~` and backquote -/
def isPlainChar (c : Nat) : Bool :=
  (48 ≤ c && c ≤ 57) || (65 ≤ c && c ≤ 90) || (97 ≤ c && c ≤ 122) ||
  c == 32 || c == 33 || c == 34 || c == 35 || c == 37 || c == 38 || c == 39 || c == 44 || c == 45 ||
  c == 47 || c == 58 || c == 59 || c == 60 || c == 61 || c == 62 || c == 64 || c == 95 || c == 96 || c == 126

def isPlainLit (t : B) : Bool := !t.isEmpty && t.all isPlainChar

def classify (O : Oracle) (t : B) : RQ := if isPlainLit t then .lit t else O.rq t

/-! ## Go slice expressions -/

/-- `b[n:]` -/
def sliceFrom (site : String) (b : B) (n : Nat) : Outcome B :=
  if n ≤ b.length then .ok (b.drop n) else .panic site
/-- `b[:n]` -/
def sliceTo (site : String) (b : B) (n : Nat) : Outcome B :=
  if n ≤ b.length then .ok (b.take n) else .panic site
/-- `len(a) - len(b)` used as a slice bound or a consumed count: negative would panic at the use site -/
def subLen (site : String) (a b : B) : Outcome Nat :=
  if b.length ≤ a.length then .ok (a.length - b.length) else .panic site

/-! ## parseStringLiteral -/

/-- the `for len(left) > 0` loop: returns the literal and what is left after the closing quote -/
def pslLoop : B → B → Outcome (B × B)
  | [], _ => .err "unterminated quoted string"
  | c :: rest, lit =>
    if c = 34 then .ok (lit, rest)
    else if c = 92 then
      match rest with
      | [] => .err "missing char after \\"
      | c2 :: rest2 => pslLoop rest2 (lit ++ [c2])
    else pslLoop rest (lit ++ [c])

/-- `parseStringLiteral(in)`: `(lit, n)`; `left := in[1:]` is the unchecked slice -/
def parseStringLiteral (inp : B) : Outcome (B × Nat) :=
  (sliceFrom "parseStringLiteral:in[1:]" inp 1).bind fun left =>
  (pslLoop left []).bind fun r =>
  (subLen "parseStringLiteral:len(in)-len(left)" inp r.2).bind fun n =>
  .ok (r.1, n)

/-! ## tokens -/

structure Token where
  typ : Nat
  text : B
  input : B
  deriving Repr, Inhabited

/-- first entry of a table whose key is a prefix of `input` (Go ranges over a map in random order and stops
    at the first hit; `prefixes_unambiguous` in Props shows that at most one key can hit) -/
def findPrefix (tbl : List (B × Nat)) (input : B) : Option (B × Nat) :=
  tbl.find? (fun p => p.1.isPrefixOf input)

/-- the token type after the first two steps of `setType`: the `(` / `)` tests and the reserved words -/
def retype (t : Token) : Nat :=
  let ty := if t.text = [40] then tokParenOpen else t.typ
  let ty := if t.text = [41] then tokParenClose else ty
  match reservedWords.find? (fun w => t.text = w.1 && t.input = w.1) with
  | some w => w.2
  | none => ty

/-- `(*token).setType`; `t.Text[len(pref):]` is the unchecked slice -/
def setType (t : Token) : Outcome Token :=
  match findPrefix prefixes t.input with
  | none => .ok ⟨retype t, t.text, t.input⟩
  | some (pref, typ) =>
    (sliceFrom "setType:t.Text[len(pref):]" t.text pref.length).bind fun text =>
    .ok ⟨typ, text, t.input⟩

/-- the `loop:` of `nextToken`: `(left, cur.Text, foundSpace)` at the `break`/end of input -/
def ntLoop : Nat → B → Nat → B → Outcome (B × B × Bool)
  | 0, _, _, _ => .diverge
  | fuel + 1, left, pc, text =>
    match left with
    | [] => .ok (left, text, false)
    | c :: rest =>
      if c = 40 then ntLoop fuel rest (pc + 1) (text ++ [c])
      else if c = 41 then
        if pc = 0 then
          if text.isEmpty then .ok (rest, [41], false) else .ok (left, text, false)
        else ntLoop fuel rest (pc - 1) (text ++ [c])
      else if c = 34 then
        (parseStringLiteral left).bind fun r =>
        (sliceFrom "nextToken:left[n:]" left r.2).bind fun left' =>
        ntLoop fuel left' pc (text ++ r.1)
      else if c = 92 then
        match rest with
        | [] => .err "lone \\ at end"
        | c2 :: rest2 => ntLoop fuel rest2 pc (text ++ [92, c2])
      else if c = 32 ∨ c = 10 ∨ c = 9 then .ok (left, text, decide (pc > 0))
      else ntLoop fuel rest pc (text ++ [c])

/-- `nextToken(in)`; `none` is the nil token -/
def nextToken (inp : B) : Outcome (Option Token) :=
  match inp with
  | [] => .ok none
  | c0 :: _ =>
    if c0 = 45 then
      (sliceTo "nextToken:in[:1]" inp 1).bind fun i => .ok (some ⟨tokNegate, [45], i⟩)
    else
      (ntLoop (inp.length + 1) inp 0 []).bind fun r =>
      match r.2.1 with
      | [] => .ok none
      | t0 :: _ =>
        if r.2.2 && t0 = 40 then
          (sliceTo "nextToken:cur.Text[:1]" r.2.1 1).bind fun tx =>
          (sliceTo "nextToken:in[:1]" inp 1).bind fun i =>
          (setType ⟨tokText, tx, i⟩).bind fun t => .ok (some t)
        else
          (subLen "nextToken:len(in)-len(left)" inp r.1).bind fun n =>
          (sliceTo "nextToken:in[:len(in)-len(left)]" inp n).bind fun i =>
          (setType ⟨tokText, r.2.1, i⟩).bind fun t => .ok (some t)

/-! ## case handling (query/query.go: setCase, Map) -/

def toLowerAscii (b : B) : B := b.map fun c => if 65 ≤ c ∧ c ≤ 90 then c - 65 + 97 else c

def bYes : B := [121,101,115]
def bNo : B := [110,111]
def bAuto : B := [97,117,116,111]

/-- `Substring.setCase` / `Regexp.setCase` / `Symbol.setCase` on an atom -/
def setCaseAtom (k : B) : Q → Q
  | .substr p cs f c src =>
    if k = bYes then .substr p true f c src
    else if k = bNo then .substr p false f c src
    else if k = bAuto then .substr p (decide (p ≠ toLowerAscii p)) f c src
    else .substr p cs f c src
  | .regexp r e a cs f c src =>
    if k = bYes then .regexp r e a true f c src
    else if k = bNo then .regexp r e a false f c src
    else if k = bAuto then .regexp r e a a f c src
    else .regexp r e a cs f c src
  | q => q

mutual
/-- `Map(q, func(q){ if sc, ok := q.(setCaser); ok { sc.setCase(k) }; return q })`: descends And/Or/Not/Type
    (and Boost, which the parser never builds), **not** `caseScopeQ` and not `Symbol` (whose own `setCase`
    forwards to its expression). -/
def setCase (k : B) : Q → Q
  | .and cs => .and (setCaseList k cs)
  | .or cs => .or (setCaseList k cs)
  | .not c => .not (setCase k c)
  | .type t c => .type t (setCase k c)
  | .sym e => .sym (setCaseAtom k e)
  | q => setCaseAtom k q
def setCaseList (k : B) : List Q → List Q
  | [] => []
  | q :: qs => setCase k q :: setCaseList k qs
end

/-! ## parseOperators -/

def isOrOp : Q → Bool
  | .orOp => true
  | _ => false

/-- the `for _, q := range in` loop: `top.Children` (reversed), `cur.Children`, `seenOr` -/
def poLoop : List Q → List Q → List Q → Bool → Outcome (List Q × List Q × Bool)
  | [], top, cur, seen => .ok (top, cur, seen)
  | q :: rest, top, cur, seen =>
    if isOrOp q then
      if cur.isEmpty then .err "OR operator should have operand"
      else poLoop rest (top ++ [.and cur]) [] true
    else poLoop rest top (cur ++ [q]) seen

def parseOperators (qs : List Q) : Outcome Q :=
  (poLoop qs [] [] false).bind fun r =>
  if r.2.2 && r.2.1.isEmpty then .err "OR operator should have operand"
  else .ok (.or (r.1 ++ [.and r.2.1]))

/-! ## parseExpr / parseExprList -/

def isSpace (c : Nat) : Bool := c == 32 || c == 9

def skipSpaces : B → B
  | [] => []
  | c :: rest => if isSpace c then skipSpaces rest else c :: rest

def splitColon : B → Option (B × B)
  | [] => none
  | c :: rest =>
    if c = 58 then some ([], rest)
    else match splitColon rest with
      | some (a, b) => some (c :: a, b)
      | none => none

def regexpQuery (O : Oracle) (text : B) (content file : Bool) : Outcome Q :=
  match classify O text with
  | .err => .err "regexp syntax"
  | .lit p => .ok (.substr p false file content text)
  | .re s a e => .ok (.regexp s e a false file content text)

def yesNo (text : B) (yes no : Nat) (what : String) : Outcome (Option Q) :=
  if text = bYes then .ok (some (.rawConfig yes))
  else if text = bNo then .ok (some (.rawConfig no))
  else .err ("unknown " ++ what ++ " argument")

def bFilematch : B := [102,105,108,101,109,97,116,99,104]
def bFilename : B := [102,105,108,101,110,97,109,101]
def bFile : B := [102,105,108,101]
def bRepo : B := [114,101,112,111]

/-- the non-recursive arms of the `switch tok.Type` in `parseExpr` (everything except `(`, `-`);
    `none` is Go's nil `expr` (`)`, `or`, and token kinds without a case) -/
def atomOf (O : Oracle) (tok : Token) : Outcome (Option Q) :=
  if tok.typ = tokCase then
    if tok.text = bYes ∨ tok.text = bNo ∨ tok.text = bAuto then .ok (some (.caseQ tok.text)) else .err "unknown case argument"
  else if tok.typ = tokRepo then
    if O.compiles tok.text then .ok (some (.repo tok.text)) else .err "regexp compile"
  else if tok.typ = tokArchived then yesNo tok.text 16 32 "archived"
  else if tok.typ = tokFork then yesNo tok.text 4 8 "fork"
  else if tok.typ = tokPublic then yesNo tok.text 1 2 "public"
  else if tok.typ = tokBranch then .ok (some (.branch tok.text))
  else if tok.typ = tokText ∨ tok.typ = tokRegex then (regexpQuery O tok.text false false).bind fun q => .ok (some q)
  else if tok.typ = tokFile then (regexpQuery O tok.text false true).bind fun q => .ok (some q)
  else if tok.typ = tokContent then (regexpQuery O tok.text true false).bind fun q => .ok (some q)
  else if tok.typ = tokLang then
    match O.lang tok.text with
    | none => .ok (some (.const false))
    | some c => .ok (some (.lang c))
  else if tok.typ = tokSym then
    if tok.text.isEmpty then .err "the sym: atom must have an argument"
    else (regexpQuery O tok.text false false).bind fun q => .ok (some (.sym q))
  else if tok.typ = tokType then
    if tok.text = bFilematch then .ok (some (.type 0 .nil))
    else if tok.text = bFilename ∨ tok.text = bFile then .ok (some (.type 1 .nil))
    else if tok.text = bRepo then .ok (some (.type 2 .nil))
    else .err "unknown type argument"
  else if tok.typ = tokMeta then
    match splitColon tok.text with
    | none => .err "invalid meta field syntax"
    | some (field, value) =>
      if O.compiles value then .ok (some (.metaQ field value)) else .err "invalid regexp in meta value"
  else .ok none

/-- first loop of `parseExprList`'s post-processing: `(setCase, hasCaseScope, typeT, newQS)` -/
def scanDirectives : List Q → B → Bool → Nat → List Q → (B × Bool × Nat × List Q)
  | [], k, h, t, acc => (k, h, t, acc)
  | .caseQ f :: rest, _, _, t, acc => scanDirectives rest f true t acc
  | .type ty _ :: rest, k, h, t, acc => scanDirectives rest k h (if ty < t then ty else t) acc
  | q :: rest, k, h, t, acc => scanDirectives rest k h t (acc ++ [q])

def wrapScopes : List Q → List Q
  | [] => []
  | q :: rest => (if isOrOp q then q else .caseScope q) :: wrapScopes rest

/-- everything in `parseExprList` after its token loop -/
def finishList (qs : List Q) : Outcome (List Q) :=
  let d := scanDirectives qs bAuto false 100 []
  let qs := setCaseList d.1 d.2.2.2
  (if d.2.2.1 ≠ 100 then (parseOperators qs).bind fun typed => .ok [Q.type d.2.2.1 typed] else .ok qs).bind fun qs =>
  .ok (if d.2.1 then wrapScopes qs else qs)

/-- `'-'` applied to a directive (fix 03fc083): `case *caseQ, *Type` -/
def isDirective : Q → Bool
  | .caseQ _ => true
  | .type _ _ => true
  | _ => false

def tokIs (t? : Option Token) (k : Nat) : Bool :=
  match t? with
  | some t => t.typ = k
  | none => false

def tokInputLen (t? : Option Token) : Nat :=
  match t? with
  | some t => t.input.length
  | none => 0

/-- `tok, _ := nextToken(b)`: an error leaves tok nil -/
def nextTokenIgnoreErr (b : B) : Outcome (Option Token) :=
  match nextToken b with
  | .err _ => .ok none
  | o => o

mutual
/-- `parseExpr(in)`: `(expr, n)` -/
def parseExpr (O : Oracle) : Nat → B → Outcome (Option Q × Nat)
  | 0, _ => .diverge
  | fuel + 1, inp =>
    let b := skipSpaces inp
    (nextToken b).bind fun tok? =>
    match tok? with
    | none => .ok (none, 0)
    | some tok =>
      (sliceFrom "parseExpr:b[len(tok.Input):]" b tok.input.length).bind fun b =>
      if tok.typ = tokParenOpen then
        (parseExprList O fuel b).bind fun r =>
        (sliceFrom "parseExpr:b[n:] after parseExprList" b r.2).bind fun b =>
        (nextToken b).bind fun pTok =>
        if tokIs pTok tokParenClose then
          (sliceFrom "parseExpr:b[len(pTok.Input):]" b (tokInputLen pTok)).bind fun b =>
          (parseOperators r.1).bind fun e =>
          (subLen "parseExpr:len(in)-len(b)" inp b).bind fun n => .ok (some e, n)
        else .err "missing close paren"
      else if tok.typ = tokNegate then
        (parseExpr O fuel b).bind fun r =>
        match r.1 with
        | none => .err "'-' operator needs an argument"
        | some sub =>
          if isDirective sub then .err "'-' cannot be applied to a case: or type: directive"
          else
            (sliceFrom "parseExpr:b[n:] after '-'" b r.2).bind fun b =>
            (subLen "parseExpr:len(in)-len(b)" inp b).bind fun n => .ok (some (.not sub), n)
      else
        (atomOf O tok).bind fun e =>
        (subLen "parseExpr:len(in)-len(b)" inp b).bind fun n => .ok (e, n)

/-- the `for len(b) > 0` loop of `parseExprList`: `(qs, b)` at its end -/
def pelLoop (O : Oracle) : Nat → B → List Q → Outcome (List Q × B)
  | 0, _, _ => .diverge
  | fuel + 1, b, qs =>
    match b with
    | [] => .ok (qs, b)
    | _ :: _ =>
      let b := skipSpaces b
      (nextTokenIgnoreErr b).bind fun tok? =>
      if tokIs tok? tokParenClose then .ok (qs, b)
      else if tokIs tok? tokOr then
        (sliceFrom "parseExprList:b[len(tok.Input):]" b (tokInputLen tok?)).bind fun b =>
        pelLoop O fuel b (qs ++ [.orOp])
      else
        (parseExpr O fuel b).bind fun r =>
        match r.1 with
        | none => .ok (qs, b)
        | some q =>
          (sliceFrom "parseExprList:b[n:]" b r.2).bind fun b =>
          pelLoop O fuel b (qs ++ [q])

/-- `parseExprList(in)`: `(qs, n)` -/
def parseExprList (O : Oracle) : Nat → B → Outcome (List Q × Nat)
  | 0, _ => .diverge
  | fuel + 1, inp =>
    (pelLoop O fuel inp []).bind fun r =>
    (finishList r.1).bind fun qs =>
    (subLen "parseExprList:len(in)-len(b)" inp r.2).bind fun n => .ok (qs, n)
end

/-! ## stripCaseScopes, Simplify -/

mutual
def stripCaseScopes : Q → Q
  | .and cs => .and (stripCaseScopesList cs)
  | .or cs => .or (stripCaseScopesList cs)
  | .not c => .not (stripCaseScopes c)
  | .type t c => .type t (stripCaseScopes c)
  | .caseScope c => stripCaseScopes c
  | q => q
def stripCaseScopesList : List Q → List Q
  | [] => []
  | q :: qs => stripCaseScopes q :: stripCaseScopesList qs
end

def isConst : Q → Option Bool
  | .const v => some v
  | _ => none

/-- second half of `evalAndOrConstants`, over the already evaluated children: `none` = keep going with the
    filtered children, `some c` = short-circuit constant -/
def foldConsts (isAnd : Bool) : List Q → List Q → (Option Q × List Q)
  | [], acc => (none, acc)
  | ch :: rest, acc =>
    match isConst ch with
    | some v => if v = isAnd then foldConsts isAnd rest acc else (some ch, acc)
    | none => foldConsts isAnd rest (acc ++ [ch])

def evalAndOr (isAnd : Bool) (children : List Q) : Q :=
  match foldConsts isAnd children [] with
  | (some c, _) => c
  | (none, newCH) =>
    if newCH.isEmpty then .const isAnd
    else if isAnd then .and newCH else .or newCH

mutual
/-- `evalConstants` (the cases for node kinds the parser can build; `nil` is returned unchanged) -/
def evalConstants : Q → Q
  | .and cs => evalAndOr true (evalConstantsList cs)
  | .or cs => evalAndOr false (evalConstantsList cs)
  | .not c =>
    match evalConstants c with
    | .const v => .const (!v)
    | ch => .not ch
  | .type t c =>
    match evalConstants c with
    | .const v => .const v
    | ch => .type t ch
  | .substr p cs f c src => if p.isEmpty then .const true else .substr p cs f c src
  | .regexp r e a cs f c src => if e then .const true else .regexp r e a cs f c src
  | .branch p => if p.isEmpty then .const true else .branch p
  | q => q
def evalConstantsList : List Q → List Q
  | [] => []
  | q :: qs => evalConstants q :: evalConstantsList qs
end

def childrenIf (isAnd : Bool) : Q → Option (List Q)
  | .and cs => if isAnd then some cs else none
  | .or cs => if isAnd then none else some cs
  | _ => none

mutual
/-- `flatten`: `(q', changed)` -/
def flatten : Q → Q × Bool
  | .and cs =>
    match cs with
    | [c] => (c, true)
    | _ => let r := flattenAndOr true cs; (.and r.1, r.2)
  | .or cs =>
    match cs with
    | [c] => (c, true)
    | _ => let r := flattenAndOr false cs; (.or r.1, r.2)
  | .not c => let r := flatten c; (.not r.1, r.2)
  | .type t c => let r := flatten c; (.type t r.1, r.2)
  | q => (q, false)
/-- `flattenAndOr(children, typ)` -/
def flattenAndOr (isAnd : Bool) : List Q → List Q × Bool
  | [] => ([], false)
  | ch :: rest =>
    let r := flatten ch
    let rs := flattenAndOr isAnd rest
    match childrenIf isAnd r.1 with
    | some sub => (sub ++ rs.1, true)
    | none => (r.1 :: rs.1, r.2 || rs.2)
end

mutual
def Q.size : Q → Nat
  | .and cs => 1 + sizeList cs
  | .or cs => 1 + sizeList cs
  | .not c => 1 + c.size
  | .type _ c => 1 + c.size
  | .sym e => 1 + e.size
  | .caseScope c => 1 + c.size
  | _ => 1
def sizeList : List Q → Nat
  | [] => 0
  | q :: qs => q.size + sizeList qs
end

/-- the `for { q, changed = flatten(q); if !changed { break } }` loop of `Simplify` -/
def flattenLoop : Nat → Q → Outcome Q
  | 0, _ => .diverge
  | fuel + 1, q =>
    let r := flatten q
    if r.2 then flattenLoop fuel r.1 else .ok r.1

def simplify (q : Q) : Outcome Q :=
  let q := evalConstants q
  flattenLoop (q.size + 1) q

/-! ## Parse -/

def parseFuel (s : B) : Nat := 3 * s.length + 3

/-- `query.Parse(qStr)` -/
def parse (O : Oracle) (s : B) : Outcome Q :=
  (parseExprList O (parseFuel s) s).bind fun r =>
  if r.2 ≠ s.length then
    -- the error message formats `b[n:]`
    (sliceFrom "Parse:b[n:]" s r.2).bind fun _ => .err "extra tokens found at end input"
  else
    (parseOperators r.1).bind fun q => simplify (stripCaseScopes q)

/-! ## consumers of a parsed query: node-kind dispatch of QToProto and newMatchTree -/

/-- case lists as in the source after the fix commits (tied to the source by `Gen.*` in Props) -/
def toProtoCases : List String :=
  ["RawConfig", "Regexp", "Symbol", "Language", "Const", "Repo", "RepoRegexp", "BranchesRepos", "RepoIDs", "RepoSet",
   "FileNameSet", "Type", "Substring", "And", "Or", "Not", "Branch", "Boost", "Meta"]
def newMatchTreeCases : List String :=
  ["Regexp", "And", "Or", "Not", "Type", "Boost", "Meta", "Substring", "Branch", "Const", "Language", "Symbol",
   "FileNameSet", "BranchesRepos", "RepoSet", "RepoIDs", "Repo", "RepoRegexp", "RawConfig"]
/-- `switch s.Type` arms of `case *query.Type` that build a tree: TypeFileMatch = 0, TypeFileName = 1 -/
def newMatchTreeTypeArms : List Nat := [0, 1]

/-- a leaf node kind: handled iff the type switch has a `case` for it -/
def leafOk (cases : List String) (kind what : String) : Outcome Unit :=
  if cases.contains kind then .ok () else .panic (what ++ kind)

mutual
/-- `QToProto(q)`: panics in its `default:` for a kind without a `case` (a nil interface included) -/
def toProto (cases : List String) : Q → Outcome Unit
  | .and cs => if cases.contains "And" then toProtoList cases cs else .panic "QToProto:And"
  | .or cs => if cases.contains "Or" then toProtoList cases cs else .panic "QToProto:Or"
  | .not c => if cases.contains "Not" then toProto cases c else .panic "QToProto:Not"
  | .type _ c => if cases.contains "Type" then toProto cases c else .panic "QToProto:Type"
  | .sym e => if cases.contains "Symbol" then toProto cases e else .panic "QToProto:Symbol"
  | .caseScope c => if cases.contains "caseScopeQ" then toProto cases c else .panic "QToProto:caseScopeQ"
  | q => leafOk cases q.kind "QToProto:"
def toProtoList (cases : List String) : List Q → Outcome Unit
  | [] => .ok ()
  | q :: qs =>
    match toProto cases q with
    | .ok _ => toProtoList cases qs
    | o => o
end

mutual
/-- `newMatchTree(q)`: `err` for a nil sub-query, for `type:repo`, and whatever the atom constructors return
    (class only: the harness does not distinguish ok/err); `panic` = reaching `log.Panicf` after the switch. -/
def matchTree (cases : List String) (typeArms : List Nat) : Q → Outcome Unit
  | .nil => .err "got nil (sub)query"
  | .and cs => if cases.contains "And" then matchTreeList cases typeArms cs else .panic "newMatchTree:And"
  | .or cs => if cases.contains "Or" then matchTreeList cases typeArms cs else .panic "newMatchTree:Or"
  | .not c => if cases.contains "Not" then matchTree cases typeArms c else .panic "newMatchTree:Not"
  | .type t c =>
    if cases.contains "Type" then
      if typeArms.contains t then matchTree cases typeArms c else .err "type:repo must be evaluated first"
    else .panic "newMatchTree:Type"
  | .sym e => if cases.contains "Symbol" then matchTree cases typeArms e else .panic "newMatchTree:Symbol"
  | .caseScope _ => .panic "newMatchTree:caseScopeQ"
  | q => leafOk cases q.kind "newMatchTree:"
def matchTreeList (cases : List String) (typeArms : List Nat) : List Q → Outcome Unit
  | [] => .ok ()
  | q :: qs =>
    match matchTree cases typeArms q with
    | .ok _ => matchTreeList cases typeArms qs
    | o => o
end

end ZoektModel.C07
