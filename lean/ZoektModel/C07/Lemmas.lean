/-
C07 — lemmas about the parser model: every slice is in bounds, every loop has fuel left, and the shape of the
trees it builds.  (Property statements are in Props/C07.lean.)
-/
import ZoektModel.C07.Spec
namespace ZoektModel.C07
open ZoektModel

/-- `o` neither panics nor diverges, and its value (if any) satisfies `P` -/
def Safe {α} (o : Outcome α) (P : α → Prop) : Prop :=
  match o with
  | .ok a => P a
  | .err _ => True
  | .panic _ => False
  | .diverge => False

theorem bind_ok {α β} (a : α) (f : α → Outcome β) : (Outcome.ok a).bind f = f a := rfl
theorem bind_err {α β} (e : String) (f : α → Outcome β) : (Outcome.err e : Outcome α).bind f = .err e := rfl

theorem Safe.bind {α β} {x : Outcome α} {f : α → Outcome β} {P : α → Prop} {Q : β → Prop}
    (hx : Safe x P) (hf : ∀ a, P a → Safe (f a) Q) : Safe (x.bind f) Q := by
  cases x with
  | ok a => exact hf a hx
  | err e => trivial
  | panic s => exact hx.elim
  | diverge => exact hx.elim

theorem Safe.mono {α} {x : Outcome α} {P Q : α → Prop} (hx : Safe x P) (h : ∀ a, P a → Q a) : Safe x Q := by
  cases x with
  | ok a => exact h a hx
  | err e => trivial
  | panic s => exact hx.elim
  | diverge => exact hx.elim

theorem Safe.ok {α} {a : α} {P : α → Prop} (h : P a) : Safe (Outcome.ok a) P := h
theorem Safe.err {α} {e : String} {P : α → Prop} : Safe (Outcome.err e : Outcome α) P := trivial

theorem Safe.isOkOrErr {α} {x : Outcome α} {P : α → Prop} (h : Safe x P) : x.isOkOrErr = true := by
  cases x <;> simp_all [Safe, Outcome.isOkOrErr]

theorem Safe.of_ok {α} {x : Outcome α} {P : α → Prop} {a : α} (h : Safe x P) (e : x = .ok a) : P a := by
  subst e; exact h

theorem sliceFrom_safe (site : String) (b : B) (n : Nat) (h : n ≤ b.length) :
    Safe (sliceFrom site b n) (fun r => r = b.drop n) := by
  simp [sliceFrom, h, Safe]

theorem sliceTo_safe (site : String) (b : B) (n : Nat) (h : n ≤ b.length) :
    Safe (sliceTo site b n) (fun r => r = b.take n) := by
  simp [sliceTo, h, Safe]

theorem subLen_safe (site : String) (a b : B) (h : b.length ≤ a.length) :
    Safe (subLen site a b) (fun n => n = a.length - b.length) := by
  simp [subLen, h, Safe]

/-! ### parseStringLiteral -/

theorem pslLoop_safe (left lit : B) : Safe (pslLoop left lit) (fun r => r.2.length < left.length) := by
  fun_induction pslLoop left lit
  all_goals first
    | exact Safe.err
    | (simp [Safe]; done)
    | (rename_i ih; exact Safe.mono ih (fun r hr => by simp at hr ⊢; omega))

theorem parseStringLiteral_safe (inp : B) (h : 1 ≤ inp.length) :
    Safe (parseStringLiteral inp) (fun r => 2 ≤ r.2 ∧ r.2 ≤ inp.length) := by
  unfold parseStringLiteral
  refine (sliceFrom_safe _ inp 1 h).bind ?_
  intro left hl
  refine (pslLoop_safe left []).bind ?_
  intro r hr
  have hlen : left.length = inp.length - 1 := by simp [hl]
  refine (subLen_safe _ inp r.2 (by omega)).bind ?_
  intro n hn
  exact Safe.ok (by simp; omega)

/-! ### nextToken -/

theorem ntLoop_safe (fuel : Nat) : ∀ (left : B) (pc : Nat) (text : B), left.length < fuel →
    Safe (ntLoop fuel left pc text)
      (fun r => r.1.length ≤ left.length ∧ (r.2.1 = text ∨ r.1.length < left.length) ∧ text <+: r.2.1) := by
  induction fuel with
  | zero => intro left pc text h; omega
  | succ fuel ih =>
    intro left pc text h
    unfold ntLoop
    cases left with
    | nil => simp [Safe]
    | cons c rest =>
      simp only [List.length_cons] at h
      simp only
      split
      · refine (ih rest (pc + 1) (text ++ [c]) (by omega)).mono ?_
        intro r ⟨h1, h2, h3⟩
        refine ⟨by simp; omega, Or.inr (by simp; omega), ?_⟩
        exact List.IsPrefix.trans (List.prefix_append text [c]) h3
      · split
        · split
          · split
            · rename_i ht
              simp [Safe]
              simp at ht
              simp [ht]
            · simp [Safe]
          · refine (ih rest (pc - 1) (text ++ [c]) (by omega)).mono ?_
            intro r ⟨h1, h2, h3⟩
            refine ⟨by simp; omega, Or.inr (by simp; omega), ?_⟩
            exact List.IsPrefix.trans (List.prefix_append text [c]) h3
        · split
          · refine (parseStringLiteral_safe (c :: rest) (by simp)).bind ?_
            intro r ⟨hr1, hr2⟩
            refine (sliceFrom_safe _ _ r.2 hr2).bind ?_
            intro left' hl'
            subst hl'
            simp only [List.length_cons] at hr2
            refine (ih _ pc (text ++ r.1) (by simp; omega)).mono ?_
            intro r' ⟨h1, h2, h3⟩
            simp only [List.length_drop, List.length_cons] at h1 h2
            refine ⟨by simp; omega, Or.inr (by simp; omega), ?_⟩
            exact List.IsPrefix.trans (List.prefix_append text r.1) h3
          · split
            · cases rest with
              | nil => exact Safe.err
              | cons c2 rest2 =>
                simp only [List.length_cons] at h
                refine (ih rest2 pc (text ++ [92, c2]) (by omega)).mono ?_
                intro r ⟨h1, h2, h3⟩
                refine ⟨by simp; omega, Or.inr (by simp; omega), ?_⟩
                exact List.IsPrefix.trans (List.prefix_append text [92, c2]) h3
            · split
              · simp [Safe]
              · refine (ih rest pc (text ++ [c]) (by omega)).mono ?_
                intro r ⟨h1, h2, h3⟩
                refine ⟨by simp; omega, Or.inr (by simp; omega), ?_⟩
                exact List.IsPrefix.trans (List.prefix_append text [c]) h3

/-- bytes that the tokenizer's loop appends unchanged (its `default:` arm) -/
def isDflt (c : Nat) : Bool := c != 40 && c != 41 && c != 34 && c != 92 && c != 32 && c != 10 && c != 9

theorem ntLoop_plain (p : B) : ∀ (rest : B) (fuel pc : Nat) (text : B), (∀ c ∈ p, isDflt c = true) →
    ntLoop (fuel + p.length) (p ++ rest) pc text = ntLoop fuel rest pc (text ++ p) := by
  induction p with
  | nil => intro rest fuel pc text _; simp
  | cons c p ih =>
    intro rest fuel pc text h
    have hc : isDflt c = true := h c (by simp)
    simp [isDflt] at hc
    obtain ⟨⟨⟨⟨⟨⟨h1, h2⟩, h3⟩, h4⟩, h5⟩, h6⟩, h7⟩ := hc
    have hp : ∀ c ∈ p, isDflt c = true := fun x hx => h x (by simp [hx])
    have : fuel + (c :: p).length = (fuel + p.length) + 1 := by simp; omega
    rw [this, List.cons_append]
    conv => lhs; unfold ntLoop
    simp [h1, h2, h3, h4, h5, h6, h7]
    rw [ih rest fuel pc (text ++ [c]) hp]
    simp

/-- facts about the `prefixes` table that `setType`'s unchecked slice depends on -/
theorem prefixes_dflt : ∀ p ∈ prefixes, (∀ c ∈ p.1, isDflt c = true) ∧ 2 ≤ p.1.length := by decide

theorem findPrefix_some {tbl : List (B × Nat)} {input : B} {r : B × Nat} (h : findPrefix tbl input = some r) :
    r ∈ tbl ∧ r.1 <+: input := by
  unfold findPrefix at h
  have h1 := List.mem_of_find?_eq_some h
  have h2 := List.find?_some h
  exact ⟨h1, List.isPrefixOf_iff_prefix.mp h2⟩

theorem setType_safe (t : Token) (h : ∀ p ∈ prefixes, p.1 <+: t.input → p.1.length ≤ t.text.length) :
    Safe (setType t) (fun r => r.input = t.input) := by
  unfold setType
  split
  · simp [Safe]
  · rename_i pref typ hf
    have hf' := findPrefix_some hf
    refine (sliceFrom_safe _ _ _ (h (pref, typ) hf'.1 hf'.2)).bind ?_
    intro text _
    simp [Safe]

/-- `nextToken` never panics or diverges; a token it returns consumed between 1 and `len(in)` bytes -/
theorem nextToken_safe (inp : B) :
    Safe (nextToken inp) (fun r => ∀ t, r = some t → 1 ≤ t.input.length ∧ t.input.length ≤ inp.length) := by
  unfold nextToken
  cases inp with
  | nil => simp [Safe]
  | cons c0 rest0 =>
    simp only
    split
    · refine (sliceTo_safe _ _ 1 (by simp)).bind ?_
      intro i hi
      simp [Safe, hi]
    · rename_i hneg
      have hrun := ntLoop_safe ((c0 :: rest0).length + 1) (c0 :: rest0) 0 [] (by simp)
      -- keep the equation of the run for the prefix argument
      generalize hres : ntLoop ((c0 :: rest0).length + 1) (c0 :: rest0) 0 [] = res at hrun
      cases res with
      | err e => exact Safe.err
      | panic s => exact hrun.elim
      | diverge => exact hrun.elim
      | ok r =>
        obtain ⟨left, text, fs⟩ := r
        simp only [Safe] at hrun
        obtain ⟨h1, h2, _⟩ := hrun
        simp only [bind_ok]
        cases text with
        | nil => simp [Safe]
        | cons t0 trest =>
          have hlt : left.length < (c0 :: rest0).length := by
            rcases h2 with h2 | h2
            · exact absurd h2 (List.cons_ne_nil _ _)
            · exact h2
          simp only
          split
          · refine (sliceTo_safe _ (t0 :: trest) 1 (by simp)).bind ?_
            intro tx htx
            refine (sliceTo_safe _ (c0 :: rest0) 1 (by simp)).bind ?_
            intro i hi
            refine (setType_safe _ ?_).bind ?_
            · intro p hp hpre
              have := (prefixes_dflt p hp).2
              have hl := hpre.length_le
              simp [hi] at hl
              omega
            · intro t ht
              simp [Safe, ht, hi]
          · refine (subLen_safe _ _ _ (by omega)).bind ?_
            intro n hn
            refine (sliceTo_safe _ _ n (by omega)).bind ?_
            intro i hi
            refine (setType_safe _ ?_).bind ?_
            · intro p hp hpre
              simp only at hpre ⊢
              -- the input starts with the prefix, whose bytes are all copied to the text
              have hd := (prefixes_dflt p hp).1
              have hpin : p.1 <+: (c0 :: rest0) := by
                rw [hi] at hpre
                exact hpre.trans (List.take_prefix _ _)
              obtain ⟨rest, hrest⟩ := hpin
              have hfuel : (c0 :: rest0).length + 1 = (rest.length + 1) + p.1.length := by
                rw [← hrest]; simp; omega
              rw [hfuel, ← hrest, ntLoop_plain p.1 rest (rest.length + 1) 0 [] hd] at hres
              have h3 := ntLoop_safe (rest.length + 1) rest 0 ([] ++ p.1) (by omega)
              rw [hres] at h3
              simp only [Safe] at h3
              have := h3.2.2.length_le
              simpa using this
            · intro t ht
              simp only [Safe]
              intro t' ht'
              cases ht'
              rw [ht, hi, hn]
              simp only [List.length_take, List.length_cons] at hlt ⊢
              omega

/-! ### shape of the trees the parser builds -/

def isTextAtom : Q → Bool
  | .substr .. => true
  | .regexp .. => true
  | _ => false

mutual
/-- a tree made only of node kinds that every consumer knows, parse-time `caseScopeQ` wrappers allowed -/
def cleanS : Q → Bool
  | .and cs => cleanSList cs
  | .or cs => cleanSList cs
  | .not c => cleanS c
  | .type _ c => cleanS c
  | .caseScope c => cleanS c
  | .sym e => isTextAtom e
  | .nil => false
  | .caseQ _ => false
  | .orOp => false
  | _ => true
def cleanSList : List Q → Bool
  | [] => true
  | q :: qs => cleanS q && cleanSList qs
end

mutual
/-- a tree made only of And/Or/Not/Type over Const, Substring, Regexp, Repo, RawConfig, Branch, Language,
    Symbol(Substring|Regexp), Meta: no nil child, no parse-time node -/
def clean : Q → Bool
  | .and cs => cleanList cs
  | .or cs => cleanList cs
  | .not c => clean c
  | .type _ c => clean c
  | .sym e => isTextAtom e
  | .nil => false
  | .caseQ _ => false
  | .orOp => false
  | .caseScope _ => false
  | _ => true
def cleanList : List Q → Bool
  | [] => true
  | q :: qs => clean q && cleanList qs
end

theorem cleanSList_iff (qs : List Q) : cleanSList qs = true ↔ ∀ q ∈ qs, cleanS q = true := by
  induction qs with
  | nil => simp [cleanSList]
  | cons q qs ih => simp [cleanSList, ih]

theorem cleanList_iff (qs : List Q) : cleanList qs = true ↔ ∀ q ∈ qs, clean q = true := by
  induction qs with
  | nil => simp [cleanList]
  | cons q qs ih => simp [cleanList, ih]

/-- a bare directive token: `case:x`, or `type:x` (whose child is still nil) -/
def isDirTok : Q → Bool
  | .caseQ _ => true
  | .type _ .nil => true
  | _ => false

/-- what `parseExprList`'s token loop collects -/
def itemOk (q : Q) : Bool := isOrOp q || isDirTok q || cleanS q

/-- what `parseExprList` returns, and what `parseOperators` takes -/
def operandOk (q : Q) : Bool := isOrOp q || cleanS q

theorem isDirTok_isDirective {q : Q} (h : isDirTok q = true) : isDirective q = true := by
  cases q <;> simp_all [isDirTok, isDirective]

theorem cleanS_not_orOp {q : Q} (h : cleanS q = true) : isOrOp q = false := by
  cases q <;> simp_all [cleanS, isOrOp]

/-! #### setCase keeps the shape -/

theorem setCaseAtom_substr (k p : B) (cs f c : Bool) (s : B) :
    ∃ cs', setCaseAtom k (.substr p cs f c s) = .substr p cs' f c s := by
  simp only [setCaseAtom]
  split
  · exact ⟨_, rfl⟩
  · split
    · exact ⟨_, rfl⟩
    · split <;> exact ⟨_, rfl⟩

theorem setCaseAtom_regexp (k r : B) (e a cs f c : Bool) (s : B) :
    ∃ cs', setCaseAtom k (.regexp r e a cs f c s) = .regexp r e a cs' f c s := by
  simp only [setCaseAtom]
  split
  · exact ⟨_, rfl⟩
  · split
    · exact ⟨_, rfl⟩
    · split <;> exact ⟨_, rfl⟩

theorem isTextAtom_setCaseAtom (k : B) (q : Q) : isTextAtom (setCaseAtom k q) = isTextAtom q := by
  cases q
  case substr p cs f c s => obtain ⟨cs', h⟩ := setCaseAtom_substr k p cs f c s; rw [h]; rfl
  case regexp r e a cs f c s => obtain ⟨cs', h⟩ := setCaseAtom_regexp k r e a cs f c s; rw [h]; rfl
  all_goals rfl

theorem cleanS_setCaseAtom (k : B) (q : Q) : cleanS (setCaseAtom k q) = cleanS q := by
  cases q
  case substr p cs f c s => obtain ⟨cs', h⟩ := setCaseAtom_substr k p cs f c s; rw [h]; simp [cleanS]
  case regexp r e a cs f c s => obtain ⟨cs', h⟩ := setCaseAtom_regexp k r e a cs f c s; rw [h]; simp [cleanS]
  all_goals rfl

theorem isOrOp_setCaseAtom (k : B) (q : Q) : isOrOp (setCaseAtom k q) = isOrOp q := by
  cases q
  case substr p cs f c s => obtain ⟨cs', h⟩ := setCaseAtom_substr k p cs f c s; rw [h]; rfl
  case regexp r e a cs f c s => obtain ⟨cs', h⟩ := setCaseAtom_regexp k r e a cs f c s; rw [h]; rfl
  all_goals rfl

mutual
theorem cleanS_setCase (k : B) : ∀ q, cleanS (setCase k q) = cleanS q
  | .and cs => by simp [setCase, cleanS, cleanSList_setCaseList k cs]
  | .or cs => by simp [setCase, cleanS, cleanSList_setCaseList k cs]
  | .not c => by simp [setCase, cleanS, cleanS_setCase k c]
  | .type t c => by simp [setCase, cleanS, cleanS_setCase k c]
  | .sym e => by simp [setCase, cleanS, isTextAtom_setCaseAtom]
  | .nil => by simp [setCase, setCaseAtom]
  | .const _ => by simp [setCase, setCaseAtom]
  | .substr .. => by simp only [setCase]; exact cleanS_setCaseAtom _ _
  | .regexp .. => by simp only [setCase]; exact cleanS_setCaseAtom _ _
  | .repo _ => by simp [setCase, setCaseAtom]
  | .rawConfig _ => by simp [setCase, setCaseAtom]
  | .branch _ => by simp [setCase, setCaseAtom]
  | .lang _ => by simp [setCase, setCaseAtom]
  | .metaQ .. => by simp [setCase, setCaseAtom]
  | .caseQ _ => by simp [setCase, setCaseAtom]
  | .orOp => by simp [setCase, setCaseAtom]
  | .caseScope _ => by simp [setCase, setCaseAtom]
theorem cleanSList_setCaseList (k : B) : ∀ qs, cleanSList (setCaseList k qs) = cleanSList qs
  | [] => by simp [setCaseList]
  | q :: qs => by simp [setCaseList, cleanSList, cleanS_setCase k q, cleanSList_setCaseList k qs]
end

theorem isOrOp_setCase (k : B) (q : Q) : isOrOp (setCase k q) = isOrOp q := by
  cases q
  case substr p cs f c s => simp only [setCase]; exact isOrOp_setCaseAtom _ _
  case regexp r e a cs f c s => simp only [setCase]; exact isOrOp_setCaseAtom _ _
  all_goals simp [setCase, setCaseAtom, isOrOp]

theorem operandOk_setCaseList (k : B) : ∀ qs : List Q, (∀ q ∈ qs, operandOk q = true) →
    ∀ q ∈ setCaseList k qs, operandOk q = true
  | [], _ => by simp [setCaseList]
  | q :: qs, h => by
    intro x hx
    simp only [setCaseList, List.mem_cons] at hx
    rcases hx with rfl | hx
    · have := h q (by simp)
      simpa [operandOk, isOrOp_setCase, cleanS_setCase] using this
    · exact operandOk_setCaseList k qs (fun y hy => h y (by simp [hy])) x hx

/-! #### atoms, parseOperators, the post-processing of parseExprList -/

theorem regexpQuery_safe (O : Oracle) (text : B) (c f : Bool) :
    Safe (regexpQuery O text c f) (fun q => isTextAtom q = true) := by
  unfold regexpQuery
  split <;> simp [Safe, isTextAtom]

theorem yesNo_safe (text : B) (y n : Nat) (w : String) :
    Safe (yesNo text y n w) (fun r => ∀ q, r = some q → (isDirTok q = true ∨ cleanS q = true)) := by
  unfold yesNo
  split
  · simp [Safe, cleanS]
  · split <;> simp [Safe, cleanS]

theorem isTextAtom_cleanS {q : Q} (h : isTextAtom q = true) : cleanS q = true := by
  cases q <;> simp_all [isTextAtom, cleanS]

theorem atomOf_safe (O : Oracle) (tok : Token) :
    Safe (atomOf O tok) (fun r => ∀ q, r = some q → (isDirTok q = true ∨ cleanS q = true)) := by
  unfold atomOf
  have hrq : ∀ c f, Safe ((regexpQuery O tok.text c f).bind fun q => Outcome.ok (some q))
      (fun r => ∀ q, r = some q → (isDirTok q = true ∨ cleanS q = true)) := by
    intro c f
    refine (regexpQuery_safe O tok.text c f).bind ?_
    intro q hq
    simp only [Safe]
    intro q' h'
    cases h'
    exact Or.inr (isTextAtom_cleanS hq)
  by_cases h1 : tok.typ = tokCase
  · rw [if_pos h1]; split <;> simp [Safe, isDirTok]
  rw [if_neg h1]
  by_cases h2 : tok.typ = tokRepo
  · rw [if_pos h2]; split <;> simp [Safe, cleanS]
  rw [if_neg h2]
  by_cases h3 : tok.typ = tokArchived
  · rw [if_pos h3]; exact yesNo_safe _ _ _ _
  rw [if_neg h3]
  by_cases h4 : tok.typ = tokFork
  · rw [if_pos h4]; exact yesNo_safe _ _ _ _
  rw [if_neg h4]
  by_cases h5 : tok.typ = tokPublic
  · rw [if_pos h5]; exact yesNo_safe _ _ _ _
  rw [if_neg h5]
  by_cases h6 : tok.typ = tokBranch
  · rw [if_pos h6]; simp [Safe, cleanS]
  rw [if_neg h6]
  by_cases h7 : tok.typ = tokText ∨ tok.typ = tokRegex
  · rw [if_pos h7]; exact hrq _ _
  rw [if_neg h7]
  by_cases h8 : tok.typ = tokFile
  · rw [if_pos h8]; exact hrq _ _
  rw [if_neg h8]
  by_cases h9 : tok.typ = tokContent
  · rw [if_pos h9]; exact hrq _ _
  rw [if_neg h9]
  by_cases h10 : tok.typ = tokLang
  · rw [if_pos h10]; split <;> simp [Safe, cleanS]
  rw [if_neg h10]
  by_cases h11 : tok.typ = tokSym
  · rw [if_pos h11]
    split
    · exact Safe.err
    · refine (regexpQuery_safe O tok.text _ _).bind ?_
      intro q hq
      simp [Safe, cleanS, hq]
  rw [if_neg h11]
  by_cases h12 : tok.typ = tokType
  · rw [if_pos h12]
    split
    · simp [Safe, isDirTok]
    · split
      · simp [Safe, isDirTok]
      · split <;> simp [Safe, isDirTok]
  rw [if_neg h12]
  by_cases h13 : tok.typ = tokMeta
  · rw [if_pos h13]
    split
    · exact Safe.err
    · split <;> simp [Safe, cleanS]
  rw [if_neg h13]
  simp [Safe]
theorem poLoop_safe : ∀ (qs top cur : List Q) (seen : Bool),
    (∀ q ∈ qs, operandOk q = true) → (∀ q ∈ top, cleanS q = true) → (∀ q ∈ cur, cleanS q = true) →
    Safe (poLoop qs top cur seen) (fun r => (∀ q ∈ r.1, cleanS q = true) ∧ (∀ q ∈ r.2.1, cleanS q = true))
  | [], top, cur, seen, _, ht, hc => by simp [poLoop, Safe]; exact ⟨ht, hc⟩
  | q :: rest, top, cur, seen, hq, ht, hc => by
    unfold poLoop
    split
    · split
      · exact Safe.err
      · refine poLoop_safe rest _ [] true (fun x hx => hq x (by simp [hx])) ?_ (by simp)
        intro x hx
        simp only [List.mem_append, List.mem_singleton] at hx
        rcases hx with hx | rfl
        · exact ht x hx
        · simp only [cleanS]; exact (cleanSList_iff cur).mpr hc
    · rename_i hnot
      refine poLoop_safe rest top _ seen (fun x hx => hq x (by simp [hx])) ht ?_
      intro x hx
      simp only [List.mem_append, List.mem_singleton] at hx
      rcases hx with hx | rfl
      · exact hc x hx
      · have := hq x (by simp)
        simp only [operandOk, Bool.or_eq_true] at this
        rcases this with h | h
        · exact absurd h hnot
        · exact h

theorem parseOperators_safe (qs : List Q) (h : ∀ q ∈ qs, operandOk q = true) :
    Safe (parseOperators qs) (fun q => cleanS q = true) := by
  unfold parseOperators
  refine (poLoop_safe qs [] [] false h (by simp) (by simp)).bind ?_
  intro r ⟨h1, h2⟩
  split
  · exact Safe.err
  · simp only [Safe, cleanS]
    rw [cleanSList_iff]
    intro x hx
    simp only [List.mem_append, List.mem_singleton] at hx
    rcases hx with hx | rfl
    · exact h1 x hx
    · simp only [cleanS]; exact (cleanSList_iff _).mpr h2

theorem scanDirectives_ok : ∀ (qs : List Q) (k : B) (hs : Bool) (t : Nat) (acc : List Q),
    (∀ q ∈ qs, itemOk q = true) → (∀ q ∈ acc, operandOk q = true) →
    ∀ q ∈ (scanDirectives qs k hs t acc).2.2.2, operandOk q = true
  | [], k, hs, t, acc, _, ha => by simpa [scanDirectives] using ha
  | q :: rest, k, hs, t, acc, hq, ha => by
    have hrest : ∀ x ∈ rest, itemOk x = true := fun x hx => hq x (by simp [hx])
    have hq0 := hq q (by simp)
    cases q
    case caseQ f => simp only [scanDirectives]; exact scanDirectives_ok rest _ _ _ _ hrest ha
    case type ty c => simp only [scanDirectives]; exact scanDirectives_ok rest _ _ _ _ hrest ha
    all_goals
      simp only [scanDirectives]
      refine scanDirectives_ok rest _ _ _ _ hrest ?_
      intro x hx
      simp only [List.mem_append, List.mem_singleton] at hx
      rcases hx with hx | rfl
      · exact ha x hx
      · simpa [itemOk, operandOk, isDirTok] using hq0

theorem wrapScopes_ok : ∀ qs : List Q, (∀ q ∈ qs, operandOk q = true) → ∀ q ∈ wrapScopes qs, operandOk q = true
  | [], _ => by simp [wrapScopes]
  | q :: rest, h => by
    intro x hx
    simp only [wrapScopes, List.mem_cons] at hx
    rcases hx with rfl | hx
    · have hq := h q (by simp)
      split
      · exact hq
      · rename_i hn
        simp only [operandOk, Bool.or_eq_true] at hq ⊢
        rcases hq with hq | hq
        · exact absurd hq hn
        · right; simpa [cleanS] using hq
    · exact wrapScopes_ok rest (fun y hy => h y (by simp [hy])) x hx

theorem finishList_safe (qs : List Q) (h : ∀ q ∈ qs, itemOk q = true) :
    Safe (finishList qs) (fun r => ∀ q ∈ r, operandOk q = true) := by
  unfold finishList
  simp only
  have h1 := scanDirectives_ok qs bAuto false 100 [] h (by simp)
  have h2 := operandOk_setCaseList (scanDirectives qs bAuto false 100 []).1 _ h1
  refine Safe.bind (P := fun r => ∀ q ∈ r, operandOk q = true) ?_ ?_
  · split
    · refine (parseOperators_safe _ h2).bind ?_
      intro typed ht
      simp only [Safe]
      intro q hq
      simp only [List.mem_singleton] at hq
      subst hq
      simp [operandOk, cleanS, ht]
    · exact Safe.ok h2
  · intro r hr
    simp only [Safe]
    split
    · exact wrapScopes_ok r hr
    · exact hr

/-! ### parseExpr / parseExprList: in bounds, enough fuel, well-shaped items -/

theorem skipSpaces_length : ∀ b : B, (skipSpaces b).length ≤ b.length
  | [] => by simp [skipSpaces]
  | c :: rest => by
    unfold skipSpaces
    split
    · have := skipSpaces_length rest; simp; omega
    · simp

theorem nextTokenIgnoreErr_safe (b : B) :
    Safe (nextTokenIgnoreErr b) (fun r => ∀ t, r = some t → 1 ≤ t.input.length ∧ t.input.length ≤ b.length) := by
  have h := nextToken_safe b
  unfold nextTokenIgnoreErr
  split
  · simp [Safe]
  · exact h

theorem tokInputLen_le {b : B} {t? : Option Token}
    (h : ∀ t, t? = some t → 1 ≤ t.input.length ∧ t.input.length ≤ b.length) : tokInputLen t? ≤ b.length := by
  cases t? with
  | none => simp [tokInputLen]
  | some t => simpa [tokInputLen] using (h t rfl).2

theorem tokIs_some {t? : Option Token} {k : Nat} (h : tokIs t? k = true) : ∃ t, t? = some t := by
  cases t? with
  | none => simp [tokIs] at h
  | some t => exact ⟨t, rfl⟩

def ExprPost (inp : B) (r : Option Q × Nat) : Prop :=
  r.2 ≤ inp.length ∧ ∀ q, r.1 = some q → 1 ≤ r.2 ∧ (isDirTok q = true ∨ cleanS q = true)
def LoopPost (b : B) (r : List Q × B) : Prop :=
  r.2.length ≤ b.length ∧ ∀ q ∈ r.1, itemOk q = true
def ListPost (inp : B) (r : List Q × Nat) : Prop :=
  r.2 ≤ inp.length ∧ ∀ q ∈ r.1, operandOk q = true

theorem parser_safe (O : Oracle) (fuel : Nat) :
    (∀ inp : B, 3 * inp.length + 1 ≤ fuel → Safe (parseExpr O fuel inp) (ExprPost inp)) ∧
    (∀ (b : B) (qs : List Q), 3 * b.length + 2 ≤ fuel → (∀ q ∈ qs, itemOk q = true) →
        Safe (pelLoop O fuel b qs) (LoopPost b)) ∧
    (∀ inp : B, 3 * inp.length + 3 ≤ fuel → Safe (parseExprList O fuel inp) (ListPost inp)) := by
  induction fuel with
  | zero => exact ⟨fun _ h => by omega, fun _ _ h => by omega, fun _ h => by omega⟩
  | succ fuel ih =>
    obtain ⟨ihE, ihP, ihL⟩ := ih
    refine ⟨?_, ?_, ?_⟩
    · -- parseExpr
      intro inp hfuel
      unfold parseExpr
      simp only
      have hsk := skipSpaces_length inp
      refine (nextToken_safe (skipSpaces inp)).bind ?_
      intro tok? htok
      cases tok? with
      | none => simp [Safe, ExprPost]
      | some tok =>
        obtain ⟨ht1, ht2⟩ := htok tok rfl
        simp only
        refine (sliceFrom_safe _ _ _ ht2).bind ?_
        intro b1 hb1
        have hb1len : b1.length + 1 ≤ inp.length := by rw [hb1]; simp; omega
        by_cases hpo : tok.typ = tokParenOpen
        · rw [if_pos hpo]
          refine (ihL b1 (by omega)).bind ?_
          intro r ⟨hr1, hr2⟩
          refine (sliceFrom_safe _ _ _ hr1).bind ?_
          intro b2 hb2
          refine (nextToken_safe b2).bind ?_
          intro pTok hp
          split
          · refine (sliceFrom_safe _ _ _ (tokInputLen_le hp)).bind ?_
            intro b3 hb3
            refine (parseOperators_safe r.1 hr2).bind ?_
            intro e he
            have hb3len : b3.length ≤ b1.length := by rw [hb3, hb2]; simp
            refine (subLen_safe _ _ _ (by omega)).bind ?_
            intro n hn
            simp only [Safe, ExprPost]
            refine ⟨by omega, ?_⟩
            intro q hq
            cases hq
            exact ⟨by omega, Or.inr he⟩
          · exact Safe.err
        · rw [if_neg hpo]
          by_cases hng : tok.typ = tokNegate
          · rw [if_pos hng]
            refine (ihE b1 (by omega)).bind ?_
            intro r ⟨hr1, hr2⟩
            cases hsub : r.1 with
            | none => simp only; exact Safe.err
            | some sub =>
              simp only
              obtain ⟨hn1, hshape⟩ := hr2 sub hsub
              split
              · exact Safe.err
              · rename_i hnd
                refine (sliceFrom_safe _ _ _ hr1).bind ?_
                intro b2 hb2
                have hb2len : b2.length ≤ b1.length := by rw [hb2]; simp
                refine (subLen_safe _ _ _ (by omega)).bind ?_
                intro n hn
                simp only [Safe, ExprPost]
                refine ⟨by omega, ?_⟩
                intro q hq
                cases hq
                refine ⟨by omega, Or.inr ?_⟩
                rcases hshape with hd | hc
                · exact absurd (isDirTok_isDirective hd) hnd
                · simpa [cleanS] using hc
          · rw [if_neg hng]
            refine (atomOf_safe O tok).bind ?_
            intro e he
            refine (subLen_safe _ _ _ (by omega)).bind ?_
            intro n hn
            simp only [Safe, ExprPost]
            refine ⟨by omega, ?_⟩
            intro q hq
            exact ⟨by omega, he q hq⟩
    · -- pelLoop
      intro b qs hfuel hqs
      unfold pelLoop
      cases b with
      | nil => simp [Safe, LoopPost]; exact hqs
      | cons c rest =>
        simp only
        have hsk := skipSpaces_length (c :: rest)
        refine (nextTokenIgnoreErr_safe (skipSpaces (c :: rest))).bind ?_
        intro tok? htok
        split
        · simp only [Safe, LoopPost]; exact ⟨hsk, hqs⟩
        · split
          · rename_i hor
            obtain ⟨t, ht⟩ := tokIs_some hor
            obtain ⟨ht1, ht2⟩ := htok t ht
            refine (sliceFrom_safe _ _ _ (tokInputLen_le htok)).bind ?_
            intro b1 hb1
            have hb1len : b1.length + 1 ≤ (c :: rest).length := by
              rw [hb1, ht]; simp only [tokInputLen, List.length_drop]; omega
            simp only [List.length_cons] at hfuel hb1len
            refine (ihP b1 (qs ++ [.orOp]) (by omega) ?_).mono ?_
            · intro q hq
              simp only [List.mem_append, List.mem_singleton] at hq
              rcases hq with hq | rfl
              · exact hqs q hq
              · simp [itemOk, isOrOp]
            · intro r ⟨hr1, hr2⟩
              exact ⟨by simp only [List.length_cons]; omega, hr2⟩
          · simp only [List.length_cons] at hfuel hsk
            refine (ihE (skipSpaces (c :: rest)) (by omega)).bind ?_
            intro r ⟨hr1, hr2⟩
            cases hq : r.1 with
            | none => simp only [Safe, LoopPost]; exact ⟨by simpa using hsk, hqs⟩
            | some q =>
              simp only
              obtain ⟨hn1, hshape⟩ := hr2 q hq
              refine (sliceFrom_safe _ _ _ hr1).bind ?_
              intro b1 hb1
              have hb1len : b1.length + 1 ≤ rest.length + 1 := by rw [hb1]; simp only [List.length_drop]; omega
              refine (ihP b1 (qs ++ [q]) (by omega) ?_).mono ?_
              · intro x hx
                simp only [List.mem_append, List.mem_singleton] at hx
                rcases hx with hx | rfl
                · exact hqs x hx
                · rcases hshape with h | h <;> simp [itemOk, h]
              · intro r' ⟨hr1', hr2'⟩
                exact ⟨by simp only [List.length_cons]; omega, hr2'⟩
    · -- parseExprList
      intro inp hfuel
      unfold parseExprList
      refine (ihP inp [] (by omega) (by simp)).bind ?_
      intro r ⟨hr1, hr2⟩
      refine (finishList_safe r.1 hr2).bind ?_
      intro qs hqs
      refine (subLen_safe _ _ _ hr1).bind ?_
      intro n hn
      simp only [Safe, ListPost]
      exact ⟨by omega, hqs⟩

/-! ### stripCaseScopes and Simplify -/

mutual
theorem clean_strip : ∀ q, cleanS q = true → clean (stripCaseScopes q) = true
  | .and cs, h => by simp only [stripCaseScopes, clean]; exact cleanList_strip cs (by simpa [cleanS] using h)
  | .or cs, h => by simp only [stripCaseScopes, clean]; exact cleanList_strip cs (by simpa [cleanS] using h)
  | .not c, h => by simp only [stripCaseScopes, clean]; exact clean_strip c (by simpa [cleanS] using h)
  | .type t c, h => by simp only [stripCaseScopes, clean]; exact clean_strip c (by simpa [cleanS] using h)
  | .caseScope c, h => by simp only [stripCaseScopes]; exact clean_strip c (by simpa [cleanS] using h)
  | .sym e, h => by simpa [stripCaseScopes, clean, cleanS] using h
  | .nil, h => by simp [cleanS] at h
  | .caseQ _, h => by simp [cleanS] at h
  | .orOp, h => by simp [cleanS] at h
  | .const _, _ => by simp [stripCaseScopes, clean]
  | .substr .., _ => by simp [stripCaseScopes, clean]
  | .regexp .., _ => by simp [stripCaseScopes, clean]
  | .repo _, _ => by simp [stripCaseScopes, clean]
  | .rawConfig _, _ => by simp [stripCaseScopes, clean]
  | .branch _, _ => by simp [stripCaseScopes, clean]
  | .lang _, _ => by simp [stripCaseScopes, clean]
  | .metaQ .., _ => by simp [stripCaseScopes, clean]
theorem cleanList_strip : ∀ qs, cleanSList qs = true → cleanList (stripCaseScopesList qs) = true
  | [], _ => by simp [stripCaseScopesList, cleanList]
  | q :: qs, h => by
    simp only [cleanSList, Bool.and_eq_true] at h
    simp only [stripCaseScopesList, cleanList, Bool.and_eq_true]
    exact ⟨clean_strip q h.1, cleanList_strip qs h.2⟩
end

theorem clean_const (v : Bool) : clean (.const v) = true := by simp [clean]

theorem foldConsts_clean (isAnd : Bool) : ∀ (cs acc : List Q), (∀ q ∈ cs, clean q = true) → (∀ q ∈ acc, clean q = true) →
    (∀ c, (foldConsts isAnd cs acc).1 = some c → clean c = true) ∧ (∀ q ∈ (foldConsts isAnd cs acc).2, clean q = true)
  | [], acc, _, ha => by simp [foldConsts]; exact ha
  | ch :: rest, acc, hc, ha => by
    have hrest : ∀ q ∈ rest, clean q = true := fun q hq => hc q (by simp [hq])
    unfold foldConsts
    split
    · split
      · exact foldConsts_clean isAnd rest acc hrest ha
      · simp only
        exact ⟨fun c hc' => by cases hc'; exact hc ch (by simp), ha⟩
    · refine foldConsts_clean isAnd rest (acc ++ [ch]) hrest ?_
      intro q hq
      simp only [List.mem_append, List.mem_singleton] at hq
      rcases hq with hq | rfl
      · exact ha q hq
      · exact hc q (by simp)

theorem evalAndOr_clean (isAnd : Bool) (cs : List Q) (h : ∀ q ∈ cs, clean q = true) : clean (evalAndOr isAnd cs) = true := by
  unfold evalAndOr
  have := foldConsts_clean isAnd cs [] h (by simp)
  split
  · rename_i c _ heq
    exact this.1 c (by rw [heq])
  · rename_i newCH heq
    have h2 : ∀ q ∈ newCH, clean q = true := by
      have := this.2; rw [heq] at this; exact this
    split
    · simp [clean]
    · split <;> (simp only [clean]; exact (cleanList_iff _).mpr h2)

mutual
theorem clean_evalConstants : ∀ q, clean q = true → clean (evalConstants q) = true
  | .and cs, h => by
    simp only [evalConstants]
    exact evalAndOr_clean _ _ ((cleanList_iff _).mp (cleanList_evalConstants cs (by simpa [clean] using h)))
  | .or cs, h => by
    simp only [evalConstants]
    exact evalAndOr_clean _ _ ((cleanList_iff _).mp (cleanList_evalConstants cs (by simpa [clean] using h)))
  | .not c, h => by
    have ih := clean_evalConstants c (by simpa [clean] using h)
    simp only [evalConstants]
    split
    · simp [clean]
    · simpa [clean] using ih
  | .type t c, h => by
    have ih := clean_evalConstants c (by simpa [clean] using h)
    simp only [evalConstants]
    split
    · simp [clean]
    · simpa [clean] using ih
  | .substr .., _ => by simp only [evalConstants]; split <;> simp [clean]
  | .regexp .., _ => by simp only [evalConstants]; split <;> simp [clean]
  | .branch _, _ => by simp only [evalConstants]; split <;> simp [clean]
  | .sym e, h => by simpa [evalConstants] using h
  | .nil, h => by simp [clean] at h
  | .caseQ _, h => by simp [clean] at h
  | .orOp, h => by simp [clean] at h
  | .caseScope _, h => by simp [clean] at h
  | .const _, _ => by simp [evalConstants, clean]
  | .repo _, _ => by simp [evalConstants, clean]
  | .rawConfig _, _ => by simp [evalConstants, clean]
  | .lang _, _ => by simp [evalConstants, clean]
  | .metaQ .., _ => by simp [evalConstants, clean]
theorem cleanList_evalConstants : ∀ qs, cleanList qs = true → cleanList (evalConstantsList qs) = true
  | [], _ => by simp [evalConstantsList, cleanList]
  | q :: qs, h => by
    simp only [cleanList, Bool.and_eq_true] at h
    simp only [evalConstantsList, cleanList, Bool.and_eq_true]
    exact ⟨clean_evalConstants q h.1, cleanList_evalConstants qs h.2⟩
end

theorem childrenIf_some {isAnd : Bool} {q : Q} {sub : List Q} (h : childrenIf isAnd q = some sub) :
    q.size = 1 + sizeList sub ∧ (clean q = true → cleanList sub = true) := by
  cases q <;> simp only [childrenIf] at h
  case and cs =>
    split at h
    · cases h; simp [Q.size, clean]
    · cases h
  case or cs =>
    split at h
    · cases h
    · cases h; simp [Q.size, clean]
  all_goals cases h

theorem sizeList_append (a b : List Q) : sizeList (a ++ b) = sizeList a + sizeList b := by
  induction a with
  | nil => simp [sizeList]
  | cons q a ih => simp [sizeList, ih]; omega

theorem cleanList_append (a b : List Q) : cleanList (a ++ b) = (cleanList a && cleanList b) := by
  induction a with
  | nil => simp [cleanList]
  | cons q a ih => simp [cleanList, ih, Bool.and_assoc]

mutual
theorem flatten_spec : ∀ q, ((flatten q).1.size ≤ q.size ∧ ((flatten q).2 = true → (flatten q).1.size < q.size)) ∧
    (clean q = true → clean (flatten q).1 = true)
  | .and cs => by
    have ih := flattenAndOr_spec true cs
    unfold flatten
    split
    · rename_i c
      simp [Q.size, sizeList, clean, cleanList]
    · simp only [Q.size, clean]
      exact ⟨⟨by omega, fun h => by have := ih.1.2 h; omega⟩, ih.2⟩
  | .or cs => by
    have ih := flattenAndOr_spec false cs
    unfold flatten
    split
    · rename_i c
      simp [Q.size, sizeList, clean, cleanList]
    · simp only [Q.size, clean]
      exact ⟨⟨by omega, fun h => by have := ih.1.2 h; omega⟩, ih.2⟩
  | .not c => by
    have ih := flatten_spec c
    simp only [flatten, Q.size, clean]
    exact ⟨⟨by omega, fun h => by have := ih.1.2 h; omega⟩, ih.2⟩
  | .type t c => by
    have ih := flatten_spec c
    simp only [flatten, Q.size, clean]
    exact ⟨⟨by omega, fun h => by have := ih.1.2 h; omega⟩, ih.2⟩
  | .nil => by simp [flatten]
  | .const _ => by simp [flatten]
  | .substr .. => by simp [flatten]
  | .regexp .. => by simp [flatten]
  | .repo _ => by simp [flatten]
  | .rawConfig _ => by simp [flatten]
  | .branch _ => by simp [flatten]
  | .lang _ => by simp [flatten]
  | .sym _ => by simp [flatten]
  | .metaQ .. => by simp [flatten]
  | .caseQ _ => by simp [flatten]
  | .orOp => by simp [flatten]
  | .caseScope _ => by simp [flatten]
theorem flattenAndOr_spec (isAnd : Bool) : ∀ cs,
    (sizeList (flattenAndOr isAnd cs).1 ≤ sizeList cs ∧
      ((flattenAndOr isAnd cs).2 = true → sizeList (flattenAndOr isAnd cs).1 < sizeList cs)) ∧
    (cleanList cs = true → cleanList (flattenAndOr isAnd cs).1 = true)
  | [] => by simp [flattenAndOr, sizeList]
  | ch :: rest => by
    have ih1 := flatten_spec ch
    have ih2 := flattenAndOr_spec isAnd rest
    unfold flattenAndOr
    simp only
    split
    · rename_i sub hsub
      have hs := childrenIf_some hsub
      simp only [sizeList_append, sizeList, cleanList_append, cleanList, Bool.and_eq_true]
      refine ⟨⟨by omega, fun _ => by omega⟩, ?_⟩
      intro ⟨hc1, hc2⟩
      exact ⟨hs.2 (ih1.2 hc1), ih2.2 hc2⟩
    · simp only [sizeList, cleanList, Bool.and_eq_true, Bool.or_eq_true]
      refine ⟨⟨by omega, ?_⟩, ?_⟩
      · intro h
        rcases h with h | h
        · have := ih1.1.2 h; omega
        · have := ih2.1.2 h; omega
      · intro ⟨hc1, hc2⟩
        exact ⟨ih1.2 hc1, ih2.2 hc2⟩
end

theorem flattenLoop_safe : ∀ (fuel : Nat) (q : Q), q.size < fuel → clean q = true →
    Safe (flattenLoop fuel q) (fun r => clean r = true)
  | 0, _, h, _ => by omega
  | fuel + 1, q, h, hc => by
    have hs := flatten_spec q
    unfold flattenLoop
    simp only
    split
    · rename_i hch
      exact flattenLoop_safe fuel _ (by have := hs.1.2 hch; omega) (hs.2 hc)
    · exact Safe.ok (hs.2 hc)

theorem simplify_safe (q : Q) (h : clean q = true) : Safe (simplify q) (fun r => clean r = true) := by
  unfold simplify
  exact flattenLoop_safe _ _ (by omega) (clean_evalConstants q h)

/-- **Parse is total and its result is well-shaped** -/
theorem parse_safe (O : Oracle) (s : B) : Safe (parse O s) (fun q => clean q = true) := by
  unfold parse
  refine ((parser_safe O (parseFuel s)).2.2 s (by simp [parseFuel])).bind ?_
  intro r ⟨hr1, hr2⟩
  split
  · refine (sliceFrom_safe _ _ _ hr1).bind ?_
    intro _ _
    exact Safe.err
  · refine (parseOperators_safe r.1 hr2).bind ?_
    intro q hq
    exact simplify_safe _ (clean_strip q hq)

/-! ### consumers of a well-shaped tree -/

theorem kind_of_atom {q : Q} (h : isTextAtom q = true) : q.kind = "Substring" ∨ q.kind = "Regexp" := by
  cases q <;> simp_all [isTextAtom, Q.kind]

theorem leafOk_safe {cases : List String} {k w : String} (h : cases.contains k = true) :
    Safe (leafOk cases k w) (fun _ => True) := by
  unfold leafOk; rw [if_pos h]; trivial

theorem leafOk_ok {cases : List String} {k w : String} (h : cases.contains k = true) : leafOk cases k w = .ok () := by
  unfold leafOk; rw [if_pos h]

mutual
theorem toProto_clean : ∀ q, clean q = true → toProto toProtoCases q = .ok ()
  | .and cs, h => by
    simp only [toProto]
    rw [if_pos (by decide)]
    exact toProtoList_clean cs (by simpa [clean] using h)
  | .or cs, h => by
    simp only [toProto]
    rw [if_pos (by decide)]
    exact toProtoList_clean cs (by simpa [clean] using h)
  | .not c, h => by
    simp only [toProto]
    rw [if_pos (by decide)]
    exact toProto_clean c (by simpa [clean] using h)
  | .type t c, h => by
    simp only [toProto]
    rw [if_pos (by decide)]
    exact toProto_clean c (by simpa [clean] using h)
  | .sym e, h => by
    have hS : toProtoCases.contains "Symbol" = true := by decide
    have : isTextAtom e = true := by simpa [clean] using h
    cases e
    case substr =>
      simp only [toProto, hS, if_true]
      exact leafOk_ok (show toProtoCases.contains "Substring" = true by decide)
    case regexp =>
      simp only [toProto, hS, if_true]
      exact leafOk_ok (show toProtoCases.contains "Regexp" = true by decide)
    all_goals simp [isTextAtom] at this
  | .nil, h => by simp [clean] at h
  | .caseQ _, h => by simp [clean] at h
  | .orOp, h => by simp [clean] at h
  | .caseScope _, h => by simp [clean] at h
  | .const _, _ => by unfold toProto; exact leafOk_ok (show toProtoCases.contains "Const" = true by decide)
  | .substr .., _ => by unfold toProto; exact leafOk_ok (show toProtoCases.contains "Substring" = true by decide)
  | .regexp .., _ => by unfold toProto; exact leafOk_ok (show toProtoCases.contains "Regexp" = true by decide)
  | .repo _, _ => by unfold toProto; exact leafOk_ok (show toProtoCases.contains "Repo" = true by decide)
  | .rawConfig _, _ => by unfold toProto; exact leafOk_ok (show toProtoCases.contains "RawConfig" = true by decide)
  | .branch _, _ => by unfold toProto; exact leafOk_ok (show toProtoCases.contains "Branch" = true by decide)
  | .lang _, _ => by unfold toProto; exact leafOk_ok (show toProtoCases.contains "Language" = true by decide)
  | .metaQ .., _ => by unfold toProto; exact leafOk_ok (show toProtoCases.contains "Meta" = true by decide)
theorem toProtoList_clean : ∀ qs, cleanList qs = true → toProtoList toProtoCases qs = .ok ()
  | [], _ => by simp [toProtoList]
  | q :: qs, h => by
    simp only [cleanList, Bool.and_eq_true] at h
    simp only [toProtoList]
    rw [toProto_clean q h.1]
    exact toProtoList_clean qs h.2
end

mutual
theorem matchTree_clean : ∀ q, clean q = true →
    Safe (matchTree newMatchTreeCases newMatchTreeTypeArms q) (fun _ => True)
  | .and cs, h => by
    simp only [matchTree]
    rw [if_pos (show newMatchTreeCases.contains "And" = true by decide)]
    exact matchTreeList_clean cs (by simpa [clean] using h)
  | .or cs, h => by
    simp only [matchTree]
    rw [if_pos (show newMatchTreeCases.contains "Or" = true by decide)]
    exact matchTreeList_clean cs (by simpa [clean] using h)
  | .not c, h => by
    simp only [matchTree]
    rw [if_pos (show newMatchTreeCases.contains "Not" = true by decide)]
    exact matchTree_clean c (by simpa [clean] using h)
  | .type t c, h => by
    simp only [matchTree]
    rw [if_pos (show newMatchTreeCases.contains "Type" = true by decide)]
    split
    · exact matchTree_clean c (by simpa [clean] using h)
    · exact Safe.err
  | .sym e, h => by
    have hS : newMatchTreeCases.contains "Symbol" = true := by decide
    have : isTextAtom e = true := by simpa [clean] using h
    cases e
    case substr =>
      simp only [matchTree, hS, if_true]
      exact leafOk_safe (show newMatchTreeCases.contains "Substring" = true by decide)
    case regexp =>
      simp only [matchTree, hS, if_true]
      exact leafOk_safe (show newMatchTreeCases.contains "Regexp" = true by decide)
    all_goals simp [isTextAtom] at this
  | .nil, h => by simp [clean] at h
  | .caseQ _, h => by simp [clean] at h
  | .orOp, h => by simp [clean] at h
  | .caseScope _, h => by simp [clean] at h
  | .const _, _ => by unfold matchTree; exact leafOk_safe (show newMatchTreeCases.contains "Const" = true by decide)
  | .substr .., _ => by unfold matchTree; exact leafOk_safe (show newMatchTreeCases.contains "Substring" = true by decide)
  | .regexp .., _ => by unfold matchTree; exact leafOk_safe (show newMatchTreeCases.contains "Regexp" = true by decide)
  | .repo _, _ => by unfold matchTree; exact leafOk_safe (show newMatchTreeCases.contains "Repo" = true by decide)
  | .rawConfig _, _ => by unfold matchTree; exact leafOk_safe (show newMatchTreeCases.contains "RawConfig" = true by decide)
  | .branch _, _ => by unfold matchTree; exact leafOk_safe (show newMatchTreeCases.contains "Branch" = true by decide)
  | .lang _, _ => by unfold matchTree; exact leafOk_safe (show newMatchTreeCases.contains "Language" = true by decide)
  | .metaQ .., _ => by unfold matchTree; exact leafOk_safe (show newMatchTreeCases.contains "Meta" = true by decide)
theorem matchTreeList_clean : ∀ qs, cleanList qs = true →
    Safe (matchTreeList newMatchTreeCases newMatchTreeTypeArms qs) (fun _ => True)
  | [], _ => by simp [matchTreeList, Safe]
  | q :: qs, h => by
    simp only [cleanList, Bool.and_eq_true] at h
    have h1 := matchTree_clean q h.1
    have h2 := matchTreeList_clean qs h.2
    simp only [matchTreeList]
    split
    · exact h2
    · exact h1
end

end ZoektModel.C07
