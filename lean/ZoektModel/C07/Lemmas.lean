/-
C07 — lemmas about the parser model: every slice is in bounds, every loop has fuel left, and the shape of the
trees it builds.  (Property statements are in Props/C07.lean.)
-/
import ZoektModel.C07.Spec
namespace ZoektModel.C07
open ZoektModel

/-- `o` neither panics nor diverges, and its value (if any) satisfies `P` -/
def Safe {α} (o : Outcome α) (P : α → Prop) : Prop :=
  match o with
  | .ok a => P a
  | .err _ => True
  | .panic _ => False
  | .diverge => False

theorem bind_ok {α β} (a : α) (f : α → Outcome β) : (Outcome.ok a).bind f = f a := rfl
theorem bind_err {α β} (e : String) (f : α → Outcome β) : (Outcome.err e : Outcome α).bind f = .err e := rfl

theorem Safe.bind {α β} {x : Outcome α} {f : α → Outcome β} {P : α → Prop} {Q : β → Prop}
    (hx : Safe x P) (hf : ∀ a, P a → Safe (f a) Q) : Safe (x.bind f) Q := by
  cases x with
  | ok a => exact hf a hx
  | err e => trivial
  | panic s => exact hx.elim
  | diverge => exact hx.elim

theorem Safe.mono {α} {x : Outcome α} {P Q : α → Prop} (hx : Safe x P) (h : ∀ a, P a → Q a) : Safe x Q := by
  cases x with
  | ok a => exact h a hx
  | err e => trivial
  | panic s => exact hx.elim
  | diverge => exact hx.elim

theorem Safe.ok {α} {a : α} {P : α → Prop} (h : P a) : Safe (Outcome.ok a) P := h
theorem Safe.err {α} {e : String} {P : α → Prop} : Safe (Outcome.err e : Outcome α) P := trivial

theorem Safe.isOkOrErr {α} {x : Outcome α} {P : α → Prop} (h : Safe x P) : x.isOkOrErr = true := by
  cases x <;> simp_all [Safe, Outcome.isOkOrErr]

theorem Safe.of_ok {α} {x : Outcome α} {P : α → Prop} {a : α} (h : Safe x P) (e : x = .ok a) : P a := by
  subst e; exact h

theorem sliceFrom_safe (site : String) (b : B) (n : Nat) (h : n ≤ b.length) :
    Safe (sliceFrom site b n) (fun r => r = b.drop n) := by
  simp [sliceFrom, h, Safe]

theorem sliceTo_safe (site : String) (b : B) (n : Nat) (h : n ≤ b.length) :
    Safe (sliceTo site b n) (fun r => r = b.take n) := by
  simp [sliceTo, h, Safe]

theorem subLen_safe (site : String) (a b : B) (h : b.length ≤ a.length) :
    Safe (subLen site a b) (fun n => n = a.length - b.length) := by
  simp [subLen, h, Safe]

/-! ### parseStringLiteral -/

theorem pslLoop_safe (left lit : B) : Safe (pslLoop left lit) (fun r => r.2.length < left.length) := by
  fun_induction pslLoop left lit
  all_goals first
    | exact Safe.err
    | (simp [Safe]; done)
    | (rename_i ih; exact Safe.mono ih (fun r hr => by simp at hr ⊢; omega))

theorem parseStringLiteral_safe (inp : B) (h : 1 ≤ inp.length) :
    Safe (parseStringLiteral inp) (fun r => 2 ≤ r.2 ∧ r.2 ≤ inp.length) := by
  unfold parseStringLiteral
  refine (sliceFrom_safe _ inp 1 h).bind ?_
  intro left hl
  refine (pslLoop_safe left []).bind ?_
  intro r hr
  have hlen : left.length = inp.length - 1 := by simp [hl]
  refine (subLen_safe _ inp r.2 (by omega)).bind ?_
  intro n hn
  exact Safe.ok (by simp; omega)

/-! ### nextToken -/

theorem ntLoop_safe (fuel : Nat) : ∀ (left : B) (pc : Nat) (text : B), left.length < fuel →
    Safe (ntLoop fuel left pc text)
      (fun r => r.1.length ≤ left.length ∧ (r.2.1 = text ∨ r.1.length < left.length) ∧ text <+: r.2.1) := by
  induction fuel with
  | zero => intro left pc text h; omega
  | succ fuel ih =>
    intro left pc text h
    unfold ntLoop
    cases left with
    | nil => simp [Safe]
    | cons c rest =>
      simp only [List.length_cons] at h
      simp only
      split
      · refine (ih rest (pc + 1) (text ++ [c]) (by omega)).mono ?_
        intro r ⟨h1, h2, h3⟩
        refine ⟨by simp; omega, Or.inr (by simp; omega), ?_⟩
        exact List.IsPrefix.trans (List.prefix_append text [c]) h3
      · split
        · split
          · split
            · rename_i ht
              simp [Safe]
              simp at ht
              simp [ht]
            · simp [Safe]
          · refine (ih rest (pc - 1) (text ++ [c]) (by omega)).mono ?_
            intro r ⟨h1, h2, h3⟩
            refine ⟨by simp; omega, Or.inr (by simp; omega), ?_⟩
            exact List.IsPrefix.trans (List.prefix_append text [c]) h3
        · split
          · refine (parseStringLiteral_safe (c :: rest) (by simp)).bind ?_
            intro r ⟨hr1, hr2⟩
            refine (sliceFrom_safe _ _ r.2 hr2).bind ?_
            intro left' hl'
            subst hl'
            simp only [List.length_cons] at hr2
            refine (ih _ pc (text ++ r.1) (by simp; omega)).mono ?_
            intro r' ⟨h1, h2, h3⟩
            simp only [List.length_drop, List.length_cons] at h1 h2
            refine ⟨by simp; omega, Or.inr (by simp; omega), ?_⟩
            exact List.IsPrefix.trans (List.prefix_append text r.1) h3
          · split
            · cases rest with
              | nil => exact Safe.err
              | cons c2 rest2 =>
                simp only [List.length_cons] at h
                refine (ih rest2 pc (text ++ [92, c2]) (by omega)).mono ?_
                intro r ⟨h1, h2, h3⟩
                refine ⟨by simp; omega, Or.inr (by simp; omega), ?_⟩
                exact List.IsPrefix.trans (List.prefix_append text [92, c2]) h3
            · split
              · simp [Safe]
              · refine (ih rest pc (text ++ [c]) (by omega)).mono ?_
                intro r ⟨h1, h2, h3⟩
                refine ⟨by simp; omega, Or.inr (by simp; omega), ?_⟩
                exact List.IsPrefix.trans (List.prefix_append text [c]) h3

/-- bytes that the tokenizer's loop appends unchanged (its `default:` arm) -/
def isDflt (c : Nat) : Bool := c != 40 && c != 41 && c != 34 && c != 92 && c != 32 && c != 10 && c != 9

theorem ntLoop_plain (p : B) : ∀ (rest : B) (fuel pc : Nat) (text : B), (∀ c ∈ p, isDflt c = true) →
    ntLoop (fuel + p.length) (p ++ rest) pc text = ntLoop fuel rest pc (text ++ p) := by
  induction p with
  | nil => intro rest fuel pc text _; simp
  | cons c p ih =>
    intro rest fuel pc text h
    have hc : isDflt c = true := h c (by simp)
    simp [isDflt] at hc
    obtain ⟨⟨⟨⟨⟨⟨h1, h2⟩, h3⟩, h4⟩, h5⟩, h6⟩, h7⟩ := hc
    have hp : ∀ c ∈ p, isDflt c = true := fun x hx => h x (by simp [hx])
    have : fuel + (c :: p).length = (fuel + p.length) + 1 := by simp; omega
    rw [this, List.cons_append]
    conv => lhs; unfold ntLoop
    simp [h1, h2, h3, h4, h5, h6, h7]
    rw [ih rest fuel pc (text ++ [c]) hp]
    simp

/-- facts about the `prefixes` table that `setType`'s unchecked slice depends on -/
theorem prefixes_dflt : ∀ p ∈ prefixes, (∀ c ∈ p.1, isDflt c = true) ∧ 2 ≤ p.1.length := by decide

theorem findPrefix_some {tbl : List (B × Nat)} {input : B} {r : B × Nat} (h : findPrefix tbl input = some r) :
    r ∈ tbl ∧ r.1 <+: input := by
  unfold findPrefix at h
  have h1 := List.mem_of_find?_eq_some h
  have h2 := List.find?_some h
  exact ⟨h1, List.isPrefixOf_iff_prefix.mp h2⟩

theorem setType_safe (t : Token) (h : ∀ p ∈ prefixes, p.1 <+: t.input → p.1.length ≤ t.text.length) :
    Safe (setType t) (fun r => r.input = t.input) := by
  unfold setType
  split
  · simp [Safe]
  · rename_i pref typ hf
    have hf' := findPrefix_some hf
    refine (sliceFrom_safe _ _ _ (h (pref, typ) hf'.1 hf'.2)).bind ?_
    intro text _
    simp [Safe]

/-- `nextToken` never panics or diverges; a token it returns consumed between 1 and `len(in)` bytes -/
theorem nextToken_safe (inp : B) :
    Safe (nextToken inp) (fun r => ∀ t, r = some t → 1 ≤ t.input.length ∧ t.input.length ≤ inp.length) := by
  unfold nextToken
  cases inp with
  | nil => simp [Safe]
  | cons c0 rest0 =>
    simp only
    split
    · refine (sliceTo_safe _ _ 1 (by simp)).bind ?_
      intro i hi
      simp [Safe, hi]
    · rename_i hneg
      have hrun := ntLoop_safe ((c0 :: rest0).length + 1) (c0 :: rest0) 0 [] (by simp)
      -- keep the equation of the run for the prefix argument
      generalize hres : ntLoop ((c0 :: rest0).length + 1) (c0 :: rest0) 0 [] = res at hrun
      cases res with
      | err e => exact Safe.err
      | panic s => exact hrun.elim
      | diverge => exact hrun.elim
      | ok r =>
        obtain ⟨left, text, fs⟩ := r
        simp only [Safe] at hrun
        obtain ⟨h1, h2, _⟩ := hrun
        simp only [bind_ok]
        cases text with
        | nil => simp [Safe]
        | cons t0 trest =>
          have hlt : left.length < (c0 :: rest0).length := by
            rcases h2 with h2 | h2
            · exact absurd h2 (List.cons_ne_nil _ _)
            · exact h2
          simp only
          split
          · refine (sliceTo_safe _ (t0 :: trest) 1 (by simp)).bind ?_
            intro tx htx
            refine (sliceTo_safe _ (c0 :: rest0) 1 (by simp)).bind ?_
            intro i hi
            refine (setType_safe _ ?_).bind ?_
            · intro p hp hpre
              have := (prefixes_dflt p hp).2
              have hl := hpre.length_le
              simp [hi] at hl
              omega
            · intro t ht
              simp [Safe, ht, hi]
          · refine (subLen_safe _ _ _ (by omega)).bind ?_
            intro n hn
            refine (sliceTo_safe _ _ n (by omega)).bind ?_
            intro i hi
            refine (setType_safe _ ?_).bind ?_
            · intro p hp hpre
              simp only at hpre ⊢
              -- the input starts with the prefix, whose bytes are all copied to the text
              have hd := (prefixes_dflt p hp).1
              have hpin : p.1 <+: (c0 :: rest0) := by
                rw [hi] at hpre
                exact hpre.trans (List.take_prefix _ _)
              obtain ⟨rest, hrest⟩ := hpin
              have hfuel : (c0 :: rest0).length + 1 = (rest.length + 1) + p.1.length := by
                rw [← hrest]; simp; omega
              rw [hfuel, ← hrest, ntLoop_plain p.1 rest (rest.length + 1) 0 [] hd] at hres
              have h3 := ntLoop_safe (rest.length + 1) rest 0 ([] ++ p.1) (by omega)
              rw [hres] at h3
              simp only [Safe] at h3
              have := h3.2.2.length_le
              simpa using this
            · intro t ht
              simp only [Safe]
              intro t' ht'
              cases ht'
              rw [ht, hi, hn]
              simp only [List.length_take, List.length_cons] at hlt ⊢
              omega

end ZoektModel.C07
