/-
C07 — the property as an executable predicate over what is observed of one input:
"Parsing any string … yields a query or an error and never panics. Every query that parsing yields can be
searched, listed, printed and converted to the wire format without panicking."

`Obs` is the observation of one input string, by the model (`observe`) or by the harness on the real code:
the outcome class of `query.Parse`, and — when it returned a query — of `String()`, `QToProto` and
`newMatchTree` (the first thing `Search`/`List` do with a query in a shard).
-/
import ZoektModel.C07.Model
namespace ZoektModel.C07
open ZoektModel

/-- outcome classes: `ok`, `err`, `panic:<site>`, `diverge` -/
def crashFree (cls : String) : Bool := cls == "ok" || cls == "err"

structure Obs where
  parse : String
  str : String := "ok"
  proto : String := "ok"
  mtree : String := "ok"
  deriving Repr

/-- C07 for one input -/
def checkP (o : Obs) : Bool :=
  crashFree o.parse && crashFree o.str && crashFree o.proto && crashFree o.mtree

/-- the first stage that crashed (the failure class reported as the key of a SPECFAIL) -/
def failKey (o : Obs) : String :=
  if !crashFree o.parse then "parse:" ++ o.parse
  else if !crashFree o.str then "string:" ++ o.str
  else if !crashFree o.proto then "proto:" ++ o.proto
  else if !crashFree o.mtree then "matchtree:" ++ o.mtree
  else "none"

def clsOf {α} : Outcome α → String
  | .ok _ => "ok" | .err _ => "err" | .panic s => "panic:" ++ s | .diverge => "diverge"

/-- what the model predicts is observed for input `s` -/
def observe (O : Oracle) (s : B) : Obs :=
  match parse O s with
  | .ok q =>
    { parse := "ok", str := "ok",   -- `String()` has no partial operation on any node kind (fmt prints a nil child)
      proto := clsOf (toProto toProtoCases q),
      mtree := clsOf (matchTree newMatchTreeCases newMatchTreeTypeArms q) }
  | o => { parse := clsOf o }

/-- the JSON API handlers' decision, given the decoded `Q` field: `jsonSearch` rejects an empty query, both reject
    a query that does not parse (HTTP 400); otherwise the searcher runs (HTTP 200 or 500). -/
def jsonStatus (O : Oracle) (isSearch : Bool) (q : B) : String :=
  if isSearch && q.isEmpty then "400"
  else match parse O q with
    | .ok _ => "run"
    | .err _ => "400"
    | .panic s => "panic:" ++ s
    | .diverge => "diverge"

end ZoektModel.C07
