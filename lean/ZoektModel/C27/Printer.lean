/-
C27 — the printer's precedence discipline, at token level.

`printTok` is `writeRegexp` emitting structured tokens instead of characters (`render_printTok`: rendering the tokens
gives back exactly the printer's character output).  `DAlt / DConcat / DRep / DBase` is the RE2 grammar with its
standard precedences (alternation < concatenation < repetition < atom / group), over those tokens, each derivation
yielding the regexp it denotes.  `print_derives`: for every well-formed tree, the printed tokens derive — at
alternation level — a regexp that matches the same strings as the tree.  So the `(?:…)` the printer inserts are
sufficient: read with the grammar's precedences, the printout means what the tree means.
(The lexical layer — that the character string is tokenised this way by `syntax.Parse` — is validated by the
correspondence run, not proved.)
-/
import ZoektModel.C27.Lemmas
namespace ZoektModel.C27
open ZoektModel.Regex

inductive Atom where
  | litRune (c : Nat)
  | foldLit (rs : List Nat)
  | cls (rs : List Nat)
  | noMatch | emptyMatch | anyNotNL | any | beginLine | endLine | beginText
  | endText (wd : Bool)
  | wordB | noWordB

inductive Post where
  | star (ng : Bool) | plus (ng : Bool) | quest (ng : Bool)
  | rep (ng : Bool) (mn : Nat) (mx : Int)

inductive Tok where
  | atom (a : Atom)
  | openNC
  | openCap (name : String)
  | close
  | bar
  | post (p : Post)

def atomRe : Atom → Re
  | .litRune c => .lit [c] false
  | .foldLit rs => .lit rs true
  | .cls rs => .cls rs
  | .noMatch => .noMatch
  | .emptyMatch => .emptyMatch
  | .anyNotNL => .anyNotNL
  | .any => .any
  | .beginLine => .beginLine
  | .endLine => .endLine
  | .beginText => .beginText
  | .endText wd => .endText wd
  | .wordB => .wordB
  | .noWordB => .noWordB

def postRe : Post → Re → Re
  | .star ng, r => .star ng r
  | .plus ng, r => .plus ng r
  | .quest ng, r => .quest ng r
  | .rep ng mn mx, r => .rep ng mn mx r

/-! ### the printer, emitting tokens -/

def wrapTok (b : Bool) (body : List Tok) : List Tok := if b then [Tok.openNC] ++ body ++ [Tok.close] else body

mutual
def printTok : Re → List Tok
  | .noMatch => [.atom .noMatch]
  | .emptyMatch => [.atom .emptyMatch]
  | .lit rs fold => if fold then [.atom (.foldLit rs)] else rs.map fun c => .atom (.litRune c)
  | .cls rs => [.atom (.cls rs)]
  | .anyNotNL => [.atom .anyNotNL]
  | .any => [.atom .any]
  | .beginLine => [.atom .beginLine]
  | .endLine => [.atom .endLine]
  | .beginText => [.atom .beginText]
  | .endText wd => [.atom (.endText wd)]
  | .wordB => [.atom .wordB]
  | .noWordB => [.atom .noWordB]
  | .cap name sub => [.openCap name] ++ (if isEmptyMatch sub then [] else printTok sub) ++ [.close]
  | .star ng sub => wrapTok (needsGroup sub) (printTok sub) ++ [.post (.star ng)]
  | .plus ng sub => wrapTok (needsGroup sub) (printTok sub) ++ [.post (.plus ng)]
  | .quest ng sub => wrapTok (needsGroup sub) (printTok sub) ++ [.post (.quest ng)]
  | .rep ng mn mx sub => wrapTok (needsGroup sub) (printTok sub) ++ [.post (.rep ng mn mx)]
  | .concat subs => printTokConcat subs
  | .alt subs => printTokAlt subs
def printTokConcat : List Re → List Tok
  | [] => []
  | sub :: rest => wrapTok (isAlt sub) (printTok sub) ++ printTokConcat rest
def printTokAlt : List Re → List Tok
  | [] => []
  | [sub] => printTok sub
  | sub :: rest => printTok sub ++ [.bar] ++ printTokAlt rest
end

/-! ### rendering tokens to characters -/

def renderAtom (isPrint : Nat → Bool) : Atom → List Char
  | .litRune c => escape isPrint c false
  | .foldLit rs => "(?i:".toList ++ rs.flatMap (fun r => escape isPrint r false) ++ [')']
  | .cls rs => printClass isPrint rs
  | .noMatch => "[^\\x00-\\x{10FFFF}]".toList
  | .emptyMatch => "(?:)".toList
  | .anyNotNL => "(?-s:.)".toList
  | .any => "(?s:.)".toList
  | .beginLine => "(?m:^)".toList
  | .endLine => "(?m:$)".toList
  | .beginText => "\\A".toList
  | .endText wd => if wd then "(?-m:$)".toList else "\\z".toList
  | .wordB => "\\b".toList
  | .noWordB => "\\B".toList

def renderPost : Post → List Char
  | .star ng => ['*'] ++ ngSuffix ng
  | .plus ng => ['+'] ++ ngSuffix ng
  | .quest ng => ['?'] ++ ngSuffix ng
  | .rep ng mn mx => repSuffix mn mx ++ ngSuffix ng

def renderTok (isPrint : Nat → Bool) : Tok → List Char
  | .atom a => renderAtom isPrint a
  | .openNC => "(?:".toList
  | .openCap name => if name != "" then "(?P<".toList ++ name.toList ++ ['>'] else ['(']
  | .close => [')']
  | .bar => ['|']
  | .post p => renderPost p

def render (isPrint : Nat → Bool) (ts : List Tok) : List Char := ts.flatMap (renderTok isPrint)

theorem render_append (isPrint : Nat → Bool) (a b : List Tok) :
    render isPrint (a ++ b) = render isPrint a ++ render isPrint b := by
  simp [render]

theorem render_wrapTok (isPrint : Nat → Bool) (b : Bool) (body : List Tok) :
    render isPrint (wrapTok b body) = wrapIf b (render isPrint body) := by
  cases b <;> simp [wrapTok, wrapIf, render, renderTok]

theorem render_lits (isPrint : Nat → Bool) (rs : List Nat) :
    render isPrint (rs.map fun c => Tok.atom (.litRune c)) = rs.flatMap (fun r => escape isPrint r false) := by
  induction rs with
  | nil => rfl
  | cons c cs ih =>
    show renderTok isPrint (Tok.atom (.litRune c)) ++ render isPrint (cs.map fun c => Tok.atom (.litRune c)) =
      escape isPrint c false ++ cs.flatMap (fun r => escape isPrint r false)
    rw [ih]; rfl

theorem render_singleton (isPrint : Nat → Bool) (t : Tok) : render isPrint [t] = renderTok isPrint t := by
  simp [render]

theorem render_nil (isPrint : Nat → Bool) : render isPrint [] = [] := rfl

mutual
/-- the token printer followed by rendering is the character printer `printRe` (= `writeRegexp`) -/
theorem render_printTok (isPrint : Nat → Bool) : ∀ r : Re, render isPrint (printTok r) = printRe isPrint r
  | .noMatch => by rw [show printTok .noMatch = [.atom .noMatch] from rfl, render_singleton]; rfl
  | .emptyMatch => by rw [show printTok .emptyMatch = [.atom .emptyMatch] from rfl, render_singleton]; rfl
  | .cls rs => by rw [show printTok (.cls rs) = [.atom (.cls rs)] from rfl, render_singleton]; rfl
  | .anyNotNL => by rw [show printTok .anyNotNL = [.atom .anyNotNL] from rfl, render_singleton]; rfl
  | .any => by rw [show printTok .any = [.atom .any] from rfl, render_singleton]; rfl
  | .beginLine => by rw [show printTok .beginLine = [.atom .beginLine] from rfl, render_singleton]; rfl
  | .endLine => by rw [show printTok .endLine = [.atom .endLine] from rfl, render_singleton]; rfl
  | .beginText => by rw [show printTok .beginText = [.atom .beginText] from rfl, render_singleton]; rfl
  | .endText wd => by rw [show printTok (.endText wd) = [.atom (.endText wd)] from rfl, render_singleton]; rfl
  | .wordB => by rw [show printTok .wordB = [.atom .wordB] from rfl, render_singleton]; rfl
  | .noWordB => by rw [show printTok .noWordB = [.atom .noWordB] from rfl, render_singleton]; rfl
  | .lit rs fold => by
    cases fold
    · rw [show printTok (.lit rs false) = rs.map (fun c => Tok.atom (.litRune c)) from rfl, render_lits]
      show _ = [] ++ rs.flatMap (fun r => escape isPrint r false) ++ []
      simp
    · rw [show printTok (.lit rs true) = [.atom (.foldLit rs)] from rfl, render_singleton]; rfl
  | .cap name sub => by
    rw [show printTok (.cap name sub) = [.openCap name] ++ (if isEmptyMatch sub then [] else printTok sub) ++ [.close] from rfl,
      show printRe isPrint (.cap name sub) = (if name != "" then "(?P<".toList ++ name.toList ++ ['>'] else ['(']) ++
        (if isEmptyMatch sub then [] else printRe isPrint sub) ++ [')'] from rfl,
      render_append, render_append, render_singleton, render_singleton]
    cases h : isEmptyMatch sub
    · simp only [Bool.false_eq_true, if_false]
      rw [render_printTok isPrint sub]; rfl
    · simp only [if_true, render_nil]; rfl
  | .star ng sub => by
    rw [show printTok (.star ng sub) = wrapTok (needsGroup sub) (printTok sub) ++ [.post (.star ng)] from rfl,
      show printRe isPrint (.star ng sub) = wrapIf (needsGroup sub) (printRe isPrint sub) ++ ['*'] ++ ngSuffix ng from rfl,
      render_append, render_wrapTok, render_printTok isPrint sub, render_singleton, List.append_assoc]; rfl
  | .plus ng sub => by
    rw [show printTok (.plus ng sub) = wrapTok (needsGroup sub) (printTok sub) ++ [.post (.plus ng)] from rfl,
      show printRe isPrint (.plus ng sub) = wrapIf (needsGroup sub) (printRe isPrint sub) ++ ['+'] ++ ngSuffix ng from rfl,
      render_append, render_wrapTok, render_printTok isPrint sub, render_singleton, List.append_assoc]; rfl
  | .quest ng sub => by
    rw [show printTok (.quest ng sub) = wrapTok (needsGroup sub) (printTok sub) ++ [.post (.quest ng)] from rfl,
      show printRe isPrint (.quest ng sub) = wrapIf (needsGroup sub) (printRe isPrint sub) ++ ['?'] ++ ngSuffix ng from rfl,
      render_append, render_wrapTok, render_printTok isPrint sub, render_singleton, List.append_assoc]; rfl
  | .rep ng mn mx sub => by
    rw [show printTok (.rep ng mn mx sub) = wrapTok (needsGroup sub) (printTok sub) ++ [.post (.rep ng mn mx)] from rfl,
      show printRe isPrint (.rep ng mn mx sub) = wrapIf (needsGroup sub) (printRe isPrint sub) ++ repSuffix mn mx ++ ngSuffix ng from rfl,
      render_append, render_wrapTok, render_printTok isPrint sub, render_singleton, List.append_assoc]; rfl
  | .concat subs => by
    rw [show printTok (.concat subs) = printTokConcat subs from rfl,
      show printRe isPrint (.concat subs) = printConcat isPrint subs from rfl]
    exact render_printTokConcat isPrint subs
  | .alt subs => by
    rw [show printTok (.alt subs) = printTokAlt subs from rfl,
      show printRe isPrint (.alt subs) = printAlt isPrint subs from rfl]
    exact render_printTokAlt isPrint subs
theorem render_printTokConcat (isPrint : Nat → Bool) :
    ∀ rs : List Re, render isPrint (printTokConcat rs) = printConcat isPrint rs
  | [] => rfl
  | r :: rs => by
    rw [show printTokConcat (r :: rs) = wrapTok (isAlt r) (printTok r) ++ printTokConcat rs from rfl,
      show printConcat isPrint (r :: rs) = wrapIf (isAlt r) (printRe isPrint r) ++ printConcat isPrint rs from rfl,
      render_append, render_wrapTok, render_printTok isPrint r, render_printTokConcat isPrint rs]
theorem render_printTokAlt (isPrint : Nat → Bool) :
    ∀ rs : List Re, render isPrint (printTokAlt rs) = printAlt isPrint rs
  | [] => rfl
  | [r] => by
    rw [show printTokAlt [r] = printTok r from rfl, show printAlt isPrint [r] = printRe isPrint r from rfl]
    exact render_printTok isPrint r
  | r :: r2 :: rs => by
    rw [show printTokAlt (r :: r2 :: rs) = printTok r ++ [.bar] ++ printTokAlt (r2 :: rs) from rfl,
      show printAlt isPrint (r :: r2 :: rs) = printRe isPrint r ++ ['|'] ++ printAlt isPrint (r2 :: rs) from rfl,
      render_append, render_append, render_printTok isPrint r, render_printTokAlt isPrint (r2 :: rs), render_singleton]; rfl
end

/-! ### the grammar -/

mutual
inductive DBase : List Tok → Re → Prop where
  | atom (a : Atom) : DBase [.atom a] (atomRe a)
  | group {ts rs} (h : DAlt ts rs) : DBase ([.openNC] ++ ts ++ [.close]) (.alt rs)
  | cap {n ts rs} (h : DAlt ts rs) : DBase ([.openCap n] ++ ts ++ [.close]) (.cap n (.alt rs))
inductive DRep : List Tok → Re → Prop where
  | base {ts r} (h : DBase ts r) : DRep ts r
  | post {ts r} (p : Post) (h : DBase ts r) : DRep (ts ++ [.post p]) (postRe p r)
inductive DConcat : List Tok → List Re → Prop where
  | nil : DConcat [] []
  | cons {ts r ts' rs} (h : DRep ts r) (t : DConcat ts' rs) : DConcat (ts ++ ts') (r :: rs)
inductive DAlt : List Tok → List Re → Prop where
  | one {ts rs} (h : DConcat ts rs) : DAlt ts [.concat rs]
  | cons {ts rs ts' as} (h : DConcat ts rs) (t : DAlt ts' as) : DAlt (ts ++ [.bar] ++ ts') (.concat rs :: as)
end


/-! ### well-formedness needed for printing: no empty literal, no empty alternation (the parser never builds these) -/

mutual
def WFP : Re → Prop
  | .lit rs _ => rs ≠ []
  | .cap _ r | .star _ r | .plus _ r | .quest _ r | .rep _ _ _ r => WFP r
  | .concat rs => WFPL rs
  | .alt rs => rs ≠ [] ∧ WFPL rs
  | _ => True
def WFPL : List Re → Prop
  | [] => True
  | r :: rs => WFP r ∧ WFPL rs
end

variable {env : Env}

/-! ### more semantics -/

theorem alt_singleton_equiv (r : Re) : Equiv env (.alt [r]) r := by
  intro s i j
  rw [matches_alt]
  constructor
  · rintro ⟨x, hx, h⟩; rw [List.mem_singleton] at hx; subst hx; exact h
  · intro h; exact ⟨r, List.mem_singleton.mpr rfl, h⟩

theorem matches_alt_append {s : Array Nat} {xs ys : List Re} {i j} :
    Matches env s (.alt (xs ++ ys)) i j ↔ Matches env s (.alt xs) i j ∨ Matches env s (.alt ys) i j := by
  simp only [matches_alt, List.mem_append]
  constructor
  · rintro ⟨r, hr | hr, h⟩
    · exact Or.inl ⟨r, hr, h⟩
    · exact Or.inr ⟨r, hr, h⟩
  · rintro (⟨r, hr, h⟩ | ⟨r, hr, h⟩)
    · exact ⟨r, Or.inl hr, h⟩
    · exact ⟨r, Or.inr hr, h⟩

theorem matches_alt_cons {s : Array Nat} {r : Re} {rs : List Re} {i j} :
    Matches env s (.alt (r :: rs)) i j ↔ Matches env s r i j ∨ Matches env s (.alt rs) i j := by
  have := matches_alt_append (env := env) (s := s) (xs := [r]) (ys := rs) (i := i) (j := j)
  simp only [List.singleton_append] at this
  rw [this, alt_singleton_equiv r s i j]

theorem matches_lit_nil {s : Array Nat} {f i j} : Matches env s (.lit [] f) i j ↔ i = j ∧ i ≤ s.size := by
  constructor
  · intro h
    cases h with
    | lit h => simp only [litAt, decide_eq_true_eq] at h; simp [h]
  · rintro ⟨rfl, h⟩
    have : Matches env s (.lit [] f) i (i + ([] : List Nat).length) := .lit (by simp [litAt, h])
    simpa using this

theorem matches_lit_cons {s : Array Nat} {c : Nat} {cs : List Nat} {f i j} :
    Matches env s (.lit (c :: cs) f) i j ↔ ∃ k, Matches env s (.lit [c] f) i k ∧ Matches env s (.lit cs f) k j := by
  constructor
  · intro h
    cases h with
    | lit h =>
      unfold litAt at h
      split at h
      · rename_i d hd
        simp only [Bool.and_eq_true] at h
        refine ⟨i + 1, ?_, ?_⟩
        · have : Matches env s (.lit [c] f) i (i + [c].length) := .lit (by
            unfold litAt; rw [hd]; simp only [h.1, Bool.true_and]
            have := getElem?_lt hd
            simp [litAt]; omega)
          simpa using this
        · have : Matches env s (.lit cs f) (i + 1) (i + 1 + cs.length) := .lit h.2
          simpa [Nat.add_assoc, Nat.add_comm 1] using this
      · cases h
  · rintro ⟨k, h1, h2⟩
    cases h1 with
    | lit h1 =>
      cases h2 with
      | lit h2 =>
        unfold litAt at h1
        split at h1
        · rename_i d hd
          simp only [Bool.and_eq_true] at h1
          have : Matches env s (.lit (c :: cs) f) i (i + (c :: cs).length) := .lit (by
            unfold litAt; rw [hd]; simp only [h1.1, Bool.true_and]
            simpa using h2)
          simpa [Nat.add_assoc, Nat.add_comm 1] using this
        · cases h1

/-- a literal is the concatenation of its one-rune literals -/
theorem lits_concat_equiv (f : Bool) : ∀ rs : List Nat, Equiv env (.concat (rs.map fun c => .lit [c] f)) (.lit rs f)
  | [] => by
    intro s i j
    simp only [List.map_nil]
    rw [matches_concat_nil, matches_lit_nil]
  | c :: cs => by
    intro s i j
    simp only [List.map_cons]
    rw [matches_concat_cons, matches_lit_cons]
    constructor
    · rintro ⟨k, h1, h2⟩; exact ⟨k, h1, (lits_concat_equiv f cs s k j).mp h2⟩
    · rintro ⟨k, h1, h2⟩; exact ⟨k, h1, (lits_concat_equiv f cs s k j).mpr h2⟩

/-! ### derivation combinators -/

theorem DConcat.append' {b : List Tok} {ys : List Re} (h2 : DConcat b ys) :
    ∀ (xs : List Re) (a : List Tok), DConcat a xs → DConcat (a ++ b) (xs ++ ys)
  | [], a, h1 => by cases h1; simpa using h2
  | r :: rs, a, h1 => by
    cases h1 with
    | cons h t =>
      rw [List.append_assoc]
      exact DConcat.cons h (DConcat.append' h2 rs _ t)

theorem DConcat.append {a b : List Tok} {xs ys : List Re} (h1 : DConcat a xs) (h2 : DConcat b ys) :
    DConcat (a ++ b) (xs ++ ys) := DConcat.append' h2 xs a h1

theorem DAlt.append' {b : List Tok} {ys : List Re} (h2 : DAlt b ys) :
    ∀ (xs : List Re) (a : List Tok), DAlt a xs → DAlt (a ++ [.bar] ++ b) (xs ++ ys)
  | [], a, h1 => by cases h1
  | [x], a, h1 => by
    cases h1 with
    | one h => exact DAlt.cons h h2
    | cons h t => cases t
  | x :: y :: zs, a, h1 => by
    cases h1 with
    | cons h t =>
      have := DAlt.cons h (DAlt.append' h2 (y :: zs) _ t)
      simpa [List.append_assoc] using this

theorem DAlt.append {a b : List Tok} {xs ys : List Re} (h1 : DAlt a xs) (h2 : DAlt b ys) :
    DAlt (a ++ [.bar] ++ b) (xs ++ ys) := DAlt.append' h2 xs a h1

theorem DConcat.ofRep {ts : List Tok} {r : Re} (h : DRep ts r) : DConcat ts [r] := by
  have := DConcat.cons h DConcat.nil
  simpa using this

/-- what is shown of a printout at each precedence level -/
def AltLevel (env : Env) (ts : List Tok) (r : Re) : Prop := ∃ xs, DAlt ts xs ∧ Equiv env (.alt xs) r
def ConcatLevel (env : Env) (ts : List Tok) (r : Re) : Prop := ∃ xs, DConcat ts xs ∧ Equiv env (.concat xs) r
def BaseLevel (env : Env) (ts : List Tok) (r : Re) : Prop := ∃ r', DBase ts r' ∧ Equiv env r' r

theorem ConcatLevel.ofRep {ts : List Tok} {r r' : Re} (h : DRep ts r') (e : Equiv env r' r) : ConcatLevel env ts r :=
  ⟨[r'], DConcat.ofRep h, Equiv.trans (concat_singleton_equiv r') e⟩

theorem ConcatLevel.ofBase {ts : List Tok} {r : Re} (h : BaseLevel env ts r) : ConcatLevel env ts r := by
  obtain ⟨r', h, e⟩ := h
  exact ConcatLevel.ofRep (DRep.base h) e

theorem AltLevel.ofConcat {ts : List Tok} {r : Re} (h : ConcatLevel env ts r) : AltLevel env ts r := by
  obtain ⟨xs, h, e⟩ := h
  exact ⟨[.concat xs], DAlt.one h, Equiv.trans (alt_singleton_equiv _) e⟩

/-- `(?:` printout `)` is a base for anything derivable at alternation level -/
theorem BaseLevel.group {ts : List Tok} {r : Re} (h : AltLevel env ts r) : BaseLevel env (wrapTok true ts) r := by
  obtain ⟨xs, h, e⟩ := h
  exact ⟨.alt xs, by simpa [wrapTok] using DBase.group h, e⟩

/-- the operand of a repetition, as the printer emits it -/
theorem operand_base {sub : Re} (hA : AltLevel env (printTok sub) sub)
    (hB : needsGroup sub = false → BaseLevel env (printTok sub) sub) :
    BaseLevel env (wrapTok (needsGroup sub) (printTok sub)) sub := by
  cases h : needsGroup sub
  · simpa [wrapTok] using hB h
  · exact BaseLevel.group hA

theorem postfix_levels {sub : Re} (p : Post) (hb : BaseLevel env (wrapTok (needsGroup sub) (printTok sub)) sub)
    (hc : ∀ r', Equiv env r' sub → Equiv env (postRe p r') (postRe p sub)) :
    ConcatLevel env (wrapTok (needsGroup sub) (printTok sub) ++ [.post p]) (postRe p sub) := by
  obtain ⟨r', h, e⟩ := hb
  exact ConcatLevel.ofRep (DRep.post p h) (hc r' e)

/-- the three facts proved of every printout -/
structure Levels (env : Env) (r : Re) : Prop where
  alt : AltLevel env (printTok r) r
  concat : isAlt r = false → ConcatLevel env (printTok r) r
  base : needsGroup r = false → BaseLevel env (printTok r) r

theorem Levels.ofBase {r : Re} (h : BaseLevel env (printTok r) r) (_hna : isAlt r = false) : Levels env r :=
  ⟨AltLevel.ofConcat (ConcatLevel.ofBase h), fun _ => ConcatLevel.ofBase h, fun _ => h⟩

theorem atom_levels (r : Re) (a : Atom) (hr : atomRe a = r) (ht : printTok r = [.atom a]) (hna : isAlt r = false) :
    Levels env r := by
  apply Levels.ofBase _ hna
  rw [ht]
  exact ⟨atomRe a, DBase.atom a, by rw [hr]; exact Equiv.refl _⟩

theorem lits_dconcat : ∀ rs : List Nat,
    DConcat (rs.map fun c => Tok.atom (.litRune c)) (rs.map fun c => Re.lit [c] false)
  | [] => DConcat.nil
  | c :: cs => by
    have := DConcat.cons (DRep.base (DBase.atom (.litRune c))) (lits_dconcat cs)
    simpa [atomRe] using this

theorem concat_cons_congr {a b : Re} {as bs : List Re} (h1 : Equiv env a b) (h2 : Equiv env (.concat as) (.concat bs)) :
    Equiv env (.concat (a :: as)) (.concat (b :: bs)) := by
  intro s i j
  simp only [matches_concat_cons]
  constructor
  · rintro ⟨k, x, y⟩; exact ⟨k, (h1 s i k).mp x, (h2 s k j).mp y⟩
  · rintro ⟨k, x, y⟩; exact ⟨k, (h1 s i k).mpr x, (h2 s k j).mpr y⟩

theorem concat_append_congr {xs ys : List Re} {r : Re} {rs : List Re} (h1 : Equiv env (.concat xs) r)
    (h2 : Equiv env (.concat ys) (.concat rs)) : Equiv env (.concat (xs ++ ys)) (.concat (r :: rs)) := by
  intro s i j
  rw [matches_concat_append, matches_concat_cons]
  constructor
  · rintro ⟨k, x, y⟩; exact ⟨k, (h1 s i k).mp x, (h2 s k j).mp y⟩
  · rintro ⟨k, x, y⟩; exact ⟨k, (h1 s i k).mpr x, (h2 s k j).mpr y⟩

theorem alt_append_congr {xs ys : List Re} {r : Re} {rs : List Re} (h1 : Equiv env (.alt xs) r)
    (h2 : Equiv env (.alt ys) (.alt rs)) : Equiv env (.alt (xs ++ ys)) (.alt (r :: rs)) := by
  intro s i j
  rw [matches_alt_append, matches_alt_cons, h1 s i j, h2 s i j]

mutual
/-- every printout derives, at each precedence level the printer uses it at, a regexp equivalent to the tree -/
theorem print_levels (env : Env) : ∀ r : Re, WFP r → Levels env r
  | .noMatch, _ => atom_levels _ .noMatch rfl rfl rfl
  | .emptyMatch, _ => atom_levels _ .emptyMatch rfl rfl rfl
  | .cls rs, _ => atom_levels _ (.cls rs) rfl rfl rfl
  | .anyNotNL, _ => atom_levels _ .anyNotNL rfl rfl rfl
  | .any, _ => atom_levels _ .any rfl rfl rfl
  | .beginLine, _ => atom_levels _ .beginLine rfl rfl rfl
  | .endLine, _ => atom_levels _ .endLine rfl rfl rfl
  | .beginText, _ => atom_levels _ .beginText rfl rfl rfl
  | .endText wd, _ => atom_levels _ (.endText wd) rfl rfl rfl
  | .wordB, _ => atom_levels _ .wordB rfl rfl rfl
  | .noWordB, _ => atom_levels _ .noWordB rfl rfl rfl
  | .lit rs true, _ => atom_levels _ (.foldLit rs) rfl rfl rfl
  | .lit rs false, hw => by
    have hc : ConcatLevel env (printTok (.lit rs false)) (.lit rs false) :=
      ⟨_, lits_dconcat rs, lits_concat_equiv false rs⟩
    refine ⟨AltLevel.ofConcat hc, fun _ => hc, ?_⟩
    intro hn
    have hn' : ¬ rs.length > 1 := by simpa [needsGroup] using hn
    have hne : rs ≠ [] := by simpa only [WFP] using hw
    match rs, hn', hne with
    | [c], _, _ => exact ⟨_, DBase.atom (.litRune c), Equiv.refl _⟩
    | [], _, h => exact absurd rfl h
    | _ :: _ :: _, h, _ => simp at h
  | .cap n sub, hw => by
    have hw' : WFP sub := by simpa only [WFP] using hw
    apply Levels.ofBase _ rfl
    show BaseLevel env ([.openCap n] ++ (if isEmptyMatch sub then [] else printTok sub) ++ [.close]) (.cap n sub)
    cases h : isEmptyMatch sub
    · simp only [Bool.false_eq_true, if_false]
      obtain ⟨xs, hd, e⟩ := (print_levels env sub hw').alt
      exact ⟨_, DBase.cap hd, cap_congr e⟩
    · simp only [if_true]
      have hs : sub = .emptyMatch := by cases sub <;> simp [isEmptyMatch] at h ⊢
      subst hs
      refine ⟨_, DBase.cap (DAlt.one DConcat.nil), cap_congr ?_⟩
      refine Equiv.trans (alt_singleton_equiv _) ?_
      intro s i j
      rw [matches_concat_nil, matches_emptyMatch]
  | .star ng sub, hw => by
    have hw' : WFP sub := by simpa only [WFP] using hw
    have L := print_levels env sub hw'
    have hc : ConcatLevel env (printTok (.star ng sub)) (.star ng sub) :=
      postfix_levels (.star ng) (operand_base L.alt L.base) (fun _ e => star_congr e)
    exact ⟨AltLevel.ofConcat hc, fun _ => hc, fun h => by simp [needsGroup, opAboveCapture] at h⟩
  | .plus ng sub, hw => by
    have hw' : WFP sub := by simpa only [WFP] using hw
    have L := print_levels env sub hw'
    have hc : ConcatLevel env (printTok (.plus ng sub)) (.plus ng sub) :=
      postfix_levels (.plus ng) (operand_base L.alt L.base) (fun _ e => plus_congr e)
    exact ⟨AltLevel.ofConcat hc, fun _ => hc, fun h => by simp [needsGroup, opAboveCapture] at h⟩
  | .quest ng sub, hw => by
    have hw' : WFP sub := by simpa only [WFP] using hw
    have L := print_levels env sub hw'
    have hc : ConcatLevel env (printTok (.quest ng sub)) (.quest ng sub) :=
      postfix_levels (.quest ng) (operand_base L.alt L.base) (fun _ e => quest_congr e)
    exact ⟨AltLevel.ofConcat hc, fun _ => hc, fun h => by simp [needsGroup, opAboveCapture] at h⟩
  | .rep ng mn mx sub, hw => by
    have hw' : WFP sub := by simpa only [WFP] using hw
    have L := print_levels env sub hw'
    have hc : ConcatLevel env (printTok (.rep ng mn mx sub)) (.rep ng mn mx sub) :=
      postfix_levels (.rep ng mn mx) (operand_base L.alt L.base) (fun _ e => rep_congr e)
    exact ⟨AltLevel.ofConcat hc, fun _ => hc, fun h => by simp [needsGroup, opAboveCapture] at h⟩
  | .concat subs, hw => by
    have hw' : WFPL subs := by simpa only [WFP] using hw
    have hc : ConcatLevel env (printTok (.concat subs)) (.concat subs) := print_levels_concat env subs hw'
    exact ⟨AltLevel.ofConcat hc, fun _ => hc, fun h => by simp [needsGroup, opAboveCapture] at h⟩
  | .alt subs, hw => by
    have hw' : subs ≠ [] ∧ WFPL subs := by simpa only [WFP] using hw
    exact ⟨print_levels_alt env subs hw'.1 hw'.2, fun h => by simp [isAlt] at h,
      fun h => by simp [needsGroup, opAboveCapture] at h⟩
theorem print_levels_concat (env : Env) : ∀ rs : List Re, WFPL rs → ConcatLevel env (printTokConcat rs) (.concat rs)
  | [], _ => ⟨[], DConcat.nil, Equiv.refl _⟩
  | r :: rs, hw => by
    have hw' : WFP r ∧ WFPL rs := by simpa only [WFPL] using hw
    have L := print_levels env r hw'.1
    obtain ⟨ys, hd2, e2⟩ := print_levels_concat env rs hw'.2
    show ConcatLevel env (wrapTok (isAlt r) (printTok r) ++ printTokConcat rs) (.concat (r :: rs))
    cases h : isAlt r
    · obtain ⟨xs, hd1, e1⟩ := L.concat h
      exact ⟨xs ++ ys, by simpa [wrapTok] using DConcat.append hd1 hd2, concat_append_congr e1 e2⟩
    · obtain ⟨r', hb, e1⟩ := BaseLevel.group L.alt
      exact ⟨r' :: ys, DConcat.cons (DRep.base hb) hd2, concat_cons_congr e1 e2⟩
theorem print_levels_alt (env : Env) : ∀ rs : List Re, rs ≠ [] → WFPL rs → AltLevel env (printTokAlt rs) (.alt rs)
  | [], h, _ => absurd rfl h
  | [r], _, hw => by
    have hw' : WFP r ∧ WFPL [] := by simpa only [WFPL] using hw
    obtain ⟨xs, hd, e⟩ := (print_levels env r hw'.1).alt
    exact ⟨xs, hd, Equiv.trans e (Equiv.symm (alt_singleton_equiv r))⟩
  | r :: r2 :: rs, _, hw => by
    have hw' : WFP r ∧ WFPL (r2 :: rs) := by simpa only [WFPL] using hw
    obtain ⟨xs, hd1, e1⟩ := (print_levels env r hw'.1).alt
    obtain ⟨ys, hd2, e2⟩ := print_levels_alt env (r2 :: rs) (by simp) hw'.2
    exact ⟨xs ++ ys, DAlt.append hd1 hd2, alt_append_congr e1 e2⟩
end

end ZoektModel.C27
