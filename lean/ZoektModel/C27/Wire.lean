/-
Wire format of regexp trees shared by the C27 / C28 drivers and harnesses (prefix notation, tokens separated by ','):
  nm em L<fold>:<r.r.r> C:<r.r.r.r> dn da bl el bt et<wasDollar> wb nwb P:<name> st<ng> pl<ng> qu<ng>
  rp<ng>:<min>:<max> cat:<n> alt:<n>
Core Lean only.
-/
import ZoektModel.C27.Regex
namespace ZoektModel.Regex.Wire
open ZoektModel.Regex

def parseNats (s : String) : Option (List Nat) :=
  if s == "" || s == "-" then some [] else (s.splitOn ".").mapM String.toNat?

def showNats (l : List Nat) : String := ".".intercalate (l.map toString)

def bit? (s : String) : Option Bool := if s == "1" then some true else if s == "0" then some false else none
def showBit (b : Bool) : String := if b then "1" else "0"

mutual
def parseRe : Nat → List String → Option (Re × List String)
  | 0, _ => none
  | _, [] => none
  | fuel + 1, tok :: rest =>
    match tok.splitOn ":" with
    | ["nm"] => some (.noMatch, rest)
    | ["em"] => some (.emptyMatch, rest)
    | ["L0", rs] => (parseNats rs).map fun l => (.lit l false, rest)
    | ["L1", rs] => (parseNats rs).map fun l => (.lit l true, rest)
    | ["C", rs] => (parseNats rs).map fun l => (.cls l, rest)
    | ["dn"] => some (.anyNotNL, rest)
    | ["da"] => some (.any, rest)
    | ["bl"] => some (.beginLine, rest)
    | ["el"] => some (.endLine, rest)
    | ["bt"] => some (.beginText, rest)
    | ["et0"] => some (.endText false, rest)
    | ["et1"] => some (.endText true, rest)
    | ["wb"] => some (.wordB, rest)
    | ["nwb"] => some (.noWordB, rest)
    | ["P", name] => (parseRe fuel rest).map fun (r, rest') => (.cap name r, rest')
    | ["st0"] => (parseRe fuel rest).map fun (r, rest') => (.star false r, rest')
    | ["st1"] => (parseRe fuel rest).map fun (r, rest') => (.star true r, rest')
    | ["pl0"] => (parseRe fuel rest).map fun (r, rest') => (.plus false r, rest')
    | ["pl1"] => (parseRe fuel rest).map fun (r, rest') => (.plus true r, rest')
    | ["qu0"] => (parseRe fuel rest).map fun (r, rest') => (.quest false r, rest')
    | ["qu1"] => (parseRe fuel rest).map fun (r, rest') => (.quest true r, rest')
    | [rp, mn, mx] =>
      if rp == "rp0" || rp == "rp1" then
        match mn.toNat?, mx.toInt?, parseRe fuel rest with
        | some mn, some mx, some (r, rest') => some (.rep (rp == "rp1") mn mx r, rest')
        | _, _, _ => none
      else none
    | ["cat", n] => match n.toNat? with
      | some n => (parseMany fuel n rest).map fun (l, rest') => (.concat l, rest')
      | none => none
    | ["alt", n] => match n.toNat? with
      | some n => (parseMany fuel n rest).map fun (l, rest') => (.alt l, rest')
      | none => none
    | _ => none
def parseMany : Nat → Nat → List String → Option (List Re × List String)
  | 0, _, _ => none
  | _, 0, toks => some ([], toks)
  | fuel + 1, n + 1, toks =>
    match parseRe fuel toks with
    | none => none
    | some (r, rest) =>
      match parseMany fuel n rest with
      | none => none
      | some (l, rest') => some (r :: l, rest')
end

/-- parse a whole tree (all tokens consumed) -/
def parseTree (s : String) : Option Re :=
  let toks := s.splitOn ","
  match parseRe (2 * toks.length + 2) toks with
  | some (r, []) => some r
  | _ => none

mutual
def showToks : Re → List String
  | .noMatch => ["nm"]
  | .emptyMatch => ["em"]
  | .lit rs f => [s!"L{showBit f}:{showNats rs}"]
  | .cls rs => [s!"C:{showNats rs}"]
  | .anyNotNL => ["dn"]
  | .any => ["da"]
  | .beginLine => ["bl"]
  | .endLine => ["el"]
  | .beginText => ["bt"]
  | .endText wd => [s!"et{showBit wd}"]
  | .wordB => ["wb"]
  | .noWordB => ["nwb"]
  | .cap n r => s!"P:{n}" :: showToks r
  | .star ng r => s!"st{showBit ng}" :: showToks r
  | .plus ng r => s!"pl{showBit ng}" :: showToks r
  | .quest ng r => s!"qu{showBit ng}" :: showToks r
  | .rep ng mn mx r => s!"rp{showBit ng}:{mn}:{mx}" :: showToks r
  | .concat rs => s!"cat:{rs.length}" :: showToksL rs
  | .alt rs => s!"alt:{rs.length}" :: showToksL rs
def showToksL : List Re → List String
  | [] => []
  | r :: rs => showToks r ++ showToksL rs
end

def showTree (r : Re) : String := ",".intercalate (showToks r)

/-- orbit table `p:c.c.c;p:c.c` (or `-`): `foldEq p c` iff `c` is listed for `p` -/
def parseOrbits (s : String) : Option (List (Nat × List Nat)) :=
  if s == "-" || s == "" then some [] else
  (s.splitOn ";").mapM fun e =>
    match e.splitOn ":" with
    | [p, cs] => do pure (← p.toNat?, ← parseNats cs)
    | _ => none

def envOf (tab : List (Nat × List Nat)) : Env :=
  ⟨fun p c => match tab.lookup p with | some cs => cs.contains c | none => false⟩

/-- spans `a:b,a:b` or `-` -/
def parseSpans (s : String) : Option (List (Nat × Nat)) :=
  if s == "-" || s == "" then some [] else
  (s.splitOn ",").mapM fun e =>
    match e.splitOn ":" with
    | [a, b] => do pure (← a.toNat?, ← b.toNat?)
    | _ => none

end ZoektModel.Regex.Wire
