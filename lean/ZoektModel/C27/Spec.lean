/-
C27 — the property as executable predicates, written from the statement ("matches exactly the same strings"),
not from the code.  `validFindAll env s r L` says: `L` is what *some* leftmost regexp engine following Go's
`FindAllIndex` protocol may report for a regexp with the language of `r` on subject `s` — every reported span
is a match of `r` (`Regex.ends`), spans are in order and non-overlapping, no empty match directly after the
previous match, and no position at which `r` can match is skipped (except the one empty match the protocol
itself discards).  It deliberately does not fix the *priority* among the possible ends of a match (greedy /
non-greedy / alternation order): that part is compared engine-against-engine by the harness.
Core Lean only.
-/
import ZoektModel.C27.Model
namespace ZoektModel.C27
open ZoektModel.Regex

/-- the engine was allowed to report nothing starting at `k` -/
def noStartAt (env : Env) (s : Array Nat) (r : Re) (prevEnd : Option Nat) (k : Nat) : Bool :=
  let e := ends env s r k
  e.isEmpty || (prevEnd == some k && e.contains k)

def allNoStart (env : Env) (s : Array Nat) (r : Re) (prevEnd : Option Nat) (lo hi : Nat) : Bool :=
  (List.range (hi - lo)).all fun d => noStartAt env s r prevEnd (lo + d)

def validFindAllAux (env : Env) (s : Array Nat) (r : Re) : List (Nat × Nat) → Option Nat → Nat → Bool
  | [], prevEnd, lo => allNoStart env s r prevEnd lo (s.size + 1)
  | (a, b) :: rest, prevEnd, lo =>
    decide (lo ≤ a) && decide (a ≤ b) && decide (b ≤ s.size) && matchSpan env s r a b &&
    !(a == b && prevEnd == some a) &&
    allNoStart env s r prevEnd lo a &&
    validFindAllAux env s r rest (some b) (if a == b then b + 1 else b)

/-- `L` is an admissible `FindAllIndex(s, -1)` result for the language of `r` -/
def validFindAll (env : Env) (s : Array Nat) (r : Re) (L : List (Nat × Nat)) : Bool :=
  validFindAllAux env s r L none 0

/-- C27 on one (regexp, subject): the spans reported by the real engine for the *printed and re-parsed*
    regexp (`printed`) and for the *optimised* regexp (`optimized`) are admissible results for the original
    tree `r`.  `orig` (the engine on the original pattern text) is held to the same standard, which ties the
    model's semantics of the tree to the real engine. -/
def checkP (env : Env) (s : Array Nat) (r : Re) (orig printed optimized : List (Nat × Nat)) : Option String :=
  if !validFindAll env s r orig then some "model-semantics-vs-engine"
  else if !validFindAll env s r printed then some "print-reparse-changes-language"
  else if !validFindAll env s r optimized then some "optimize-changes-language"
  else none

end ZoektModel.C27
