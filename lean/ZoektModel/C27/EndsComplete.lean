/-
Completeness of the executable matcher `Regex.ends` with respect to `Regex.Matches`: every match is reported.
With `EndsSound`: `j ∈ ends env s r i ↔ Matches env s r i j`, so "`ends` is empty" (the test behind the leftmost
clause of `validFindAll`) means "no match starts here".
-/
import ZoektModel.C27.EndsSound
namespace ZoektModel.C27
open ZoektModel.Regex

variable {env : Env} {s : Array Nat}

/-- pigeonhole: a duplicate-free list of naturals below `n` has at most `n` elements -/
theorem nodup_bounded_length : ∀ (n : Nat) (l : List Nat), l.Nodup → (∀ x ∈ l, x < n) → l.length ≤ n
  | 0, l, _, h => by
    cases l with
    | nil => simp
    | cons a t => exact absurd (h a List.mem_cons_self) (Nat.not_lt_zero _)
  | n + 1, l, hn, h => by
    by_cases hm : n ∈ l
    · have h1 := nodup_bounded_length n (l.erase n) (hn.erase n) (by
        intro x hx
        have := (hn.mem_erase_iff).mp hx
        have := h x this.2
        omega)
      rw [List.length_erase_of_mem hm] at h1
      omega
    · have := nodup_bounded_length n l hn (by
        intro x hx
        have := h x hx
        have : x ≠ n := fun e => hm (e ▸ hx)
        omega)
      omega

theorem insertNew_nodup {acc : List Nat} {y : Nat} (h : acc.Nodup) : (insertNew acc y).Nodup := by
  unfold insertNew
  split
  · exact h
  · rename_i hc
    rw [List.nodup_append]
    refine ⟨h, by simp, ?_⟩
    intro a ha b hb
    simp at hb; subst hb
    intro e; subst e
    exact hc (by simpa using ha)

theorem unionNew_nodup {xs : List Nat} : ∀ {acc : List Nat}, acc.Nodup → (unionNew acc xs).Nodup := by
  induction xs with
  | nil => intro acc h; simpa [unionNew] using h
  | cons y ys ih =>
    intro acc h
    have : unionNew acc (y :: ys) = unionNew (insertNew acc y) ys := rfl
    rw [this]; exact ih (insertNew_nodup h)

theorem stepFold_nodup {step : Nat → List Nat} {fr : List Nat} : ∀ {acc : List Nat}, acc.Nodup →
    (fr.foldl (fun acc k => unionNew acc (step k)) acc).Nodup := by
  induction fr with
  | nil => intro acc h; simpa using h
  | cons k ks ih => intro acc h; simp only [List.foldl_cons]; exact ih (unionNew_nodup h)

theorem stepSet_nodup {step : Nat → List Nat} {fr : List Nat} : (stepSet step fr).Nodup := by
  unfold stepSet; exact stepFold_nodup (by simp)

/-- with enough fuel, `closure` contains its start set and is closed under `step` -/
theorem closure_complete {step : Nat → List Nat} (B : Nat) (hB : ∀ k x, x ∈ step k → x ≤ B) :
    ∀ (fuel : Nat) (fr acc : List Nat), acc.Nodup → (∀ x ∈ acc, x ≤ B) → (∀ x ∈ fr, x ∈ acc) →
      (∀ k ∈ acc, k ∉ fr → ∀ x ∈ step k, x ∈ acc) → B + 2 ≤ fuel + acc.length →
      (∀ x ∈ acc, x ∈ closure step fuel fr acc) ∧
      (∀ k ∈ closure step fuel fr acc, ∀ x ∈ step k, x ∈ closure step fuel fr acc) := by
  intro fuel
  induction fuel with
  | zero =>
    intro fr acc hn hb _ _ hf
    have := nodup_bounded_length (B + 1) acc hn (fun x hx => by have := hb x hx; omega)
    omega
  | succ fuel ih =>
    intro fr acc hn hb hfr hcl hf
    unfold closure
    simp only
    have hnew_mem : ∀ x, x ∈ (stepSet step fr).filter (fun x => !acc.contains x) ↔
        (∃ k, k ∈ fr ∧ x ∈ step k) ∧ x ∉ acc := by
      intro x
      rw [List.mem_filter, mem_stepSet]
      simp
    split
    · rename_i hemp
      have hemp' := List.isEmpty_iff.mp hemp
      refine ⟨fun x hx => hx, ?_⟩
      intro k hk x hx
      by_cases hkf : k ∈ fr
      · by_cases hxa : x ∈ acc
        · exact hxa
        · have : x ∈ (stepSet step fr).filter (fun x => !acc.contains x) := (hnew_mem x).mpr ⟨⟨k, hkf, hx⟩, hxa⟩
          rw [hemp'] at this; simp at this
      · exact hcl k hk hkf x hx
    · rename_i hne
      have hlen : 1 ≤ ((stepSet step fr).filter (fun x => !acc.contains x)).length := by
        cases hl : (stepSet step fr).filter (fun x => !acc.contains x) with
        | nil => rw [hl] at hne; simp at hne
        | cons a t => simp
      have := ih ((stepSet step fr).filter (fun x => !acc.contains x))
        (acc ++ (stepSet step fr).filter (fun x => !acc.contains x))
        (by
          rw [List.nodup_append]
          refine ⟨hn, List.Pairwise.filter _ stepSet_nodup, ?_⟩
          intro a ha b hb e
          subst e
          exact ((hnew_mem a).mp hb).2 ha)
        (by
          intro x hx
          rcases List.mem_append.mp hx with h | h
          · exact hb x h
          · obtain ⟨⟨k, _, hxk⟩, _⟩ := (hnew_mem x).mp h
            exact hB k x hxk)
        (fun x hx => List.mem_append.mpr (Or.inr hx))
        (by
          intro k hk hknew x hx
          rcases List.mem_append.mp hk with h | h
          · by_cases hkf : k ∈ fr
            · by_cases hxa : x ∈ acc
              · exact List.mem_append.mpr (Or.inl hxa)
              · exact List.mem_append.mpr (Or.inr ((hnew_mem x).mpr ⟨⟨k, hkf, hx⟩, hxa⟩))
            · exact List.mem_append.mpr (Or.inl (hcl k h hkf x hx))
          · exact absurd h hknew)
        (by simp only [List.length_append]; omega)
      exact ⟨fun x hx => this.1 x (List.mem_append.mpr (Or.inl hx)), this.2⟩

/-- membership in an `n`-fold step, one step at a time -/
theorem mem_stepN_succ {step : Nat → List Nat} : ∀ (n : Nat) (cur : List Nat) (k y : Nat),
    k ∈ stepN step n cur → y ∈ step k → y ∈ stepN step (n + 1) cur := by
  intro n
  induction n with
  | zero =>
    intro cur k y hk hy
    show y ∈ stepN step 0 (stepSet step cur)
    exact mem_stepSet.mpr ⟨k, by simpa [stepN] using hk, hy⟩
  | succ n ih =>
    intro cur k y hk hy
    show y ∈ stepN step (n + 1) (stepSet step cur)
    exact ih (stepSet step cur) k y hk hy

theorem stepN_mono {step : Nat → List Nat} : ∀ (n : Nat) (cur cur' : List Nat), (∀ x ∈ cur, x ∈ cur') →
    ∀ y ∈ stepN step n cur, y ∈ stepN step n cur' := by
  intro n
  induction n with
  | zero => intro cur cur' h y hy; exact h y hy
  | succ n ih =>
    intro cur cur' h y hy
    refine ih (stepSet step cur) (stepSet step cur') ?_ y hy
    intro x hx
    obtain ⟨k, hk, hxk⟩ := mem_stepSet.mp hx
    exact mem_stepSet.mpr ⟨k, h k hk, hxk⟩

/-- anything reachable in `n` steps from the start set is in a (sufficiently fuelled) closure -/
theorem stepN_subset_closed {step : Nat → List Nat} (R : List Nat) (hcl : ∀ k ∈ R, ∀ x ∈ step k, x ∈ R) :
    ∀ (n : Nat) (cur : List Nat), (∀ x ∈ cur, x ∈ R) → ∀ y ∈ stepN step n cur, y ∈ R := by
  intro n
  induction n with
  | zero => intro cur h y hy; exact h y hy
  | succ n ih =>
    intro cur h y hy
    refine ih (stepSet step cur) ?_ y hy
    intro x hx
    obtain ⟨k, hk, hxk⟩ := mem_stepSet.mp hx
    exact hcl k (h k hk) x hxk

theorem stepN_add {step : Nat → List Nat} : ∀ (a b : Nat) (cur : List Nat),
    stepN step (a + b) cur = stepN step b (stepN step a cur) := by
  intro a
  induction a with
  | zero => intro b cur; simp [stepN]
  | succ a ih =>
    intro b cur
    have : a + 1 + b = (a + b) + 1 := by omega
    rw [this]
    show stepN step (a + b) (stepSet step cur) = stepN step b (stepN step a (stepSet step cur))
    exact ih b _

theorem stepN_nil {step : Nat → List Nat} : ∀ n : Nat, stepN step n [] = [] := by
  intro n
  induction n with
  | zero => rfl
  | succ n ih => show stepN step n (stepSet step []) = []; simpa [stepSet] using ih

theorem stepUpTo_acc {step : Nat → List Nat} : ∀ (n : Nat) (cur acc : List Nat) (x : Nat),
    x ∈ acc → x ∈ stepUpTo step n cur acc := by
  intro n
  induction n with
  | zero => intro cur acc x h; simpa [stepUpTo] using h
  | succ n ih =>
    intro cur acc x h
    unfold stepUpTo
    simp only
    split
    · exact h
    · exact ih _ _ x (mem_unionNew.mpr (Or.inl h))

theorem stepUpTo_complete {step : Nat → List Nat} : ∀ (n : Nat) (cur acc : List Nat) (t : Nat) (y : Nat),
    t ≤ n → y ∈ stepN step t cur → (t = 0 → y ∈ acc) → y ∈ stepUpTo step n cur acc := by
  intro n
  induction n with
  | zero =>
    intro cur acc t y ht _ h0
    have : t = 0 := by omega
    simpa [stepUpTo] using h0 this
  | succ n ih =>
    intro cur acc t y ht hy h0
    cases t with
    | zero => exact stepUpTo_acc _ _ _ y (h0 rfl)
    | succ t =>
      have hy' : y ∈ stepN step t (stepSet step cur) := hy
      unfold stepUpTo
      simp only
      split
      · rename_i hemp
        rw [List.isEmpty_iff.mp hemp, stepN_nil] at hy'
        simp at hy'
      · exact ih _ _ t y (by omega) hy' (fun e => by
          subst e
          exact mem_unionNew.mpr (Or.inr (by simpa [stepN] using hy')))

theorem endsSeq_replicate (r : Re) : ∀ (n : Nat) (cur : List Nat),
    endsSeq env s (List.replicate n r) cur = stepN (ends env s r) n cur := by
  intro n
  induction n with
  | zero => intro cur; simp [endsSeq, stepN]
  | succ n ih =>
    intro cur
    rw [List.replicate_succ]
    show endsSeq env s (List.replicate n r) (stepSet (ends env s r) cur) = stepN (ends env s r) n (stepSet (ends env s r) cur)
    exact ih _

theorem ends_le (r : Re) (k x : Nat) (h : x ∈ ends env s r k) : x ≤ s.size :=
  (matches_bounds (ends_sound r k x h)).2

/-- the closure used for `*`, `+`, `{n,}`: contains the start set and everything reachable from it -/
theorem closure_reach (r : Re) (start : List Nat) (hn : start.Nodup) (hb : ∀ x ∈ start, x ≤ s.size) (hne : start ≠ []) :
    ∀ (n : Nat) (y : Nat), y ∈ stepN (ends env s r) n start → y ∈ closure (ends env s r) (s.size + 2) start start := by
  have hc := closure_complete (step := ends env s r) s.size (fun k x h => ends_le r k x h) (s.size + 2) start start hn hb
    (fun x hx => hx) (fun k hk hkn => absurd hk hkn) (by
      have : 1 ≤ start.length := by
        cases start with
        | nil => exact absurd rfl hne
        | cons a t => simp
      omega)
  intro n y hy
  exact stepN_subset_closed _ hc.2 n start hc.1 y hy

theorem closure_nil (step : Nat → List Nat) (fuel : Nat) : closure step fuel [] [] = [] := by
  cases fuel with
  | zero => rfl
  | succ f => simp [closure, stepSet]

theorem endsSeq_mono : ∀ (rs : List Re) (cur cur' : List Nat), (∀ x ∈ cur, x ∈ cur') →
    ∀ y ∈ endsSeq env s rs cur, y ∈ endsSeq env s rs cur'
  | [], cur, cur', h, y, hy => by simpa [endsSeq] using h y (by simpa [endsSeq] using hy)
  | r :: rs, cur, cur', h, y, hy => by
    simp only [endsSeq] at hy ⊢
    refine endsSeq_mono rs _ _ ?_ y hy
    intro x hx
    obtain ⟨k, hk, hxk⟩ := mem_stepSet.mp hx
    exact mem_stepSet.mpr ⟨k, h k hk, hxk⟩

theorem mem_endsAlt : ∀ (rs : List Re) (r : Re) (i y : Nat), r ∈ rs → y ∈ ends env s r i → y ∈ endsAlt env s rs i
  | [], _, _, _, hr, _ => by simp at hr
  | a :: t, r, i, y, hr, hy => by
    simp only [endsAlt]
    rcases List.mem_cons.mp hr with rfl | hr
    · exact mem_unionNew.mpr (Or.inl hy)
    · exact mem_unionNew.mpr (Or.inr (mem_endsAlt t r i y hr hy))

theorem stepN_nodup {step : Nat → List Nat} : ∀ (n : Nat) (cur : List Nat), cur.Nodup → (stepN step n cur).Nodup := by
  intro n
  induction n with
  | zero => intro cur h; exact h
  | succ n ih => intro cur _; exact ih _ stepSet_nodup

theorem stepN_bounded {step : Nat → List Nat} (B : Nat) (hB : ∀ k x, x ∈ step k → x ≤ B) :
    ∀ (n : Nat) (cur : List Nat), (∀ x ∈ cur, x ≤ B) → ∀ y ∈ stepN step n cur, y ≤ B := by
  intro n
  induction n with
  | zero => intro cur h y hy; exact h y hy
  | succ n ih =>
    intro cur _ y hy
    refine ih (stepSet step cur) ?_ y hy
    intro x hx
    obtain ⟨k, _, hxk⟩ := mem_stepSet.mp hx
    exact hB k x hxk

/-- **completeness of the executable matcher**: every match is reported -/
theorem ends_complete {r : Re} {i j : Nat} (h : Matches env s r i j) : j ∈ ends env s r i := by
  induction h with
  | emptyMatch h => simp [ends, h]
  | lit h => simp [ends, h]
  | cls h hc => simp [ends, h, hc]
  | anyNotNL h hc => simp [ends, h, hc]
  | any h => simp [ends, h]
  | beginLine h hb => simp [ends, h, hb]
  | endLine h hi => simp [ends, h, hi]
  | beginText => simp [ends]
  | endText => simp [ends]
  | wordB h => simp [ends, h]
  | noWordB h => simp [ends, h]
  | cap _ ih => simpa [ends] using ih
  | @star ng r i j n hm ih =>
    have hi : i ≤ s.size := by have := matches_bounds hm; omega
    have ih' : j ∈ stepN (ends env s r) n [i] := by
      simpa [ends, hi, endsSeq_replicate] using ih
    simp only [ends, hi, if_true]
    exact closure_reach r [i] (by simp) (by simpa using hi) (by simp) n j ih'
  | @plus ng r i j n hn hm ih =>
    have hi : i ≤ s.size := by have := matches_bounds hm; omega
    have ih' : j ∈ stepN (ends env s r) n [i] := by
      simpa [ends, hi, endsSeq_replicate] using ih
    simp only [ends]
    obtain ⟨m, rfl⟩ : ∃ m, n = m + 1 := ⟨n - 1, by omega⟩
    have hfirst : ∀ x, x ∈ stepSet (ends env s r) [i] → x ∈ unionNew [] (ends env s r i) := by
      intro x hx
      obtain ⟨k, hk, hxk⟩ := mem_stepSet.mp hx
      simp at hk; subst hk
      exact mem_unionNew.mpr (Or.inr hxk)
    have hj : j ∈ stepN (ends env s r) m (unionNew [] (ends env s r i)) :=
      stepN_mono m _ _ hfirst j ih'
    have hne : unionNew [] (ends env s r i) ≠ [] := by
      intro e; rw [e, stepN_nil] at hj; simp at hj
    exact closure_reach r _ (unionNew_nodup (by simp)) (by
      intro x hx
      rcases mem_unionNew.mp hx with h' | h'
      · simp at h'
      · exact ends_le r i x h') hne m j hj
  | @quest ng r i j n hn hm ih =>
    have hi : i ≤ s.size := by have := matches_bounds hm; omega
    have ih' : j ∈ stepN (ends env s r) n [i] := by
      simpa [ends, hi, endsSeq_replicate] using ih
    simp only [ends, hi, if_true]
    match n, hn, ih' with
    | 0, _, h0 => exact mem_unionNew.mpr (Or.inl (by simpa [stepN] using h0))
    | 1, _, h1 =>
      obtain ⟨k, hk, hxk⟩ := mem_stepSet.mp (by simpa [stepN] using h1)
      simp at hk; subst hk
      exact mem_unionNew.mpr (Or.inr hxk)
  | @rep ng mn mx r i j n hlo hhi hm ih =>
    have hi : i ≤ s.size := by have := matches_bounds hm; omega
    have ih' : j ∈ stepN (ends env s r) n [i] := by
      simpa [ends, hi, endsSeq_replicate] using ih
    have hsplit : j ∈ stepN (ends env s r) (n - mn) (stepN (ends env s r) mn [i]) := by
      rw [← stepN_add]
      have : mn + (n - mn) = n := by omega
      rw [this]; exact ih'
    simp only [ends, hi, if_true]
    split
    · -- unbounded
      have hne : stepN (ends env s r) mn [i] ≠ [] := by
        intro e; rw [e, stepN_nil] at hsplit; simp at hsplit
      exact closure_reach r _ (stepN_nodup mn [i] (by simp))
        (stepN_bounded s.size (fun k x h => ends_le r k x h) mn [i] (by simpa using hi)) hne (n - mn) j hsplit
    · rename_i hnn
      have hmx : (n : Int) ≤ mx := by rcases hhi with h' | h'; exact absurd h' hnn; exact h'
      split
      · rename_i hlt; omega
      · exact stepUpTo_complete _ _ _ (n - mn) j (by omega) hsplit (fun e => by rw [e] at hsplit; simpa [stepN] using hsplit)
  | concatNil h => simp [ends, h, endsSeq]
  | @concatCons r rs i k j h1 h2 ih1 ih2 =>
    have hi : i ≤ s.size := by have := matches_bounds h1; have := matches_bounds h2; omega
    have hk : k ≤ s.size := by have := matches_bounds h2; omega
    simp only [ends, hi, if_true, endsSeq]
    have : j ∈ endsSeq env s rs [k] := by simpa [ends, hk] using ih2
    refine endsSeq_mono rs [k] _ ?_ j this
    intro x hx
    simp at hx; subst hx
    exact mem_stepSet.mpr ⟨i, by simp, ih1⟩
  | @alt rs r i j hr _ ih =>
    simp only [ends]
    exact mem_endsAlt rs r i j hr ih

end ZoektModel.C27
