/-
Soundness of the executable matcher `Regex.ends` (used by the executable specifications of C27 and C28) with respect
to the denotational relation `Regex.Matches` (used by the theorems): every end position it reports is a match.
-/
import ZoektModel.C27.Lemmas
namespace ZoektModel.C27
open ZoektModel.Regex

variable {env : Env} {s : Array Nat}

theorem mem_insertNew {acc : List Nat} {y x : Nat} : x ∈ insertNew acc y ↔ x ∈ acc ∨ x = y := by
  unfold insertNew
  split
  · rename_i h
    constructor
    · exact Or.inl
    · rintro (h' | rfl)
      · exact h'
      · simpa using h
  · simp

theorem mem_unionNew {xs : List Nat} : ∀ {acc : List Nat} {x : Nat}, x ∈ unionNew acc xs ↔ x ∈ acc ∨ x ∈ xs := by
  induction xs with
  | nil => intro acc x; simp [unionNew]
  | cons y ys ih =>
    intro acc x
    have : unionNew acc (y :: ys) = unionNew (insertNew acc y) ys := rfl
    rw [this, ih, mem_insertNew]
    simp only [List.mem_cons]
    constructor
    · rintro ((h | h) | h)
      · exact Or.inl h
      · exact Or.inr (Or.inl h)
      · exact Or.inr (Or.inr h)
    · rintro (h | h | h)
      · exact Or.inl (Or.inl h)
      · exact Or.inl (Or.inr h)
      · exact Or.inr h

theorem mem_stepFold {step : Nat → List Nat} {fr : List Nat} : ∀ {acc : List Nat} {x : Nat},
    x ∈ fr.foldl (fun acc k => unionNew acc (step k)) acc ↔ x ∈ acc ∨ ∃ k, k ∈ fr ∧ x ∈ step k := by
  induction fr with
  | nil => intro acc x; simp
  | cons k ks ih =>
    intro acc x
    simp only [List.foldl_cons]
    rw [ih, mem_unionNew]
    constructor
    · rintro ((h | h) | ⟨k', hk', h⟩)
      · exact Or.inl h
      · exact Or.inr ⟨k, List.mem_cons_self, h⟩
      · exact Or.inr ⟨k', List.mem_cons_of_mem _ hk', h⟩
    · rintro (h | ⟨k', hk', h⟩)
      · exact Or.inl (Or.inl h)
      · rcases List.mem_cons.mp hk' with rfl | hk'
        · exact Or.inl (Or.inr h)
        · exact Or.inr ⟨k', hk', h⟩

theorem mem_stepSet {step : Nat → List Nat} {fr : List Nat} {x : Nat} :
    x ∈ stepSet step fr ↔ ∃ k, k ∈ fr ∧ x ∈ step k := by
  unfold stepSet
  rw [mem_stepFold]
  simp

/-- everything `closure` returns satisfies an invariant that holds initially and is preserved by `step` -/
theorem closure_sound {step : Nat → List Nat} (P : Nat → Prop)
    (hstep : ∀ k k', P k → k' ∈ step k → P k') :
    ∀ (fuel : Nat) (fr acc : List Nat), (∀ x ∈ acc, P x) → (∀ x ∈ fr, P x) → ∀ x ∈ closure step fuel fr acc, P x := by
  intro fuel
  induction fuel with
  | zero => intro fr acc ha _ x hx; exact ha x (by simpa [closure] using hx)
  | succ fuel ih =>
    intro fr acc ha hf x hx
    unfold closure at hx
    simp only at hx
    split at hx
    · exact ha x hx
    · have hnew : ∀ y ∈ (stepSet step fr).filter (fun x => !acc.contains x), P y := by
        intro y hy
        obtain ⟨k, hk, hyk⟩ := mem_stepSet.mp (List.mem_filter.mp hy).1
        exact hstep k y (hf k hk) hyk
      refine ih _ _ ?_ hnew x hx
      intro y hy
      rcases List.mem_append.mp hy with h | h
      · exact ha y h
      · exact hnew y h

theorem stepN_sound {step : Nat → List Nat} (Q : Nat → Nat → Prop)
    (hstep : ∀ m k k', Q m k → k' ∈ step k → Q (m + 1) k') :
    ∀ (n m : Nat) (cur : List Nat), (∀ x ∈ cur, Q m x) → ∀ y ∈ stepN step n cur, Q (m + n) y := by
  intro n
  induction n with
  | zero => intro m cur h y hy; exact h y (by simpa [stepN] using hy)
  | succ n ih =>
    intro m cur h y hy
    have : stepN step (n + 1) cur = stepN step n (stepSet step cur) := rfl
    rw [this] at hy
    have := ih (m + 1) (stepSet step cur) (fun x hx => by
      obtain ⟨k, hk, hxk⟩ := mem_stepSet.mp hx
      exact hstep m k x (h k hk) hxk) y hy
    have e : m + 1 + n = m + (n + 1) := by omega
    rw [e] at this; exact this

theorem stepUpTo_sound {step : Nat → List Nat} (Q : Nat → Nat → Prop)
    (hstep : ∀ m k k', Q m k → k' ∈ step k → Q (m + 1) k') :
    ∀ (n m : Nat) (cur acc : List Nat), (∀ x ∈ cur, Q m x) → (∀ x ∈ acc, ∃ t, t ≤ m ∧ Q t x) →
      ∀ y ∈ stepUpTo step n cur acc, ∃ t, t ≤ m + n ∧ Q t y := by
  intro n
  induction n with
  | zero =>
    intro m cur acc _ ha y hy
    obtain ⟨t, ht, hq⟩ := ha y (by simpa [stepUpTo] using hy)
    exact ⟨t, by omega, hq⟩
  | succ n ih =>
    intro m cur acc hc ha y hy
    unfold stepUpTo at hy
    simp only at hy
    split at hy
    · obtain ⟨t, ht, hq⟩ := ha y hy
      exact ⟨t, by omega, hq⟩
    · have hn : ∀ x ∈ stepSet step cur, Q (m + 1) x := by
        intro x hx
        obtain ⟨k, hk, hxk⟩ := mem_stepSet.mp hx
        exact hstep m k x (hc k hk) hxk
      obtain ⟨t, ht, hq⟩ := ih (m + 1) _ _ hn (by
        intro x hx
        rcases mem_unionNew.mp hx with h | h
        · obtain ⟨t, ht, hq⟩ := ha x h; exact ⟨t, by omega, hq⟩
        · exact ⟨m + 1, Nat.le_refl _, hn x h⟩) y hy
      exact ⟨t, by omega, hq⟩

theorem pow_snoc {r : Re} {n i k j} (h1 : Pow env s r n i k) (h2 : Matches env s r k j) : Pow env s r (n + 1) i j :=
  pow_add.mpr ⟨k, h1, pow_one.mpr h2⟩

mutual
/-- **soundness of the executable matcher**: every reported end position is a match -/
theorem ends_sound : ∀ (r : Re) (i j : Nat), j ∈ ends env s r i → Matches env s r i j
  | .noMatch, i, j, h => by simp [ends] at h
  | .emptyMatch, i, j, h => by
    simp only [ends] at h
    split at h
    · simp at h; subst h; exact .emptyMatch (by assumption)
    · simp at h
  | .lit rs fold, i, j, h => by
    simp only [ends] at h
    split at h
    · simp at h; subst h; exact .lit (by assumption)
    · simp at h
  | .cls rs, i, j, h => by
    simp only [ends] at h
    split at h
    · split at h
      · simp at h; subst h; exact .cls (by assumption) (by assumption)
      · simp at h
    · simp at h
  | .anyNotNL, i, j, h => by
    simp only [ends] at h
    split at h
    · split at h
      · rename_i c hc hne
        simp at h; subst h; exact .anyNotNL hc (by simpa using hne)
      · simp at h
    · simp at h
  | .any, i, j, h => by
    simp only [ends] at h
    split at h
    · simp at h; subst h; exact .any (by assumption)
    · simp at h
  | .beginLine, i, j, h => by
    simp only [ends] at h
    split at h
    · rename_i hc
      simp only [Bool.and_eq_true, decide_eq_true_eq] at hc
      simp at h; subst h; exact .beginLine hc.1 hc.2
    · simp at h
  | .endLine, i, j, h => by
    simp only [ends] at h
    split at h
    · rename_i hc
      simp only [Bool.and_eq_true, decide_eq_true_eq] at hc
      simp at h; subst h; exact .endLine hc.2 hc.1
    · simp at h
  | .beginText, i, j, h => by
    simp only [ends] at h
    split at h
    · rename_i hc
      have : i = 0 := by simpa using hc
      subst this
      simp at h; subst h; exact .beginText
    · simp at h
  | .endText wd, i, j, h => by
    simp only [ends] at h
    split at h
    · rename_i hc
      have : i = s.size := by simpa using hc
      subst this
      simp at h; subst h; exact .endText
    · simp at h
  | .wordB, i, j, h => by
    simp only [ends] at h
    split at h
    · simp at h; subst h; exact .wordB (by assumption)
    · simp at h
  | .noWordB, i, j, h => by
    simp only [ends] at h
    split at h
    · simp at h; subst h; exact .noWordB (by assumption)
    · simp at h
  | .cap n r, i, j, h => by
    simp only [ends] at h
    exact .cap (ends_sound r i j h)
  | .star ng r, i, j, h => by
    simp only [ends] at h
    split at h
    · rename_i hi
      refine closure_sound (fun k => Matches env s (.star ng r) i k) ?_ _ _ _ ?_ ?_ j h
      · intro k k' hk hk'
        obtain ⟨n, hn⟩ := matches_star.mp hk
        exact matches_star.mpr ⟨n + 1, pow_snoc hn (ends_sound r k k' hk')⟩
      · intro x hx; simp at hx; subst hx; exact matches_star.mpr ⟨0, pow_zero.mpr ⟨rfl, hi⟩⟩
      · intro x hx; simp at hx; subst hx; exact matches_star.mpr ⟨0, pow_zero.mpr ⟨rfl, hi⟩⟩
    · simp at h
  | .plus ng r, i, j, h => by
    simp only [ends] at h
    have hfirst : ∀ x ∈ unionNew [] (ends env s r i), Matches env s (.plus ng r) i x := by
      intro x hx
      rcases mem_unionNew.mp hx with h' | h'
      · simp at h'
      · exact matches_plus.mpr ⟨1, Nat.le_refl _, pow_one.mpr (ends_sound r i x h')⟩
    refine closure_sound (fun k => Matches env s (.plus ng r) i k) ?_ _ _ _ hfirst hfirst j h
    intro k k' hk hk'
    obtain ⟨n, hn1, hn⟩ := matches_plus.mp hk
    exact matches_plus.mpr ⟨n + 1, by omega, pow_snoc hn (ends_sound r k k' hk')⟩
  | .quest ng r, i, j, h => by
    simp only [ends] at h
    split at h
    · rename_i hi
      rcases mem_unionNew.mp h with h' | h'
      · simp at h'; subst h'; exact matches_quest.mpr ⟨0, Nat.zero_le _, pow_zero.mpr ⟨rfl, hi⟩⟩
      · exact matches_quest.mpr ⟨1, Nat.le_refl _, pow_one.mpr (ends_sound r i j h')⟩
    · rcases mem_unionNew.mp h with h' | h'
      · simp at h'
      · exact matches_quest.mpr ⟨1, Nat.le_refl _, pow_one.mpr (ends_sound r i j h')⟩
  | .rep ng mn mx r, i, j, h => by
    simp only [ends] at h
    split at h
    · rename_i hi
      have hstep : ∀ m k k', Pow env s r m i k → k' ∈ ends env s r k → Pow env s r (m + 1) i k' :=
        fun m k k' hk hk' => pow_snoc hk (ends_sound r k k' hk')
      have hbase : ∀ x ∈ stepN (ends env s r) mn [i], Pow env s r mn i x := by
        intro x hx
        have := stepN_sound (fun m k => Pow env s r m i k) hstep mn 0 [i]
          (by intro y hy; simp at hy; subst hy; exact pow_zero.mpr ⟨rfl, hi⟩) x hx
        simpa using this
      split at h
      · rename_i hneg
        have := closure_sound (fun k => ∃ n, mn ≤ n ∧ Pow env s r n i k) (by
          rintro k k' ⟨n, hn, hp⟩ hk'
          exact ⟨n + 1, by omega, hstep n k k' hp hk'⟩) _ _ _
          (fun x hx => ⟨mn, Nat.le_refl _, hbase x hx⟩) (fun x hx => ⟨mn, Nat.le_refl _, hbase x hx⟩) j h
        obtain ⟨n, hn, hp⟩ := this
        exact matches_rep.mpr ⟨n, hn, Or.inl hneg, hp⟩
      · split at h
        · simp at h
        · rename_i hnn hle
          obtain ⟨t, ht, hq⟩ := stepUpTo_sound (fun m k => mn ≤ m ∧ Pow env s r m i k)
            (fun m k k' hk hk' => ⟨by omega, hstep m k k' hk.2 hk'⟩) (mx.toNat - mn) mn _ _
            (fun x hx => ⟨Nat.le_refl _, hbase x hx⟩)
            (fun x hx => ⟨mn, Nat.le_refl _, Nat.le_refl _, hbase x hx⟩) j h
          exact matches_rep.mpr ⟨t, hq.1, Or.inr (by omega), hq.2⟩
    · simp at h
  | .concat rs, i, j, h => by
    simp only [ends] at h
    split at h
    · rename_i hi
      obtain ⟨x, hx, hm⟩ := endsSeq_sound rs [i] j (by intro x hx; simp at hx; subst hx; exact hi) h
      simp at hx; subst hx; exact hm
    · simp at h
  | .alt rs, i, j, h => by
    simp only [ends] at h
    obtain ⟨r, hr, hm⟩ := endsAlt_sound rs i j h
    exact .alt hr hm
theorem endsSeq_sound : ∀ (rs : List Re) (cur : List Nat) (y : Nat), (∀ x ∈ cur, x ≤ s.size) →
    y ∈ endsSeq env s rs cur → ∃ x, x ∈ cur ∧ Matches env s (.concat rs) x y
  | [], cur, y, hb, h => by
    simp only [endsSeq] at h
    exact ⟨y, h, .concatNil (hb y h)⟩
  | r :: rs, cur, y, hb, h => by
    simp only [endsSeq] at h
    obtain ⟨k, hk, hm⟩ := endsSeq_sound rs (stepSet (ends env s r) cur) y (by
      intro x hx
      obtain ⟨k, hk, hxk⟩ := mem_stepSet.mp hx
      exact (matches_bounds (ends_sound r k x hxk)).2) h
    obtain ⟨x, hx, hxk⟩ := mem_stepSet.mp hk
    exact ⟨x, hx, .concatCons (ends_sound r x k hxk) hm⟩
theorem endsAlt_sound : ∀ (rs : List Re) (i y : Nat), y ∈ endsAlt env s rs i → ∃ r, r ∈ rs ∧ Matches env s r i y
  | [], i, y, h => by simp [endsAlt] at h
  | r :: rs, i, y, h => by
    simp only [endsAlt] at h
    rcases mem_unionNew.mp h with h' | h'
    · exact ⟨r, List.mem_cons_self, ends_sound r i y h'⟩
    · obtain ⟨r', hr', hm⟩ := endsAlt_sound rs i y h'
      exact ⟨r', List.mem_cons_of_mem _ hr', hm⟩
end

end ZoektModel.C27
