/-
C27 — a deterministic precedence parser over the printer's tokens, and its completeness for the grammar of
`Printer.lean`: whatever the grammar derives, the parser computes (so the printed tokens have exactly one reading by
a recursive-descent parser with the standard precedences, and it is the equivalent regexp of `print_derives`).
-/
import ZoektModel.C27.Printer
namespace ZoektModel.C27
open ZoektModel.Regex

/-- a concatenation ends at the end of input, at `|` and at `)` -/
def isConcatEnd : List Tok → Bool
  | [] => true
  | .bar :: _ => true
  | .close :: _ => true
  | _ => false

/-- an optional postfix operator -/
def splitPost : List Tok → Option Post × List Tok
  | .post p :: rest => (some p, rest)
  | rest => (none, rest)

def applyPost : Option Post → Re → Re
  | some p, r => postRe p r
  | none, r => r

mutual
def parseAlt : Nat → List Tok → Option (List Re × List Tok)
  | 0, _ => none
  | fuel + 1, ts =>
    match parseConcat fuel ts with
    | none => none
    | some (xs, rest) =>
      match rest with
      | .bar :: rest' =>
        match parseAlt fuel rest' with
        | none => none
        | some (as, rest'') => some (.concat xs :: as, rest'')
      | _ => some ([.concat xs], rest)
def parseConcat : Nat → List Tok → Option (List Re × List Tok)
  | 0, _ => none
  | fuel + 1, ts =>
    if isConcatEnd ts then some ([], ts) else
      match parseBase fuel ts with
      | none => none
      | some (b, rest) =>
        match parseConcat fuel (splitPost rest).2 with
        | none => none
        | some (rs, rest'') => some (applyPost (splitPost rest).1 b :: rs, rest'')
def parseBase : Nat → List Tok → Option (Re × List Tok)
  | 0, _ => none
  | fuel + 1, ts =>
    match ts with
    | .atom a :: rest => some (atomRe a, rest)
    | .openNC :: rest =>
      match parseAlt fuel rest with
      | some (xs, .close :: rest') => some (.alt xs, rest')
      | _ => none
    | .openCap n :: rest =>
      match parseAlt fuel rest with
      | some (xs, .close :: rest') => some (.cap n (.alt xs), rest')
      | _ => none
    | _ => none
end

/-! ### more fuel never changes a result -/

theorem parse_mono : ∀ fuel : Nat,
    (∀ ts v, parseAlt fuel ts = some v → parseAlt (fuel + 1) ts = some v) ∧
    (∀ ts v, parseConcat fuel ts = some v → parseConcat (fuel + 1) ts = some v) ∧
    (∀ ts v, parseBase fuel ts = some v → parseBase (fuel + 1) ts = some v) := by
  intro fuel
  induction fuel with
  | zero => exact ⟨fun _ _ h => by simp [parseAlt] at h, fun _ _ h => by simp [parseConcat] at h,
      fun _ _ h => by simp [parseBase] at h⟩
  | succ fuel ih =>
    obtain ⟨ihA, ihC, ihB⟩ := ih
    refine ⟨?_, ?_, ?_⟩
    · intro ts v h
      rw [parseAlt] at h ⊢
      cases hc : parseConcat fuel ts with
      | none => rw [hc] at h; simp at h
      | some p =>
        obtain ⟨xs, rest⟩ := p
        rw [hc] at h
        rw [ihC ts _ hc]
        simp only at h ⊢
        split at h
        · rename_i rest' 
          cases ha : parseAlt fuel rest' with
          | none => rw [ha] at h; simp at h
          | some q => rw [ha] at h; rw [ihA _ _ ha]; exact h
        · exact h
    · intro ts v h
      rw [parseConcat] at h ⊢
      split
      · rename_i he; simpa [he] using h
      · rename_i he
        simp only [he, Bool.false_eq_true, if_false] at h
        cases hb : parseBase fuel ts with
        | none => rw [hb] at h; simp at h
        | some p =>
          obtain ⟨b, rest⟩ := p
          rw [hb] at h
          rw [ihB ts _ hb]
          simp only at h ⊢
          cases hc : parseConcat fuel (splitPost rest).2 with
          | none => rw [hc] at h; simp at h
          | some q => rw [hc] at h; rw [ihC _ _ hc]; exact h
    · intro ts v h
      match ts, h with
      | .atom a :: rest, h => simpa [parseBase] using h
      | .openNC :: rest, h =>
        rw [parseBase] at h ⊢
        cases ha : parseAlt fuel rest with
        | none => rw [ha] at h; simp at h
        | some q => rw [ha] at h; rw [ihA _ _ ha]; exact h
      | .openCap n :: rest, h =>
        rw [parseBase] at h ⊢
        cases ha : parseAlt fuel rest with
        | none => rw [ha] at h; simp at h
        | some q => rw [ha] at h; rw [ihA _ _ ha]; exact h
      | [], h => simp [parseBase] at h
      | .bar :: _, h => simp [parseBase] at h
      | .close :: _, h => simp [parseBase] at h
      | .post _ :: _, h => simp [parseBase] at h


theorem parseAlt_mono_le {f f' : Nat} {ts v} (h : parseAlt f ts = some v) (hle : f ≤ f') : parseAlt f' ts = some v := by
  obtain ⟨k, rfl⟩ : ∃ k, f' = f + k := ⟨f' - f, by omega⟩
  induction k with
  | zero => exact h
  | succ k ih => exact (parse_mono (f + k)).1 ts v (ih (by omega))

theorem parseConcat_mono_le {f f' : Nat} {ts v} (h : parseConcat f ts = some v) (hle : f ≤ f') :
    parseConcat f' ts = some v := by
  obtain ⟨k, rfl⟩ : ∃ k, f' = f + k := ⟨f' - f, by omega⟩
  induction k with
  | zero => exact h
  | succ k ih => exact (parse_mono (f + k)).2.1 ts v (ih (by omega))

theorem parseBase_mono_le {f f' : Nat} {ts v} (h : parseBase f ts = some v) (hle : f ≤ f') : parseBase f' ts = some v := by
  obtain ⟨k, rfl⟩ : ∃ k, f' = f + k := ⟨f' - f, by omega⟩
  induction k with
  | zero => exact h
  | succ k ih => exact (parse_mono (f + k)).2.2 ts v (ih (by omega))

/-! ### completeness for the grammar -/

/-- the token list starts like an atom or a group -/
def StartsBase : List Tok → Prop
  | .atom _ :: _ => True
  | .openNC :: _ => True
  | .openCap _ :: _ => True
  | _ => False

def isAltEnd : List Tok → Bool
  | [] => true
  | .close :: _ => true
  | _ => false

theorem startsBase_append {l : List Tok} (h : StartsBase l) (r : List Tok) :
    StartsBase (l ++ r) ∧ isConcatEnd (l ++ r) = false ∧ splitPost (l ++ r) = (none, l ++ r) := by
  match l, h with
  | .atom _ :: _, _ => exact ⟨trivial, rfl, rfl⟩
  | .openNC :: _, _ => exact ⟨trivial, rfl, rfl⟩
  | .openCap _ :: _, _ => exact ⟨trivial, rfl, rfl⟩

theorem DBase.starts {ts r} (h : DBase ts r) : StartsBase ts := by
  cases h <;> exact trivial

theorem DRep.starts {ts r} (h : DRep ts r) : StartsBase ts := by
  cases h with
  | base h => exact h.starts
  | post p h => exact (startsBase_append h.starts _).1

theorem StartsBase.ne_nil {l : List Tok} (h : StartsBase l) : 1 ≤ l.length := by
  match l, h with
  | _ :: _, _ => simp

theorem DConcat.starts {ts xs} (h : DConcat ts xs) : ts = [] ∨ StartsBase ts := by
  cases h with
  | nil => exact Or.inl rfl
  | cons h t => exact Or.inr (startsBase_append h.starts _).1

theorem concatEnd_splitPost {rest : List Tok} (h : isConcatEnd rest = true) : splitPost rest = (none, rest) := by
  match rest, h with
  | [], _ => rfl
  | .bar :: _, _ => rfl
  | .close :: _, _ => rfl

theorem altEnd_concatEnd {rest : List Tok} (h : isAltEnd rest = true) : isConcatEnd rest = true := by
  match rest, h with
  | [], _ => rfl
  | .close :: _, _ => rfl

def CB (n : Nat) : Prop := ∀ ts r rest, ts.length ≤ n → DBase ts r → ∃ f, parseBase f (ts ++ rest) = some (r, rest)
def CC (n : Nat) : Prop := ∀ ts xs rest, ts.length ≤ n → DConcat ts xs → isConcatEnd rest = true →
  ∃ f, parseConcat f (ts ++ rest) = some (xs, rest)
def CA (n : Nat) : Prop := ∀ ts xs rest, ts.length ≤ n → DAlt ts xs → isAltEnd rest = true →
  ∃ f, parseAlt f (ts ++ rest) = some (xs, rest)

theorem parseAlt_of_concat {f : Nat} {ts : List Tok} {xs rest} (h : parseConcat f ts = some (xs, rest))
    (he : isAltEnd rest = true) : parseAlt (f + 1) ts = some ([.concat xs], rest) := by
  rw [parseAlt, h]
  match rest, he with
  | [], _ => rfl
  | .close :: _, _ => rfl

theorem cb_step {n : Nat} (hA : CA n) : CB (n + 1) := by
  intro ts r rest hl h
  cases h with
  | atom a => exact ⟨1, by simp [parseBase]⟩
  | @group ts0 xs h0 =>
    have hl0 : ts0.length ≤ n := by simp at hl; omega
    obtain ⟨f, hf⟩ := hA ts0 xs (.close :: rest) hl0 h0 rfl
    refine ⟨f + 1, ?_⟩
    have e : [Tok.openNC] ++ ts0 ++ [Tok.close] ++ rest = Tok.openNC :: (ts0 ++ Tok.close :: rest) := by simp
    rw [e, parseBase, hf]
  | @cap nm ts0 xs h0 =>
    have hl0 : ts0.length ≤ n := by simp at hl; omega
    obtain ⟨f, hf⟩ := hA ts0 xs (.close :: rest) hl0 h0 rfl
    refine ⟨f + 1, ?_⟩
    have e : [Tok.openCap nm] ++ ts0 ++ [Tok.close] ++ rest = Tok.openCap nm :: (ts0 ++ Tok.close :: rest) := by simp
    rw [e, parseBase, hf]

theorem cc_step {n : Nat} (hB : CB (n + 1)) (hC : CC n) : CC (n + 1) := by
  intro ts xs rest hl h he
  cases h with
  | nil => exact ⟨1, by simp [parseConcat, he]⟩
  | @cons tsr r ts' rs hr ht =>
    have hne := hr.starts.ne_nil
    have hl' : ts'.length ≤ n := by simp at hl; omega
    obtain ⟨f2, hf2⟩ := hC ts' rs rest hl' ht he
    -- the continuation after the repetition does not start with a postfix operator
    have hsp : splitPost (ts' ++ rest) = (none, ts' ++ rest) := by
      rcases ht.starts with e | hs
      · subst e; simpa using concatEnd_splitPost he
      · exact (startsBase_append hs rest).2.2
    have hstart := startsBase_append hr.starts (ts' ++ rest)
    cases hr with
    | base hb =>
      have hlb : tsr.length ≤ n + 1 := by simp at hl; omega
      obtain ⟨f1, hf1⟩ := hB tsr r (ts' ++ rest) hlb hb
      refine ⟨f1 + f2 + 1, ?_⟩
      rw [List.append_assoc, parseConcat]
      simp only [hstart.2.1, Bool.false_eq_true, if_false]
      rw [parseBase_mono_le hf1 (by omega)]
      simp only [hsp]
      rw [parseConcat_mono_le hf2 (by omega)]
      rfl
    | @post ts0 r0 p hb =>
      have hlb : ts0.length ≤ n + 1 := by simp at hl; omega
      obtain ⟨f1, hf1⟩ := hB ts0 r0 (.post p :: (ts' ++ rest)) hlb hb
      refine ⟨f1 + f2 + 1, ?_⟩
      have e : ts0 ++ [Tok.post p] ++ ts' ++ rest = ts0 ++ Tok.post p :: (ts' ++ rest) := by simp
      have hstart0 := startsBase_append hb.starts (Tok.post p :: (ts' ++ rest))
      rw [e, parseConcat]
      simp only [hstart0.2.1, Bool.false_eq_true, if_false]
      rw [parseBase_mono_le hf1 (by omega)]
      simp only [splitPost]
      rw [parseConcat_mono_le hf2 (by omega)]
      rfl

theorem ca_step {n : Nat} (hC : CC (n + 1)) (hA : CA n) : CA (n + 1) := by
  intro ts xs rest hl h he
  cases h with
  | one h =>
    obtain ⟨f, hf⟩ := hC ts _ rest hl h (altEnd_concatEnd he)
    exact ⟨f + 1, parseAlt_of_concat hf he⟩
  | @cons ts1 rs ts2 as h1 h2 =>
    have hl1 : ts1.length ≤ n + 1 := by simp at hl; omega
    have hl2 : ts2.length ≤ n := by simp at hl; omega
    obtain ⟨f1, hf1⟩ := hC ts1 rs (.bar :: (ts2 ++ rest)) hl1 h1 rfl
    obtain ⟨f2, hf2⟩ := hA ts2 as rest hl2 h2 he
    refine ⟨f1 + f2 + 1, ?_⟩
    have e : ts1 ++ [Tok.bar] ++ ts2 ++ rest = ts1 ++ Tok.bar :: (ts2 ++ rest) := by simp
    rw [e, parseAlt, parseConcat_mono_le hf1 (by omega)]
    simp only
    rw [parseAlt_mono_le hf2 (by omega)]

theorem complete_all : ∀ n, CB n ∧ CC n ∧ CA n := by
  intro n
  induction n with
  | zero =>
    refine ⟨?_, ?_, ?_⟩
    · intro ts r rest hl h
      have := h.starts.ne_nil; omega
    · intro ts xs rest hl h he
      cases h with
      | nil => exact ⟨1, by simp [parseConcat, he]⟩
      | cons hr _ => have := hr.starts.ne_nil; simp only [List.length_append] at hl; omega
    · intro ts xs rest hl h he
      cases h with
      | one h =>
        cases h with
        | nil => exact ⟨2, parseAlt_of_concat (f := 1) (by simp [parseConcat, altEnd_concatEnd he]) he⟩
        | cons hr _ => have := hr.starts.ne_nil; simp only [List.length_append] at hl; omega
      | cons _ _ => simp at hl
  | succ n ih =>
    obtain ⟨_, ihC, ihA⟩ := ih
    have hB := cb_step ihA
    have hC := cc_step hB ihC
    exact ⟨hB, hC, ca_step hC ihA⟩

/-- **the precedence parser computes every derivation**: if the grammar derives `xs` from `ts` at alternation level,
    the deterministic parser returns exactly `xs`, consuming all of `ts` (given enough fuel). -/
theorem parseAlt_complete {ts : List Tok} {xs : List Re} (h : DAlt ts xs) : ∃ f, parseAlt f ts = some (xs, []) := by
  obtain ⟨f, hf⟩ := (complete_all ts.length).2.2 ts xs [] (Nat.le_refl _) h rfl
  exact ⟨f, by simpa using hf⟩

end ZoektModel.C27
