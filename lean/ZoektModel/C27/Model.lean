/-
C27 model: transcription of
  internal/syntaxutil/regexp.go : writeRegexp, RegexpString, escape        (`printRe`, `escape`)
  query/regexp.go               : hasCapture, uncapture, convertCapture, OptimizeRegexp
  regexp/syntax/simplify.go     : (*Regexp).Simplify, simplify1             (`simplify`, `simplify1`)
over the shared AST of `C27/Regex.lean`.  Core Lean only.

`unicode.IsPrint` is a parameter (`isPrint`); `syntax.Parse` is a parameter of `convertCapture`.
-/
import ZoektModel.C27.Regex
namespace ZoektModel.C27
open ZoektModel.Regex

/-! ### printer -/

def hexDigit (n : Nat) : Char := if n < 10 then Char.ofNat (48 + n) else Char.ofNat (87 + n)

/-- `strconv.FormatInt(n, 16)` -/
def hexAux : Nat → Nat → List Char → List Char
  | 0, _, acc => acc
  | fuel + 1, n, acc => if n < 16 then hexDigit n :: acc else hexAux fuel (n / 16) (hexDigit (n % 16) :: acc)
def toHex (n : Nat) : List Char := hexAux 16 n []

/-- `strconv.Itoa` for naturals -/
def decAux : Nat → Nat → List Char → List Char
  | 0, _, acc => acc
  | fuel + 1, n, acc => if n < 10 then hexDigit n :: acc else decAux fuel (n / 10) (hexDigit (n % 10) :: acc)
def toDec (n : Nat) : List Char := decAux 24 n []

/-- ``const meta = `\.+*?()|[]{}^$` `` -/
def metaRunes : List Nat := [92, 46, 43, 42, 63, 40, 41, 124, 91, 93, 123, 125, 94, 36]

/-- `escape(b, r, force)` -/
def escape (isPrint : Nat → Bool) (r : Nat) (force : Bool) : List Char :=
  if isPrint r then
    (if metaRunes.contains r || force then ['\\'] else []) ++ [Char.ofNat r]
  else if r == 7 then ['\\', 'a']
  else if r == 12 then ['\\', 'f']
  else if r == 10 then ['\\', 'n']
  else if r == 13 then ['\\', 'r']
  else if r == 9 then ['\\', 't']
  else if r == 11 then ['\\', 'v']
  else if r < 0x100 then
    let h := toHex r
    ['\\', 'x'] ++ (if h.length == 1 then ['0'] else []) ++ h
  else ['\\', 'x', '{'] ++ toHex r ++ ['}']

def maxRune : Nat := 0x10FFFF

/-- one `lo[-hi]` item of a class -/
def classItem (isPrint : Nat → Bool) (lo hi : Nat) : List Char :=
  escape isPrint lo (lo == 45) ++ (if lo != hi then ['-'] ++ escape isPrint hi (hi == 45) else [])

/-- positive listing: pairs `(Rune[i], Rune[i+1])`, `i = 0, 2, …` -/
def classPairs (isPrint : Nat → Bool) : List Nat → List Char
  | lo :: hi :: rest => classItem isPrint lo hi ++ classPairs isPrint rest
  | _ => []

/-- negated listing: the gaps `(Rune[i]+1, Rune[i+1]-1)`, `i = 1, 3, …, < len-1`; called with `Rune[1:]` -/
def classGaps (isPrint : Nat → Bool) : List Nat → List Char
  | a :: b :: rest => classItem isPrint (a + 1) (b - 1) ++ classGaps isPrint rest
  | _ => []

def printClass (isPrint : Nat → Bool) (rs : List Nat) : List Char :=
  if rs.length % 2 != 0 then "[invalid char class]".toList else
  ['['] ++
  (if rs.length == 0 then "^\\x00-\\x{10FFFF}".toList
   else if rs.head? == some 0 && rs.getLast? == some maxRune && rs.length > 2 then
     ['^'] ++ classGaps isPrint rs.tail
   else classPairs isPrint rs) ++ [']']

/-- `sub.Op > syntax.OpCapture` -/
def opAboveCapture : Re → Bool
  | .star .. | .plus .. | .quest .. | .rep .. | .concat _ | .alt _ => true
  | _ => false

/-- operand of a repetition needs `(?:…)` -/
def needsGroup : Re → Bool
  | .lit rs _ => decide (rs.length > 1)
  | r => opAboveCapture r

def isAlt : Re → Bool
  | .alt _ => true
  | _ => false

def isEmptyMatch : Re → Bool
  | .emptyMatch => true
  | _ => false

def repSuffix (mn : Nat) (mx : Int) : List Char :=
  ['{'] ++ toDec mn ++
  (if mx != (mn : Int) then [','] ++ (if mx ≥ 0 then toDec mx.toNat else []) else []) ++ ['}']

def ngSuffix (ng : Bool) : List Char := if ng then ['?'] else []

/-- `(?:` … `)` around `body` when `b` -/
def wrapIf (b : Bool) (body : List Char) : List Char := if b then "(?:".toList ++ body ++ [')'] else body

mutual
/-- `writeRegexp` -/
def printRe (isPrint : Nat → Bool) : Re → List Char
  | .noMatch => "[^\\x00-\\x{10FFFF}]".toList
  | .emptyMatch => "(?:)".toList
  | .lit rs fold =>
    (if fold then "(?i:".toList else []) ++ rs.flatMap (fun r => escape isPrint r false) ++
    (if fold then [')'] else [])
  | .cls rs => printClass isPrint rs
  | .anyNotNL => "(?-s:.)".toList
  | .any => "(?s:.)".toList
  | .beginLine => "(?m:^)".toList
  | .endLine => "(?m:$)".toList
  | .beginText => "\\A".toList
  | .endText wd => if wd then "(?-m:$)".toList else "\\z".toList
  | .wordB => "\\b".toList
  | .noWordB => "\\B".toList
  | .cap name sub =>
    (if name != "" then "(?P<".toList ++ name.toList ++ ['>'] else ['(']) ++
    (if isEmptyMatch sub then [] else printRe isPrint sub) ++ [')']
  | .star ng sub => wrapIf (needsGroup sub) (printRe isPrint sub) ++ ['*'] ++ ngSuffix ng
  | .plus ng sub => wrapIf (needsGroup sub) (printRe isPrint sub) ++ ['+'] ++ ngSuffix ng
  | .quest ng sub => wrapIf (needsGroup sub) (printRe isPrint sub) ++ ['?'] ++ ngSuffix ng
  | .rep ng mn mx sub => wrapIf (needsGroup sub) (printRe isPrint sub) ++ repSuffix mn mx ++ ngSuffix ng
  | .concat subs => printConcat isPrint subs
  | .alt subs => printAlt isPrint subs
def printConcat (isPrint : Nat → Bool) : List Re → List Char
  | [] => []
  | sub :: rest =>
    wrapIf (isAlt sub) (printRe isPrint sub) ++ printConcat isPrint rest
def printAlt (isPrint : Nat → Bool) : List Re → List Char
  | [] => []
  | [sub] => printRe isPrint sub
  | sub :: rest => printRe isPrint sub ++ ['|'] ++ printAlt isPrint rest
end

/-- `RegexpString` -/
def regexpString (isPrint : Nat → Bool) (r : Re) : String := String.ofList (printRe isPrint r)

/-! ### capture removal -/

mutual
/-- `hasCapture` -/
def hasCapture : Re → Bool
  | .cap _ _ => true
  | .star _ r | .plus _ r | .quest _ r | .rep _ _ _ r => hasCapture r
  | .concat rs | .alt rs => hasCaptureL rs
  | _ => false
def hasCaptureL : List Re → Bool
  | [] => false
  | r :: rs => hasCapture r || hasCaptureL rs
end

mutual
/-- `uncapture` (the Go function mutates its argument; the result is the same tree) -/
def uncapture : Re → Re
  | .cap _ r => .concat [uncapture r]
  | .star ng r => .star ng (uncapture r)
  | .plus ng r => .plus ng (uncapture r)
  | .quest ng r => .quest ng (uncapture r)
  | .rep ng mn mx r => .rep ng mn mx (uncapture r)
  | .concat rs => .concat (uncaptureL rs)
  | .alt rs => .alt (uncaptureL rs)
  | r => r
def uncaptureL : List Re → List Re
  | [] => []
  | r :: rs => uncapture r :: uncaptureL rs
end

/-! ### `Simplify` -/

inductive ROp where
  | star | plus | quest
  deriving DecidableEq, Repr

def mkROp : ROp → Bool → Re → Re
  | .star, ng, r => .star ng r
  | .plus, ng, r => .plus ng r
  | .quest, ng, r => .quest ng r

/-- `simplify1(op, flags, sub, re)` (the `re` argument only avoids an allocation) -/
def simplify1 (op : ROp) (ng : Bool) (sub : Re) : Re :=
  match sub with
  | .emptyMatch => sub
  | .star ng' _ => if op == .star && ng == ng' then sub else mkROp op ng sub
  | .plus ng' _ => if op == .plus && ng == ng' then sub else mkROp op ng sub
  | .quest ng' _ => if op == .quest && ng == ng' then sub else mkROp op ng sub
  | _ => mkROp op ng sub

/-- the nested suffix `(x(x(x)?)?)?` built by the loop `for i := Min+1; i < Max; i++`; `k` = number of loop rounds -/
def nestQuest (ng : Bool) (sub : Re) : Nat → Re
  | 0 => simplify1 .quest ng sub
  | k + 1 => simplify1 .quest ng (.concat [sub, nestQuest ng sub k])

/-- `Simplify` of an `OpRepeat` whose operand is already simplified -/
def simplifyRep (ng : Bool) (mn : Nat) (mx : Int) (sub : Re) : Re :=
  if mx == -1 then
    if mn == 0 then simplify1 .star ng sub
    else if mn == 1 then simplify1 .plus ng sub
    else .concat (List.replicate (mn - 1) sub ++ [simplify1 .plus ng sub])
  else if mn == 1 && mx == 1 then sub
  else if mx > (mn : Int) then
    let suffix := nestQuest ng sub (mx.toNat - mn - 1)
    if mn > 0 then .concat (List.replicate mn sub ++ [suffix]) else suffix
  else if mn > 0 then .concat (List.replicate mn sub)
  else .noMatch

mutual
/-- `(*Regexp).Simplify` -/
def simplify : Re → Re
  | .cap n r => .cap n (simplify r)
  | .concat rs => .concat (simplifyL rs)
  | .alt rs => .alt (simplifyL rs)
  | .star ng r => simplify1 .star ng (simplify r)
  | .plus ng r => simplify1 .plus ng (simplify r)
  | .quest ng r => simplify1 .quest ng (simplify r)
  | .rep ng mn mx r => if mn == 0 && mx == 0 then .emptyMatch else simplifyRep ng mn mx (simplify r)
  | r => r
def simplifyL : List Re → List Re
  | [] => []
  | r :: rs => simplify r :: simplifyL rs
end

/-! ### shape of parser-produced trees (checked on every generated tree; the hypotheses of the theorems) -/

/-- a class as `cleanClass` leaves it: pairs `lo ≤ hi ≤ U+10FFFF`, sorted, neither overlapping nor adjacent -/
def classShapeB : List Nat → Bool
  | [] => true
  | [_] => false
  | [lo, hi] => decide (lo ≤ hi) && decide (hi ≤ maxRune)
  | lo :: hi :: lo' :: rest => decide (lo ≤ hi) && decide (hi + 2 ≤ lo') && classShapeB (lo' :: rest)

mutual
/-- no empty literal, no empty alternation, classes in `cleanClass` shape, runes within range -/
def wfPrintB : Re → Bool
  | .lit rs _ => !rs.isEmpty && rs.all (fun c => decide (c ≤ maxRune))
  | .cls rs => classShapeB rs
  | .cap _ r | .star _ r | .plus _ r | .quest _ r | .rep _ _ _ r => wfPrintB r
  | .concat rs => wfPrintBL rs
  | .alt rs => !rs.isEmpty && wfPrintBL rs
  | _ => true
def wfPrintBL : List Re → Bool
  | [] => true
  | r :: rs => wfPrintB r && wfPrintBL rs
end

mutual
/-- counted repetitions have the bounds the parser produces: `x{n,}` or `x{n,m}` with `n ≤ m` -/
def wfRepB : Re → Bool
  | .rep _ mn mx r => (mx == -1 || decide ((mn : Int) ≤ mx)) && wfRepB r
  | .cap _ r | .star _ r | .plus _ r | .quest _ r => wfRepB r
  | .concat rs | .alt rs => wfRepBL rs
  | _ => true
def wfRepBL : List Re → Bool
  | [] => true
  | r :: rs => wfRepB r && wfRepBL rs
end

/-! ### `convertCapture`, `OptimizeRegexp` (the parser is a parameter) -/

/-- `convertCapture(re, flags)` with `parse s = syntax.Parse(s, flags)` (`none` = error) -/
def convertCapture (isPrint : Nat → Bool) (parse : List Char → Option Re) (re : Re) : Re :=
  if !hasCapture re then re else
  match parse (printRe isPrint re) with
  | none => re
  | some r =>
    match parse (printRe isPrint (uncapture r)) with
    | none => re
    | some r2 => r2

/-- `OptimizeRegexp(re, flags)` -/
def optimizeRegexp (isPrint : Nat → Bool) (parse : List Char → Option Re) (re : Re) : Re :=
  simplify (convertCapture isPrint parse re)

end ZoektModel.C27
