/-
C27 — lexical layer, character classes: the body the printer writes for a positive class (`classPairs`: items
`lo` or `lo-hi`, `-` escaped at either end) is read back, up to the closing `]`, as exactly the same list of ranges by
a reader following `regexp/syntax.parseClass`'s rules for single characters and simple ranges.
-/
import ZoektModel.C27.Escape
namespace ZoektModel.C27

/-- items up to `]`: `lo`, or `lo-hi` when a `-` follows that is not itself followed by `]` (`[a-]` means `a` or `-`) -/
def readClassItems : Nat → List Char → Option (List Nat × List Char)
  | 0, _ => none
  | fuel + 1, cs =>
    match cs with
    | [] => none
    | c :: rest =>
      if c = ']' then some ([], rest) else
      match readRune (c :: rest) with
      | none => none
      | some (lo, t) =>
        match t with
        | d :: c2 :: t' =>
          if d = '-' ∧ c2 ≠ ']' then
            match readRune (c2 :: t') with
            | none => none
            | some (hi, t'') =>
              if hi < lo then none else
              match readClassItems fuel t'' with
              | none => none
              | some (l, r) => some (lo :: hi :: l, r)
          else
            match readClassItems fuel t with
            | none => none
            | some (l, r) => some (lo :: lo :: l, r)
        | _ =>
          match readClassItems fuel t with
          | none => none
          | some (l, r) => some (lo :: lo :: l, r)

/-- the first character `escape` writes is a backslash, or the rune itself when it is printable, not a metacharacter
    and not forced -/
theorem escape_head (isPrint : Nat → Bool) (r : Nat) (force : Bool) :
    ∃ c tl, escape isPrint r force = c :: tl ∧
      (c = '\\' ∨ (c = Char.ofNat r ∧ isPrint r = true ∧ metaRunes.contains r = false ∧ force = false)) := by
  unfold escape
  split
  · rename_i hp
    split
    · exact ⟨'\\', _, rfl, Or.inl rfl⟩
    · rename_i hm
      simp only [Bool.or_eq_true, not_or, Bool.not_eq_true] at hm
      exact ⟨Char.ofNat r, [], rfl, Or.inr ⟨rfl, hp, hm.1, hm.2⟩⟩
  · repeat' split
    all_goals first | exact ⟨'\\', _, rfl, Or.inl rfl⟩ | skip
    all_goals exact ⟨'\\', _, by simp, Or.inl rfl⟩

/-- an item never starts with a raw `-` or `]` -/
theorem escape_head_ne (isPrint : Nat → Bool) (r : Nat) (hv : isPrint r = true → (Char.ofNat r).toNat = r) :
    ∃ c tl, escape isPrint r (r == 45) = c :: tl ∧ c ≠ '-' ∧ c ≠ ']' := by
  obtain ⟨c, tl, e, h⟩ := escape_head isPrint r (r == 45)
  refine ⟨c, tl, e, ?_⟩
  rcases h with rfl | ⟨rfl, hp, hm, hf⟩
  · exact ⟨by decide, by decide⟩
  · have hv' := hv hp
    have h45 : r ≠ 45 := by simpa using hf
    have h93 : r ≠ 93 := by intro e; subst e; simp [metaRunes] at hm
    constructor
    · intro e; have : (Char.ofNat r).toNat = 45 := by rw [e]; rfl
      omega
    · intro e; have : (Char.ofNat r).toNat = 93 := by rw [e]; rfl
      omega

/-- well-formed class: pairs `lo ≤ hi ≤ U+10FFFF` -/
def WFClass : List Nat → Prop
  | [] => True
  | [_] => False
  | lo :: hi :: rest => lo ≤ hi ∧ hi ≤ 0x10FFFF ∧ WFClass rest

/-- **the body of a positive class round-trips** -/
theorem readClassItems_classPairs (isPrint : Nat → Bool) (hv : ∀ r, isPrint r = true → (Char.ofNat r).toNat = r)
    (rest : List Char) : ∀ (rs : List Nat) (fuel : Nat), WFClass rs → rs.length < fuel →
      readClassItems fuel (classPairs isPrint rs ++ ']' :: rest) = some (rs, rest)
  | [], fuel, _, hf => by
    obtain ⟨f, rfl⟩ : ∃ f, fuel = f + 1 := ⟨fuel - 1, by simp at hf; omega⟩
    simp [classPairs, readClassItems]
  | [_], _, h, _ => by simp [WFClass] at h
  | lo :: hi :: rs, fuel, h, hf => by
    obtain ⟨f, rfl⟩ : ∃ f, fuel = f + 1 := ⟨fuel - 1, by omega⟩
    obtain ⟨hle, hmax, hrest⟩ := h
    have ih := readClassItems_classPairs isPrint hv rest rs f hrest (by simp at hf; omega)
    have hlo := fun tl => readRune_escape isPrint lo (lo == 45) tl (by omega) (hv lo) (by simp)
    have hhi := fun tl => readRune_escape isPrint hi (hi == 45) tl hmax (hv hi) (by simp)
    obtain ⟨c, tl, ec, hc1, hc2⟩ := escape_head_ne isPrint lo (hv lo)
    simp only [classPairs, classItem]
    by_cases heq : lo = hi
    · subst heq
      simp only [bne_self_eq_false, Bool.false_eq_true, if_false, List.append_nil]
      -- next comes the rest of the body (an item or `]`)
      have hnext : ∀ tl', (escape isPrint lo (lo == 45) ++ tl') = c :: (tl ++ tl') := by intro tl'; rw [ec]; rfl
      rw [List.append_assoc, hnext]
      unfold readClassItems
      simp only [hc2, if_false]
      rw [← hnext, hlo]
      simp only
      -- what follows is not a range operator
      generalize hbody : classPairs isPrint rs ++ ']' :: rest = body at ih ⊢
      match body, hbody with
      | [], hb => simp at hb
      | [d], hb => simp [ih]
      | d :: c2 :: t', hb =>
        have hd : d ≠ '-' ∨ c2 = ']' := by
          match rs, hb with
          | [], hb => simp [classPairs] at hb; left; rw [← hb.1]; decide
          | [_], _ => simp [WFClass] at hrest
          | a :: b :: rs', hb =>
            obtain ⟨c', tl', ec', hc1', _⟩ := escape_head_ne isPrint a (hv a)
            simp only [classPairs, classItem, List.append_assoc] at hb
            rw [ec'] at hb
            simp only [List.cons_append, List.cons.injEq] at hb
            left; rw [← hb.1]; exact hc1'
        have : ¬ (d = '-' ∧ c2 ≠ ']') := by
          rintro ⟨h1, h2⟩
          rcases hd with h | h
          · exact h h1
          · exact h2 h
        simp [this, ih]
    · have hne : (lo != hi) = true := by simpa using heq
      simp only [hne, if_true]
      obtain ⟨c', tl', ec', _, hc2'⟩ := escape_head_ne isPrint hi (hv hi)
      have hnext : ∀ tl'', (escape isPrint lo (lo == 45) ++ tl'') = c :: (tl ++ tl'') := by intro tl''; rw [ec]; rfl
      simp only [List.append_assoc]
      rw [hnext]
      unfold readClassItems
      simp only [hc2, if_false]
      rw [← hnext, hlo]
      simp only [List.cons_append, List.nil_append]
      rw [ec']
      simp only [List.cons_append, hc2', ne_eq, not_false_eq_true, and_self, if_true]
      rw [show c' :: (tl' ++ (classPairs isPrint rs ++ ']' :: rest)) =
        escape isPrint hi (hi == 45) ++ (classPairs isPrint rs ++ ']' :: rest) by rw [ec']; rfl, hhi]
      have : ¬ hi < lo := by omega
      simp [this, ih]

end ZoektModel.C27
