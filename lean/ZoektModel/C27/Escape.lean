/-
C27 — lexical layer, one rune: what `escape` writes is read back as the same rune by a reader that follows the rules
of `regexp/syntax.parseEscape` / literal characters (`readRune`).  So zero-padding, brace and hex formats, the choice
of single-letter escapes and the set of backslash-escaped punctuation are right, for every rune up to U+10FFFF.
-/
import ZoektModel.C27.Model
namespace ZoektModel.C27

def unhex (c : Char) : Option Nat :=
  if '0' ≤ c ∧ c ≤ '9' then some (c.toNat - 48)
  else if 'a' ≤ c ∧ c ≤ 'f' then some (c.toNat - 87)
  else if 'A' ≤ c ∧ c ≤ 'F' then some (c.toNat - 55)
  else none

/-- `\x{…}`: hex digits up to the closing brace (at least one); the value must not exceed U+10FFFF
    (Go checks after every digit, which is equivalent because the value only grows) -/
def readBraced : List Char → Nat → Nat → Option (Nat × List Char)
  | [], _, _ => none
  | c :: rest, v, n =>
    if c = '}' then (if n = 0 ∨ v > 0x10FFFF then none else some (v, rest))
    else match unhex c with
      | some d => readBraced rest (v * 16 + d) (n + 1)
      | none => none

def isAlnum (c : Nat) : Bool := (48 ≤ c && c ≤ 57) || (65 ≤ c && c ≤ 90) || (97 ≤ c && c ≤ 122)

/-- one literal rune as the parser reads it (outside or inside a class; the characters with a special meaning are
    only accepted behind a backslash) -/
def readRune : List Char → Option (Nat × List Char)
  | [] => none
  | c :: rest =>
    if c = '\\' then
      match rest with
      | [] => none
      | e :: rest' =>
        if e = 'x' then
          match rest' with
          | [] => none
          | b :: rest'' =>
            if b = '{' then readBraced rest'' 0 0
            else match rest'' with
              | [] => none
              | b2 :: rest''' =>
                match unhex b, unhex b2 with
                | some x, some y => some (x * 16 + y, rest''')
                | _, _ => none
        else if e = 'a' then some (7, rest')
        else if e = 'f' then some (12, rest')
        else if e = 'n' then some (10, rest')
        else if e = 'r' then some (13, rest')
        else if e = 't' then some (9, rest')
        else if e = 'v' then some (11, rest')
        else if e.toNat < 128 && !isAlnum e.toNat then some (e.toNat, rest')
        else none
    else if metaRunes.contains c.toNat then none
    else some (c.toNat, rest)

/-! ### hexadecimal digits -/

theorem unhex_hexDigit (d : Nat) (h : d < 16) : unhex (hexDigit d) = some d := by
  have : d = 0 ∨ d = 1 ∨ d = 2 ∨ d = 3 ∨ d = 4 ∨ d = 5 ∨ d = 6 ∨ d = 7 ∨ d = 8 ∨ d = 9 ∨ d = 10 ∨ d = 11 ∨
      d = 12 ∨ d = 13 ∨ d = 14 ∨ d = 15 := by omega
  rcases this with rfl | rfl | rfl | rfl | rfl | rfl | rfl | rfl | rfl | rfl | rfl | rfl | rfl | rfl | rfl | rfl <;> decide

theorem hexDigit_ne_brace (d : Nat) (h : d < 16) : hexDigit d ≠ '}' := by
  have : d = 0 ∨ d = 1 ∨ d = 2 ∨ d = 3 ∨ d = 4 ∨ d = 5 ∨ d = 6 ∨ d = 7 ∨ d = 8 ∨ d = 9 ∨ d = 10 ∨ d = 11 ∨
      d = 12 ∨ d = 13 ∨ d = 14 ∨ d = 15 := by omega
  rcases this with rfl | rfl | rfl | rfl | rfl | rfl | rfl | rfl | rfl | rfl | rfl | rfl | rfl | rfl | rfl | rfl <;> decide

/-- reading the digits `hexAux` produced, in front of an accumulator `acc` that is read afterwards -/
theorem readBraced_hexAux : ∀ (fuel n : Nat) (acc tail : List Char) (v cnt : Nat), n < 16 ^ fuel → 0 < fuel →
    readBraced (hexAux fuel n acc ++ tail) v cnt =
      readBraced (acc ++ tail) (v * 16 ^ (hexAux fuel n []).length + n) (cnt + (hexAux fuel n []).length) ∧
    (hexAux fuel n acc = hexAux fuel n [] ++ acc) := by
  intro fuel
  induction fuel with
  | zero => intro n acc tail v cnt _ h; omega
  | succ fuel ih =>
    intro n acc tail v cnt hn _
    unfold hexAux
    split
    · rename_i h16
      constructor
      · simp only [List.cons_append, List.length_cons, List.length_nil, List.nil_append]
        rw [readBraced]
        simp [hexDigit_ne_brace n h16, unhex_hexDigit n h16]
      · simp
    · rename_i h16
      have hf : 0 < fuel := by
        rcases Nat.eq_zero_or_pos fuel with h | h
        · subst h; simp at hn; omega
        · exact h
      have hn' : n / 16 < 16 ^ fuel := by
        rw [Nat.pow_succ] at hn
        exact Nat.div_lt_of_lt_mul (by rw [Nat.mul_comm]; exact hn)
      have h1 := ih (n / 16) (hexDigit (n % 16) :: acc) tail v cnt hn' hf
      have h2 := ih (n / 16) [hexDigit (n % 16)] [] 0 0 hn' hf
      have hd : n % 16 < 16 := Nat.mod_lt _ (by omega)
      constructor
      · rw [h1.1]
        simp only [List.cons_append]
        rw [readBraced]
        simp only [hexDigit_ne_brace _ hd, if_false, unhex_hexDigit _ hd]
        rw [h2.2]
        simp only [List.length_append, List.length_cons, List.length_nil]
        congr 1
        · rw [Nat.pow_succ]
          have := Nat.div_add_mod n 16
          generalize (hexAux fuel (n / 16) []).length = L at *
          have e : (v * 16 ^ L + n / 16) * 16 + n % 16 = v * (16 ^ L * 16) + (16 * (n / 16) + n % 16) := by
            rw [Nat.add_mul, Nat.mul_assoc]; omega
          rw [e, this]
      · rw [h1.2, h2.2]; simp

theorem hexAux_ne_nil : ∀ (fuel n : Nat) (acc : List Char), (0 < fuel ∨ acc ≠ []) → hexAux fuel n acc ≠ [] := by
  intro fuel
  induction fuel with
  | zero =>
    intro n acc h
    rcases h with h | h
    · omega
    · simpa [hexAux] using h
  | succ fuel ih =>
    intro n acc _
    unfold hexAux
    split
    · simp
    · exact ih _ _ (Or.inr (by simp))

/-- `\x{` hex `}` is read back as the number, for every rune up to U+10FFFF -/
theorem readBraced_toHex (n : Nat) (hn : n ≤ 0x10FFFF) (rest : List Char) :
    readBraced (toHex n ++ '}' :: rest) 0 0 = some (n, rest) := by
  have h := (readBraced_hexAux 16 n [] ('}' :: rest) 0 0 (by
    have : (0x10FFFF : Nat) < 16 ^ 16 := by decide
    omega) (by decide)).1
  unfold toHex
  rw [h]
  simp only [List.nil_append, Nat.zero_mul, Nat.zero_add]
  rw [readBraced]
  have hlen : (hexAux 16 n []).length ≠ 0 := by
    intro e
    exact hexAux_ne_nil 16 n [] (Or.inl (by decide)) (List.eq_nil_of_length_eq_zero e)
  have hgt : ¬ n > 0x10FFFF := by omega
  simp [hlen, hgt]


/-- two-digit form `\xHH` for `r < 0x100` that is not one of the single-letter escapes -/
theorem toHex_small (r : Nat) (h : r < 0x100) :
    (if (toHex r).length == 1 then ['0'] else []) ++ toHex r = [hexDigit (r / 16), hexDigit (r % 16)] := by
  unfold toHex hexAux
  split
  · rename_i h16
    have : r / 16 = 0 := by omega
    have : r % 16 = r := by omega
    simp [*]
    decide
  · rename_i h16
    unfold hexAux
    have : r / 16 < 16 := by omega
    simp [this]

/-- **`escape` is read back as the rune it was given**, for every rune up to U+10FFFF, provided printable runes are
    valid scalar values (true of `unicode.IsPrint`), and `force` is only used for `-` (as `writeRegexp` does). -/
theorem readRune_escape (isPrint : Nat → Bool) (r : Nat) (force : Bool) (rest : List Char)
    (hr : r ≤ 0x10FFFF) (hv : isPrint r = true → (Char.ofNat r).toNat = r) (hf : force = true → r = 45) :
    readRune (escape isPrint r force ++ rest) = some (r, rest) := by
  unfold escape
  split
  · rename_i hp
    have hv' := hv hp
    split
    · rename_i hm
      -- backslash + the character itself: only for the metacharacters and a forced `-`
      have hcases : r = 92 ∨ r = 46 ∨ r = 43 ∨ r = 42 ∨ r = 63 ∨ r = 40 ∨ r = 41 ∨ r = 124 ∨ r = 91 ∨ r = 93 ∨
          r = 123 ∨ r = 125 ∨ r = 94 ∨ r = 36 ∨ r = 45 := by
        simp only [Bool.or_eq_true] at hm
        rcases hm with hm | hm
        · simp [metaRunes] at hm; omega
        · exact Or.inr (Or.inr (Or.inr (Or.inr (Or.inr (Or.inr (Or.inr (Or.inr (Or.inr (Or.inr (Or.inr (Or.inr (Or.inr
            (Or.inr (hf hm))))))))))))))
      rcases hcases with rfl | rfl | rfl | rfl | rfl | rfl | rfl | rfl | rfl | rfl | rfl | rfl | rfl | rfl | rfl <;>
        simp [readRune, isAlnum]
    · rename_i hm
      simp only [Bool.or_eq_true, not_or, Bool.not_eq_true] at hm
      have hnm : metaRunes.contains r = false := hm.1
      simp only [List.nil_append, List.singleton_append]
      unfold readRune
      have hne : Char.ofNat r ≠ '\\' := by
        intro e
        have : (Char.ofNat r).toNat = 92 := by rw [e]; rfl
        rw [hv'] at this; subst this
        simp [metaRunes] at hnm
      have hnm' : ¬ r ∈ metaRunes := by simpa using hnm
      simp [hne, hv', hnm']
  · split
    · rename_i h; have : r = 7 := by simpa using h
      subst this; simp [readRune]
    · split
      · rename_i h; have : r = 12 := by simpa using h
        subst this; simp [readRune]
      · split
        · rename_i h; have : r = 10 := by simpa using h
          subst this; simp [readRune]
        · split
          · rename_i h; have : r = 13 := by simpa using h
            subst this; simp [readRune]
          · split
            · rename_i h; have : r = 9 := by simpa using h
              subst this; simp [readRune]
            · split
              · rename_i h; have : r = 11 := by simpa using h
                subst this; simp [readRune]
              · split
                · rename_i hlt
                  simp only
                  rw [List.append_assoc ['\\', 'x'] _ (toHex r), toHex_small r hlt]
                  have h1 : r / 16 < 16 := by omega
                  have h2 : r % 16 < 16 := by omega
                  have hb : hexDigit (r / 16) ≠ '{' := by
                    have := unhex_hexDigit (r / 16) h1
                    intro e; rw [e] at this; simp [unhex] at this
                  simp [readRune, hb, unhex_hexDigit _ h1, unhex_hexDigit _ h2]
                  omega
                · have := readBraced_toHex r hr rest
                  simp [readRune, this]

end ZoektModel.C27
