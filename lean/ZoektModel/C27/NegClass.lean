/-
C27 — negated classes.  For a class that contains 0 and U+10FFFF the printer writes `[^` gaps `]`.  The gaps are
printed exactly like a positive class body (so `readClassItems` reads them back), and negating them gives back the
class: a rune is in the class iff it is in none of the gaps.
-/
import ZoektModel.C27.EscapeClass
namespace ZoektModel.C27
open ZoektModel.Regex

/-- the gaps `(Rune[i]+1, Rune[i+1]-1)`, `i = 1, 3, …`, of a class given without its leading `0` -/
def gaps : List Nat → List Nat
  | a :: b :: rest => (a + 1) :: (b - 1) :: gaps rest
  | _ => []

theorem classGaps_eq (isPrint : Nat → Bool) : ∀ l : List Nat, classGaps isPrint l = classPairs isPrint (gaps l)
  | [] => rfl
  | [_] => rfl
  | a :: b :: rest => by
    simp only [classGaps, gaps, classPairs]
    rw [classGaps_eq isPrint rest]

/-- a sorted class with non-empty gaps, given as its first `lo` and the remaining `hi, lo, hi, …, hi` -/
def Chain : Nat → List Nat → Prop
  | lo, [hi] => lo ≤ hi
  | lo, h :: l' :: rest => lo ≤ h ∧ h + 2 ≤ l' ∧ Chain l' rest
  | _, [] => False

def lastOf : Nat → List Nat → Nat
  | d, [] => d
  | _, x :: rest => lastOf x rest

theorem below_not_in : ∀ (l : List Nat) (lo c : Nat), Chain lo l → c < lo →
    inClass (lo :: l) c = false ∧ inClass (gaps l) c = false
  | [], _, _, h, _ => by simp [Chain] at h
  | [hi], lo, c, _, hc => by
    simp [inClass, gaps]; omega
  | h :: l' :: rest, lo, c, hch, hc => by
    obtain ⟨h1, h2, h3⟩ := hch
    have ih := below_not_in rest l' c h3 (by omega)
    simp only [inClass, gaps, Bool.or_eq_false_iff]
    refine ⟨⟨by simp; omega, ih.1⟩, ⟨by simp; omega, ih.2⟩⟩

/-- **negating the printed gaps gives back the class** (for runes between its first and last element) -/
theorem negated_gaps : ∀ (l : List Nat) (lo c : Nat), Chain lo l → lo ≤ c → c ≤ lastOf lo l →
    inClass (lo :: l) c = !inClass (gaps l) c
  | [], _, _, h, _, _ => by simp [Chain] at h
  | [hi], lo, c, _, h1, h2 => by
    simp only [lastOf] at h2
    simp [inClass, gaps, h1, h2]
  | h :: l' :: rest, lo, c, hch, h1, h2 => by
    obtain ⟨hh1, hh2, hh3⟩ := hch
    simp only [lastOf] at h2
    simp only [inClass, gaps]
    by_cases hc : c ≤ h
    · have := below_not_in rest l' c hh3 (by omega)
      simp [h1, hc, this.2]; omega
    · by_cases hg : c < l'
      · have := below_not_in rest l' c hh3 hg
        have e1 : (decide (lo ≤ c) && decide (c ≤ h)) = false := by simp; omega
        have e2 : (decide (h + 1 ≤ c) && decide (c ≤ l' - 1)) = true := by simp; omega
        simp [e1, e2, this.1]
      · have ih := negated_gaps rest l' c hh3 (by omega) h2
        have e1 : (decide (lo ≤ c) && decide (c ≤ h)) = false := by simp; omega
        have e2 : (decide (h + 1 ≤ c) && decide (c ≤ l' - 1)) = false := by simp; omega
        simp [e1, e2, ih]

end ZoektModel.C27
