/-
Shared regular-expression AST (mirror of Go's `regexp/syntax.Regexp` as produced by `syntax.Parse`) with
  * `Matches`  — the denotational match relation (which spans `[i,j)` of a subject a regexp matches), and
  * `ends`     — an executable, priority-free matcher computing the set of end positions for a start position.
Core Lean only (linked into the driver).  Used by C27 (printer / optimiser) and C28 (engine dispatch).

Subjects are arrays of code points (valid UTF-8 text, decoded); positions are rune indices.
-/
namespace ZoektModel.Regex

/-- `syntax.Regexp`, keeping exactly the fields that influence matching or printing.
    `ng` = the `NonGreedy` flag, `fold` = `FoldCase` (only meaningful on literals: the parser expands folded
    classes), `wasDollar` = `WasDollar`.  `max = -1` in `rep` means unbounded. -/
inductive Re where
  | noMatch
  | emptyMatch
  | lit (rs : List Nat) (fold : Bool)
  | cls (rs : List Nat)
  | anyNotNL
  | any
  | beginLine
  | endLine
  | beginText
  | endText (wasDollar : Bool)
  | wordB
  | noWordB
  | cap (name : String) (sub : Re)
  | star (ng : Bool) (sub : Re)
  | plus (ng : Bool) (sub : Re)
  | quest (ng : Bool) (sub : Re)
  | rep (ng : Bool) (min : Nat) (max : Int) (sub : Re)
  | concat (subs : List Re)
  | alt (subs : List Re)
  deriving Repr, BEq, Inhabited

/-- The parameter of the semantics: simple case folding.  `foldEq p c` = "`c` is in the `unicode.SimpleFold`
    orbit of `p`".  Supplied per case by the harness from Go's tables; the theorems hold for every `Env`. -/
structure Env where
  foldEq : Nat → Nat → Bool

/-- Go `syntax.IsWordChar`: ASCII letters, digits, underscore. -/
def isWordRune (c : Nat) : Bool :=
  (48 ≤ c && c ≤ 57) || (65 ≤ c && c ≤ 90) || (97 ≤ c && c ≤ 122) || c == 95

/-- membership in a class given as a flat list of inclusive `lo, hi` pairs -/
def inClass : List Nat → Nat → Bool
  | lo :: hi :: rest, c => (decide (lo ≤ c) && decide (c ≤ hi)) || inClass rest c
  | _, _ => false

def runeEq (env : Env) (fold : Bool) (p c : Nat) : Bool :=
  p == c || (fold && env.foldEq p c)

/-- the literal `rs` occurs in `s` at rune index `i` -/
def litAt (env : Env) (fold : Bool) (s : Array Nat) : List Nat → Nat → Bool
  | [], i => decide (i ≤ s.size)
  | p :: ps, i =>
    match s[i]? with
    | some c => runeEq env fold p c && litAt env fold s ps (i + 1)
    | none => false

def wordBefore (s : Array Nat) (i : Nat) : Bool :=
  if i = 0 then false else match s[i - 1]? with | some c => isWordRune c | none => false
def wordAfter (s : Array Nat) (i : Nat) : Bool :=
  match s[i]? with | some c => isWordRune c | none => false

/-- zero-width assertions and single-rune steps, shared by `Matches` and `ends` -/
def beginLineAt (s : Array Nat) (i : Nat) : Bool := i == 0 || (i ≤ s.size && s[i - 1]? == some 10)
def endLineAt (s : Array Nat) (i : Nat) : Bool := i == s.size || s[i]? == some 10
def wordBAt (s : Array Nat) (i : Nat) : Bool := i ≤ s.size && (wordBefore s i != wordAfter s i)
def noWordBAt (s : Array Nat) (i : Nat) : Bool := i ≤ s.size && (wordBefore s i == wordAfter s i)

/-- `Matches env s r i j`: `r` matches exactly the runes `s[i..j)` (with `s` as left/right context). -/
inductive Matches (env : Env) (s : Array Nat) : Re → Nat → Nat → Prop where
  | emptyMatch {i} (h : i ≤ s.size) : Matches env s .emptyMatch i i
  | lit {rs fold i} (h : litAt env fold s rs i = true) : Matches env s (.lit rs fold) i (i + rs.length)
  | cls {rs i c} (h : s[i]? = some c) (hc : inClass rs c = true) : Matches env s (.cls rs) i (i + 1)
  | anyNotNL {i c} (h : s[i]? = some c) (hc : c ≠ 10) : Matches env s .anyNotNL i (i + 1)
  | any {i} (h : i < s.size) : Matches env s .any i (i + 1)
  | beginLine {i} (h : i ≤ s.size) (hb : beginLineAt s i = true) : Matches env s .beginLine i i
  | endLine {i} (h : endLineAt s i = true) (hi : i ≤ s.size) : Matches env s .endLine i i
  | beginText : Matches env s .beginText 0 0
  | endText {wd} : Matches env s (.endText wd) s.size s.size
  | wordB {i} (h : wordBAt s i = true) : Matches env s .wordB i i
  | noWordB {i} (h : noWordBAt s i = true) : Matches env s .noWordB i i
  | cap {n r i j} (h : Matches env s r i j) : Matches env s (.cap n r) i j
  | star {ng r i j} (n : Nat) (h : Matches env s (.concat (List.replicate n r)) i j) : Matches env s (.star ng r) i j
  | plus {ng r i j} (n : Nat) (hn : 1 ≤ n) (h : Matches env s (.concat (List.replicate n r)) i j) :
      Matches env s (.plus ng r) i j
  | quest {ng r i j} (n : Nat) (hn : n ≤ 1) (h : Matches env s (.concat (List.replicate n r)) i j) :
      Matches env s (.quest ng r) i j
  | rep {ng mn mx r i j} (n : Nat) (hlo : mn ≤ n) (hhi : mx < 0 ∨ (n : Int) ≤ mx)
      (h : Matches env s (.concat (List.replicate n r)) i j) : Matches env s (.rep ng mn mx r) i j
  | concatNil {i} (h : i ≤ s.size) : Matches env s (.concat []) i i
  | concatCons {r rs i k j} (h1 : Matches env s r i k) (h2 : Matches env s (.concat rs) k j) :
      Matches env s (.concat (r :: rs)) i j
  | alt {rs r i j} (hr : r ∈ rs) (h : Matches env s r i j) : Matches env s (.alt rs) i j

/-- two regexps match the same spans of every subject (the "same language", with context) -/
def Equiv (env : Env) (r r' : Re) : Prop := ∀ s i j, Matches env s r i j ↔ Matches env s r' i j

/-! ### executable set-of-ends matcher -/

def insertNew (acc : List Nat) (x : Nat) : List Nat := if acc.contains x then acc else acc ++ [x]
def unionNew (acc xs : List Nat) : List Nat := xs.foldl insertNew acc

/-- all positions reachable from the positions in `from_` by one application of `step` -/
def stepSet (step : Nat → List Nat) (from_ : List Nat) : List Nat :=
  from_.foldl (fun acc k => unionNew acc (step k)) []

/-- reflexive-transitive closure of `step` from `acc` (frontier `fr ⊆ acc`), at most `fuel` rounds -/
def closure (step : Nat → List Nat) : Nat → List Nat → List Nat → List Nat
  | 0, _, acc => acc
  | fuel + 1, fr, acc =>
    let new := (stepSet step fr).filter (fun x => !acc.contains x)
    if new.isEmpty then acc else closure step fuel new (acc ++ new)

/-- `n`-fold application of `step` to a set -/
def stepN (step : Nat → List Nat) : Nat → List Nat → List Nat
  | 0, cur => cur
  | n + 1, cur => stepN step n (stepSet step cur)

/-- union of the sets after `0 … n` further applications of `step` -/
def stepUpTo (step : Nat → List Nat) : Nat → List Nat → List Nat → List Nat
  | 0, _, acc => acc
  | n + 1, cur, acc =>
    let nxt := stepSet step cur
    if nxt.isEmpty then acc else stepUpTo step n nxt (unionNew acc nxt)

mutual
/-- every `j` with `Matches env s r i j` (no duplicates, no order guarantee) -/
def ends (env : Env) (s : Array Nat) : Re → Nat → List Nat
  | .noMatch, _ => []
  | .emptyMatch, i => if i ≤ s.size then [i] else []
  | .lit rs fold, i => if litAt env fold s rs i then [i + rs.length] else []
  | .cls rs, i => match s[i]? with
    | some c => if inClass rs c then [i + 1] else []
    | none => []
  | .anyNotNL, i => match s[i]? with
    | some c => if c != 10 then [i + 1] else []
    | none => []
  | .any, i => if i < s.size then [i + 1] else []
  | .beginLine, i => if i ≤ s.size && beginLineAt s i then [i] else []
  | .endLine, i => if i ≤ s.size && endLineAt s i then [i] else []
  | .beginText, i => if i == 0 then [i] else []
  | .endText _, i => if i == s.size then [i] else []
  | .wordB, i => if wordBAt s i then [i] else []
  | .noWordB, i => if noWordBAt s i then [i] else []
  | .cap _ r, i => ends env s r i
  | .star _ r, i => if i ≤ s.size then closure (ends env s r) (s.size + 2) [i] [i] else []
  | .plus _ r, i =>
    let first := unionNew [] (ends env s r i)
    closure (ends env s r) (s.size + 2) first first
  | .quest _ r, i => if i ≤ s.size then unionNew [i] (ends env s r i) else unionNew [] (ends env s r i)
  | .rep _ mn mx r, i =>
    if i ≤ s.size then
      let base := stepN (ends env s r) mn [i]
      if mx < 0 then closure (ends env s r) (s.size + 2) base base
      else if mx.toNat < mn then []
      else stepUpTo (ends env s r) (mx.toNat - mn) base base
    else []
  | .concat rs, i => if i ≤ s.size then endsSeq env s rs [i] else []
  | .alt rs, i => endsAlt env s rs i
def endsSeq (env : Env) (s : Array Nat) : List Re → List Nat → List Nat
  | [], cur => cur
  | r :: rs, cur => endsSeq env s rs (stepSet (ends env s r) cur)
def endsAlt (env : Env) (s : Array Nat) : List Re → Nat → List Nat
  | [], _ => []
  | r :: rs, i => unionNew (ends env s r i) (endsAlt env s rs i)
end

/-- does `r` match the span `[i,j)` of `s`? -/
def matchSpan (env : Env) (s : Array Nat) (r : Re) (i j : Nat) : Bool := (ends env s r i).contains j

end ZoektModel.Regex
