/-
C27 lemmas: inversion ("characterisation") lemmas for `Regex.Matches`, bounds, congruence of `Equiv`,
powers (`Pow`) and the algebra of repetitions used by `uncapture_equiv` and `simplify_equiv`.
-/
import ZoektModel.C27.Model
namespace ZoektModel.C27
open ZoektModel.Regex

variable {env : Env} {s : Array Nat}

/-! ### inversion lemmas -/

theorem matches_noMatch {i j} : ¬ Matches env s .noMatch i j := by
  intro h; cases h

theorem matches_emptyMatch {i j} : Matches env s .emptyMatch i j ↔ i = j ∧ i ≤ s.size := by
  constructor
  · intro h; cases h with | emptyMatch h => exact ⟨rfl, h⟩
  · rintro ⟨rfl, h⟩; exact .emptyMatch h

theorem matches_cap {n r i j} : Matches env s (.cap n r) i j ↔ Matches env s r i j := by
  constructor
  · intro h; cases h with | cap h => exact h
  · exact .cap

theorem matches_concat_nil {i j} : Matches env s (.concat []) i j ↔ i = j ∧ i ≤ s.size := by
  constructor
  · intro h; cases h with | concatNil h => exact ⟨rfl, h⟩
  · rintro ⟨rfl, h⟩; exact .concatNil h

theorem matches_concat_cons {r rs i j} :
    Matches env s (.concat (r :: rs)) i j ↔ ∃ k, Matches env s r i k ∧ Matches env s (.concat rs) k j := by
  constructor
  · intro h; cases h with | concatCons h1 h2 => exact ⟨_, h1, h2⟩
  · rintro ⟨k, h1, h2⟩; exact .concatCons h1 h2

theorem matches_alt {rs i j} : Matches env s (.alt rs) i j ↔ ∃ r, r ∈ rs ∧ Matches env s r i j := by
  constructor
  · intro h; cases h with | alt hr h => exact ⟨_, hr, h⟩
  · rintro ⟨r, hr, h⟩; exact .alt hr h

/-- `Pow r n i j`: `n` consecutive matches of `r` cover `[i,j)` -/
def Pow (env : Env) (s : Array Nat) (r : Re) (n i j : Nat) : Prop :=
  Matches env s (.concat (List.replicate n r)) i j

theorem matches_star {ng r i j} : Matches env s (.star ng r) i j ↔ ∃ n, Pow env s r n i j := by
  constructor
  · intro h; cases h with | star n h => exact ⟨n, h⟩
  · rintro ⟨n, h⟩; exact .star n h

theorem matches_plus {ng r i j} : Matches env s (.plus ng r) i j ↔ ∃ n, 1 ≤ n ∧ Pow env s r n i j := by
  constructor
  · intro h; cases h with | plus n hn h => exact ⟨n, hn, h⟩
  · rintro ⟨n, hn, h⟩; exact .plus n hn h

theorem matches_quest {ng r i j} : Matches env s (.quest ng r) i j ↔ ∃ n, n ≤ 1 ∧ Pow env s r n i j := by
  constructor
  · intro h; cases h with | quest n hn h => exact ⟨n, hn, h⟩
  · rintro ⟨n, hn, h⟩; exact .quest n hn h

theorem matches_rep {ng mn mx r i j} :
    Matches env s (.rep ng mn mx r) i j ↔ ∃ n, mn ≤ n ∧ (mx < 0 ∨ (n : Int) ≤ mx) ∧ Pow env s r n i j := by
  constructor
  · intro h; cases h with | rep n h1 h2 h => exact ⟨n, h1, h2, h⟩
  · rintro ⟨n, h1, h2, h⟩; exact .rep n h1 h2 h

/-! ### bounds -/

theorem litAt_bound {fold} : ∀ (rs : List Nat) (i : Nat), litAt env fold s rs i = true → i + rs.length ≤ s.size
  | [], i, h => by simpa [litAt] using h
  | p :: ps, i, h => by
    unfold litAt at h
    split at h
    · rename_i c hc
      simp only [Bool.and_eq_true] at h
      have := litAt_bound ps (i + 1) h.2
      simp only [List.length_cons]; omega
    · cases h

theorem getElem?_lt {i c} (h : s[i]? = some c) : i < s.size := by
  by_cases hlt : i < s.size
  · exact hlt
  · rw [Array.getElem?_eq_none (by omega)] at h; cases h

theorem matches_bounds {r i j} (h : Matches env s r i j) : i ≤ j ∧ j ≤ s.size := by
  induction h with
  | emptyMatch h => exact ⟨Nat.le_refl _, h⟩
  | lit h => have := litAt_bound _ _ h; omega
  | cls h _ => have := getElem?_lt h; omega
  | anyNotNL h _ => have := getElem?_lt h; omega
  | any h => omega
  | beginLine h _ => exact ⟨Nat.le_refl _, h⟩
  | endLine _ h => exact ⟨Nat.le_refl _, h⟩
  | beginText => exact ⟨Nat.le_refl _, Nat.zero_le _⟩
  | endText => exact ⟨Nat.le_refl _, Nat.le_refl _⟩
  | wordB h => simp only [wordBAt, Bool.and_eq_true, decide_eq_true_eq] at h; exact ⟨Nat.le_refl _, h.1⟩
  | noWordB h => simp only [noWordBAt, Bool.and_eq_true, decide_eq_true_eq] at h; exact ⟨Nat.le_refl _, h.1⟩
  | cap _ ih => exact ih
  | star _ _ ih => exact ih
  | plus _ _ _ ih => exact ih
  | quest _ _ _ ih => exact ih
  | rep _ _ _ _ ih => exact ih
  | concatNil h => exact ⟨Nat.le_refl _, h⟩
  | concatCons _ _ ih1 ih2 => omega
  | alt _ _ ih => exact ih

/-! ### powers -/

theorem pow_zero {r i j} : Pow env s r 0 i j ↔ i = j ∧ i ≤ s.size := by
  simp only [Pow, List.replicate_zero]; exact matches_concat_nil

theorem pow_succ {r n i j} : Pow env s r (n + 1) i j ↔ ∃ k, Matches env s r i k ∧ Pow env s r n k j := by
  simp only [Pow, List.replicate_succ]; exact matches_concat_cons

theorem matches_concat_append {as bs : List Re} {i j} :
    Matches env s (.concat (as ++ bs)) i j ↔ ∃ k, Matches env s (.concat as) i k ∧ Matches env s (.concat bs) k j := by
  induction as generalizing i with
  | nil =>
    simp only [List.nil_append]
    constructor
    · intro h; exact ⟨i, .concatNil (by have := matches_bounds h; omega), h⟩
    · rintro ⟨k, h1, h2⟩
      rw [matches_concat_nil] at h1
      obtain ⟨rfl, _⟩ := h1; exact h2
  | cons a as ih =>
    simp only [List.cons_append, matches_concat_cons]
    constructor
    · rintro ⟨k, h1, h2⟩
      obtain ⟨k', h3, h4⟩ := ih.mp h2
      exact ⟨k', ⟨k, h1, h3⟩, h4⟩
    · rintro ⟨k', ⟨k, h1, h3⟩, h4⟩
      exact ⟨k, h1, ih.mpr ⟨k', h3, h4⟩⟩

theorem pow_add {r n m i j} : Pow env s r (n + m) i j ↔ ∃ k, Pow env s r n i k ∧ Pow env s r m k j := by
  simp only [Pow, ← List.replicate_append_replicate]; exact matches_concat_append

theorem pow_one {r i j} : Pow env s r 1 i j ↔ Matches env s r i j := by
  rw [pow_succ]
  constructor
  · rintro ⟨k, h1, h2⟩; rw [pow_zero] at h2; obtain ⟨rfl, _⟩ := h2; exact h1
  · intro h; exact ⟨j, h, pow_zero.mpr ⟨rfl, (matches_bounds h).2⟩⟩

theorem matches_concat_singleton {r i j} : Matches env s (.concat [r]) i j ↔ Matches env s r i j := pow_one

theorem matches_concat_pair {a b i j} :
    Matches env s (.concat [a, b]) i j ↔ ∃ k, Matches env s a i k ∧ Matches env s b k j := by
  rw [matches_concat_cons]
  constructor
  · rintro ⟨k, h1, h2⟩; exact ⟨k, h1, matches_concat_singleton.mp h2⟩
  · rintro ⟨k, h1, h2⟩; exact ⟨k, h1, matches_concat_singleton.mpr h2⟩

/-! ### `Equiv` is a congruence -/

theorem Equiv.refl (r : Re) : Equiv env r r := fun _ _ _ => Iff.rfl
theorem Equiv.symm {r r' : Re} (h : Equiv env r r') : Equiv env r' r := fun s i j => (h s i j).symm
theorem Equiv.trans {a b c : Re} (h1 : Equiv env a b) (h2 : Equiv env b c) : Equiv env a c :=
  fun s i j => (h1 s i j).trans (h2 s i j)

/-- element-wise equivalence of two lists of regexps -/
inductive ListEquiv (env : Env) : List Re → List Re → Prop where
  | nil : ListEquiv env [] []
  | cons {a b as bs} (h : Equiv env a b) (t : ListEquiv env as bs) : ListEquiv env (a :: as) (b :: bs)

theorem concat_congr {rs rs' : List Re} (h : ListEquiv env rs rs') :
    Equiv env (.concat rs) (.concat rs') := by
  induction h with
  | nil => exact Equiv.refl _
  | cons h1 _ ih =>
    intro s i j
    simp only [matches_concat_cons]
    constructor
    · rintro ⟨k, a, b⟩; exact ⟨k, (h1 s i k).mp a, (ih s k j).mp b⟩
    · rintro ⟨k, a, b⟩; exact ⟨k, (h1 s i k).mpr a, (ih s k j).mpr b⟩

theorem alt_congr {rs rs' : List Re} (h : ListEquiv env rs rs') :
    Equiv env (.alt rs) (.alt rs') := by
  intro s i j
  simp only [matches_alt]
  induction h with
  | nil => simp
  | cons h1 _ ih =>
    constructor
    · rintro ⟨r, hr, hm⟩
      rcases List.mem_cons.mp hr with rfl | hr
      · exact ⟨_, List.mem_cons_self, (h1 s i j).mp hm⟩
      · obtain ⟨r', hr', hm'⟩ := ih.mp ⟨r, hr, hm⟩
        exact ⟨r', List.mem_cons_of_mem _ hr', hm'⟩
    · rintro ⟨r, hr, hm⟩
      rcases List.mem_cons.mp hr with rfl | hr
      · exact ⟨_, List.mem_cons_self, (h1 s i j).mpr hm⟩
      · obtain ⟨r', hr', hm'⟩ := ih.mpr ⟨r, hr, hm⟩
        exact ⟨r', List.mem_cons_of_mem _ hr', hm'⟩

theorem pow_congr {r r' : Re} (h : Equiv env r r') (n : Nat) {s i j} : Pow env s r n i j ↔ Pow env s r' n i j := by
  induction n generalizing i with
  | zero => simp only [pow_zero]
  | succ n ih =>
    simp only [pow_succ]
    constructor
    · rintro ⟨k, a, b⟩; exact ⟨k, (h s i k).mp a, ih.mp b⟩
    · rintro ⟨k, a, b⟩; exact ⟨k, (h s i k).mpr a, ih.mpr b⟩

theorem cap_congr {n} {r r' : Re} (h : Equiv env r r') : Equiv env (.cap n r) (.cap n r') :=
  fun s i j => by simp only [matches_cap]; exact h s i j
theorem star_congr {ng} {r r' : Re} (h : Equiv env r r') : Equiv env (.star ng r) (.star ng r') :=
  fun s i j => by simp only [matches_star, pow_congr h]
theorem plus_congr {ng} {r r' : Re} (h : Equiv env r r') : Equiv env (.plus ng r) (.plus ng r') :=
  fun s i j => by simp only [matches_plus, pow_congr h]
theorem quest_congr {ng} {r r' : Re} (h : Equiv env r r') : Equiv env (.quest ng r) (.quest ng r') :=
  fun s i j => by simp only [matches_quest, pow_congr h]
theorem rep_congr {ng mn mx} {r r' : Re} (h : Equiv env r r') : Equiv env (.rep ng mn mx r) (.rep ng mn mx r') :=
  fun s i j => by simp only [matches_rep, pow_congr h]

/-- a capture group matches what its body matches -/
theorem cap_equiv (n : String) (r : Re) : Equiv env (.cap n r) r := fun _ _ _ => matches_cap
/-- a one-element concatenation matches what its element matches -/
theorem concat_singleton_equiv (r : Re) : Equiv env (.concat [r]) r := fun _ _ _ => matches_concat_singleton


/-! ### algebra of repetitions (for `Simplify`) -/

theorem pow_emptyMatch {n i j} : Pow env s .emptyMatch n i j ↔ i = j ∧ i ≤ s.size := by
  induction n generalizing i with
  | zero => exact pow_zero
  | succ n ih =>
    rw [pow_succ]
    constructor
    · rintro ⟨k, h1, h2⟩
      rw [matches_emptyMatch] at h1
      obtain ⟨rfl, _⟩ := h1
      exact ih.mp h2
    · rintro ⟨rfl, h⟩
      exact ⟨i, .emptyMatch h, ih.mpr ⟨rfl, h⟩⟩

theorem pow_star_flat {ng r n i j} (h : Pow env s (.star ng r) n i j) : ∃ m, Pow env s r m i j := by
  induction n generalizing i with
  | zero => exact ⟨0, h⟩
  | succ n ih =>
    obtain ⟨k, h1, h2⟩ := pow_succ.mp h
    obtain ⟨m1, hm1⟩ := matches_star.mp h1
    obtain ⟨m2, hm2⟩ := ih h2
    exact ⟨m1 + m2, pow_add.mpr ⟨k, hm1, hm2⟩⟩

theorem pow_plus_flat {ng r n i j} (h : Pow env s (.plus ng r) n i j) : ∃ m, n ≤ m ∧ Pow env s r m i j := by
  induction n generalizing i with
  | zero => exact ⟨0, Nat.le_refl _, h⟩
  | succ n ih =>
    obtain ⟨k, h1, h2⟩ := pow_succ.mp h
    obtain ⟨m1, hle, hm1⟩ := matches_plus.mp h1
    obtain ⟨m2, hle2, hm2⟩ := ih h2
    exact ⟨m1 + m2, by omega, pow_add.mpr ⟨k, hm1, hm2⟩⟩

theorem pow_quest_flat {ng r n i j} (h : Pow env s (.quest ng r) n i j) : ∃ m, m ≤ n ∧ Pow env s r m i j := by
  induction n generalizing i with
  | zero => exact ⟨0, Nat.le_refl _, h⟩
  | succ n ih =>
    obtain ⟨k, h1, h2⟩ := pow_succ.mp h
    obtain ⟨m1, hle, hm1⟩ := matches_quest.mp h1
    obtain ⟨m2, hle2, hm2⟩ := ih h2
    exact ⟨m1 + m2, by omega, pow_add.mpr ⟨k, hm1, hm2⟩⟩

/-- `(?:x*)*` = `x*` -/
theorem star_star_equiv (a b : Bool) (r : Re) : Equiv env (.star a (.star b r)) (.star b r) := by
  intro s i j
  constructor
  · intro h
    obtain ⟨n, hn⟩ := matches_star.mp h
    exact matches_star.mpr (pow_star_flat hn)
  · intro h
    exact matches_star.mpr ⟨1, pow_one.mpr h⟩

/-- `(?:x+)+` = `x+` -/
theorem plus_plus_equiv (a b : Bool) (r : Re) : Equiv env (.plus a (.plus b r)) (.plus b r) := by
  intro s i j
  constructor
  · intro h
    obtain ⟨n, h1, hn⟩ := matches_plus.mp h
    obtain ⟨m, hle, hm⟩ := pow_plus_flat hn
    exact matches_plus.mpr ⟨m, by omega, hm⟩
  · intro h
    exact matches_plus.mpr ⟨1, Nat.le_refl _, pow_one.mpr h⟩

/-- `(?:x?)?` = `x?` -/
theorem quest_quest_equiv (a b : Bool) (r : Re) : Equiv env (.quest a (.quest b r)) (.quest b r) := by
  intro s i j
  constructor
  · intro h
    obtain ⟨n, h1, hn⟩ := matches_quest.mp h
    obtain ⟨m, hle, hm⟩ := pow_quest_flat hn
    exact matches_quest.mpr ⟨m, by omega, hm⟩
  · intro h
    exact matches_quest.mpr ⟨1, Nat.le_refl _, pow_one.mpr h⟩

theorem matches_mkROp {op ng r i j} :
    Matches env s (mkROp op ng r) i j ↔
      ∃ n, (op = .plus → 1 ≤ n) ∧ (op = .quest → n ≤ 1) ∧ Pow env s r n i j := by
  cases op
  · simp only [mkROp, matches_star]
    constructor
    · rintro ⟨n, h⟩; exact ⟨n, by simp, by simp, h⟩
    · rintro ⟨n, _, _, h⟩; exact ⟨n, h⟩
  · simp only [mkROp, matches_plus]
    constructor
    · rintro ⟨n, h1, h⟩; exact ⟨n, fun _ => h1, by simp, h⟩
    · rintro ⟨n, h1, _, h⟩; exact ⟨n, (h1 (by first | rfl | trivial)), h⟩
  · simp only [mkROp, matches_quest]
    constructor
    · rintro ⟨n, h1, h⟩; exact ⟨n, by simp, fun _ => h1, h⟩
    · rintro ⟨n, _, h1, h⟩; exact ⟨n, (h1 (by first | rfl | trivial)), h⟩

/-- repeating the empty match any number of times is the empty match -/
theorem mkROp_emptyMatch_equiv (op : ROp) (ng : Bool) : Equiv env .emptyMatch (mkROp op ng .emptyMatch) := by
  intro s i j
  rw [matches_mkROp, matches_emptyMatch]
  constructor
  · rintro ⟨rfl, h⟩
    cases op
    · exact ⟨0, by simp, by simp, pow_emptyMatch.mpr ⟨rfl, h⟩⟩
    · exact ⟨1, by simp, by simp, pow_emptyMatch.mpr ⟨rfl, h⟩⟩
    · exact ⟨0, by simp, by simp, pow_emptyMatch.mpr ⟨rfl, h⟩⟩
  · rintro ⟨n, _, _, h⟩
    exact pow_emptyMatch.mp h

/-- **`simplify1` is language preserving**: the result matches what `op` applied to `sub` matches. -/
theorem simplify1_equiv (op : ROp) (ng : Bool) (sub : Re) : Equiv env (simplify1 op ng sub) (mkROp op ng sub) := by
  unfold simplify1
  split
  · exact mkROp_emptyMatch_equiv op ng
  · rename_i ng' r
    split
    · rename_i h
      simp only [Bool.and_eq_true, beq_iff_eq] at h
      obtain ⟨rfl, rfl⟩ := h
      exact Equiv.symm (star_star_equiv _ _ _)
    · exact Equiv.refl _
  · rename_i ng' r
    split
    · rename_i h
      simp only [Bool.and_eq_true, beq_iff_eq] at h
      obtain ⟨rfl, rfl⟩ := h
      exact Equiv.symm (plus_plus_equiv _ _ _)
    · exact Equiv.refl _
  · rename_i ng' r
    split
    · rename_i h
      simp only [Bool.and_eq_true, beq_iff_eq] at h
      obtain ⟨rfl, rfl⟩ := h
      exact Equiv.symm (quest_quest_equiv _ _ _)
    · exact Equiv.refl _
  · exact Equiv.refl _

theorem matches_simplify1 {op ng sub i j} :
    Matches env s (simplify1 op ng sub) i j ↔
      ∃ n, (op = .plus → 1 ≤ n) ∧ (op = .quest → n ≤ 1) ∧ Pow env s sub n i j :=
  (simplify1_equiv op ng sub s i j).trans matches_mkROp

/-- the nested suffix `(x(x(x)?)?)?` with `k` nestings matches between `0` and `k+1` copies of `x` -/
theorem matches_nestQuest {ng sub k i j} :
    Matches env s (nestQuest ng sub k) i j ↔ ∃ n, n ≤ k + 1 ∧ Pow env s sub n i j := by
  induction k generalizing i j with
  | zero =>
    simp only [nestQuest, matches_simplify1]
    constructor
    · rintro ⟨n, _, h2, h⟩; exact ⟨n, by have := (h2 (by first | rfl | trivial)); omega, h⟩
    · rintro ⟨n, h1, h⟩; exact ⟨n, by simp, fun _ => by omega, h⟩
  | succ k ih =>
    simp only [nestQuest, matches_simplify1]
    constructor
    · rintro ⟨n, _, h2, h⟩
      have hn := (h2 (by first | rfl | trivial))
      match n, hn, h with
      | 0, _, h => exact ⟨0, by omega, pow_zero.mpr (pow_zero.mp h)⟩
      | 1, _, h =>
        obtain ⟨m, hm1, hm2⟩ := matches_concat_pair.mp (pow_one.mp h)
        obtain ⟨n', hn', hp⟩ := ih.mp hm2
        exact ⟨n' + 1, by omega, pow_succ.mpr ⟨m, hm1, hp⟩⟩
    · rintro ⟨n, hn, h⟩
      match n, hn, h with
      | 0, _, h => exact ⟨0, by simp, by simp, pow_zero.mpr (pow_zero.mp h)⟩
      | n' + 1, hn, h =>
        obtain ⟨m, hm1, hm2⟩ := pow_succ.mp h
        refine ⟨1, by simp, by simp, pow_one.mpr (matches_concat_pair.mpr ⟨m, hm1, ?_⟩)⟩
        exact ih.mpr ⟨n', by omega, hm2⟩

theorem pow_split {r : Re} {a n i j} (h : Pow env s r n i j) (ha : a ≤ n) :
    ∃ k, Pow env s r a i k ∧ Pow env s r (n - a) k j := by
  have : n = a + (n - a) := by omega
  rw [this] at h
  exact pow_add.mp h

/-- **`Simplify` of a counted repetition** (operand already simplified) is language preserving, for the bounds
    the parser produces (`max = -1` or `min ≤ max`), `x{0}` being handled by the caller. -/
theorem simplifyRep_equiv (ng : Bool) (mn : Nat) (mx : Int) (sub : Re)
    (wf : mx = -1 ∨ (mn : Int) ≤ mx) (h00 : ¬ (mn = 0 ∧ mx = 0)) :
    Equiv env (simplifyRep ng mn mx sub) (.rep ng mn mx sub) := by
  intro s i j
  rw [matches_rep]
  unfold simplifyRep
  split
  · rename_i hmx
    have hmx : mx = -1 := by simpa using hmx
    subst hmx
    split
    · rename_i h0
      have h0 : mn = 0 := by simpa using h0
      subst h0
      rw [matches_simplify1]
      constructor
      · rintro ⟨n, _, _, h⟩; exact ⟨n, Nat.zero_le _, Or.inl (by omega), h⟩
      · rintro ⟨n, _, _, h⟩; exact ⟨n, by simp, by simp, h⟩
    · split
      · rename_i _ h1
        have h1 : mn = 1 := by simpa using h1
        subst h1
        rw [matches_simplify1]
        constructor
        · rintro ⟨n, h1, _, h⟩; exact ⟨n, (h1 (by first | rfl | trivial)), Or.inl (by omega), h⟩
        · rintro ⟨n, h1, _, h⟩; exact ⟨n, fun _ => h1, by simp, h⟩
      · rename_i h0 h1
        have h0 : mn ≠ 0 := by simpa using h0
        have h1 : mn ≠ 1 := by simpa using h1
        rw [matches_concat_append]
        constructor
        · rintro ⟨k, ha, hb⟩
          obtain ⟨m, hm1, _, hm⟩ := matches_simplify1.mp (matches_concat_singleton.mp hb)
          exact ⟨(mn - 1) + m, by have := (hm1 (by first | rfl | trivial)); omega, Or.inl (by omega), pow_add.mpr ⟨k, ha, hm⟩⟩
        · rintro ⟨n, hn, _, h⟩
          obtain ⟨k, ha, hb⟩ := pow_split (a := mn - 1) h (by omega)
          exact ⟨k, ha, matches_concat_singleton.mpr
            (matches_simplify1.mpr ⟨n - (mn - 1), fun _ => by omega, by simp, hb⟩)⟩
  · rename_i hmx
    have hmx : mx ≠ -1 := by simpa using hmx
    have wf' : (mn : Int) ≤ mx := by rcases wf with h | h; exact absurd h hmx; exact h
    split
    · rename_i h11
      simp only [Bool.and_eq_true, beq_iff_eq] at h11
      obtain ⟨rfl, rfl⟩ := h11
      constructor
      · intro h; exact ⟨1, Nat.le_refl _, Or.inr (by omega), pow_one.mpr h⟩
      · rintro ⟨n, h1, h2, h⟩
        have : n = 1 := by omega
        subst this; exact pow_one.mp h
    · split
      · rename_i hgt
        split
        · -- mn > 0 : xx…x(x(x)?)?
          rw [matches_concat_append]
          constructor
          · rintro ⟨k, ha, hb⟩
            obtain ⟨m, hm1, hm⟩ := matches_nestQuest.mp (matches_concat_singleton.mp hb)
            exact ⟨mn + m, by omega, Or.inr (by omega), pow_add.mpr ⟨k, ha, hm⟩⟩
          · rintro ⟨n, hn, h2, h⟩
            obtain ⟨k, ha, hb⟩ := pow_split (a := mn) h hn
            exact ⟨k, ha, matches_concat_singleton.mpr (matches_nestQuest.mpr ⟨n - mn, by omega, hb⟩)⟩
        · rename_i hz
          have hz : mn = 0 := by omega
          subst hz
          rw [matches_nestQuest]
          constructor
          · rintro ⟨n, hn, h⟩; exact ⟨n, Nat.zero_le _, Or.inr (by omega), h⟩
          · rintro ⟨n, _, h2, h⟩; exact ⟨n, by omega, h⟩
      · rename_i hngt
        have heq : mx = (mn : Int) := by omega
        split
        · constructor
          · intro h; exact ⟨mn, Nat.le_refl _, Or.inr (by omega), h⟩
          · rintro ⟨n, h1, h2, h⟩
            have : n = mn := by omega
            subst this; exact h
        · rename_i hz
          exfalso; apply h00; omega

mutual
/-- trees whose counted repetitions have bounds the parser can produce (`x{n,}` or `x{n,m}` with `n ≤ m`) -/
def WFRep : Re → Prop
  | .rep _ mn mx r => (mx = -1 ∨ (mn : Int) ≤ mx) ∧ WFRep r
  | .cap _ r | .star _ r | .plus _ r | .quest _ r => WFRep r
  | .concat rs | .alt rs => WFRepL rs
  | _ => True
def WFRepL : List Re → Prop
  | [] => True
  | r :: rs => WFRep r ∧ WFRepL rs
end

end ZoektModel.C27
