import ZoektModel.Basic.Proto
namespace ZoektModel.C27
/-- stub: no model driver for C27 yet -/
def main : IO Unit := ZoektModel.Proto.runLines (fun _ => ZoektModel.Proto.badCase "no model driver for C27")
end ZoektModel.C27
