import ZoektModel.Basic.Proto
import ZoektModel.C27.Spec
import ZoektModel.C27.Wire
namespace ZoektModel.C27
open ZoektModel ZoektModel.Proto ZoektModel.Regex ZoektModel.Regex.Wire

def stripPrefix? (p s : String) : Option String :=
  if s.startsWith p then some (s.drop p.length).toString else none

/-- impl output of a `fa` case: `o=<spans> p=<spans> z=<spans>` -/
def parseFaImpl (s : String) : Option (List (Nat × Nat) × List (Nat × Nat) × List (Nat × Nat)) :=
  match fields s with
  | [a, b, c] => do
    let o ← parseSpans (← stripPrefix? "o=" a)
    let p ← parseSpans (← stripPrefix? "p=" b)
    let z ← parseSpans (← stripPrefix? "z=" c)
    pure (o, p, z)
  | _ => none

/--
ops
  `print <tree> <np>`            → hex of the UTF-8 bytes of `RegexpString` (np = non-printable runes among those printed)
  `uncap <tree>`                 → `<tree of uncapture> hc=<hasCapture>`
  `simp <tree>`                  → `<tree of Simplify>`
  `wf <tree>`                    → `print=<0|1> rep=<0|1>`: the tree has the shape the theorems assume of parser output
  `fa <tree> <orbits> <subject>` → spec only: the three span lists of the implementation must be admissible for `tree`
-/
def handle (line : String) : String :=
  let (inp, impl) := splitCase line
  match fields inp with
  | ["print", t, np] =>
    match parseTree t, parseNats np with
    | some r, some np =>
      answer (bytesToHex (regexpString (fun c => !np.contains c) r).toUTF8.toList)
    | _, _ => badCase "print fields"
  | ["uncap", t] =>
    match parseTree t with
    | some r => answer s!"{showTree (uncapture r)} hc={showBit (hasCapture r)}"
    | none => badCase "uncap tree"
  | ["simp", t] =>
    match parseTree t with
    | some r => answer (showTree (simplify r))
    | none => badCase "simp tree"
  | ["wf", t] =>
    match parseTree t with
    | some r => answer s!"print={showBit (wfPrintB r)} rep={showBit (wfRepB r)}"
    | none => badCase "wf tree"
  | ["fa", t, orb, subj] =>
    match parseTree t, parseOrbits orb, parseNats subj, parseFaImpl impl with
    | some r, some tab, some s, some (o, p, z) =>
      match checkP (envOf tab) s.toArray r o p z with
      | none => answer impl
      | some key => specFail impl key
    | _, _, _, _ => badCase "fa fields"
  | _ => badCase "op"

def main : IO Unit := runLines handle
end ZoektModel.C27
