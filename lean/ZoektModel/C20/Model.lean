/-
C20 — model of search/sched.go: `multiScheduler.Acquire`, the closures `releaseFunc` / `yieldFunc`, `process.Yield`,
`process.Release`, `deadlineTimer`, `sema.Acquire/Release`, `newMultiScheduler`'s capacity arithmetic, and of the part of
`golang.org/x/sync/semaphore.Weighted` (v0.22.0) that the scheduler relies on.

Two layers, both in this file (core Lean only):

* the **small-step model** (`procStep`, `step`, `Reach`): one atomic action per transition, any interleaving. This is
  what the theorems of Props/C20.lean quantify over.  A search is a `Proc`; its control location `Loc` says where its
  goroutine is; `sem` is the closure variable `sem` of `Acquire` (`none` = `nil`).  The two semaphore counters are state
  (`curI`, `curB`), incremented only by `grant` (guarded by `cur < cap`, = `Weighted`'s `size - cur >= 1`) and
  decremented by `release` / `yield` / `giveBack`.  `Weighted.Release` panics ("released more than held") when the
  counter would go negative: `panicked`.
* the **director model** (`DState`, `dAcq`, `dCancel`, `dYield`, `dRelease`, `notify`): the deterministic strategy that
  the real code + `Weighted`'s FIFO queue follow when operations are issued one at a time; every operation is *defined*
  as a sequence of small steps (`do1`), so every state it reaches is `Reach`able by construction
  (Props/C20.lean: `dRun_reach`).  This layer is what the correspondence harness diffs against the real scheduler.
-/
namespace ZoektModel.C20

inductive Sem | I | B
  deriving DecidableEq, Repr

/-- where the goroutine of a search is -/
inductive Loc
  | idle     -- `Acquire` not called yet
  | waitI    -- inside `semInteractive.Acquire`, queued
  | wokenI   -- `semInteractive` counted it in (`cur += 1`, `close(ready)`), `Acquire` has not returned yet
  | failed   -- `Acquire` returned an error: there is no process
  | run      -- `Acquire` returned a `*process`; not inside the blocking part of `Yield`
  | waitB    -- inside `yieldFunc`: own slot (if any) released, queued on `semBatch`
  | wokenB   -- `semBatch` counted it in, `yieldFunc` has not returned yet
  deriving DecidableEq, Repr

structure Proc where
  loc : Loc
  sem : Option Sem     -- closure variable `sem` (`nil` = `none`)
  done : Bool          -- its context is done
  expired : Bool       -- `yieldTimer.Exceeded()` would be true (deadline fired, or the timer was stopped)
  yielded : Bool       -- `yieldTimer == nil`
  released : Bool      -- `Release` has been called
  grants : Nat         -- ghost: times a semaphore counted this search in
  rels : Nat           -- ghost: times this search gave a slot back
  errs : Nat           -- ghost: times `Acquire` / `Yield` returned an error to this search
  deriving Repr, DecidableEq

def Proc.fresh (done : Bool) : Proc := ⟨.idle, none, done, false, false, false, 0, 0, 0⟩

/-- search `p` is counted in semaphore `s` -/
def Proc.holds (p : Proc) (s : Sem) : Bool :=
  (p.sem == some s) ||
    (match s with
     | .I => p.loc == .wokenI
     | .B => p.loc == .wokenB)

inductive Kind
  | start     -- call `Acquire`: queue on the interactive semaphore
  | grant     -- the semaphore counts a queued search in (`Acquire` fast path, or `notifyWaiters`)
  | wake      -- the counted-in search returns `nil` from `sem.Acquire`
  | giveBack  -- the counted-in search finds its context done: puts the token back, returns `ctx.Err()`
  | abort     -- the queued search finds its context done: leaves the queue, returns `ctx.Err()`
  | cancel    -- the context becomes done
  | expire    -- the interactive deadline fires
  | yield     -- `Yield` with the time slice used up: `yieldFunc` releases `sem` (if non-nil) and queues on batch
  | release   -- `process.Release`
  deriving DecidableEq, Repr

inductive Eff | nop | inc (s : Sem) | dec (s : Sem)
  deriving DecidableEq, Repr

/-- One atomic action of one search.  `strict` = the client protocol "`Yield` is not called after `Release`"
    (true of every call site in search/shards.go, where `Release` is deferred). -/
def procStep (strict : Bool) (freeI freeB : Bool) (p : Proc) : Kind → Option (Proc × Eff)
  | .start => if p.loc = .idle then some ({ p with loc := .waitI }, .nop) else none
  | .grant =>
    match p.loc with
    | .waitI => if freeI then some ({ p with loc := .wokenI, grants := p.grants + 1 }, .inc .I) else none
    | .waitB => if freeB then some ({ p with loc := .wokenB, grants := p.grants + 1 }, .inc .B) else none
    | _ => none
  | .wake =>
    match p.loc with
    | .wokenI => some ({ p with loc := .run, sem := some .I }, .nop)
    | .wokenB => some ({ p with loc := .run, sem := some .B, yielded := true }, .nop)
    | _ => none
  | .giveBack =>
    if p.done then
      match p.loc with
      | .wokenI => some ({ p with loc := .failed, rels := p.rels + 1, errs := p.errs + 1 }, .dec .I)
      | .wokenB => some ({ p with loc := .run, rels := p.rels + 1, errs := p.errs + 1 }, .dec .B)
      | _ => none
    else none
  | .abort =>
    if p.done then
      match p.loc with
      | .waitI => some ({ p with loc := .failed, errs := p.errs + 1 }, .nop)
      | .waitB => some ({ p with loc := .run, errs := p.errs + 1 }, .nop)
      | _ => none
    else none
  | .cancel => some ({ p with done := true }, .nop)
  | .expire => some ({ p with expired := true }, .nop)
  | .yield =>
    if p.loc = .run ∧ p.yielded = false ∧ p.expired = true ∧ (strict = true → p.released = false) then
      match p.sem with
      | some s => some ({ p with loc := .waitB, sem := none, rels := p.rels + 1 }, .dec s)
      | none => some ({ p with loc := .waitB }, .nop)
    else none
  | .release =>
    if p.loc = .run then
      -- `Release` stops the timer (`t = nil`), after which `Exceeded()` reports true
      match p.sem with
      | some s => some ({ p with sem := none, released := true, expired := true, rels := p.rels + 1 }, .dec s)
      | none => some ({ p with released := true, expired := true }, .nop)
    else none

structure State where
  capI : Nat
  capB : Nat
  curI : Nat
  curB : Nat
  panicked : Bool       -- `Weighted.Release`: "semaphore: released more than held"
  procs : List Proc
  deriving Repr, DecidableEq

def State.applyEff (s : State) : Eff → State
  | .nop => s
  | .inc .I => { s with curI := s.curI + 1 }
  | .inc .B => { s with curB := s.curB + 1 }
  | .dec .I => if s.curI = 0 then { s with panicked := true } else { s with curI := s.curI - 1 }
  | .dec .B => if s.curB = 0 then { s with panicked := true } else { s with curB := s.curB - 1 }

def State.freeI (s : State) : Bool := decide (s.curI < s.capI)
def State.freeB (s : State) : Bool := decide (s.curB < s.capB)

/-- one transition of the system: search `pid` performs action `k` (`none` = not enabled) -/
def step (strict : Bool) (s : State) (pid : Nat) (k : Kind) : Option State :=
  if s.panicked then none else
  match s.procs[pid]? with
  | none => none
  | some p =>
    match procStep strict s.freeI s.freeB p k with
    | none => none
    | some (p', e) => some ({ s with procs := s.procs.set pid p' }.applyEff e)

/-- `newMultiScheduler`: batch capacity = capacity / batchdiv (default 4), at least 1 -/
def batchCap (capacity batchdiv : Nat) : Nat :=
  let d := if batchdiv = 0 then 4 else batchdiv
  let b := capacity / d
  if b = 0 then 1 else b

/-- initial state: `dones.length` searches that have not started; `dones` = which contexts are already done -/
def init (capI capB : Nat) (dones : List Bool) : State :=
  ⟨capI, capB, 0, 0, false, dones.map Proc.fresh⟩

/-- states reachable by any finite sequence of enabled actions = every schedule at this granularity -/
inductive Reach (strict : Bool) (s0 : State) : State → Prop
  | refl : Reach strict s0 s0
  | step {s s' : State} (pid : Nat) (k : Kind) : Reach strict s0 s → step strict s pid k = some s' → Reach strict s0 s'

/-- number of searches counted in semaphore `x` -/
def owners (s : State) (x : Sem) : Nat := s.procs.countP (·.holds x)

/-- a search that will take no further action unless a new call is made on it -/
def Proc.quiescent (p : Proc) : Bool :=
  p.loc == .idle || p.loc == .failed || (p.loc == .run && p.released)

/-- run an explicit action sequence (`none` as soon as an action is not enabled) -/
def runActs (strict : Bool) : State → List (Nat × Kind) → Option State
  | s, [] => some s
  | s, (pid, k) :: rest =>
    match step strict s pid k with
    | none => none
    | some s' => runActs strict s' rest

/-! ## director model: operations issued one at a time against the real scheduler -/

/-- apply a small step if it is enabled (it always is where the director uses it; if not, the state is kept and the
    correspondence shows the discrepancy) -/
def do1 (s : State) (pid : Nat) (k : Kind) : State :=
  match step false s pid k with
  | some s' => s'
  | none => s

structure DState where
  st : State
  qI : List Nat    -- `semInteractive.sem.waiters`, front first
  qB : List Nat
  deriving Repr

inductive Res | ok | err | blocked | none
  deriving DecidableEq, Repr

structure DOut where
  self : Res                      -- what the issued call did
  woke : List (Nat × Res)         -- other calls that returned as a consequence
  deriving Repr

def dInit (capacity batchdiv : Nat) (dones : List Bool) : DState :=
  ⟨init capacity (batchCap capacity batchdiv) dones, [], []⟩

def DState.q (d : DState) : Sem → List Nat
  | .I => d.qI
  | .B => d.qB

def DState.setQ (d : DState) (x : Sem) (q : List Nat) : DState :=
  match x with
  | .I => { d with qI := q }
  | .B => { d with qB := q }

def State.free (s : State) : Sem → Bool
  | .I => s.freeI
  | .B => s.freeB

/-- `Weighted.notifyWaiters` for weight-1 waiters: count in queued searches, front first, while tokens are left -/
def notifyAux (x : Sem) : State → List Nat → State × List Nat × List (Nat × Res)
  | s, [] => (s, [], [])
  | s, h :: t =>
    if s.free x then
      let s1 := do1 (do1 s h .grant) h .wake
      let (s2, q, w) := notifyAux x s1 t
      (s2, q, (h, .ok) :: w)
    else (s, h :: t, [])

def notify (d : DState) (x : Sem) : DState × List (Nat × Res) :=
  let (s, q, w) := notifyAux x d.st (d.q x)
  (({ d with st := s }).setQ x q, w)

/-- `Weighted.Acquire(ctx, 1)` by search `pid` which is already in `waitI` / `waitB` location-wise:
    fail if the context is done, take a token if one is free and nobody queues, else queue. -/
def semAcquire (d : DState) (x : Sem) (pid : Nat) : DState × Res :=
  match d.st.procs[pid]? with
  | none => (d, .none)
  | some p =>
    if p.done then ({ d with st := do1 d.st pid .abort }, .err)
    else if d.st.free x && (d.q x).isEmpty then
      ({ d with st := do1 (do1 d.st pid .grant) pid .wake }, .ok)
    else (d.setQ x (d.q x ++ [pid]), .blocked)

/-- `multiScheduler.Acquire(ctx)` -/
def dAcq (d : DState) (pid : Nat) : DState × DOut :=
  let d1 := { d with st := do1 d.st pid .start }
  let (d2, r) := semAcquire d1 .I pid
  (d2, ⟨r, []⟩)

/-- the context of `pid` is cancelled; a queued call of `pid` returns `ctx.Err()`
    (`Weighted.Acquire`'s `<-done` branch: remove the waiter; if it was at the front and tokens are left, notify) -/
def dCancel (d : DState) (pid : Nat) : DState × DOut :=
  let d1 := { d with st := do1 d.st pid .cancel }
  let leave (x : Sem) : DState × DOut :=
    let q := d1.q x
    let front := q.head? == some pid
    let d2 := ({ d1 with st := do1 d1.st pid .abort }).setQ x (q.erase pid)
    if front && d2.st.free x then
      let (d3, w) := notify d2 x
      (d3, ⟨.none, (pid, .err) :: w⟩)
    else (d2, ⟨.none, [(pid, .err)]⟩)
  if d1.qI.contains pid then leave .I
  else if d1.qB.contains pid then leave .B
  else (d1, ⟨.none, []⟩)

/-- the deadline of `pid` fires -/
def dExpire (d : DState) (pid : Nat) : DState × DOut :=
  ({ d with st := do1 d.st pid .expire }, ⟨.none, []⟩)

/-- `process.Yield(ctx)` -/
def dYield (d : DState) (pid : Nat) : DState × DOut :=
  match d.st.procs[pid]? with
  | none => (d, ⟨.none, []⟩)
  | some p =>
    if p.loc ≠ .run then (d, ⟨.none, []⟩)
    else if p.yielded || !p.expired then (d, ⟨.ok, []⟩)
    else
      -- yieldFunc: `if sem != nil { sem.Release(); sem = nil }`, then `semBatch.Acquire(ctx)`
      let d1 := { d with st := do1 d.st pid .yield }
      let (d2, w) := match p.sem with
        | some x => notify d1 x
        | none => (d1, [])
      let (d3, r) := semAcquire d2 .B pid
      (d3, ⟨r, w⟩)

/-- `process.Release()` -/
def dRelease (d : DState) (pid : Nat) : DState × DOut :=
  match d.st.procs[pid]? with
  | none => (d, ⟨.none, []⟩)
  | some p =>
    if p.loc ≠ .run then (d, ⟨.none, []⟩)
    else
      let d1 := { d with st := do1 d.st pid .release }
      match p.sem with
      | some x => let (d2, w) := notify d1 x; (d2, ⟨.none, w⟩)
      | none => (d1, ⟨.none, []⟩)

inductive Op
  | acq (p : Nat) | cancel (p : Nat) | expire (p : Nat) | yield (p : Nat) | rel (p : Nat)
  deriving DecidableEq, Repr

def Op.pid : Op → Nat
  | .acq p | .cancel p | .expire p | .yield p | .rel p => p

def dStep (d : DState) : Op → DState × DOut
  | .acq p => dAcq d p
  | .cancel p => dCancel d p
  | .expire p => dExpire d p
  | .yield p => dYield d p
  | .rel p => dRelease d p

/-- what the harness observes after each operation -/
structure Obs where
  out : DOut
  curI : Nat
  curB : Nat
  waitI : Nat
  waitB : Nat
  /-- searches whose context became done *during* this operation without anybody cancelling it from outside: the
      harness gives some searches a "tripwire" context that cancels itself the moment its `Err()` is consulted while it
      is not done. `multiScheduler` and `semaphore.Weighted` only consult `Err()` on their failure paths (after `Done()`
      was seen closed), so the model never reports any; code that re-examines the context after the semaphore granted
      the slot makes the cancellation land exactly between "slot granted" and "call returns". -/
  fired : List Nat := []
  deriving Repr

def dRun : DState → List Op → DState × List Obs
  | d, [] => (d, [])
  | d, op :: rest =>
    let (d1, o) := dStep d op
    let (d2, os) := dRun d1 rest
    (d2, ⟨o, d1.st.curI, d1.st.curB, d1.qI.length, d1.qB.length, []⟩ :: os)

end ZoektModel.C20
