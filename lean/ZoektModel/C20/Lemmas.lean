import ZoektModel.C20.Spec
namespace ZoektModel.C20

theorem countP_set' {α} (f : α → Bool) : ∀ (l : List α) (i : Nat) (a : α) (h : i < l.length),
    (l.set i a).countP f + (if f l[i] then 1 else 0) = l.countP f + (if f a then 1 else 0) := by
  intro l
  induction l with
  | nil => intro i a h; simp at h
  | cons x t ih =>
    intro i a h
    cases i with
    | zero => simp [List.countP_cons]; omega
    | succ j =>
      have := ih j a (by simpa using h)
      simp [List.countP_cons] at this ⊢
      omega

/-- per-search invariant -/
def ProcOK (p : Proc) : Prop :=
  (p.sem ≠ none → p.loc = .run) ∧
  p.grants = p.rels + (if p.holds .I || p.holds .B then 1 else 0) ∧
  ¬ (p.holds .I = true ∧ p.holds .B = true) ∧
  ((0 < p.errs ∨ p.loc = .failed) → p.done = true)

/-- what one action does to the search's ownership, by effect -/
def EffSpec (fI fB : Bool) (p p' : Proc) : Eff → Prop
  | .nop => p'.holds .I = p.holds .I ∧ p'.holds .B = p.holds .B
  | .inc .I => fI = true ∧ p.holds .I = false ∧ p'.holds .I = true ∧ p'.holds .B = p.holds .B
  | .inc .B => fB = true ∧ p.holds .B = false ∧ p'.holds .B = true ∧ p'.holds .I = p.holds .I
  | .dec .I => p.holds .I = true ∧ p'.holds .I = false ∧ p'.holds .B = p.holds .B
  | .dec .B => p.holds .B = true ∧ p'.holds .B = false ∧ p'.holds .I = p.holds .I

theorem procStep_spec (strict fI fB : Bool) (p p' : Proc) (k : Kind) (e : Eff)
    (h : procStep strict fI fB p k = some (p', e)) (ok : ProcOK p) :
    ProcOK p' ∧ EffSpec fI fB p p' e := by
  obtain ⟨loc, sem, done, expired, yielded, released, grants, rels, errs⟩ := p
  cases k <;> cases loc <;> rcases sem with _ | (_ | _) <;> simp [procStep] at h <;>
    (first
      | (obtain ⟨rfl, rfl⟩ := h)
      | (obtain ⟨hg, rfl, rfl⟩ := h)) <;>
    simp_all [ProcOK, EffSpec, Proc.holds] <;> (first | omega | decide)

/-- the system invariant -/
structure Inv (s : State) : Prop where
  ok : ∀ p ∈ s.procs, ProcOK p
  eqI : s.curI = owners s .I
  eqB : s.curB = owners s .B
  leI : s.curI ≤ s.capI
  leB : s.curB ≤ s.capB
  np : s.panicked = false

theorem step_some {strict : Bool} {s s' : State} {pid : Nat} {k : Kind} (hs : step strict s pid k = some s') :
    s.panicked = false ∧ ∃ (h : pid < s.procs.length) (p' : Proc) (e : Eff),
      procStep strict s.freeI s.freeB s.procs[pid] k = some (p', e) ∧
      s' = ({ s with procs := s.procs.set pid p' }).applyEff e := by
  unfold step at hs
  split at hs
  · simp at hs
  · rename_i hp
    split at hs
    · simp at hs
    · rename_i p hget
      split at hs
      · simp at hs
      · rename_i p' e hstep
        obtain ⟨h, rfl⟩ := List.getElem?_eq_some_iff.mp hget
        refine ⟨by simpa using hp, h, p', e, hstep, ?_⟩
        simpa using hs.symm

theorem owners_set (s : State) (pid : Nat) (p' : Proc) (h : pid < s.procs.length) (x : Sem) :
    owners { s with procs := s.procs.set pid p' } x + (if s.procs[pid].holds x = true then 1 else 0)
      = owners s x + (if p'.holds x = true then 1 else 0) := by
  have := countP_set' (fun q : Proc => q.holds x) s.procs pid p' h
  simpa [owners] using this

theorem step_inv {strict : Bool} {s s' : State} {pid : Nat} {k : Kind} (h : Inv s)
    (hs : step strict s pid k = some s') : Inv s' := by
  obtain ⟨hnp, hlt, p', e, hstep, rfl⟩ := step_some hs
  have hp := h.ok _ (List.getElem_mem hlt)
  obtain ⟨hok', heff⟩ := procStep_spec _ _ _ _ _ _ _ hstep hp
  have hI := owners_set s pid p' hlt .I
  have hB := owners_set s pid p' hlt .B
  have hmem : ∀ q ∈ s.procs.set pid p', ProcOK q := by
    intro q hq
    rcases List.mem_or_eq_of_mem_set hq with hq | rfl
    · exact h.ok q hq
    · exact hok'
  have ⟨_, e1, e2, l1, l2, n⟩ := h
  rcases e with _ | (_ | _) | (_ | _) <;>
    simp only [EffSpec, State.freeI, State.freeB, decide_eq_true_eq] at heff
  · obtain ⟨h1, h2⟩ := heff
    simp only [h1, h2] at hI hB
    exact ⟨hmem, by show s.curI = owners { s with procs := s.procs.set pid p' } .I; omega, by show s.curB = owners { s with procs := s.procs.set pid p' } .B; omega, l1, l2, n⟩
  · obtain ⟨h0, h1, h2, h3⟩ := heff
    simp only [h1, h2, h3, ↓reduceIte, Bool.false_eq_true] at hI hB
    exact ⟨hmem, by show s.curI + 1 = owners { s with procs := s.procs.set pid p' } .I; omega, by show s.curB = owners { s with procs := s.procs.set pid p' } .B; omega, by show s.curI + 1 ≤ s.capI; omega, l2, n⟩
  · obtain ⟨h0, h1, h2, h3⟩ := heff
    simp only [h1, h2, h3, ↓reduceIte, Bool.false_eq_true] at hI hB
    exact ⟨hmem, by show s.curI = owners { s with procs := s.procs.set pid p' } .I; omega, by show s.curB + 1 = owners { s with procs := s.procs.set pid p' } .B; omega, l1, by show s.curB + 1 ≤ s.capB; omega, n⟩
  · obtain ⟨h1, h2, h3⟩ := heff
    simp only [h1, h2, h3, ↓reduceIte, Bool.false_eq_true] at hI hB
    have hne : s.curI ≠ 0 := by omega
    simp only [State.applyEff, if_neg hne]
    exact ⟨hmem, by show s.curI - 1 = owners { s with procs := s.procs.set pid p' } .I; omega, by show s.curB = owners { s with procs := s.procs.set pid p' } .B; omega, by show s.curI - 1 ≤ s.capI; omega, l2, n⟩
  · obtain ⟨h1, h2, h3⟩ := heff
    simp only [h1, h2, h3, ↓reduceIte, Bool.false_eq_true] at hI hB
    have hne : s.curB ≠ 0 := by omega
    simp only [State.applyEff, if_neg hne]
    exact ⟨hmem, by show s.curI = owners { s with procs := s.procs.set pid p' } .I; omega, by show s.curB - 1 = owners { s with procs := s.procs.set pid p' } .B; omega, l1, by show s.curB - 1 ≤ s.capB; omega, n⟩

theorem fresh_ok (d : Bool) : ProcOK (Proc.fresh d) := by
  simp [ProcOK, Proc.fresh, Proc.holds]

theorem countP_fresh (x : Sem) (dones : List Bool) : (dones.map Proc.fresh).countP (·.holds x) = 0 := by
  induction dones with
  | nil => rfl
  | cons d t ih => cases x <;> simp_all [List.countP_cons, Proc.fresh, Proc.holds]

theorem init_inv (capI capB : Nat) (dones : List Bool) : Inv (init capI capB dones) := by
  refine ⟨?_, ?_, ?_, by simp [init], by simp [init], rfl⟩
  · intro p hp
    simp only [init, List.mem_map] at hp
    obtain ⟨d, _, rfl⟩ := hp
    exact fresh_ok d
  · simp only [init, owners]; rw [countP_fresh]
  · simp only [init, owners]; rw [countP_fresh]

theorem reach_inv {strict : Bool} {s0 s : State} (h0 : Inv s0) (hr : Reach strict s0 s) : Inv s := by
  induction hr with
  | refl => exact h0
  | step pid k _ hs ih => exact step_inv ih hs

/-! ### protocol-conforming clients (`strict = true`): after `Release` a search holds nothing, for good -/

def RelOK (p : Proc) : Prop := p.released = true → p.loc = .run ∧ p.sem = none

theorem procStep_rel (fI fB : Bool) (p p' : Proc) (k : Kind) (e : Eff)
    (h : procStep true fI fB p k = some (p', e)) (ok : RelOK p) : RelOK p' := by
  obtain ⟨loc, sem, done, expired, yielded, released, grants, rels, errs⟩ := p
  cases k <;> cases loc <;> rcases sem with _ | (_ | _) <;> simp [procStep] at h <;>
    (first
      | (obtain ⟨rfl, rfl⟩ := h)
      | (obtain ⟨hg, rfl, rfl⟩ := h)) <;>
    simp_all [RelOK]

theorem step_rel {s s' : State} {pid : Nat} {k : Kind} (h : ∀ p ∈ s.procs, RelOK p)
    (hs : step true s pid k = some s') : ∀ p ∈ s'.procs, RelOK p := by
  obtain ⟨_, hlt, p', e, hstep, rfl⟩ := step_some hs
  have hp := procStep_rel _ _ _ _ _ _ hstep (h _ (List.getElem_mem hlt))
  have hprocs : (({ s with procs := s.procs.set pid p' } : State).applyEff e).procs = s.procs.set pid p' := by
    rcases e with _ | (_ | _) | (_ | _) <;> simp only [State.applyEff] <;> (try split) <;> rfl
  intro q hq
  rw [hprocs] at hq
  rcases List.mem_or_eq_of_mem_set hq with hq | rfl
  · exact h q hq
  · exact hp

theorem reach_rel {s0 s : State} (h0 : ∀ p ∈ s0.procs, RelOK p) (hr : Reach true s0 s) : ∀ p ∈ s.procs, RelOK p := by
  induction hr with
  | refl => exact h0
  | step pid k _ hs ih => exact step_rel ih hs

theorem init_rel (capI capB : Nat) (dones : List Bool) : ∀ p ∈ (init capI capB dones).procs, RelOK p := by
  intro p hp
  simp only [init, List.mem_map] at hp
  obtain ⟨d, _, rfl⟩ := hp
  simp [RelOK, Proc.fresh]

theorem quiescent_holds_nothing (p : Proc) (x : Sem) (h1 : ProcOK p) (h2 : RelOK p) (hq : p.quiescent = true) :
    p.holds x = false := by
  obtain ⟨loc, sem, done, expired, yielded, released, grants, rels, errs⟩ := p
  cases loc <;> rcases sem with _ | (_ | _) <;> cases x <;> cases released <;>
    simp_all [ProcOK, RelOK, Proc.quiescent, Proc.holds] <;> decide

theorem countP_eq_zero_of {α} (f : α → Bool) (l : List α) (h : ∀ a ∈ l, f a = false) : l.countP f = 0 := by
  induction l with
  | nil => rfl
  | cons a t ih =>
    have := h a (by simp)
    simp [List.countP_cons, this, ih (fun b hb => h b (by simp [hb]))]

/-! ### the director model only takes small steps -/

theorem do1_reach {s0 s : State} (pid : Nat) (k : Kind) (h : Reach false s0 s) : Reach false s0 (do1 s pid k) := by
  unfold do1
  split
  · rename_i s' hs; exact Reach.step pid k h hs
  · exact h

theorem notifyAux_reach {s0 : State} (x : Sem) : ∀ (q : List Nat) (s : State), Reach false s0 s →
    Reach false s0 (notifyAux x s q).1 := by
  intro q
  induction q with
  | nil => intro s h; exact h
  | cons hd t ih =>
    intro s h
    unfold notifyAux
    split
    · exact ih _ (do1_reach _ _ (do1_reach _ _ h))
    · exact h

theorem setQ_st (d : DState) (x : Sem) (q : List Nat) : (d.setQ x q).st = d.st := by
  cases x <;> rfl

theorem notify_reach {s0 : State} (d : DState) (x : Sem) (h : Reach false s0 d.st) :
    Reach false s0 (notify d x).1.st := by
  unfold notify
  simp only [setQ_st]
  exact notifyAux_reach x _ _ h

theorem semAcquire_reach {s0 : State} (d : DState) (x : Sem) (pid : Nat) (h : Reach false s0 d.st) :
    Reach false s0 (semAcquire d x pid).1.st := by
  unfold semAcquire
  split
  · exact h
  · split
    · exact do1_reach _ _ h
    · split
      · exact do1_reach _ _ (do1_reach _ _ h)
      · simpa [setQ_st] using h

theorem dStep_reach {s0 : State} (d : DState) (op : Op) (h : Reach false s0 d.st) :
    Reach false s0 (dStep d op).1.st := by
  cases op with
  | acq p =>
    simp only [dStep, dAcq]
    exact semAcquire_reach _ _ _ (do1_reach _ _ h)
  | cancel p =>
    simp only [dStep, dCancel]
    have h1 := do1_reach p .cancel h
    split
    · split
      · exact notify_reach _ _ (by simpa [setQ_st] using do1_reach p .abort h1)
      · simpa [setQ_st] using do1_reach p .abort h1
    · split
      · split
        · exact notify_reach _ _ (by simpa [setQ_st] using do1_reach p .abort h1)
        · simpa [setQ_st] using do1_reach p .abort h1
      · exact h1
  | expire p => exact do1_reach _ _ h
  | yield p =>
    simp only [dStep, dYield]
    split
    · exact h
    · split
      · exact h
      · split
        · exact h
        · have h1 := do1_reach p .yield h
          split
          · exact semAcquire_reach _ _ _ (notify_reach _ _ h1)
          · exact semAcquire_reach _ _ _ h1
  | rel p =>
    simp only [dStep, dRelease]
    split
    · exact h
    · split
      · exact h
      · have h1 := do1_reach p .release h
        split
        · exact notify_reach _ _ h1
        · exact h1

theorem runActs_reach {strict : Bool} {s0 : State} : ∀ (acts : List (Nat × Kind)) (s s' : State),
    Reach strict s0 s → runActs strict s acts = some s' → Reach strict s0 s' := by
  intro acts
  induction acts with
  | nil => intro s s' h hr; simp [runActs] at hr; exact hr ▸ h
  | cons a t ih =>
    intro s s' h hr
    obtain ⟨pid, k⟩ := a
    simp only [runActs] at hr
    split at hr
    · simp at hr
    · rename_i s1 hs; exact ih s1 s' (Reach.step pid k h hs) hr

/-! ### errors reported by the director model -/

/-- the context of search `i` is done -/
def doneAt (s : State) (i : Nat) : Prop := ∃ p, s.procs[i]? = some p ∧ p.done = true

theorem procStep_done (strict fI fB : Bool) (p p' : Proc) (k : Kind) (e : Eff)
    (h : procStep strict fI fB p k = some (p', e)) (hd : p.done = true) : p'.done = true := by
  obtain ⟨loc, sem, done, expired, yielded, released, grants, rels, errs⟩ := p
  cases k <;> cases loc <;> rcases sem with _ | (_ | _) <;> simp [procStep] at h <;>
    (first
      | (obtain ⟨rfl, rfl⟩ := h)
      | (obtain ⟨hg, rfl, rfl⟩ := h)) <;>
    simp_all

theorem applyEff_procs (s : State) (e : Eff) : (s.applyEff e).procs = s.procs := by
  rcases e with _ | (_ | _) | (_ | _) <;> simp only [State.applyEff] <;> (try split) <;> rfl

theorem step_doneAt {strict : Bool} {s s' : State} {pid : Nat} {k : Kind} (hs : step strict s pid k = some s')
    (i : Nat) (h : doneAt s i) : doneAt s' i := by
  obtain ⟨_, hlt, p', e, hstep, rfl⟩ := step_some hs
  obtain ⟨p, hp, hd⟩ := h
  unfold doneAt
  rw [applyEff_procs]
  by_cases hi : i = pid
  · subst hi
    have : s.procs[i] = p := by
      have := List.getElem?_eq_getElem hlt
      rw [this] at hp; exact Option.some.inj hp
    rw [this] at hstep
    exact ⟨p', by simp [hlt], procStep_done _ _ _ _ _ _ _ hstep hd⟩
  · exact ⟨p, by rw [List.getElem?_set_ne (fun h => hi h.symm)]; exact hp, hd⟩

theorem do1_doneAt (s : State) (pid : Nat) (k : Kind) (i : Nat) (h : doneAt s i) : doneAt (do1 s pid k) i := by
  unfold do1
  split
  · rename_i s' hs; exact step_doneAt hs i h
  · exact h

theorem do1_cancel_doneAt (s : State) (pid : Nat) (hp : s.panicked = false) (hlt : pid < s.procs.length) :
    doneAt (do1 s pid .cancel) pid := by
  unfold do1 step
  simp only [hp, Bool.false_eq_true, ↓reduceIte, List.getElem?_eq_getElem hlt, procStep, State.applyEff]
  exact ⟨{ s.procs[pid] with done := true }, by simp [hlt], rfl⟩

theorem notifyAux_doneAt (x : Sem) (i : Nat) : ∀ (q : List Nat) (s : State), doneAt s i → doneAt (notifyAux x s q).1 i := by
  intro q
  induction q with
  | nil => intro s h; exact h
  | cons hd t ih =>
    intro s h
    unfold notifyAux
    split
    · exact ih _ (do1_doneAt _ _ _ _ (do1_doneAt _ _ _ _ h))
    · exact h

theorem notifyAux_woke_ok (x : Sem) : ∀ (q : List Nat) (s : State), ∀ w ∈ (notifyAux x s q).2.2, w.2 = .ok := by
  intro q
  induction q with
  | nil => intro s w hw; simp [notifyAux] at hw
  | cons hd t ih =>
    intro s w hw
    unfold notifyAux at hw
    split at hw
    · simp only [List.mem_cons] at hw
      rcases hw with rfl | hw
      · rfl
      · exact ih _ w hw
    · simp at hw

theorem notify_doneAt (d : DState) (x : Sem) (i : Nat) (h : doneAt d.st i) : doneAt (notify d x).1.st i := by
  unfold notify
  simp only [setQ_st]
  exact notifyAux_doneAt x i _ _ h

theorem notify_woke_ok (d : DState) (x : Sem) : ∀ w ∈ (notify d x).2, w.2 = .ok := by
  unfold notify
  exact notifyAux_woke_ok x _ _

theorem semAcquire_doneAt (d : DState) (x : Sem) (pid i : Nat) (h : doneAt d.st i) :
    doneAt (semAcquire d x pid).1.st i := by
  unfold semAcquire
  split
  · exact h
  · split
    · exact do1_doneAt _ _ _ _ h
    · split
      · exact do1_doneAt _ _ _ _ (do1_doneAt _ _ _ _ h)
      · simpa [setQ_st] using h

theorem semAcquire_err (d : DState) (x : Sem) (pid : Nat) (h : (semAcquire d x pid).2 = .err) :
    doneAt (semAcquire d x pid).1.st pid := by
  unfold semAcquire at h ⊢
  split
  · rename_i hn; simp [hn] at h
  · rename_i p hp
    simp only [hp] at h
    split
    · rename_i hd
      exact do1_doneAt _ _ _ _ ⟨p, hp, hd⟩
    · rename_i hd
      simp only [hd, Bool.false_eq_true, ↓reduceIte] at h
      split at h <;> cases h

end ZoektModel.C20
