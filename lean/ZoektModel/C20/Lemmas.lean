import ZoektModel.C20.Spec
namespace ZoektModel.C20
end ZoektModel.C20
