/-
C20 — the property as an executable predicate over what an outside observer sees: the calls made on the scheduler
(`Op`), what each call did (returned nil / returned an error / is blocked), which blocked calls returned as a
consequence, and the occupancy of the two semaphores after each call.

Written from the statement, not from the code: the observer keeps a ledger of which search owns which kind of slot
(`Book`), using only the documented meaning of the calls:

* `Acquire` returning nil gives the search an interactive slot;
* `Yield` does something only once, after the interactive time slice is used up (or the timer was stopped by
  `Release`); it gives the slot back and returns nil with a batch slot, or returns an error with no slot;
* `Release` gives back whatever the search holds.

Clauses (key of the first one that fails):
* `over-capacity`        at any time at most `capI` interactive and `capB` batch slots are held;
* `held-ne-owners`       the semaphores' occupancy equals the ledger: every acquired slot is released exactly once,
                         whether the search finished, was cancelled while waiting or moved to the batch queue;
                         the numbers of queued searches agree as well;
* `spurious-failure`     an acquisition (`Acquire`, or the batch acquisition inside `Yield`) fails only when its context
                         is done;
* `leak-at-quiescence`   when no search is running or waiting, both semaphores are empty;
* `bad-event`            a call returned that the ledger says was not pending (double return).

A context may become done *while* a call is in progress (`Obs.fired`); the call may then fail or succeed, but either way
the ledger must still agree with the semaphores: a call that fails after the semaphore granted it a slot must have put
the slot back.
-/
import ZoektModel.C20.Model
namespace ZoektModel.C20

inductive BSt | idle | waitI | holdI | waitB | holdB | off | failed
  deriving DecidableEq, Repr

structure Book where
  st : BSt := .idle
  cancelled : Bool := false
  expired : Bool := false
  yielded : Bool := false
  released : Bool := false
  deriving Repr

abbrev Ledger := List Book

def Ledger.upd (l : Ledger) (p : Nat) (f : Book → Book) : Ledger :=
  match l[p]? with
  | some b => l.set p (f b)
  | none => l

def Ledger.count (l : Ledger) (s : BSt) : Nat := l.countP (·.st == s)

/-- a blocked call of search `p` returned with `r` -/
def applyReturn (l : Ledger) (p : Nat) (r : Res) : Except String Ledger :=
  match l[p]? with
  | none => .error "bad-event"
  | some b =>
    match b.st, r with
    | .waitI, .ok => .ok (l.set p { b with st := .holdI })
    | .waitB, .ok => .ok (l.set p { b with st := .holdB, yielded := true })
    | .waitI, .err => if b.cancelled then .ok (l.set p { b with st := .failed }) else .error "spurious-failure"
    | .waitB, .err => if b.cancelled then .ok (l.set p { b with st := .off }) else .error "spurious-failure"
    | _, _ => .error "bad-event"

def applyReturns (l : Ledger) : List (Nat × Res) → Except String Ledger
  | [] => .ok l
  | (p, r) :: rest =>
    match applyReturn l p r with
    | .error e => .error e
    | .ok l' => applyReturns l' rest

/-- the issued call itself -/
def applySelf (l : Ledger) (op : Op) (r : Res) : Except String Ledger :=
  match l[op.pid]? with
  | none => .error "bad-event"
  | some b =>
    let p := op.pid
    match op with
    | .acq _ =>
      if b.st ≠ .idle then .error "bad-event" else
      match r with
      | .ok => .ok (l.set p { b with st := .holdI })
      | .blocked => .ok (l.set p { b with st := .waitI })
      | .err => if b.cancelled then .ok (l.set p { b with st := .failed }) else .error "spurious-failure"
      | .none => .error "bad-event"
    | .cancel _ => if r = .none then .ok (l.set p { b with cancelled := true }) else .error "bad-event"
    | .expire _ => if r = .none then .ok (l.set p { b with expired := true }) else .error "bad-event"
    | .rel _ =>
      if r ≠ .none then .error "bad-event" else
      match b.st with
      | .holdI | .holdB | .off => .ok (l.set p { b with st := .off, released := true })
      | _ => .error "bad-event"
    | .yield _ =>
      match b.st with
      | .holdI | .holdB | .off =>
        if b.yielded || !(b.expired || b.released) then
          -- nothing to do: must return nil and change nothing
          if r = .ok then .ok l else .error "spurious-failure"
        else
          match r with
          | .ok => .ok (l.set p { b with st := .holdB, yielded := true })
          | .blocked => .ok (l.set p { b with st := .waitB })
          | .err => if b.cancelled then .ok (l.set p { b with st := .off }) else .error "spurious-failure"
          | .none => .error "bad-event"
      | _ => .error "bad-event"

def Book.quiescent (b : Book) : Bool :=
  b.st == .idle || b.st == .failed || (b.st == .off && b.released)

def checkObs (capI capB : Nat) (l : Ledger) (o : Obs) : Except String Unit :=
  if o.curI > capI || o.curB > capB then .error "over-capacity"
  else if o.curI ≠ l.count .holdI || o.curB ≠ l.count .holdB then .error "held-ne-owners"
  else if o.waitI ≠ l.count .waitI || o.waitB ≠ l.count .waitB then .error "held-ne-owners"
  else if l.all Book.quiescent && (o.curI ≠ 0 || o.curB ≠ 0) then .error "leak-at-quiescence"
  else .ok ()

/-- contexts that became done during the operation (`Obs.fired`): from now on a failure of these searches is not
    spurious -/
def markFired (l : Ledger) (fired : List Nat) : Ledger :=
  fired.foldl (fun acc p => acc.upd p fun b => { b with cancelled := true }) l

def checkSteps (capI capB : Nat) : Ledger → List Op → List Obs → Except String Unit
  | _, [], [] => .ok ()
  | l, op :: ops, o :: os =>
    -- `cancel` (and a context that became done during the call) is recorded before the returns it causes
    let l := markFired l o.fired
    match applySelf l op o.out.self with
    | .error e => .error e
    | .ok l1 =>
      match applyReturns l1 o.out.woke with
      | .error e => .error e
      | .ok l2 =>
        match checkObs capI capB l2 o with
        | .error e => .error e
        | .ok () => checkSteps capI capB l2 ops os
  | _, _, _ => .error "bad-event"

/-- the statement of C20 on one observed run: `none` = holds, `some key` = the clause that fails -/
def checkRun (capI capB : Nat) (dones : List Bool) (ops : List Op) (obs : List Obs) : Option String :=
  match checkSteps capI capB (dones.map fun d => { cancelled := d }) ops obs with
  | .ok () => none
  | .error e => some e

def checkP (capI capB : Nat) (dones : List Bool) (ops : List Op) (obs : List Obs) : Bool :=
  (checkRun capI capB dones ops obs).isNone

/-! ## trace validation: events logged by concurrently running searches

Each search logs `acqOk` / `yieldOk` *after* the real call returned and `yieldBegin` / `release` *before* making the
real call, all under one log mutex; so in log order every logged holding interval lies inside the real one, and a
correct scheduler's log is a path of the small-step model (protocol-conforming searches: `strict = true`).
`snap a b` is an exact reading of the two real counters taken at a moment when no search was between a real call and
its log entry, so it must equal the model's counters. -/

inductive Ev
  | acqOk (p : Nat) | acqErr (p : Nat) | cancel (p : Nat) | yieldBegin (p : Nat) | yieldOk (p : Nat)
  | yieldErr (p : Nat) | release (p : Nat) | snap (a b : Nat)
  deriving DecidableEq, Repr

def Ev.acts : Ev → List (Nat × Kind)
  | .acqOk p => [(p, .start), (p, .grant), (p, .wake)]
  | .acqErr p => [(p, .start), (p, .abort)]
  | .cancel p => [(p, .cancel)]
  | .yieldBegin p => [(p, .expire), (p, .yield)]
  | .yieldOk p => [(p, .grant), (p, .wake)]
  | .yieldErr p => [(p, .abort)]
  | .release p => [(p, .release)]
  | .snap _ _ => []

/-- replay a log on the small-step model; `.error (i, why)` = event `i` is not a step of the model -/
def replay : State → List Ev → Nat → Except (Nat × String) State
  | s, [], _ => .ok s
  | s, e :: rest, i =>
    match e with
    | .snap a b =>
      if s.curI = a ∧ s.curB = b then replay s rest (i + 1) else .error (i, "held-ne-owners")
    | _ =>
      match runActs true s e.acts with
      | some s' => replay s' rest (i + 1)
      | none =>
        let why := match e with
          | .acqOk _ | .yieldOk _ => "over-capacity"
          | .acqErr _ | .yieldErr _ => "spurious-failure"
          | _ => "bad-event"
        .error (i, why)

end ZoektModel.C20
