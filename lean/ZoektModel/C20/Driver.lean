import ZoektModel.Basic.Proto
import ZoektModel.C20.Spec
namespace ZoektModel.C20
open ZoektModel ZoektModel.Proto

def parsePid (s : String) : Option Nat := s.toNat?

/-- ops: `a0,c1,x0,y0,r0` (a = Acquire, c = cancel, x = deadline fires, y = Yield, r = Release), `-` = none -/
def parseOp (s : String) : Option Op :=
  match s.toList with
  | c :: rest =>
    match (String.ofList rest).toNat? with
    | none => none
    | some p =>
      if c = 'a' then some (.acq p) else if c = 'c' then some (.cancel p) else if c = 'x' then some (.expire p)
      else if c = 'y' then some (.yield p) else if c = 'r' then some (.rel p) else none
  | [] => none

def parseOps (s : String) : Option (List Op) :=
  if s == "-" then some [] else (s.splitOn ",").mapM parseOp

def parseBits (s : String) : Option (List Bool) :=
  if s == "-" then some [] else s.toList.mapM fun c => if c = '1' then some true else if c = '0' then some false else none

def showRes : Res → String
  | .ok => "o" | .err => "e" | .blocked => "b" | .none => "-"

def parseRes (s : String) : Option Res :=
  if s == "o" then some .ok else if s == "e" then some .err else if s == "b" then some .blocked
  else if s == "-" then some .none else none

def showWoke (w : List (Nat × Res)) : String :=
  if w.isEmpty then "-" else "+".intercalate (w.map fun (p, r) => s!"{p}{showRes r}")

def parseWoke (s : String) : Option (List (Nat × Res)) :=
  if s == "-" then some [] else
  (s.splitOn "+").mapM fun e =>
    let cs := e.toList
    match cs.reverse with
    | c :: rest => do
      let p ← (String.ofList rest.reverse).toNat?
      let r ← parseRes (String.singleton c)
      pure (p, r)
    | [] => none

/-- returns caused by one operation are reported in increasing search id (the order in which they happen inside the
    operation is not observable from outside) -/
def sortWoke (w : List (Nat × Res)) : List (Nat × Res) :=
  w.foldl (fun acc x =>
    let (lo, hi) := acc.span (fun y => y.1 ≤ x.1)
    lo ++ x :: hi) []

def showObs (o : Obs) : String :=
  s!"{showRes o.out.self}/{showWoke (sortWoke o.out.woke)}/{o.curI}.{o.curB}.{o.waitI}.{o.waitB}" ++
    (if o.fired.isEmpty then "" else "/f" ++ "+".intercalate (o.fired.map toString))

def parseObs (s : String) : Option Obs :=
  let core (a b c : String) (fired : List Nat) : Option Obs :=
    match c.splitOn "." with
    | [w, x, y, z] => do
      let self ← parseRes a
      let woke ← parseWoke b
      pure ⟨⟨self, woke⟩, ← w.toNat?, ← x.toNat?, ← y.toNat?, ← z.toNat?, fired⟩
    | _ => none
  match s.splitOn "/" with
  | [a, b, c] => core a b c []
  | [a, b, c, f] =>
    -- `f3+4`: tripwire contexts that fired during the operation
    if f.startsWith "f" then
      match ((f.drop 1).toString.splitOn "+").mapM (fun (e : String) => e.toNat?) with
      | some fired => core a b c fired
      | none => none
    else none
  | _ => none

def showRun (capI capB : Nat) (obs : List Obs) : String :=
  s!"caps={capI}.{capB} obs={showList showObs obs}"

/-- impl output `caps=<I>.<B> obs=<o1>,<o2>…` -/
def parseRun (s : String) : Option (Nat × Nat × List Obs) :=
  match fields s with
  | [a, b] =>
    if a.startsWith "caps=" && b.startsWith "obs=" then
      match ((a.drop 5).toString).splitOn "." with
      | [x, y] => do
        let ci ← x.toNat?
        let cb ← y.toNat?
        let os := (b.drop 4).toString
        let obs ← if os == "-" then some [] else (os.splitOn ",").mapM parseObs
        pure (ci, cb, obs)
      | _ => none
    else none
  | _ => none

/-- events: `ao3,ae3,cn3,yb3,yo3,ye3,rl3,s2.1` -/
def parseEv (s : String) : Option Ev :=
  if s.startsWith "s" then
    match ((s.drop 1).toString).splitOn "." with
    | [a, b] => do pure (.snap (← a.toNat?) (← b.toNat?))
    | _ => none
  else
    let tag := (s.take 2).toString
    match ((s.drop 2).toString).toNat? with
    | none => none
    | some p =>
      if tag == "ao" then some (.acqOk p) else if tag == "ae" then some (.acqErr p)
      else if tag == "cn" then some (.cancel p) else if tag == "yb" then some (.yieldBegin p)
      else if tag == "yo" then some (.yieldOk p) else if tag == "ye" then some (.yieldErr p)
      else if tag == "rl" then some (.release p) else none

def parseEvs (s : String) : Option (List Ev) :=
  if s == "-" then some [] else (s.splitOn ",").mapM parseEv

/--
* `dir <capacity> <batchdiv> <doneBits> <ops>`  — director run: model output = predicted observations; verdict = `checkRun`
  on the implementation's observations.
* `trace <capI> <capB> <nprocs> <events>`      — concurrent log: model output = `cur=<I>.<B>` after replay; verdict =
  the log is a path of the small-step model.
* `caps <capacity> <batchdiv>`                 — capacity arithmetic of `newMultiScheduler`.
-/
def handle (line : String) : String :=
  let (inp, impl) := splitCase line
  match fields inp with
  | "dir" :: c :: bd :: bits :: ops :: _late =>
    -- an optional sixth field `late=0101` says which searches have a tripwire context; the model does not need it
    match c.toNat?, bd.toNat?, parseBits bits, parseOps ops with
    | some cap, some div, some dones, some ops =>
      let d0 := dInit cap div dones
      let (_, obs) := dRun d0 ops
      let model := showRun d0.st.capI d0.st.capB obs
      match parseRun impl with
      | none => badCase "impl output"
      | some (_, _, iobs) =>
        -- the statement is evaluated with the documented capacities, on the implementation's observations
        match checkRun cap (batchCap cap div) dones ops iobs with
        | none => answer model
        | some key => specFail model key
    | _, _, _, _ => badCase "fields"
  | ["trace", ci, cb, n, evs] =>
    match ci.toNat?, cb.toNat?, n.toNat?, parseEvs evs with
    | some capI, some capB, some n, some evs =>
      match replay (init capI capB (List.replicate n false)) evs 0 with
      | .ok s =>
        let model := s!"cur={s.curI}.{s.curB}"
        if s.procs.all Proc.quiescent && impl != "cur=0.0" then specFail model "leak-at-quiescence"
        else answer model
      | .error (i, why) => specFail s!"not-a-model-trace@{i}" why
    | _, _, _, _ => badCase "fields"
  | ["caps", c, bd] =>
    match c.toNat?, bd.toNat? with
    | some cap, some div => answer s!"caps={cap}.{batchCap cap div}"
    | _, _ => badCase "fields"
  | _ => badCase "op"

def main : IO Unit := runLines handle
end ZoektModel.C20
