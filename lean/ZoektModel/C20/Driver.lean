import ZoektModel.Basic.Proto
namespace ZoektModel.C20
/-- stub: no model driver for C20 yet -/
def main : IO Unit := ZoektModel.Proto.runLines (fun _ => ZoektModel.Proto.badCase "no model driver for C20")
end ZoektModel.C20
