/-
C20 — `Spec.checkRun` accepts every run of the director model (work in progress helper lemmas).
-/
import ZoektModel.C20.Lemmas
namespace ZoektModel.C20

/-! ### generic list lemmas -/

theorem countP_pointwise {α β} (f : α → Bool) (g : β → Bool) : ∀ (as : List α) (bs : List β),
    as.length = bs.length → (∀ i (h1 : i < as.length) (h2 : i < bs.length), f as[i] = g bs[i]) →
    as.countP f = bs.countP g := by
  intro as
  induction as with
  | nil => intro bs hl _; cases bs with
    | nil => rfl
    | cons b t => simp at hl
  | cons a t ih =>
    intro bs hl h
    cases bs with
    | nil => simp at hl
    | cons b u =>
      have h0 := h 0 (by simp) (by simp)
      simp only [List.getElem_cons_zero] at h0
      have := ih u (by simpa using hl) (fun i h1 h2 => by
        have := h (i + 1) (by simp; omega) (by simp; omega)
        simpa using this)
      simp only [List.countP_cons, h0, this]

/-! ### what the ledger should say about a search -/

def stOf (p : Proc) : BSt :=
  match p.loc, p.sem with
  | .idle, _ => .idle
  | .waitI, _ => .waitI
  | .wokenI, _ => .holdI
  | .failed, _ => .failed
  | .run, some .I => .holdI
  | .run, some .B => .holdB
  | .run, none => .off
  | .waitB, _ => .waitB
  | .wokenB, _ => .holdB

/-- ledger entry `b` describes search `p` (between director operations: no search is in a `woken` location) -/
structure Rel (p : Proc) (b : Book) : Prop where
  st : b.st = stOf p
  cancelled : b.cancelled = p.done
  expired : (b.expired || b.released) = p.expired
  yielded : b.yielded = p.yielded
  released : b.released = p.released
  nwI : p.loc ≠ .wokenI
  nwB : p.loc ≠ .wokenB
  semrun : p.sem ≠ none → p.loc = .run
  semB : p.sem = some .B → p.yielded = true

def waitLoc : Sem → Loc
  | .I => .waitI
  | .B => .waitB

/-- queue `x` of the director lists exactly the searches waiting on semaphore `x` -/
structure QOK (d : DState) (x : Sem) : Prop where
  nodup : (d.q x).Nodup
  mem : ∀ i, i ∈ d.q x ↔ ∃ h : i < d.st.procs.length, d.st.procs[i].loc = waitLoc x
  len : (d.q x).length = d.st.procs.countP (fun p => p.loc == waitLoc x)

structure Sim (d : DState) (l : Ledger) : Prop where
  len : l.length = d.st.procs.length
  rel : ∀ i (h1 : i < d.st.procs.length) (h2 : i < l.length), Rel d.st.procs[i] l[i]
  qI : QOK d .I
  qB : QOK d .B

theorem holds_eq_st (p : Proc) (b : Book) (h : Rel p b) :
    (p.holds .I = (b.st == .holdI)) ∧ (p.holds .B = (b.st == .holdB)) ∧
    ((p.loc == .waitI) = (b.st == .waitI)) ∧ ((p.loc == .waitB) = (b.st == .waitB)) := by
  obtain ⟨loc, sem, done, expired, yielded, released, grants, rels, errs⟩ := p
  obtain ⟨h1, _, _, _, _, h6, h7, h8, _⟩ := h
  rw [h1]
  cases loc <;> rcases sem with _ | (_ | _) <;> simp_all [stOf, Proc.holds] <;> decide

/-- with the ledger in `Sim` and the invariant of the small-step model, every clause of `checkObs` passes -/
theorem checkObs_ok (d : DState) (l : Ledger) (hs : Sim d l) (inv : Inv d.st) :
    checkObs d.st.capI d.st.capB l ⟨out, d.st.curI, d.st.curB, d.qI.length, d.qB.length, []⟩ = .ok () := by
  have hI : l.count .holdI = owners d.st .I := by
    unfold Ledger.count owners
    exact (countP_pointwise _ _ d.st.procs l hs.len.symm
      (fun i h1 h2 => (holds_eq_st _ _ (hs.rel i h1 h2)).1)).symm
  have hB : l.count .holdB = owners d.st .B := by
    unfold Ledger.count owners
    exact (countP_pointwise _ _ d.st.procs l hs.len.symm
      (fun i h1 h2 => (holds_eq_st _ _ (hs.rel i h1 h2)).2.1)).symm
  have hwI : l.count .waitI = d.qI.length := by
    have := hs.qI.len
    simp only [DState.q, waitLoc] at this
    rw [this]
    unfold Ledger.count
    exact (countP_pointwise _ _ d.st.procs l hs.len.symm
      (fun i h1 h2 => (holds_eq_st _ _ (hs.rel i h1 h2)).2.2.1)).symm
  have hwB : l.count .waitB = d.qB.length := by
    have := hs.qB.len
    simp only [DState.q, waitLoc] at this
    rw [this]
    unfold Ledger.count
    exact (countP_pointwise _ _ d.st.procs l hs.len.symm
      (fun i h1 h2 => (holds_eq_st _ _ (hs.rel i h1 h2)).2.2.2)).symm
  have e1 := inv.eqI; have e2 := inv.eqB; have l1 := inv.leI; have l2 := inv.leB
  unfold checkObs
  simp only []
  have c1 : (decide (d.st.curI > d.st.capI) || decide (d.st.curB > d.st.capB)) = false := by
    simp; omega
  have c2 : (decide (d.st.curI ≠ l.count .holdI) || decide (d.st.curB ≠ l.count .holdB)) = false := by
    simp; omega
  have c3 : (decide (d.qI.length ≠ l.count .waitI) || decide (d.qB.length ≠ l.count .waitB)) = false := by
    simp; omega
  simp only [c1, c2, c3, Bool.false_eq_true, ↓reduceIte]
  split
  · rename_i hq
    simp only [Bool.and_eq_true, Bool.or_eq_true, decide_eq_true_eq] at hq
    obtain ⟨hall, hne⟩ := hq
    -- all quiescent: nobody holds anything
    have z1 : l.count .holdI = 0 := by
      unfold Ledger.count
      apply countP_eq_zero_of
      intro b hb
      have := (List.all_eq_true.mp hall) b hb
      simp only [Book.quiescent, Bool.or_eq_true, Bool.and_eq_true, beq_iff_eq] at this
      rcases this with (h | h) | h <;> simp [h] <;> (try (rw [h.1]; decide)) <;> decide
    have z2 : l.count .holdB = 0 := by
      unfold Ledger.count
      apply countP_eq_zero_of
      intro b hb
      have := (List.all_eq_true.mp hall) b hb
      simp only [Book.quiescent, Bool.or_eq_true, Bool.and_eq_true, beq_iff_eq] at this
      rcases this with (h | h) | h <;> simp [h] <;> (try (rw [h.1]; decide)) <;> decide
    omega
  · rfl

/-! ### computing `do1` -/

theorem do1_eq (s : State) (pid : Nat) (k : Kind) (p' : Proc) (e : Eff) (hnp : s.panicked = false)
    (hlt : pid < s.procs.length) (hstep : procStep false s.freeI s.freeB s.procs[pid] k = some (p', e)) :
    do1 s pid k = ({ s with procs := s.procs.set pid p' } : State).applyEff e := by
  unfold do1 step
  simp [hnp, List.getElem?_eq_getElem hlt, hstep]

theorem do1_invalid (s : State) (pid : Nat) (k : Kind) (h : s.procs.length ≤ pid) : do1 s pid k = s := by
  unfold do1 step
  have : s.procs[pid]? = none := List.getElem?_eq_none h
  simp [this]

/-! ### maintaining `QOK` when one search changes -/

theorem countP_set_eq {α} (f : α → Bool) (l : List α) (i : Nat) (a : α) (h : i < l.length) (hf : f a = f l[i]) :
    (l.set i a).countP f = l.countP f := by
  have := countP_set' f l i a h
  rw [hf] at this
  omega

/-- the search at `pid` changes, but not whether it waits on `x`; queue `x` unchanged -/
theorem QOK_set_same (d d' : DState) (x : Sem) (pid : Nat) (p' : Proc) (hlt : pid < d.st.procs.length)
    (hp : d'.st.procs = d.st.procs.set pid p') (hq : d'.q x = d.q x)
    (hloc : (p'.loc == waitLoc x) = (d.st.procs[pid].loc == waitLoc x)) (h : QOK d x) : QOK d' x := by
  obtain ⟨h1, h2, h3⟩ := h
  refine ⟨by rw [hq]; exact h1, ?_, ?_⟩
  · intro i
    rw [hq, h2 i, hp]
    simp only [List.length_set]
    constructor
    · rintro ⟨hi, hl⟩
      refine ⟨hi, ?_⟩
      by_cases hip : pid = i
      · subst hip
        simp only [List.getElem_set_self]
        have := hloc; simp only [hl, BEq.rfl] at this; simpa using this
      · simp only [List.getElem_set_ne hip]; exact hl
    · rintro ⟨hi, hl⟩
      refine ⟨hi, ?_⟩
      by_cases hip : pid = i
      · subst hip
        simp only [List.getElem_set_self] at hl
        have := hloc; simp only [hl, BEq.rfl] at this; simpa using this.symm
      · simp only [List.getElem_set_ne hip] at hl; exact hl
  · rw [hq, h3, hp]
    exact (countP_set_eq _ _ _ _ hlt hloc).symm

/-- the search at `pid` starts waiting on `x` and is appended to queue `x` -/
theorem QOK_enqueue (d d' : DState) (x : Sem) (pid : Nat) (p' : Proc) (hlt : pid < d.st.procs.length)
    (hp : d'.st.procs = d.st.procs.set pid p') (hq : d'.q x = d.q x ++ [pid])
    (hold : d.st.procs[pid].loc ≠ waitLoc x) (hnew : p'.loc = waitLoc x) (h : QOK d x) : QOK d' x := by
  obtain ⟨h1, h2, h3⟩ := h
  have hnot : pid ∉ d.q x := by
    intro hm
    obtain ⟨_, hl⟩ := (h2 pid).mp hm
    exact hold hl
  refine ⟨?_, ?_, ?_⟩
  · rw [hq, List.nodup_append]
    refine ⟨h1, by simp, ?_⟩
    intro a ha b hb
    simp only [List.mem_singleton] at hb
    rw [hb]; intro e; exact hnot (e ▸ ha)
  · intro i
    rw [hq, hp]
    simp only [List.mem_append, List.mem_singleton, List.length_set, h2 i]
    constructor
    · rintro (⟨hi, hl⟩ | rfl)
      · refine ⟨hi, ?_⟩
        by_cases hip : pid = i
        · subst hip; simp only [List.getElem_set_self]; exact hnew
        · simp only [List.getElem_set_ne hip]; exact hl
      · exact ⟨hlt, by simp only [List.getElem_set_self]; exact hnew⟩
    · rintro ⟨hi, hl⟩
      by_cases hip : pid = i
      · exact Or.inr hip.symm
      · left; simp only [List.getElem_set_ne hip] at hl; exact ⟨hi, hl⟩
  · rw [hq, hp, List.length_append, h3]
    have := countP_set' (fun p => p.loc == waitLoc x) d.st.procs pid p' hlt
    have e1 : (d.st.procs[pid].loc == waitLoc x) = false := by simpa using hold
    have e2 : (p'.loc == waitLoc x) = true := by simpa using hnew
    simp only [e1, e2, Bool.false_eq_true, ↓reduceIte] at this
    simp only [List.length_singleton]
    omega

/-- the search at `pid` stops waiting on `x` and is removed from queue `x` -/
theorem QOK_erase (d d' : DState) (x : Sem) (pid : Nat) (p' : Proc) (hlt : pid < d.st.procs.length)
    (hp : d'.st.procs = d.st.procs.set pid p') (hq : d'.q x = (d.q x).erase pid)
    (hold : d.st.procs[pid].loc = waitLoc x) (hnew : p'.loc ≠ waitLoc x) (h : QOK d x) : QOK d' x := by
  obtain ⟨h1, h2, h3⟩ := h
  have hin : pid ∈ d.q x := (h2 pid).mpr ⟨hlt, hold⟩
  refine ⟨?_, ?_, ?_⟩
  · rw [hq]; exact h1.sublist (List.erase_sublist)
  · intro i
    rw [hq, hp, h1.mem_erase_iff, h2 i]
    simp only [List.length_set]
    constructor
    · rintro ⟨hne, hi, hl⟩
      refine ⟨hi, ?_⟩
      simp only [List.getElem_set_ne (fun e => hne e.symm)]; exact hl
    · rintro ⟨hi, hl⟩
      by_cases hip : pid = i
      · subst hip; simp only [List.getElem_set_self] at hl; exact absurd hl hnew
      · simp only [List.getElem_set_ne hip] at hl
        exact ⟨fun e => hip e.symm, hi, hl⟩
  · rw [hq, hp, List.length_erase_of_mem hin, h3]
    have := countP_set' (fun p => p.loc == waitLoc x) d.st.procs pid p' hlt
    have e1 : (d.st.procs[pid].loc == waitLoc x) = true := by simpa using hold
    have e2 : (p'.loc == waitLoc x) = false := by simpa using hnew
    simp only [e1, e2, Bool.false_eq_true, ↓reduceIte] at this
    omega

theorem Sim_update (d d' : DState) (l : Ledger) (pid : Nat) (p' : Proc) (b' : Book) (hlt : pid < d.st.procs.length)
    (hs : Sim d l) (hp : d'.st.procs = d.st.procs.set pid p') (hrel : Rel p' b')
    (hqI : QOK d' .I) (hqB : QOK d' .B) : Sim d' (l.set pid b') := by
  refine ⟨by simp [hp, hs.len], ?_, hqI, hqB⟩
  intro i h1 h2
  simp only [hp]
  by_cases hip : pid = i
  · subst hip; simp only [List.getElem_set_self]; exact hrel
  · simp only [List.getElem_set_ne hip]
    exact hs.rel i (by simpa [hp] using h1) (by simpa using h2)

theorem stOf_idle (p : Proc) (h : stOf p = .idle) : p.loc = .idle := by
  obtain ⟨loc, sem, _, _, _, _, _, _, _⟩ := p
  cases loc <;> rcases sem with _ | (_ | _) <;> simp_all [stOf]

/-- an operation a client can issue in state `d`: on an existing search; `Acquire` only once, before anything else;
    `Yield` / `Release` only while it has a process and no call of it is blocked -/
def Legal (d : DState) (op : Op) : Prop :=
  match op with
  | .acq p => d.st.procs[p]?.map (·.loc) = some .idle
  | .yield p | .rel p => d.st.procs[p]?.map (·.loc) = some .run
  | .cancel p | .expire p => p < d.st.procs.length

/-- the result type of one director operation against the ledger -/
def StepOK (d : DState) (l : Ledger) (op : Op) : Prop :=
  (¬ Legal d op ∧ applySelf l op (dStep d op).2.self = .error "bad-event") ∨
  ∃ l1 l2, applySelf l op (dStep d op).2.self = .ok l1 ∧ applyReturns l1 (dStep d op).2.woke = .ok l2 ∧
    Sim (dStep d op).1 l2

theorem expire_ok (d : DState) (l : Ledger) (p : Nat) (hs : Sim d l) (hnp : d.st.panicked = false) :
    StepOK d l (.expire p) := by
  unfold StepOK
  simp only [dStep, dExpire, applySelf, Op.pid]
  by_cases hlt : p < d.st.procs.length
  · have hl : p < l.length := by rw [hs.len]; exact hlt
    right
    simp only [List.getElem?_eq_getElem hl, ↓reduceIte, applyReturns]
    refine ⟨_, _, rfl, rfl, ?_⟩
    have hstep : procStep false d.st.freeI d.st.freeB d.st.procs[p] .expire =
        some ({ d.st.procs[p] with expired := true }, .nop) := rfl
    have hr := hs.rel p hlt hl
    apply Sim_update d _ l p { d.st.procs[p] with expired := true } _ hlt hs
    · simp only [do1_eq d.st p .expire _ _ hnp hlt hstep, State.applyEff]
    · exact ⟨by rw [hr.st]; rfl, hr.cancelled, by simp, hr.yielded, hr.released, hr.nwI, hr.nwB, hr.semrun, hr.semB⟩
    · refine QOK_set_same d { d with st := do1 d.st p .expire } .I p { d.st.procs[p] with expired := true } hlt ?_ rfl rfl hs.qI
      simp only [do1_eq d.st p .expire _ _ hnp hlt hstep, State.applyEff]
    · refine QOK_set_same d { d with st := do1 d.st p .expire } .B p { d.st.procs[p] with expired := true } hlt ?_ rfl rfl hs.qB
      simp only [do1_eq d.st p .expire _ _ hnp hlt hstep, State.applyEff]
  · left
    have : l[p]? = none := List.getElem?_eq_none (by rw [hs.len]; omega)
    exact ⟨fun hleg => hlt hleg, by simp [this]⟩

/-! ### named single-search updates -/

def pWaitI (p : Proc) : Proc := { p with loc := .waitI }
def pFail (p : Proc) : Proc := { p with loc := .failed, errs := p.errs + 1 }
def pRunI (p : Proc) : Proc := { p with loc := .run, sem := some .I, grants := p.grants + 1 }
def pRunB (p : Proc) : Proc := { p with loc := .run, sem := some .B, yielded := true, grants := p.grants + 1 }

/-- `grant` then `wake` of a search waiting on `x`, when a token is free: one combined update -/
def pRun : Sem → Proc → Proc
  | .I => pRunI
  | .B => pRunB

def incCur (s : State) : Sem → State
  | .I => { s with curI := s.curI + 1 }
  | .B => { s with curB := s.curB + 1 }

theorem grant_wake (s : State) (x : Sem) (h : Nat) (hnp : s.panicked = false) (hlt : h < s.procs.length)
    (hloc : s.procs[h].loc = waitLoc x) (hfree : s.free x = true) :
    do1 (do1 s h .grant) h .wake = incCur { s with procs := s.procs.set h (pRun x s.procs[h]) } x := by
  cases x with
  | I =>
    simp only [waitLoc] at hloc
    simp only [State.free] at hfree
    let pw : Proc := { s.procs[h] with loc := .wokenI, grants := s.procs[h].grants + 1 }
    let s1 : State := { s with procs := s.procs.set h pw, curI := s.curI + 1 }
    have h1 : procStep false s.freeI s.freeB s.procs[h] .grant = some (pw, .inc .I) := by
      simp [procStep, hloc, hfree, pw]
    have e1 : do1 s h .grant = s1 := by rw [do1_eq s h .grant _ _ hnp hlt h1]; rfl
    rw [e1]
    have hlt1 : h < s1.procs.length := by simp only [s1, List.length_set]; exact hlt
    have hget : s1.procs[h] = pw := by simp only [s1, List.getElem_set_self]
    have h2 : procStep false s1.freeI s1.freeB s1.procs[h] .wake = some (pRunI s.procs[h], .nop) := by
      rw [hget]; simp [procStep, pRunI, pw]
    rw [do1_eq s1 h .wake _ _ hnp hlt1 h2]
    simp only [s1, State.applyEff, List.set_set, incCur, pRun]
  | B =>
    simp only [waitLoc] at hloc
    simp only [State.free] at hfree
    let pw : Proc := { s.procs[h] with loc := .wokenB, grants := s.procs[h].grants + 1 }
    let s1 : State := { s with procs := s.procs.set h pw, curB := s.curB + 1 }
    have h1 : procStep false s.freeI s.freeB s.procs[h] .grant = some (pw, .inc .B) := by
      simp [procStep, hloc, hfree, pw]
    have e1 : do1 s h .grant = s1 := by rw [do1_eq s h .grant _ _ hnp hlt h1]; rfl
    rw [e1]
    have hlt1 : h < s1.procs.length := by simp only [s1, List.length_set]; exact hlt
    have hget : s1.procs[h] = pw := by simp only [s1, List.getElem_set_self]
    have h2 : procStep false s1.freeI s1.freeB s1.procs[h] .wake = some (pRunB s.procs[h], .nop) := by
      rw [hget]; simp [procStep, pRunB, pw]
    rw [do1_eq s1 h .wake _ _ hnp hlt1 h2]
    simp only [s1, State.applyEff, List.set_set, incCur, pRun]

theorem incCur_procs (s : State) (x : Sem) : (incCur s x).procs = s.procs := by cases x <;> rfl
theorem incCur_panicked (s : State) (x : Sem) : (incCur s x).panicked = s.panicked := by cases x <;> rfl

/-- the ledger entry after a waiting search got its slot -/
def bRun (x : Sem) (b : Book) : Book :=
  match x with
  | .I => { b with st := .holdI }
  | .B => { b with st := .holdB, yielded := true }

theorem stOf_wait (p : Proc) (x : Sem) (h : p.loc = waitLoc x) : stOf p = (match x with | .I => .waitI | .B => .waitB) := by
  obtain ⟨loc, sem, _, _, _, _, _, _, _⟩ := p
  cases x <;> simp only [waitLoc] at h <;> subst h <;> simp [stOf]

theorem applyReturn_ok (l : Ledger) (h : Nat) (x : Sem) (p : Proc) (hl : h < l.length) (hr : Rel p l[h])
    (hloc : p.loc = waitLoc x) : applyReturn l h .ok = .ok (l.set h (bRun x l[h])) := by
  have hst := hr.st
  rw [stOf_wait p x hloc] at hst
  unfold applyReturn
  simp only [List.getElem?_eq_getElem hl]
  cases x <;> simp only [] at hst <;> simp [hst, bRun]

theorem Rel_run (p : Proc) (b : Book) (x : Sem) (hr : Rel p b) (hloc : p.loc = waitLoc x) : Rel (pRun x p) (bRun x b) := by
  obtain ⟨h1, h2, h3, h4, h5, h6, h7, h8, h9⟩ := hr
  cases x
  · exact ⟨by simp [bRun, pRun, pRunI, stOf], h2, h3, h4, h5, by simp [pRun, pRunI], by simp [pRun, pRunI], by simp [pRun, pRunI],
      by simp [pRun, pRunI]⟩
  · exact ⟨by simp [bRun, pRun, pRunB, stOf], h2, h3, by simp [bRun, pRun, pRunB], h5, by simp [pRun, pRunB], by simp [pRun, pRunB],
      by simp [pRun, pRunB], by simp [pRun, pRunB]⟩

theorem pRun_loc (x : Sem) (p : Proc) : (pRun x p).loc = .run := by cases x <;> rfl

theorem setQ_q_same (d : DState) (x : Sem) (q : List Nat) : (d.setQ x q).q x = q := by cases x <;> rfl
theorem setQ_q_other (d : DState) (x y : Sem) (q : List Nat) (h : x ≠ y) : (d.setQ x q).q y = d.q y := by
  cases x <;> cases y <;> first | rfl | exact absurd rfl h
theorem setQ_self (d : DState) (x : Sem) : d.setQ x (d.q x) = d := by cases x <;> rfl

theorem waitLoc_ne_run (x : Sem) : Loc.run ≠ waitLoc x := by cases x <;> simp [waitLoc]
theorem waitLoc_inj (x y : Sem) (h : waitLoc x = waitLoc y) : x = y := by cases x <;> cases y <;> simp_all [waitLoc]

/-- **`notifyWaiters` against the ledger**: the woken searches were all waiting, and the ledger follows -/
theorem notify_sim (x : Sem) : ∀ (q : List Nat) (d : DState) (l : Ledger), d.q x = q → Sim d l → d.st.panicked = false →
    ∃ l', applyReturns l (notify d x).2 = .ok l' ∧ Sim (notify d x).1 l' ∧ (notify d x).1.st.panicked = false := by
  intro q
  induction q with
  | nil =>
    intro d l hq hs hnp
    refine ⟨l, ?_, ?_, ?_⟩ <;> simp only [notify, hq, notifyAux, applyReturns]
    · rw [← hq, setQ_self]; exact hs
    · rw [← hq, setQ_self]; exact hnp
  | cons h t ih =>
    intro d l hq hs hnp
    by_cases hfree : d.st.free x = true
    · -- the front waiter gets a token
      have hQ : QOK d x := by cases x; exact hs.qI; exact hs.qB
      have hmem := (hQ.mem h).mp (by rw [hq]; simp)
      obtain ⟨hlt, hloc⟩ := hmem
      have hl : h < l.length := by rw [hs.len]; exact hlt
      have hnd : (h :: t).Nodup := by rw [← hq]; exact hQ.nodup
      let s1 := incCur { d.st with procs := d.st.procs.set h (pRun x d.st.procs[h]) } x
      let d1 : DState := ({ d with st := s1 }).setQ x t
      have hd1q : d1.q x = t := setQ_q_same _ _ _
      have hd1p : d1.st.procs = d.st.procs.set h (pRun x d.st.procs[h]) := by
        simp only [d1, setQ_st, s1, incCur_procs]
      have hsim1 : Sim d1 (l.set h (bRun x l[h])) := by
        apply Sim_update d d1 l h (pRun x d.st.procs[h]) (bRun x l[h]) hlt hs hd1p (Rel_run _ _ x (hs.rel h hlt hl) hloc)
        · -- queue I
          by_cases hx : x = .I
          · subst hx
            refine QOK_erase d d1 .I h _ hlt hd1p ?_ hloc ?_ hs.qI
            · rw [hd1q, hq]; simp
            · rw [pRun_loc]; exact waitLoc_ne_run _
          · have hxB : x = .B := by cases x; exact absurd rfl hx; rfl
            refine QOK_set_same d d1 .I h _ hlt hd1p ?_ ?_ hs.qI
            · simp only [d1]; rw [setQ_q_other _ _ _ _ hx]; rfl
            · rw [pRun_loc, hloc, hxB]; decide
        · by_cases hx : x = .B
          · subst hx
            refine QOK_erase d d1 .B h _ hlt hd1p ?_ hloc ?_ hs.qB
            · rw [hd1q, hq]; simp
            · rw [pRun_loc]; exact waitLoc_ne_run _
          · have hxI : x = .I := by cases x; rfl; exact absurd rfl hx
            refine QOK_set_same d d1 .B h _ hlt hd1p ?_ ?_ hs.qB
            · simp only [d1]; rw [setQ_q_other _ _ _ _ hx]; rfl
            · rw [pRun_loc, hloc, hxI]; decide
      have hnp1 : d1.st.panicked = false := by simp only [d1, setQ_st, s1, incCur_panicked]; exact hnp
      obtain ⟨l', ha, hs', hp'⟩ := ih d1 _ hd1q hsim1 hnp1
      -- unfold one round of notify
      have hunf : notify d x = ((notify d1 x).1, (h, Res.ok) :: (notify d1 x).2) := by
        simp only [notify, hq, notifyAux, hfree, ↓reduceIte, hd1q]
        rw [grant_wake d.st x h hnp hlt hloc hfree]
        simp only [d1, setQ_st, s1]
        cases x <;> rfl
      rw [hunf]
      refine ⟨l', ?_, hs', hp'⟩
      simp only [applyReturns, applyReturn_ok l h x _ hl (hs.rel h hlt hl) hloc]
      exact ha
    · have hf : d.st.free x = false := by simpa using hfree
      refine ⟨l, ?_, ?_, ?_⟩ <;> simp only [notify, hq, notifyAux, hf, Bool.false_eq_true, ↓reduceIte, applyReturns]
      · rw [← hq, setQ_self]; exact hs
      · rw [← hq, setQ_self]; exact hnp

theorem applyEff_nop_procs (s : State) : (s.applyEff .nop) = s := rfl

/-! ### per-operation lemmas -/

theorem stOf_run_iff (p : Proc) (hI : p.loc ≠ .wokenI) (hB : p.loc ≠ .wokenB) :
    (stOf p = .holdI ∨ stOf p = .holdB ∨ stOf p = .off) ↔ p.loc = .run := by
  obtain ⟨loc, sem, _, _, _, _, _, _, _⟩ := p
  cases loc <;> rcases sem with _ | (_ | _) <;> simp_all [stOf]

def decCur (s : State) : Sem → State
  | .I => { s with curI := s.curI - 1 }
  | .B => { s with curB := s.curB - 1 }

def State.cur (s : State) : Sem → Nat
  | .I => s.curI
  | .B => s.curB

theorem cur_pos (s : State) (inv : Inv s) (i : Nat) (hlt : i < s.procs.length) (x : Sem)
    (h : s.procs[i].holds x = true) : 0 < s.cur x := by
  have hc : 0 < s.procs.countP (·.holds x) :=
    List.countP_pos_iff.mpr ⟨s.procs[i], List.getElem_mem hlt, h⟩
  cases x
  · simp only [State.cur]; rw [inv.eqI]; exact hc
  · simp only [State.cur]; rw [inv.eqB]; exact hc

theorem applyEff_dec (s : State) (x : Sem) (h : 0 < s.cur x) : s.applyEff (.dec x) = decCur s x := by
  cases x <;> simp only [State.cur] at h <;> simp only [State.applyEff, decCur] <;> rw [if_neg (by omega)]

theorem decCur_procs (s : State) (x : Sem) : (decCur s x).procs = s.procs := by cases x <;> rfl
theorem decCur_panicked (s : State) (x : Sem) : (decCur s x).panicked = s.panicked := by cases x <;> rfl

def pRel (p : Proc) : Proc :=
  match p.sem with
  | some _ => { p with sem := none, released := true, expired := true, rels := p.rels + 1 }
  | none => { p with released := true, expired := true }

def bOff (b : Book) : Book := { b with st := .off, released := true }

theorem Rel_rel (p : Proc) (b : Book) (hr : Rel p b) (hloc : p.loc = .run) : Rel (pRel p) (bOff b) := by
  obtain ⟨h1, h2, h3, h4, h5, h6, h7, h8, h9⟩ := hr
  unfold pRel
  cases hs : p.sem with
  | none =>
    exact ⟨by simp [bOff, stOf, hloc, hs], h2, by simp [bOff], h4, by simp [bOff], h6, h7, by simp [hs], by simp [hs]⟩
  | some x =>
    exact ⟨by simp [bOff, stOf, hloc], h2, by simp [bOff], h4, by simp [bOff], h6, h7, by simp, by simp⟩

theorem pRel_loc (p : Proc) : (pRel p).loc = p.loc := by
  unfold pRel; cases p.sem <;> rfl

theorem rel_ok (d : DState) (l : Ledger) (p : Nat) (hs : Sim d l) (inv : Inv d.st) : StepOK d l (.rel p) := by
  unfold StepOK
  have hnp := inv.np
  by_cases hlt : p < d.st.procs.length
  · have hl : p < l.length := by rw [hs.len]; exact hlt
    have hr := hs.rel p hlt hl
    simp only [applySelf, Op.pid, List.getElem?_eq_getElem hl, dStep, dRelease, List.getElem?_eq_getElem hlt]
    by_cases hloc : d.st.procs[p].loc = .run
    · have hst := (stOf_run_iff _ hr.nwI hr.nwB).mpr hloc
      rw [← hr.st] at hst
      -- the ledger accepts the call
      have hself : (match l[p].st with
          | .holdI | .holdB | .off => (Except.ok (l.set p { l[p] with st := .off, released := true }) : Except String Ledger)
          | _ => .error "bad-event") = .ok (l.set p (bOff l[p])) := by
        rcases hst with h | h | h <;> simp [h, bOff]
      simp only [hloc, ne_eq, not_true_eq_false, ↓reduceIte]
      right
      -- the model's own step
      have hd1 : ∃ s1, do1 d.st p .release = s1 ∧ s1.procs = d.st.procs.set p (pRel d.st.procs[p]) ∧ s1.panicked = false := by
        cases hsm : d.st.procs[p].sem with
        | none =>
          have h1 : procStep false d.st.freeI d.st.freeB d.st.procs[p] .release = some (pRel d.st.procs[p], .nop) := by
            simp [procStep, hloc, hsm, pRel]
          exact ⟨_, rfl, by rw [do1_eq d.st p .release _ _ hnp hlt h1]; rfl, by rw [do1_eq d.st p .release _ _ hnp hlt h1]; exact hnp⟩
        | some x =>
          have h1 : procStep false d.st.freeI d.st.freeB d.st.procs[p] .release = some (pRel d.st.procs[p], .dec x) := by
            simp [procStep, hloc, hsm, pRel]
          have hpos : 0 < ({ d.st with procs := d.st.procs.set p (pRel d.st.procs[p]) } : State).cur x := by
            have := cur_pos d.st inv p hlt x (by simp [Proc.holds, hsm])
            cases x <;> exact this
          refine ⟨_, rfl, ?_, ?_⟩
          · rw [do1_eq d.st p .release _ _ hnp hlt h1, applyEff_dec _ _ hpos, decCur_procs]
          · rw [do1_eq d.st p .release _ _ hnp hlt h1, applyEff_dec _ _ hpos, decCur_panicked]; exact hnp
      obtain ⟨s1, hs1, hp1, hnp1⟩ := hd1
      have hsim1 : Sim { d with st := s1 } (l.set p (bOff l[p])) := by
        apply Sim_update d { d with st := s1 } l p (pRel d.st.procs[p]) (bOff l[p]) hlt hs hp1 (Rel_rel _ _ hr hloc)
        · exact QOK_set_same d _ .I p _ hlt hp1 rfl (by rw [pRel_loc]) hs.qI
        · exact QOK_set_same d _ .B p _ hlt hp1 rfl (by rw [pRel_loc]) hs.qB
      rw [hs1]
      cases hsm : d.st.procs[p].sem with
      | none =>
        simp only []
        exact ⟨_, _, hself, rfl, hsim1⟩
      | some x =>
        simp only []
        obtain ⟨l2, ha, hs2, _⟩ := notify_sim x _ { d with st := s1 } _ rfl hsim1 hnp1
        exact ⟨_, l2, hself, ha, hs2⟩
    · left
      refine ⟨fun hleg => by simp only [Legal, List.getElem?_eq_getElem hlt, Option.map_some, Option.some.injEq] at hleg; exact hloc hleg, ?_⟩
      simp only [hloc, ne_eq, not_false_eq_true, ↓reduceIte]
      have hst : ¬ (l[p].st = .holdI ∨ l[p].st = .holdB ∨ l[p].st = .off) := by
        rw [hr.st]; exact fun h => hloc ((stOf_run_iff _ hr.nwI hr.nwB).mp h)
      cases hb : l[p].st <;> simp_all
  · left
    have : l[p]? = none := List.getElem?_eq_none (by rw [hs.len]; omega)
    exact ⟨fun hleg => by have hn : d.st.procs[p]? = none := List.getElem?_eq_none (by omega); simp [Legal, hn] at hleg, by simp [applySelf, Op.pid, this]⟩

theorem idle_sem_none (p : Proc) (b : Book) (hr : Rel p b) (hloc : p.loc = .idle) : p.sem = none := by
  cases hsm : p.sem with
  | none => rfl
  | some x => have := hr.semrun (by simp [hsm]); rw [hloc] at this; cases this

theorem Rel_waitI (p : Proc) (b : Book) (hr : Rel p b) (hloc : p.loc = .idle) : Rel (pWaitI p) { b with st := .waitI } := by
  have hsem := idle_sem_none p b hr hloc
  obtain ⟨h1, h2, h3, h4, h5, h6, h7, h8, h9⟩ := hr
  exact ⟨by simp [pWaitI, stOf], h2, h3, h4, h5, by simp [pWaitI], by simp [pWaitI], by simp [pWaitI, hsem], by simp [pWaitI, hsem]⟩

theorem Rel_fail (p : Proc) (b : Book) (hr : Rel p b) (hsem : p.sem = none) : Rel (pFail p) { b with st := .failed } := by
  obtain ⟨h1, h2, h3, h4, h5, h6, h7, h8, h9⟩ := hr
  exact ⟨by simp [pFail, stOf], h2, h3, h4, h5, by simp [pFail], by simp [pFail], by simp [pFail, hsem], by simp [pFail, hsem]⟩

theorem acq_ok (d : DState) (l : Ledger) (p : Nat) (hs : Sim d l) (inv : Inv d.st) : StepOK d l (.acq p) := by
  unfold StepOK
  have hnp := inv.np
  by_cases hlt : p < d.st.procs.length
  · have hl : p < l.length := by rw [hs.len]; exact hlt
    have hr := hs.rel p hlt hl
    by_cases hidle : l[p].st = .idle
    · have hloc : d.st.procs[p].loc = .idle := stOf_idle _ (by rw [← hr.st]; exact hidle)
      have hsem := idle_sem_none _ _ hr hloc
      -- start
      let s1 : State := { d.st with procs := d.st.procs.set p (pWaitI d.st.procs[p]) }
      have h1 : procStep false d.st.freeI d.st.freeB d.st.procs[p] .start = some (pWaitI d.st.procs[p], .nop) := by
        simp [procStep, hloc, pWaitI]
      have e1 : do1 d.st p .start = s1 := by rw [do1_eq d.st p .start _ _ hnp hlt h1]; rfl
      have hlt1 : p < s1.procs.length := by simp only [s1, List.length_set]; exact hlt
      have hget1 : s1.procs[p] = pWaitI d.st.procs[p] := by simp only [s1, List.getElem_set_self]
      have hget1' : s1.procs[p]? = some (pWaitI d.st.procs[p]) := by rw [List.getElem?_eq_getElem hlt1, hget1]
      simp only [dStep, dAcq, e1, semAcquire, hget1']
      right
      by_cases hdone : d.st.procs[p].done = true
      · have hd' : (pWaitI d.st.procs[p]).done = true := hdone
        simp only [hd', ↓reduceIte]
        have h2 : procStep false s1.freeI s1.freeB s1.procs[p] .abort = some (pFail d.st.procs[p], .nop) := by
          rw [hget1]; simp [procStep, pWaitI, pFail, hdone]
        have e2 : do1 s1 p .abort = { d.st with procs := d.st.procs.set p (pFail d.st.procs[p]) } := by
          rw [do1_eq s1 p .abort _ _ hnp hlt1 h2]; simp only [s1, State.applyEff, List.set_set]
        have hc : l[p].cancelled = true := by rw [hr.cancelled]; exact hdone
        refine ⟨l.set p { l[p] with st := .failed }, _, ?_, rfl, ?_⟩
        · simp [applySelf, Op.pid, List.getElem?_eq_getElem hl, hidle, hc]
        · rw [e2]
          apply Sim_update d _ l p (pFail d.st.procs[p]) _ hlt hs rfl (Rel_fail _ _ hr hsem)
          · exact QOK_set_same d _ .I p _ hlt rfl rfl (by simp only [pFail, hloc, waitLoc]; decide) hs.qI
          · exact QOK_set_same d _ .B p _ hlt rfl rfl (by simp only [pFail, hloc, waitLoc]; decide) hs.qB
      · have hd' : (pWaitI d.st.procs[p]).done = false := by simpa [pWaitI] using hdone
        simp only [hd', Bool.false_eq_true, ↓reduceIte]
        have hfree : s1.free .I = d.st.freeI := rfl
        by_cases hf : (d.st.freeI && d.qI.isEmpty) = true
        · have hfI : s1.free .I = true := by rw [hfree]; simp only [Bool.and_eq_true] at hf; exact hf.1
          have hq1 : ({ d with st := s1 } : DState).q .I = d.qI := rfl
          simp only [hq1, hfree, hf, ↓reduceIte]
          have e2 := grant_wake s1 .I p hnp hlt1 (by rw [hget1]; rfl) hfI
          rw [e2]
          refine ⟨l.set p { l[p] with st := .holdI }, _, ?_, rfl, ?_⟩
          · simp [applySelf, Op.pid, List.getElem?_eq_getElem hl, hidle]
          · have hp2 : (incCur { s1 with procs := s1.procs.set p (pRun .I s1.procs[p]) } .I).procs =
                d.st.procs.set p (pRun .I (pWaitI d.st.procs[p])) := by
              rw [incCur_procs, hget1]; simp only [s1, List.set_set]
            have hrel2 : Rel (pRun .I (pWaitI d.st.procs[p])) { l[p] with st := .holdI } := by
              have := Rel_run _ _ .I (Rel_waitI _ _ hr hloc) rfl
              simpa [bRun] using this
            apply Sim_update d _ l p _ _ hlt hs hp2 hrel2
            · exact QOK_set_same d _ .I p _ hlt hp2 rfl (by rw [pRun_loc, hloc]; decide) hs.qI
            · exact QOK_set_same d _ .B p _ hlt hp2 rfl (by rw [pRun_loc, hloc]; decide) hs.qB
        · have hf' : (d.st.freeI && d.qI.isEmpty) = false := by simpa using hf
          have hq1 : ({ d with st := s1 } : DState).q .I = d.qI := rfl
          simp only [hq1, hfree, hf', Bool.false_eq_true, ↓reduceIte]
          refine ⟨l.set p { l[p] with st := .waitI }, _, ?_, rfl, ?_⟩
          · simp [applySelf, Op.pid, List.getElem?_eq_getElem hl, hidle]
          · apply Sim_update d _ l p (pWaitI d.st.procs[p]) _ hlt hs rfl (Rel_waitI _ _ hr hloc)
            · exact QOK_enqueue d _ .I p _ hlt rfl rfl (by rw [hloc]; decide) rfl hs.qI
            · exact QOK_set_same d _ .B p _ hlt rfl rfl (by simp only [pWaitI, hloc, waitLoc]; decide) hs.qB
    · left
      refine ⟨?_, by simp [applySelf, Op.pid, List.getElem?_eq_getElem hl, hidle]⟩
      intro hleg
      simp only [Legal, List.getElem?_eq_getElem hlt, Option.map_some, Option.some.injEq] at hleg
      apply hidle
      rw [hr.st]
      have hsem := idle_sem_none _ _ hr hleg
      simp [stOf, hleg]
  · left
    have : l[p]? = none := List.getElem?_eq_none (by rw [hs.len]; omega)
    exact ⟨fun hleg => by have hn : d.st.procs[p]? = none := List.getElem?_eq_none (by omega); simp [Legal, hn] at hleg, by simp [applySelf, Op.pid, this]⟩

/-! ### cancel -/

def pDone (p : Proc) : Proc := { p with done := true }
def pAbort (x : Sem) (p : Proc) : Proc :=
  match x with
  | .I => { p with loc := .failed, errs := p.errs + 1 }
  | .B => { p with loc := .run, errs := p.errs + 1 }
def bAbort (x : Sem) (b : Book) : Book :=
  match x with
  | .I => { b with st := .failed }
  | .B => { b with st := .off }

/-- the block `leave` of `dCancel`, spelled out -/
def leaveExpr (d1 : DState) (pid : Nat) (x : Sem) : DState × DOut :=
  let q := d1.q x
  let front := q.head? == some pid
  let d2 := ({ d1 with st := do1 d1.st pid .abort }).setQ x (q.erase pid)
  if front && d2.st.free x then
    let (d3, w) := notify d2 x
    (d3, ⟨.none, (pid, .err) :: w⟩)
  else (d2, ⟨.none, [(pid, .err)]⟩)

theorem dCancel_eq (d : DState) (pid : Nat) :
    dCancel d pid =
      (let d1 : DState := { d with st := do1 d.st pid .cancel }
       if d1.qI.contains pid then leaveExpr d1 pid .I
       else if d1.qB.contains pid then leaveExpr d1 pid .B
       else (d1, ⟨.none, []⟩)) := rfl

theorem Rel_done (p : Proc) (b : Book) (hr : Rel p b) : Rel (pDone p) { b with cancelled := true } := by
  obtain ⟨h1, h2, h3, h4, h5, h6, h7, h8, h9⟩ := hr
  exact ⟨h1, rfl, h3, h4, h5, h6, h7, h8, h9⟩

theorem wait_sem_none (p : Proc) (b : Book) (x : Sem) (hr : Rel p b) (hloc : p.loc = waitLoc x) : p.sem = none := by
  cases hsm : p.sem with
  | none => rfl
  | some y =>
    have := hr.semrun (by simp [hsm])
    rw [hloc] at this
    exact absurd this.symm (waitLoc_ne_run x)

theorem Rel_abort (p : Proc) (b : Book) (x : Sem) (hr : Rel p b) (hloc : p.loc = waitLoc x) :
    Rel (pAbort x p) (bAbort x b) := by
  have hsem := wait_sem_none p b x hr hloc
  obtain ⟨h1, h2, h3, h4, h5, h6, h7, h8, h9⟩ := hr
  cases x
  · exact ⟨by simp [pAbort, bAbort, stOf], h2, h3, h4, h5, by simp [pAbort], by simp [pAbort], by simp [pAbort, hsem],
      by simp [pAbort, hsem]⟩
  · exact ⟨by simp [pAbort, bAbort, stOf, hsem], h2, h3, h4, h5, by simp [pAbort], by simp [pAbort], by simp [pAbort],
      by simp [pAbort, hsem]⟩

theorem pAbort_loc_ne (x y : Sem) (p : Proc) : (pAbort x p).loc ≠ waitLoc y := by
  cases x <;> cases y <;> simp [pAbort, waitLoc]

theorem applyReturn_err (l : Ledger) (h : Nat) (x : Sem) (p : Proc) (hl : h < l.length) (hr : Rel p l[h])
    (hloc : p.loc = waitLoc x) (hc : l[h].cancelled = true) :
    applyReturn l h .err = .ok (l.set h (bAbort x l[h])) := by
  have hst := hr.st
  rw [stOf_wait p x hloc] at hst
  unfold applyReturn
  simp only [List.getElem?_eq_getElem hl]
  cases x <;> simp only [] at hst <;> simp [hst, hc, bAbort]

/-- leaving queue `x` after the cancellation was recorded -/
theorem leave_ok (d1 : DState) (l1 : Ledger) (p : Nat) (x : Sem) (hs : Sim d1 l1) (hnp : d1.st.panicked = false)
    (hlt : p < d1.st.procs.length) (hin : p ∈ d1.q x) (hdone : d1.st.procs[p].done = true) :
    ∃ l2, applyReturns l1 (leaveExpr d1 p x).2.woke = .ok l2 ∧ Sim (leaveExpr d1 p x).1 l2 := by
  have hl : p < l1.length := by rw [hs.len]; exact hlt
  have hr := hs.rel p hlt hl
  have hQ : QOK d1 x := by cases x; exact hs.qI; exact hs.qB
  obtain ⟨_, hloc⟩ := (hQ.mem p).mp hin
  have hc : l1[p].cancelled = true := by rw [hr.cancelled]; exact hdone
  -- abort
  have h1 : procStep false d1.st.freeI d1.st.freeB d1.st.procs[p] .abort = some (pAbort x d1.st.procs[p], .nop) := by
    cases x <;> simp only [waitLoc] at hloc <;> simp [procStep, hdone, hloc, pAbort]
  have e1 : do1 d1.st p .abort = { d1.st with procs := d1.st.procs.set p (pAbort x d1.st.procs[p]) } := by
    rw [do1_eq d1.st p .abort _ _ hnp hlt h1]; rfl
  let d2 : DState := ({ d1 with st := { d1.st with procs := d1.st.procs.set p (pAbort x d1.st.procs[p]) } }).setQ x ((d1.q x).erase p)
  have hd2p : d2.st.procs = d1.st.procs.set p (pAbort x d1.st.procs[p]) := by simp only [d2, setQ_st]
  have hsim2 : Sim d2 (l1.set p (bAbort x l1[p])) := by
    apply Sim_update d1 d2 l1 p _ _ hlt hs hd2p (Rel_abort _ _ x hr hloc)
    · by_cases hx : x = .I
      · subst hx
        exact QOK_erase d1 d2 .I p _ hlt hd2p (setQ_q_same _ _ _) hloc (pAbort_loc_ne _ _ _) hs.qI
      · refine QOK_set_same d1 d2 .I p _ hlt hd2p ?_ ?_ hs.qI
        · simp only [d2]; rw [setQ_q_other _ _ _ _ hx]; rfl
        · have hxB : x = .B := by cases x; exact absurd rfl hx; rfl
          subst hxB
          rw [hloc]
          simp only [pAbort, waitLoc]; decide
    · by_cases hx : x = .B
      · subst hx
        exact QOK_erase d1 d2 .B p _ hlt hd2p (setQ_q_same _ _ _) hloc (pAbort_loc_ne _ _ _) hs.qB
      · refine QOK_set_same d1 d2 .B p _ hlt hd2p ?_ ?_ hs.qB
        · simp only [d2]; rw [setQ_q_other _ _ _ _ hx]; rfl
        · have hxI : x = .I := by cases x; rfl; exact absurd rfl hx
          subst hxI
          rw [hloc]
          simp only [pAbort, waitLoc]; decide
  have hnp2 : d2.st.panicked = false := by simp only [d2, setQ_st]; exact hnp
  have hret := applyReturn_err l1 p x _ hl hr hloc hc
  unfold leaveExpr
  simp only [e1]
  split
  · obtain ⟨l3, ha, hs3, _⟩ := notify_sim x _ d2 _ rfl hsim2 hnp2
    refine ⟨l3, ?_, hs3⟩
    simp only [applyReturns, hret]
    exact ha
  · exact ⟨_, by simp only [applyReturns, hret], hsim2⟩

theorem cancel_ok (d : DState) (l : Ledger) (p : Nat) (hs : Sim d l) (inv : Inv d.st) : StepOK d l (.cancel p) := by
  unfold StepOK
  have hnp := inv.np
  by_cases hlt : p < d.st.procs.length
  · have hl : p < l.length := by rw [hs.len]; exact hlt
    have hr := hs.rel p hlt hl
    right
    have h1 : procStep false d.st.freeI d.st.freeB d.st.procs[p] .cancel = some (pDone d.st.procs[p], .nop) := rfl
    have e1 : do1 d.st p .cancel = { d.st with procs := d.st.procs.set p (pDone d.st.procs[p]) } := by
      rw [do1_eq d.st p .cancel _ _ hnp hlt h1]; rfl
    let d1 : DState := { d with st := { d.st with procs := d.st.procs.set p (pDone d.st.procs[p]) } }
    have hsim1 : Sim d1 (l.set p { l[p] with cancelled := true }) := by
      apply Sim_update d d1 l p _ _ hlt hs rfl (Rel_done _ _ hr)
      · exact QOK_set_same d d1 .I p _ hlt rfl rfl rfl hs.qI
      · exact QOK_set_same d d1 .B p _ hlt rfl rfl rfl hs.qB
    have hlt1 : p < d1.st.procs.length := by simp only [d1, List.length_set]; exact hlt
    have hdone1 : d1.st.procs[p].done = true := by simp only [d1, List.getElem_set_self, pDone]
    have hself : applySelf l (.cancel p) .none = .ok (l.set p { l[p] with cancelled := true }) := by
      simp [applySelf, Op.pid, List.getElem?_eq_getElem hl]
    simp only [dStep, dCancel_eq, e1]
    by_cases hqI : d1.qI.contains p = true
    · simp only [d1] at hqI
      simp only [hqI, ↓reduceIte]
      obtain ⟨l2, ha, hs2⟩ := leave_ok d1 _ p .I hsim1 hnp hlt1 (by show p ∈ d.qI; simpa using hqI) hdone1
      exact ⟨_, l2, by simp only [leaveExpr]; split <;> exact hself, ha, hs2⟩
    · have hqI' : d1.qI.contains p = false := by simpa using hqI
      simp only [d1] at hqI'
      simp only [hqI', Bool.false_eq_true, ↓reduceIte]
      by_cases hqB : d1.qB.contains p = true
      · simp only [d1] at hqB
        simp only [hqB, ↓reduceIte]
        obtain ⟨l2, ha, hs2⟩ := leave_ok d1 _ p .B hsim1 hnp hlt1 (by show p ∈ d.qB; simpa using hqB) hdone1
        exact ⟨_, l2, by simp only [leaveExpr]; split <;> exact hself, ha, hs2⟩
      · have hqB' : d1.qB.contains p = false := by simpa using hqB
        simp only [d1] at hqB'
        simp only [hqB', Bool.false_eq_true, ↓reduceIte]
        exact ⟨_, _, hself, rfl, hsim1⟩
  · left
    have : l[p]? = none := List.getElem?_eq_none (by rw [hs.len]; omega)
    exact ⟨fun hleg => hlt hleg, by simp [applySelf, Op.pid, this]⟩

/-! ### yield -/

theorem notify_setQ_other (d : DState) (x y : Sem) (q' : List Nat) (h : y ≠ x) :
    notify (d.setQ y q') x = ((notify d x).1.setQ y q', (notify d x).2) := by
  cases x <;> cases y <;> first | exact absurd rfl h | rfl

theorem notifyAux_woke_sub (x : Sem) : ∀ (q : List Nat) (s : State), ∀ w ∈ (notifyAux x s q).2.2, w.1 ∈ q := by
  intro q
  induction q with
  | nil => intro s w hw; simp [notifyAux] at hw
  | cons hd t ih =>
    intro s w hw
    unfold notifyAux at hw
    split at hw
    · simp only [List.mem_cons] at hw
      rcases hw with rfl | hw
      · simp
      · exact List.mem_cons_of_mem _ (ih _ w hw)
    · simp at hw

theorem notify_woke_sub (d : DState) (x : Sem) : ∀ w ∈ (notify d x).2, w.1 ∈ d.q x := by
  unfold notify
  exact notifyAux_woke_sub x _ _

/-- the new ledger entry of a search whose blocked call returned -/
def retBook (b : Book) (r : Res) : Except String Book :=
  match b.st, r with
  | .waitI, .ok => .ok { b with st := .holdI }
  | .waitB, .ok => .ok { b with st := .holdB, yielded := true }
  | .waitI, .err => if b.cancelled then .ok { b with st := .failed } else .error "spurious-failure"
  | .waitB, .err => if b.cancelled then .ok { b with st := .off } else .error "spurious-failure"
  | _, _ => .error "bad-event"

theorem applyReturn_eq (l : Ledger) (h : Nat) (r : Res) :
    applyReturn l h r = (match l[h]? with
      | none => .error "bad-event"
      | some b => match retBook b r with
        | .ok c => .ok (l.set h c)
        | .error e => .error e) := by
  unfold applyReturn retBook
  cases l[h]? with
  | none => rfl
  | some b =>
    simp only []
    cases b.st <;> cases r <;> simp <;> split <;> rfl

theorem applyReturn_set_comm (l : Ledger) (p h : Nat) (r : Res) (b b' : Book) (l0 : Ledger) (hne : h ≠ p)
    (ha : applyReturn (l.set p b) h r = .ok (l0.set p b)) (hl0 : ∃ c, l0 = l.set h c) :
    applyReturn (l.set p b') h r = .ok (l0.set p b') := by
  obtain ⟨c, rfl⟩ := hl0
  rw [applyReturn_eq] at ha ⊢
  have hg : ∀ c', (l.set p c')[h]? = l[h]? := fun c' => by rw [List.getElem?_set_ne (fun e => hne e.symm)]
  rw [hg] at ha ⊢
  cases hl : l[h]? with
  | none => simp [hl] at ha
  | some bh =>
    simp only [hl] at ha ⊢
    cases hrb : retBook bh r with
    | error e => simp [hrb] at ha
    | ok c' =>
      simp only [hrb, Except.ok.injEq] at ha ⊢
      -- ha : (l.set p b).set h c' = (l.set h c).set p b
      have hc : c' = c := by
        have hh : h < l.length := by
          have := List.getElem?_eq_some_iff.mp hl; exact this.1
        have := congrArg (fun t => t[h]?) ha
        simp only [List.getElem?_set_self (by simpa using hh), List.getElem?_set_ne hne.symm] at this
        rw [List.getElem?_set_self (by simpa using hh)] at this
        exact Option.some.inj this
      subst hc
      exact List.set_comm _ _ (fun e => hne e.symm)

theorem applyReturn_set_shape (l : Ledger) (p h : Nat) (r : Res) (b : Book) (X : Ledger) (hne : h ≠ p)
    (ha : applyReturn (l.set p b) h r = .ok X) : ∃ c, X = (l.set h c).set p b := by
  rw [applyReturn_eq] at ha
  cases hl : (l.set p b)[h]? with
  | none => simp [hl] at ha
  | some bh =>
    simp only [hl] at ha
    cases hrb : retBook bh r with
    | error e => simp [hrb] at ha
    | ok c =>
      simp only [hrb, Except.ok.injEq] at ha
      exact ⟨c, by rw [← ha]; exact List.set_comm _ _ (fun e => hne e.symm)⟩

/-- returns of other searches commute with what the ledger says about search `p` -/
theorem applyReturns_set_comm : ∀ (w : List (Nat × Res)) (l : Ledger) (p : Nat) (b : Book) (L : Ledger),
    (∀ x ∈ w, x.1 ≠ p) → applyReturns (l.set p b) w = .ok L →
    ∃ L0 : Ledger, L = L0.set p b ∧ L0.length = l.length ∧ ∀ b', applyReturns (l.set p b') w = .ok (L0.set p b') := by
  intro w
  induction w with
  | nil =>
    intro l p b L _ h
    simp only [applyReturns, Except.ok.injEq] at h
    exact ⟨l, h.symm, rfl, fun b' => rfl⟩
  | cons hd t ih =>
    intro l p b L hne h
    obtain ⟨hh, r⟩ := hd
    have hhp : hh ≠ p := hne (hh, r) (by simp)
    simp only [applyReturns] at h
    cases ha : applyReturn (l.set p b) hh r with
    | error e => simp [ha] at h
    | ok X =>
      simp only [ha] at h
      obtain ⟨c, rfl⟩ := applyReturn_set_shape l p hh r b X hhp ha
      obtain ⟨L0, hL, hlen, hall⟩ := ih (l.set hh c) p b L (fun x hx => hne x (by simp [hx])) h
      refine ⟨L0, hL, by simpa using hlen, ?_⟩
      intro b'
      simp only [applyReturns]
      rw [applyReturn_set_comm l p hh r b b' (l.set hh c) hhp ha ⟨c, rfl⟩]
      exact hall b'

theorem notify_q_other (d : DState) (x y : Sem) (h : y ≠ x) : (notify d x).1.q y = d.q y := by
  cases x <;> cases y <;> first | exact absurd rfl h | rfl

theorem notify_st_setQ (d : DState) (x y : Sem) (q' : List Nat) (h : y ≠ x) :
    (notify (d.setQ y q') x).1.st = (notify d x).1.st := by
  rw [notify_setQ_other d x y q' h]; exact setQ_st _ _ _

def pYield (p : Proc) : Proc :=
  match p.sem with
  | some _ => { p with loc := .waitB, sem := none, rels := p.rels + 1 }
  | none => { p with loc := .waitB }

theorem Rel_yield (p : Proc) (b : Book) (hr : Rel p b) : Rel (pYield p) { b with st := .waitB } := by
  obtain ⟨h1, h2, h3, h4, h5, h6, h7, h8, h9⟩ := hr
  unfold pYield
  cases hs : p.sem with
  | none => exact ⟨by simp [stOf], h2, h3, h4, h5, by simp, by simp, by simp [hs], by simp [hs]⟩
  | some x => exact ⟨by simp [stOf], h2, h3, h4, h5, by simp, by simp, by simp, by simp⟩

theorem pYield_loc (p : Proc) : (pYield p).loc = .waitB := by unfold pYield; cases p.sem <;> rfl
theorem pYield_done (p : Proc) : (pYield p).done = p.done := by unfold pYield; cases p.sem <;> rfl

/-- the part of `Yield` after the own slot was given back and the waiters were notified: `semBatch.Acquire`, seen from
    the state in which the search is already appended to the batch queue -/
theorem batch_acquire_ok (d2 : DState) (l2 : Ledger) (p : Nat) (hnp : d2.st.panicked = false)
    (hs : Sim (d2.setQ .B (d2.qB ++ [p])) l2) (hlt : p < d2.st.procs.length) (hnot : p ∉ d2.qB) :
    let r := semAcquire d2 .B p
    ∃ b', Sim r.1 (l2.set p b') ∧
      (r.2 = .err → l2[p]?.map (·.cancelled) = some true ∧ b' = bAbort .B (l2[p]?.getD {})) ∧
      (r.2 = .ok → b' = bRun .B (l2[p]?.getD {})) ∧
      (r.2 = .blocked → b' = l2[p]?.getD {}) ∧ r.2 ≠ .none := by
  intro r
  have hl : p < l2.length := by rw [hs.len]; simpa [setQ_st] using hlt
  have hr : Rel d2.st.procs[p] l2[p] := by
    have := hs.rel p (by simpa [setQ_st] using hlt) hl
    simpa [setQ_st] using this
  have hloc : d2.st.procs[p].loc = .waitB := by
    have := (hs.qB.mem p).mp (by simp [DState.q, DState.setQ])
    obtain ⟨_, h⟩ := this
    simpa [setQ_st, waitLoc] using h
  have hgetD : l2[p]?.getD {} = l2[p] := by simp [List.getElem?_eq_getElem hl]
  have hqB' : ((d2.setQ .B (d2.qB ++ [p])).q .B).erase p = d2.qB := by
    simp only [DState.q, DState.setQ]
    rw [List.erase_append_right _ hnot]; simp
  simp only [r, semAcquire, List.getElem?_eq_getElem hlt]
  by_cases hdone : d2.st.procs[p].done = true
  · -- context done: the batch acquisition fails
    simp only [hdone, ↓reduceIte]
    have h1 : procStep false d2.st.freeI d2.st.freeB d2.st.procs[p] .abort = some (pAbort .B d2.st.procs[p], .nop) := by
      simp [procStep, hdone, hloc, pAbort]
    have e1 : do1 d2.st p .abort = { d2.st with procs := d2.st.procs.set p (pAbort .B d2.st.procs[p]) } := by
      rw [do1_eq d2.st p .abort _ _ hnp hlt h1]; rfl
    rw [e1]
    refine ⟨bAbort .B l2[p], ?_, ?_, by simp, by simp, by simp⟩
    · apply Sim_update (d2.setQ .B (d2.qB ++ [p])) _ l2 p (pAbort .B d2.st.procs[p]) _ (by simpa [setQ_st] using hlt) hs
        (by simp [setQ_st]) (Rel_abort _ _ .B hr hloc)
      · refine QOK_set_same (d2.setQ .B (d2.qB ++ [p])) _ .I p (pAbort .B d2.st.procs[p]) (by simpa [setQ_st] using hlt) (by simp [setQ_st]) rfl ?_ hs.qI
        simp only [setQ_st, hloc, pAbort, waitLoc]; decide
      · refine QOK_erase (d2.setQ .B (d2.qB ++ [p])) _ .B p (pAbort .B d2.st.procs[p]) (by simpa [setQ_st] using hlt) (by simp [setQ_st]) ?_ ?_ ?_ hs.qB
        · rw [hqB']; rfl
        · simpa [setQ_st, waitLoc] using hloc
        · exact pAbort_loc_ne _ _ _
    · intro _
      refine ⟨?_, by rw [hgetD]⟩
      simp [List.getElem?_eq_getElem hl, hr.cancelled, hdone]
  · have hdone' : d2.st.procs[p].done = false := by simpa using hdone
    simp only [hdone', Bool.false_eq_true, ↓reduceIte]
    by_cases hf : (d2.st.free .B && (d2.q .B).isEmpty) = true
    · simp only [hf, ↓reduceIte]
      have hfB : d2.st.free .B = true := by simp only [Bool.and_eq_true] at hf; exact hf.1
      rw [grant_wake d2.st .B p hnp hlt (by simpa [waitLoc] using hloc) hfB]
      refine ⟨bRun .B l2[p], ?_, by simp, by intro _; rw [hgetD], by simp, by simp⟩
      have hp3 : (incCur { d2.st with procs := d2.st.procs.set p (pRun .B d2.st.procs[p]) } .B).procs =
          (d2.setQ .B (d2.qB ++ [p])).st.procs.set p (pRun .B d2.st.procs[p]) := by
        rw [incCur_procs]; simp [setQ_st]
      apply Sim_update (d2.setQ .B (d2.qB ++ [p])) _ l2 p _ _ (by simpa [setQ_st] using hlt) hs hp3
        (Rel_run _ _ .B hr (by simpa [waitLoc] using hloc))
      · refine QOK_set_same (d2.setQ .B (d2.qB ++ [p])) _ .I p _ (by simpa [setQ_st] using hlt) hp3 rfl ?_ hs.qI
        simp only [setQ_st, hloc, pRun_loc, waitLoc]; decide
      · refine QOK_erase (d2.setQ .B (d2.qB ++ [p])) _ .B p _ (by simpa [setQ_st] using hlt) hp3 ?_ ?_ ?_ hs.qB
        · rw [hqB']; rfl
        · simpa [setQ_st, waitLoc] using hloc
        · rw [pRun_loc]; exact waitLoc_ne_run _
    · have hf' : (d2.st.free .B && (d2.q .B).isEmpty) = false := by simpa using hf
      simp only [hf', Bool.false_eq_true, ↓reduceIte]
      refine ⟨l2[p], ?_, by simp, by simp, by intro _; rw [hgetD], by simp⟩
      have : l2.set p l2[p] = l2 := List.set_getElem_self hl
      rw [this]
      exact hs

/-- the ledger's verdict on an effective `Yield` whose result is `r`, given the entry `b` before the call -/
def yBook (b : Book) : Res → Book
  | .ok => { b with st := .holdB, yielded := true }
  | .blocked => { b with st := .waitB }
  | _ => { b with st := .off }

theorem applySelf_yield_eff (l : Ledger) (p : Nat) (r : Res) (hl : p < l.length)
    (hst : l[p].st = .holdI ∨ l[p].st = .holdB ∨ l[p].st = .off)
    (hc : (l[p].yielded || !(l[p].expired || l[p].released)) = false) (hr : r ≠ .none)
    (herr : r = .err → l[p].cancelled = true) :
    applySelf l (.yield p) r = .ok (l.set p (yBook l[p] r)) := by
  simp only [applySelf, Op.pid, List.getElem?_eq_getElem hl]
  rcases hst with h | h | h <;> simp only [h, hc, Bool.false_eq_true, ↓reduceIte] <;>
    (cases r <;> simp_all [yBook])

theorem yield_ok (d : DState) (l : Ledger) (p : Nat) (hs : Sim d l) (inv : Inv d.st) : StepOK d l (.yield p) := by
  unfold StepOK
  have hnp := inv.np
  by_cases hlt : p < d.st.procs.length
  · have hl : p < l.length := by rw [hs.len]; exact hlt
    have hr := hs.rel p hlt hl
    simp only [dStep, dYield, List.getElem?_eq_getElem hlt]
    by_cases hloc : d.st.procs[p].loc = .run
    · have hst := (stOf_run_iff _ hr.nwI hr.nwB).mpr hloc
      rw [← hr.st] at hst
      simp only [hloc, ne_eq, not_true_eq_false, ↓reduceIte]
      have hcond : (l[p].yielded || !(l[p].expired || l[p].released)) = (d.st.procs[p].yielded || !d.st.procs[p].expired) := by
        rw [hr.yielded, hr.expired]
      right
      by_cases hno : (d.st.procs[p].yielded || !d.st.procs[p].expired) = true
      · -- nothing to do
        simp only [hno, ↓reduceIte]
        refine ⟨l, l, ?_, rfl, hs⟩
        have hc1 : (l[p].yielded || !(l[p].expired || l[p].released)) = true := by rw [hcond]; exact hno
        simp only [applySelf, Op.pid, List.getElem?_eq_getElem hl]
        rcases hst with h | h | h <;> simp only [h, hc1, ↓reduceIte]
      · have hno' : (d.st.procs[p].yielded || !d.st.procs[p].expired) = false := by simpa using hno
        simp only [hno', Bool.false_eq_true, ↓reduceIte]
        have hy : d.st.procs[p].yielded = false := by
          simp only [Bool.or_eq_false_iff] at hno'; exact hno'.1
        have he : d.st.procs[p].expired = true := by
          simp only [Bool.or_eq_false_iff, Bool.not_eq_false'] at hno'; exact hno'.2
        -- the own step: give the slot back, go to the batch queue
        have hd1 : ∃ s1, do1 d.st p .yield = s1 ∧ s1.procs = d.st.procs.set p (pYield d.st.procs[p]) ∧ s1.panicked = false := by
          cases hsm : d.st.procs[p].sem with
          | none =>
            have h1 : procStep false d.st.freeI d.st.freeB d.st.procs[p] .yield = some (pYield d.st.procs[p], .nop) := by
              simp [procStep, hloc, hy, he, hsm, pYield]
            exact ⟨_, rfl, by rw [do1_eq d.st p .yield _ _ hnp hlt h1]; rfl, by rw [do1_eq d.st p .yield _ _ hnp hlt h1]; exact hnp⟩
          | some x =>
            have h1 : procStep false d.st.freeI d.st.freeB d.st.procs[p] .yield = some (pYield d.st.procs[p], .dec x) := by
              simp [procStep, hloc, hy, he, hsm, pYield]
            have hpos : 0 < ({ d.st with procs := d.st.procs.set p (pYield d.st.procs[p]) } : State).cur x := by
              have := cur_pos d.st inv p hlt x (by simp [Proc.holds, hsm])
              cases x <;> exact this
            refine ⟨_, rfl, ?_, ?_⟩
            · rw [do1_eq d.st p .yield _ _ hnp hlt h1, applyEff_dec _ _ hpos, decCur_procs]
            · rw [do1_eq d.st p .yield _ _ hnp hlt h1, applyEff_dec _ _ hpos, decCur_panicked]; exact hnp
        obtain ⟨s1, hs1, hp1, hnp1⟩ := hd1
        rw [hs1]
        have hpnotB : p ∉ d.qB := by
          intro hm
          obtain ⟨_, h⟩ := (hs.qB.mem p).mp hm
          rw [hloc] at h; exact absurd h (waitLoc_ne_run _)
        have hpnotI : p ∉ d.qI := by
          intro hm
          obtain ⟨_, h⟩ := (hs.qI.mem p).mp hm
          rw [hloc] at h; exact absurd h (waitLoc_ne_run _)
        let wb : Book := { l[p] with st := .waitB }
        let d1 : DState := { d with st := s1 }
        have hsim1 : Sim (d1.setQ .B (d.qB ++ [p])) (l.set p wb) := by
          apply Sim_update d _ l p (pYield d.st.procs[p]) wb hlt hs (by simp [d1, setQ_st, hp1]) (Rel_yield _ _ hr)
          · refine QOK_set_same d _ .I p (pYield d.st.procs[p]) hlt (by simp [d1, setQ_st, hp1]) rfl ?_ hs.qI
            rw [pYield_loc, hloc]; decide
          · refine QOK_enqueue d _ .B p (pYield d.st.procs[p]) hlt (by simp [d1, setQ_st, hp1]) rfl ?_ (pYield_loc _) hs.qB
            rw [hloc]; decide
        have hcf : (l[p].yielded || !(l[p].expired || l[p].released)) = false := by rw [hcond]; exact hno'
        have hwbget : (l.set p wb)[p]? = some wb := by simp [hl]
        cases hsm : d.st.procs[p].sem with
        | none =>
          simp only []
          have hlt1 : p < d1.st.procs.length := by simp only [d1, hp1, List.length_set]; exact hlt
          obtain ⟨b', hsim3, herr, hok, hblk, hnn⟩ := batch_acquire_ok d1 (l.set p wb) p hnp1 hsim1 hlt1 hpnotB
          simp only [hwbget, Option.map_some, Option.some.injEq, Option.getD_some] at herr hok hblk
          have hself := applySelf_yield_eff l p (semAcquire d1 .B p).2 hl hst hcf hnn (fun h => (herr h).1)
          refine ⟨_, _, hself, rfl, ?_⟩
          have hb' : b' = yBook l[p] (semAcquire d1 .B p).2 := by
            cases hres : (semAcquire d1 .B p).2 with
            | ok => rw [hok hres]; rfl
            | err => rw [(herr hres).2]; rfl
            | blocked => rw [hblk hres]; rfl
            | none => exact absurd hres hnn
          rw [← hb']
          simpa [List.set_set] using hsim3
        | some x =>
          have hxI : x = .I := by
            cases x with
            | I => rfl
            | B => have := hr.semB hsm; rw [hy] at this; cases this
          subst hxI
          simp only []
          -- notify the interactive waiters, seen from the state with `p` already in the batch queue
          obtain ⟨l2, ha2, hs2, hnp2⟩ := notify_sim .I _ (d1.setQ .B (d.qB ++ [p])) _ rfl hsim1 (by simpa [setQ_st] using hnp1)
          rw [notify_setQ_other d1 .I .B _ (by decide)] at ha2 hs2 hnp2
          simp only [setQ_st] at hnp2
          have hw : ∀ x ∈ (notify d1 .I).2, x.1 ≠ p := by
            intro x hx e
            have := notify_woke_sub d1 .I x hx
            rw [e] at this
            exact hpnotI this
          obtain ⟨L0, hL, hlen, hall⟩ := applyReturns_set_comm _ l p wb l2 hw ha2
          have hqB2 : (notify d1 .I).1.qB = d.qB := notify_q_other d1 .I .B (by decide)
          have hlt2 : p < (notify d1 .I).1.st.procs.length := by
            have := hs2.len
            simp only [setQ_st] at this
            rw [← this, hL, List.length_set, hlen]; exact hl
          rw [← hqB2] at hs2
          obtain ⟨b', hsim3, herr, hok, hblk, hnn⟩ := batch_acquire_ok (notify d1 .I).1 l2 p hnp2 hs2 hlt2 (by rw [hqB2]; exact hpnotB)
          have hl2get : l2[p]? = some wb := by rw [hL]; simp [hlen, hl]
          simp only [hl2get, Option.map_some, Option.some.injEq, Option.getD_some] at herr hok hblk
          have hself := applySelf_yield_eff l p (semAcquire (notify d1 .I).1 .B p).2 hl hst hcf hnn (fun h => (herr h).1)
          have hb' : b' = yBook l[p] (semAcquire (notify d1 .I).1 .B p).2 := by
            cases hres : (semAcquire (notify d1 .I).1 .B p).2 with
            | ok => rw [hok hres]; rfl
            | err => rw [(herr hres).2]; rfl
            | blocked => rw [hblk hres]; rfl
            | none => exact absurd hres hnn
          refine ⟨_, L0.set p b', hself, ?_, ?_⟩
          · rw [← hb']; exact hall b'
          · rw [hL, List.set_set] at hsim3; exact hsim3
    · left
      refine ⟨fun hleg => by simp only [Legal, List.getElem?_eq_getElem hlt, Option.map_some, Option.some.injEq] at hleg; exact hloc hleg, ?_⟩
      simp only [hloc, ne_eq, not_false_eq_true, ↓reduceIte, applySelf, Op.pid, List.getElem?_eq_getElem hl]
      have hst : ¬ (l[p].st = .holdI ∨ l[p].st = .holdB ∨ l[p].st = .off) := by
        rw [hr.st]; exact fun h => hloc ((stOf_run_iff _ hr.nwI hr.nwB).mp h)
      cases hb : l[p].st <;> simp_all
  · left
    have : l[p]? = none := List.getElem?_eq_none (by rw [hs.len]; omega)
    exact ⟨fun hleg => by have hn : d.st.procs[p]? = none := List.getElem?_eq_none (by omega); simp [Legal, hn] at hleg, by simp [applySelf, Op.pid, this]⟩

/-! ### all operations, all scripts -/

theorem dStep_ok (d : DState) (l : Ledger) (op : Op) (hs : Sim d l) (inv : Inv d.st) : StepOK d l op := by
  cases op with
  | acq p => exact acq_ok d l p hs inv
  | cancel p => exact cancel_ok d l p hs inv
  | expire p => exact expire_ok d l p hs inv.np
  | yield p => exact yield_ok d l p hs inv
  | rel p => exact rel_ok d l p hs inv

theorem reach_caps {strict : Bool} {s0 s : State} (h : Reach strict s0 s) : s.capI = s0.capI ∧ s.capB = s0.capB := by
  induction h with
  | refl => exact ⟨rfl, rfl⟩
  | step pid k _ hs ih =>
    obtain ⟨_, _, p', e, _, rfl⟩ := step_some hs
    rcases e with _ | (_ | _) | (_ | _) <;> simp only [State.applyEff] <;> (try split) <;> exact ih

/-- on every run of the director model the ledger check passes, or complains only that the script is one no client can
    issue (`bad-event`: e.g. `Release` on a search that never acquired) -/
theorem checkSteps_model (s0 : State) (h0 : Inv s0) : ∀ (ops : List Op) (d : DState) (l : Ledger),
    Reach false s0 d.st → Sim d l →
    checkSteps s0.capI s0.capB l ops (dRun d ops).2 = .ok () ∨
    checkSteps s0.capI s0.capB l ops (dRun d ops).2 = .error "bad-event" := by
  intro ops
  induction ops with
  | nil => intro d l _ _; left; rfl
  | cons op rest ih =>
    intro d l hreach hs
    have inv := reach_inv h0 hreach
    have hreach1 := dStep_reach d op hreach
    have inv1 := reach_inv h0 hreach1
    obtain ⟨c1, c2⟩ := reach_caps hreach1
    simp only [dRun, checkSteps, markFired, List.foldl_nil]
    rcases dStep_ok d l op hs inv with ⟨_, hbad⟩ | ⟨l1, l2, h1, h2, hs2⟩
    · right; simp only [hbad]
    · simp only [h1, h2]
      have hobs := checkObs_ok (out := (dStep d op).2) (dStep d op).1 l2 hs2 inv1
      rw [c1, c2] at hobs
      simp only [hobs]
      exact ih (dStep d op).1 l2 hreach1 hs2

/-- every operation of the script is one a client can issue at the moment it is issued -/
def LegalRun : DState → List Op → Prop
  | _, [] => True
  | d, op :: rest => Legal d op ∧ LegalRun (dStep d op).1 rest

theorem checkSteps_model_legal (s0 : State) (h0 : Inv s0) : ∀ (ops : List Op) (d : DState) (l : Ledger),
    Reach false s0 d.st → Sim d l → LegalRun d ops →
    checkSteps s0.capI s0.capB l ops (dRun d ops).2 = .ok () := by
  intro ops
  induction ops with
  | nil => intro d l _ _ _; rfl
  | cons op rest ih =>
    intro d l hreach hs hleg
    have inv := reach_inv h0 hreach
    have hreach1 := dStep_reach d op hreach
    have inv1 := reach_inv h0 hreach1
    obtain ⟨c1, c2⟩ := reach_caps hreach1
    simp only [dRun, checkSteps, markFired, List.foldl_nil]
    rcases dStep_ok d l op hs inv with ⟨hnl, _⟩ | ⟨l1, l2, h1, h2, hs2⟩
    · exact absurd hleg.1 hnl
    · simp only [h1, h2]
      have hobs := checkObs_ok (out := (dStep d op).2) (dStep d op).1 l2 hs2 inv1
      rw [c1, c2] at hobs
      simp only [hobs]
      exact ih (dStep d op).1 l2 hreach1 hs2 hleg.2

theorem countP_fresh_loc (x : Loc) (hx : x ≠ .idle) (dones : List Bool) :
    (dones.map Proc.fresh).countP (fun p => p.loc == x) = 0 := by
  apply countP_eq_zero_of
  intro p hp
  simp only [List.mem_map] at hp
  obtain ⟨d, _, rfl⟩ := hp
  simp only [Proc.fresh]
  cases x <;> first | exact absurd rfl hx | rfl

theorem sim_init (capacity batchdiv : Nat) (dones : List Bool) :
    Sim (dInit capacity batchdiv dones) (dones.map fun d => ({ cancelled := d } : Book)) := by
  refine ⟨by simp [dInit, init], ?_, ?_, ?_⟩
  · intro i h1 h2
    simp only [dInit, init, List.getElem_map]
    exact ⟨rfl, rfl, rfl, rfl, rfl, by simp [Proc.fresh], by simp [Proc.fresh], by simp [Proc.fresh], by simp [Proc.fresh]⟩
  · refine ⟨by simp [dInit, DState.q], ?_, ?_⟩
    · intro i
      simp only [dInit, DState.q, List.not_mem_nil, init, List.length_map, List.getElem_map, false_iff, not_exists]
      intro h; simp [Proc.fresh, waitLoc]
    · simp only [dInit, DState.q, List.length_nil, init]
      exact (countP_fresh_loc _ (by simp [waitLoc]) dones).symm
  · refine ⟨by simp [dInit, DState.q], ?_, ?_⟩
    · intro i
      simp only [dInit, DState.q, List.not_mem_nil, init, List.length_map, List.getElem_map, false_iff, not_exists]
      intro h; simp [Proc.fresh, waitLoc]
    · simp only [dInit, DState.q, List.length_nil, init]
      exact (countP_fresh_loc _ (by simp [waitLoc]) dones).symm

/-- **the executable statement of C20 holds of the director model**: for every capacity, batch divisor, set of
    initially-done contexts and operation script, `Spec.checkRun` evaluated on what the model observes finds no
    over-capacity, no counter that disagrees with the owners, no spurious failure and no leak at quiescence — its only
    possible complaint is `bad-event`, for scripts a client cannot issue -/
theorem checkRun_model (capacity batchdiv : Nat) (dones : List Bool) (ops : List Op) :
    checkRun capacity (batchCap capacity batchdiv) dones ops (dRun (dInit capacity batchdiv dones) ops).2 = none ∨
    checkRun capacity (batchCap capacity batchdiv) dones ops (dRun (dInit capacity batchdiv dones) ops).2 = some "bad-event" := by
  have h := checkSteps_model (init capacity (batchCap capacity batchdiv) dones) (init_inv _ _ _) ops
    (dInit capacity batchdiv dones) _ Reach.refl (sim_init capacity batchdiv dones)
  unfold checkRun
  simp only [init] at h
  rcases h with h | h
  · left; simp only [h]
  · right; simp only [h]

/-- for scripts a client can issue (`LegalRun`) the statement holds outright -/
theorem checkRun_model_legal (capacity batchdiv : Nat) (dones : List Bool) (ops : List Op)
    (hleg : LegalRun (dInit capacity batchdiv dones) ops) :
    checkRun capacity (batchCap capacity batchdiv) dones ops (dRun (dInit capacity batchdiv dones) ops).2 = none := by
  have h := checkSteps_model_legal (init capacity (batchCap capacity batchdiv) dones) (init_inv _ _ _) ops
    (dInit capacity batchdiv dones) _ Reach.refl (sim_init capacity batchdiv dones) hleg
  unfold checkRun
  simp only [init] at h
  simp only [h]

end ZoektModel.C20
